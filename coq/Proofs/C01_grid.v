(* C01 -- all coordinate accessors are the same function of (row, col).
   Part 1 (any arithmetic, in particular binary64): block assembly over any chunking = one block = meshgrid of the
   full vectors; slicing the vectors first (numpy path) = slicing the assembled 2-D array (dask path).
   Part 2 (reals): that common function is the canonical map of the property text. *)
From Coq Require Import Reals ZArith List Lia Lra Bool.
From PR Require Import Base.Num Base.RNum Model.Grid Model.C01_Area Proofs.Grid_real.
Import ListNotations.
Open Scope Z_scope.

(* ---------------------------------------------------------------- lists *)
Lemma zrange_length s n : length (zrange s n) = n.
Proof. revert s; induction n as [|n IH]; intros s; cbn; [reflexivity|]. now rewrite IH. Qed.

Lemma zrange_app s n m : zrange s (n + m) = zrange s n ++ zrange (s + Z.of_nat n) m.
Proof.
  revert s; induction n as [|n IH]; intros s.
  - cbn. now rewrite Z.add_0_r.
  - cbn [Nat.add zrange app]. rewrite IH. replace (s + 1 + Z.of_nat n) with (s + Z.of_nat (S n)) by lia. reflexivity.
Qed.

Lemma zrange_nth s n i d : (i < n)%nat -> nth i (zrange s n) d = s + Z.of_nat i.
Proof.
  revert s i; induction n as [|n IH]; intros s i Hi; [lia|].
  destruct i as [|i]; cbn [zrange nth]; [lia|]. rewrite IH by lia. lia.
Qed.

Lemma c01_range_length s e : length (c01_range s e) = Z.to_nat (e - s).
Proof. apply zrange_length. Qed.

Lemma c01_range_split s n m : 0 <= n -> 0 <= m ->
  c01_range s (s + (n + m)) = c01_range s (s + n) ++ c01_range (s + n) (s + (n + m)).
Proof.
  intros Hn Hm. unfold c01_range.
  replace (Z.to_nat (s + (n + m) - s)) with (Z.to_nat n + Z.to_nat m)%nat by lia.
  rewrite zrange_app. replace (s + n - s) with n by lia.
  replace (s + (n + m) - (s + n)) with m by lia. now rewrite Z2Nat.id by lia.
Qed.

Lemma c01_range_empty s : c01_range s s = [].
Proof. unfold c01_range. now rewrite Z.sub_diag. Qed.

Lemma c01_sumZ_nonneg l : Forall (fun x => 0 <= x) l -> 0 <= c01_sumZ l.
Proof. induction 1; cbn; lia. Qed.

Lemma c01_select_map_zrange {A} (f : Z -> A) d n idx :
  Forall (fun i => 0 <= i < Z.of_nat n) idx -> c01_select d idx (map f (zrange 0 n)) = map f idx.
Proof.
  intros H. unfold c01_select. apply map_ext_in. intros i Hi.
  rewrite Forall_forall in H. specialize (H i Hi).
  rewrite (nth_indep _ d (f 0)) by (rewrite map_length, zrange_length; lia).
  rewrite map_nth. rewrite zrange_nth by lia. f_equal. lia.
Qed.

Section Generic.
  Context {T : Type} (OP : ops T).

  Lemma c01_mesh_app_y (xs ys1 ys2 : list T) : c01_mesh (T:=T) xs (ys1 ++ ys2) = c01_mesh xs ys1 ++ c01_mesh xs ys2.
  Proof. unfold c01_mesh. apply map_app. Qed.

  Lemma c01_mesh_app_x (xs1 xs2 ys : list T) :
    c01_mesh (T:=T) (xs1 ++ xs2) ys = c01_hcat (c01_mesh xs1 ys) (c01_mesh xs2 ys).
  Proof. unfold c01_mesh. induction ys as [|y ys IH]; cbn; [reflexivity|]. rewrite map_app, IH. reflexivity. Qed.

  Lemma c01_vec_x_split a c0 n m : 0 <= n -> 0 <= m ->
    c01_vec_x OP a c0 (c0 + (n + m)) = c01_vec_x OP a c0 (c0 + n) ++ c01_vec_x OP a (c0 + n) (c0 + (n + m)).
  Proof. intros. unfold c01_vec_x. rewrite c01_range_split by assumption. apply map_app. Qed.
  Lemma c01_vec_y_split a r0 n m : 0 <= n -> 0 <= m ->
    c01_vec_y OP a r0 (r0 + (n + m)) = c01_vec_y OP a r0 (r0 + n) ++ c01_vec_y OP a (r0 + n) (r0 + (n + m)).
  Proof. intros. unfold c01_vec_y. rewrite c01_range_split by assumption. apply map_app. Qed.

  (* a row of blocks over any list of column chunks is the single block spanning them *)
  Lemma c01_hblocks_eq a r0 r1 cch : Forall (fun x => 0 <= x) cch -> forall c0,
    c01_hblocks OP a r0 r1 c0 cch = c01_block OP a r0 r1 c0 (c0 + c01_sumZ cch).
  Proof.
    induction 1 as [|n rest Hn Hr IH]; intros c0; cbn [c01_hblocks c01_sumZ].
    - rewrite Z.add_0_r. unfold c01_block, c01_vec_x, c01_vec_y, c01_mesh. rewrite c01_range_empty. cbn.
      now rewrite map_map.
    - rewrite IH. unfold c01_block.
      rewrite (c01_vec_x_split a c0 n (c01_sumZ rest)) by (auto using c01_sumZ_nonneg).
      rewrite c01_mesh_app_x. do 2 f_equal. f_equal. lia.
  Qed.

  (* the blocks of ANY row/column chunking assemble to the single block spanning the chunks *)
  Lemma c01_assemble_eq a rch cch : Forall (fun x => 0 <= x) rch -> Forall (fun x => 0 <= x) cch -> forall r0 c0,
    c01_assemble OP a r0 c0 rch cch = c01_block OP a r0 (r0 + c01_sumZ rch) c0 (c0 + c01_sumZ cch).
  Proof.
    intros Hr Hc. induction Hr as [|n rest Hn Hrest IH]; intros r0 c0; cbn [c01_assemble c01_sumZ].
    - rewrite Z.add_0_r. unfold c01_block, c01_vec_y. now rewrite c01_range_empty.
    - rewrite IH, c01_hblocks_eq by assumption. unfold c01_block.
      rewrite (c01_vec_y_split a r0 n (c01_sumZ rest)) by (auto using c01_sumZ_nonneg).
      rewrite c01_mesh_app_y. do 3 f_equal. lia.
  Qed.

  Definition c01_grid_fn (a : area T) (rows cols : list Z) : list (list (T * T)) :=
    map (fun r => map (fun c => (proj_x OP a c, proj_y OP a r)) cols) rows.
  Definition c01_in_range (n : Z) (idx : list Z) : Prop := Forall (fun i => 0 <= i < n) idx.

  Lemma c01_in_range_nat n idx : 0 <= n -> c01_in_range n idx -> Forall (fun i => 0 <= i < Z.of_nat (Z.to_nat n)) idx.
  Proof. intros Hn H. eapply Forall_impl; [|exact H]. cbn. intros; lia. Qed.

  Lemma c01_coords_numpy_fn a rows cols : 0 <= width a -> 0 <= height a ->
    c01_in_range (height a) rows -> c01_in_range (width a) cols ->
    c01_coords_numpy OP a rows cols = c01_grid_fn a rows cols.
  Proof.
    intros Hw Hh Hr Hc. unfold c01_coords_numpy, c01_vec_x, c01_vec_y, c01_range, c01_grid_fn, c01_mesh.
    rewrite !Z.sub_0_r.
    rewrite !c01_select_map_zrange by (apply c01_in_range_nat; assumption).
    rewrite map_map. apply map_ext. intros r. now rewrite map_map.
  Qed.

  Lemma c01_block_full_fn a : 0 <= width a -> 0 <= height a ->
    c01_block OP a 0 (height a) 0 (width a) =
    map (fun r => map (fun c => (proj_x OP a c, proj_y OP a r)) (zrange 0 (Z.to_nat (width a)))) (zrange 0 (Z.to_nat (height a))).
  Proof.
    intros Hw Hh. unfold c01_block, c01_vec_x, c01_vec_y, c01_range, c01_mesh. rewrite !Z.sub_0_r.
    rewrite map_map. apply map_ext. intros r. now rewrite map_map.
  Qed.

  Lemma c01_coords_dask_fn a rch cch rows cols :
    Forall (fun x => 0 <= x) rch -> Forall (fun x => 0 <= x) cch ->
    c01_sumZ rch = height a -> c01_sumZ cch = width a ->
    c01_in_range (height a) rows -> c01_in_range (width a) cols ->
    c01_coords_dask OP a rch cch rows cols = c01_grid_fn a rows cols.
  Proof.
    intros Hrc Hcc Sh Sw Hr Hc.
    assert (Hh : 0 <= height a) by (rewrite <- Sh; auto using c01_sumZ_nonneg).
    assert (Hw : 0 <= width a) by (rewrite <- Sw; auto using c01_sumZ_nonneg).
    unfold c01_coords_dask. rewrite c01_assemble_eq by assumption. cbn [Z.add]. rewrite Sh, Sw.
    rewrite c01_block_full_fn by assumption. rewrite map_map.
    rewrite c01_select_map_zrange by (apply c01_in_range_nat; assumption).
    unfold c01_grid_fn. apply map_ext. intros r.
    apply c01_select_map_zrange. apply c01_in_range_nat; assumption.
  Qed.

  (* vectors: entry c of the x vector is proj_x c *)
  Lemma c01_vec_x_nth a c d : 0 <= c < width a -> nth (Z.to_nat c) (c01_vec_x OP a 0 (width a)) d = proj_x OP a c.
  Proof.
    intros Hc. unfold c01_vec_x, c01_range. rewrite Z.sub_0_r.
    rewrite (nth_indep _ d (proj_x OP a 0)) by (rewrite map_length, zrange_length; lia).
    rewrite map_nth, zrange_nth by lia. f_equal. lia.
  Qed.
  Lemma c01_vec_y_nth a r d : 0 <= r < height a -> nth (Z.to_nat r) (c01_vec_y OP a 0 (height a)) d = proj_y OP a r.
  Proof.
    intros Hr. unfold c01_vec_y, c01_range. rewrite Z.sub_0_r.
    rewrite (nth_indep _ d (proj_y OP a 0)) by (rewrite map_length, zrange_length; lia).
    rewrite map_nth, zrange_nth by lia. f_equal. lia.
  Qed.
  Lemma c01_vec_x_length a : length (c01_vec_x OP a 0 (width a)) = Z.to_nat (width a).
  Proof. unfold c01_vec_x. rewrite map_length, c01_range_length. f_equal. lia. Qed.
  Lemma c01_vec_y_length a : length (c01_vec_y OP a 0 (height a)) = Z.to_nat (height a).
  Proof. unfold c01_vec_y. rewrite map_length, c01_range_length. f_equal. lia. Qed.
End Generic.

(* ---------------------------------------------------------------- reals: the common function is the canonical map *)
Open Scope R_scope.

Definition c01_canon_x (a : area R) (c : Z) : R := xmin a + (IZR c + /2) * dxR a.
Definition c01_canon_y (a : area R) (r : Z) : R := ymax a - (IZR r + /2) * dyR a.
Definition c01_canon_grid (a : area R) (rows cols : list Z) : list (list (R * R)) :=
  map (fun r => map (fun c => (c01_canon_x a c, c01_canon_y a r)) cols) rows.

Lemma c01_grid_fn_canon a rows cols : c01_grid_fn RO a rows cols = c01_canon_grid a rows cols.
Proof.
  unfold c01_grid_fn, c01_canon_grid. apply map_ext. intros r. apply map_ext. intros c.
  now rewrite proj_x_canonical, proj_y_canonical.
Qed.

Lemma c01_canonical_map a :
  (forall c, proj_x RO a c = c01_canon_x a c) /\ (forall r, proj_y RO a r = c01_canon_y a r) /\
  (forall c d, (0 <= c < width a)%Z -> nth (Z.to_nat c) (fst (c01_proj_vectors RO a)) d = c01_canon_x a c) /\
  (forall r d, (0 <= r < height a)%Z -> nth (Z.to_nat r) (snd (c01_proj_vectors RO a)) d = c01_canon_y a r) /\
  length (fst (c01_proj_vectors RO a)) = Z.to_nat (width a) /\
  length (snd (c01_proj_vectors RO a)) = Z.to_nat (height a).
Proof.
  repeat split.
  - intros c. apply proj_x_canonical.
  - intros r. apply proj_y_canonical.
  - intros c d H. cbn [fst c01_proj_vectors]. rewrite c01_vec_x_nth by assumption. apply proj_x_canonical.
  - intros r d H. cbn [snd c01_proj_vectors]. rewrite c01_vec_y_nth by assumption. apply proj_y_canonical.
  - apply c01_vec_x_length.
  - apply c01_vec_y_length.
Qed.

(* numpy path, dask path over any chunking, with any data_slice index lists: one function of (r, c) *)
Lemma c01_accessors_agree a rch cch rows cols :
  Forall (fun x => (0 <= x)%Z) rch -> Forall (fun x => (0 <= x)%Z) cch ->
  c01_sumZ rch = height a -> c01_sumZ cch = width a ->
  c01_in_range (height a) rows -> c01_in_range (width a) cols ->
  c01_coords_numpy RO a rows cols = c01_canon_grid a rows cols /\
  c01_coords_dask RO a rch cch rows cols = c01_canon_grid a rows cols.
Proof.
  intros Hrc Hcc Sh Sw Hr Hc.
  assert (Hh : (0 <= height a)%Z) by (rewrite <- Sh; auto using c01_sumZ_nonneg).
  assert (Hw : (0 <= width a)%Z) by (rewrite <- Sw; auto using c01_sumZ_nonneg).
  split.
  - rewrite c01_coords_numpy_fn by assumption. apply c01_grid_fn_canon.
  - rewrite c01_coords_dask_fn by assumption. apply c01_grid_fn_canon.
Qed.

(* the same statement for any arithmetic (in particular binary64): chunking and slicing order cannot change a single bit *)
Lemma c01_accessors_agree_any {T} (OP : ops T) (a : area T) rch cch rows cols :
  Forall (fun x => (0 <= x)%Z) rch -> Forall (fun x => (0 <= x)%Z) cch ->
  c01_sumZ rch = height a -> c01_sumZ cch = width a ->
  c01_in_range (height a) rows -> c01_in_range (width a) cols ->
  c01_coords_dask OP a rch cch rows cols = c01_coords_numpy OP a rows cols.
Proof.
  intros Hrc Hcc Sh Sw Hr Hc.
  assert (Hh : (0 <= height a)%Z) by (rewrite <- Sh; auto using c01_sumZ_nonneg).
  assert (Hw : (0 <= width a)%Z) by (rewrite <- Sw; auto using c01_sumZ_nonneg).
  rewrite c01_coords_dask_fn, c01_coords_numpy_fn by assumption. reflexivity.
Qed.

(* entry (i, j) of the lon/lat arrays is the inverse projection of entry (i, j) of the coordinate arrays
   (used by the correspondence to consult the PROJ table at sampled entries only) *)
Lemma c01_nth_map_map {A B} (f : A -> B) (g : list (list A)) i j d :
  nth j (nth i (map (map f) g) []) (f d) = f (nth j (nth i g []) d).
Proof.
  change (@nil B) with (map f []). rewrite map_nth. apply map_nth.
Qed.
Lemma c01_lonlats_entry {T} (OP : ops T) (invT : T * T -> T * T) a rows cols i j d :
  nth j (nth i (c01_lonlats OP invT a rows cols) []) (invT d) = invT (nth j (nth i (c01_coords_numpy OP a rows cols) []) d).
Proof. apply c01_nth_map_map. Qed.
Lemma c01_lonlats_dask_entry {T} (OP : ops T) (invT : T * T -> T * T) a rch cch rows cols i j d :
  nth j (nth i (c01_lonlats_dask OP invT a rch cch rows cols) []) (invT d) =
  invT (nth j (nth i (c01_coords_dask OP a rch cch rows cols) []) d).
Proof. apply c01_nth_map_map. Qed.
