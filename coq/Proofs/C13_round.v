(* C13: where rounding enters: extent + arbitrary resolution (_round_shape), and the pole snapping of centres. *)
From Coq Require Import Reals ZArith Bool Lra Lia.
From Flocq Require Import Zaux Raux.
From PR Require Import Base.Num Base.RNum Model.AreaConfig Proofs.C13_base Proofs.C13_sets Proofs.C13_contra.
Open Scope R_scope.

Section Round.
  Variable pfwd pinv : R * R -> option (R * R).
  Variable fac : cu -> R * R.
  Variable geographic : bool.
  Variable crs_units : cu.
  Local Notation create := (create_area_def RO pfwd pinv fac geographic crs_units).
  Hypothesis facts_wf : geographic = true <-> crs_units = Cdeg.

  Lemma conv_none name u c : convert_units RO pfwd pinv fac geographic crs_units None name u c = Ok None.
  Proof. reflexivity. Qed.

  Lemma conv_point1 name x y center : name = Nul \/ name = Nextent ->
    convert_units RO pfwd pinv fac geographic crs_units (Some ((x, y), None)) name (default_units crs_units) center = Ok (Some (x, y)).
  Proof.
    intros Hn. pose proof (default_unit_ok fac geographic crs_units facts_wf) as Hu.
    transitivity (convert_units RO pfwd pinv fac geographic crs_units (Some ((x / 1, y / 1), None)) name (default_units crs_units) center).
    - repeat f_equal; field.
    - exact (conv_point pfwd pinv fac geographic crs_units name None None _ _ x y center Hu Hn).
  Qed.
  Lemma conv_dist1 name x y center : name = Nradius \/ name = Nresolution -> 0 < x -> 0 < y ->
    convert_units RO pfwd pinv fac geographic crs_units (Some ((x, y), None)) name (default_units crs_units) center = Ok (Some (x, y)).
  Proof.
    intros Hn Hx Hy. pose proof (default_unit_ok fac geographic crs_units facts_wf) as Hu.
    transitivity (convert_units RO pfwd pinv fac geographic crs_units (Some ((x / 1, y / 1), None)) name (default_units crs_units) center).
    - repeat f_equal; field.
    - exact (conv_dist pfwd pinv fac geographic crs_units name None None _ _ x y center Hu Hn Hx Hy).
  Qed.

  (* extent + any positive resolution, projection units: the extent is kept exactly, the shape is the
     pixel count (extent / resolution) pushed through _round_shape *)
  Theorem extent_resolution_rounding x0 y0 x1 y1 dx dy :
    x0 < x1 -> y0 < y1 -> 0 < dx -> 0 < dy ->
    let h := round_dim RO ((y1 - y0) / dy) in
    let w := round_dim RO ((x1 - x0) / dx) in
    (1 <= h)%Z -> (1 <= w)%Z ->
    create (mk_args None None (Some ((x0, y0, x1, y1), None)) None None None (Some ((dx, dy), None)) None None)
    = Area (x0, y0, x1, y1) (h, w).
  Proof.
    intros Hx Hy Hdx Hdy h w Hh Hw.
    unfold create_area_def. cbn [a_width a_height a_extent a_shape a_ul a_center a_resolution a_radius a_units bind].
    rewrite !(conv_point1 Nextent) by (right; reflexivity).
    rewrite !conv_none. cbn [bind fst snd]. unfold extrapolate.
    repeat (progress (try rewrite !conv_none; cbn [bind validate2 fst snd])).
    rewrite (conv_dist1 Nresolution) by (auto; right; reflexivity).
    unfold round_shape_kw. cbn [bind fst snd eqb RO zeroT ofZ]. rewrite !Reqb_false by lra. cbn [orb].
    rewrite round_shape_R. cbn [bind fst snd div mul sub add twoT ofZ RO validate_shape].
    replace (2 * ((y1 - y0) / 2) / dy) with ((y1 - y0) / dy) by (field; lra).
    replace (2 * ((x1 - x0) / 2) / dx) with ((x1 - x0) / dx) by (field; lra).
    fold h w.
    match goal with |- context[validate4 RO (Some ?e) ?n] => replace n with e by (repeat f_equal; lra) end.
    rewrite validate4_same. cbn [bind]. now apply make_area_ok.
  Qed.

  (* _round_poles leaves a centre alone unless it is within 1e-4 degrees of a pole *)
  Lemma round_poles_deg_id c :
    c_1em4 RO <= Rabs (Rabs (snd c) - 90) -> round_poles RO pfwd pinv c true = Ok c.
  Proof.
    intros H. unfold round_poles, near_pole. cbn [ltb absf sub RO ninety ofZ].
    assert (Rltb (Rabs (Rabs (snd c) - 90)) (c_1em4 RO) = false) as -> by (apply Rltb_false; exact H). reflexivity.
  Qed.
  Lemma round_poles_metric_id c ll :
    pinv c = Some ll -> c_1em4 RO <= Rabs (Rabs (snd ll) - 90) -> pfwd ll = Some c ->
    round_poles RO pfwd pinv c false = Ok c.
  Proof.
    intros Hi H Hf. unfold round_poles, near_pole. rewrite Hi. cbn [oget bind ltb absf sub RO ninety ofZ].
    assert (Rltb (Rabs (Rabs (snd ll) - 90)) (c_1em4 RO) = false) as -> by (apply Rltb_false; exact H).
    rewrite Hf. reflexivity.
  Qed.
  (* ... and moves it onto the pole otherwise (degrees) *)
  Lemma round_poles_deg_snaps lon lat :
    0 < lat -> Rabs (lat - 90) < c_1em4 RO -> round_poles RO pfwd pinv (lon, lat) true = Ok (lon, 90).
  Proof.
    intros Hp H. unfold round_poles, near_pole, signT. cbn [ltb absf sub mul RO ninety ofZ fst snd zeroT].
    rewrite (Rabs_pos_eq lat) by lra.
    assert (Rltb (Rabs (lat - 90)) (c_1em4 RO) = true) as -> by (apply Rltb_true; exact H).
    assert (Rltb lat 0 = false) as -> by (apply Rltb_false; lra). repeat f_equal. lra.
  Qed.
End Round.
