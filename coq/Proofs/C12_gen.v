(* C12 -- characterisation of the stateful methods regenerated from the source (Gen/GenC12.v): the memoised
   __hash__ is the model's do_hash, append resets the memo, update_hash / hash_dict / hash_resampler_geometries /
   BaseResampler.get_hash feed exactly the model's byte images to the digest. *)
From Coq Require Import ZArith Bool List Lia.
From PR Require Import Base.Num Base.Slice Base.ListX Model.HashEq Gen.GenC12.
Import ListNotations.
Open Scope Z_scope.

Section GenHash.
  Variables (C : Type) (dig : C -> Z).

  (* all three __hash__ methods: (object after the call, value returned) = (do_hash o, hash_of o) *)
  Lemma gen_base_hash_char (o : obj C Z) :
    gen12_base_hash C dig o = (do_hash C Z dig o, Some (hash_of C Z dig o)).
  Proof. unfold gen12_base_hash, do_hash, hash_of, digest_int, set_memo. destruct o as [c [d|]]; reflexivity. Qed.
  Lemma gen_swath_hash_char (o : obj C Z) :
    gen12_swath_hash C dig o = (do_hash C Z dig o, Some (hash_of C Z dig o)).
  Proof. unfold gen12_swath_hash, do_hash, hash_of, digest_int, set_memo. destruct o as [c [d|]]; reflexivity. Qed.
  Lemma gen_area_hash_char (o : obj C Z) :
    gen12_area_hash C dig o = (do_hash C Z dig o, Some (hash_of C Z dig o)).
  Proof. unfold gen12_area_hash, do_hash, hash_of, digest_int, set_memo. destruct o as [c [d|]]; reflexivity. Qed.
End GenHash.

Section GenRest.
  Context {T : Type} (OP : ops T).

  (* CoordinateDefinition.append: DimensionError on different ndim, else rows appended and the memo reset *)
  Lemma gen_coord_append_char (self other : obj (swath T) Z) :
    gen12_coord_append self other =
    if negb (s_ndim (coords self) =? s_ndim (coords other)) then None
    else Some (mk_obj (swath_append (coords self) (coords other)) None).
  Proof.
    unfold gen12_coord_append, o_ndim. destruct (negb _); [reflexivity|].
    unfold set_memo, set_o_size, set_o_shape, set_o_lats, set_o_lons, o_lons, o_lats, np_concat, swath_append. cbn. reflexivity.
  Qed.

  (* one step of the model's state machine *)
  Lemma gen_coord_append_step dig slc cpy (self other : obj (swath T) Z) :
    s_ndim (coords self) = s_ndim (coords other) ->
    gen12_coord_append self other = Some (step (swath T) Z (oslice * oslice * (Z * Z)) dig (@swath_append T) slc cpy self (OAppend (coords other))).
  Proof. intros E. rewrite gen_coord_append_char, E, Z.eqb_refl. reflexivity. Qed.

  (* AreaDefinition.update_hash: what was fed before, then the area's byte image *)
  Lemma gen_area_update_hash_char (a : harea T) (h : hl T) :
    gen12_area_update_hash OP a h = Some (hl_tokens h ++ area_image OP a).
  Proof.
    unfold gen12_area_update_hash, upd_ext, upd_shape, upd_crs, hl_update, area_image.
    destruct h as [l|]; cbn; rewrite <- ?app_assoc; reflexivity.
  Qed.

  Lemma gen_hash_dict_char kw (h : hl T) : gen12_hash_dict kw h = Some (hl_tokens h ++ [TJson kw]).
  Proof. unfold gen12_hash_dict, upd_json, hl_update. destruct h; reflexivity. Qed.

  (* future resamplers: the key image of the model *)
  Lemma gen_hash_resampler_geometries_char kw (src tgt : list (tok T)) :
    gen12_hash_resampler_geometries kw src tgt = key_image src tgt kw.
  Proof.
    unfold gen12_hash_resampler_geometries. rewrite gen_hash_dict_char.
    unfold hexdigest, geo_upd, geo_upd0, hl_update, key_image. cbn. rewrite <- app_assoc. reflexivity.
  Qed.

  (* BaseResampler.get_hash: the resampler's own geometries unless overridden by the arguments *)
  Definition pick_geo (arg own : option (list (tok T))) : option (list (tok T)) := match arg with None => own | Some _ => arg end.
  Lemma gen_get_hash_char kw (r : resampler T) (sarg targ : option (list (tok T))) src tgt :
    pick_geo sarg (r_src r) = Some src -> pick_geo targ (r_tgt r) = Some tgt ->
    gen12_get_hash kw r sarg targ = key_image src tgt kw.
  Proof.
    intros Hs Ht. unfold gen12_get_hash.
    replace (if is_noneb sarg then r_src r else sarg) with (Some src) by (destruct sarg; cbn in *; congruence).
    replace (if is_noneb targ then r_tgt r else targ) with (Some tgt) by (destruct targ; cbn in *; congruence).
    rewrite gen_hash_dict_char. unfold hexdigest, ogeo_upd, ogeo_upd0, geo_upd, geo_upd0, hl_update, key_image. cbn.
    rewrite <- app_assoc. reflexivity.
  Qed.
End GenRest.

(* ---------- histories executed by the REGENERATED __hash__ and append (swaths) *)
Section GenHistory.
  Context {T : Type}.
  Variable dig : swath T -> Z.
  Variable slc : swath T -> oslice * oslice * (Z * Z) -> swath T.
  Variable cpy : swath T -> swath T.
  Notation S3 := (oslice * oslice * (Z * Z))%type.

  (* hash() and append() are the generated definitions; a DimensionError leaves the object as it was *)
  Definition gstep (o : obj (swath T) Z) (p : op (swath T) S3) : obj (swath T) Z :=
    match p with
    | OHash => fst (gen12_swath_hash (swath T) dig o)
    | OAppend c => match gen12_coord_append o (new_obj c) with Some o' => o' | None => o end
    | _ => step (swath T) Z S3 dig (@swath_append T) slc cpy o p
    end.

  Lemma gstep_model o p :
    (forall c, p = OAppend c -> s_ndim (coords o) = s_ndim c) ->
    gstep o p = step (swath T) Z S3 dig (@swath_append T) slc cpy o p.
  Proof.
    intros Hnd. destruct p; try reflexivity; unfold gstep.
    - rewrite gen_swath_hash_char. reflexivity.
    - rewrite gen_coord_append_char. unfold new_obj. cbn [coords]. rewrite (Hnd other eq_refl), Z.eqb_refl. reflexivity.
  Qed.

  Lemma gstep_ok o p : memo_ok (swath T) Z dig o -> memo_ok (swath T) Z dig (gstep o p).
  Proof.
    intros Ho. destruct p; unfold gstep.
    - rewrite gen_swath_hash_char. cbn [fst]. unfold do_hash. destruct (memo o) eqn:E; [exact Ho | right; reflexivity].
    - exact Ho.
    - rewrite gen_coord_append_char. destruct (negb _); [exact Ho | left; reflexivity].
    - left; reflexivity.
    - left; reflexivity.
  Qed.

  Theorem gen_memo_invariant ops o : memo_ok (swath T) Z dig o -> memo_ok (swath T) Z dig (fold_left gstep ops o).
  Proof. revert o. induction ops as [|p ops IH]; intros o Ho; cbn; [exact Ho|]. apply IH, gstep_ok, Ho. Qed.
End GenHistory.
