(* C12 -- a full slice of an AreaDefinition has the byte image of the area.  Proved of the definition
   regenerated from the current source of AreaDefinition.__getitem__ (Gen/GenC12.v), for EVERY arithmetic
   instance as far as the extent is concerned (so also for binary64, where recomputing a border through
   the pixel centre would be off by an ulp). *)
From Coq Require Import Reals ZArith Bool List Lra Lia.
From Flocq Require Import Raux.
From PR Require Import Base.Num Base.RNum Base.Slice Base.ListX Model.HashEq Gen.GenC12 Model.C12_slice Proofs.C12_image.
Import ListNotations.
Open Scope Z_scope.

(* a slice object that selects the whole axis of length n *)
Definition spans (s : oslice) (n : Z) : Prop := indices s n = mk_slice 0 n.

Lemma spans_none n : spans (mk_oslice None None) n.
Proof. reflexivity. Qed.
Lemma spans_0_n n : 0 <= n -> spans (mk_oslice (Some 0) (Some n)) n.
Proof. intros Hn. unfold spans, indices, adj. cbn. destruct (Z.ltb_spec n 0); [lia|]. f_equal; lia. Qed.
Lemma spans_0_none n : 0 <= n -> spans (mk_oslice (Some 0) None) n.
Proof. intros Hn. unfold spans, indices, adj. cbn. f_equal; lia. Qed.
Lemma spans_big n m : 0 <= n <= m -> spans (mk_oslice None (Some m)) n.
Proof. intros Hn. unfold spans, indices, adj. cbn. destruct (Z.ltb_spec m 0); [lia|]. f_equal; lia. Qed.

Section Getitem.
  Context {T : Type} (OP : ops T).

  Lemma getitem_crs a key : h_crs (gen12_area_getitem OP a key) = h_crs a.
  Proof. destruct key as [ys xs]. reflexivity. Qed.

  (* borders: every arithmetic instance *)
  Lemma getitem_full_ext (a : harea T) ys xs :
    spans ys (h_h a) -> spans xs (h_w a) -> h_ext (gen12_area_getitem OP a (ys, xs)) = h_ext a.
  Proof.
    unfold spans. intros Hy Hx. unfold gen12_area_getitem. cbv zeta. rewrite Hy, Hx.
    cbn [sstart sstop slice3 fst snd]. rewrite !Z.mod_1_r, !Z.sub_0_r, !Z.eqb_refl.
    cbn. destruct (h_ext a) as [[[x0 y0] x1] y1]. reflexivity.
  Qed.

  Lemma getitem_full_off (a : harea T) ys xs :
    spans ys (h_h a) -> spans xs (h_w a) -> h_off (gen12_area_getitem OP a (ys, xs)) = h_off a.
  Proof.
    unfold spans. intros Hy Hx. unfold gen12_area_getitem. cbv zeta. rewrite Hy, Hx.
    cbn. destruct (h_off a) as [r c]. cbn. f_equal; lia.
  Qed.

  (* the shape of the slice is computed in floating point: int((stop - start) / step) *)
  Definition int_div_exact (n : Z) : Prop := truncZ OP (div OP (ofZ OP (n - 0)) (ofZ OP 1)) = n.

  Lemma getitem_full_shape (a : harea T) ys xs :
    spans ys (h_h a) -> spans xs (h_w a) -> int_div_exact (h_h a) -> int_div_exact (h_w a) ->
    h_h (gen12_area_getitem OP a (ys, xs)) = h_h a /\ h_w (gen12_area_getitem OP a (ys, xs)) = h_w a.
  Proof.
    unfold spans, int_div_exact. intros Hy Hx Eh Ew. unfold gen12_area_getitem. cbv zeta. rewrite Hy, Hx.
    cbn [sstart sstop slice3 fst snd new_harea set_h_off h_h h_w]. split; assumption.
  Qed.

  Theorem full_slice_image (rt : Z -> Z) (a : harea T) ys xs :
    spans ys (h_h a) -> spans xs (h_w a) -> int_div_exact (h_h a) -> int_div_exact (h_w a) ->
    rt (h_crs a) = h_crs a ->
    area_image OP (area_slice OP rt a (ys, xs)) = area_image OP a.
  Proof.
    intros Hy Hx Eh Ew Hrt. apply area_image_eq_iff.
    destruct (getitem_full_shape a ys xs Hy Hx Eh Ew) as [E1 E2].
    unfold area_slice, cvals, set_h_crs. cbn [h_crs h_h h_w h_ext].
    rewrite (getitem_full_ext a ys xs Hy Hx), E1, E2, !Hrt. repeat split; reflexivity.
  Qed.

  (* copy(): same numbers, token passed through one WKT round trip *)
  Theorem copy_image (rt : Z -> Z) (a : harea T) : rt (h_crs a) = h_crs a -> area_image OP (area_copy rt a) = area_image OP a.
  Proof. intros Hrt. unfold area_copy, area_image. cbn. rewrite Hrt. reflexivity. Qed.

  (* a token that the round trip changes gives another image *)
  Lemma copy_image_changed (rt : Z -> Z) (a : harea T) : rt (h_crs a) <> h_crs a -> area_image OP (area_copy rt a) <> area_image OP a.
  Proof. intros Hrt E. apply area_image_eq_iff in E. destruct E as [E _]. cbn in E. contradiction. Qed.
End Getitem.

(* over the reals the shape computation is exact for every length *)
Lemma int_div_exact_R n : int_div_exact RO n.
Proof.
  unfold int_div_exact. cbn. rewrite Z.sub_0_r. unfold Rdiv. rewrite Rinv_1, Rmult_1_r. apply Ztrunc_IZR.
Qed.

Theorem full_slice_image_R (rt : Z -> Z) (a : harea R) ys xs :
  spans ys (h_h a) -> spans xs (h_w a) -> rt (h_crs a) = h_crs a ->
  area_image RO (area_slice RO rt a (ys, xs)) = area_image RO a.
Proof. intros. apply full_slice_image; auto using int_div_exact_R. Qed.
