(* C13, wave 2: alternative entry points, the pixel grid of the result, repeated dump / load cycles. *)
From Coq Require Import Reals ZArith Bool List Lra Lia.
From PR Require Import Base.Num Base.RNum Model.Grid Model.AreaConfig Model.AreaYaml
     Proofs.Grid_real Proofs.C13_base Proofs.C13_sets Proofs.C13_yaml.
Import ListNotations.
Open Scope R_scope.

(* ---- AreaDefinition.from_extent / from_circle / from_area_of_interest / from_ul_corner: thin wrappers that pass their
   arguments on to create_area_def by keyword (geometry.py); as argument records: *)
Section EntryPoints.
  Context {T : Type}.
  Definition from_extent (shape : T * T) (area_extent : T * T * T * T * option utok) units : args (T:=T) :=
    mk_args None None (Some area_extent) (Some shape) None None None None units.
  Definition from_circle (center radius : T * T * option utok) (shape : option (T * T)) (resolution : option (T * T * option utok)) units
    : args (T:=T) := mk_args None None None shape None (Some center) resolution (Some radius) units.
  Definition from_area_of_interest (shape : T * T) (center resolution : T * T * option utok) units : args (T:=T) :=
    mk_args None None None (Some shape) None (Some center) (Some resolution) None units.
  Definition from_ul_corner (shape : T * T) (upper_left_extent resolution : T * T * option utok) units : args (T:=T) :=
    mk_args None None None (Some shape) (Some upper_left_extent) None (Some resolution) None units.
End EntryPoints.

Section More.
  Variable pfwd pinv : R * R -> option (R * R).
  Variable fac : cu -> R * R.
  Variable geographic : bool.
  Variable crs_units : cu.
  Local Notation create := (create_area_def RO pfwd pinv fac geographic crs_units).

  (* the classmethods are the corresponding descriptions *)
  Lemma classmethods_are_descriptions g s attr units :
    from_extent (IZR (gh g), IZR (gw g)) ((gx0 g / s, gy0 g / s, gx1 g / s, gy1 g / s), attr) units = describe Des g s attr units /\
    from_circle (sc s (g_center g), attr) (sc s (g_radius g), attr) (Some (IZR (gh g), IZR (gw g))) None units = describe Dcrs g s attr units /\
    from_circle (sc s (g_center g), attr) (sc s (g_radius g), attr) None (Some (sc s (g_res g), attr)) units = describe Dcrd g s attr units /\
    from_area_of_interest (IZR (gh g), IZR (gw g)) (sc s (g_center g), attr) (sc s (g_res g), attr) units = describe Dcds g s attr units /\
    from_ul_corner (IZR (gh g), IZR (gw g)) (sc s (g_ul g), attr) (sc s (g_res g), attr) units = describe Duds g s attr units.
  Proof. repeat split; reflexivity. Qed.

  Theorem classmethods_agree g attr units c s :
    wf_grid g -> unit_ok fac geographic crs_units (eff_units crs_units attr units) c s ->
    round_poles RO pfwd pinv (g_center g) (cu_eqb c Cdeg) = Ok (g_center g) ->
    let want := Area (g_ext g) (gh g, gw g) in
    create (from_extent (IZR (gh g), IZR (gw g)) ((gx0 g / s, gy0 g / s, gx1 g / s, gy1 g / s), attr) units) = want /\
    create (from_circle (sc s (g_center g), attr) (sc s (g_radius g), attr) (Some (IZR (gh g), IZR (gw g))) None units) = want /\
    create (from_circle (sc s (g_center g), attr) (sc s (g_radius g), attr) None (Some (sc s (g_res g), attr)) units) = want /\
    create (from_area_of_interest (IZR (gh g), IZR (gw g)) (sc s (g_center g), attr) (sc s (g_res g), attr) units) = want /\
    create (from_ul_corner (IZR (gh g), IZR (gw g)) (sc s (g_ul g), attr) (sc s (g_res g), attr) units) = want.
  Proof.
    intros Hwf Hu Hc want.
    destruct (classmethods_are_descriptions g s attr units) as (E1 & E2 & E3 & E4 & E5).
    rewrite E1, E2, E3, E4, E5. unfold want.
    repeat split; apply (param_sets_agree pfwd pinv fac geographic crs_units _ g attr units c s); auto.
  Qed.
End More.

(* ---- the pixel grid of the result (Model/Grid.v, shared with C01): the area made from a description that contains a
   resolution has exactly that pixel size, and its pixel centres are the canonical ones of the grid *)
Definition area_of (e : R * R * R * R) (s : Z * Z) : area R :=
  let '(x0, y0, x1, y1) := e in mk_area x0 y0 x1 y1 (snd s) (fst s).

Lemma result_pixel_size g : wf_grid g ->
  pixel_size_x RO (area_of (g_ext g) (gh g, gw g)) = fst (g_res g) /\
  pixel_size_y RO (area_of (g_ext g) (gh g, gw g)) = snd (g_res g).
Proof. intros _. split; reflexivity. Qed.

Lemma result_pixel_centres g col row : wf_grid g ->
  proj_x RO (area_of (g_ext g) (gh g, gw g)) col = gx0 g + (IZR col + / 2) * fst (g_res g) /\
  proj_y RO (area_of (g_ext g) (gh g, gw g)) row = gy1 g - (IZR row + / 2) * snd (g_res g).
Proof.
  intros _. split.
  - rewrite proj_x_canonical. reflexivity.
  - rewrite proj_y_canonical. reflexivity.
Qed.

(* dump -> load with a unit rewrite: every pixel centre of the loaded area is the original one times PROJ's factor
   (same point on the ground: the reparsed CRS counts in metres what the original counted in kilometres) *)
Lemma scaled_pixel_centres (e : R * R * R * R) (s : Z * Z) k col row : (1 <= fst s)%Z -> (1 <= snd s)%Z ->
  proj_x RO (area_of (scale4 k e) s) col = k * proj_x RO (area_of e s) col /\
  proj_y RO (area_of (scale4 k e) s) row = k * proj_y RO (area_of e s) row.
Proof.
  destruct e as [[[x0 y0] x1] y1]. destruct s as [h w]. cbn [fst snd]. intros Hh Hw.
  assert (IZR w <> 0) by (apply not_0_IZR; lia). assert (IZR h <> 0) by (apply not_0_IZR; lia).
  unfold area_of, scale4. rewrite !proj_x_canonical, !proj_y_canonical. unfold dxR, dyR. cbn [xmin xmax ymin ymax width height].
  split; field; assumption.
Qed.

(* ---- repeated dump / load cycles.  The area object that load returns is dumped again: pyproj answers for its (reparsed)
   CRS the same EPSG code, or no code and metres (resp. no units entry for a geographic CRS); the dict of the reparsed CRS is
   the dict that was written (same token).  Then one cycle is already a fixed point: every later cycle returns the same area. *)
Section Cycles.
  Variable crs_facts : pentry -> bool * cu * (cu -> R * R).
  Notation arearec := (area_rec (T:=R)).

  Definition reloaded (a : arearec) : arearec :=
    mk_area_rec (r_id a) (r_desc a) (r_crs a) (r_epsg a)
                (match r_units a with Some _ => Some UTm | None => None end)
                (r_shape a) (loaded_extent crs_facts a).
  Fixpoint cycles (n : nat) (a : arearec) : arearec :=
    match n with O => a | S k => reloaded (cycles k a) end.

  Lemma reloaded_entry a : proj_entry (reloaded a) = proj_entry a.
  Proof. reflexivity. Qed.
  Lemma reloaded_extent a : loaded_extent crs_facts (reloaded a) = loaded_extent crs_facts a.
  Proof.
    unfold loaded_extent at 1. unfold dumped_units, reloaded. cbn [r_epsg r_units r_ext].
    destruct (r_epsg a); [reflexivity|]. destruct (r_units a); reflexivity.
  Qed.
  Lemma reloaded_loaded a : loaded_of crs_facts (reloaded a) = loaded_of crs_facts a.
  Proof. unfold loaded_of. rewrite reloaded_extent, reloaded_entry. reflexivity. Qed.
  Lemma reloaded_idem a : reloaded (reloaded a) = reloaded a.
  Proof.
    unfold reloaded at 1. rewrite reloaded_extent. unfold reloaded. cbn [r_id r_desc r_crs r_epsg r_units r_shape].
    destruct (r_units a); reflexivity.
  Qed.

  Lemma reloaded_ok a : area_ok crs_facts a -> area_ok crs_facts (reloaded a).
  Proof.
    unfold area_ok. rewrite reloaded_entry. destruct (crs_facts (proj_entry a)) as [[geo cunits] fac] eqn:Hf.
    intros (Hh & Hw & Hx & Hwf & Hu). cbn [reloaded r_shape r_ext]. repeat split; auto.
    - unfold loaded_extent, dumped_units in *. rewrite Hf. destruct (r_ext a) as [[[e0 e1] e2] e3]. destruct Hx as [Hx Hy].
      destruct (r_epsg a); [auto|]. destruct (r_units a) as [u|]; [|auto].
      destruct u; auto. destruct Hu as (_ & _ & [Hm | (_ & Hk1 & Hk2)]).
      + destruct Hm as [Hm | [Hm | Hm]]; discriminate.
      + unfold scale4, km_factor. assert (0 < fst (fac Ckm) * snd (fac Ckm)) by (apply Rmult_lt_0_compat; assumption).
        split; apply Rmult_lt_compat_r; assumption.
    - apply Hwf.
    - apply Hwf.
    - unfold dumped_units in *. cbn [reloaded r_epsg r_units]. destruct (r_epsg a); [exact I|].
      destruct (r_units a) as [u|]; [|exact I]. destruct Hu as (Hg & Hc & _). repeat split; auto. left. left. reflexivity.
  Qed.

  Lemma cycles_ok n a : area_ok crs_facts a -> area_ok crs_facts (cycles n a).
  Proof. induction n; cbn; auto. intros H. apply reloaded_ok. auto. Qed.
  Lemma cycles_fix n a : cycles (S n) a = reloaded a.
  Proof. induction n; [reflexivity|]. cbn [cycles] in *. rewrite IHn. apply reloaded_idem. Qed.

  (* any number of dump / load cycles: the area that comes back is the one of the first cycle *)
  Theorem dump_load_cycles n a : area_ok crs_facts a ->
    load_one RO crs_facts (dump_dict (cycles n a)) = Ok (loaded_of crs_facts a).
  Proof.
    intros H. rewrite dump_load_one by (apply cycles_ok; exact H).
    destruct n; [reflexivity|]. rewrite cycles_fix. now rewrite reloaded_loaded.
  Qed.
  (* and from the second cycle on nothing is rewritten any more: the object dumped is the object loaded *)
  Theorem second_cycle_exact n a : area_ok crs_facts a ->
    let b := cycles (S n) a in loaded_extent crs_facts b = r_ext b /\ r_shape b = r_shape a /\ r_id b = r_id a /\ r_desc b = r_desc a.
  Proof.
    intros H b. subst b. rewrite cycles_fix. rewrite reloaded_extent. repeat split; reflexivity.
  Qed.
End Cycles.

(* ---- a centre given in degrees on a PROJECTED CRS (DataArray with units 'degrees'), the rest in projection units:
   PROJ's forward projection is an oracle; if it sends (lon, lat) to the grid's centre and the latitude is not within
   1e-4 degrees of a pole, centre + radius + shape and centre + resolution + shape give the grid *)
From PR Require Import Proofs.C13_contra Proofs.C13_round.
Section DegreeCentre.
  Variable pfwd pinv : R * R -> option (R * R).
  Variable fac : cu -> R * R.
  Variable crs_units : cu.
  Hypothesis projected : crs_units <> Cdeg.
  Local Notation create := (create_area_def RO pfwd pinv fac false crs_units).
  Local Notation convert := (convert_units RO pfwd pinv fac false crs_units).

  Lemma facts_wf_projected : false = true <-> crs_units = Cdeg.
  Proof. split; [discriminate|]. intros E. contradiction. Qed.

  Lemma conv_center_degrees lon lat c (tok : utok) units :
    tok = UTdeg \/ tok = UTdegrees ->
    pfwd (lon, lat) = Some c -> c_1em4 RO <= Rabs (Rabs lat - 90) ->
    convert (Some ((lon, lat), Some tok)) Ncenter units None = Ok (Some c).
  Proof.
    intros Ht Hf Hp. unfold convert_units.
    assert (E : extract_units tok false = Ok Cdeg) by (destruct Ht as [-> | ->]; reflexivity). rewrite E.
    cbn [bind cu_eqb]. rewrite (round_poles_deg_id pfwd pinv (lon, lat) Hp). cbn [bind is_dist oget]. rewrite Hf. reflexivity.
  Qed.

  Lemma create_same_center (c1 c2 : option param) w h e s ul res rad units :
    convert c1 Ncenter (match units with Some u => u | None => default_units crs_units end) None
    = convert c2 Ncenter (match units with Some u => u | None => default_units crs_units end) None ->
    create (mk_args w h e s ul c1 res rad units) = create (mk_args w h e s ul c2 res rad units).
  Proof.
    intros H. unfold create_area_def.
    cbn [a_width a_height a_extent a_shape a_ul a_center a_resolution a_radius a_units]. rewrite H. reflexivity.
  Qed.

  Theorem centre_in_degrees g lon lat tok :
    wf_grid g -> tok = UTdeg \/ tok = UTdegrees ->
    pfwd (lon, lat) = Some (g_center g) -> c_1em4 RO <= Rabs (Rabs lat - 90) ->
    round_poles RO pfwd pinv (g_center g) false = Ok (g_center g) ->
    let S := Some (IZR (gh g), IZR (gw g)) in
    let C := Some ((lon, lat), Some tok) in
    create (mk_args None None None S None C None (Some (sc 1 (g_radius g), None)) None) = Area (g_ext g) (gh g, gw g) /\
    create (mk_args None None None S None C (Some (sc 1 (g_res g), None)) None None) = Area (g_ext g) (gh g, gw g) /\
    create (mk_args None None None None None C (Some (sc 1 (g_res g), None)) (Some (sc 1 (g_radius g), None)) None) = Area (g_ext g) (gh g, gw g).
  Proof.
    intros Hwf Ht Hf Hp Hr S C.
    pose proof (default_unit_ok fac false crs_units facts_wf_projected) as Hu.
    assert (Hc : cu_eqb crs_units Cdeg = false) by (destruct crs_units; try reflexivity; contradiction).
    assert (EC : convert C Ncenter (default_units crs_units) None
                 = convert (Some (sc 1 (g_center g), None)) Ncenter (default_units crs_units) None).
    { unfold C. rewrite (conv_center_degrees lon lat (g_center g) tok _ Ht Hf Hp).
      unfold sc, g_center. cbn [fst snd]. symmetry.
      apply (conv_center pfwd pinv fac false crs_units None None crs_units 1 _ _ None Hu). rewrite Hc. exact Hr. }
    repeat split.
    - rewrite (create_same_center C (Some (sc 1 (g_center g), None))) by exact EC.
      apply (param_sets_agree pfwd pinv fac false crs_units Dcrs g None None crs_units 1 Hwf Hu). intros _. rewrite Hc. exact Hr.
    - rewrite (create_same_center C (Some (sc 1 (g_center g), None))) by exact EC.
      apply (param_sets_agree pfwd pinv fac false crs_units Dcds g None None crs_units 1 Hwf Hu). intros _. rewrite Hc. exact Hr.
    - rewrite (create_same_center C (Some (sc 1 (g_center g), None))) by exact EC.
      apply (param_sets_agree pfwd pinv fac false crs_units Dcrd g None None crs_units 1 Hwf Hu). intros _. rewrite Hc. exact Hr.
  Qed.
End DegreeCentre.
