(* C10 -- list-level facts about numpy-style unit-step slicing: element characterisation, shape,
   composition of successive slices, slicing of concatenations, split + concatenate identity. *)
From Coq Require Import ZArith List Lia Bool Arith.
From PR Require Import Base.Slice Model.SliceArea.
Import ListNotations.
Open Scope Z_scope.

(* ---- nth_error characterisations *)
Lemma nth_error_firstn' {A} (l : list A) n i :
  nth_error (firstn n l) i = if (i <? n)%nat then nth_error l i else None.
Proof.
  revert l i. induction n as [|n IH]; intros l i.
  - cbn. destruct i; reflexivity.
  - destruct l as [|x l]; destruct i as [|i]; cbn -[Nat.ltb]; try reflexivity.
    + destruct (S i <? S n)%nat; reflexivity.
    + rewrite IH. change (S i <? S n)%nat with (i <? n)%nat. reflexivity.
Qed.
Lemma nth_error_skipn' {A} (l : list A) n i : nth_error (skipn n l) i = nth_error l (n + i).
Proof.
  revert l. induction n as [|n IH]; intros l; cbn; [reflexivity|].
  destruct l as [|x l]; cbn; [destruct i; reflexivity|]. apply IH.
Qed.
Lemma nth_error_ext' {A} (l1 l2 : list A) : (forall i, nth_error l1 i = nth_error l2 i) -> l1 = l2.
Proof.
  revert l2. induction l1 as [|x l1 IH]; intros [|y l2] H; try reflexivity.
  - specialize (H 0%nat); discriminate.
  - specialize (H 0%nat); discriminate.
  - f_equal. { specialize (H 0%nat). cbn in H. congruence. }
    apply IH. intros i. exact (H (S i)).
Qed.

Lemma nth_error_take_slice {A} (s : pslice) (l : list A) i :
  nth_error (take_slice s l) i =
  if (i <? Z.to_nat (sstop s - sstart s))%nat then nth_error l (Z.to_nat (sstart s) + i) else None.
Proof. unfold take_slice. rewrite nth_error_firstn', nth_error_skipn'. reflexivity. Qed.

Lemma nth_error_beyond {A} (l : list A) i : (length l <= i)%nat -> nth_error l i = None.
Proof. apply nth_error_None. Qed.

(* a normalised window inside a list of length n *)
Definition within (s : pslice) (n : Z) : Prop := 0 <= sstart s /\ sstart s <= n /\ 0 <= sstop s /\ sstop s <= n.

Lemma indices_within s n : 0 <= n -> within (indices s n) n.
Proof. intros H. destruct (indices_bounds s n H). unfold within. lia. Qed.

Lemma length_take_slice {A} (s : pslice) (l : list A) :
  within s (zlen l) -> zlen (take_slice s l) = slen s.
Proof.
  unfold within, zlen, take_slice, slen. intros (H1 & H2 & H3 & H4).
  rewrite firstn_length, skipn_length. lia.
Qed.

(* shape: the result of numpy slicing has slen (indices s n) elements *)
Lemma length_np_slice {A} (s : oslice) (l : list A) : zlen (np_slice s l) = slen (indices s (zlen l)).
Proof. unfold np_slice. apply length_take_slice. apply indices_within. unfold zlen. lia. Qed.

(* elements: entry i of the result is entry start+i of the parent *)
Lemma nth_take_slice {A} (s : pslice) (l : list A) (i : nat) d :
  within s (zlen l) -> Z.of_nat i < slen s ->
  nth i (take_slice s l) d = nth (Z.to_nat (sstart s) + i) l d.
Proof.
  intros W Hi. unfold slen in Hi.
  assert (E : nth_error (take_slice s l) i = nth_error l (Z.to_nat (sstart s) + i)).
  { rewrite nth_error_take_slice. destruct (Nat.ltb_spec i (Z.to_nat (sstop s - sstart s))); [reflexivity|lia]. }
  assert (Hl : (Z.to_nat (sstart s) + i < length l)%nat) by (unfold within, zlen in W; lia).
  destruct (nth_error l (Z.to_nat (sstart s) + i)) as [v|] eqn:Ev.
  - apply nth_error_nth with (d := d) in Ev. apply nth_error_nth with (d := d) in E. congruence.
  - apply nth_error_None in Ev. lia.
Qed.
Lemma nth_np_slice {A} (s : oslice) (l : list A) (i : nat) d :
  Z.of_nat i < slen (indices s (zlen l)) ->
  nth i (np_slice s l) d = nth (Z.to_nat (sstart (indices s (zlen l))) + i) l d.
Proof. intros H. unfold np_slice. apply nth_take_slice; [apply indices_within; unfold zlen; lia|exact H]. Qed.

(* an empty or reversed window selects nothing, like numpy *)
Lemma take_slice_empty {A} (s : pslice) (l : list A) : sstop s <= sstart s -> take_slice s l = [].
Proof. intros H. unfold take_slice. replace (Z.to_nat (sstop s - sstart s)) with 0%nat by lia. reflexivity. Qed.

(* the full window is the identity *)
Lemma take_slice_full {A} (l : list A) : take_slice (mk_slice 0 (zlen l)) l = l.
Proof. unfold take_slice, zlen; cbn. rewrite Z.sub_0_r, Nat2Z.id. apply firstn_all. Qed.

(* ---- composition: slicing a window of a window *)
Lemma take_slice_take_slice {A} (s1 s2 : pslice) (l : list A) :
  within s1 (zlen l) -> within s2 (slen s1) ->
  take_slice s2 (take_slice s1 l) = take_slice (shift (sstart s1) s2) l.
Proof.
  intros W1 W2. apply nth_error_ext'. intros i. rewrite !nth_error_take_slice. unfold shift. cbn [sstart sstop].
  unfold within, slen in *.
  replace (Z.to_nat (sstart s1 + sstop s2 - (sstart s1 + sstart s2))) with (Z.to_nat (sstop s2 - sstart s2)) by lia.
  destruct (Nat.ltb_spec i (Z.to_nat (sstop s2 - sstart s2))); [|reflexivity].
  destruct (Nat.ltb_spec (Z.to_nat (sstart s2) + i) (Z.to_nat (sstop s1 - sstart s1))); [|lia].
  f_equal. lia.
Qed.

Lemma compose_all_within n keys : 0 <= n -> within (compose_all n keys) n.
Proof.
  revert n. induction keys as [|k r IH]; intros n Hn; cbn [compose_all].
  - unfold within; cbn; lia.
  - pose proof (indices_within k n Hn) as W. specialize (IH (slen (indices k n)) ltac:(unfold slen; lia)).
    revert W IH. generalize (indices k n). intros i W IH.
    generalize dependent (compose_all (slen i) r). intros c IH.
    unfold within, slen, shift in *; cbn [sstart sstop]. lia.
Qed.

(* slicing composes: a chain of successive slices equals one slice with the composed bounds *)
Lemma np_slice_chain {A} (keys : list oslice) (l : list A) :
  fold_left (fun acc k => np_slice k acc) keys l = take_slice (compose_all (zlen l) keys) l.
Proof.
  revert l. induction keys as [|k r IH]; intros l; cbn [fold_left compose_all].
  - symmetry. apply take_slice_full.
  - rewrite IH. rewrite length_np_slice. unfold np_slice.
    apply take_slice_take_slice.
    + apply indices_within. unfold zlen; lia.
    + apply compose_all_within. unfold slen; lia.
Qed.
(* the offsets (starts) add up along the chain, the shape is the composed length *)
Lemma compose_all_cons n k r :
  sstart (compose_all n (k :: r)) = sstart (indices k n) + sstart (compose_all (slen (indices k n)) r).
Proof. reflexivity. Qed.

(* ---- slicing a concatenation = concatenating the local slices *)
Lemma take_slice_app {A} (a b : Z) (l1 l2 : list A) : 0 <= a -> 0 <= b ->
  take_slice (mk_slice a b) (l1 ++ l2) =
  take_slice (mk_slice (Z.min a (zlen l1)) (Z.min b (zlen l1))) l1 ++
  take_slice (mk_slice (Z.max (a - zlen l1) 0) (Z.max (b - zlen l1) 0)) l2.
Proof.
  intros Ha Hb. apply nth_error_ext'. intros i. unfold zlen.
  set (n1 := length l1).
  set (p1 := take_slice (mk_slice (Z.min a (Z.of_nat n1)) (Z.min b (Z.of_nat n1))) l1).
  set (p2 := take_slice (mk_slice (Z.max (a - Z.of_nat n1) 0) (Z.max (b - Z.of_nat n1) 0)) l2).
  assert (Lp1 : length p1 = Z.to_nat (Z.min b (Z.of_nat n1) - Z.min a (Z.of_nat n1))).
  { unfold p1, take_slice; cbn [sstart sstop]. rewrite firstn_length, skipn_length. fold n1. lia. }
  rewrite nth_error_take_slice; cbn [sstart sstop].
  destruct (Nat.ltb_spec i (length p1)) as [Hi|Hi].
  - rewrite (nth_error_app1 p1 p2 Hi). unfold p1. rewrite nth_error_take_slice; cbn [sstart sstop].
    destruct (Nat.ltb_spec i (Z.to_nat (Z.min b (Z.of_nat n1) - Z.min a (Z.of_nat n1)))); [|lia].
    destruct (Nat.ltb_spec i (Z.to_nat (b - a))); [|lia].
    rewrite nth_error_app1 by (fold n1; lia). f_equal. lia.
  - rewrite (nth_error_app2 p1 p2 Hi). unfold p2. rewrite nth_error_take_slice; cbn [sstart sstop].
    destruct (Nat.ltb_spec i (Z.to_nat (b - a))) as [H1|H1];
      destruct (Nat.ltb_spec (i - length p1) (Z.to_nat (Z.max (b - Z.of_nat n1) 0 - Z.max (a - Z.of_nat n1) 0))) as [H2|H2].
    + rewrite nth_error_app2 by (fold n1; lia). f_equal. fold n1. lia.
    + destruct (Z_le_gt_dec b (Z.of_nat n1)).
      * exfalso. lia.
      * exfalso. lia.
    + exfalso. lia.
    + reflexivity.
Qed.

(* split at any row and concatenate: identity *)
Lemma take_slice_split {A} (k : Z) (l : list A) : 0 <= k <= zlen l ->
  take_slice (mk_slice 0 k) l ++ take_slice (mk_slice k (zlen l)) l = l.
Proof.
  intros Hk. unfold take_slice, zlen in *; cbn. rewrite Z.sub_0_r.
  replace (Z.to_nat (Z.of_nat (length l) - k)) with (length l - Z.to_nat k)%nat by lia.
  rewrite <- (skipn_length (Z.to_nat k) l), firstn_all. apply firstn_skipn.
Qed.

(* ---- 2-D arrays *)
Definition rect {A} (m : list (list A)) (w : Z) : Prop := Forall (fun row => zlen row = w) m.

Lemma In_firstn' {A} (x : A) n l : In x (firstn n l) -> In x l.
Proof.
  revert l. induction n as [|n IH]; intros [|y l] H; cbn in H; try contradiction.
  destruct H as [H|H]; [left; exact H|right; apply IH; exact H].
Qed.
Lemma In_skipn' {A} (x : A) n l : In x (skipn n l) -> In x l.
Proof.
  revert l. induction n as [|n IH]; intros l H; [exact H|].
  destruct l as [|y l]; [exact H|]. right. apply IH. exact H.
Qed.
Lemma Forall_take_slice {A} (P : A -> Prop) s (l : list A) : Forall P l -> Forall P (take_slice s l).
Proof.
  intros H. unfold take_slice. rewrite Forall_forall in *. intros x Hx.
  apply H. apply In_firstn' in Hx. apply In_skipn' in Hx. exact Hx.
Qed.

Lemma map_take_slice {A B} (f : A -> B) s (l : list A) : map f (take_slice s l) = take_slice s (map f l).
Proof. unfold take_slice. rewrite skipn_map, firstn_map. reflexivity. Qed.
Lemma zlen_map {A B} (f : A -> B) (l : list A) : zlen (map f l) = zlen l.
Proof. unfold zlen. rewrite map_length. reflexivity. Qed.
Lemma map_np_slice {A B} (f : A -> B) s (l : list A) : map f (np_slice s l) = np_slice s (map f l).
Proof. unfold np_slice. rewrite map_take_slice, zlen_map. reflexivity. Qed.

(* shape of arr[ys, xs] *)
Lemma shape_np_slice2 {A} (key : oslice * oslice) (m : list (list A)) w : rect m w ->
  zlen (np_slice2 key m) = slen (indices (fst key) (zlen m)) /\
  rect (np_slice2 key m) (slen (indices (snd key) w)).
Proof.
  intros R. unfold np_slice2. split.
  - rewrite zlen_map. apply length_np_slice.
  - unfold rect. rewrite Forall_map.
    assert (F : Forall (fun row => zlen row = w) (np_slice (fst key) m)) by (apply Forall_take_slice; exact R).
    revert F. apply Forall_impl. intros row Hr. rewrite length_np_slice, Hr. reflexivity.
Qed.

(* element (i, j) of arr[ys, xs] is element (ystart + i, xstart + j) of arr *)
Lemma nth_np_slice2 {A} (key : oslice * oslice) (m : list (list A)) w (i j : nat) d : rect m w ->
  Z.of_nat i < slen (indices (fst key) (zlen m)) -> Z.of_nat j < slen (indices (snd key) w) ->
  nth j (nth i (np_slice2 key m) []) d =
  nth (Z.to_nat (sstart (indices (snd key) w)) + j) (nth (Z.to_nat (sstart (indices (fst key) (zlen m))) + i) m []) d.
Proof.
  intros R Hi Hj. unfold np_slice2.
  assert (Li : (i < length (np_slice (fst key) m))%nat).
  { pose proof (length_np_slice (fst key) m) as L. unfold zlen in L at 1. lia. }
  rewrite (nth_indep _ [] (np_slice (snd key) []) ) by (rewrite map_length; exact Li).
  rewrite map_nth. rewrite (nth_np_slice (fst key) m i [] Hi).
  set (row := nth _ m []).
  assert (Hrow : zlen row = w).
  { unfold rect in R. rewrite Forall_forall in R. apply R. apply nth_In.
    pose proof (indices_within (fst key) (zlen m) ltac:(unfold zlen; lia)) as W.
    unfold within, slen, zlen in *. lia. }
  rewrite nth_np_slice by (rewrite Hrow; exact Hj). rewrite Hrow. reflexivity.
Qed.

(* 2-D chains compose per axis *)
Lemma np_slice2_as_take {A} (key : oslice * oslice) (m : list (list A)) w : rect m w ->
  np_slice2 key m = map (take_slice (indices (snd key) w)) (take_slice (indices (fst key) (zlen m)) m).
Proof.
  intros R. unfold np_slice2, np_slice at 2.
  apply map_ext_in. intros row Hin. unfold np_slice.
  assert (Forall (fun row => zlen row = w) (take_slice (indices (fst key) (zlen m)) m)) as F
      by (apply Forall_take_slice; exact R).
  rewrite Forall_forall in F. rewrite (F row Hin). reflexivity.
Qed.

Lemma np_slice2_chain {A} (keys : list (oslice * oslice)) (m : list (list A)) w : rect m w ->
  fold_left (fun acc k => np_slice2 k acc) keys m =
  map (take_slice (compose_all w (map snd keys))) (take_slice (compose_all (zlen m) (map fst keys)) m).
Proof.
  revert m w. induction keys as [|k r IH]; intros m w R; cbn [fold_left map compose_all].
  - rewrite take_slice_full. rewrite <- (map_id m) at 1. apply map_ext_in. intros row Hin.
    unfold rect in R. rewrite Forall_forall in R. rewrite <- (R row Hin). symmetry. apply take_slice_full.
  - destruct (shape_np_slice2 k m w R) as [L R'].
    rewrite (IH _ _ R'). rewrite L. rewrite (np_slice2_as_take k m w R).
    rewrite <- map_take_slice, map_map.
    assert (W1 : within (indices (fst k) (zlen m)) (zlen m)) by (apply indices_within; unfold zlen; lia).
    rewrite take_slice_take_slice;
      [|exact W1|apply compose_all_within; unfold slen; lia].
    apply map_ext_in. intros row Hin.
    assert (Hrow : zlen row = w).
    { assert (Forall (fun row => zlen row = w)
                (take_slice (shift (sstart (indices (fst k) (zlen m)))
                   (compose_all (slen (indices (fst k) (zlen m))) (map fst r))) m)) as F
          by (apply Forall_take_slice; exact R).
      rewrite Forall_forall in F. exact (F row Hin). }
    apply take_slice_take_slice.
    + rewrite Hrow. apply indices_within.
      unfold rect in R. destruct m as [|r0 m']; [cbn in Hin; unfold take_slice in Hin; rewrite skipn_nil, firstn_nil in Hin; destruct Hin|].
      unfold zlen in Hrow. lia.
    + apply compose_all_within. unfold slen; lia.
Qed.

(* meshgrid of sliced vectors = slice of the meshgrid (AreaDefinition.get_lonlats(data_slice=...)) *)
Lemma grid_slice_commute {A B C} (f : A -> B -> C) (xs : list A) (ys : list B) (key : oslice * oslice) :
  grid_of f (np_slice (snd key) xs) (np_slice (fst key) ys) = np_slice2 key (grid_of f xs ys).
Proof.
  unfold grid_of, np_slice2. cbn [fst snd]. rewrite <- (map_np_slice _ (fst key) ys), map_map.
  apply map_ext. intros y. rewrite map_np_slice. reflexivity.
Qed.
Lemma grid_rect {A B C} (f : A -> B -> C) xs ys : rect (grid_of f xs ys) (zlen xs) /\ zlen (grid_of f xs ys) = zlen ys.
Proof.
  unfold grid_of, rect. split; [|apply zlen_map]. rewrite Forall_map. rewrite Forall_forall. intros y _. apply zlen_map.
Qed.
