(* C13: binary64 witness that a centre within 1e-4 degrees of a pole is moved (known finding C13.param_sets.pole_snap). *)
From Coq Require Import ZArith Bool List PrimFloat.
From PR Require Import Base.Num Base.F64 Model.AreaConfig Model.AreaYaml Model.C13_run.
Open Scope Z_scope.

Lemma pole_snap_refuted :
  outcome_eqb (run_geo snap_crs_args) (Area (-20, 80, 20, 100)%float (20, 40)) = true /\
  outcome_eqb (run_geo snap_es_args) (Area (-20, 0x1.3ffff2e48e8a7p+6, 20, 0x1.8ffff2e48e8a7p+6)%float (20, 40)) = true /\
  outcome_eqb (run_geo snap_crs_args) (run_geo snap_es_args) = false.
Proof. vm_compute. repeat split. Qed.
