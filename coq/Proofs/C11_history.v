(* C11: the caches in front of the cropping functions (functools.lru_cache on resampler.crop_source_area and
   slicer._get_chunk_bboxes_for_swath_to_crop; the JSON file cache of get_area_slices) never change a result,
   for any history of calls and any cache size. *)
From Coq Require Import List Bool Arith Lia.
Import ListNotations.

Section Memo.
  Context {K V : Type} (keq : K -> K -> bool) (f : K -> V).
  (* equal keys (AreaDefinition.__eq__/__hash__, property C12) denote the same geometry, hence the same slices *)
  Definition key_sound : Prop := forall k k', keq k k' = true -> f k = f k'.

  Definition cache := list (K * V).                  (* most recently used first *)
  Fixpoint lookup (k : K) (c : cache) : option (K * V) :=
    match c with
    | [] => None
    | (k', v) :: r => if keq k k' then Some (k', v) else lookup k r
    end.
  Fixpoint remove (k : K) (c : cache) : cache :=
    match c with
    | [] => []
    | (k', v) :: r => if keq k k' then r else (k', v) :: remove k r
    end.
  (* one call: hit -> stored value, entry moved to the front; miss -> compute, store, evict beyond maxsize
     (maxsize = None: unbounded, the JSON file cache) *)
  Definition call (maxsize : option nat) (c : cache) (k : K) : V * cache :=
    match lookup k c with
    | Some (k', v) => (v, (k', v) :: remove k c)
    | None => let v := f k in
              (v, match maxsize with Some m => firstn m ((k, v) :: c) | None => (k, v) :: c end)
    end.
  Fixpoint run (maxsize : option nat) (c : cache) (ks : list K) : list V * cache :=
    match ks with
    | [] => ([], c)
    | k :: r => let '(v, c') := call maxsize c k in let '(vs, c'') := run maxsize c' r in (v :: vs, c'')
    end.

  Definition cache_ok (c : cache) : Prop := Forall (fun e => snd e = f (fst e)) c.

  Lemma lookup_ok k c e : cache_ok c -> lookup k c = Some e -> keq k (fst e) = true /\ snd e = f (fst e).
  Proof.
    induction c as [|[k' v] r IH]; cbn; intros H E; [discriminate|].
    inversion H as [|? ? H1 H2]; subst.
    destruct (keq k k') eqn:Q.
    - inversion E; subst. split; assumption.
    - apply IH; assumption.
  Qed.
  Lemma remove_ok k c : cache_ok c -> cache_ok (remove k c).
  Proof.
    induction c as [|[k' v] r IH]; cbn; intros H; [constructor|].
    inversion H as [|? ? H1 H2]; subst. destruct (keq k k'); [exact H2|]. constructor; [exact H1|exact (IH H2)].
  Qed.
  Lemma firstn_ok m : forall c, cache_ok c -> cache_ok (firstn m c).
  Proof.
    induction m as [|m IH]; intros [|e c] H; cbn; try constructor.
    - inversion H; assumption.
    - apply IH. inversion H; assumption.
  Qed.

  Lemma call_ok maxsize c k : key_sound -> cache_ok c ->
    fst (call maxsize c k) = f k /\ cache_ok (snd (call maxsize c k)).
  Proof.
    intros KS H. unfold call. destruct (lookup k c) as [[k' v]|] eqn:E.
    - destruct (lookup_ok k c (k', v) H E) as [Q V']. cbn in Q, V'. cbn. split.
      + rewrite V'. symmetry. apply KS. exact Q.
      + constructor; [exact V'|]. apply remove_ok. exact H.
    - cbn. split; [reflexivity|].
      assert (cache_ok ((k, f k) :: c)) by (constructor; [reflexivity|exact H]).
      destruct maxsize as [m|]; [apply firstn_ok|]; assumption.
  Qed.

  (* every call of every history returns what the uncached function returns *)
  Theorem memo_history maxsize : key_sound -> forall ks c, cache_ok c ->
    fst (run maxsize c ks) = map f ks /\ cache_ok (snd (run maxsize c ks)).
  Proof.
    intros KS. induction ks as [|k r IH]; intros c H; cbn; [split; [reflexivity|exact H]|].
    destruct (call_ok maxsize c k KS H) as [A B].
    destruct (call maxsize c k) as [v c'] eqn:E. cbn in A, B.
    specialize (IH c' B). destruct (run maxsize c' r) as [vs c''] eqn:E2. cbn in IH |- *.
    destruct IH as [I1 I2]. split; [rewrite A, I1; reflexivity|exact I2].
  Qed.
  (* the bounded cache never holds more than maxsize entries *)
  Lemma call_size m c k : (length c <= m)%nat -> (length (snd (call (Some m) c k)) <= m)%nat.
  Proof.
    intros L. unfold call. destruct (lookup k c) as [[k' v]|] eqn:E; cbn [snd].
    - cbn [length]. assert (S (length (remove k c)) <= length c)%nat; [|lia].
      clear L. revert E. induction c as [|[k2 v2] r IH]; cbn; [discriminate|].
      destruct (keq k k2); intros E; [lia|]. specialize (IH E). cbn. lia.
    - rewrite firstn_length. lia.
  Qed.
  (* key_sound is NECESSARY: as soon as the key equality identifies two requests with different answers, the two-call
     history [k1; k2] makes the cache (of any size >= 1, or unbounded) return k1's answer for k2 *)
  Lemma stale_answer maxsize k1 k2 : keq k2 k1 = true -> maxsize <> Some O ->
    fst (run maxsize [] [k1; k2]) = [f k1; f k1].
  Proof.
    intros Hk Hm. destruct maxsize as [[|m]|]; [congruence| |].
    - cbn. rewrite firstn_nil. unfold call. cbn [lookup]. rewrite Hk. reflexivity.
    - cbn. unfold call. cbn [lookup]. rewrite Hk. reflexivity.
  Qed.
  Lemma key_sound_necessary maxsize : maxsize <> Some O ->
    (forall ks, fst (run maxsize [] ks) = map f ks) -> forall k1 k2, keq k2 k1 = true -> f k2 = f k1.
  Proof.
    intros Hm H k1 k2 Hk. specialize (H [k1; k2]). rewrite (stale_answer maxsize k1 k2 Hk Hm) in H.
    cbn [map] in H. inversion H. auto.
  Qed.
End Memo.

Example memo_ex : fst (run Nat.eqb (fun k => k * k) (Some 2) [] [3; 4; 3; 5; 4; 3]) = [9; 16; 9; 25; 16; 9]
  /\ length (snd (run Nat.eqb (fun k => k * k) (Some 2) [] [3; 4; 3; 5; 4; 3])) = 2.
Proof. split; reflexivity. Qed.
