(* C06 — the range clip never changes a produced value (exact arithmetic); scattering to the full target; the chosen
   corner is the nearest source of its quadrant under the kd-tree contract (composition with C04's knn_slots). *)
From Coq Require Import Reals ZArith Bool Lra Lia List Sorted.
From PR Require Import Base.Num Base.RNum Model.Bilinear Model.BilinearRN Model.BilinearWrap
     Proofs.C06_real Proofs.C06_rn Proofs.C06_branches Proofs.C06_pixel Proofs.C04_knn.
Import ListNotations.
Open Scope R_scope.

(* ---------- _limit_output_values_to_input *)
Lemma limit_output_RN_keep dmin dmax eps fill v : 0 <= eps -> dmin <= v <= dmax ->
  limit_output RN (Some dmin) (Some dmax) (Some eps) fill (Some v) = Some v.
Proof.
  intros He Hv. unfold limit_output, outside. autorewrite with rn. cbn [ltb RN ocmp]. unfold Rltb.
  destruct (Rlt_dec v (dmin - eps)); [lra|]. destruct (Rlt_dec (dmax + eps) v); [lra|]. reflexivity.
Qed.
Lemma limit_output_RN_nan dmin dmax eps fill : limit_output RN dmin dmax eps fill None = fill.
Proof. unfold limit_output. rewrite outside_RN_None. reflexivity. Qed.

(* the clip is the identity on every value the per-pixel kernel produces: the xarray resampler (which clips) and the
   numpy resampler (which does not) agree in exact arithmetic, whatever non-negative margin is used *)
Theorem pixel_survives_range_clip data l ox oy v dmin dmax eps fill :
  pixel RN data l ox oy = Some v -> (forall i d, data i = Some d -> dmin <= d <= dmax) -> 0 <= eps ->
  limit_output RN (Some dmin) (Some dmax) (Some eps) fill (pixel RN data l ox oy) = Some v.
Proof.
  intros H Hd He. rewrite H. apply limit_output_RN_keep; [exact He|].
  pose proof (pixel_convex data l ox oy v H) as Hc. destruct (four_corners RN ox oy l) as [[[c1 c2] c3] c4].
  destruct Hc as (d1 & d2 & d3 & d4 & s & t & H1 & H2 & H3 & H4 & Hs & Ht & ->).
  apply bilerp_bounded; eauto.
Qed.
(* the margin of the code is non-negative over the reals *)
Lemma range_margin_RO_pos dmin dmax : 0 < range_margin RO dmin dmax.
Proof.
  unfold range_margin, fmax, lit_1em6, lit_1em15. cbn [ltb mul absf lit RO].
  assert (H6 : 0 < IZR 4722366482869645 * Raux.bpow Zaux.radix2 (-72)).
  { apply Rmult_lt_0_compat; [apply IZR_lt; reflexivity|apply Raux.bpow_gt_0]. }
  destruct (Rltb _ _) eqn:E; [|exact H6]. apply Rltb_true in E. lra.
Qed.

(* ---------- _reshape_to_target_area: results are placed at the target pixels with valid lon/lat *)
Lemma scatter_length {A} (fill : A) valid : forall res, length (scatter fill valid res) = length valid.
Proof. induction valid as [|b v IH]; intros res; [reflexivity|]. destruct b; [destruct res|]; cbn; rewrite IH; reflexivity. Qed.

Lemma scatter_nth {A} (fill d : A) : forall valid res i, (i < length valid)%nat ->
  length res = length (filter (fun b => b) valid) ->
  nth i (scatter fill valid res) d = if nth i valid false then nth (rank valid i) res d else fill.
Proof.
  induction valid as [|b v IH]; intros res i Hi Hl; [cbn in Hi; lia|].
  destruct b.
  - destruct res as [|r rs]; [cbn in Hl; discriminate|]. cbn in Hl. injection Hl as Hl.
    destruct i as [|j]; [reflexivity|]. cbn [scatter nth rank]. rewrite IH by (cbn in Hi; lia || exact Hl).
    destruct (nth j v false); reflexivity.
  - destruct i as [|j]; [reflexivity|]. cbn [scatter nth rank]. cbn in Hl. rewrite IH by (cbn in Hi; lia || exact Hl).
    destruct (nth j v false); reflexivity.
Qed.
(* every band of 3-D data is scattered on its own: band b of the result only depends on band b of the input *)
Lemma scatter_bands_nth {A} (fill : A) valid bands b :
  nth b (scatter_bands fill valid bands) [] = match nth_error bands b with Some r => scatter fill valid r | None => [] end.
Proof.
  unfold scatter_bands. revert b. induction bands as [|r rs IH]; intros [|b]; cbn; try reflexivity. apply IH.
Qed.

(* ---------- the chosen corner is the NEAREST source of its quadrant (composition with the kd-tree contract) *)
Section Nearest.
Variables (D : Z -> R) (n : Z) (radius : R).
Variables (ox oy : R) (l : list (R * R * Z)).
(* H_sorted: the kd-tree returns the neighbours in distance order *)
Hypothesis H_sorted : StronglySorted (fun a b => D (nb_i a) <= D (nb_i b)) l.
(* H_knn: C04's contract for the index row of this target location, all k slots filled *)
Variable ds : list R.
Hypothesis H_knn : knn_slots D n radius (map (@nb_i R) l) ds.

Theorem corner_is_nearest_in_quadrant q c :
  first_valid (in_quadrant RO q ox oy) l = Some c ->
  (forall m, In m l -> in_quadrant RO q ox oy m = true -> D (nb_i c) <= D (nb_i m)) /\
  (forall j, (0 <= j < n)%Z -> D j < radius -> ~ In j (map (@nb_i R) l) -> D (nb_i c) <= D j).
Proof.
  intros Hf. destruct (first_valid_spec _ _ _ Hf) as (Hq & l1 & l2 & -> & Hl1). split.
  - intros m Hm Hqm. apply in_app_or in Hm. destruct Hm as [Hm|[<-|Hm]].
    + rewrite (Hl1 m Hm) in Hqm. discriminate.
    + lra.
    + clear -H_sorted Hm. induction l1 as [|a l1 IH]; cbn in H_sorted.
      * inversion H_sorted as [|? ? _ Hall]; subst. rewrite Forall_forall in Hall. apply Hall, Hm.
      * inversion H_sorted; subst. apply IH. assumption.
  - intros j Hj Hd Hn. destruct (ks_complete _ _ _ _ _ H_knn j Hj Hd Hn) as [_ Hle].
    apply Hle. apply in_map. apply in_elt.
Qed.
End Nearest.
