(* C04 — characterisation of the definitions regenerated from /repo's kd_tree.py on every run (Gen/GenC04.v):
   the loop bodies and straight-line blocks of _resample_with_weights / _calculate_uncertainty, read for one
   location / column / neighbour slot, ARE the steps of the hand-written model (Model/Weights.v), and the closure
   of resample_gauss hands exp the exponent -d^2/sigma^2.  A source edit that changes one of them breaks a lemma here. *)
From Coq Require Import Reals ZArith Bool List Lra Lia PrimFloat.
From Flocq Require Import Raux.
From PR Require Import Base.Num Base.RNum Base.F64 Model.Weights Gen.GenC04 Proofs.C04_weights.
Import ListNotations.

(* the literal 0.0 of np.where(.., .., 0.0) is the carrier's zero in both instances *)
Lemma lit_zero_RO : lit RO 0 0 = ofZ RO 0.
Proof. cbn. lra. Qed.
Lemma lit_zero_F64 : lit F64 0 0 = ofZ F64 0.
Proof. reflexivity. Qed.

Section Char.
  Context {T : Type} (OP : ops T).
  Hypothesis Hlit : lit OP 0 0 = ofZ OP 0.

  (* loop 3 of _resample_with_weights (both ndim branches) = acc_step with the weight-0-for-missing rule *)
  Lemma gen_acc_body_char miss w x r nm :
    gen_acc_body OP miss w x r nm = acc_step OP (wtmp OP) (r, nm) (mk_slot (negb miss) w x).
  Proof. unfold gen_acc_body, acc_step, wtmp, tzero. cbn. rewrite Hlit. reflexivity. Qed.
  Lemma gen_acc_body_multi_char miss w x r nm :
    gen_acc_body_multi OP miss w x r nm = acc_step OP (wtmp OP) (r, nm) (mk_slot (negb miss) w x).
  Proof. unfold gen_acc_body_multi, acc_step, wtmp, tzero. cbn. rewrite Hlit. reflexivity. Qed.

  (* loop of _calculate_uncertainty = count step and unc_step *)
  Lemma gen_unc_body_char miss w x res c v2 sd :
    gen_unc_body OP miss w x res c v2 sd =
      let s := mk_slot (negb miss) w x in
      let u := unc_step OP (wtmp OP) res (v2, sd) s in
      ((c + (if present s then 1 else 0))%Z, fst u, snd u).
  Proof. unfold gen_unc_body, unc_step, wtmp, sq, b2t, tone, tzero. cbn. rewrite Hlit. reflexivity. Qed.
  Lemma gen_unc_body_multi_char miss w x res c v2 sd :
    gen_unc_body_multi OP miss w x res c v2 sd =
      let s := mk_slot (negb miss) w x in
      let u := unc_step OP (wtmp OP) res (v2, sd) s in
      ((c + (if present s then 1 else 0))%Z, fst u, snd u).
  Proof. unfold gen_unc_body_multi, unc_step, wtmp, sq, b2t, tone, tzero. cbn. rewrite Hlit. reflexivity. Qed.
End Char.

(* normalisation and fill: result[norm > 0] /= norm[norm > 0]; result[~(norm > 0)] = fill *)
Lemma gen_normalise_char {T} (OP : ops T) r nm f :
  gen_normalise OP r nm f = if ltb OP (tzero OP) nm then div OP r nm else f.
Proof. unfold gen_normalise, tzero. cbn. destruct (ltb OP (ofZ OP 0) nm); reflexivity. Qed.

Lemma mean_of_gen {T} (OP : ops T) wt ss f :
  mean_of OP wt ss f = gen_normalise OP (fst (acc OP wt ss)) (snd (acc OP wt ss)) f.
Proof. rewrite gen_normalise_char. reflexivity. Qed.

(* final estimator, single- and multi-channel branch *)
Lemma gen_stddev_final_char {T} (OP : ops T) cnt v1 v2 sd :
  gen_stddev_final OP cnt v1 v2 sd =
    if (1 <? cnt)%Z then sqrtf OP (mul OP (div OP v1 (sub OP (sq OP v1) v2)) sd) else nan OP.
Proof. unfold gen_stddev_final, sq. cbn. rewrite Z.gtb_ltb. destruct (1 <? cnt)%Z; reflexivity. Qed.
Lemma gen_stddev_final_multi_char {T} (OP : ops T) (valid : bool) v1 v2 sd :
  gen_stddev_final_multi OP valid v1 v2 sd =
    if valid then sqrtf OP (mul OP (div OP v1 (sub OP (sq OP v1) v2)) sd) else nan OP.
Proof. unfold gen_stddev_final_multi, sq. cbn. destruct valid; reflexivity. Qed.

Lemma stddev_of_gen {T} (OP : ops T) wt cnt ss res :
  stddev_of OP wt cnt ss res =
    let v := gen_stddev_final OP cnt (snd (acc OP wt ss)) (fst (unc OP wt res ss)) (snd (unc OP wt res ss)) in
    (v, if (1 <? cnt)%Z then isnan OP v else true).
Proof. unfold stddev_of. rewrite gen_stddev_final_char. cbn. destruct (1 <? cnt)%Z; reflexivity. Qed.

(* the whole accumulation is the iteration of the generated loop bodies over the slot list *)
Lemma fold_left_ext {A B} (f g : A -> B -> A) l : (forall a b, f a b = g a b) -> forall a, fold_left f l a = fold_left g l a.
Proof. intros H. induction l as [|b l IH]; intros a; cbn; [reflexivity|]. rewrite H. apply IH. Qed.

Lemma acc_is_generated {T} (OP : ops T) (Hlit : lit OP 0 0 = ofZ OP 0) ss :
  acc OP (wtmp OP) ss =
    fold_left (fun a s => gen_acc_body OP (negb (present s)) (wgt s) (val s) (fst a) (snd a)) ss (tzero OP, tzero OP).
Proof.
  unfold acc. apply fold_left_ext. intros [r nm] s. rewrite (gen_acc_body_char OP Hlit).
  rewrite negb_involutive. destruct s; reflexivity.
Qed.

Lemma unc_count_fold_generated {T} (OP : ops T) (Hlit : lit OP 0 0 = ofZ OP 0) res ss : forall c v2 sd,
  (fold_left (fun c s => (c + (if present s then 1 else 0))%Z) ss c,
   fst (fold_left (unc_step OP (wtmp OP) res) ss (v2, sd)), snd (fold_left (unc_step OP (wtmp OP) res) ss (v2, sd))) =
  fold_left (fun a s => gen_unc_body OP (negb (present s)) (wgt s) (val s) res (fst (fst a)) (snd (fst a)) (snd a))
            ss (c, v2, sd).
Proof.
  induction ss as [|s ss IH]; intros c v2 sd; cbn [fold_left fst snd]; [reflexivity|].
  rewrite (gen_unc_body_char OP Hlit). rewrite negb_involutive.
  destruct s as [p w x]. cbn [present wgt val fst snd].
  destruct (unc_step OP (wtmp OP) res (v2, sd) (mk_slot p w x)) as [v2' sd'] eqn:E. cbn [fst snd].
  apply IH.
Qed.

Lemma unc_count_is_generated {T} (OP : ops T) (Hlit : lit OP 0 0 = ofZ OP 0) res ss :
  (count_of ss, fst (unc OP (wtmp OP) res ss), snd (unc OP (wtmp OP) res ss)) =
    fold_left (fun a s => gen_unc_body OP (negb (present s)) (wgt s) (val s) res (fst (fst a)) (snd (fst a)) (snd a))
              ss (0%Z, tzero OP, tzero OP).
Proof. unfold count_of, unc. apply (unc_count_fold_generated OP Hlit). Qed.

(* resample_gauss: the closure is exp of the generated exponent, and that is the Gaussian of the property text *)
Lemma gauss_closure_char sigma d : gaussw sigma d = exp (gen_gauss_exponent RO sigma d).
Proof. unfold gaussw, gen_gauss_exponent. cbn. reflexivity. Qed.
