(* C15: safety of the Scheduler state machine under every interleaving (invariant + corollaries). *)
From Coq Require Import ZArith List Lia Bool Arith.
From PR Require Import Model.Sched.
Import ListNotations.
Open Scope Z_scope.

(* ---------- c_int stores ---------- *)
Lemma wrap_id b v : 1 <= b -> - 2 ^ (b - 1) <= v < 2 ^ (b - 1) -> wrap b v = v.
Proof.
  intros Hb Hv. unfold wrap.
  assert (0 < 2 ^ (b - 1)) by (apply Z.pow_pos_nonneg; lia).
  rewrite Z.mod_small by lia. lia.
Qed.

Lemma wrap_small c v : wf c -> 0 <= v <= n c -> wrap (bits c) v = v.
Proof.
  intros (Hb & Hn & _) Hv. apply wrap_id; [exact Hb|].
  assert (0 < 2 ^ (bits c - 1)) by (apply Z.pow_pos_nonneg; lia). lia.
Qed.

(* ---------- chunk rules ---------- *)
Lemma init_chunk_pos c : 1 <= init_chunk c.
Proof. unfold init_chunk. destruct (knd c); lia. Qed.

Lemma chunk_pos c nd : 1 <= chunk_of c nd.
Proof. pose proof (init_chunk_pos c). unfold chunk_of. destruct (knd c); lia. Qed.

(* ---------- tilings ---------- *)
Lemma ztiles_app from l a b : ztiles from l a -> a < b -> ztiles from (l ++ [(a, b)]) b.
Proof.
  revert from; induction l as [|[x y] l IH]; cbn; intros from H Hab; [subst; auto|].
  destruct H as (-> & Hxy & H). auto.
Qed.

Lemma ztiles_le from l to : ztiles from l to -> from <= to.
Proof.
  revert from; induction l as [|[a b] l IH]; cbn; intros from H; [lia|].
  destruct H as (-> & Hab & H). apply IH in H. lia.
Qed.

(* every slice is non-empty and lies inside [from, to) *)
Lemma ztiles_inside from l to : ztiles from l to -> Forall (fun s => from <= fst s /\ fst s < snd s /\ snd s <= to) l.
Proof.
  revert from; induction l as [|[a b] l IH]; cbn; intros from H; [constructor|].
  destruct H as (-> & Hab & H). pose proof (ztiles_le _ _ _ H). constructor; [cbn; lia|].
  eapply Forall_impl; [|exact (IH _ H)]. cbn; intros; lia.
Qed.

(* the slices are ordered and pairwise disjoint: an earlier one ends before a later one starts *)
Lemma ztiles_disjoint from l to : ztiles from l to -> ForallOrdPairs (fun s t => snd s <= fst t) l.
Proof.
  revert from; induction l as [|[a b] l IH]; cbn; intros from H; [constructor|].
  destruct H as (-> & Hab & H). constructor; [|exact (IH _ H)].
  eapply Forall_impl; [|exact (ztiles_inside _ _ _ H)]. cbn; intros; lia.
Qed.

(* every item of [from, to) lies in exactly one slice, every other item in none *)
Lemma ztiles_hits from l to : ztiles from l to ->
  forall i, hits i l = if (from <=? i) && (i <? to) then 1%nat else 0%nat.
Proof.
  revert from; induction l as [|[a b] l IH]; intros from H i.
  - cbn in H; subst. unfold hits; cbn.
    destruct (Z.leb_spec to i), (Z.ltb_spec i to); cbn; try reflexivity; lia.
  - cbn in H. destruct H as (-> & Hab & H). pose proof (ztiles_le _ _ _ H) as Hle.
    unfold hits in *. cbn [filter]. specialize (IH _ H i). unfold contains at 1; cbn [fst snd].
    destruct (Z.leb_spec from i), (Z.ltb_spec i b); cbn [andb length];
      rewrite IH; destruct (Z.leb_spec b i), (Z.ltb_spec i to); cbn; try reflexivity; lia.
Qed.

(* ---------- the invariant ---------- *)
(* relation between the shared counters and the end e of the emitted prefix when nobody is mid-update *)
Definition quiet (c : cfg) (nd st e : Z) : Prop :=
  0 <= nd /\ (0 < nd -> e = st /\ nd = n c - st) /\ (nd = 0 -> e = n c).

Definition Inv (c : cfg) (s : state) : Prop :=
  exists e, ztiles 0 (slices s) e /\ 0 <= e <= n c /\
  (forall w, in_critical (pcs s w) = true -> lock s = Some w) /\
  (forall w, pcs s w = PDone -> ndata s = 0) /\
  match lock s with
  | None => quiet c (ndata s) (start s) e
  | Some w =>
      match pcs s w with
      | PLocked => quiet c (ndata s) (start s) e
      | PReadN nd => nd = ndata s /\ quiet c (ndata s) (start s) e
      | PReadS nd st => nd = ndata s /\ st = start s /\ quiet c (ndata s) (start s) e
      | PWroteN nd st ch => ndata s = nd - ch /\ start s = st /\ e = st /\ nd = n c - st /\ 0 < ch <= nd
      | PRelease s0 s1 => e = s0 /\ s0 < s1 /\ s1 <= n c /\ quiet c (ndata s) (start s) s1
      | PIdle | PDone | PWork _ _ => False
      end
  end.

Lemma inv_init c : wf c -> Inv c (init c).
Proof.
  intros Hwf. pose proof Hwf as (Hb & Hn & Hp). exists 0. unfold init; cbn.
  rewrite !(wrap_small c) by (auto; lia).
  repeat split; try lia; try (intros ? ?; discriminate).
Qed.

Lemma upd_same f w p : upd f w p w = p.
Proof. unfold upd. now rewrite Nat.eqb_refl. Qed.
Lemma upd_other f w p v : v <> w -> upd f w p v = f v.
Proof. unfold upd. intros H. apply Nat.eqb_neq in H. now rewrite H. Qed.

Ltac holder_tac Hl w :=
  let v := fresh "v" in let Hv := fresh "Hv" in let Hne := fresh "Hne" in
  intros v Hv; destruct (Nat.eq_dec v w) as [->|Hne];
  [ try reflexivity; try (rewrite upd_same in Hv; discriminate Hv)
  | rewrite upd_other in Hv by exact Hne; apply Hl in Hv; congruence ].

(* "some worker is done -> ndata = 0" when w moves to a pc that is not PDone and ndata is unchanged *)
Ltac done_tac Hd w :=
  let v := fresh "v" in let Hv := fresh "Hv" in let Hne := fresh "Hne" in
  intros v Hv; destruct (Nat.eq_dec v w) as [->|Hne];
  [ rewrite upd_same in Hv; discriminate Hv
  | rewrite upd_other in Hv by exact Hne; apply Hd in Hv; cbn; lia ].

Ltac q := unfold quiet in *; intuition lia.

Lemma inv_step c s w : wf c -> Inv c s -> Inv c (step c s w).
Proof.
  intros Hwf (e & Ht & He & Hl & Hd & Hm). unfold step, set_pc, slices in *.
  destruct (pcs s w) eqn:Epc.
  - (* PIdle *) destruct (lock s) as [h|] eqn:El.
    + exists e. rewrite El. auto.
    + exists e. cbn. rewrite upd_same. split; [exact Ht|]. split; [lia|]. split; [holder_tac Hl w|].
      split; [done_tac Hd w|]. exact Hm.
  - (* PLocked *) assert (lock s = Some w) as El by (apply Hl; rewrite Epc; reflexivity).
    rewrite El, Epc in Hm. exists e. cbn. rewrite El, upd_same. split; [exact Ht|]. split; [lia|].
    split; [holder_tac Hl w|]. split; [done_tac Hd w|]. split; [reflexivity|exact Hm].
  - (* PReadN *) assert (lock s = Some w) as El by (apply Hl; rewrite Epc; reflexivity).
    rewrite El, Epc in Hm. destruct Hm as (-> & Hq). exists e. cbn. rewrite El, upd_same.
    split; [exact Ht|]. split; [lia|]. split; [holder_tac Hl w|]. split; [done_tac Hd w|].
    repeat split; try reflexivity; q.
  - (* PReadS *) assert (lock s = Some w) as El by (apply Hl; rewrite Epc; reflexivity).
    rewrite El, Epc in Hm. destruct Hm as (-> & -> & Hq). pose proof (chunk_pos c (ndata s)) as Hc.
    destruct (ndata s =? 0) eqn:E0.
    + apply Z.eqb_eq in E0. exists e. cbn.
      split; [exact Ht|]. split; [lia|]. split; [|split; [intros; exact E0|exact Hq]].
      intros v Hv. destruct (Nat.eq_dec v w) as [->|Hne]; [rewrite upd_same in Hv; discriminate Hv|].
      rewrite upd_other in Hv by exact Hne. apply Hl in Hv. congruence.
    + apply Z.eqb_neq in E0.
      assert (e = start s /\ ndata s = n c - start s /\ 0 < ndata s) as (-> & Hn & Hp) by q.
      destruct (ndata s <? chunk_of c (ndata s)) eqn:E1.
      * exists (start s). cbn. rewrite El, upd_same. rewrite (wrap_small c 0) by (auto; lia).
        split; [exact Ht|]. split; [lia|]. split; [holder_tac Hl w|]. split; [intros; reflexivity|]. q.
      * apply Z.ltb_ge in E1. exists (start s). cbn. rewrite El, upd_same.
        rewrite (wrap_small c) by (auto; lia).
        split; [exact Ht|]. split; [lia|]. split; [holder_tac Hl w|].
        split; [|q].
        intros v Hv. destruct (Nat.eq_dec v w) as [->|Hne]; [rewrite upd_same in Hv; discriminate Hv|].
        rewrite upd_other in Hv by exact Hne. apply Hd in Hv. lia.
  - (* PWroteN *) assert (lock s = Some w) as El by (apply Hl; rewrite Epc; reflexivity).
    rewrite El, Epc in Hm. destruct Hm as (Hnd & Hst & -> & Hn & Hch). exists st. cbn. rewrite El, upd_same.
    rewrite (wrap_small c) by (auto; lia).
    split; [exact Ht|]. split; [lia|]. split; [holder_tac Hl w|]. split; [done_tac Hd w|]. q.
  - (* PRelease *) assert (lock s = Some w) as El by (apply Hl; rewrite Epc; reflexivity).
    rewrite El, Epc in Hm. destruct Hm as (-> & Hlt & Hle & Hq). exists s1. cbn.
    rewrite map_app. cbn.
    split; [apply ztiles_app; assumption|]. split; [q|]. split; [|split; [done_tac Hd w|exact Hq]].
    intros v Hv. destruct (Nat.eq_dec v w) as [->|Hne]; [rewrite upd_same in Hv; discriminate Hv|].
    rewrite upd_other in Hv by exact Hne. apply Hl in Hv. congruence.
  - (* PWork *) exists e. cbn. split; [exact Ht|]. split; [lia|].
    split; [|split; [done_tac Hd w|]].
    + intros v Hv. destruct (Nat.eq_dec v w) as [->|Hne]; [rewrite upd_same in Hv; discriminate Hv|].
      rewrite upd_other in Hv by exact Hne. apply Hl in Hv. exact Hv.
    + destruct (lock s) as [h|] eqn:El; [|exact Hm].
      destruct (Nat.eq_dec h w) as [->|Hne]; [rewrite Epc in Hm; contradiction|].
      rewrite upd_other by exact Hne. exact Hm.
  - (* PDone *) exists e. auto 6.
Qed.

Lemma inv_run_from c sched : forall s, wf c -> Inv c s -> Inv c (run_from c s sched).
Proof.
  unfold run_from. induction sched as [|w sched IH]; cbn; intros s Hwf Hs; [exact Hs|].
  apply IH; [exact Hwf|]. apply inv_step; assumption.
Qed.

Theorem inv_run c sched : wf c -> Inv c (run c sched).
Proof. intros Hwf. apply inv_run_from; [exact Hwf|]. apply inv_init; exact Hwf. Qed.

(* ---------- corollaries ---------- *)

(* at most one worker is between acquire and release, and it is the lock holder;
   conversely the lock is held only by a worker between acquire and release *)
Lemma mutual_exclusion c sched : wf c ->
  let s := run c sched in
  (forall w1 w2, in_critical (pcs s w1) = true -> in_critical (pcs s w2) = true -> w1 = w2) /\
  (forall w, in_critical (pcs s w) = true -> lock s = Some w) /\
  (forall w, lock s = Some w -> in_critical (pcs s w) = true).
Proof.
  intros Hwf s. destruct (inv_run c sched Hwf) as (e & _ & _ & Hl & _ & Hm). fold s in Hl, Hm.
  split; [|split].
  - intros w1 w2 H1 H2. apply Hl in H1. apply Hl in H2. congruence.
  - exact Hl.
  - intros w Hw. rewrite Hw in Hm. destruct (pcs s w); try reflexivity; contradiction.
Qed.

(* the slices handed out so far, under any interleaving: they tile a prefix [0, e) of [0, n) *)
Lemma slices_prefix c sched : wf c -> exists e, 0 <= e <= n c /\ ztiles 0 (slices (run c sched)) e.
Proof. intros Hwf. destruct (inv_run c sched Hwf) as (e & Ht & He & _). exists e. auto. Qed.

(* when the lock is free and the counter is exhausted, [0, n) is covered exactly *)
Lemma cover_when_finished c sched : wf c ->
  lock (run c sched) = None -> ndata (run c sched) = 0 -> ztiles 0 (slices (run c sched)) (n c).
Proof.
  intros Hwf Hl Hn. destruct (inv_run c sched Hwf) as (e & Ht & _ & _ & _ & Hm).
  rewrite Hl in Hm. destruct Hm as (_ & _ & Hz). rewrite (Hz Hn) in Ht. exact Ht.
Qed.

(* workers that never get a turn stay idle *)
Lemma untouched_idle c nw sched : forall s, workers_below nw sched ->
  forall w, (nw <= w)%nat -> pcs (run_from c s sched) w = pcs s w.
Proof.
  unfold run_from. induction sched as [|v sched IH]; cbn; intros s Hb w Hw; [reflexivity|].
  inversion Hb as [|? ? Hv Hr]; subst. rewrite (IH _ Hr w Hw).
  unfold step, set_pc. destruct (pcs s v); try reflexivity;
    try (cbn; apply upd_other; lia).
  - destruct (lock s); [reflexivity|cbn; apply upd_other; lia].
  - destruct (nd =? 0); [cbn; apply upd_other; lia|]. destruct (nd <? chunk_of c nd); cbn; apply upd_other; lia.
Qed.

(* all nw workers returned => lock free, counter 0, and the slices tile exactly [0, n) *)
Lemma cover_all_done c nw sched : wf c -> (1 <= nw)%nat -> workers_below nw sched ->
  all_done nw (run c sched) ->
  lock (run c sched) = None /\ ndata (run c sched) = 0 /\ ztiles 0 (slices (run c sched)) (n c).
Proof.
  intros Hwf Hnw Hb Hall.
  assert (Hlk : lock (run c sched) = None).
  { destruct (lock (run c sched)) as [h|] eqn:El; [|reflexivity].
    destruct (mutual_exclusion c sched Hwf) as (_ & _ & Hh). specialize (Hh h El).
    destruct (Nat.lt_ge_cases h nw) as [Hlt|Hge].
    - rewrite (Hall h Hlt) in Hh. discriminate Hh.
    - unfold run in Hh. rewrite (untouched_idle c nw sched (init c) Hb h Hge) in Hh. discriminate Hh. }
  assert (Hnd : ndata (run c sched) = 0).
  { destruct (inv_run c sched Hwf) as (e & _ & _ & _ & Hd & _). apply (Hd 0%nat). apply Hall. lia. }
  split; [exact Hlk|]. split; [exact Hnd|]. apply cover_when_finished; assumption.
Qed.
