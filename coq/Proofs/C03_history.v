(* C03: histories of calls in one process.  The model of kd_tree is a pure function of the call, so a history of calls is
   [map f].  A memory of earlier results (the usual way state creeps in) keeps that law exactly when the memory key
   determines everything the result depends on; a key that omits a parameter (the radius) breaks it. *)
From Coq Require Import List Bool Arith Lia.
Import ListNotations.

Section Memo.
  Context {C K V : Type}.
  Variable key : C -> K.
  Variable keqb : K -> K -> bool.
  Hypothesis keqb_eq : forall a b, keqb a b = true <-> a = b.
  Variable f : C -> V.                                   (* the pure computation of one call *)
  Variable evict : list (K * V) -> list (K * V).         (* bounded memory: any policy that only forgets *)
  Hypothesis evict_incl : forall t, incl (evict t) t.

  Definition lookup (t : list (K * V)) (k : K) : option V :=
    match find (fun e => keqb (fst e) k) t with Some e => Some (snd e) | None => None end.

  (* the calls of a history, one after the other, sharing the memory *)
  Fixpoint run_memo (t : list (K * V)) (hist : list C) : list V :=
    match hist with
    | [] => []
    | c :: r => match lookup t (key c) with
                | Some v => v :: run_memo t r
                | None => f c :: run_memo ((key c, f c) :: evict t) r
                end
    end.

  Definition table_ok (t : list (K * V)) : Prop := forall k v, In (k, v) t -> forall c, key c = k -> v = f c.

  Lemma lookup_in t k v : lookup t k = Some v -> In (k, v) t.
  Proof.
    unfold lookup. destruct (find _ t) as [[k' v']|] eqn:E; [|discriminate]. intros H. inversion H; subst.
    apply find_some in E as [Hin Hk]. cbn in Hk. apply keqb_eq in Hk. subst. exact Hin.
  Qed.

  (* history independence of a memoised computation, IF the key determines the result *)
  Lemma memo_history_sound : (forall c c', key c = key c' -> f c = f c') ->
    forall hist t, table_ok t -> run_memo t hist = map f hist.
  Proof.
    intros Hkey. induction hist as [|c r IH]; intros t Ht; [reflexivity|]. cbn.
    destruct (lookup t (key c)) as [v|] eqn:E.
    - apply lookup_in in E. rewrite (Ht _ _ E c eq_refl). f_equal. apply IH. exact Ht.
    - f_equal. apply IH. intros k v [H|H] c' Hc'.
      + injection H as Hk Hv. rewrite <- Hv. apply Hkey. congruence.
      + apply (Ht k v (evict_incl t _ H) c' Hc').
  Qed.
End Memo.

(* a memory keyed by the geometry pair only, for a result that also depends on the radius: the second call is wrong *)
Lemma memo_key_without_radius_refuted :
  exists (hist : list (nat * nat)),            (* (geometry pair id, radius) *)
    run_memo (fun c => fst c) Nat.eqb (fun c : nat * nat => fst c + snd c) (fun t => t) [] hist
    <> map (fun c : nat * nat => fst c + snd c) hist.
Proof. exists [(7, 5); (7, 120)]. cbn. discriminate. Qed.
