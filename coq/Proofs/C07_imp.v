(* C07: the methods of BucketResampler translated from /repo by tools/py2coq_imp.py (coq/Gen/GenC07imp.v) ARE the model:
   each generated method returns the model's statistic and leaves self in the model's next state (memo filled / idxs re-chunked),
   and a history of calls through the generated methods returns what fresh objects return. *)
From Coq Require Import ZArith Bool List Lia.
From PR Require Import Base.Num Base.ZX Base.ListX Base.Imp Model.Grid Model.Bucket Model.ImpBucket Gen.GenC07imp
     Proofs.C07_index Proofs.C07_hist Proofs.C07_history.
Import ListNotations.
Open Scope Z_scope.

(* ------------------------------------------------------------------ lists of chunks *)
Lemma split_lens_concat {A} (cs : list (list A)) : bk_split_chunks (ib_lens cs) (concat cs) = cs.
Proof.
  induction cs as [|c cs IH]; [reflexivity|]. cbn [ib_lens map concat bk_split_chunks].
  rewrite firstn_app, Nat.sub_diag, firstn_all. cbn [firstn]. rewrite app_nil_r.
  rewrite skipn_app, Nat.sub_diag, skipn_all. cbn [skipn app]. fold (ib_lens cs). rewrite IH. reflexivity.
Qed.

Lemma list_eqb_nat_eq (a b : list nat) : list_eqb Nat.eqb a b = true -> a = b.
Proof.
  revert b. induction a as [|x a IH]; intros [|y b]; cbn; try discriminate; [reflexivity|].
  intros H. apply andb_true_iff in H. destruct H as [H1 H2]. apply Nat.eqb_eq in H1. subst. f_equal. apply IH, H2.
Qed.

Lemma obj_eta o : mk_obj (o_size o) (o_chunks o) (o_counts o) = o.
Proof. destruct o; reflexivity. Qed.

Lemma rechunk_same {B} (o : bk_obj) (like : list (list B)) : ib_lens like = ib_lens (o_chunks o) ->
  bk_rechunk (ib_lens like) o = o.
Proof. intros E. unfold bk_rechunk. rewrite E, split_lens_concat. apply obj_eta. Qed.

Lemma rechunk_chunks lens o : concat (o_chunks (bk_rechunk lens o)) = concat (o_chunks o).
Proof. apply concat_split. Qed.

Lemma rechunk_rechunk lens o : bk_rechunk lens (bk_rechunk lens o) = bk_rechunk lens o.
Proof. unfold bk_rechunk. cbn [o_size o_chunks o_counts]. rewrite concat_split. reflexivity. Qed.

(* ------------------------------------------------------------------ the array readings, flattened *)
Lemma lens_invalid_mask fill data : ib_lens (ib_invalid_mask fill data) = ib_lens data.
Proof. unfold ib_lens, ib_invalid_mask. rewrite map_map. apply map_ext. intros c. apply map_length. Qed.

Lemma weights_chunk fill c :
  map (fun q : bool * dat => if fst q then Some 0 else snd q) (combine (map (bk_invalid fill) c) c) = bk_weights fill c.
Proof. unfold bk_weights. induction c as [|d c IH]; [reflexivity|]. cbn [map combine fst snd]. rewrite IH. reflexivity. Qed.

Lemma weights_flat fill data : concat (ib_weights (ib_invalid_mask fill data) data) = bk_weights fill (concat data).
Proof.
  unfold ib_weights, ib_invalid_mask. induction data as [|c data IH]; [reflexivity|].
  cbn [map combine concat fst snd]. rewrite IH, weights_chunk. unfold bk_weights. rewrite map_app. reflexivity.
Qed.

Lemma lens_weights fill data : ib_lens (ib_weights (ib_invalid_mask fill data) data) = ib_lens data.
Proof.
  unfold ib_weights, ib_invalid_mask, ib_lens. induction data as [|c data IH]; [reflexivity|].
  cbn [map combine fst snd]. rewrite IH. f_equal. rewrite map_length, combine_length, map_length. apply Nat.min_id.
Qed.

Lemma missing_flat_mask fill (idxs : list Z) (data : list dat) :
  map fst (filter (fun p : Z * bool => snd p) (combine idxs (map (bk_invalid fill) data))) = bk_missing_idxs fill idxs data.
Proof.
  unfold bk_missing_idxs. revert data. induction idxs as [|i idxs IH]; intros [|d data]; cbn [map combine filter]; try reflexivity.
  cbn [snd]. destruct (bk_invalid fill d); cbn [map fst]; rewrite IH; reflexivity.
Qed.

Lemma invalid_mask_flat fill data : concat (ib_invalid_mask fill data) = map (bk_invalid fill) (concat data).
Proof. unfold ib_invalid_mask. symmetry. apply concat_map. Qed.

Lemma combine_cells {A B} size (f : Z -> A) (g : Z -> B) :
  combine (bk_cells size f) (bk_cells size g) = bk_cells size (fun k => (f k, g k)).
Proof. unfold bk_cells. induction (zrange 0 (Z.to_nat size)) as [|k l IH]; [reflexivity|]. cbn [map combine]. rewrite IH. reflexivity. Qed.

Lemma map_cells {A B} size (h : A -> B) (f : Z -> A) : map h (bk_cells size f) = bk_cells size (fun k => h (f k)).
Proof. unfold bk_cells. apply map_map. Qed.

Lemma cells_ext {A} size (f g : Z -> A) : (forall k, f k = g k) -> bk_cells size f = bk_cells size g.
Proof. intros H. unfold bk_cells. apply map_ext. exact H. Qed.

(* ------------------------------------------------------------------ get_count *)
Definition count_flat (o : bk_obj) : bk_obj * list Z :=
  match o_counts o with
  | Some cs => (o, cs)
  | None => let cs := bk_cells (o_size o) (bk_count (o_size o) (concat (o_chunks o))) in (mk_obj (o_size o) (o_chunks o) (Some cs), cs)
  end.

Lemma count_flat_step o : count_flat o = bk_count_step o.
Proof.
  unfold count_flat, bk_count_step. destruct (o_counts o); [reflexivity|].
  assert (E : bk_cells (o_size o) (bk_count (o_size o) (concat (o_chunks o)))
              = bk_cells (o_size o) (bk_hist_chunked Z.add 0 (o_size o) (map (map (fun i => (i, 1))) (o_chunks o)))).
  { apply cells_ext. intros k. symmetry. apply count_chunked_flat. }
  cbn zeta. rewrite E. reflexivity.
Qed.

Lemma get_count_code o :
  exists st, imp_get_count o = Ret [] st (snd (bk_count_step o)) /\ imp_get_count_self st = fst (bk_count_step o).
Proof.
  rewrite <- count_flat_step. unfold imp_get_count, count_flat, andthen, assign, ite, check, ret, skip, prepend, ib_count_hist.
  destruct o as [size chunks [cs|]]; cbn; eexists; split; reflexivity.
Qed.

(* ------------------------------------------------------------------ _mask_bins_with_nan_if_not_skipna *)
Lemma mask_bins_code o skipna data size stat fill :
  exists st, imp_mask_bins o skipna data size stat fill
             = Ret [] st (if skipna then stat
                          else ib_where_missing (ib_missing_hist size (o_chunks o) (ib_invalid_mask fill data)) fill stat).
Proof.
  unfold imp_mask_bins, andthen, assign, ite, ret, skip, prepend. destruct skipna; cbn; eexists; reflexivity.
Qed.

(* ------------------------------------------------------------------ get_sum *)
Lemma get_sum_value size (idxs : list (list Z)) data fill skipna ebv :
  (fun sums1 => if negb (dat_eqb ebv (Some 0)) then ib_where_zero ebv sums1 else sums1)
    (if skipna then ib_sum_hist size idxs (ib_weights (ib_invalid_mask fill data) data)
     else ib_where_missing (ib_missing_hist size idxs (ib_invalid_mask fill data)) fill
                           (ib_sum_hist size idxs (ib_weights (ib_invalid_mask fill data) data)))
  = bk_cells size (bk_get_sum size (concat idxs) (concat data) fill skipna ebv).
Proof.
  unfold ib_sum_hist, ib_missing_hist, ib_where_missing, ib_where_zero, bk_get_sum.
  rewrite weights_flat, invalid_mask_flat, missing_flat_mask.
  destruct (dat_eqb ebv (Some 0)); cbn [negb]; destruct skipna;
    rewrite ?combine_cells, ?map_cells; apply cells_ext; intros k; cbn [fst snd]; rewrite ?Z.gtb_ltb; reflexivity.
Qed.

Lemma get_sum_code o data fill skipna ebv :
  exists st, imp_get_sum o data fill skipna ebv
             = Ret [] st (bk_cells (o_size o) (bk_get_sum (o_size o) (concat (o_chunks o)) (concat data) fill skipna ebv))
             /\ imp_get_sum_self st = bk_rechunk (ib_lens data) o.
Proof.
  pose proof (get_sum_value (o_size o) (o_chunks (bk_rechunk (ib_lens data) o)) data fill skipna ebv) as V.
  rewrite rechunk_chunks in V. rewrite <- V. clear V.
  unfold imp_get_sum, andthen, assign, ite, ret, skip, prepend, call_, value_of.
  cbn [imp_get_sum_self imp_get_sum_data imp_get_sum_fill_value imp_get_sum_skipna imp_get_sum_empty_bucket_value
       imp_get_sum_invalid_mask imp_get_sum_weights imp_get_sum_out_size imp_get_sum_sums imp_get_sum__ imp_get_sum__ret
       imp_get_sum_set_self imp_get_sum_set_data imp_get_sum_set_invalid_mask imp_get_sum_set_weights imp_get_sum_set_out_size
       imp_get_sum_set_sums imp_get_sum_set__ imp_get_sum_set__ret fst snd app o_size o_chunks o_counts].
  destruct (ib_same_chunks (ib_weights (ib_invalid_mask fill data) data) (o_chunks o)) eqn:Es; cbn [negb].
  - (* chunks already match: self untouched, which is the re-chunked object *)
    apply list_eqb_nat_eq in Es. rewrite lens_weights in Es.
    rewrite (rechunk_same o data Es).
    cbn [imp_get_sum_self imp_get_sum_data imp_get_sum_fill_value imp_get_sum_skipna imp_get_sum_empty_bucket_value
         imp_get_sum_invalid_mask imp_get_sum_weights imp_get_sum_out_size imp_get_sum_sums imp_get_sum__ imp_get_sum__ret
         imp_get_sum_set_self imp_get_sum_set_data imp_get_sum_set_invalid_mask imp_get_sum_set_weights imp_get_sum_set_out_size
         imp_get_sum_set_sums imp_get_sum_set__ imp_get_sum_set__ret fst snd app o_size o_chunks o_counts].
    destruct (mask_bins_code o skipna data (o_size o) (ib_sum_hist (o_size o) (o_chunks o) (ib_weights (ib_invalid_mask fill data) data)) fill) as [st1 E1].
    rewrite E1. cbn [app]. destruct skipna; destruct (dat_eqb ebv (Some 0)); cbn; eexists; split; reflexivity.
  - unfold ib_rechunk. rewrite lens_weights. fold (bk_rechunk (ib_lens data) o).
    cbn [imp_get_sum_self imp_get_sum_data imp_get_sum_fill_value imp_get_sum_skipna imp_get_sum_empty_bucket_value
         imp_get_sum_invalid_mask imp_get_sum_weights imp_get_sum_out_size imp_get_sum_sums imp_get_sum__ imp_get_sum__ret
         imp_get_sum_set_self imp_get_sum_set_data imp_get_sum_set_invalid_mask imp_get_sum_set_weights imp_get_sum_set_out_size
         imp_get_sum_set_sums imp_get_sum_set__ imp_get_sum_set__ret fst snd app o_size o_chunks o_counts].
    set (o' := bk_rechunk (ib_lens data) o).
    change (mk_obj (o_size o) (bk_split_chunks (ib_lens data) (concat (o_chunks o))) (o_counts o)) with o'.
    destruct (mask_bins_code o' skipna data (o_size o) (ib_sum_hist (o_size o) (o_chunks o') (ib_weights (ib_invalid_mask fill data) data)) fill) as [st1 E1].
    change (o_size o') with (o_size o). rewrite E1. cbn [app].
    destruct skipna; destruct (dat_eqb ebv (Some 0)); cbn; eexists; split; reflexivity.
Qed.
