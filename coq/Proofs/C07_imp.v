(* C07: the methods of BucketResampler translated from /repo by tools/py2coq_imp.py (coq/Gen/GenC07imp.v) ARE the model:
   each generated method returns the model's statistic and leaves self in the model's next state (memo filled / idxs re-chunked),
   and a history of calls through the generated methods returns what fresh objects return. *)
From Coq Require Import ZArith Bool List Lia.
From PR Require Import Base.Num Base.ZX Base.ListX Base.Imp Model.Grid Model.Bucket Model.ImpBucket Gen.GenC07imp Model.C07_imp_run
     Proofs.C07_index Proofs.C07_hist Proofs.C07_history.
Import ListNotations.
Open Scope Z_scope.

(* ------------------------------------------------------------------ lists of chunks *)
Lemma split_lens_concat {A} (cs : list (list A)) : bk_split_chunks (ib_lens cs) (concat cs) = cs.
Proof.
  induction cs as [|c cs IH]; [reflexivity|]. cbn [ib_lens map concat bk_split_chunks].
  rewrite firstn_app, Nat.sub_diag, firstn_all. cbn [firstn]. rewrite app_nil_r.
  rewrite skipn_app, Nat.sub_diag, skipn_all. cbn [skipn app]. fold (ib_lens cs). rewrite IH. reflexivity.
Qed.

Lemma list_eqb_nat_eq (a b : list nat) : list_eqb Nat.eqb a b = true -> a = b.
Proof.
  revert b. induction a as [|x a IH]; intros [|y b]; cbn; try discriminate; [reflexivity|].
  intros H. apply andb_true_iff in H. destruct H as [H1 H2]. apply Nat.eqb_eq in H1. subst. f_equal. apply IH, H2.
Qed.

Lemma obj_eta o : mk_obj (o_size o) (o_chunks o) (o_counts o) = o.
Proof. destruct o; reflexivity. Qed.

Lemma rechunk_same {B} (o : bk_obj) (like : list (list B)) : ib_lens like = ib_lens (o_chunks o) ->
  bk_rechunk (ib_lens like) o = o.
Proof. intros E. unfold bk_rechunk. rewrite E, split_lens_concat. apply obj_eta. Qed.

Lemma rechunk_chunks lens o : concat (o_chunks (bk_rechunk lens o)) = concat (o_chunks o).
Proof. apply concat_split. Qed.

Lemma rechunk_rechunk lens o : bk_rechunk lens (bk_rechunk lens o) = bk_rechunk lens o.
Proof. unfold bk_rechunk. cbn [o_size o_chunks o_counts]. rewrite concat_split. reflexivity. Qed.

(* ------------------------------------------------------------------ the array readings, flattened *)
Lemma lens_invalid_mask fill data : ib_lens (ib_invalid_mask fill data) = ib_lens data.
Proof. unfold ib_lens, ib_invalid_mask. rewrite map_map. apply map_ext. intros c. apply map_length. Qed.

Lemma weights_chunk fill c :
  map (fun q : bool * dat => if fst q then Some 0 else snd q) (combine (map (bk_invalid fill) c) c) = bk_weights fill c.
Proof. unfold bk_weights. induction c as [|d c IH]; [reflexivity|]. cbn [map combine fst snd]. rewrite IH. reflexivity. Qed.

Lemma weights_flat fill data : concat (ib_weights (ib_invalid_mask fill data) data) = bk_weights fill (concat data).
Proof.
  unfold ib_weights, ib_invalid_mask. induction data as [|c data IH]; [reflexivity|].
  cbn [map combine concat fst snd]. rewrite IH, weights_chunk. unfold bk_weights. rewrite map_app. reflexivity.
Qed.

Lemma lens_weights fill data : ib_lens (ib_weights (ib_invalid_mask fill data) data) = ib_lens data.
Proof.
  unfold ib_weights, ib_invalid_mask, ib_lens. induction data as [|c data IH]; [reflexivity|].
  cbn [map combine fst snd]. rewrite IH. f_equal. rewrite map_length, combine_length, map_length. apply Nat.min_id.
Qed.

Lemma missing_flat_mask fill (idxs : list Z) (data : list dat) :
  map fst (filter (fun p : Z * bool => snd p) (combine idxs (map (bk_invalid fill) data))) = bk_missing_idxs fill idxs data.
Proof.
  unfold bk_missing_idxs. revert data. induction idxs as [|i idxs IH]; intros [|d data]; cbn [map combine filter]; try reflexivity.
  cbn [snd]. destruct (bk_invalid fill d); cbn [map fst]; rewrite IH; reflexivity.
Qed.

Lemma invalid_mask_flat fill data : concat (ib_invalid_mask fill data) = map (bk_invalid fill) (concat data).
Proof. unfold ib_invalid_mask. symmetry. apply concat_map. Qed.

Lemma combine_cells {A B} size (f : Z -> A) (g : Z -> B) :
  combine (bk_cells size f) (bk_cells size g) = bk_cells size (fun k => (f k, g k)).
Proof. unfold bk_cells. induction (zrange 0 (Z.to_nat size)) as [|k l IH]; [reflexivity|]. cbn [map combine]. rewrite IH. reflexivity. Qed.

Lemma map_cells {A B} size (h : A -> B) (f : Z -> A) : map h (bk_cells size f) = bk_cells size (fun k => h (f k)).
Proof. unfold bk_cells. apply map_map. Qed.

Lemma cells_ext {A} size (f g : Z -> A) : (forall k, f k = g k) -> bk_cells size f = bk_cells size g.
Proof. intros H. unfold bk_cells. apply map_ext. exact H. Qed.

(* ------------------------------------------------------------------ get_count *)
Definition count_flat (o : bk_obj) : bk_obj * list Z :=
  match o_counts o with
  | Some cs => (o, cs)
  | None => let cs := bk_cells (o_size o) (bk_count (o_size o) (concat (o_chunks o))) in (mk_obj (o_size o) (o_chunks o) (Some cs), cs)
  end.

Lemma count_flat_step o : count_flat o = bk_count_step o.
Proof.
  unfold count_flat, bk_count_step. destruct (o_counts o); [reflexivity|].
  assert (E : bk_cells (o_size o) (bk_count (o_size o) (concat (o_chunks o)))
              = bk_cells (o_size o) (bk_hist_chunked Z.add 0 (o_size o) (map (map (fun i => (i, 1))) (o_chunks o)))).
  { apply cells_ext. intros k. symmetry. apply count_chunked_flat. }
  cbn zeta. rewrite E. reflexivity.
Qed.

Lemma count_step_memo o : o_counts (fst (bk_count_step o)) = Some (snd (bk_count_step o)).
Proof. unfold bk_count_step. destruct (o_counts o) eqn:E; cbn; [exact E | reflexivity]. Qed.

Lemma get_count_code o :
  exists st, imp_get_count o = Ret [] st (snd (bk_count_step o)) /\ imp_get_count_self st = fst (bk_count_step o).
Proof.
  rewrite <- count_flat_step. unfold imp_get_count, count_flat, andthen, assign, ite, check, ret, skip, prepend, ib_count_hist.
  destruct o as [size chunks [cs|]]; cbn; eexists; split; reflexivity.
Qed.

(* ------------------------------------------------------------------ stepping through generated bodies *)
Lemma andthen_call {St Y R V} (f : St -> cres V) (bind : V -> St -> St) (k : M St Y R) s :
  andthen (call_ f bind) k s = match f s with CFuel => Fuel | CRaised => Raised | COk v => k (bind v s) end.
Proof. unfold andthen, call_. destruct (f s); try reflexivity. apply prepend_nil. Qed.
Lemma ret_eval {St Y R} (f : St -> R) (s : St) : ret f s = (Ret [] s (f s) : res St Y R).
Proof. reflexivity. Qed.
Lemma ite_skip_eval {St Y R} c (a : M St Y R) s : ite c a skip s = if c s then a s else Fall [] s.
Proof. reflexivity. Qed.

Local Arguments andthen : simpl never.
Local Arguments assign : simpl never.
Local Arguments ite : simpl never.
Local Arguments ret : simpl never.
Local Arguments skip : simpl never.
Local Arguments check : simpl never.
Local Arguments call_ : simpl never.
Local Arguments for_ : simpl never.
Local Arguments try_ : simpl never.
Local Arguments value_of : simpl never.
Local Arguments ib_sum_hist : simpl never.
Local Arguments ib_count_hist : simpl never.
Local Arguments ib_missing_hist : simpl never.
Local Arguments ib_where_missing : simpl never.
Local Arguments ib_where_zero : simpl never.
Local Arguments ib_invalid_mask : simpl never.
Local Arguments ib_weights : simpl never.
Local Arguments ib_same_chunks : simpl never.
Local Arguments ib_rechunk : simpl never.
Local Arguments ib_statistic : simpl never.
Local Arguments ib_abs_max : simpl never.
Local Arguments ib_mark_fill : simpl never.
Local Arguments ib_valid_flags : simpl never.
Local Arguments ib_cat_flags : simpl never.
Local Arguments ib_avg_div : simpl never.
Local Arguments ib_avg_fill : simpl never.
Local Arguments ib_frac_div : simpl never.
Local Arguments ib_frac_fill : simpl never.
Local Arguments bk_rechunk : simpl never.
Local Arguments bk_cells : simpl never.
Local Arguments dat_eqb : simpl never.
Local Arguments dat_isnan : simpl never.
Local Arguments d_set : simpl never.
Local Arguments zlen : simpl never.
Ltac istep := first [rewrite andthen_assign | rewrite andthen_skip | rewrite andthen_call | rewrite andthen_check]; cbv beta; cbn.

(* ------------------------------------------------------------------ _mask_bins_with_nan_if_not_skipna *)
Lemma mask_bins_code o skipna data size stat fill :
  exists st, imp_mask_bins o skipna data size stat fill
             = Ret [] st (if skipna then stat
                          else ib_where_missing (ib_missing_hist size (o_chunks o) (ib_invalid_mask fill data)) fill stat).
Proof.
  unfold imp_mask_bins. rewrite andthen_ite. cbn. destruct skipna; cbn.
  - rewrite andthen_skip, ret_eval. eexists; reflexivity.
  - rewrite seq_assoc. repeat istep. rewrite seq_assoc. repeat istep. rewrite ret_eval. cbn. eexists; reflexivity.
Qed.

(* ------------------------------------------------------------------ get_sum *)
Lemma get_sum_value size (idxs : list (list Z)) data fill (skipna : bool) ebv :
  (fun sums1 : list dat => if negb (dat_eqb ebv (Some 0)) then ib_where_zero ebv sums1 else sums1)
    (if skipna then ib_sum_hist size idxs (ib_weights (ib_invalid_mask fill data) data)
     else ib_where_missing (ib_missing_hist size idxs (ib_invalid_mask fill data)) fill
                           (ib_sum_hist size idxs (ib_weights (ib_invalid_mask fill data) data)))
  = bk_cells size (bk_get_sum size (concat idxs) (concat data) fill skipna ebv).
Proof.
  unfold ib_sum_hist, ib_missing_hist, ib_where_missing, ib_where_zero, bk_get_sum.
  rewrite weights_flat, invalid_mask_flat, missing_flat_mask.
  destruct (dat_eqb ebv (Some 0)); cbn [negb]; destruct skipna;
    rewrite ?combine_cells, ?map_cells; apply cells_ext; intros k; cbn [fst snd]; rewrite ?Z.gtb_ltb; reflexivity.
Qed.

Lemma get_sum_code o data fill skipna ebv :
  exists st, imp_get_sum o data fill skipna ebv
             = Ret [] st (bk_cells (o_size o) (bk_get_sum (o_size o) (concat (o_chunks o)) (concat data) fill skipna ebv))
             /\ imp_get_sum_self st = bk_rechunk (ib_lens data) o.
Proof.
  pose proof (get_sum_value (o_size o) (o_chunks (bk_rechunk (ib_lens data) o)) data fill skipna ebv) as V.
  rewrite rechunk_chunks in V. rewrite <- V. clear V.
  unfold imp_get_sum. repeat istep. rewrite andthen_ite. cbn.
  assert (Eo : (if negb (ib_same_chunks (ib_weights (ib_invalid_mask fill data) data) (o_chunks o))
                then mk_obj (o_size o) (ib_rechunk (o_chunks o) (ib_weights (ib_invalid_mask fill data) data)) (o_counts o) else o)
               = bk_rechunk (ib_lens data) o).
  { destruct (ib_same_chunks _ _) eqn:Es; cbn [negb].
    - apply list_eqb_nat_eq in Es. rewrite lens_weights in Es. symmetry. apply (rechunk_same o data Es).
    - unfold ib_rechunk. rewrite lens_weights. reflexivity. }
  set (w := ib_weights (ib_invalid_mask fill data) data) in *.
  set (o' := bk_rechunk (ib_lens data) o) in *.
  assert (Tail : forall st0 : imp_get_sum_st,
            imp_get_sum_self st0 = o' -> imp_get_sum_data st0 = data -> imp_get_sum_fill_value st0 = fill ->
            imp_get_sum_skipna st0 = skipna -> imp_get_sum_empty_bucket_value st0 = ebv -> imp_get_sum_weights st0 = w ->
            exists st, ((andthen (assign (fun s => (imp_get_sum_set_out_size (o_size (imp_get_sum_self s)) s)))
 (andthen (assign (fun s => (fun x_ s => (imp_get_sum_set__ (snd x_) (imp_get_sum_set_sums (fst x_) s))) (ib_sum_hist (imp_get_sum_out_size s) (o_chunks (imp_get_sum_self s)) (imp_get_sum_weights s), tt) s))
 (andthen (call_ (fun s => value_of (imp_mask_bins (imp_get_sum_self s) (imp_get_sum_skipna s) (imp_get_sum_data s) (imp_get_sum_out_size s) (imp_get_sum_sums s) (imp_get_sum_fill_value s))) (fun x_ s => (imp_get_sum_set_sums x_ s)))
 (andthen (ite (fun s => (negb (dat_eqb (imp_get_sum_empty_bucket_value s) (Some 0))))
 (assign (fun s => (imp_get_sum_set_sums (ib_where_zero (imp_get_sum_empty_bucket_value s) (imp_get_sum_sums s)) s)))
 skip)
 (ret (fun s => (imp_get_sum_sums s))))))) : M imp_get_sum_st Empty_set (list dat)) st0
            = Ret [] st ((fun sums1 : list dat => if negb (dat_eqb ebv (Some 0)) then ib_where_zero ebv sums1 else sums1)
                          (if skipna then ib_sum_hist (o_size o) (o_chunks o') w
                           else ib_where_missing (ib_missing_hist (o_size o) (o_chunks o') (ib_invalid_mask fill data)) fill
                                                 (ib_sum_hist (o_size o) (o_chunks o') w)))
            /\ imp_get_sum_self st = o').
  { intros st0 H1 H2 H3 H4 H5 H6. destruct st0 as [s0 d0 f0 k0 e0 m0 w0 z0 u0 t0 r0]. cbn in H1, H2, H3, H4, H5, H6. subst s0 d0 f0 k0 e0 w0.
    repeat istep.
    destruct (mask_bins_code o' skipna data (o_size o') (ib_sum_hist (o_size o') (o_chunks o') w) fill) as [st1 E1].
    rewrite E1. unfold value_of. rewrite andthen_ite. cbn.
    destruct (negb (dat_eqb ebv (Some 0))); repeat istep; rewrite ?andthen_skip, ret_eval; cbn;
      eexists; (split; [reflexivity|]); reflexivity. }
  destruct (negb (ib_same_chunks w (o_chunks o))).
  - rewrite andthen_assign. apply Tail; cbn; auto.
  - rewrite andthen_skip. apply Tail; cbn; auto.
Qed.

(* ------------------------------------------------------------------ _call_bin_statistic, get_min, get_max, get_abs_max *)
Lemma call_bin_statistic_code o m data fill skipna :
  exists st, imp_call_bin_statistic o m data fill skipna
             = Ret [] st (bk_cells (o_size o) (bk_get_stat m (o_size o) (concat (o_chunks o)) (concat data)))
             /\ imp_call_bin_statistic_self st = bk_rechunk (ib_lens data) o.
Proof.
  unfold imp_call_bin_statistic. repeat istep. rewrite andthen_ite. cbn.
  assert (Eo : (if negb (ib_same_chunks data (o_chunks o))
                then mk_obj (o_size o) (ib_rechunk (o_chunks o) data) (o_counts o) else o) = bk_rechunk (ib_lens data) o).
  { destruct (ib_same_chunks _ _) eqn:Es; cbn [negb].
    - apply list_eqb_nat_eq in Es. symmetry. apply (rechunk_same o data Es).
    - reflexivity. }
  assert (Hv1 : ib_statistic m (o_size o) (ib_rechunk (o_chunks o) data) data
                = bk_cells (o_size o) (bk_get_stat m (o_size o) (concat (o_chunks o)) (concat data)))
    by (unfold ib_statistic, ib_rechunk; rewrite concat_split; reflexivity).
  assert (Hv2 : ib_statistic m (o_size o) (o_chunks o) data
                = bk_cells (o_size o) (bk_get_stat m (o_size o) (concat (o_chunks o)) (concat data))) by reflexivity.
  destruct (negb (ib_same_chunks data (o_chunks o))); repeat istep; rewrite ret_eval; cbn; rewrite ?Hv1, ?Hv2; eexists;
    (split; [reflexivity | cbn; exact Eo]).
Qed.

Lemma get_min_code o data fill skipna :
  exists st, imp_get_min o data fill skipna
             = Ret [] st (bk_cells (o_size o) (bk_get_min (o_size o) (concat (o_chunks o)) (concat data)))
             /\ imp_get_min_self st = bk_rechunk (ib_lens data) o.
Proof.
  unfold imp_get_min. rewrite andthen_call. cbn.
  destruct (call_bin_statistic_code o false data fill skipna) as (st1 & E1 & S1). rewrite E1. cbn.
  rewrite ret_eval. cbn. eexists. split; [reflexivity | exact S1].
Qed.
Lemma get_max_code o data fill skipna :
  exists st, imp_get_max o data fill skipna
             = Ret [] st (bk_cells (o_size o) (bk_get_max (o_size o) (concat (o_chunks o)) (concat data)))
             /\ imp_get_max_self st = bk_rechunk (ib_lens data) o.
Proof.
  unfold imp_get_max. rewrite andthen_call. cbn.
  destruct (call_bin_statistic_code o true data fill skipna) as (st1 & E1 & S1). rewrite E1. cbn.
  rewrite ret_eval. cbn. eexists. split; [reflexivity | exact S1].
Qed.
Lemma get_abs_max_code o data fill skipna :
  exists st, imp_get_abs_max o data fill skipna
             = Ret [] st (bk_cells (o_size o) (bk_get_abs_max (o_size o) (concat (o_chunks o)) (concat data)))
             /\ imp_get_abs_max_self st = bk_rechunk (ib_lens data) o.
Proof.
  unfold imp_get_abs_max. rewrite andthen_call. cbn.
  destruct (get_max_code o data fill skipna) as (st1 & E1 & S1). rewrite E1. cbn.
  rewrite andthen_call. cbn. rewrite S1.
  destruct (get_min_code (bk_rechunk (ib_lens data) o) data fill skipna) as (st2 & E2 & S2). rewrite E2. cbn.
  rewrite ret_eval. cbn. eexists. split.
  - f_equal. rewrite rechunk_chunks. change (o_size (bk_rechunk (ib_lens data) o)) with (o_size o).
    unfold ib_abs_max, bk_get_abs_max. rewrite combine_cells, map_cells. reflexivity.
  - rewrite S2. apply rechunk_rechunk.
Qed.

(* ------------------------------------------------------------------ get_average *)
Lemma hist_some size idxs zs k :
  bk_hist oadd (Some 0) size (combine idxs (map Some zs)) k = Some (bk_hist Z.add 0 size (combine idxs zs) k).
Proof.
  rewrite (hist_at oadd (Some 0) oadd_assoc oadd_0_l oadd_0_r), (hist_at Z.add 0) by (intros; lia).
  rewrite vsum_Z, <- vsum_some. f_equal.
  revert zs. induction idxs as [|i idxs IH]; intros [|z zs]; cbn [map combine filter]; try reflexivity.
  unfold bk_sel in *. cbn [fst]. destruct (bk_bin size i) as [b|]; [destruct (k =? b)|]; cbn [map snd]; rewrite IH; reflexivity.
Qed.

Lemma weights_all_some zs : bk_weights None (map Some zs) = map Some zs.
Proof. unfold bk_weights. rewrite map_map. apply map_ext. intros z. reflexivity. Qed.

Lemma get_sum_some size idxs zs k : bk_get_sum size idxs (map Some zs) None true (Some 0) k = Some (bk_hist Z.add 0 size (combine idxs zs) k).
Proof. unfold bk_get_sum. cbn [dat_eqb Z.eqb]. rewrite weights_all_some. apply hist_some. Qed.

Lemma lens_mark_fill fill data : ib_lens (ib_mark_fill fill data) = ib_lens data.
Proof. unfold ib_lens, ib_mark_fill. rewrite map_map. apply map_ext. intros c. apply map_length. Qed.
Lemma lens_valid_flags data : ib_lens (ib_valid_flags data) = ib_lens data.
Proof. unfold ib_lens, ib_valid_flags. rewrite map_map. apply map_ext. intros c. apply map_length. Qed.
Lemma lens_cat_flags cat data : ib_lens (ib_cat_flags cat data) = ib_lens data.
Proof. unfold ib_lens, ib_cat_flags. rewrite map_map. apply map_ext. intros c. apply map_length. Qed.

Lemma avg_data_flat fill data :
  concat (if negb (dat_isnan fill) then ib_mark_fill fill data else data) = bk_avg_data fill (concat data).
Proof.
  unfold bk_avg_data, ib_mark_fill. destruct (dat_isnan fill); cbn [negb]; [reflexivity|]. symmetry. apply concat_map.
Qed.
Lemma valid_flags_flat data : concat (ib_valid_flags data) = map Some (bk_valid_flags (concat data)).
Proof. unfold ib_valid_flags, bk_valid_flags. rewrite <- concat_map, map_map. reflexivity. Qed.
Lemma cat_flags_flat cat data : concat (ib_cat_flags cat data) = map Some (bk_cat_flags cat (concat data)).
Proof. unfold ib_cat_flags, bk_cat_flags. rewrite <- concat_map, map_map. reflexivity. Qed.

Section ImpF.
  Context {T : Type} (OP : ops T).

  Lemma avg_value size idxs d1 fill skipna :
    ib_avg_fill OP fill (ib_avg_div OP (bk_cells size (bk_get_sum size idxs d1 None skipna (Some 0)))
                                       (bk_cells size (bk_get_sum size idxs (map Some (bk_valid_flags d1)) None true (Some 0))))
    = bk_cells size (fun k =>
        let sums := bk_get_sum size idxs d1 None skipna (Some 0) in
        let counts := bk_hist Z.add 0 size (combine idxs (bk_valid_flags d1)) in
        match (if counts k =? 0 then None
               else match sums k with Some s => Some (div OP (ofZ OP s) (ofZ OP (counts k))) | None => None end)
        with Some v => Some v | None => bk_fill_T OP fill end).
  Proof.
    unfold ib_avg_fill, ib_avg_div. rewrite combine_cells, !map_cells. apply cells_ext. intros k. cbn [fst snd].
    rewrite get_sum_some. reflexivity.
  Qed.

  Lemma get_average_code o data fill skipna :
    exists st, imp_get_average OP o data fill skipna
               = Ret [] st (bk_cells (o_size o) (bk_get_average OP (o_size o) (concat (o_chunks o)) (concat data) fill skipna))
               /\ imp_get_average_self st = bk_rechunk (ib_lens data) o.
  Proof.
    unfold imp_get_average. rewrite andthen_ite. cbn.
    set (d1 := if negb (dat_isnan fill) then ib_mark_fill fill data else data).
    assert (L1 : ib_lens d1 = ib_lens data) by (unfold d1; destruct (negb (dat_isnan fill)); [apply lens_mark_fill | reflexivity]).
    assert (F1 : concat d1 = bk_avg_data fill (concat data)) by apply avg_data_flat.
    assert (Tail : forall st0 : imp_get_average_st,
              imp_get_average_self st0 = o -> imp_get_average_data st0 = d1 -> imp_get_average_fill_value st0 = fill ->
              imp_get_average_skipna st0 = skipna ->
              exists st, ((andthen (call_ (fun s => match (imp_get_sum (imp_get_average_self s) (imp_get_average_data s) None (imp_get_average_skipna s) (Some 0)) with Ret _ s_ v_ => COk (v_, imp_get_sum_self s_) | Fuel => CFuel | _ => CRaised end) (fun x_ s => (fun x_ s => (imp_get_average_set_sums x_ s)) (fst x_) (imp_get_average_set_self (snd x_) s)))
 (andthen (call_ (fun s => match (imp_get_sum (imp_get_average_self s) (ib_valid_flags (imp_get_average_data s)) None true (Some 0)) with Ret _ s_ v_ => COk (v_, imp_get_sum_self s_) | Fuel => CFuel | _ => CRaised end) (fun x_ s => (fun x_ s => (imp_get_average_set_counts x_ s)) (fst x_) (imp_get_average_set_self (snd x_) s)))
 (andthen (assign (fun s => (imp_get_average_set_average (ib_avg_div OP (imp_get_average_sums s) (imp_get_average_counts s)) s)))
 (andthen (assign (fun s => (imp_get_average_set_average (ib_avg_fill OP (imp_get_average_fill_value s) (imp_get_average_average s)) s)))
 (ret (fun s => (imp_get_average_average s))))))) : M imp_get_average_st Empty_set (list (option T))) st0
              = Ret [] st (bk_cells (o_size o) (bk_get_average OP (o_size o) (concat (o_chunks o)) (concat data) fill skipna))
              /\ imp_get_average_self st = bk_rechunk (ib_lens data) o).
    { intros st0 H1 H2 H3 H4. destruct st0 as [s0 d0 f0 k0 a0 b0 c0 r0]. cbn in H1, H2, H3, H4. subst s0 d0 f0 k0.
      rewrite andthen_call. cbn.
      destruct (get_sum_code o d1 None skipna (Some 0)) as (st1 & E1 & S1). rewrite E1. cbn.
      rewrite andthen_call. cbn. rewrite S1.
      destruct (get_sum_code (bk_rechunk (ib_lens d1) o) (ib_valid_flags d1) None true (Some 0)) as (st2 & E2 & S2). rewrite E2. cbn.
      repeat istep. rewrite ret_eval. cbn. eexists. split.
      - f_equal. rewrite rechunk_chunks. change (o_size (bk_rechunk (ib_lens d1) o)) with (o_size o).
        rewrite valid_flags_flat, F1. rewrite avg_value. reflexivity.
      - rewrite S2, lens_valid_flags, L1. apply rechunk_rechunk. }
    destruct (negb (dat_isnan fill)) eqn:En.
    - rewrite andthen_assign. apply Tail; cbn; auto.
    - rewrite andthen_skip. apply Tail; cbn; auto.
  Qed.
  (* ---------------------------------------------------------------- get_fractions *)
  Lemma andthen_try_assign {St Y R} (f : St -> St) (h k : M St Y R) s : andthen (try_ (assign f) h) k s = k (f s).
  Proof. unfold andthen, try_, assign. apply prepend_nil. Qed.

  (* the per-category result, computed with the memoised counts cs *)
  Definition frac_memo (size : Z) (idxs : list Z) (data : list dat) (cat : Z) (fill : dat) (cs : list Z) : list (option T) :=
    map (fun kc : Z * Z => bk_frac_cell OP (bk_hist Z.add 0 size (combine idxs (bk_cat_flags cat data)) (fst kc)) (snd kc) fill)
        (combine (zrange 0 (Z.to_nat size)) cs).

  Lemma frac_zip {A} (l : list A) (f : A -> dat) (cs : list Z) (g : A -> Z) fill :
    (forall x, f x = Some (g x)) ->
    ib_frac_fill OP cs fill (ib_frac_div OP (map f l) cs)
    = map (fun kc : A * Z => bk_frac_cell OP (g (fst kc)) (snd kc) fill) (combine l cs).
  Proof.
    intros Hf. unfold ib_frac_fill, ib_frac_div. revert cs. induction l as [|x l IH]; intros [|c cs]; cbn [map combine]; try reflexivity.
    rewrite IH. f_equal. cbn [fst snd]. rewrite Hf. unfold bk_frac_cell. destruct (c =? 0); reflexivity.
  Qed.

  Lemma frac_value size idxs data cat fill cs :
    ib_frac_fill OP cs fill (ib_frac_div OP (bk_cells size (bk_get_sum size idxs (map Some (bk_cat_flags cat data)) None true (Some 0))) cs)
    = frac_memo size idxs data cat fill cs.
  Proof. unfold bk_cells, frac_memo. apply frac_zip. intros k. apply get_sum_some. Qed.

  Definition frac_results size idxs data fill cs (cats : list Z) (acc : list (Z * list (option T))) :=
    fold_left (fun d cat => d_set Z.eqb d cat (frac_memo size idxs data cat fill cs)) cats acc.

  Lemma get_fractions_loop size idxs data fill cs lens (body : M imp_get_fractions_st Empty_set (list (Z * list (option T)))) :
    body = (andthen (assign (fun s => (imp_get_fractions_set_cat_data (ib_cat_flags (imp_get_fractions_cat s) (imp_get_fractions_data s)) s)))
 (andthen (call_ (fun s => match (imp_get_sum (imp_get_fractions_self s) (imp_get_fractions_cat_data s) None true (Some 0)) with Ret _ s_ v_ => COk (v_, imp_get_sum_self s_) | Fuel => CFuel | _ => CRaised end) (fun x_ s => (fun x_ s => (imp_get_fractions_set_sums x_ s)) (fst x_) (imp_get_fractions_set_self (snd x_) s)))
 (andthen (assign (fun s => (imp_get_fractions_set_result (ib_frac_div OP (imp_get_fractions_sums s) (imp_get_fractions_counts s)) s)))
 (andthen (assign (fun s => (imp_get_fractions_set_result (ib_frac_fill OP (imp_get_fractions_counts s) (imp_get_fractions_fill_value s) (imp_get_fractions_result s)) s)))
 (assign (fun s => (imp_get_fractions_set_results (d_set Z.eqb (imp_get_fractions_results s) (imp_get_fractions_cat s) (imp_get_fractions_result s)) s))))))) ->
    ib_lens data = lens ->
    forall cats s,
      imp_get_fractions_data s = data -> imp_get_fractions_counts s = cs -> imp_get_fractions_fill_value s = fill ->
      o_size (imp_get_fractions_self s) = size -> concat (o_chunks (imp_get_fractions_self s)) = idxs ->
      exists s', for_list cats (fun x_ s => (imp_get_fractions_set_cat x_ s)) body s = Fall [] s'
                 /\ imp_get_fractions_results s' = frac_results size idxs (concat data) fill cs cats (imp_get_fractions_results s)
                 /\ o_size (imp_get_fractions_self s') = size /\ concat (o_chunks (imp_get_fractions_self s')) = idxs
                 /\ o_counts (imp_get_fractions_self s') = o_counts (imp_get_fractions_self s).
  Proof.
    intros Hb Hl. induction cats as [|cat cats IH]; intros s H1 H2 H3 H4 H5; cbn [for_list frac_results fold_left].
    - exists s. repeat split; auto.
    - destruct s as [o0 d0 c0 f0 n0 r0 k0 x0 cd0 sm0 rs0 rt0]. cbn in H1, H2, H3, H4, H5. subst d0 k0 f0.
      assert (Eb : exists s1, body (imp_get_fractions_set_cat cat (mk_imp_get_fractions_st o0 data c0 fill n0 r0 cs x0 cd0 sm0 rs0 rt0)) = Fall [] s1
                /\ imp_get_fractions_data s1 = data /\ imp_get_fractions_counts s1 = cs /\ imp_get_fractions_fill_value s1 = fill
                /\ imp_get_fractions_self s1 = bk_rechunk lens o0
                /\ imp_get_fractions_results s1 = d_set Z.eqb r0 cat (frac_memo size idxs (concat data) cat fill cs)).
      { rewrite Hb. repeat istep.
        destruct (get_sum_code o0 (ib_cat_flags cat data) None true (Some 0)) as (st1 & E1 & S1). rewrite E1. cbn.
        repeat istep. unfold assign. cbn. eexists. split; [reflexivity|]. cbn. repeat split.
        - rewrite S1, lens_cat_flags, Hl. reflexivity.
        - rewrite cat_flags_flat, H4, H5, frac_value. reflexivity. }
      destruct Eb as (s1 & E1 & D1 & C1 & F1 & S1 & R1). unfold andthen. rewrite E1. rewrite prepend_nil.
      destruct (IH s1 D1 C1 F1) as (s' & E' & R' & Z' & Q' & K').
      + rewrite S1. exact H4.
      + rewrite S1, rechunk_chunks. exact H5.
      + exists s'. split; [exact E'|]. split; [rewrite R', R1; reflexivity|]. split; [exact Z'|]. split; [exact Q'|].
        rewrite K', S1. reflexivity.
  Qed.

  Lemma get_fractions_code o data cats fill :
    exists st, imp_get_fractions OP o data cats fill
               = Ret [] st (frac_results (o_size o) (concat (o_chunks o)) (concat data) fill (snd (bk_count_step o)) cats [])
               /\ o_size (imp_get_fractions_self st) = o_size o
               /\ concat (o_chunks (imp_get_fractions_self st)) = concat (o_chunks o)
               /\ o_counts (imp_get_fractions_self st) = Some (snd (bk_count_step o)).
  Proof.
    unfold imp_get_fractions. rewrite andthen_try_assign. cbn. repeat istep.
    destruct (get_count_code o) as (st1 & E1 & S1). rewrite E1. cbn. repeat istep.
    unfold andthen at 1. unfold for_. cbn.
    edestruct (get_fractions_loop (o_size o) (concat (o_chunks o)) data fill (snd (bk_count_step o)) (ib_lens data) _ eq_refl eq_refl cats)
      as (s' & E' & R' & Z' & Q' & K'); [| | | | | rewrite E'].
    1-3: reflexivity.
    - cbn. rewrite S1. unfold bk_count_step. destruct (o_counts o); reflexivity.
    - cbn. rewrite S1. unfold bk_count_step. destruct (o_counts o); reflexivity.
    - rewrite ret_eval. cbn [prepend app]. cbn in R'. exists s'. split; [rewrite R'; reflexivity|]. split; [exact Z'|]. split; [exact Q'|].
      rewrite K'. cbn. rewrite S1. apply count_step_memo.
  Qed.
End ImpF.

(* ------------------------------------------------------------------ histories of calls through the generated methods *)
Section ImpHistory.
  Context {T : Type} (OP : ops T).

  Lemma frac_memo_true size idxs data cat fill :
    frac_memo OP size idxs data cat fill (bk_cells size (bk_count size idxs))
    = bk_cells size (bk_get_fraction OP size idxs data cat fill).
  Proof.
    unfold frac_memo, bk_cells. rewrite combine_map_self, map_map. apply map_ext. intros k. reflexivity.
  Qed.

  Lemma rechunk_ok' size idxs lens o : obj_ok size idxs o -> obj_ok size idxs (bk_rechunk lens o).
  Proof. apply rechunk_ok. Qed.

  Lemma imp_step_ok size idxs o c : obj_ok size idxs o ->
    exists o', imp_step OP o c = Some (o', imp_fresh OP size idxs c) /\ obj_ok size idxs o'.
  Proof.
    intros Ho. pose proof Ho as (Hs & Hc & Hm).
    destruct c as [|data fill skipna ebv|data|data|data|data fill skipna|data cats fill]; cbn [imp_step imp_fresh].
    - destruct (get_count_code o) as (st & E & S). rewrite E. cbn [ran]. destruct (count_step_ok size idxs o Ho) as [Ho1 E1].
      rewrite S, E1. eexists. split; [reflexivity | exact Ho1].
    - destruct (get_sum_code o data fill skipna ebv) as (st & E & S). rewrite E. cbn [ran]. rewrite S, Hs, Hc.
      eexists. split; [reflexivity | apply rechunk_ok; exact Ho].
    - destruct (get_min_code o data None true) as (st & E & S). rewrite E. cbn [ran]. rewrite S, Hs, Hc.
      eexists. split; [reflexivity | apply rechunk_ok; exact Ho].
    - destruct (get_max_code o data None true) as (st & E & S). rewrite E. cbn [ran]. rewrite S, Hs, Hc.
      eexists. split; [reflexivity | apply rechunk_ok; exact Ho].
    - destruct (get_abs_max_code o data None true) as (st & E & S). rewrite E. cbn [ran]. rewrite S, Hs, Hc.
      eexists. split; [reflexivity | apply rechunk_ok; exact Ho].
    - destruct (get_average_code OP o data fill skipna) as (st & E & S). rewrite E. cbn [ran]. rewrite S, Hs, Hc.
      eexists. split; [reflexivity | apply rechunk_ok; exact Ho].
    - destruct (get_fractions_code OP o data cats fill) as (st & E & Z1 & Q1 & K1). rewrite E. cbn [ran].
      destruct (count_step_ok size idxs o Ho) as [_ E1]. rewrite E1, Hs, Hc in *.
      eexists. split.
      + f_equal. f_equal. f_equal. unfold frac_results. clear. generalize (@nil (Z * list (option T))).
        induction cats as [|cat cats IH]; intros acc; [reflexivity|]. cbn [fold_left]. rewrite frac_memo_true. apply IH.
      + unfold obj_ok. rewrite Z1, Q1, K1. auto.
  Qed.

  Lemma imp_run_fresh size idxs calls : forall o, obj_ok size idxs o ->
    imp_run OP o calls = Some (map (imp_fresh OP size idxs) calls).
  Proof.
    induction calls as [|c calls IH]; intros o Ho; [reflexivity|]. cbn [imp_run map].
    destruct (imp_step_ok size idxs o c Ho) as (o' & E & Ho'). rewrite E, (IH o' Ho'). reflexivity.
  Qed.

  Lemma imp_history_independent size (chunks0 : list (list Z)) calls :
    imp_run OP (mk_obj size chunks0 None) calls = Some (map (imp_fresh OP size (concat chunks0)) calls).
  Proof. apply imp_run_fresh. repeat split; cbn; auto. Qed.
End ImpHistory.
