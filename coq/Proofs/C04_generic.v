(* C04 — statements that hold for every arithmetic instance (hence for binary64 with NaN/inf data), the
   binary64 refutation of the pre-fix gather, and the unfolding of the call-level model (channels, masks). *)
From Coq Require Import Reals ZArith Bool List Lra Lia PrimFloat.
From PR Require Import Base.Num Base.RNum Base.F64 Model.Weights Proofs.C04_weights.
Import ListNotations.

(* ---- locality: the column result depends on the data only through the neighbours in range *)
Lemma slots_local {T} (OP : ops T) wf n col col' ix : forall ds,
  (forall i, In i ix -> i <> n -> nth (Z.to_nat i) col (nan OP) = nth (Z.to_nat i) col' (nan OP)) ->
  slots_col (gather OP) wf n col ix ds = slots_col (gather OP) wf n col' ix ds.
Proof.
  unfold slots_col. induction ix as [|i ix IH]; intros [|d ds] H; cbn; try reflexivity.
  f_equal.
  - unfold gather. destruct (Z.eqb_spec i n) as [E|E]; [reflexivity|].
    rewrite (H i (or_introl eq_refl) E). reflexivity.
  - apply IH. intros k Hk. apply H. right. assumption.
Qed.

Lemma weighted_col_local {T} (OP : ops T) wf n col col' ix ds f :
  (forall i, In i ix -> i <> n -> nth (Z.to_nat i) col (nan OP) = nth (Z.to_nat i) col' (nan OP)) ->
  weighted_col OP wf n col ix ds f = weighted_col OP wf n col' ix ds f.
Proof. intros H. unfold weighted_col. rewrite (slots_local OP wf n col col' ix ds H). reflexivity. Qed.

(* the code before the fix does not have this property on binary64: a NaN at valid input 0, which is not a
   neighbour of the location, turns the result into NaN through the missing slot (0 * NaN) *)
Definition leak_col : list float := [PrimFloat.nan; 3%float].
Definition leak_col' : list float := [1%float; 3%float].
Definition leak_ix : list Z := [1%Z; 2%Z].
Definition leak_ds : list float := [0.5%float; PrimFloat.infinity].
Definition leak_wf (d : float) : float := 1%float.

Lemma legacy_not_local :
  (forall i, In i leak_ix -> i <> 2%Z -> nth (Z.to_nat i) leak_col (nan F64) = nth (Z.to_nat i) leak_col' (nan F64)) /\
  same_bits (c_res (weighted_col_legacy F64 leak_wf 2 leak_col leak_ix leak_ds 0%float))
            (c_res (weighted_col_legacy F64 leak_wf 2 leak_col' leak_ix leak_ds 0%float)) = false /\
  f_isnan (c_res (weighted_col_legacy F64 leak_wf 2 leak_col leak_ix leak_ds 0%float)) = true /\
  same_bits (c_res (weighted_col F64 leak_wf 2 leak_col leak_ix leak_ds 0%float)) 3%float = true.
Proof.
  split; [|vm_compute; repeat split; reflexivity].
  intros i [<-|[<-|[]]] H; [reflexivity|congruence].
Qed.

(* ---- the weight function's value at the placeholder distance of a missing slot never matters (every arithmetic) *)
Definition slot_equiv {T} (s s' : slot T) : Prop :=
  present s = present s' /\ val s = val s' /\ (present s = true -> wgt s = wgt s').

Lemma wtmp_equiv {T} (OP : ops T) s s' : slot_equiv s s' -> wtmp OP s = wtmp OP s'.
Proof. intros [Hp [_ Hw]]. unfold wtmp. rewrite <- Hp. destruct (present s); [apply Hw; reflexivity|reflexivity]. Qed.

Lemma acc_equiv {T} (OP : ops T) ss ss' : Forall2 slot_equiv ss ss' ->
  forall a, fold_left (acc_step OP (wtmp OP)) ss a = fold_left (acc_step OP (wtmp OP)) ss' a.
Proof.
  induction 1 as [|s s' ss ss' H _ IH]; intros a; cbn [fold_left]; [reflexivity|].
  rewrite IH. f_equal. unfold acc_step. rewrite (wtmp_equiv OP s s' H). destruct H as [_ [-> _]]. reflexivity.
Qed.

Lemma unc_equiv {T} (OP : ops T) res ss ss' : Forall2 slot_equiv ss ss' ->
  forall a, fold_left (unc_step OP (wtmp OP) res) ss a = fold_left (unc_step OP (wtmp OP) res) ss' a.
Proof.
  induction 1 as [|s s' ss ss' H _ IH]; intros a; cbn [fold_left]; [reflexivity|].
  rewrite IH. f_equal. unfold unc_step. rewrite (wtmp_equiv OP s s' H). destruct H as [-> [-> _]]. reflexivity.
Qed.

Lemma count_equiv {T} (ss ss' : list (slot T)) : Forall2 slot_equiv ss ss' ->
  forall c, fold_left (fun c s => (c + (if present s then 1 else 0))%Z) ss c =
            fold_left (fun c s => (c + (if present s then 1 else 0))%Z) ss' c.
Proof.
  induction 1 as [|s s' ss ss' H _ IH]; intros c; cbn [fold_left]; [reflexivity|].
  rewrite IH. destruct H as [-> _]. reflexivity.
Qed.

Lemma col_of_slots_equiv {T} (OP : ops T) ss ss' f : Forall2 slot_equiv ss ss' ->
  col_of_slots OP (wtmp OP) ss f = col_of_slots OP (wtmp OP) ss' f.
Proof.
  intros H. unfold col_of_slots, mean_of, stddev_of, acc, unc, count_of.
  rewrite (acc_equiv OP ss ss' H), (count_equiv ss ss' H).
  rewrite (unc_equiv OP _ ss ss' H). reflexivity.
Qed.

Lemma slots_wf_equiv {T} (OP : ops T) (wf wf' : T -> T) n col ix : forall ds,
  (forall i d, In (i, d) (combine ix ds) -> i <> n -> wf d = wf' d) ->
  Forall2 slot_equiv (slots_col (gather OP) wf n col ix ds) (slots_col (gather OP) wf' n col ix ds).
Proof.
  unfold slots_col. induction ix as [|i ix IH]; intros [|d ds] H; cbn; try constructor.
  - unfold slot_equiv, gather; cbn. destruct (Z.eqb_spec i n) as [E|E]; cbn.
    + repeat split. discriminate.
    + repeat split. intros _. apply (H i d); [left; reflexivity|assumption].
  - apply IH. intros k e Hk. apply H. right. assumption.
Qed.

Lemma weighted_col_placeholder {T} (OP : ops T) (wf wf' : T -> T) n col ix ds f :
  (forall i d, In (i, d) (combine ix ds) -> i <> n -> wf d = wf' d) ->
  weighted_col OP wf n col ix ds f = weighted_col OP wf' n col ix ds f.
Proof. intros H. unfold weighted_col. apply col_of_slots_equiv, slots_wf_equiv, H. Qed.

(* the code before this fix (weight = 0/1 factor * wf(placeholder 1)) is refuted on binary64: a weight function
   singular at distance 1, here 1/|d-1|, makes norm NaN wherever a slot is missing, so the location is filled
   although a neighbour is in range; with weight 0 outright the result is the neighbour's value 3 *)
Definition sing_wf (d : float) : float := PrimFloat.div 1%float (PrimFloat.abs (PrimFloat.sub d 1%float)).
Definition sing_col : list float := [3%float; 5%float].
Definition sing_ix : list Z := [0%Z; 2%Z].
Definition sing_ds : list float := [0.5%float; PrimFloat.infinity].

Lemma legacy_weight_not_placeholder_free :
  same_bits (c_res (weighted_col_legacy_w F64 sing_wf 2 sing_col sing_ix sing_ds (-7)%float)) (-7)%float = true /\
  c_cnt (weighted_col_legacy_w F64 sing_wf 2 sing_col sing_ix sing_ds (-7)%float) = 1%Z /\
  same_bits (c_res (weighted_col F64 sing_wf 2 sing_col sing_ix sing_ds (-7)%float)) 3%float = true.
Proof. vm_compute. repeat split; reflexivity. Qed.

(* ---- call level *)
Lemma col_of_weighted {T} (OP : ops T) c t j i1 i2 rest :
  valid_out t = true -> idxs t = i1 :: i2 :: rest ->
  col_of OP c t j = weighted_col OP (nth j (all_wfs c) (fun _ => nan OP)) (n_valid c) (nth j (cols c) [])
                                 (idxs t) (dists t) (fill c).
Proof. intros Hv Hi. unfold col_of. rewrite Hv, Hi. reflexivity. Qed.

Lemma col_of_nn {T} (OP : ops T) c t j i :
  valid_out t = true -> idxs t = [i] -> col_of OP c t j = nn_col OP (n_valid c) (nth j (cols c) []) i (fill c).
Proof. intros Hv Hi. unfold col_of. rewrite Hv, Hi. reflexivity. Qed.

Lemma col_of_invalid {T} (OP : ops T) c t j : valid_out t = false -> col_of OP c t j = fill_col OP (fill c).
Proof. intros Hv. unfold col_of. rewrite Hv. reflexivity. Qed.

(* weight_funcs * 2: the mask channel of data channel j is weighted with the function of channel j *)
Lemma mask_channel_wf {T} (c : cfg T) j dflt :
  masked_data c = true -> (j < length (wfs c))%nat ->
  nth j (all_wfs c) dflt = nth j (wfs c) dflt /\ nth (length (wfs c) + j) (all_wfs c) dflt = nth j (wfs c) dflt.
Proof.
  intros Hm Hj. unfold all_wfs. rewrite Hm. split.
  - apply app_nth1. assumption.
  - rewrite app_nth2 by lia. f_equal. lia.
Qed.

Lemma nchan_masked {T} (c : cfg T) :
  masked_data c = true -> length (cols c) = (2 * length (wfs c))%nat -> nchan c = length (wfs c).
Proof. intros Hm Hl. unfold nchan. rewrite Hm, Hl. apply Nat.div2_double. Qed.

Lemma nchan_unmasked {T} (c : cfg T) : masked_data c = false -> nchan c = length (cols c).
Proof. intros Hm. unfold nchan. rewrite Hm. reflexivity. Qed.

Open Scope R_scope.

Lemma observe_mask_R c t j :
  o_mask (observe RO c t j) = true <->
  (masked_data c = true /\ c_res (col_of RO c t (nchan c + j)) <> 0) \/
  (use_masked_fill c = true /\ c_res (col_of RO c t j) = fill c).
Proof.
  unfold observe; cbn [o_mask]. rewrite orb_true_iff. unfold tzero; cbn [eqb ofZ RO].
  destruct (masked_data c), (use_masked_fill c); rewrite ?negb_true_iff.
  - split; (intros [H|H]; [left|right]).
    + split; [reflexivity|]. intros E. apply Reqb_true in E. congruence.
    + split; [reflexivity|]. apply Reqb_true. assumption.
    + destruct H as [_ H]. destruct (Reqb _ 0) eqn:E; [apply Reqb_true in E; contradiction|reflexivity].
    + apply Reqb_true. apply H.
  - split; [intros [H|H]; [left|discriminate]|intros [H|[H _]]; [left|discriminate]].
    + split; [reflexivity|]. intros E. apply Reqb_true in E. congruence.
    + destruct H as [_ H]. destruct (Reqb _ 0) eqn:E; [apply Reqb_true in E; contradiction|reflexivity].
  - split; [intros [H|H]; [discriminate|right]|intros [[H _]|H]; [discriminate|right]].
    + split; [reflexivity|]. apply Reqb_true. assumption.
    + apply Reqb_true. apply H.
  - split; [intros [H|H]; discriminate|intros [[H _]|[H _]]; discriminate].
Qed.

Lemma observe_fields {T} (OP : ops T) c t j :
  let d := col_of OP c t j in let o := observe OP c t j in
  o_val o = c_res d /\ o_sd o = c_sd d /\ o_cnt o = c_cnt d /\ o_cnt_mask o = o_mask o /\
  o_sd_mask o = o_mask o || c_sd_undef d.
Proof. cbn. repeat split. Qed.

Lemma observe_plain {T} (OP : ops T) c t j :
  masked_data c = false -> use_masked_fill c = false -> o_mask (observe OP c t j) = false.
Proof. intros H1 H2. unfold observe; cbn [o_mask]. rewrite H1, H2. reflexivity. Qed.

(* masked input: which results are masked *)
Lemma masked_result_spec c t j i1 i2 rest :
  let wf := nth j (wfs c) (fun _ => 0) in
  let mcol := nth (length (wfs c) + j) (cols c) [] in
  let NBm := weigh wf (nbrs (n_valid c) mcol (idxs t) (dists t)) in
  masked_data c = true -> valid_out t = true -> idxs t = i1 :: i2 :: rest ->
  length (cols c) = (2 * length (wfs c))%nat -> (j < length (wfs c))%nat ->
  (forall p, In p NBm -> 0 <= fst p /\ (snd p = 0 \/ snd p = 1)) ->
  (0 < Wsum NBm ->
     (o_mask (observe RO c t j) = true <->
        (exists p, In p NBm /\ 0 < fst p /\ snd p = 1) \/
        (use_masked_fill c = true /\ c_res (col_of RO c t j) = fill c))) /\
  (Wsum NBm <= 0 -> fill c <> 0 -> o_mask (observe RO c t j) = true).
Proof.
  intros wf mcol NBm Hm Hv Hi Hl Hj Hnb.
  pose proof (nchan_masked c Hm Hl) as Hn.
  destruct (mask_channel_wf c j (fun _ : R => nan RO) Hm Hj) as [_ Hwf].
  assert (Ecol : c_res (col_of RO c t (nchan c + j)) =
                 if Rlt_dec 0 (Wsum NBm) then WXsum NBm / Wsum NBm else fill c).
  { rewrite (col_of_weighted RO c t _ i1 i2 rest Hv Hi), Hn, Hwf. apply col_res. }
  split.
  - intros HW. rewrite observe_mask_R, Ecol. destruct (Rlt_dec 0 (Wsum NBm)); [|lra].
    rewrite <- (mask_mean_nonzero_iff NBm Hnb HW). split; (intros [H|H]; [left|right; assumption]).
    + apply H.
    + split; [assumption|apply H].
  - intros HW Hf. apply observe_mask_R. left. split; [assumption|]. rewrite Ecol.
    destruct (Rlt_dec 0 (Wsum NBm)); [lra|assumption].
Qed.

(* the count is a function of the index row alone: the same for every channel, weight function and data column *)
Lemma count_slots_indep {T} (OP : ops T) wf wf' n col col' ix : forall ds c,
  fold_left (fun c s => (c + (if present s then 1 else 0))%Z) (slots_col (gather OP) wf n col ix ds) c =
  fold_left (fun c s => (c + (if present s then 1 else 0))%Z) (slots_col (gather OP) wf' n col' ix ds) c.
Proof.
  unfold slots_col. induction ix as [|i ix IH]; intros [|d ds] c; cbn; try reflexivity. apply IH.
Qed.

Lemma count_channel_independent {T} (OP : ops T) wf wf' n col col' ix ds f f' :
  c_cnt (weighted_col OP wf n col ix ds f) = c_cnt (weighted_col OP wf' n col' ix ds f').
Proof. unfold weighted_col, col_of_slots, count_of; cbn [c_cnt]. apply count_slots_indep. Qed.

(* ---- flattening (get_sample_from_neighbour_info: data.ravel(), C order = row after row; the geometry's lons/lats are
   flattened the same way): every value stays paired with the coordinate of its own (row, column), whatever the rows are.
   The memory layout of the arrays is not an input of this law: only the logical rows are. *)
Lemma combine_app_same {A B} (x : list A) (y : list B) r r' :
  length x = length y -> combine (x ++ r) (y ++ r') = combine x y ++ combine r r'.
Proof.
  revert y. induction x as [|a x IH]; intros [|b y] H; cbn in *; try discriminate; [reflexivity|].
  f_equal. apply IH. lia.
Qed.

Lemma ravel_keeps_locations {A B} (a : list (list A)) (b : list (list B)) :
  Forall2 (fun x y => length x = length y) a b ->
  combine (concat a) (concat b) = concat (map2 (@combine A B) a b).
Proof.
  induction 1 as [|x y a b H _ IH]; cbn; [reflexivity|].
  rewrite (combine_app_same x y _ _ H), IH. reflexivity.
Qed.
