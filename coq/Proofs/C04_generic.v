(* C04 — statements that hold for every arithmetic instance (hence for binary64 with NaN/inf data), the
   binary64 refutation of the pre-fix gather, and the unfolding of the call-level model (channels, masks). *)
From Coq Require Import Reals ZArith Bool List Lra Lia PrimFloat.
From PR Require Import Base.Num Base.RNum Base.F64 Model.Weights Proofs.C04_weights.
Import ListNotations.

(* ---- locality: the column result depends on the data only through the neighbours in range *)
Lemma slots_local {T} (OP : ops T) wf n col col' ix : forall ds,
  (forall i, In i ix -> i <> n -> nth (Z.to_nat i) col (nan OP) = nth (Z.to_nat i) col' (nan OP)) ->
  slots_col (gather OP) wf n col ix ds = slots_col (gather OP) wf n col' ix ds.
Proof.
  unfold slots_col. induction ix as [|i ix IH]; intros [|d ds] H; cbn; try reflexivity.
  f_equal.
  - unfold gather. destruct (Z.eqb_spec i n) as [E|E]; [reflexivity|].
    rewrite (H i (or_introl eq_refl) E). reflexivity.
  - apply IH. intros k Hk. apply H. right. assumption.
Qed.

Lemma weighted_col_local {T} (OP : ops T) wf n col col' ix ds f :
  (forall i, In i ix -> i <> n -> nth (Z.to_nat i) col (nan OP) = nth (Z.to_nat i) col' (nan OP)) ->
  weighted_col OP wf n col ix ds f = weighted_col OP wf n col' ix ds f.
Proof. intros H. unfold weighted_col. rewrite (slots_local OP wf n col col' ix ds H). reflexivity. Qed.

(* the code before the fix does not have this property on binary64: a NaN at valid input 0, which is not a
   neighbour of the location, turns the result into NaN through the missing slot (0 * NaN) *)
Definition leak_col : list float := [PrimFloat.nan; 3%float].
Definition leak_col' : list float := [1%float; 3%float].
Definition leak_ix : list Z := [1%Z; 2%Z].
Definition leak_ds : list float := [0.5%float; PrimFloat.infinity].
Definition leak_wf (d : float) : float := 1%float.

Lemma legacy_not_local :
  (forall i, In i leak_ix -> i <> 2%Z -> nth (Z.to_nat i) leak_col (nan F64) = nth (Z.to_nat i) leak_col' (nan F64)) /\
  same_bits (c_res (weighted_col_legacy F64 leak_wf 2 leak_col leak_ix leak_ds 0%float))
            (c_res (weighted_col_legacy F64 leak_wf 2 leak_col' leak_ix leak_ds 0%float)) = false /\
  f_isnan (c_res (weighted_col_legacy F64 leak_wf 2 leak_col leak_ix leak_ds 0%float)) = true /\
  same_bits (c_res (weighted_col F64 leak_wf 2 leak_col leak_ix leak_ds 0%float)) 3%float = true.
Proof.
  split; [|vm_compute; repeat split; reflexivity].
  intros i [<-|[<-|[]]] H; [reflexivity|congruence].
Qed.

(* ---- call level *)
Lemma col_of_weighted {T} (OP : ops T) c t j i1 i2 rest :
  valid_out t = true -> idxs t = i1 :: i2 :: rest ->
  col_of OP c t j = weighted_col OP (nth j (all_wfs c) (fun _ => nan OP)) (n_valid c) (nth j (cols c) [])
                                 (idxs t) (dists t) (fill c).
Proof. intros Hv Hi. unfold col_of. rewrite Hv, Hi. reflexivity. Qed.

Lemma col_of_nn {T} (OP : ops T) c t j i :
  valid_out t = true -> idxs t = [i] -> col_of OP c t j = nn_col OP (n_valid c) (nth j (cols c) []) i (fill c).
Proof. intros Hv Hi. unfold col_of. rewrite Hv, Hi. reflexivity. Qed.

Lemma col_of_invalid {T} (OP : ops T) c t j : valid_out t = false -> col_of OP c t j = fill_col OP (fill c).
Proof. intros Hv. unfold col_of. rewrite Hv. reflexivity. Qed.

(* weight_funcs * 2: the mask channel of data channel j is weighted with the function of channel j *)
Lemma mask_channel_wf {T} (c : cfg T) j dflt :
  masked_data c = true -> (j < length (wfs c))%nat ->
  nth j (all_wfs c) dflt = nth j (wfs c) dflt /\ nth (length (wfs c) + j) (all_wfs c) dflt = nth j (wfs c) dflt.
Proof.
  intros Hm Hj. unfold all_wfs. rewrite Hm. split.
  - apply app_nth1. assumption.
  - rewrite app_nth2 by lia. f_equal. lia.
Qed.

Lemma nchan_masked {T} (c : cfg T) :
  masked_data c = true -> length (cols c) = (2 * length (wfs c))%nat -> nchan c = length (wfs c).
Proof. intros Hm Hl. unfold nchan. rewrite Hm, Hl. apply Nat.div2_double. Qed.

Lemma nchan_unmasked {T} (c : cfg T) : masked_data c = false -> nchan c = length (cols c).
Proof. intros Hm. unfold nchan. rewrite Hm. reflexivity. Qed.

Open Scope R_scope.

Lemma observe_mask_R c t j :
  o_mask (observe RO c t j) = true <->
  (masked_data c = true /\ c_res (col_of RO c t (nchan c + j)) <> 0) \/
  (use_masked_fill c = true /\ c_res (col_of RO c t j) = fill c).
Proof.
  unfold observe; cbn [o_mask]. rewrite orb_true_iff. unfold tzero; cbn [eqb ofZ RO].
  destruct (masked_data c), (use_masked_fill c); rewrite ?negb_true_iff.
  - split; (intros [H|H]; [left|right]).
    + split; [reflexivity|]. intros E. apply Reqb_true in E. congruence.
    + split; [reflexivity|]. apply Reqb_true. assumption.
    + destruct H as [_ H]. destruct (Reqb _ 0) eqn:E; [apply Reqb_true in E; contradiction|reflexivity].
    + apply Reqb_true. apply H.
  - split; [intros [H|H]; [left|discriminate]|intros [H|[H _]]; [left|discriminate]].
    + split; [reflexivity|]. intros E. apply Reqb_true in E. congruence.
    + destruct H as [_ H]. destruct (Reqb _ 0) eqn:E; [apply Reqb_true in E; contradiction|reflexivity].
  - split; [intros [H|H]; [discriminate|right]|intros [[H _]|H]; [discriminate|right]].
    + split; [reflexivity|]. apply Reqb_true. assumption.
    + apply Reqb_true. apply H.
  - split; [intros [H|H]; discriminate|intros [[H _]|[H _]]; discriminate].
Qed.

Lemma observe_fields {T} (OP : ops T) c t j :
  let d := col_of OP c t j in let o := observe OP c t j in
  o_val o = c_res d /\ o_sd o = c_sd d /\ o_cnt o = c_cnt d /\ o_cnt_mask o = o_mask o /\
  o_sd_mask o = o_mask o || c_sd_undef d.
Proof. cbn. repeat split. Qed.

Lemma observe_plain {T} (OP : ops T) c t j :
  masked_data c = false -> use_masked_fill c = false -> o_mask (observe OP c t j) = false.
Proof. intros H1 H2. unfold observe; cbn [o_mask]. rewrite H1, H2. reflexivity. Qed.

(* masked input: which results are masked *)
Lemma masked_result_spec c t j i1 i2 rest :
  let wf := nth j (wfs c) (fun _ => 0) in
  let mcol := nth (length (wfs c) + j) (cols c) [] in
  let NBm := weigh wf (nbrs (n_valid c) mcol (idxs t) (dists t)) in
  masked_data c = true -> valid_out t = true -> idxs t = i1 :: i2 :: rest ->
  length (cols c) = (2 * length (wfs c))%nat -> (j < length (wfs c))%nat ->
  (forall p, In p NBm -> 0 <= fst p /\ (snd p = 0 \/ snd p = 1)) ->
  (0 < Wsum NBm ->
     (o_mask (observe RO c t j) = true <->
        (exists p, In p NBm /\ 0 < fst p /\ snd p = 1) \/
        (use_masked_fill c = true /\ c_res (col_of RO c t j) = fill c))) /\
  (Wsum NBm <= 0 -> fill c <> 0 -> o_mask (observe RO c t j) = true).
Proof.
  intros wf mcol NBm Hm Hv Hi Hl Hj Hnb.
  pose proof (nchan_masked c Hm Hl) as Hn.
  destruct (mask_channel_wf c j (fun _ : R => nan RO) Hm Hj) as [_ Hwf].
  assert (Ecol : c_res (col_of RO c t (nchan c + j)) =
                 if Rlt_dec 0 (Wsum NBm) then WXsum NBm / Wsum NBm else fill c).
  { rewrite (col_of_weighted RO c t _ i1 i2 rest Hv Hi), Hn, Hwf. apply col_res. }
  split.
  - intros HW. rewrite observe_mask_R, Ecol. destruct (Rlt_dec 0 (Wsum NBm)); [|lra].
    rewrite <- (mask_mean_nonzero_iff NBm Hnb HW). split; (intros [H|H]; [left|right; assumption]).
    + apply H.
    + split; [assumption|apply H].
  - intros HW Hf. apply observe_mask_R. left. split; [assumption|]. rewrite Ecol.
    destruct (Rlt_dec 0 (Wsum NBm)); [lra|assumption].
Qed.
