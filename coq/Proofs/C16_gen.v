(* C16 - the definition regenerated from /repo's BaseDefinition._get_bbox_slices on every run IS the side model:
   after resolving Python's negative indices, the generated slices are [bbox_sides] over the same arithmetic. *)
From Coq Require Import ZArith List Lia Bool.
From PR Require Import Base.Num Model.Boundary Gen.GenC16.
Import ListNotations.
Open Scope Z_scope.

Section GenTie.
  Context {T : Type} (OP : ops T).

  Lemma py_index_0 n : py_index n 0 = 0.
  Proof. reflexivity. Qed.
  Lemma py_index_m1 n : py_index n (-1) = n - 1.
  Proof. unfold py_index. cbn. lia. Qed.

  Lemma gen_bbox_slices_some_is_model h w v :
    resolve_slices h w (gen_bbox_slices_some OP (mk_geom (h, w)) v)
    = bbox_sides (linspace_idx OP) (linspace_idx_desc OP) h w (Some v).
  Proof.
    unfold gen_bbox_slices_some, resolve_slices, bbox_sides, sides_num, num_of, np_linspace_int,
      linspace_idx, linspace_idx_desc. cbn [g_shape fst snd].
    rewrite !py_index_0, !py_index_m1. reflexivity.
  Qed.

  Lemma gen_bbox_slices_none_is_model h w :
    resolve_slices h w (gen_bbox_slices_none OP (mk_geom (h, w)) tt)
    = bbox_sides (linspace_idx OP) (linspace_idx_desc OP) h w None.
  Proof.
    unfold gen_bbox_slices_none, resolve_slices, bbox_sides, sides_num, num_of, np_linspace_int,
      linspace_idx, linspace_idx_desc. cbn [g_shape fst snd].
    rewrite !py_index_0, !py_index_m1. reflexivity.
  Qed.
End GenTie.
