(* C10 -- the dask path computes the same coordinate arrays for every chunking; histories of cached
   get_lonlats calls on areas and stacks; in-place swath appends. *)
From Coq Require Import ZArith List Lia Bool Arith.
From PR Require Import Base.Num Base.ZX Base.Slice Model.Grid Model.Partition Proofs.C19_partition Model.SliceArea Model.Stack
     Proofs.C10_list.
From PR Require Import Model.LonlatPaths.
Import ListNotations.
Open Scope Z_scope.

(* ---- dask: blocks of any chunking reassemble to the full vectors / grid *)
Lemma zrange_app a (n m : nat) : zrange a (n + m) = zrange a n ++ zrange (a + Z.of_nat n) m.
Proof.
  revert a. induction n as [|n IH]; intros a.
  - cbn. rewrite Z.add_0_r. reflexivity.
  - cbn [Nat.add zrange app]. rewrite IH. do 3 f_equal. lia.
Qed.
Lemma zrange_length a n : length (zrange a n) = n.
Proof. revert a. induction n; intros; cbn; auto. Qed.

Lemma wtiles_le l : forall from to, wtiles from l to -> from <= to.
Proof. induction l as [|s r IH]; intros from to H; cbn in H; [lia|]. destruct H as (H1 & H2 & H3). specialize (IH _ _ H3). lia. Qed.

Lemma wtiles_zrange l : forall from to, wtiles from l to ->
  concat (map (fun s => zrange (sstart s) (Z.to_nat (sstop s - sstart s))) l) = zrange from (Z.to_nat (to - from)).
Proof.
  induction l as [|s r IH]; intros from to H; cbn in *.
  - subst. rewrite Z.sub_diag. reflexivity.
  - destruct H as (H1 & H2 & H3). rewrite (IH _ _ H3). subst from.
    pose proof (wtiles_le _ _ _ H3) as Hle.
    replace (Z.to_nat (to - sstart s)) with (Z.to_nat (sstop s - sstart s) + Z.to_nat (to - sstop s))%nat by lia.
    rewrite zrange_app. do 2 f_equal. lia.
Qed.

Section DaskProofs.
  Context {T C : Type} (OP : ops T) (f : T -> T -> C).

  Lemma axis_blocks_vec (g : Z -> T) c : Forall (fun x => 0 <= x) c ->
    concat (map (fun s => map g (zrange (sstart s) (Z.to_nat (sstop s - sstart s)))) (axis_blocks c))
    = map g (zrange 0 (Z.to_nat (sumZ c))).
  Proof.
    intros H. destruct (offsets_wtiles c 0%nat 0 H) as [W _]. fold (axis_blocks c) in W.
    rewrite <- (map_map (fun s => zrange (sstart s) (Z.to_nat (sstop s - sstart s))) (map g)).
    rewrite <- concat_map. rewrite (wtiles_zrange _ _ _ W). rewrite Z.add_0_l, Z.sub_0_r. reflexivity.
  Qed.

  Lemma repeat_nil_map {A B} (l : list A) : repeat (@nil B) (length l) = map (fun _ => []) l.
  Proof. induction l; cbn; congruence. Qed.

  Lemma grid_of_app (xs1 xs2 : list T) (ys : list T) :
    map (fun p => fst p ++ snd p) (combine (grid_of f xs1 ys) (grid_of f xs2 ys)) = grid_of f (xs1 ++ xs2) ys.
  Proof. unfold grid_of. induction ys as [|y r IH]; cbn; [reflexivity|]. rewrite map_app, IH. reflexivity. Qed.

  Lemma hstack_blocks (bx : pslice -> list T) (ys : list T) (blocks : list pslice) :
    hstack (map (fun sx => grid_of f (bx sx) ys) blocks) (length ys) = grid_of f (concat (map bx blocks)) ys.
  Proof.
    induction blocks as [|b r IH]; cbn [map hstack concat].
    - rewrite repeat_nil_map. reflexivity.
    - rewrite IH. apply grid_of_app.
  Qed.

  Lemma grid_of_concat (xs : list T) (yss : list (list T)) :
    concat (map (grid_of f xs) yss) = grid_of f xs (concat yss).
  Proof. unfold grid_of. rewrite concat_map. reflexivity. Qed.

  (* every chunking that tiles the shape gives the array of the unchunked (numpy) path, bit for bit *)
  Lemma dask_grid_eq (a : area T) cy cx :
    Forall (fun x => 0 <= x) cy -> Forall (fun x => 0 <= x) cx -> sumZ cy = height a -> sumZ cx = width a ->
    dask_grid OP f a cy cx = grid_of f (proj_vector_x OP a) (proj_vector_y OP a).
  Proof.
    intros Hy Hx Sy Sx. unfold dask_grid, block_grid.
    assert (E : forall sy, hstack (map (fun sx => grid_of f (block_vec_x OP a sx) (block_vec_y OP a sy)) (axis_blocks cx))
                               (Z.to_nat (sstop sy - sstart sy))
                        = grid_of f (proj_vector_x OP a) (block_vec_y OP a sy)).
    { intros sy. replace (Z.to_nat (sstop sy - sstart sy)) with (length (block_vec_y OP a sy))
        by (unfold block_vec_y; rewrite map_length, zrange_length; reflexivity).
      rewrite hstack_blocks. f_equal. unfold block_vec_x, proj_vector_x. rewrite axis_blocks_vec by exact Hx. rewrite Sx. reflexivity. }
    rewrite (map_ext _ _ E). rewrite <- (map_map (block_vec_y OP a) (grid_of f (proj_vector_x OP a))).
    rewrite grid_of_concat. f_equal. unfold block_vec_y, proj_vector_y. rewrite axis_blocks_vec by exact Hy. rewrite Sy. reflexivity.
  Qed.
End DaskProofs.

Lemma Forall2_length' {A B} (P : A -> B -> Prop) l1 l2 : Forall2 P l1 l2 -> length l1 = length l2.
Proof. induction 1; cbn; congruence. Qed.

(* ---- cached get_lonlats: histories *)
Section CacheProofs.
  Context {T C : Type} (OP : ops T) (inv : T -> T -> C).
  Definition full (g : garea T) : list (list C) := area_lonlats OP inv g None.
  Definition memo_ok (g : garea T) (memo : option (list (list C))) : Prop := memo = None \/ memo = Some (full g).

  Lemma area_lonlats_ds g ds : area_lonlats OP inv g ds = apply_ds ds (full g).
  Proof. destruct ds as [key|]; [|reflexivity]. unfold full, area_lonlats, apply_ds. apply grid_slice_commute. Qed.

  Lemma area_call_spec g memo ds flag : memo_ok g memo ->
    snd (area_call OP inv g memo ds flag) = apply_ds ds (full g) /\ memo_ok g (fst (area_call OP inv g memo ds flag)).
  Proof.
    intros [->| ->]; unfold area_call; cbn [fst snd].
    - split; [apply area_lonlats_ds|]. destruct flag, ds; unfold memo_ok; auto.
    - split; [reflexivity|right; reflexivity].
  Qed.

  Lemma area_history_spec g ops_ : forall memo, memo_ok g memo ->
    area_history OP inv g memo ops_ = map (fun o => apply_ds (fst o) (full g)) ops_.
  Proof.
    induction ops_ as [|[ds flag] r IH]; intros memo H; cbn [area_history map]; [reflexivity|].
    destruct (area_call_spec g memo ds flag H) as [E1 E2].
    destruct (area_call OP inv g memo ds flag) as [memo' res]; cbn [fst snd] in *. subst res. f_equal. apply IH. exact E2.
  Qed.

  Definition memos_ok (defs : list (garea T)) (memos : list (option (list (list C)))) : Prop := Forall2 memo_ok defs memos.

  Lemma stack_call_rows_spec rs cs flag defs : forall memos offset, memos_ok defs memos ->
    snd (stack_call_rows OP inv rs cs offset flag memos defs) = stacked_rows OP inv rs cs offset defs /\
    memos_ok defs (fst (stack_call_rows OP inv rs cs offset flag memos defs)).
  Proof.
    induction defs as [|d dr IH]; intros memos offset H; inversion H as [|? m ? mr Hm Hr]; subst; cbn [stack_call_rows stacked_rows].
    - split; [reflexivity|constructor].
    - destruct (area_call_spec d m (Some (local_row_slice rs offset (gheight d), cs)) flag Hm) as [E1 E2].
      destruct (area_call OP inv d m _ flag) as [m' rows]; cbn [fst snd] in *.
      destruct (IH mr (offset + gheight d) Hr) as [E3 E4].
      destruct (stack_call_rows OP inv rs cs (offset + gheight d) flag mr dr) as [mr' rest]; cbn [fst snd] in *.
      split; [|constructor; assumption]. subst rows rest. f_equal. symmetry. apply area_lonlats_ds.
  Qed.

  Lemma update_ok defs : forall memos i d m', memos_ok defs memos -> nth_error defs i = Some d -> memo_ok d m' ->
    memos_ok defs (update memos i m').
  Proof.
    induction defs as [|d0 dr IH]; intros memos i d m' H Hn Hm; inversion H as [|? m ? mr H0 Hr]; subst.
    - destruct i; discriminate.
    - destruct i as [|i]; cbn in *.
      + inversion Hn; subst. constructor; assumption.
      + constructor; [assumption|]. apply (IH mr i d m'); assumption.
  Qed.

  Definition state_ok (defs : list (garea T)) (st : sstate) : Prop := memos_ok defs (st_memos st).

  Lemma stack_slices_lonlats ds defs :
    stacked_lonlats OP inv ds defs = (let '(rs, cs) := stack_slices ds defs in stacked_rows OP inv rs cs 0 defs).
  Proof. destruct ds as [[rs cs]|]; reflexivity. Qed.

  Lemma sstep_spec defs st o : state_ok defs st ->
    snd (sstep OP inv defs st o) = sop_spec OP inv defs o /\ state_ok defs (fst (sstep OP inv defs st o)) /\
    match o with StackCall ds _ => st_last (fst (sstep OP inv defs st o)) = Some (stacked_lonlats OP inv ds defs)
               | MemberCall _ _ _ => st_last (fst (sstep OP inv defs st o)) = st_last st end.
  Proof.
    intros H. destruct o as [ds flag|i ds flag]; cbn [sstep sop_spec].
    - rewrite stack_slices_lonlats. destruct (stack_slices ds defs) as [rs cs].
      destruct (stack_call_rows_spec rs cs flag defs (st_memos st) 0 H) as [E1 E2].
      destruct (stack_call_rows OP inv rs cs 0 flag (st_memos st) defs) as [memos' rows]; cbn [fst snd] in *.
      subst rows. repeat split. exact E2.
    - destruct (nth_error defs i) as [d|] eqn:Ed.
      + destruct (nth_error (st_memos st) i) as [m|] eqn:Em.
        * assert (Hm : memo_ok d m).
          { clear - H Ed Em. unfold state_ok, memos_ok in H. revert i Ed Em. induction H as [|d0 m0 dr mr H0 Hr IH]; intros i Ed Em.
            - destruct i; discriminate.
            - destruct i; cbn in *; [inversion Ed; inversion Em; subst; assumption|apply (IH i); assumption]. }
          destruct (area_call_spec d m ds flag Hm) as [E1 E2].
          destruct (area_call OP inv d m ds flag) as [m' res]; cbn [fst snd] in *. subst res.
          repeat split. apply (update_ok defs (st_memos st) i d m'); assumption.
        * exfalso. unfold state_ok, memos_ok in H. apply Forall2_length' in H.
          apply nth_error_None in Em. assert (i < length defs)%nat by (apply nth_error_Some; congruence). lia.
      + cbn. destruct (nth_error (st_memos st) i); repeat split; assumption.
  Qed.

  (* every operation of every history returns what it would return on a fresh object *)
  Lemma shistory_spec defs os : forall st, state_ok defs st ->
    fst (shistory OP inv defs st os) = map (sop_spec OP inv defs) os /\ state_ok defs (snd (shistory OP inv defs st os)).
  Proof.
    induction os as [|o r IH]; intros st H; cbn [shistory map]; [split; [reflexivity|exact H]|].
    destruct (sstep_spec defs st o H) as (E1 & E2 & _).
    destruct (sstep OP inv defs st o) as [st' res]; cbn [fst snd] in *.
    destruct (IH st' E2) as [E3 E4]. destruct (shistory OP inv defs st' r) as [rr stf]; cbn [fst snd] in *.
    subst. split; [reflexivity|assumption].
  Qed.
End CacheProofs.

(* ---- in-place appends of coordinate definitions *)
Lemma swath_append_all_spec {A} (ts : list (swath A)) : forall s,
  swath_append_all s ts = (fst s ++ concat (map fst ts), snd s ++ concat (map snd ts)).
Proof.
  unfold swath_append_all. induction ts as [|t r IH]; intros s; cbn [fold_left map concat].
  - rewrite !app_nil_r. destruct s; reflexivity.
  - rewrite IH. unfold swath_concat; cbn [fst snd]. rewrite <- !app_assoc. reflexivity.
Qed.
