(* C20 proofs over the reals: CF / raster / GeoBox / cartopy round trips preserve the grid. *)
From Coq Require Import Reals ZArith Lra Lia List.
From Flocq Require Import Zaux Raux.
From PR Require Import Base.Num Base.RNum Model.Grid Proofs.Grid_real Model.ConvertBase Gen.GenC20 Model.Convert.
Open Scope R_scope.

(* ------------------------------------------------------------------ characterisation of the generated kernels.
   Closed by a small portfolio so that algebraically equivalent rewrites of the source re-prove themselves. *)
Lemma half_lit : lit RO 1 (-1) = / 2.
Proof. cbn. lra. Qed.

Ltac portfolio :=
  first [ reflexivity | lra | nra | (field; auto; lra) | (ring_simplify; lra) | ring ].
Ltac tuple_eq := repeat (apply f_equal2); portfolio.
(* a boolean test over real comparisons against its propositional reading: case analysis on every comparison *)
Ltac bool_real :=
  cbn [eqb ltb leb RO ofZ]; unfold Reqb, Rltb, Rleb;
  repeat match goal with
         | |- context [Req_EM_T ?a ?b] => destruct (Req_EM_T a b)
         | |- context [Rlt_dec ?a ?b] => destruct (Rlt_dec a b)
         | |- context [Rle_dec ?a ?b] => destruct (Rle_dec a b)
         end;
  cbn; split; intros;
  first [ reflexivity | discriminate
        | (intros [? ?]; subst; first [lra | congruence | contradiction])
        | (exfalso; match goal with H : ~ _ |- _ => apply H; split; subst; first [lra | congruence] end)
        | (subst; intuition (first [lra | congruence])) ].

Lemma gen_cf_axis_arith_char first last nb :
  gen_cf_axis_arith RO first last nb =
  (Rabs ((last - first) / IZR (nb - 1)), (last - first) / IZR (nb - 1) / Rabs ((last - first) / IZR (nb - 1))).
Proof. unfold gen_cf_axis_arith; cbn -[IZR]. tuple_eq. Qed.

Lemma gen_cf_extent_char (x y : cf_axis R) :
  gen_cf_extent RO x y =
  (ax_first x - ax_sign x * ax_spacing x / 2, ax_last y + ax_sign y * ax_spacing y / 2,
   ax_last x + ax_sign x * ax_spacing x / 2, ax_first y - ax_sign y * ax_spacing y / 2).
Proof. unfold gen_cf_extent; cbn -[lit]. rewrite half_lit. tuple_eq. Qed.

Lemma gen_gdal_area_char c a f e ds :
  gen_gdal_area RO c a f e ds =
  ((c, f + e * IZR (RasterYSize ds), c + a * IZR (RasterXSize ds), f), (RasterYSize ds, RasterXSize ds)).
Proof. unfold gen_gdal_area; cbn -[IZR]. tuple_eq. Qed.

Lemma gen_rio_area_char (ds : rio_ds R) : gen_rio_area ds = (rio_bounds ds, (rio_height ds, rio_width ds)).
Proof. unfold gen_rio_area. tuple_eq. Qed.

(* the refusal test is exactly "some rotation term is non-zero" *)
Lemma gen_gdal_rotated_char b d : gen_gdal_rotated RO b d = true <-> ~ (b = 0 /\ d = 0).
Proof. unfold gen_gdal_rotated. bool_real. Qed.
Lemma gen_rio_rotated_char b d : gen_rio_rotated RO b d = true <-> ~ (b = 0 /\ d = 0).
Proof. unfold gen_rio_rotated. bool_real. Qed.

Lemma gen_geos_scale_char (x : cf_axis R) h :
  gen_geos_scale RO x h = mk_axis (ax_first x * h) (ax_last x * h) (ax_spacing x * h) (ax_nb x) (ax_sign x).
Proof. unfold gen_geos_scale; cbn. f_equal; portfolio. Qed.

Lemma gen_cf_areadef_char (x y : cf_axis R) :
  gen_cf_areadef RO (mk_axes x y) = (ax_nb x, ax_nb y, gen_cf_extent RO x y).
Proof. unfold gen_cf_areadef; cbn. reflexivity. Qed.

Lemma gen_cartopy_bounds_char (a : area R) :
  gen_cartopy_bounds a = (xmin a, xmax a, ymin a, ymax a).
Proof. unfold gen_cartopy_bounds, area_extent; cbn. tuple_eq. Qed.

Lemma gen_geobox_char (a : area R) :
  gen_geobox RO a = ((dxR a, 0, xmin a, 0, - dyR a, ymax a), (height a, width a)).
Proof. unfold gen_geobox, mk_affine6, area_extent, pixel_size_x, pixel_size_y, dxR, dyR; cbn -[IZR]. tuple_eq. Qed.

(* ------------------------------------------------------------------ one axis *)
Lemma sign_times_spacing d : d <> 0 -> d / Rabs d * Rabs d = d.
Proof. intros H. field. apply Rabs_no_R0. exact H. Qed.

(* an equally spaced coordinate vector v i = v0 + i*s with at least two elements and non-zero step *)
Lemma load_axis_affine v0 s nb : (2 <= nb)%Z -> s <> 0 ->
  let ax := load_axis RO (fun i => v0 + IZR i * s) nb in
  ax_first ax = v0 /\ ax_last ax = v0 + (IZR nb - 1) * s /\ ax_nb ax = nb /\ ax_sign ax * ax_spacing ax = s.
Proof.
  intros Hn Hs. unfold load_axis. rewrite gen_cf_axis_arith_char. cbn -[IZR].
  assert (Hn1 : IZR (nb - 1) <> 0) by (apply not_0_IZR; lia).
  assert (E : (v0 + IZR (nb - 1) * s - (v0 + 0 * s)) / IZR (nb - 1) = s) by (field; exact Hn1).
  rewrite E. rewrite minus_IZR. repeat split; try lra. apply sign_times_spacing; exact Hs.
Qed.

Lemma load_axis_ext v v' nb : v 0%Z = v' 0%Z -> v (nb - 1)%Z = v' (nb - 1)%Z -> load_axis RO v nb = load_axis RO v' nb.
Proof. intros E0 E1. unfold load_axis. rewrite E0, E1. reflexivity. Qed.

Lemma cf_load_ext xs xs' ys ys' w h :
  xs 0%Z = xs' 0%Z -> xs (w - 1)%Z = xs' (w - 1)%Z -> ys 0%Z = ys' 0%Z -> ys (h - 1)%Z = ys' (h - 1)%Z ->
  cf_load RO xs ys w h = cf_load RO xs' ys' w h.
Proof. intros. unfold cf_load. rewrite (load_axis_ext xs xs'), (load_axis_ext ys ys') by assumption. reflexivity. Qed.

(* ------------------------------------------------------------------ CF: the loaded area of equally spaced vectors *)
Definition affine_area (x0 sx y0 sy : R) (w h : Z) : area R :=
  mk_area (x0 - sx / 2) (y0 + (IZR h - / 2) * sy) (x0 + (IZR w - / 2) * sx) (y0 - sy / 2) w h.

Lemma cf_area_of_axes_eq (x y : cf_axis R) x0 sx y0 sy w h :
  ax_first x = x0 -> ax_last x = x0 + (IZR w - 1) * sx -> ax_nb x = w -> ax_sign x * ax_spacing x = sx ->
  ax_first y = y0 -> ax_last y = y0 + (IZR h - 1) * sy -> ax_nb y = h -> ax_sign y * ax_spacing y = sy ->
  cf_area_of_axes RO x y = affine_area x0 sx y0 sy w h.
Proof.
  intros Fx Lx Nx Sx Fy Ly Ny Sy. unfold cf_area_of_axes. rewrite gen_cf_areadef_char, gen_cf_extent_char. unfold area_of_extent, affine_area.
  rewrite Nx, Ny. f_equal.
  - rewrite Fx. replace (ax_sign x * ax_spacing x / 2) with (sx / 2) by (rewrite <- Sx; lra). lra.
  - rewrite Ly. replace (ax_sign y * ax_spacing y / 2) with (sy / 2) by (rewrite <- Sy; lra). lra.
  - rewrite Lx. replace (ax_sign x * ax_spacing x / 2) with (sx / 2) by (rewrite <- Sx; lra). lra.
  - rewrite Fy. replace (ax_sign y * ax_spacing y / 2) with (sy / 2) by (rewrite <- Sy; lra). lra.
Qed.

Lemma cf_load_affine x0 sx y0 sy w h : (2 <= w)%Z -> (2 <= h)%Z -> sx <> 0 -> sy <> 0 ->
  cf_load RO (fun c => x0 + IZR c * sx) (fun r => y0 + IZR r * sy) w h = affine_area x0 sx y0 sy w h.
Proof.
  intros Hw Hh Hx Hy. unfold cf_load.
  destruct (load_axis_affine x0 sx w Hw Hx) as (Fx & Lx & Nx & Sx).
  destruct (load_axis_affine y0 sy h Hh Hy) as (Fy & Ly & Ny & Sy).
  apply cf_area_of_axes_eq; assumption.
Qed.

(* where the pixels of the loaded area are *)
Lemma affine_area_pixels x0 sx y0 sy w h : (1 <= w)%Z -> (1 <= h)%Z ->
  forall c r, proj_x RO (affine_area x0 sx y0 sy w h) c = x0 + IZR c * sx /\
              proj_y RO (affine_area x0 sx y0 sy w h) r = y0 + IZR r * sy.
Proof.
  intros Hw Hh c r. rewrite proj_x_canonical, proj_y_canonical. unfold dxR, dyR, affine_area; cbn -[IZR].
  pose proof (IZR_pos_of w Hw). pose proof (IZR_pos_of h Hh). split; field; lra.
Qed.

Lemma cf_pixel_location x0 sx y0 sy w h : (2 <= w)%Z -> (2 <= h)%Z -> sx <> 0 -> sy <> 0 ->
  let b := cf_load RO (fun c => x0 + IZR c * sx) (fun r => y0 + IZR r * sy) w h in
  width b = w /\ height b = h /\
  forall c r, proj_x RO b c = x0 + IZR c * sx /\ proj_y RO b r = y0 + IZR r * sy.
Proof.
  intros Hw Hh Hx Hy. cbv zeta. rewrite cf_load_affine by assumption. split; [reflexivity|split; [reflexivity|]].
  apply affine_area_pixels; lia.
Qed.

(* the coordinate vectors of an area are equally spaced *)
Lemma proj_x_affine a c : proj_x RO a c = (xmin a + dxR a / 2) + IZR c * dxR a.
Proof. rewrite proj_x_canonical. lra. Qed.
Lemma proj_y_affine a r : proj_y RO a r = (ymax a - dyR a / 2) + IZR r * (- dyR a).
Proof. rewrite proj_y_canonical. lra. Qed.

Lemma affine_area_of_area a : wf_area a ->
  affine_area (xmin a + dxR a / 2) (dxR a) (ymax a - dyR a / 2) (- dyR a) (width a) (height a) = a.
Proof.
  intros (Hw & Hh & _ & _). destruct a as [x0 y0 x1 y1 w h]; unfold affine_area, dxR, dyR; cbn -[IZR] in *.
  pose proof (IZR_pos_of w Hw). pose proof (IZR_pos_of h Hh). f_equal; field; lra.
Qed.

(* north-to-south storage: the original area itself *)
Lemma cf_axis_roundtrip a : wf_area a -> (2 <= width a)%Z -> (2 <= height a)%Z ->
  cf_load RO (cf_x RO a) (cf_y_ns RO a) (width a) (height a) = a.
Proof.
  intros Hwf Hw Hh.
  rewrite (cf_load_ext _ (fun c => (xmin a + dxR a / 2) + IZR c * dxR a) _ (fun r => (ymax a - dyR a / 2) + IZR r * (- dyR a)))
    by (unfold cf_x, cf_y_ns; first [apply proj_x_affine | apply proj_y_affine]).
  rewrite cf_load_affine; try assumption.
  - apply affine_area_of_area; assumption.
  - apply dx_nonzero; assumption.
  - pose proof (dy_nonzero a Hwf). lra.
Qed.

(* south-to-north storage: same grid, rows reversed *)
Definition rows_reversed (a : area R) : area R := mk_area (xmin a) (ymax a) (xmax a) (ymin a) (width a) (height a).
Definition cols_reversed (a : area R) : area R := mk_area (xmax a) (ymin a) (xmin a) (ymax a) (width a) (height a).

Lemma proj_y_rev_affine a r : (1 <= height a)%Z -> proj_y RO a (height a - 1 - r) = (ymin a + dyR a / 2) + IZR r * dyR a.
Proof.
  intros H. rewrite proj_y_canonical. rewrite !minus_IZR. unfold dyR. field. apply not_0_IZR; lia.
Qed.
Lemma proj_x_rev_affine a c : (1 <= width a)%Z -> proj_x RO a (width a - 1 - c) = (xmax a - dxR a / 2) + IZR c * (- dxR a).
Proof.
  intros H. rewrite proj_x_canonical. rewrite !minus_IZR. unfold dxR. field. apply not_0_IZR; lia.
Qed.

Lemma cf_flipped_rows a : wf_area a -> (2 <= width a)%Z -> (2 <= height a)%Z ->
  let b := cf_load RO (cf_x RO a) (cf_y_sn RO a) (width a) (height a) in
  b = rows_reversed a /\
  forall r c, proj_x RO b c = proj_x RO a c /\ proj_y RO b r = proj_y RO a (height a - 1 - r).
Proof.
  intros Hwf Hw Hh. cbv zeta.
  assert (Hdx := dx_nonzero a Hwf). assert (Hdy := dy_nonzero a Hwf).
  rewrite (cf_load_ext _ (fun c => (xmin a + dxR a / 2) + IZR c * dxR a) _ (fun r => (ymin a + dyR a / 2) + IZR r * dyR a))
    by (unfold cf_x, cf_y_sn; first [apply proj_x_affine | (apply proj_y_rev_affine; lia)]).
  rewrite cf_load_affine by assumption. split.
  - destruct Hwf as (Hw1 & Hh1 & _ & _). destruct a as [x0 y0 x1 y1 w h]; unfold affine_area, rows_reversed, dxR, dyR; cbn -[IZR] in *.
    pose proof (IZR_pos_of w Hw1). pose proof (IZR_pos_of h Hh1). f_equal; field; lra.
  - intros r c. destruct (affine_area_pixels (xmin a + dxR a / 2) (dxR a) (ymin a + dyR a / 2) (dyR a) (width a) (height a)
                            ltac:(lia) ltac:(lia) c r) as [Ex Ey].
    rewrite Ex, Ey. rewrite proj_x_affine, proj_y_rev_affine by lia. split; reflexivity.
Qed.

Lemma cf_flipped_cols a : wf_area a -> (2 <= width a)%Z -> (2 <= height a)%Z ->
  let b := cf_load RO (cf_x_rev RO a) (cf_y_ns RO a) (width a) (height a) in
  b = cols_reversed a /\
  forall r c, proj_x RO b c = proj_x RO a (width a - 1 - c) /\ proj_y RO b r = proj_y RO a r.
Proof.
  intros Hwf Hw Hh. cbv zeta.
  assert (Hdx := dx_nonzero a Hwf). assert (Hdy := dy_nonzero a Hwf).
  rewrite (cf_load_ext _ (fun c => (xmax a - dxR a / 2) + IZR c * (- dxR a)) _ (fun r => (ymax a - dyR a / 2) + IZR r * (- dyR a)))
    by (unfold cf_x_rev, cf_y_ns; first [(apply proj_x_rev_affine; lia) | apply proj_y_affine]).
  rewrite cf_load_affine; try assumption; try lra. split.
  - destruct Hwf as (Hw1 & Hh1 & _ & _). destruct a as [x0 y0 x1 y1 w h]; unfold affine_area, cols_reversed, dxR, dyR; cbn -[IZR] in *.
    pose proof (IZR_pos_of w Hw1). pose proof (IZR_pos_of h Hh1). f_equal; field; lra.
  - intros r c. destruct (affine_area_pixels (xmax a - dxR a / 2) (- dxR a) (ymax a - dyR a / 2) (- dyR a) (width a) (height a)
                            ltac:(lia) ltac:(lia) c r) as [Ex Ey].
    rewrite Ex, Ey. rewrite proj_x_rev_affine, proj_y_affine by lia. split; reflexivity.
Qed.

(* ------------------------------------------------------------------ CF: units *)
Lemma load_axis_scaled v0 s k nb : (2 <= nb)%Z -> s <> 0 -> k <> 0 ->
  let ax := load_axis RO (scaled RO k (fun i => v0 + IZR i * s)) nb in
  ax_first ax = v0 / k /\ ax_last ax = v0 / k + (IZR nb - 1) * (s / k) /\ ax_nb ax = nb /\ ax_sign ax * ax_spacing ax = s / k.
Proof.
  intros Hn Hs Hk.
  assert (E : load_axis RO (scaled RO k (fun i => v0 + IZR i * s)) nb = load_axis RO (fun i => v0 / k + IZR i * (s / k)) nb).
  { apply load_axis_ext; unfold scaled; cbn -[IZR]; field; exact Hk. }
  rewrite E. apply load_axis_affine; [exact Hn|]. intros Z. apply Hs. apply Rmult_eq_compat_r with (r := k) in Z.
  unfold Rdiv in Z. rewrite Rmult_assoc, Rinv_l, Rmult_1_r, Rmult_0_l in Z by exact Hk. exact Z.
Qed.

(* coordinates stored in units of k CRS units (k = 1000 for km on a metre CRS), unit conversion = multiplication by k *)
Lemma cf_units a k : wf_area a -> (2 <= width a)%Z -> (2 <= height a)%Z -> k <> 0 ->
  forall uconv, (forall p, uconv p = (k * fst p, k * snd p)) ->
  cf_load_units RO uconv (scaled RO k (cf_x RO a)) (scaled RO k (cf_y_ns RO a)) (width a) (height a) = a.
Proof.
  intros Hwf Hw Hh Hk uconv Hu.
  assert (Hdx := dx_nonzero a Hwf). assert (Hdy := dy_nonzero a Hwf).
  unfold cf_load_units, cf_load.
  assert (Ex : load_axis RO (scaled RO k (cf_x RO a)) (width a) =
               load_axis RO (scaled RO k (fun c => (xmin a + dxR a / 2) + IZR c * dxR a)) (width a))
    by (apply load_axis_ext; unfold scaled, cf_x; rewrite proj_x_affine; reflexivity).
  assert (Ey : load_axis RO (scaled RO k (cf_y_ns RO a)) (height a) =
               load_axis RO (scaled RO k (fun r => (ymax a - dyR a / 2) + IZR r * (- dyR a))) (height a))
    by (apply load_axis_ext; unfold scaled, cf_y_ns; rewrite proj_y_affine; reflexivity).
  rewrite Ex, Ey.
  destruct (load_axis_scaled (xmin a + dxR a / 2) (dxR a) k (width a) Hw Hdx Hk) as (Fx & Lx & Nx & Sx).
  destruct (load_axis_scaled (ymax a - dyR a / 2) (- dyR a) k (height a) Hh ltac:(lra) Hk) as (Fy & Ly & Ny & Sy).
  rewrite (cf_area_of_axes_eq _ _ _ _ _ _ _ _ Fx Lx Nx Sx Fy Ly Ny Sy).
  unfold convert_extent. rewrite !Hu. cbn -[IZR].
  destruct Hwf as (Hw1 & Hh1 & _ & _). destruct a as [x0 y0 x1 y1 w h]; unfold dxR, dyR in *; cbn -[IZR] in *.
  pose proof (IZR_pos_of w Hw1). pose proof (IZR_pos_of h Hh1). f_equal; field; lra.
Qed.

(* geostationary scanning angles: stored value = projection coordinate / satellite height *)
Lemma cf_geos a hgt : wf_area a -> (2 <= width a)%Z -> (2 <= height a)%Z -> hgt <> 0 ->
  cf_load_geos RO hgt (scaled RO hgt (cf_x RO a)) (scaled RO hgt (cf_y_ns RO a)) (width a) (height a) = a.
Proof.
  intros Hwf Hw Hh Hk.
  assert (Hdx := dx_nonzero a Hwf). assert (Hdy := dy_nonzero a Hwf).
  unfold cf_load_geos.
  assert (Ex : load_axis RO (scaled RO hgt (cf_x RO a)) (width a) =
               load_axis RO (scaled RO hgt (fun c => (xmin a + dxR a / 2) + IZR c * dxR a)) (width a))
    by (apply load_axis_ext; unfold scaled, cf_x; rewrite proj_x_affine; reflexivity).
  assert (Ey : load_axis RO (scaled RO hgt (cf_y_ns RO a)) (height a) =
               load_axis RO (scaled RO hgt (fun r => (ymax a - dyR a / 2) + IZR r * (- dyR a))) (height a))
    by (apply load_axis_ext; unfold scaled, cf_y_ns; rewrite proj_y_affine; reflexivity).
  rewrite Ex, Ey.
  destruct (load_axis_scaled (xmin a + dxR a / 2) (dxR a) hgt (width a) Hw Hdx Hk) as (Fx & Lx & Nx & Sx).
  destruct (load_axis_scaled (ymax a - dyR a / 2) (- dyR a) hgt (height a) Hh ltac:(lra) Hk) as (Fy & Ly & Ny & Sy).
  rewrite (cf_area_of_axes_eq _ _ (xmin a + dxR a / 2) (dxR a) (ymax a - dyR a / 2) (- dyR a) (width a) (height a)).
  - apply affine_area_of_area; assumption.
  - unfold scale_axis; rewrite gen_geos_scale_char; cbn [ax_first ax_last ax_spacing ax_nb ax_sign]. rewrite Fx. field; exact Hk.
  - unfold scale_axis; rewrite gen_geos_scale_char; cbn [ax_first ax_last ax_spacing ax_nb ax_sign]. rewrite Lx. field; exact Hk.
  - unfold scale_axis; rewrite gen_geos_scale_char; cbn [ax_nb]. exact Nx.
  - unfold scale_axis; rewrite gen_geos_scale_char; cbn [ax_first ax_last ax_spacing ax_nb ax_sign]. rewrite <- Rmult_assoc, Sx. field; exact Hk.
  - unfold scale_axis; rewrite gen_geos_scale_char; cbn [ax_first ax_last ax_spacing ax_nb ax_sign]. rewrite Fy. field; exact Hk.
  - unfold scale_axis; rewrite gen_geos_scale_char; cbn [ax_first ax_last ax_spacing ax_nb ax_sign]. rewrite Ly. field; exact Hk.
  - unfold scale_axis; rewrite gen_geos_scale_char; cbn [ax_nb]. exact Ny.
  - unfold scale_axis; rewrite gen_geos_scale_char; cbn [ax_first ax_last ax_spacing ax_nb ax_sign]. rewrite <- Rmult_assoc, Sy. field; exact Hk.
Qed.

(* ------------------------------------------------------------------ rasters *)
Lemma raster_transform_roundtrip a : (1 <= width a)%Z -> (1 <= height a)%Z ->
  raster_load RO (area_affine RO a) (width a) (height a) = a.
Proof.
  intros Hw Hh. unfold raster_load, area_affine. rewrite gen_gdal_area_char. unfold area_of_extent.
  destruct a as [x0 y0 x1 y1 w h]; unfold pixel_size_x, pixel_size_y; cbn -[IZR] in *.
  pose proof (IZR_pos_of w Hw). pose proof (IZR_pos_of h Hh). f_equal; field; lra.
Qed.

(* any north-up or south-up transform: pixel (r, c) of the loaded area is the image of the centre of array cell (r, c) *)
Lemma raster_pixel_location (a c e f : R) w h : (1 <= w)%Z -> (1 <= h)%Z ->
  let tr : affine6 R := (a, 0, c, 0, e, f) in
  let b := raster_load RO tr w h in
  width b = w /\ height b = h /\
  forall col row, (proj_x RO b col, proj_y RO b row) = affine_apply RO tr (IZR col + / 2) (IZR row + / 2).
Proof.
  intros Hw Hh. cbv zeta. unfold raster_load. rewrite gen_gdal_area_char. unfold area_of_extent. cbn -[IZR proj_x proj_y].
  split; [reflexivity|split; [reflexivity|]]. intros col row.
  rewrite proj_x_canonical, proj_y_canonical. unfold dxR, dyR, affine_apply; cbn -[IZR].
  pose proof (IZR_pos_of w Hw). pose proof (IZR_pos_of h Hh). f_equal; field; lra.
Qed.

Lemma raster_flipped_rows a : (1 <= width a)%Z -> (1 <= height a)%Z ->
  raster_load RO (area_affine_sn RO a) (width a) (height a) = rows_reversed a.
Proof.
  intros Hw Hh. unfold raster_load, area_affine_sn. rewrite gen_gdal_area_char. unfold area_of_extent, rows_reversed.
  destruct a as [x0 y0 x1 y1 w h]; unfold pixel_size_x, pixel_size_y; cbn -[IZR] in *.
  pose proof (IZR_pos_of w Hw). pose proof (IZR_pos_of h Hh). f_equal; field; lra.
Qed.

(* ------------------------------------------------------------------ GeoBox *)
Lemma geobox_affine_corners a : (1 <= width a)%Z -> (1 <= height a)%Z ->
  geobox_shape RO a = (height a, width a) /\
  affine_apply RO (geobox_affine RO a) 0 0 = (xmin a, ymax a) /\
  affine_apply RO (geobox_affine RO a) (IZR (width a)) (IZR (height a)) = (xmax a, ymin a) /\
  forall col row, affine_apply RO (geobox_affine RO a) (IZR col + / 2) (IZR row + / 2) = (proj_x RO a col, proj_y RO a row).
Proof.
  intros Hw Hh. pose proof (IZR_pos_of _ Hw). pose proof (IZR_pos_of _ Hh).
  unfold geobox_shape, geobox_affine. rewrite gen_geobox_char. cbn [fst snd].
  split; [reflexivity|]. unfold affine_apply, pixel_size_x, pixel_size_y; cbn -[IZR proj_x proj_y].
  split; [|split].
  - apply f_equal2; lra.
  - unfold dxR, dyR. apply f_equal2; field; lra.
  - intros col row. rewrite proj_x_canonical, proj_y_canonical. unfold dxR, dyR. apply f_equal2; field; lra.
Qed.

(* ------------------------------------------------------------------ cartopy *)
Lemma cartopy_bounds_eq (a : area R) : cartopy_bounds a = (xmin a, xmax a, ymin a, ymax a).
Proof. unfold cartopy_bounds. apply gen_cartopy_bounds_char. Qed.

(* ------------------------------------------------------------------ one-pixel axes: the guard of the CF theorems.
   A CF coordinate variable holds pixel centres only, so a one-element axis carries no spacing; the code does not
   return an area for it (ZeroDivisionError), which is what load_axis_raises records. *)
Lemma cf_one_pixel_axis_raises (v : Z -> R) : load_axis_raises RO v 1 = true.
Proof. unfold load_axis_raises. reflexivity. Qed.

Lemma cf_regular_axis_loads v0 s nb : (2 <= nb)%Z -> s <> 0 ->
  load_axis_raises RO (fun i => v0 + IZR i * s) nb = false.
Proof.
  intros Hn Hs. unfold load_axis_raises. destruct (load_axis_affine v0 s nb Hn Hs) as (_ & _ & _ & S).
  apply Bool.orb_false_iff. split.
  - apply Z.eqb_neq. lia.
  - cbn [eqb RO]. unfold Reqb. destruct (Req_EM_T _ _) as [E|E]; [|reflexivity].
    exfalso. apply Hs. rewrite <- S. cbn [ofZ RO] in E. rewrite E. lra.
Qed.

(* ------------------------------------------------------------------ wave 2: rasterio branch, refusal of rotation, compositions *)
(* rasterio branch.  H_bounds (external engine): rasterio's dataset.bounds is the geotransform expression
   (c, f + e*height, c + a*width, f) - which is what raster_load computes; compared bit for bit on every run. *)
Lemma rio_roundtrip a (ds : rio_ds R) : (1 <= width a)%Z -> (1 <= height a)%Z ->
  rio_height ds = height a -> rio_width ds = width a ->
  rio_bounds ds = area_extent (raster_load RO (area_affine RO a) (width a) (height a)) ->
  rio_load ds = a.
Proof.
  intros Hw Hh Eh Ew Eb. unfold rio_load. rewrite gen_rio_area_char, Eb, Eh, Ew.
  rewrite raster_transform_roundtrip by assumption. destruct a; reflexivity.
Qed.

Lemma rotated_iff (tr : affine6 R) :
  let '(a, b, c, d, e, f) := tr in
  (rotated RO tr = true <-> ~ (b = 0 /\ d = 0)) /\ (rotated_rio RO tr = true <-> ~ (b = 0 /\ d = 0)).
Proof. destruct tr as [[[[[a b] c] d] e] f]. split; [apply gen_gdal_rotated_char | apply gen_rio_rotated_char]. Qed.

(* the GeoBox of an area read from a raster carries the raster's own transform *)
Lemma raster_geobox_same_transform (a c e f : R) w h : (1 <= w)%Z -> (1 <= h)%Z ->
  let tr : affine6 R := (a, 0, c, 0, e, f) in
  geobox_affine RO (raster_load RO tr w h) = tr /\ geobox_shape RO (raster_load RO tr w h) = (h, w).
Proof.
  intros Hw Hh. cbv zeta. unfold geobox_affine, geobox_shape, raster_load. rewrite gen_gdal_area_char. unfold area_of_extent.
  rewrite gen_geobox_char. cbn [fst snd RasterXSize RasterYSize width height xmin ymax]. split; [|reflexivity].
  unfold dxR, dyR; cbn -[IZR]. pose proof (IZR_pos_of w Hw). pose proof (IZR_pos_of h Hh).
  repeat (apply f_equal2); try reflexivity; field; lra.
Qed.

(* CF (any orientation) then GeoBox: cell (row, col) of the GeoBox is where element (row, col) of the stored array is *)
Lemma cf_then_geobox x0 sx y0 sy w h : (2 <= w)%Z -> (2 <= h)%Z -> sx <> 0 -> sy <> 0 ->
  let b := cf_load RO (fun c => x0 + IZR c * sx) (fun r => y0 + IZR r * sy) w h in
  geobox_shape RO b = (h, w) /\
  forall col row, affine_apply RO (geobox_affine RO b) (IZR col + / 2) (IZR row + / 2) = (x0 + IZR col * sx, y0 + IZR row * sy).
Proof.
  intros Hw Hh Hx Hy. cbv zeta.
  destruct (cf_pixel_location x0 sx y0 sy w h Hw Hh Hx Hy) as (Ew & Eh & Hp).
  set (b := cf_load RO _ _ w h) in *.
  destruct (geobox_affine_corners b ltac:(lia) ltac:(lia)) as (Hs & _ & _ & Hc).
  split.
  - rewrite Hs, Ew, Eh. reflexivity.
  - intros col row. rewrite Hc. destruct (Hp col row) as [Ex Ey]. rewrite Ex, Ey. reflexivity.
Qed.

(* writing the loaded (possibly upside-down) area out again and reading it back is the identity *)
Lemma cf_reload_after_flip a : wf_area a -> (2 <= width a)%Z -> (2 <= height a)%Z ->
  let b := cf_load RO (cf_x RO a) (cf_y_sn RO a) (width a) (height a) in
  cf_load RO (cf_x RO b) (cf_y_ns RO b) (width b) (height b) = b.
Proof.
  intros Hwf Hw Hh. cbv zeta. destruct (cf_flipped_rows a Hwf Hw Hh) as [E _]. rewrite E.
  apply cf_axis_roundtrip; unfold rows_reversed; cbn; try assumption.
  destruct Hwf as (H1 & H2 & H3 & H4). unfold wf_area; cbn. repeat split; auto.
Qed.

(* ------------------------------------------------------------------ round 3: storage independence.
   In any arithmetic, the loaded area is a function of the VALUES first = v[0], last = v[-1] and the length only:
   two coordinate variables holding the same values (whatever their storage dtype - the code widens them to Python
   floats/ints with .item() before any arithmetic) load to the same area. *)
Lemma cf_load_values_only {T : Type} (OP : ops T) (xs xs' ys ys' : Z -> T) w h :
  xs 0%Z = xs' 0%Z -> xs (w - 1)%Z = xs' (w - 1)%Z -> ys 0%Z = ys' 0%Z -> ys (h - 1)%Z = ys' (h - 1)%Z ->
  cf_load OP xs ys w h = cf_load OP xs' ys' w h /\
  load_axis_raises OP xs w = load_axis_raises OP xs' w /\ load_axis_raises OP ys h = load_axis_raises OP ys' h.
Proof.
  intros E0 E1 E2 E3. unfold cf_load, load_axis_raises, load_axis. rewrite E0, E1, E2, E3. repeat split.
Qed.
