(* C16 - geostationary areas: the four dummy sides built from the vertices of (extent /\ Earth disk) form a closed
   ring whose contour is exactly that list of vertices, each once and in order. *)
From Coq Require Import ZArith List Lia Bool Arith.
From PR Require Import Base.ListX Model.Boundary Proofs.C16_ring.
Import ListNotations.

Lemma last_opt_some {A} (l : list A) : l <> [] -> exists y, last_opt l = Some y /\ l = removelast l ++ [y].
Proof.
  intros H. destruct (exists_last H) as [m [y ->]]. exists y. split.
  - apply last_opt_app1.
  - rewrite removelast_last. reflexivity.
Qed.

Lemma hd_error_firstn {A} (l : list A) k : (0 < k)%nat -> hd_error (firstn k l) = hd_error l.
Proof. destruct k; [lia|]. destruct l; reflexivity. Qed.

Lemma skipn_S_tl {A} (l : list A) k : skipn (S k) l = tl (skipn k l).
Proof. revert l. induction k as [|k IH]; intros [|x l]; try reflexivity. cbn [skipn]. rewrite <- IH. reflexivity. Qed.

Lemma firstn1_skipn {A} (l : list A) k : firstn 1 (skipn k l) ++ skipn (S k) l = skipn k l.
Proof. rewrite skipn_S_tl. destruct (skipn k l); reflexivity. Qed.

Lemma last_opt_firstn_S {A} (l : list A) k : (k < length l)%nat -> last_opt (firstn (S k) l) = hd_error (skipn k l).
Proof.
  revert l. induction k as [|k IH]; intros [|x l] H; cbn in H; try lia.
  - reflexivity.
  - cbn [skipn]. rewrite <- IH by lia. cbn [firstn].
    destruct l as [|y l]; [cbn in H; lia|]. unfold last_opt. cbn [firstn rev].
    destruct (rev (firstn k l) ++ [y]) eqn:E; [destruct (rev (firstn k l)); discriminate|].
    reflexivity.
Qed.

Theorem geos_ring {A} (x : list A) : (4 <= length x)%nat ->
  contour (geos_sides x) = x /\ closed4 (geos_sides x)
  /\ Forall (fun s => (2 <= length s)%nat) (geos_sides x).
Proof.
  intros Hn.
  assert (Hxne : x <> []) by (intros E; rewrite E in Hn; cbn in Hn; lia).
  destruct (last_opt_some x Hxne) as [l [Hl Hx]].
  destruct x as [|f x']; [cbn in Hn; lia|].
  unfold geos_sides. rewrite Hl. cbv beta iota. remember (f :: x') as x eqn:Ex.
  set (n := length x) in *. set (k := (n / 2 - 1)%nat).
  assert (Hk : (1 <= k)%nat /\ (k + 2 <= n - 1)%nat).
  { unfold k. pose proof (Nat.div_mod n 2 ltac:(lia)) as Hd.
    pose proof (Nat.mod_upper_bound n 2 ltac:(lia)). lia. }
  unfold slice_l. rewrite !Nat.sub_0_r. cbn [skipn].
  replace (k + 2 - k)%nat with 2%nat by lia.
  assert (Hlen_sk : forall j, length (skipn j x) = (n - j)%nat) by (intros; apply skipn_length).
  assert (Hall : firstn (n - (k + 1)) (skipn (k + 1) x) = skipn (k + 1) x).
  { apply firstn_all2. rewrite Hlen_sk. lia. }
  rewrite Hall.
  assert (Hne : skipn (k + 1) x <> []).
  { intros E. apply (f_equal (@length A)) in E. rewrite Hlen_sk in E. change (@length A []) with 0%nat in E. lia. }
  (* the last element of the tail is the last element of x *)
  assert (Hlast : last_opt (skipn (k + 1) x) = Some l).
  { rewrite Hx. rewrite skipn_app.
    replace (k + 1 - length (removelast x))%nat with 0%nat.
    - cbn [skipn]. apply last_opt_app1.
    - assert (length x = length (removelast x) + 1)%nat by (rewrite Hx at 1; rewrite app_length; reflexivity).
      fold n in H. lia. }
  split; [|split].
  - unfold contour. cbn [map concat]. rewrite app_nil_r.
    replace (k + 1)%nat with (S k) by lia.
    rewrite removelast_firstn by (fold n; lia).
    change 2%nat with (S 1). rewrite removelast_firstn by (rewrite Hlen_sk; lia).
    cbn [removelast].
    destruct (last_opt_some _ Hne) as [l' [Hl' Hsk]]. replace (k + 1)%nat with (S k) in * by lia.
    rewrite Hlast in Hl'. inversion Hl'; subst l'.
    rewrite <- Hsk. rewrite firstn1_skipn. apply firstn_skipn.
  - cbn [closed4]. replace (k + 1)%nat with (S k) in * by lia.
    rewrite last_opt_firstn_S by (fold n; lia).
    rewrite hd_error_firstn by lia.
    change 2%nat with (S 1). rewrite last_opt_firstn_S by (rewrite Hlen_sk; lia).
    rewrite skipn_S_tl at 1. rewrite <- skipn_S_tl. 
    rewrite Hlast. unfold last_opt at 1. cbn [rev app hd_error].
    replace (hd_error (firstn (S k) x)) with (Some f) by (rewrite Ex; reflexivity).
    repeat split; try reflexivity; try discriminate.
    + rewrite (skipn_S_tl x k). destruct (skipn k x); reflexivity.
    + intros E. apply (f_equal (@length A)) in E. rewrite firstn_length in E. fold n in E.
      change (@length A []) with 0%nat in E. lia.
    + intros E. apply (f_equal (@length A)) in E. rewrite firstn_length, Hlen_sk in E.
      change (@length A []) with 0%nat in E. lia.
    + exact Hne.
  - replace (k + 1)%nat with (S k) in * by lia.
    repeat constructor.
    + rewrite firstn_length. fold n. lia.
    + rewrite firstn_length, Hlen_sk. lia.
    + rewrite Hlen_sk. lia.
Qed.
