(* C12 -- byte images, digests and cache keys: structural lemmas, for every arithmetic instance and every
   injective digest function. *)
From Coq Require Import ZArith Bool List Lia.
From PR Require Import Base.Num Base.Slice Base.ListX Model.HashEq.
Import ListNotations.
Open Scope Z_scope.

Lemma app_inj_len {A} (a a' b b' : list A) : length a = length a' -> a ++ b = a' ++ b' -> a = a' /\ b = b'.
Proof.
  revert a'. induction a as [|x a IH]; intros [|y a'] Hl He; cbn in *; try discriminate; auto.
  injection He as -> He. injection Hl as Hl. destruct (IH a' Hl He) as [-> ->]. auto.
Qed.

Lemma named_false_ne2 k : named k = false -> k <> 2.
Proof. intros H ->. discriminate. Qed.

Section Img.
  Context {T : Type} (OP : ops T).
  Variable D : Type.
  Variable H : list (tok T) -> D.
  Hypothesis H_inj : forall a b, H a = H b -> a = b.        (* sha1 has no collision on the images met *)

  Definition cvals (a : harea T) : list T := map (canon OP) (ext_list (h_ext a)).

  Lemma area_image_length a : length (area_image OP a) = 7%nat.
  Proof. unfold area_image, ext_list. destruct (h_ext a) as [[[x0 y0] x1] y1]. reflexivity. Qed.

  (* the image determines, and is determined by, crs token, shape and the canonical extent values *)
  Lemma area_image_eq_iff a b :
    area_image OP a = area_image OP b <->
    h_crs a = h_crs b /\ h_h a = h_h b /\ h_w a = h_w b /\ cvals a = cvals b.
  Proof.
    unfold area_image, cvals, ext_list.
    destruct (h_ext a) as [[[x0 y0] x1] y1], (h_ext b) as [[[u0 v0] u1] v1]. cbn. split.
    - intros E. injection E as -> -> -> -> -> -> ->. repeat split; reflexivity.
    - intros (-> & -> & -> & E). injection E as -> -> -> ->. reflexivity.
  Qed.

  Lemma area_digest_eq_iff a b : H (area_image OP a) = H (area_image OP b) <-> area_image OP a = area_image OP b.
  Proof. split; [apply H_inj | intros ->; reflexivity]. Qed.

  (* spellings: an area built from the spelled constructor arguments depends on the VALUES of the numbers only *)
  Definition nvals (e : num T * num T * num T * num T) : list T :=
    let '(a, b, c, d) := e in [nval OP a; nval OP b; nval OP c; nval OP d].

  Lemma area_of_values tk w h e1 e2 : nvals e1 = nvals e2 -> area_of OP tk w h e1 = area_of OP tk w h e2.
  Proof.
    destruct e1 as [[[a b] c] d], e2 as [[[a' b'] c'] d']. cbn. intros E. injection E as -> -> -> ->. reflexivity.
  Qed.

  (* ... and its image on the values up to the canonicalisation (x + 0.0) only *)
  Lemma area_image_spelling tk w h e1 e2 :
    map (canon OP) (nvals e1) = map (canon OP) (nvals e2) ->
    area_image OP (area_of OP tk w h e1) = area_image OP (area_of OP tk w h e2).
  Proof.
    destruct e1 as [[[a b] c] d], e2 as [[[a' b'] c'] d']. cbn. intros E. injection E as -> -> -> ->. reflexivity.
  Qed.

  Lemma area_distinct a b :
    h_crs a <> h_crs b \/ (h_h a, h_w a) <> (h_h b, h_w b) \/ cvals a <> cvals b ->
    H (area_image OP a) <> H (area_image OP b).
  Proof.
    intros Hd E. apply H_inj in E. apply area_image_eq_iff in E. destruct E as (E1 & E2 & E3 & E4).
    destruct Hd as [Hd | [Hd | Hd]]; apply Hd; congruence.
  Qed.

  (* swaths (numpy / xarray over numpy): the image is the flat lon bytes followed by the flat lat bytes *)
  Lemma swath_image_np (s : swath T) : named (s_kind s) = false -> swath_image s = map TNum (concat (s_lon s)) ++ map TNum (concat (s_lat s)).
  Proof. intros Hk. unfold swath_image. rewrite Hk. reflexivity. Qed.

  Lemma map_TNum_inj (l1 l2 : list T) : map (@TNum T) l1 = map TNum l2 -> l1 = l2.
  Proof.
    revert l2. induction l1 as [|x l1 IH]; intros [|y l2] E; cbn in *; try discriminate; auto.
    injection E as -> E. f_equal. auto.
  Qed.

  Lemma swath_image_eq_np (a b : swath T) :
    named (s_kind a) = false -> named (s_kind b) = false -> length (concat (s_lon a)) = length (concat (s_lon b)) ->
    (swath_image a = swath_image b <->
     concat (s_lon a) = concat (s_lon b) /\ concat (s_lat a) = concat (s_lat b)).
  Proof.
    intros Ha Hb Hl. rewrite !swath_image_np by assumption. split.
    - intros E. apply app_inj_len in E; [|rewrite !map_length; exact Hl].
      destruct E as [E1 E2]. split; apply map_TNum_inj; assumption.
    - intros [-> ->]. reflexivity.
  Qed.

  (* the container (list / numpy / xarray over numpy) is not part of the image *)
  Lemma swath_image_container k1 k2 nd1 nd2 (lon lat : list (list T)) n1 n2 n3 n4 :
    named k1 = false -> named k2 = false ->
    swath_image (mk_swath k1 nd1 lon lat n1 n2) = swath_image (mk_swath k2 nd2 lon lat n3 n4).
  Proof. intros. rewrite !swath_image_np by assumption. reflexivity. Qed.

  Lemma swath_distinct_np (a b : swath T) :
    named (s_kind a) = false -> named (s_kind b) = false -> length (concat (s_lon a)) = length (concat (s_lon b)) ->
    concat (s_lon a) <> concat (s_lon b) \/ concat (s_lat a) <> concat (s_lat b) ->
    H (swath_image a) <> H (swath_image b).
  Proof.
    intros Ha Hb Hl Hd E. apply H_inj in E. apply (swath_image_eq_np a b Ha Hb Hl) in E. destruct E, Hd; contradiction.
  Qed.

  (* the image of a numpy swath does NOT contain its shape *)
  Lemma swath_image_ignores_shape (a b : swath T) :
    named (s_kind a) = false -> named (s_kind b) = false -> concat (s_lon a) = concat (s_lon b) -> concat (s_lat a) = concat (s_lat b) ->
    swath_image a = swath_image b.
  Proof. intros Ha Hb E1 E2. rewrite !swath_image_np by assumption. rewrite E1, E2. reflexivity. Qed.

  (* ---------- cache keys *)
  Lemma key_congr (s1 t1 s2 t2 : list (tok T)) k : s1 = s2 -> t1 = t2 -> H (key_image s1 t1 k) = H (key_image s2 t2 k).
  Proof. intros -> ->. reflexivity. Qed.

  Lemma key_kwargs (s t : list (tok T)) k1 k2 : k1 <> k2 -> H (key_image s t k1) <> H (key_image s t k2).
  Proof.
    intros Hk E. apply H_inj in E. unfold key_image in E. rewrite !app_assoc in E.
    apply app_inj_tail in E. destruct E as [_ E]. injection E as E. contradiction.
  Qed.

  (* for images of equal length (two areas: 7 tokens each) the key determines source, target and kwargs *)
  Lemma key_inj (s t : list (tok T)) k s' t' k' : length s = length s' ->
    H (key_image s t k) = H (key_image s' t' k') -> s = s' /\ t = t' /\ k = k'.
  Proof.
    intros Hl E. apply H_inj in E. unfold key_image in E.
    apply app_inj_len in E; [|exact Hl]. destruct E as [-> E]. apply app_inj_tail in E.
    destruct E as [-> E]. injection E as ->. auto.
  Qed.

  Lemma key_area_distinct a b a' b' k k' :
    area_image OP a <> area_image OP a' \/ area_image OP b <> area_image OP b' \/ k <> k' ->
    H (key_image (area_image OP a) (area_image OP b) k) <> H (key_image (area_image OP a') (area_image OP b') k').
  Proof.
    intros Hd E. apply key_inj in E; [|rewrite !area_image_length; reflexivity].
    destruct E as (E1 & E2 & E3). destruct Hd as [Hd | [Hd | Hd]]; contradiction.
  Qed.

  (* stacked areas: the image is the concatenation of the members' images *)
  Lemma stack_image_app d1 d2 : stack_image OP (d1 ++ d2) = stack_image OP d1 ++ stack_image OP d2.
  Proof. unfold stack_image. rewrite map_app, concat_app. reflexivity. Qed.
End Img.
