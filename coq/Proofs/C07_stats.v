(* C07: get_average and get_fractions; the regenerated scalar kernels. *)
From Coq Require Import Reals ZArith Bool List Lia Lra.
From PR Require Import Base.Num Base.RNum Base.ZX Model.Grid Model.Bucket Gen.GenC07
     Proofs.C07_index Proofs.C07_hist.
Import ListNotations.
Open Scope Z_scope.

(* ------------------------------------------------------------------ average *)
Lemma valid_vals_nan ds : bk_valid_vals None ds = bk_vals ds.
Proof.
  unfold bk_valid_vals, bk_vals. induction ds as [|[v|] ds IH]; cbn [flat_map]; [reflexivity| |]; rewrite IH; reflexivity.
Qed.

Lemma invalid_nan d : bk_invalid None d = dat_isnan d.
Proof. reflexivity. Qed.

Lemma data_ok_nan ds : bk_data_ok None ds.
Proof. apply Forall_forall. intros [v|] _; [right; discriminate | left; reflexivity]. Qed.

Lemma members_avg_data fill k idxs data :
  bk_members k (combine idxs (bk_avg_data fill data)) = bk_avg_data fill (bk_members k (combine idxs data)).
Proof. unfold bk_avg_data. destruct (dat_isnan fill); [reflexivity | apply members_combine_map]. Qed.

Lemma sum_valid_flags ds : sumZ (bk_valid_flags ds) = Z.of_nat (length (bk_vals ds)).
Proof.
  unfold bk_valid_flags, bk_vals. induction ds as [|[v|] ds IH]; cbn [map flat_map sumZ app length dat_isnan]; [reflexivity| |]; rewrite IH; lia.
Qed.

Lemma valid_count_members size idxs data k : 0 <= k < size -> Forall (fun i => i < size) idxs ->
  bk_hist Z.add 0 size (combine idxs (bk_valid_flags data)) k
  = Z.of_nat (length (bk_vals (bk_members k (combine idxs data)))).
Proof.
  intros Hk Hi. rewrite histZ_members by (auto; apply combine_lt_size; assumption).
  unfold bk_valid_flags. rewrite members_combine_map. apply sum_valid_flags.
Qed.

(* mean of the valid (not NaN, not fill-marked) data of a cell; the fill value if there is none
   (or, with skipna=False, if the cell holds any invalid datum) *)
Section Avg.
  Context {T : Type} (OP : ops T).
  Definition bk_avg_spec (fill : dat) (skipna : bool) (ms : list dat) : option T :=
    let ms1 := bk_avg_data fill ms in
    let vs := bk_vals ms1 in
    if (Z.of_nat (length vs) =? 0) || negb (skipna || negb (existsb dat_isnan ms1)) then bk_fill_T OP fill
    else Some (div OP (ofZ OP (sumZ vs)) (ofZ OP (Z.of_nat (length vs)))).

  Lemma get_average_members size idxs data fill skipna k :
    0 <= k < size -> Forall (fun i => i < size) idxs ->
    bk_get_average OP size idxs data fill skipna k = bk_avg_spec fill skipna (bk_members k (combine idxs data)).
  Proof.
    intros Hk Hi. unfold bk_get_average, bk_avg_spec.
    rewrite (get_sum_members size idxs (bk_avg_data fill data) None skipna (Some 0) k Hk Hi (data_ok_nan _)).
    rewrite (valid_count_members size idxs (bk_avg_data fill data) k Hk Hi), members_avg_data.
    set (ms1 := bk_avg_data fill (bk_members k (combine idxs data))).
    unfold bk_sum_spec. cbn [dat_eqb Z.eqb negb andb]. rewrite valid_vals_nan.
    destruct (Z.of_nat (length (bk_vals ms1)) =? 0); cbn [orb]; [reflexivity|].
    change (bk_invalid None) with dat_isnan.
    destruct (skipna || negb (existsb dat_isnan ms1)); cbn [negb]; reflexivity.
  Qed.

  Lemma average_cell (a : area T) pts data fill skipna r c :
    1 <= width a -> 0 <= c < width a -> 0 <= r < height a ->
    bk_get_average OP (bk_size a) (bk_idxs OP a pts) data fill skipna (r * width a + c)
    = bk_avg_spec fill skipna (bk_cell_data OP a r c pts data).
  Proof.
    intros Hw Hc Hr. rewrite get_average_members.
    - rewrite members_cell_data by assumption. reflexivity.
    - apply cell_index_range; assumption.
    - apply idxs_lt_size; lia.
  Qed.
End Avg.

(* ------------------------------------------------------------------ fractions *)
Lemma count_members_combine {A} size idxs (data : list A) k : 0 <= k < size -> Forall (fun i => i < size) idxs ->
  length data = length idxs ->
  bk_count size idxs k = Z.of_nat (length (bk_members k (combine idxs data))).
Proof.
  intros Hk Hi Hl. rewrite count_members by assumption. f_equal. unfold bk_members. rewrite map_length.
  clear Hi. revert data Hl. induction idxs as [|i idxs IH]; intros [|d data] Hl; cbn in Hl; try discriminate; [reflexivity|].
  cbn [combine filter fst]. destruct (i =? k); cbn [length]; rewrite (IH data) by lia; reflexivity.
Qed.

Definition bk_cat_count (cat : Z) (ms : list dat) : Z := sumZ (bk_cat_flags cat ms).

Section Frac.
  Context {T : Type} (OP : ops T).
  Definition bk_frac_spec (cat : Z) (fill : dat) (ms : list dat) : option T :=
    if Z.of_nat (length ms) =? 0 then bk_fill_T OP fill
    else Some (div OP (ofZ OP (bk_cat_count cat ms)) (ofZ OP (Z.of_nat (length ms)))).

  Lemma get_fraction_members size idxs data cat fill k :
    0 <= k < size -> Forall (fun i => i < size) idxs -> length data = length idxs ->
    bk_get_fraction OP size idxs data cat fill k = bk_frac_spec cat fill (bk_members k (combine idxs data)).
  Proof.
    intros Hk Hi Hl. unfold bk_get_fraction, bk_frac_spec, bk_cat_count.
    rewrite (count_members_combine size idxs data k Hk Hi Hl).
    rewrite histZ_members by (auto; apply combine_lt_size; assumption).
    unfold bk_cat_flags at 1. rewrite members_combine_map. reflexivity.
  Qed.

  Lemma fraction_cell (a : area T) pts data cat fill r c :
    1 <= width a -> 0 <= c < width a -> 0 <= r < height a -> length data = length pts ->
    bk_get_fraction OP (bk_size a) (bk_idxs OP a pts) data cat fill (r * width a + c)
    = bk_frac_spec cat fill (bk_cell_data OP a r c pts data).
  Proof.
    intros Hw Hc Hr Hl. rewrite get_fraction_members.
    - rewrite members_cell_data by assumption. reflexivity.
    - apply cell_index_range; assumption.
    - apply idxs_lt_size; lia.
    - unfold bk_idxs. rewrite map_length. assumption.
  Qed.
End Frac.

(* every member's value is one of the (distinct) categories -> the category counts add up to the count *)
Lemma indicator_sum v cats : NoDup cats -> In v cats ->
  sumZ (map (fun cat => if v =? cat then 1 else 0) cats) = 1.
Proof.
  induction 1 as [|c cats Hn Hnd IH]; intros Hin; [destruct Hin|]. cbn [map sumZ].
  destruct (Z.eqb_spec v c) as [->|Hne].
  - rewrite (sumZ_map_ext _ (fun _ => 0)), sumZ_zero; [lia|].
    intros x Hx. destruct (Z.eqb_spec c x); [subst; contradiction | reflexivity].
  - destruct Hin as [->|Hin]; [congruence|]. rewrite IH by assumption. lia.
Qed.

Lemma cat_counts_total cats (ms : list dat) : NoDup cats ->
  (forall d, In d ms -> exists v, d = Some v /\ In v cats) ->
  sumZ (map (fun cat => bk_cat_count cat ms) cats) = Z.of_nat (length ms).
Proof.
  intros Hnd. induction ms as [|d ms IH]; intros Hm.
  - cbn. apply sumZ_zero.
  - unfold bk_cat_count, bk_cat_flags in *. cbn [map sumZ length].
    rewrite sumZ_map_add, IH by (intros; apply Hm; right; assumption).
    destruct (Hm d (or_introl eq_refl)) as (v & -> & Hv). cbn [dat_eqb].
    rewrite (indicator_sum v cats Hnd Hv). lia.
Qed.

Open Scope R_scope.
Definition Rsum (l : list R) : R := fold_right Rplus 0 l.

Lemma Rsum_div (zs : list Z) (n : R) : n <> 0 -> Rsum (map (fun z => IZR z / n) zs) = IZR (sumZ zs) / n.
Proof.
  intros Hn. induction zs as [|z zs IH]; cbn [map Rsum fold_right sumZ].
  - unfold Rdiv. lra.
  - fold (Rsum (map (fun z => IZR z / n) zs)). rewrite IH, plus_IZR. field. assumption.
Qed.

Lemma fractions_sum_1 (a : area R) pts data cats fill r c :
  (1 <= width a)%Z -> (0 <= c < width a)%Z -> (0 <= r < height a)%Z -> length data = length pts ->
  NoDup cats ->
  (forall d, In d (bk_cell_data RO a r c pts data) -> exists v, d = Some v /\ In v cats) ->
  bk_cell_data RO a r c pts data <> [] ->
  exists fs, map (fun cat => bk_get_fraction RO (bk_size a) (bk_idxs RO a pts) data cat fill (r * width a + c)%Z) cats
             = map Some fs /\ Rsum fs = 1.
Proof.
  intros Hw Hc Hr Hl Hnd Hcat Hne.
  set (ms := bk_cell_data RO a r c pts data) in *.
  set (n := IZR (Z.of_nat (length ms))).
  assert (Hn : (Z.of_nat (length ms) =? 0)%Z = false) by (apply Z.eqb_neq; destruct ms; [congruence | cbn [length]; lia]).
  assert (Hn0 : n <> 0) by (unfold n; apply Z.eqb_neq in Hn; intros E; apply eq_IZR in E; contradiction).
  exists (map (fun z => IZR z / n) (map (fun cat => bk_cat_count cat ms) cats)). split.
  - rewrite !map_map. apply map_ext. intros cat.
    rewrite (fraction_cell RO a pts data cat fill r c Hw Hc Hr Hl).
    change (bk_cell_data RO a r c pts data) with ms.
    unfold bk_frac_spec, dat in *. rewrite Hn. reflexivity.
  - rewrite Rsum_div by assumption. rewrite (cat_counts_total cats ms Hnd Hcat). unfold Rdiv. apply Rinv_r. exact Hn0.
Qed.

(* ------------------------------------------------------------------ regenerated scalar kernels over R *)
Lemma IZR_ltb a b : Rltb (IZR a) (IZR b) = (a <? b)%Z.
Proof.
  destruct (Z.ltb_spec a b) as [H|H].
  - apply Rltb_true. apply IZR_lt. assumption.
  - apply Rltb_false. apply IZR_le. assumption.
Qed.
Lemma IZR_eqb a b : Reqb (IZR a) (IZR b) = (a =? b)%Z.
Proof.
  unfold Reqb. destruct (Req_EM_T (IZR a) (IZR b)) as [E|E]; destruct (Z.eqb_spec a b) as [E'|E']; try reflexivity.
  - apply eq_IZR in E. contradiction.
  - subst. contradiction.
Qed.

(* _get_abs_max_from_min_max as it stands in /repo = the model's selection, on finite values *)
Lemma gen_abs_max_char a b :
  Some (gen_abs_max_from_min_max RO (IZR a) (IZR b)) = option_map IZR (bk_absmax_of (Some a) (Some b)).
Proof.
  unfold gen_abs_max_from_min_max, bk_absmax_of. cbn [ltb neg RO].
  rewrite <- opp_IZR, IZR_ltb. rewrite Z.gtb_ltb. destruct (b <? - a)%Z; reflexivity.
Qed.

(* _get_invalid_mask as it stands in /repo = the model's mask, on finite values *)
Lemma gen_invalid_char d f : gen_get_invalid_mask RO (IZR d) (IZR f) = bk_invalid (Some f) (Some d).
Proof. unfold gen_get_invalid_mask, bk_invalid. cbn [isnan eqb RO dat_isnan dat_eqb]. apply IZR_eqb. Qed.
