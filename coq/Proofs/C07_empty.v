(* C07: a cell no point is assigned to is reported as empty by every statistic. *)
From Coq Require Import ZArith Bool List Lia.
From PR Require Import Base.Num Base.ZX Model.Grid Model.Bucket
     Proofs.C07_index Proofs.C07_hist Proofs.C07_minmax Proofs.C07_stats.
Import ListNotations.
Open Scope Z_scope.

Lemma finite_data_ok fill ds : bk_finite ds -> bk_data_ok fill ds.
Proof. unfold bk_finite, bk_data_ok. rewrite !Forall_forall. intros H d Hd. right. apply H, Hd. Qed.

Section Empty.
  Context {T : Type} (OP : ops T).

  Lemma no_point_no_data {D} (a : area T) r c pts (data : list D) :
    filter (bk_in_cell OP a r c) pts = [] -> bk_cell_data OP a r c pts data = [].
  Proof.
    unfold bk_cell_data. revert data. induction pts as [|p pts IH]; intros [|d data]; cbn [combine filter map]; try reflexivity.
    cbn [fst]. destruct (bk_in_cell OP a r c p); [discriminate|]. apply IH.
  Qed.

  Lemma empty_cell (a : area T) pts data r c fill skipna ebv cat :
    1 <= width a -> 0 <= c < width a -> 0 <= r < height a ->
    bk_finite data -> length data = length pts ->
    filter (bk_in_cell OP a r c) pts = [] ->
    let k := r * width a + c in
    let size := bk_size a in
    let idxs := bk_idxs OP a pts in
    bk_count size idxs k = 0 /\
    bk_get_sum size idxs data fill skipna ebv k = (if dat_eqb ebv (Some 0) then Some 0 else ebv) /\
    bk_get_average OP size idxs data fill skipna k = bk_fill_T OP fill /\
    bk_get_min size idxs data k = None /\
    bk_get_max size idxs data k = None /\
    bk_get_abs_max size idxs data k = None /\
    bk_get_fraction OP size idxs data cat fill k = bk_fill_T OP fill.
  Proof.
    intros Hw Hc Hr Hf Hl He k size idxs. subst k size idxs.
    pose proof (no_point_no_data a r c pts data He) as Hd.
    repeat split.
    - rewrite count_cell by assumption. rewrite He. reflexivity.
    - rewrite sum_cell by (auto using finite_data_ok). rewrite Hd. unfold bk_sum_spec. cbn [existsb negb sumZ bk_valid_vals flat_map].
      rewrite Bool.orb_true_r. cbn [dat_eqb Z.eqb andb]. rewrite Bool.andb_true_r.
      destruct (dat_eqb ebv (Some 0)); reflexivity.
    - rewrite average_cell by assumption. rewrite Hd. unfold bk_avg_spec, bk_avg_data.
      destruct (dat_isnan fill); reflexivity.
    - pose proof (min_cell OP a pts data r c Hw Hc Hr Hf) as H. rewrite Hd in H. exact H.
    - pose proof (max_cell OP a pts data r c Hw Hc Hr Hf) as H. rewrite Hd in H. exact H.
    - pose proof (absmax_cell OP a pts data r c Hw Hc Hr Hf) as H. rewrite Hd in H. exact H.
    - rewrite fraction_cell by assumption. rewrite Hd. reflexivity.
  Qed.
End Empty.
