(* C08: the parameters ewa.ll2cr hands to the compiled loop, as regenerated from the CURRENT source of
   pyresample/ewa/ewa.py by tools/py2coq.py (Gen/GenC08.v), are the model's [ll2cr_params] -- over the reals (the
   instance of the theorems) and over binary64 (the instance the correspondence executes). *)
From Coq Require Import Reals ZArith Lra Lia List Bool PrimFloat.
From Flocq Require Import Zaux Raux.
From PR Require Import Base.Num Base.RNum Base.F64 Model.Grid Model.EWA Gen.GenC08 Model.C08_run Model.C08_rungen Proofs.Grid_real Proofs.C08_ll2cr.
Import ListNotations.

(* portfolio: algebraically equivalent rewrites of the source re-prove themselves *)
Ltac real_eq := first [ reflexivity | lra | field | (field_simplify; lra) | (cbn; lra) | (cbn; field) ].

Lemma gen_params_R (a : area R) : params_of_tuple (gen_ll2cr_params RO a) = ll2cr_params RO a.
Proof.
  unfold gen_ll2cr_params, ll2cr_params, params_of_tuple.
  cbn [lit RO add sub mul div neg absf ofZ].
  replace (bpow radix2 0) with 1%R by reflexivity.
  f_equal; real_eq.
Qed.

(* binary64: no lemma -- the correspondence executes the generated definition itself (Model/C08_rungen.v) and compares
   it bit for bit with the implementation, so float-level rewrites of the source (x * 0.5 for x / 2., b + a for a + b)
   raise nothing as long as the bits agree *)

(* the element loop body of _ll2cr.pyx:ll2cr_static, regenerated from the .pyx text: it IS the model's [ll2cr_pixel],
   for EVERY arithmetic instance (reals, binary64, rationals) *)
Lemma gen_body_is_pixel {T} (OP : ops T) x y fill cw ch w h ox oy :
  gen_ll2cr_body OP x y fill cw ch w h ox oy = ll2cr_pixel OP (mk_crp cw ch ox oy w h) fill (x, y).
Proof.
  unfold gen_ll2cr_body, ll2cr_pixel, in_grid_test, big30. cbn [cp_cw cp_ch cp_ox cp_oy cp_w cp_h Z.opp].
  destruct (leb OP _ x); [reflexivity|].
  repeat match goal with |- context [leb OP ?a ?b] => destruct (leb OP a b) end; reflexivity.
Qed.

(* the whole loop (Model/C08_rungen.v:ll2cr_static_src): map of the generated body + count *)
Lemma ll2cr_static_src_eq {T} (OP : ops T) p fill pts : ll2cr_static_src OP p fill pts = ll2cr_static OP p fill pts.
Proof.
  unfold ll2cr_static_src, ll2cr_static. destruct p as [cw ch ox oy w h]. cbn [cp_cw cp_ch cp_ox cp_oy cp_w cp_h].
  rewrite (map_ext _ (ll2cr_pixel OP (mk_crp cw ch ox oy w h) fill)); [reflexivity|].
  intros [x y]. apply gen_body_is_pixel.
Qed.

(* ewa.py:_mask_helper, regenerated: masks exactly the cells an input with that value would be invalid for *)
Lemma gen_mask_helper_eq {T} (OP : ops T) d fill : gen_mask_helper OP d fill = mask_helper OP d fill.
Proof. unfold gen_mask_helper, mask_helper. destruct (isnan OP fill); reflexivity. Qed.
Lemma mask_helper_classify {T} (OP : ops T) d fill :
  (isnan OP fill = true -> eqb OP d fill = false) -> (isnan OP fill = false -> isnan OP d = false) ->
  mask_helper OP d fill = match classify OP fill d with None => true | Some _ => false end.
Proof.
  unfold mask_helper, classify. intros H1 H2. destruct (isnan OP fill).
  - rewrite (H1 eq_refl). cbn. destruct (isnan OP d); reflexivity.
  - rewrite (H2 eq_refl). destruct (eqb OP d fill); reflexivity.
Qed.

(* ll2cr with the generated parameters *)
Definition ll2cr_src {T} (OP : ops T) (a : area T) (fill : T) (pts : list (T * T)) : Z * list (T * T) :=
  ll2cr_static_src OP (params_of_tuple (gen_ll2cr_params OP a)) fill pts.

Lemma ll2cr_src_R a fill pts : ll2cr_src RO a fill pts = ll2cr RO a fill pts.
Proof. unfold ll2cr_src, ll2cr. rewrite ll2cr_static_src_eq, gen_params_R. reflexivity. Qed.

Open Scope R_scope.
Theorem ll2cr_src_is_area_map (proj : R * R -> R * R) a fill lonlats :
  wf_area a ->
  snd (ll2cr_src RO a fill (map proj lonlats)) = map (fun ll => area_cr a fill (proj ll)) lonlats.
Proof. intros H. rewrite ll2cr_src_R. exact (ll2cr_is_area_map proj a fill lonlats H). Qed.
Theorem ll2cr_src_count (proj : R * R -> R * R) a fill lonlats :
  wf_area a ->
  fst (ll2cr_src RO a fill (map proj lonlats)) = Z.of_nat (length (filter (fun ll => counted_b a (proj ll)) lonlats)).
Proof. intros H. rewrite ll2cr_src_R. exact (points_in_grid_spec proj a fill lonlats H). Qed.
