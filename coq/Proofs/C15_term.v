(* C15: termination of the Scheduler state machine: a measure that strictly decreases on every
   effective step, absence of deadlock, and completion of every fair schedule. *)
From Coq Require Import ZArith List Lia Bool Arith.
From PR Require Import Model.Sched Proofs.C15_inv.
Import ListNotations.
Open Scope Z_scope.

(* ---------- the measure ---------- *)
Lemma rank_nonneg p : 0 <= rank p.
Proof. destruct p; cbn; lia. Qed.

Lemma rank_zero p : rank p = 0 -> p = PDone.
Proof. destruct p; cbn; intros H; try lia; reflexivity. Qed.

Lemma sumrank_nonneg k f : 0 <= sumrank k f.
Proof. induction k as [|k IH]; cbn; [lia|]. pose proof (rank_nonneg (f k)). lia. Qed.

Lemma sumrank_upd_ge k f w p : (k <= w)%nat -> sumrank k (upd f w p) = sumrank k f.
Proof.
  induction k as [|k IH]; cbn; intros H; [reflexivity|].
  rewrite IH by lia. rewrite upd_other by lia. reflexivity.
Qed.

Lemma sumrank_upd_lt k f w p : (w < k)%nat -> sumrank k (upd f w p) = sumrank k f - rank (f w) + rank p.
Proof.
  induction k as [|k IH]; cbn; intros H; [lia|].
  destruct (Nat.eq_dec w k) as [->|Hne].
  - rewrite sumrank_upd_ge by lia. rewrite upd_same. lia.
  - rewrite IH by lia. rewrite upd_other by lia. lia.
Qed.

Lemma sumrank_zero k f : sumrank k f = 0 -> forall w, (w < k)%nat -> f w = PDone.
Proof.
  induction k as [|k IH]; cbn; intros H w Hw; [lia|].
  pose proof (sumrank_nonneg k f). pose proof (rank_nonneg (f k)).
  destruct (Nat.eq_dec w k) as [->|Hne]; [apply rank_zero; lia|]. apply IH; lia.
Qed.

Lemma sumrank_const k : sumrank k (fun _ => PIdle) = 5 * Z.of_nat k.
Proof. induction k as [|k IH]; [reflexivity|]. cbn [sumrank]. rewrite IH. cbn [rank]. lia. Qed.

Lemma measure_init c nw : wf c -> measure nw (init c) = 7 * n c + 5 * Z.of_nat nw.
Proof.
  intros Hwf. unfold measure, init; cbn. rewrite sumrank_const.
  rewrite (wrap_small c) by (auto; destruct Hwf as (_ & ? & _); lia). reflexivity.
Qed.

Lemma inv_ndata_nonneg c s : Inv c s -> 0 <= ndata s.
Proof.
  intros (e & _ & _ & Hl & _ & Hm). destruct (lock s) as [h|]; [|unfold quiet in Hm; lia].
  destruct (pcs s h); unfold quiet in Hm; try contradiction; lia.
Qed.

Lemma measure_nonneg c nw s : Inv c s -> 0 <= measure nw s.
Proof. intros H. pose proof (inv_ndata_nonneg c s H). pose proof (sumrank_nonneg nw (pcs s)). unfold measure. lia. Qed.

(* ---------- steps ---------- *)
Lemma step_blocked c s w : enabled s w = false -> step c s w = s.
Proof.
  unfold enabled, step. destruct (pcs s w); try discriminate; [|reflexivity].
  destruct (lock s); [reflexivity|discriminate].
Qed.

(* every effective step strictly decreases the measure *)
Lemma measure_step c nw s w : wf c -> Inv c s -> (w < nw)%nat -> enabled s w = true ->
  measure nw (step c s w) + 1 <= measure nw s.
Proof.
  intros Hwf (e & Ht & He & Hl & Hd & Hm) Hw Hen. unfold enabled in Hen. unfold step, set_pc, measure.
  destruct (pcs s w) eqn:Epc.
  - destruct (lock s); [discriminate|]. cbn -[Z.mul]. rewrite sumrank_upd_lt by exact Hw. rewrite Epc. cbn -[Z.mul]. lia.
  - cbn -[Z.mul]. rewrite sumrank_upd_lt by exact Hw. rewrite Epc. cbn -[Z.mul]. lia.
  - cbn -[Z.mul]. rewrite sumrank_upd_lt by exact Hw. rewrite Epc. cbn -[Z.mul]. lia.
  - assert (lock s = Some w) as El by (apply Hl; rewrite Epc; reflexivity).
    rewrite El, Epc in Hm. destruct Hm as (-> & -> & Hq). pose proof (chunk_pos c (ndata s)) as Hc.
    destruct (ndata s =? 0) eqn:E0.
    + cbn -[Z.mul]. rewrite sumrank_upd_lt by exact Hw. rewrite Epc. cbn -[Z.mul]. lia.
    + apply Z.eqb_neq in E0. unfold quiet in Hq.
      destruct (ndata s <? chunk_of c (ndata s)) eqn:E1.
      * cbn -[Z.mul]. rewrite sumrank_upd_lt by exact Hw. rewrite Epc. cbn -[Z.mul].
        rewrite (wrap_small c 0) by (auto; lia). lia.
      * apply Z.ltb_ge in E1. cbn -[Z.mul]. rewrite sumrank_upd_lt by exact Hw. rewrite Epc. cbn -[Z.mul].
        rewrite (wrap_small c) by (auto; lia). lia.
  - cbn -[Z.mul]. rewrite sumrank_upd_lt by exact Hw. rewrite Epc. cbn -[Z.mul]. lia.
  - cbn -[Z.mul]. rewrite sumrank_upd_lt by exact Hw. rewrite Epc. cbn -[Z.mul]. lia.
  - cbn -[Z.mul]. rewrite sumrank_upd_lt by exact Hw. rewrite Epc. cbn -[Z.mul]. lia.
  - discriminate.
Qed.

(* along any schedule: (number of effective steps) + (final measure) <= (initial measure) *)
Lemma effective_bound_from c nw sched : forall s, wf c -> Inv c s -> workers_below nw sched ->
  Z.of_nat (effective c s sched) + measure nw (run_from c s sched) <= measure nw s.
Proof.
  unfold run_from. induction sched as [|w sched IH]; cbn [effective fold_left]; intros s Hwf Hs Hb; [cbn; lia|].
  inversion Hb as [|? ? Hw Hr]; subst.
  specialize (IH (step c s w) Hwf (inv_step c s w Hwf Hs) Hr).
  destruct (enabled s w) eqn:En.
  - pose proof (measure_step c nw s w Hwf Hs Hw En). lia.
  - rewrite (step_blocked c s w En) in *. cbn. lia.
Qed.

Lemma measure_mono c nw sched s : wf c -> Inv c s -> workers_below nw sched ->
  measure nw (run_from c s sched) <= measure nw s.
Proof. intros Hwf Hs Hb. pose proof (effective_bound_from c nw sched s Hwf Hs Hb). lia. Qed.

Lemma effective_bound c nw sched : wf c -> workers_below nw sched ->
  Z.of_nat (effective c (init c) sched) <= 7 * n c + 5 * Z.of_nat nw.
Proof.
  intros Hwf Hb. pose proof (effective_bound_from c nw sched (init c) Hwf (inv_init c Hwf) Hb) as H.
  rewrite measure_init in H by exact Hwf.
  pose proof (measure_nonneg c nw (run c sched) (inv_run c sched Hwf)). unfold run in *. lia.
Qed.

(* ---------- no deadlock ---------- *)
(* states reachable by the nw workers: invariant + the other worker slots never moved *)
Definition Reach (c : cfg) (nw : nat) (s : state) : Prop :=
  Inv c s /\ forall w, (nw <= w)%nat -> pcs s w = PIdle.

Lemma reach_init c nw : wf c -> Reach c nw (init c).
Proof. intros Hwf. split; [apply inv_init; exact Hwf|reflexivity]. Qed.

Lemma reach_run_from c nw sched s : wf c -> Reach c nw s -> workers_below nw sched -> Reach c nw (run_from c s sched).
Proof.
  intros Hwf (Hi & Hu) Hb. split; [apply inv_run_from; assumption|].
  intros w Hw. rewrite (untouched_idle c nw sched s Hb w Hw). apply Hu; exact Hw.
Qed.

Lemma progress c nw s : Reach c nw s ->
  (exists w, (w < nw)%nat /\ pcs s w <> PDone) -> exists w, (w < nw)%nat /\ enabled s w = true.
Proof.
  intros ((e & _ & _ & Hl & _ & Hm) & Hu) (w & Hw & Hnd).
  destruct (lock s) as [h|] eqn:El.
  - exists h. destruct (Nat.lt_ge_cases h nw) as [Hlt|Hge].
    + split; [exact Hlt|]. unfold enabled. rewrite El. destruct (pcs s h); try reflexivity; contradiction.
    + rewrite (Hu h Hge) in Hm. contradiction.
  - exists w. split; [exact Hw|]. unfold enabled. rewrite El.
    destruct (pcs s w) eqn:Epc; try reflexivity; try contradiction;
      (assert (None = Some w) as Habs by (apply Hl; rewrite Epc; reflexivity); discriminate Habs).
Qed.

Lemma all_done_dec nw s : all_done nw s \/ exists w, (w < nw)%nat /\ pcs s w <> PDone.
Proof.
  unfold all_done. induction nw as [|k IH]; [left; intros; lia|].
  destruct IH as [IH|(w & Hw & Hn)]; [|right; exists w; split; [lia|exact Hn]].
  destruct (pcs s k) eqn:E; try (right; exists k; split; [lia|rewrite E; discriminate]).
  left. intros w Hw. destruct (Nat.eq_dec w k) as [->|]; [exact E|apply IH; lia].
Qed.

Lemma all_done_stable c nw sched : forall s, all_done nw s -> workers_below nw sched -> run_from c s sched = s.
Proof.
  unfold run_from. induction sched as [|w sched IH]; cbn; intros s Hd Hb; [reflexivity|].
  inversion Hb as [|? ? Hw Hr]; subst.
  assert (step c s w = s) as -> by (unfold step; rewrite (Hd w Hw); reflexivity). apply IH; assumption.
Qed.

(* ---------- fair schedules complete ---------- *)
(* a segment that gives a turn to a worker that is enabled at its beginning contains an effective step *)
Lemma seg_decreases c nw seg : forall s, wf c -> Inv c s -> workers_below nw seg ->
  forall w, (w < nw)%nat -> enabled s w = true -> In w seg ->
  measure nw (run_from c s seg) + 1 <= measure nw s.
Proof.
  induction seg as [|v seg IH]; intros s Hwf Hs Hb w Hw Hen Hin; [destruct Hin|].
  inversion Hb as [|? ? Hv Hr]; subst. change (run_from c s (v :: seg)) with (run_from c (step c s v) seg).
  destruct (enabled s v) eqn:En.
  - pose proof (measure_step c nw s v Hwf Hs Hv En).
    pose proof (measure_mono c nw seg (step c s v) Hwf (inv_step c s v Hwf Hs) Hr). lia.
  - rewrite (step_blocked c s v En).
    destruct Hin as [->|Hin]; [congruence|]. exact (IH s Hwf Hs Hr w Hw Hen Hin).
Qed.

Lemma run_from_app c s a b : run_from c s (a ++ b) = run_from c (run_from c s a) b.
Proof. unfold run_from. apply fold_left_app. Qed.

Lemma rounds_decrease c nw segs : forall s, wf c -> Reach c nw s ->
  Forall (workers_below nw) segs -> Forall (covers nw) segs ->
  all_done nw (run_from c s (concat segs)) \/
  measure nw (run_from c s (concat segs)) + Z.of_nat (length segs) <= measure nw s.
Proof.
  induction segs as [|seg segs IH]; intros s Hwf Hr Hb Hc; [right; cbn; lia|].
  inversion Hb as [|? ? Hb1 Hbr]; inversion Hc as [|? ? Hc1 Hcr]; subst.
  cbn [concat]. rewrite run_from_app.
  destruct (all_done_dec nw s) as [Hd|Hnd].
  - left. rewrite (all_done_stable c nw seg s Hd Hb1).
    assert (workers_below nw (concat segs)) as Hbc.
    { clear -Hbr. induction Hbr as [|x l Hx Hl IHl]; cbn; [constructor|]. apply Forall_app. split; assumption. }
    rewrite (all_done_stable c nw _ s Hd Hbc). exact Hd.
  - destruct (progress c nw s Hr Hnd) as (w & Hw & Hen).
    pose proof (seg_decreases c nw seg s Hwf (proj1 Hr) Hb1 w Hw Hen (Hc1 w Hw)) as Hdec.
    destruct (IH (run_from c s seg) Hwf (reach_run_from c nw seg s Hwf Hr Hb1) Hbr Hcr) as [Hd|Hm];
      [left; exact Hd|right]. cbn [length]. lia.
Qed.

Lemma workers_below_concat nw segs : workers_below nw (concat segs) -> Forall (workers_below nw) segs.
Proof.
  induction segs as [|seg segs IH]; cbn; intros H; [constructor|].
  apply Forall_app in H. destruct H as [H1 H2]. constructor; [exact H1|apply IH; exact H2].
Qed.

(* after 7 n + 5 nw fair rounds every worker has returned, whatever the interleaving inside the rounds *)
Lemma terminates_fair c nw sched : wf c -> workers_below nw sched ->
  fair_rounds nw (Z.to_nat (7 * n c + 5 * Z.of_nat nw)) sched -> all_done nw (run c sched).
Proof.
  intros Hwf Hb (segs & -> & Hlen & Hcov).
  destruct (rounds_decrease c nw segs (init c) Hwf (reach_init c nw Hwf) (workers_below_concat nw segs Hb) Hcov)
    as [Hd|Hm]; [exact Hd|].
  rewrite measure_init in Hm by exact Hwf.
  pose proof (inv_run c (concat segs) Hwf) as Hi. unfold run in *.
  pose proof (inv_ndata_nonneg c _ Hi) as Hn0.
  pose proof (sumrank_nonneg nw (pcs (run_from c (init c) (concat segs)))) as Hs0.
  destruct Hwf as (_ & Hn & _).
  unfold measure in Hm.
  assert (sumrank nw (pcs (run_from c (init c) (concat segs))) = 0) as Hz by lia.
  intros w Hw. apply (sumrank_zero nw _ Hz w Hw).
Qed.

(* a state in which none of the nw workers can move is a state in which all of them have returned *)
Lemma stuck_is_done c nw sched : wf c -> workers_below nw sched ->
  (forall w, (w < nw)%nat -> enabled (run c sched) w = false) -> all_done nw (run c sched).
Proof.
  intros Hwf Hb Hst. destruct (all_done_dec nw (run c sched)) as [Hd|Hnd]; [exact Hd|].
  destruct (progress c nw (run c sched) (reach_run_from c nw sched (init c) Hwf (reach_init c nw Hwf) Hb) Hnd)
    as (w & Hw & Hen). rewrite (Hst w Hw) in Hen. discriminate.
Qed.
