(* C02: histories of calls sharing one neighbour info.  The implementation's get_sample_from_neighbour_info is a
   step that takes the caller's neighbour-info arrays (state) and a dataset and returns a result; the arrays stay
   with the caller and are used again.  If every step leaves the state as it found it (checked on the implementation
   on every run: all five array arguments are compared with snapshots after each call) and returns the model's
   get_sample of the state it was given, then EVERY call of ANY history returns what a fresh resample_nearest of that
   dataset returns (induction over the history). *)
From Coq Require Import ZArith Bool List.
From PR Require Import Base.Num Model.KDTree.
Import ListNotations.
Local Open Scope nat_scope.

Section History.
  Context {S A B : Type}.
  Variable f : S -> A -> B.                       (* the specified result for a state and a dataset *)
  Variable step : S -> A -> S * B.                (* what a call does: new state, result *)

  Fixpoint run_history (st : S) (ds : list A) : list B :=
    match ds with
    | [] => []
    | d :: r => let '(st', b) := step st d in b :: run_history st' r
    end.

  Hypothesis Hpure : forall st d, fst (step st d) = st.
  Hypothesis Hres : forall st d, snd (step st d) = f st d.

  Lemma history_independent st ds : run_history st ds = map (f st) ds.
  Proof.
    revert st; induction ds as [|d r IH]; intros st; [reflexivity|].
    cbn [run_history map]. specialize (Hpure st d). specialize (Hres st d).
    destruct (step st d) as [st' b]. cbn [fst snd] in *. subst. f_equal. apply IH.
  Qed.
End History.

(* a step that zeroes the "no neighbour" entries of the caller's index array (what an in-place edit does) is NOT pure,
   and the second use differs: the hypothesis is needed *)
Definition dirty_step (st : list nat) (n : nat) : list nat * list nat :=
  (map (fun i => if Nat.eqb i n then 0 else i) st, map (fun i => if Nat.eqb i n then 99 else i) st).
Lemma dirty_history_differs :
  run_history dirty_step [0; 2; 1] [2; 2] = [[0; 99; 1]; [0; 0; 1]] /\
  map (fun n => snd (dirty_step [0; 2; 1] n)) [2; 2] = [[0; 99; 1]; [0; 99; 1]].
Proof. split; reflexivity. Qed.

(* instance: datasets resampled one after the other with the neighbour info computed once *)
Section NNHistory.
  Context {V D : Type}.
  Variable veqb : V -> V -> bool.
  Variables vzero vone : V.
  Variable knn : list nat -> nat -> nat.
  Variables (tshape : list Z) (vin vout : list bool).
  (* dataset = (dtype, multi, k, rows, mrows, fill, sentinel) *)
  Definition dataset : Type := D * bool * nat * list (list V) * option (list (list bool)) * option V * V.
  Definition info_t : Type := list bool * list bool * list nat.
  Definition sample_of (st : info_t) (d : dataset) : sample (V := V) (D := D) :=
    let '(dtype, multi, k, rows, mrows, fill, sentinel) := d in
    let '(vii, voi, idx) := st in
    get_sample veqb vzero vone tshape dtype multi k rows mrows vii voi idx fill sentinel.
  Definition fresh (d : dataset) : sample (V := V) (D := D) :=
    let '(dtype, multi, k, rows, mrows, fill, sentinel) := d in
    resample_nn veqb vzero vone knn tshape dtype multi k rows mrows vin vout fill sentinel.

  Lemma sample_of_info_is_fresh d : sample_of (neighbour_info knn vin vout) d = fresh d.
  Proof.
    destruct d as [[[[[[dtype multi] k] rows] mrows] fill] sentinel]. unfold sample_of, fresh, resample_nn.
    destruct (neighbour_info knn vin vout) as [[vii voi] idx]. reflexivity.
  Qed.

  Lemma nn_history (step : info_t -> dataset -> info_t * sample) :
    (forall st d, fst (step st d) = st) -> (forall st d, snd (step st d) = sample_of st d) ->
    forall ds, run_history step (neighbour_info knn vin vout) ds = map fresh ds.
  Proof.
    intros Hp Hr ds. rewrite (history_independent sample_of step Hp Hr).
    apply map_ext. intros d. apply sample_of_info_is_fresh.
  Qed.
End NNHistory.
