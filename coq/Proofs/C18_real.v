(* C18 over the reals: every index function places a projected point in the cell whose extent contains it,
   or nowhere.  Areas of any orientation (xmin <> xmax, ymin <> ymax), ll2cr included (ch = -pixel_size_y). *)
From Coq Require Import Reals ZArith Lra Lia Bool.
From Flocq Require Import Zaux Raux Generic_fmt Round_NE.
From PR Require Import Base.Num Base.RNum Model.Grid Model.CellIndex Proofs.Grid_real Proofs.C18_axis.
Open Scope R_scope.

(* ---------------------------------------------------------------- the area's own definition of its cells *)
(* closed / open interval with end points in either order (pixel sizes may be negative) *)
Definition between (p q x : R) : Prop := (p <= x <= q) \/ (q <= x <= p).
Definition sbetween (p q x : R) : Prop := (p < x < q) \/ (q < x < p).

(* projection coordinate of the column border t (t = 0 is the left edge of column 0, t = width the right edge
   of the last column; fractional t lies inside a cell), resp. of the row border t counted from the top *)
Definition cell_x (a : area R) (t : R) : R := xmin a + t * dxR a.
Definition cell_y (a : area R) (t : R) : R := ymax a - t * dyR a.

Definition in_cell_closed (a : area R) (r c : Z) (x y : R) : Prop :=
  between (cell_x a (IZR c)) (cell_x a (IZR c + 1)) x /\ between (cell_y a (IZR r)) (cell_y a (IZR r + 1)) y.
Definition in_cell_open (a : area R) (r c : Z) (x y : R) : Prop :=
  sbetween (cell_x a (IZR c)) (cell_x a (IZR c + 1)) x /\ sbetween (cell_y a (IZR r)) (cell_y a (IZR r + 1)) y.
Definition in_extent (a : area R) (x y : R) : Prop :=
  between (xmin a) (xmax a) x /\ between (ymin a) (ymax a) y.
(* the extent widened by e pixels on every side *)
Definition in_extent_widened (a : area R) (e : R) (x y : R) : Prop :=
  between (cell_x a (- e)) (cell_x a (IZR (width a) + e)) x /\ between (cell_y a (- e)) (cell_y a (IZR (height a) + e)) y.
Definition valid_cell (a : area R) (r c : Z) : Prop := (0 <= r < height a)%Z /\ (0 <= c < width a)%Z.
(* not on a border line between cells (a set of measure zero on which the modules' conventions differ) *)
Definition off_border (a : area R) (x y : R) : Prop :=
  (forall k : Z, x <> cell_x a (IZR k)) /\ (forall k : Z, y <> cell_y a (IZR k)).
Definition fits_int32 (a : area R) : Prop := (width a <= 2 ^ 31)%Z /\ (height a <= 2 ^ 31)%Z.

(* fractional position in pixels from the left / top edge *)
Definition ufrac (a : area R) (x : R) : R := (x - xmin a) / dxR a.
Definition vfrac (a : area R) (y : R) : R := (ymax a - y) / dyR a.

Lemma between_scaled x0 d p q x : d <> 0 -> p <= q ->
  (between (x0 + p * d) (x0 + q * d) x <-> p <= (x - x0) / d <= q).
Proof.
  intros Hd Hpq. set (u := (x - x0) / d). assert (E : x = x0 + u * d) by (unfold u; field; exact Hd).
  rewrite E. clearbody u. clear E. unfold between.
  destruct (Rlt_dec 0 d) as [P | N].
  - split; [intros [H | H] | intros H; left]; nra.
  - assert (Dn : d < 0) by lra. split; [intros [H | H] | intros H; right]; nra.
Qed.

Lemma sbetween_scaled x0 d p q x : d <> 0 -> p <= q ->
  (sbetween (x0 + p * d) (x0 + q * d) x <-> p < (x - x0) / d < q).
Proof.
  intros Hd Hpq. set (u := (x - x0) / d). assert (E : x = x0 + u * d) by (unfold u; field; exact Hd).
  rewrite E. clearbody u. clear E. unfold sbetween.
  destruct (Rlt_dec 0 d) as [P | N].
  - split; [intros [H | H] | intros H; left]; nra.
  - assert (Dn : d < 0) by lra. split; [intros [H | H] | intros H; right]; nra.
Qed.

Lemma between_x a p q x : wf_area a -> p <= q -> (between (cell_x a p) (cell_x a q) x <-> p <= ufrac a x <= q).
Proof. intros H Hpq. apply between_scaled; [apply dx_nonzero; exact H | exact Hpq]. Qed.
Lemma sbetween_x a p q x : wf_area a -> p <= q -> (sbetween (cell_x a p) (cell_x a q) x <-> p < ufrac a x < q).
Proof. intros H Hpq. apply sbetween_scaled; [apply dx_nonzero; exact H | exact Hpq]. Qed.

Lemma vfrac_alt a y : wf_area a -> vfrac a y = (y - ymax a) / (- dyR a).
Proof. intros H. pose proof (dy_nonzero a H). unfold vfrac. field. exact H0. Qed.
Lemma cell_y_alt a t : cell_y a t = ymax a + t * (- dyR a).
Proof. unfold cell_y. ring. Qed.

Lemma between_y a p q y : wf_area a -> p <= q -> (between (cell_y a p) (cell_y a q) y <-> p <= vfrac a y <= q).
Proof.
  intros H Hpq. rewrite !cell_y_alt, vfrac_alt by exact H. apply between_scaled; [| exact Hpq].
  pose proof (dy_nonzero a H). lra.
Qed.
Lemma sbetween_y a p q y : wf_area a -> p <= q -> (sbetween (cell_y a p) (cell_y a q) y <-> p < vfrac a y < q).
Proof.
  intros H Hpq. rewrite !cell_y_alt, vfrac_alt by exact H. apply sbetween_scaled; [| exact Hpq].
  pose proof (dy_nonzero a H). lra.
Qed.

Lemma cell_x_0 a : cell_x a 0 = xmin a. Proof. unfold cell_x. ring. Qed.
Lemma cell_y_0 a : cell_y a 0 = ymax a. Proof. unfold cell_y. ring. Qed.
Lemma cell_x_w a : wf_area a -> cell_x a (IZR (width a)) = xmax a.
Proof. intros (Hw & _). pose proof (IZR_pos_of _ Hw). unfold cell_x, dxR. field. lra. Qed.
Lemma cell_y_h a : wf_area a -> cell_y a (IZR (height a)) = ymin a.
Proof. intros (_ & Hh & _). pose proof (IZR_pos_of _ Hh). unfold cell_y, dyR. field. lra. Qed.

Lemma between_sym p q x : between p q x <-> between q p x.
Proof. unfold between. tauto. Qed.

Lemma in_extent_frac a x y : wf_area a ->
  (in_extent a x y <-> 0 <= ufrac a x <= IZR (width a) /\ 0 <= vfrac a y <= IZR (height a)).
Proof.
  intros H. unfold in_extent. destruct H as (Hw & Hh & Hr). assert (H : wf_area a) by (repeat split; tauto).
  pose proof (IZR_pos_of _ Hw). pose proof (IZR_pos_of _ Hh).
  rewrite <- (cell_x_0 a), <- (cell_x_w a H), (between_sym (ymin a)), <- (cell_y_0 a), <- (cell_y_h a H).
  rewrite between_x, between_y by (auto; lra). tauto.
Qed.

Lemma in_cell_closed_frac a r c x y : wf_area a ->
  (in_cell_closed a r c x y <-> IZR c <= ufrac a x <= IZR c + 1 /\ IZR r <= vfrac a y <= IZR r + 1).
Proof. intros H. unfold in_cell_closed. rewrite between_x, between_y by (auto; lra). tauto. Qed.
Lemma in_cell_open_frac a r c x y : wf_area a ->
  (in_cell_open a r c x y <-> IZR c < ufrac a x < IZR c + 1 /\ IZR r < vfrac a y < IZR r + 1).
Proof. intros H. unfold in_cell_open. rewrite sbetween_x, sbetween_y by (auto; lra). tauto. Qed.
Lemma in_extent_widened_frac a e x y : wf_area a -> 0 <= e ->
  (in_extent_widened a e x y <-> - e <= ufrac a x <= IZR (width a) + e /\ - e <= vfrac a y <= IZR (height a) + e).
Proof.
  intros H He. destruct H as (Hw & Hh & Hr). assert (H : wf_area a) by (repeat split; tauto).
  pose proof (IZR_pos_of _ Hw). pose proof (IZR_pos_of _ Hh).
  unfold in_extent_widened. rewrite between_x, between_y by (auto; lra). tauto.
Qed.

Lemma off_border_frac a x y : wf_area a -> off_border a x y ->
  (forall k : Z, ufrac a x <> IZR k) /\ (forall k : Z, vfrac a y <> IZR k).
Proof.
  intros H [Hx Hy]. pose proof (dx_nonzero a H) as Dx. pose proof (dy_nonzero a H) as Dy. split; intros k E.
  - apply (Hx k). unfold cell_x. rewrite <- E. unfold ufrac. field. exact Dx.
  - apply (Hy k). unfold cell_y. rewrite <- E. unfold vfrac. field. exact Dy.
Qed.

(* ---------------------------------------------------------------- what each module computes, as a function of ufrac / vfrac *)
Lemma grid_col_expr a x : wf_area a -> add RO (pixel_offset_x RO a) (div RO x (pixel_size_x RO a)) = ufrac a x.
Proof. intros H. pose proof (dx_nonzero a H). unfold pixel_offset_x. rewrite psx_eq. cbn. unfold ufrac. field. assumption. Qed.
Lemma grid_row_expr a y : wf_area a -> sub RO (pixel_offset_y RO a) (div RO y (pixel_size_y RO a)) = vfrac a y.
Proof. intros H. pose proof (dy_nonzero a H). unfold pixel_offset_y. rewrite psy_eq. cbn. unfold vfrac. field. assumption. Qed.
Lemma gf_col_expr a x : wf_area a -> add RO (div RO x (pixel_size_x RO a)) (pixel_offset_x RO a) = ufrac a x.
Proof. intros H. pose proof (dx_nonzero a H). unfold pixel_offset_x. rewrite psx_eq. cbn. unfold ufrac. field. assumption. Qed.
Lemma bk_col_expr a x : div RO (sub RO x (xmin a)) (pixel_size_x RO a) = ufrac a x.
Proof. reflexivity. Qed.
Lemma bk_row_expr a y : div RO (sub RO (ymax a) y) (pixel_size_y RO a) = vfrac a y.
Proof. reflexivity. Qed.
Lemma area_col_expr a x : wf_area a -> arr_of_proj_x RO a x = ufrac a x - / 2.
Proof. intros H. rewrite arr_of_proj_x_canonical by exact H. reflexivity. Qed.
Lemma area_row_expr a y : wf_area a -> arr_of_proj_y RO a y = vfrac a y - / 2.
Proof. intros H. rewrite arr_of_proj_y_canonical by exact H. reflexivity. Qed.

Lemma grid_cell_R a x y : wf_area a ->
  grid_cell RO a x y = cell_of a (wrap_int 32 (Zfloor (vfrac a y))) (wrap_int 32 (Zfloor (ufrac a x))).
Proof.
  intros H. unfold grid_cell, grid_cell_with, grid_row_with, grid_col_with.
  rewrite !to_int_R, grid_col_expr, grid_row_expr by exact H. reflexivity.
Qed.
Lemma gf_cell_R a x y : wf_area a ->
  gf_cell RO a x y = cell_of a (wrap_int 32 (Zfloor (vfrac a y))) (wrap_int 32 (Zfloor (ufrac a x))).
Proof.
  intros H. unfold gf_cell, gf_cell_with, gf_row_with, gf_col_with.
  rewrite !to_int_R, gf_col_expr, grid_row_expr by exact H. reflexivity.
Qed.
Lemma bk_cell_R a x y :
  bk_cell RO a x y = cell_of a (wrap_int 64 (Zfloor (vfrac a y))) (wrap_int 64 (Zfloor (ufrac a x))).
Proof. reflexivity. Qed.

(* ---------------------------------------------------------------- the floor recipes *)
Section FloorCell.
  Variable bits : Z.
  Hypothesis Hbits : (1 <= bits)%Z.
  Let fcell (a : area R) (x y : R) := cell_of a (wrap_int bits (Zfloor (vfrac a y))) (wrap_int bits (Zfloor (ufrac a x))).

  Lemma cell_of_some (a : area R) r c r' c' : cell_of a r c = Some (r', c') -> r' = r /\ c' = c /\ (0 <= r < height a)%Z /\ (0 <= c < width a)%Z.
  Proof.
    unfold cell_of. destruct (in_range (height a) r) eqn:Er; destruct (in_range (width a) c) eqn:Ec; cbn; try discriminate.
    intros E. inversion E; subst. apply in_range_true in Er. apply in_range_true in Ec. tauto.
  Qed.

  Lemma fcell_sound a x y r c : wf_area a -> fcell a x y = Some (r, c) -> valid_cell a r c /\ in_cell_closed a r c x y.
  Proof.
    intros H E. apply cell_of_some in E. destruct E as (Er & Ec & Hr & Hc). subst.
    split; [split; assumption |]. apply in_cell_closed_frac; [exact H |].
    pose proof (floor_axis_sound bits (ufrac a x) _ Hbits eq_refl (proj1 Hc)).
    pose proof (floor_axis_sound bits (vfrac a y) _ Hbits eq_refl (proj1 Hr)). lra.
  Qed.

  Lemma fcell_complete a x y r c : wf_area a -> (width a <= 2 ^ (bits - 1))%Z -> (height a <= 2 ^ (bits - 1))%Z ->
    valid_cell a r c -> in_cell_open a r c x y -> fcell a x y = Some (r, c).
  Proof.
    intros H Hw Hh [Hr Hc] Hin. apply in_cell_open_frac in Hin; [| exact H]. unfold fcell.
    rewrite (floor_axis_complete bits (ufrac a x) c (width a)) by (auto; lra).
    rewrite (floor_axis_complete bits (vfrac a y) r (height a)) by (auto; lra).
    unfold cell_of. replace (in_range (height a) r) with true by (symmetry; apply in_range_true; lia).
    replace (in_range (width a) c) with true by (symmetry; apply in_range_true; lia). reflexivity.
  Qed.

  Lemma fcell_outside a x y : wf_area a -> ~ in_extent a x y -> fcell a x y = None.
  Proof.
    intros H Hout. rewrite in_extent_frac in Hout by exact H. unfold fcell, cell_of.
    destruct (Rlt_dec (vfrac a y) 0) as [A | A].
    { rewrite (floor_axis_outside bits (vfrac a y) (height a)) by auto. reflexivity. }
    destruct (Rlt_dec (IZR (height a)) (vfrac a y)) as [B | B].
    { rewrite (floor_axis_outside bits (vfrac a y) (height a)) by (auto; right; lra). reflexivity. }
    destruct (Rlt_dec (ufrac a x) 0) as [C | C].
    { rewrite (floor_axis_outside bits (ufrac a x) (width a)) by auto. rewrite andb_false_r. reflexivity. }
    destruct (Rlt_dec (IZR (width a)) (ufrac a x)) as [D | D].
    { rewrite (floor_axis_outside bits (ufrac a x) (width a)) by (auto; right; lra). rewrite andb_false_r. reflexivity. }
    exfalso. apply Hout. lra.
  Qed.
End FloorCell.

Lemma pow31 : (2 ^ (32 - 1) = 2 ^ 31)%Z. Proof. reflexivity. Qed.
Lemma fits_32_64 a : fits_int32 a -> (width a <= 2 ^ (64 - 1))%Z /\ (height a <= 2 ^ (64 - 1))%Z.
Proof. intros [H1 H2]. assert (2 ^ 31 <= 2 ^ (64 - 1))%Z by (apply Z.pow_le_mono_r; lia). lia. Qed.

(* grid.get_linesample + get_image_from_linesample *)
Lemma grid_sound a x y r c : wf_area a -> grid_cell RO a x y = Some (r, c) -> valid_cell a r c /\ in_cell_closed a r c x y.
Proof. intros H. rewrite grid_cell_R by exact H. apply fcell_sound; [lia | exact H]. Qed.
Lemma grid_complete a x y r c : wf_area a -> fits_int32 a -> valid_cell a r c -> in_cell_open a r c x y ->
  grid_cell RO a x y = Some (r, c).
Proof. intros H [F1 F2]. rewrite grid_cell_R by exact H. apply fcell_complete; auto; lia. Qed.
Lemma grid_outside a x y : wf_area a -> ~ in_extent a x y -> grid_cell RO a x y = None.
Proof. intros H. rewrite grid_cell_R by exact H. apply fcell_outside; [lia | exact H]. Qed.

(* utils.generate_quick_linesample_arrays: the downcast never changes which cell, if any, an index pair denotes *)
Lemma downcast_in_range size idx : (0 <= size)%Z ->
  in_range size (downcast size idx) = in_range size idx /\ (in_range size idx = true -> downcast size idx = idx).
Proof.
  intros Hs. unfold downcast, downcast_with, in_range. cbn [andb].
  destruct (Z.leb_spec size 65535) as [L | L]; [| split; [reflexivity | intros _; reflexivity]].
  destruct (Z.ltb_spec idx 0) as [N | N]; cbn [orb].
  - rewrite Z.mod_small by lia. split.
    + destruct (Z.leb_spec 0 size); destruct (Z.ltb_spec size size); destruct (Z.leb_spec 0 idx); cbn; lia || reflexivity.
    + destruct (Z.leb_spec 0 idx); cbn; [lia | discriminate].
  - destruct (Z.leb_spec size idx) as [G | G].
    + rewrite Z.mod_small by lia. split.
      * destruct (Z.leb_spec 0 size); destruct (Z.ltb_spec size size); destruct (Z.leb_spec 0 idx); destruct (Z.ltb_spec idx size); cbn; lia || reflexivity.
      * destruct (Z.leb_spec 0 idx); destruct (Z.ltb_spec idx size); cbn; try discriminate; lia.
    + rewrite Z.mod_small by lia. split; [reflexivity | intros _; reflexivity].
Qed.

Lemma cell_of_downcast (a : area R) r c : (0 <= width a)%Z -> (0 <= height a)%Z ->
  cell_of a (downcast (height a) r) (downcast (width a) c) = cell_of a r c.
Proof.
  intros Hw Hh. unfold cell_of.
  destruct (downcast_in_range (height a) r Hh) as [E1 V1]. destruct (downcast_in_range (width a) c Hw) as [E2 V2].
  rewrite E1, E2. destruct (in_range (height a) r) eqn:A; destruct (in_range (width a) c) eqn:B; cbn; try reflexivity.
  rewrite V1, V2 by reflexivity. reflexivity.
Qed.

Lemma quick_is_grid a x y : wf_area a -> quick_cell RO a x y = grid_cell RO a x y.
Proof.
  intros (Hw & Hh & _). unfold quick_cell, quick_row, quick_col, grid_cell, grid_cell_with, grid_row, grid_col.
  apply cell_of_downcast; lia.
Qed.
Lemma quick_sound a x y r c : wf_area a -> quick_cell RO a x y = Some (r, c) -> valid_cell a r c /\ in_cell_closed a r c x y.
Proof. intros H. rewrite quick_is_grid by exact H. apply grid_sound; exact H. Qed.
Lemma quick_complete a x y r c : wf_area a -> fits_int32 a -> valid_cell a r c -> in_cell_open a r c x y ->
  quick_cell RO a x y = Some (r, c).
Proof. intros H. rewrite quick_is_grid by exact H. apply grid_complete; exact H. Qed.
Lemma quick_outside a x y : wf_area a -> ~ in_extent a x y -> quick_cell RO a x y = None.
Proof. intros H. rewrite quick_is_grid by exact H. apply grid_outside; exact H. Qed.

(* without the `index_array < 0` part of the mask the uint16 cast wraps indices <= -65536 back into the grid:
   a point 65536 pixels left of a 10 x 10 area is given column 0 *)
Lemma quick_unmasked_refuted : exists (a : area R) (x y : R),
  wf_area a /\ ~ in_extent a x y /\ quick_cell_unmasked RO a x y = Some (5%Z, 0%Z).
Proof.
  exists (mk_area 0 0 10 10 10%Z 10%Z), (- 65536 + / 2), (9 / 2).
  assert (W : wf_area (mk_area 0 0 10 10 10%Z 10%Z)) by (unfold wf_area; cbn; repeat split; try lia; lra).
  split; [exact W |]. split.
  - unfold in_extent, between. cbn. lra.
  - unfold quick_cell_unmasked, grid_row, grid_col, grid_row_with, grid_col_with.
    rewrite !to_int_R, grid_col_expr, grid_row_expr by exact W.
    assert (Eu : ufrac (mk_area 0 0 10 10 10%Z 10%Z) (- 65536 + / 2) = - 65536 + / 2) by (unfold ufrac, dxR; cbn; field).
    assert (Ev : vfrac (mk_area 0 0 10 10 10%Z 10%Z) (9 / 2) = 11 / 2) by (unfold vfrac, dyR; cbn; field).
    rewrite Eu, Ev. cbn [floorZ RO].
    assert (F1 : Zfloor (- 65536 + / 2) = (-65536)%Z) by (apply Zfloor_imp; cbn; lra).
    assert (F2 : Zfloor (11 / 2) = 5%Z) by (apply Zfloor_imp; cbn; lra).
    rewrite F1, F2. reflexivity.
Qed.

(* GridFilter.get_valid_index *)
Lemma gf_sound a x y r c : wf_area a -> gf_cell RO a x y = Some (r, c) -> valid_cell a r c /\ in_cell_closed a r c x y.
Proof. intros H. rewrite gf_cell_R by exact H. apply fcell_sound; [lia | exact H]. Qed.
Lemma gf_complete a x y r c : wf_area a -> fits_int32 a -> valid_cell a r c -> in_cell_open a r c x y ->
  gf_cell RO a x y = Some (r, c).
Proof. intros H [F1 F2]. rewrite gf_cell_R by exact H. apply fcell_complete; auto; lia. Qed.
Lemma gf_outside a x y : wf_area a -> ~ in_extent a x y -> gf_cell RO a x y = None.
Proof. intros H. rewrite gf_cell_R by exact H. apply fcell_outside; [lia | exact H]. Qed.

(* BucketResampler._get_indices *)
Lemma bk_sound a x y r c : wf_area a -> bk_cell RO a x y = Some (r, c) -> valid_cell a r c /\ in_cell_closed a r c x y.
Proof. intros H. rewrite bk_cell_R. apply fcell_sound; [lia | exact H]. Qed.
Lemma bk_complete a x y r c : wf_area a -> fits_int32 a -> valid_cell a r c -> in_cell_open a r c x y ->
  bk_cell RO a x y = Some (r, c).
Proof. intros H F. apply fits_32_64 in F. destruct F. rewrite bk_cell_R. apply fcell_complete; auto; lia. Qed.
Lemma bk_outside a x y : wf_area a -> ~ in_extent a x y -> bk_cell RO a x y = None.
Proof. intros H. rewrite bk_cell_R. apply fcell_outside; [lia | exact H]. Qed.
Lemma bk_xy_spec a x y : bk_xy RO a x y = match bk_cell RO a x y with Some (r, c) => (c, r) | None => ((-1)%Z, (-1)%Z) end.
Proof. reflexivity. Qed.

Lemma bk_outside_xy a x y : wf_area a -> ~ in_extent a x y ->
  bk_cell RO a x y = None /\ bk_xy RO a x y = ((-1)%Z, (-1)%Z).
Proof. intros H Ho. rewrite bk_xy_spec, (bk_outside a x y H Ho). split; reflexivity. Qed.

(* the former code (plain astype(int32)): a point strictly outside the extent gets row 1, column 0 *)
Lemma grid_trunc_refuted : exists (a : area R) (x y : R),
  wf_area a /\ ~ in_extent a x y /\ grid_cell_trunc RO a x y = Some (1%Z, 0%Z) /\ gf_cell_trunc RO a x y = Some (1%Z, 0%Z).
Proof.
  exists (mk_area 0 0 8 4 8%Z 4%Z), (- / 2), (5 / 2).
  assert (W : wf_area (mk_area 0 0 8 4 8%Z 4%Z)) by (unfold wf_area; cbn; repeat split; try lia; lra).
  split; [exact W |]. split.
  - unfold in_extent, between. cbn. lra.
  - unfold grid_cell_trunc, gf_cell_trunc, grid_cell_with, gf_cell_with, grid_row_with, grid_col_with, gf_row_with, gf_col_with.
    rewrite !to_int_R, grid_col_expr, gf_col_expr, grid_row_expr by exact W.
    assert (Eu : ufrac (mk_area 0 0 8 4 8%Z 4%Z) (- / 2) = - / 2) by (unfold ufrac, dxR; cbn; field).
    assert (Ev : vfrac (mk_area 0 0 8 4 8%Z 4%Z) (5 / 2) = 3 / 2) by (unfold vfrac, dyR; cbn; field).
    rewrite Eu, Ev. cbn [truncZ RO].
    rewrite (trunc_axis_wrong (- / 2)) by lra.
    assert (Et : Ztrunc (3 / 2) = 1%Z) by (rewrite Ztrunc_floor by lra; apply Zfloor_imp; cbn; lra).
    rewrite Et. split; reflexivity.
Qed.

(* ---------------------------------------------------------------- the area's index lookup (masked_ints) *)
(* the point is in the closed cell, or within eps pixels outside the extent next to an edge cell *)
Definition axis_cell_or_band (n c : Z) (e t : R) : Prop :=
  IZR c <= t <= IZR c + 1 \/ (c = 0%Z /\ - e <= t < 0) \/ (c = (n - 1)%Z /\ IZR n < t <= IZR n + e).
Definition in_cell_or_band (a : area R) (e : R) (r c : Z) (x y : R) : Prop :=
  axis_cell_or_band (width a) c e (ufrac a x) /\ axis_cell_or_band (height a) r e (vfrac a y).

Lemma area_cell_some a x y r c : area_cell RO a x y = Some (r, c) ->
  area_col_mask RO a x = false /\ area_row_mask RO a y = false /\ area_row RO a y = r /\ area_col RO a x = c.
Proof.
  unfold area_cell. destruct (area_col_mask RO a x); destruct (area_row_mask RO a y); cbn; try discriminate.
  intros E. inversion E. tauto.
Qed.

Lemma axis_band_of n c t : (1 <= n)%Z ->
  (IZR c - / 2 <= t - / 2 <= IZR c + / 2
   \/ (c = 0%Z /\ - / 2 - eps_mi RO <= t - / 2 < 0)
   \/ (c = (n - 1)%Z /\ IZR n - 1 < t - / 2 <= IZR n - / 2 + eps_mi RO)) ->
  axis_cell_or_band n c (eps_mi RO) t.
Proof.
  intros Hn [H | [[E H] | [E H]]]; unfold axis_cell_or_band.
  - left. lra.
  - subst c. destruct (Rlt_dec t 0); [right; left; split; [reflexivity | lra] | left; cbn; lra].
  - subst c. rewrite minus_IZR. destruct (Rlt_dec (IZR n) t); [right; right; split; [reflexivity | lra] | left; lra].
Qed.

Lemma area_sound a x y r c : wf_area a -> fits_int32 a -> area_cell RO a x y = Some (r, c) ->
  valid_cell a r c /\ in_cell_or_band a (eps_mi RO) r c x y.
Proof.
  intros H F E. apply fits_32_64 in F. destruct F as [F1 F2]. change (2 ^ (64 - 1))%Z with (2 ^ 63)%Z in *.
  apply area_cell_some in E. destruct E as (Mx & My & Er & Ec).
  unfold area_col_mask, area_row_mask, area_row, area_col in *.
  rewrite area_col_expr in Mx, Ec by exact H. rewrite area_row_expr in My, Er by exact H.
  destruct H as (Hw & Hh & _).
  destruct (mi_sound (width a) _ c (conj Hw F1) Mx Ec) as [Vc Bc].
  destruct (mi_sound (height a) _ r (conj Hh F2) My Er) as [Vr Br].
  split; [split; assumption |]. split; apply axis_band_of; assumption.
Qed.

Lemma area_complete a x y r c : wf_area a -> fits_int32 a -> valid_cell a r c -> in_cell_open a r c x y ->
  area_cell RO a x y = Some (r, c).
Proof.
  intros H F [Vr Vc] Hin. apply fits_32_64 in F. destruct F as [F1 F2]. change (2 ^ (64 - 1))%Z with (2 ^ 63)%Z in *.
  apply in_cell_open_frac in Hin; [| exact H]. destruct Hin as [Hu Hv].
  unfold area_cell, area_col_mask, area_row_mask, area_row, area_col.
  rewrite area_col_expr, area_row_expr by exact H. destruct H as (Hw & Hh & _).
  destruct (mi_complete (width a) (ufrac a x - / 2) c (conj Hw F1) Vc) as [M1 I1]; [lra |].
  destruct (mi_complete (height a) (vfrac a y - / 2) r (conj Hh F2) Vr) as [M2 I2]; [lra |].
  rewrite M1, M2, I1, I2. reflexivity.
Qed.

Lemma area_outside a x y : wf_area a -> ~ in_extent_widened a (eps_mi RO) x y -> area_cell RO a x y = None.
Proof.
  intros H Hout. pose proof eps_bounds as [He _].
  rewrite in_extent_widened_frac in Hout by (auto; lra).
  unfold area_cell, area_col_mask, area_row_mask. rewrite area_col_expr, area_row_expr by exact H.
  destruct (mi_mask RO (width a) (ufrac a x - / 2)) eqn:Mx; [reflexivity |].
  destruct (mi_mask RO (height a) (vfrac a y - / 2)) eqn:My; [reflexivity |].
  apply mi_mask_false in Mx. apply mi_mask_false in My. exfalso. apply Hout. lra.
Qed.

(* ---------------------------------------------------------------- ewa ll2cr *)
Lemma big_R : big_1e30 RO = 1000000000000000019884624838656.
Proof. unfold big_1e30. cbn. lra. Qed.

Lemma ll_col_eq a x : wf_area a -> ll_col RO a x = arr_of_proj_x RO a x.
Proof. reflexivity. Qed.

Lemma ll_row_eq a y : wf_area a -> ll_row RO a y = arr_of_proj_y RO a y.
Proof.
  intros H. pose proof (dy_nonzero a H) as D.
  first [ reflexivity
        | unfold ll_row, ll_oy, ll_ch, arr_of_proj_y, yscale, upl_y; rewrite ?psy_eq; cbn; field; lra ].
Qed.

Lemma ll2cr_point_R a fill x y : wf_area a -> x < big_1e30 RO ->
  ll2cr_point RO a fill x y =
  (arr_of_proj_x RO a x, arr_of_proj_y RO a y, ll_in_grid RO a (arr_of_proj_x RO a x) (arr_of_proj_y RO a y)).
Proof.
  intros H Hx. unfold ll2cr_point. cbn [leb RO].
  replace (Rleb (big_1e30 RO) x) with false by (symmetry; apply Rleb_false; exact Hx).
  rewrite ll_col_eq, ll_row_eq by assumption. reflexivity.
Qed.

Lemma ll_in_grid_true a c r :
  ll_in_grid RO a c r = true <-> -1 <= c <= IZR (width a) + 1 /\ -1 <= r <= IZR (height a) + 1.
Proof.
  unfold ll_in_grid, one. cbn. rewrite !andb_true_iff, !Rleb_true, !plus_IZR. lra.
Qed.

(* interior of a cell: the fractional indices round to that cell and the point is counted *)
Lemma ll_cell a fill x y r c : wf_area a -> x < big_1e30 RO ->
  valid_cell a r c -> in_cell_open a r c x y ->
  exists cf rf, ll2cr_point RO a fill x y = (cf, rf, true) /\ ZnearestE cf = c /\ ZnearestE rf = r
                /\ Rabs (cf - IZR c) < / 2 /\ Rabs (rf - IZR r) < / 2.
Proof.
  intros H Hx [Vr Vc] Hin. rewrite ll2cr_point_R by assumption.
  apply in_cell_open_frac in Hin; [| exact H]. destruct Hin as [Hu Hv].
  rewrite area_col_expr, area_row_expr by exact H.
  exists (ufrac a x - / 2), (vfrac a y - / 2).
  assert (Hc : IZR c <= IZR (width a) - 1) by (rewrite <- minus_IZR; apply IZR_le; lia).
  assert (Hr : IZR r <= IZR (height a) - 1) by (rewrite <- minus_IZR; apply IZR_le; lia).
  assert (0 <= IZR c) by (apply IZR_le; lia). assert (0 <= IZR r) by (apply IZR_le; lia).
  split; [| split; [apply near_int; lra | split; [apply near_int; lra | split; apply Rabs_def1; lra]]].
  f_equal. apply ll_in_grid_true. lra.
Qed.

(* strictly outside the extent: the fractional index is more than half a pixel away from every pixel centre of the grid *)
Lemma ll_outside a fill x y : wf_area a -> x < big_1e30 RO -> ~ in_extent a x y ->
  exists cf rf b, ll2cr_point RO a fill x y = (cf, rf, b) /\
    (cf < - / 2 \/ IZR (width a) - / 2 < cf \/ rf < - / 2 \/ IZR (height a) - / 2 < rf).
Proof.
  intros H Hx Hout. rewrite ll2cr_point_R by assumption. rewrite in_extent_frac in Hout by exact H.
  rewrite area_col_expr, area_row_expr by exact H.
  eexists _, _, _. split; [reflexivity |].
  destruct (Rlt_dec (ufrac a x) 0); [left; lra |].
  destruct (Rlt_dec (IZR (width a)) (ufrac a x)); [right; left; lra |].
  destruct (Rlt_dec (vfrac a y) 0); [right; right; left; lra |].
  destruct (Rlt_dec (IZR (height a)) (vfrac a y)); [right; right; right; lra |].
  exfalso. apply Hout. lra.
Qed.

(* points in the extent are counted in swath_points_in_grid (the count has a margin of 1.5 pixels) *)
Lemma ll_counted a fill x y : wf_area a -> x < big_1e30 RO -> in_extent a x y ->
  snd (ll2cr_point RO a fill x y) = true.
Proof.
  intros H Hx Hin. rewrite ll2cr_point_R by assumption. rewrite in_extent_frac in Hin by exact H.
  cbn [snd]. rewrite area_col_expr, area_row_expr by exact H. apply ll_in_grid_true. lra.
Qed.

(* ---------------------------------------------------------------- all modules agree off the cell borders *)
Lemma frac_cell (n : Z) t : (forall k : Z, t <> IZR k) -> 0 <= t <= IZR n ->
  exists c : Z, (0 <= c < n)%Z /\ IZR c < t < IZR c + 1.
Proof.
  intros Hk [H0 Hn]. exists (Zfloor t). pose proof (Zfloor_lb t). pose proof (Zfloor_ub t).
  assert (IZR (Zfloor t) <> t) by (intros E; apply (Hk (Zfloor t)); auto).
  split; [| lra]. split.
  - apply Zfloor_lub. exact H0.
  - apply lt_IZR. lra.
Qed.

Lemma all_agree a x y : wf_area a -> fits_int32 a -> off_border a x y ->
  grid_cell RO a x y = gf_cell RO a x y /\ gf_cell RO a x y = bk_cell RO a x y /\
  (in_extent a x y \/ ~ in_extent_widened a (eps_mi RO) x y -> area_cell RO a x y = bk_cell RO a x y).
Proof.
  intros H F Hb. destruct (off_border_frac a x y H Hb) as [Hu Hv].
  assert (Dec : in_extent a x y \/ ~ in_extent a x y).
  { rewrite in_extent_frac by exact H.
    destruct (Rle_dec 0 (ufrac a x)); destruct (Rle_dec (ufrac a x) (IZR (width a)));
      destruct (Rle_dec 0 (vfrac a y)); destruct (Rle_dec (vfrac a y) (IZR (height a))); (left; lra) || (right; lra). }
  destruct Dec as [Hin | Hout].
  - pose proof Hin as Hin'. rewrite in_extent_frac in Hin' by exact H. destruct Hin' as [Iu Iv].
    destruct (frac_cell (width a) _ Hu Iu) as (c & Vc & Cu).
    destruct (frac_cell (height a) _ Hv Iv) as (r & Vr & Cv).
    assert (V : valid_cell a r c) by (split; assumption).
    assert (Hopen : in_cell_open a r c x y) by (apply in_cell_open_frac; [exact H | lra]).
    rewrite (grid_complete a x y r c), (gf_complete a x y r c), (bk_complete a x y r c) by assumption.
    repeat split. intros _. apply area_complete; assumption.
  - rewrite grid_outside, gf_outside, bk_outside by assumption. repeat split.
    intros [Hin | Hw]; [contradiction | apply area_outside; assumption].
Qed.
