(* C17 — code is model: the definition regenerated from Arc.get_next_intersection (tools/py2coq_imp.py, two for loops,
   the second with early returns and the take_next flag) is the function [gni]; and [gni], instantiated with the
   crossing table, is the hand model's get_next_intersection used by the edge walk. *)
From Coq Require Import ZArith List Bool Lia.
From PR Require Import Base.ZX Base.Slice Base.Imp Base.Num Model.SphPoly Model.SphPolyObj Gen.GenC17imp.
Import ListNotations.

Section CodeIsModel.
  Context {P ARC : Type} (isect : ARC -> ARC -> option P) (keep : ARC -> ARC -> P -> bool)
          (sort_res : ARC -> list (P * ARC) -> list (P * ARC)) (peq : P -> P -> bool) (p0 : P) (a0 : ARC).

  Notation st := (@imp_get_next_intersection_st P ARC).
  Ltac pj := cbn [imp_get_next_intersection_self imp_get_next_intersection_arcs imp_get_next_intersection_known_inter
                  imp_get_next_intersection_res imp_get_next_intersection_arc imp_get_next_intersection_inter
                  imp_get_next_intersection_take_next imp_get_next_intersection__ret
                  imp_get_next_intersection_set_self imp_get_next_intersection_set_arcs imp_get_next_intersection_set_known_inter
                  imp_get_next_intersection_set_res imp_get_next_intersection_set_arc imp_get_next_intersection_set_inter
                  imp_get_next_intersection_set_take_next imp_get_next_intersection_set__ret fst snd].

  (* ---- first loop: collect the kept intersections, in the order of arcs *)
  Definition body1 : M st Empty_set (option P * option ARC) :=
    (andthen (assign (fun s => (imp_get_next_intersection_set_inter (isect (imp_get_next_intersection_self s) (imp_get_next_intersection_arc s)) s)))
     (ite (fun s => (match (imp_get_next_intersection_inter s) with Some x_ => keep (imp_get_next_intersection_self s) (imp_get_next_intersection_arc s) x_ | None => false end))
      (andthen (check (fun s => (match (imp_get_next_intersection_inter s) with Some _ => true | None => false end))) (assign (fun s => (imp_get_next_intersection_set_res ((imp_get_next_intersection_res s) ++ [((match (imp_get_next_intersection_inter s) with Some x_ => x_ | None => p0 end), (imp_get_next_intersection_arc s))]) s))))
      skip)).

  Definition step1 (s : st) : st :=
    let s1 := imp_get_next_intersection_set_inter (isect (imp_get_next_intersection_self s) (imp_get_next_intersection_arc s)) s in
    match isect (imp_get_next_intersection_self s) (imp_get_next_intersection_arc s) with
    | Some x => if keep (imp_get_next_intersection_self s) (imp_get_next_intersection_arc s) x
                then imp_get_next_intersection_set_res (imp_get_next_intersection_res s ++ [(x, imp_get_next_intersection_arc s)]) s1
                else s1
    | None => s1
    end.
  Lemma body1_eval (s : st) : body1 s = Fall [] (step1 s).
  Proof.
    unfold body1, step1. rewrite andthen_assign. cbv beta zeta. rewrite ite_eval. pj.
    destruct (isect (imp_get_next_intersection_self s) (imp_get_next_intersection_arc s)) as [x|] eqn:E; [|reflexivity].
    destruct (keep (imp_get_next_intersection_self s) (imp_get_next_intersection_arc s) x) eqn:K; [|reflexivity].
    rewrite andthen_check. cbv beta. pj. rewrite assign_eval. pj. reflexivity.
  Qed.

  Lemma loop1 : forall (l : list ARC) (s : st),
    exists s', for_list l (fun x_ s => imp_get_next_intersection_set_arc x_ s) body1 s = Fall [] s' /\
               imp_get_next_intersection_res s' = imp_get_next_intersection_res s ++ gni_res isect keep (imp_get_next_intersection_self s) l /\
               imp_get_next_intersection_self s' = imp_get_next_intersection_self s /\
               imp_get_next_intersection_known_inter s' = imp_get_next_intersection_known_inter s.
  Proof.
    induction l as [|a l IH]; intros s.
    - exists s. cbn [for_list gni_res flat_map]. rewrite app_nil_r. auto.
    - cbn [for_list gni_res flat_map]. fold (gni_res isect keep (imp_get_next_intersection_self s) l).
      unfold andthen. rewrite body1_eval.
      destruct (IH (step1 (imp_get_next_intersection_set_arc a s))) as (s' & E1 & R1 & S1 & K1).
      exists s'. rewrite E1. split; [reflexivity|].
      rewrite R1, S1, K1. unfold step1. pj.
      destruct (isect (imp_get_next_intersection_self s) a) as [x|]; [destruct (keep (imp_get_next_intersection_self s) a x)|]; pj;
        rewrite <- ?app_assoc, ?app_nil_r; auto.
  Qed.

  (* ---- second loop: walk the sorted list with the take_next flag, return at the first hit *)
  Definition body2 : M st Empty_set (option P * option ARC) :=
    (ite (fun s => (negb (match (imp_get_next_intersection_known_inter s) with None => true | Some _ => false end)))
     (ite (fun s => (match (imp_get_next_intersection_known_inter s), (imp_get_next_intersection_inter s) with Some a_, Some b_ => peq a_ b_ | _, _ => false end))
      (assign (fun s => (imp_get_next_intersection_set_take_next true s)))
      (ite (fun s => (imp_get_next_intersection_take_next s))
       (ret (fun s => ((imp_get_next_intersection_inter s), (Some (imp_get_next_intersection_arc s)))))
       skip))
     (ret (fun s => ((imp_get_next_intersection_inter s), (Some (imp_get_next_intersection_arc s)))))).
  Definition bind2 : P * ARC -> st -> st :=
    (fun y_ s => (fun x_ s => (imp_get_next_intersection_set_arc (snd x_) (imp_get_next_intersection_set_inter (fst x_) s))) (let p_ := y_ in ((Some (fst p_)), (snd p_))) s).

  Lemma body2_eval (e : P * ARC) (s : st) :
    body2 (bind2 e s) =
    match imp_get_next_intersection_known_inter s with
    | None => Ret [] (bind2 e s) (Some (fst e), Some (snd e))
    | Some k => if peq k (fst e) then Fall [] (imp_get_next_intersection_set_take_next true (bind2 e s))
                else if imp_get_next_intersection_take_next s then Ret [] (bind2 e s) (Some (fst e), Some (snd e))
                else Fall [] (bind2 e s)
    end.
  Proof.
    unfold body2. rewrite !ite_eval. unfold bind2. cbv beta zeta. pj.
    destruct (imp_get_next_intersection_known_inter s) as [k|]; cbn [negb]; [|reflexivity].
    destruct (peq k (fst e)); [reflexivity|].
    pj. destruct (imp_get_next_intersection_take_next s); reflexivity.
  Qed.
  Lemma bind2_known e s : imp_get_next_intersection_known_inter (bind2 e s) = imp_get_next_intersection_known_inter s.
  Proof. reflexivity. Qed.
  Lemma bind2_take e s : imp_get_next_intersection_take_next (bind2 e s) = imp_get_next_intersection_take_next s.
  Proof. reflexivity. Qed.

  Lemma loop2 : forall (l : list (P * ARC)) (s : st),
    match gni_find peq (imp_get_next_intersection_known_inter s) (imp_get_next_intersection_take_next s) l with
    | Some e => exists s', for_list l bind2 body2 s = Ret [] s' (Some (fst e), Some (snd e))
    | None => exists s', for_list l bind2 body2 s = Fall [] s'
    end.
  Proof.
    induction l as [|e l IH]; intros s; cbn [gni_find for_list].
    - eexists; reflexivity.
    - unfold andthen. rewrite body2_eval.
      destruct (imp_get_next_intersection_known_inter s) as [k|] eqn:Ek.
      + destruct (peq k (fst e)) eqn:Ep.
        * specialize (IH (imp_get_next_intersection_set_take_next true (bind2 e s))).
          change (imp_get_next_intersection_known_inter (imp_get_next_intersection_set_take_next true (bind2 e s)))
            with (imp_get_next_intersection_known_inter s) in IH.
          change (imp_get_next_intersection_take_next (imp_get_next_intersection_set_take_next true (bind2 e s))) with true in IH.
          rewrite Ek in IH.
          destruct (gni_find peq (Some k) true l) as [e'|]; destruct IH as (s' & E); rewrite E; eexists; reflexivity.
        * destruct (imp_get_next_intersection_take_next s) eqn:Et.
          -- eexists. reflexivity.
          -- specialize (IH (bind2 e s)). rewrite bind2_known, bind2_take, Ek, Et in IH.
             destruct (gni_find peq (Some k) false l) as [e'|]; destruct IH as (s' & E); rewrite E; eexists; reflexivity.
      + eexists. reflexivity.
  Qed.

  Theorem get_next_intersection_code_is_model (self : ARC) (arcs : list ARC) (known : option P) :
    value_of (imp_get_next_intersection isect keep sort_res peq p0 a0 self arcs known)
    = COk (gni isect keep sort_res peq self arcs known).
  Proof.
    unfold imp_get_next_intersection. rewrite andthen_assign. cbv beta.
    match goal with |- value_of (andthen _ _ ?s) = _ => set (s0 := s) end.
    change (value_of (andthen (for_ (fun s : st => imp_get_next_intersection_arcs s) (fun x_ s => imp_get_next_intersection_set_arc x_ s) body1)
              (andthen (assign (fun s : st => imp_get_next_intersection_set_take_next false s))
                 (andthen (for_ (fun s : st => sort_res (imp_get_next_intersection_self s) (imp_get_next_intersection_res s)) bind2 body2)
                          (ret (fun _ : st => (None, None))))) s0)
            = COk (gni isect keep sort_res peq self arcs known)).
    destruct (loop1 arcs s0) as (s1 & E1 & R1 & S1 & K1).
    change (imp_get_next_intersection_res s0) with (@nil (P * ARC)) in R1.
    change (imp_get_next_intersection_self s0) with self in R1, S1.
    change (imp_get_next_intersection_known_inter s0) with known in K1.
    cbn [app] in R1.
    rewrite (andthen_fall _ _ s0 [] s1) by exact E1.
    cbn [prepend app]. rewrite andthen_assign. cbv beta.
    set (s2 := imp_get_next_intersection_set_take_next false s1).
    assert (R2 : imp_get_next_intersection_res s2 = gni_res isect keep self arcs) by exact R1.
    assert (S2 : imp_get_next_intersection_self s2 = self) by exact S1.
    assert (K2 : imp_get_next_intersection_known_inter s2 = known) by exact K1.
    assert (T2 : imp_get_next_intersection_take_next s2 = false) by reflexivity.
    unfold andthen at 1, for_. rewrite R2, S2.
    pose proof (loop2 (sort_res self (gni_res isect keep self arcs)) s2) as L2. rewrite K2, T2 in L2.
    unfold gni.
    destruct (gni_find peq known false (sort_res self (gni_res isect keep self arcs))) as [e|]; destruct L2 as (s' & E2); rewrite E2.
    - reflexivity.
    - cbn [prepend]. reflexivity.
  Qed.
End CodeIsModel.

(* ---- [gni] on the crossing table is the hand model used by the walk (Model/SphPoly.v: get_next_intersection) *)
Section Table.
  Context {T : Type} (OP : ops T) (A : @arrangement T) (side : bool).
  Open Scope Z_scope.

  Notation insert_pair := (insert_pair OP side).
  Notation sort_pairs := (sort_pairs OP side).
  Notation tab_isect := (tab_isect A side).
  Notation tab_keep := (@tab_keep T).
  Notation tab_peq := (@tab_peq T).

  Lemma map_fst_insert p l : map fst (insert_pair p l) = insert_by OP side (fst p) (map fst l).
  Proof. induction l as [|q r IH]; cbn; [reflexivity|]. destruct (ltb OP _ _); cbn; [reflexivity|now rewrite IH]. Qed.
  Lemma map_fst_sort l : map fst (sort_pairs l) = sort_by OP side (map fst l).
  Proof. induction l as [|p l IH]; [reflexivity|]. unfold sort_pairs, sort_by in *. cbn. now rewrite map_fst_insert, IH. Qed.
  Lemma map_fst_res e others : map fst (gni_res tab_isect tab_keep e others) = res_list A side e others.
  Proof.
    unfold gni_res, res_list, tab_isect, tab_keep. induction others as [|eo r IH]; [reflexivity|].
    cbn [flat_map]. rewrite map_app, IH. destruct (find_xing A side e eo); reflexivity.
  Qed.
  Lemma find_is_pick known tn (l : list (@xing T * Z)) :
    option_map fst (gni_find tab_peq known tn l) = pick (option_map xid known) tn (map fst l).
  Proof.
    revert tn. induction l as [|p l IH]; intros tn; [reflexivity|].
    cbn [gni_find map pick]. destruct known as [k|]; cbn [option_map]; [|reflexivity].
    unfold tab_peq at 1. destruct (xid (fst p) =? xid k); [apply IH|].
    destruct tn; [reflexivity|apply IH].
  Qed.

  Definition good (p : @xing T * Z) : Prop := xe (negb side) (fst p) = snd p.
  Lemma insert_good p l : good p -> Forall good l -> Forall good (insert_pair p l).
  Proof.
    intros Hp Hl. induction l as [|q r IH]; cbn; [repeat constructor; exact Hp|].
    inversion Hl; subst. destruct (ltb OP _ _); constructor; auto.
  Qed.
  Lemma sort_good l : Forall good l -> Forall good (sort_pairs l).
  Proof. induction 1; [constructor|]. unfold sort_pairs in *. cbn. now apply insert_good. Qed.
  Lemma res_good e others : Forall good (gni_res tab_isect tab_keep e others).
  Proof.
    unfold gni_res, tab_isect, tab_keep. induction others as [|eo r IH]; [constructor|].
    cbn [flat_map]. apply Forall_app. split; [|exact IH].
    destruct (find_xing A side e eo) as [x|] eqn:F; [|constructor].
    constructor; [|constructor]. unfold good. cbn [fst snd]. unfold find_xing in F. apply find_some in F.
    destruct F as (_ & Hb). apply andb_true_iff in Hb. destruct Hb as (_ & H2). now apply Z.eqb_eq in H2.
  Qed.
  Lemma find_in {P0 ARC0} (peq : P0 -> P0 -> bool) known tn (l : list (P0 * ARC0)) e : gni_find peq known tn l = Some e -> In e l.
  Proof.
    revert tn. induction l as [|p l IH]; intros tn H; cbn in H; [discriminate|].
    destruct known as [k|]; [|injection H as <-; now left].
    destruct (peq k (fst p)); [right; eapply IH; eauto|].
    destruct tn; [injection H as <-; now left|right; eapply IH; eauto].
  Qed.

  Theorem gni_is_table_model (e : Z) (others : list Z) (known : option (@xing T)) :
    let r := gni tab_isect tab_keep (fun _ => sort_pairs) tab_peq e others known in
    fst r = get_next_intersection OP A side e others (option_map xid known) /\
    snd r = option_map (xe (negb side)) (fst r).
  Proof.
    cbv zeta. unfold gni, get_next_intersection.
    rewrite <- map_fst_res, <- map_fst_sort, <- find_is_pick.
    pose proof (sort_good _ (res_good e others)) as G.
    destruct (gni_find tab_peq known false (sort_pairs (gni_res tab_isect tab_keep e others))) as [p|] eqn:F; cbn [fst snd option_map].
    - split; [reflexivity|]. apply find_in in F. rewrite Forall_forall in G. now rewrite (G p F).
    - split; reflexivity.
  Qed.
End Table.

(* ---- SphPolygon.invert() / inverse(): the state handling of the object *)
Section ObjCode.
  Context {V C F : Type} (col0 col1 : V -> F) (c0 c1 c2 : C -> F) (new_poly : list V -> F -> poly V C F) (f0 : F).

  (* invert() turns the object into [invert_obj]: its vertex list is the model's [inverse] *)
  Theorem invert_code_is_model (p : poly V C F) :
    state_of (imp_invert col0 col1 c0 c1 c2 p) = COk (mk_imp_invert_st (invert_obj col0 col1 c0 c1 c2 p)) /\
    pv (invert_obj col0 col1 c0 c1 c2 p) = inverse (pv p).
  Proof.
    split; [|reflexivity].
    unfold imp_invert. repeat (rewrite andthen_assign; cbv beta; cbn [imp_invert_self imp_invert_set_self pv pcv plon plat px py pz pradius]).
    rewrite assign_eval. cbn [imp_invert_self imp_invert_set_self pv pcv plon plat px py pz pradius state_of]. reflexivity.
  Qed.

  (* inverse() returns the polygon constructed from the reversed vertex array and leaves the object itself untouched *)
  Theorem inverse_code_is_model (p : poly V C F) :
    value_of (imp_inverse new_poly f0 p) = COk (new_poly (inverse (pv p)) (pradius p)) /\
    match state_of (imp_inverse new_poly f0 p) with COk s => imp_inverse_self s = p | _ => False end.
  Proof. split; reflexivity. Qed.

  (* histories: the vertex list of the object after any sequence of area()/inverse()/invert() calls, run on the translated code *)
  Definition obj_step (p : poly V C F) (o : pop) : poly V C F :=
    match o with
    | PInvert => match state_of (imp_invert col0 col1 c0 c1 c2 p) with COk s => imp_invert_self s | _ => p end
    | PInverse => match state_of (imp_inverse new_poly f0 p) with COk s => imp_inverse_self s | _ => p end
    | PArea => p
    end.
  Theorem history_code_is_model (h : list pop) (p : poly V C F) :
    pv (fold_left obj_step h p) = fold_left pstep h (pv p).
  Proof.
    revert p. induction h as [|o h IH]; intros p; [reflexivity|].
    cbn [fold_left]. rewrite IH. f_equal. destruct o; cbn [obj_step pstep]; try reflexivity.
  Qed.
End ObjCode.
