(* C07: the definitions regenerated from /repo (coq/Gen/GenC07.v) are the model.
   _get_indices as a whole; the element-wise statements of get_sum, _mask_bins_with_nan_if_not_skipna, get_average and
   get_fractions piece by piece, and the model's statistics are the compositions of those pieces. *)
From Coq Require Import Reals ZArith Bool List Lia Lra.
From PR Require Import Base.Num Base.RNum Base.F64 Base.ZX Model.Grid Model.CellIndex Model.Bucket Gen.GenC07
     Proofs.C07_stats.
Import ListNotations.
Open Scope Z_scope.

(* ------------------------------------------------------------------ _get_indices, every arithmetic *)
Lemma to_int64_floor {T} (OP : ops T) v : to_int OP 64 (floorZ OP) v = bk_floor_i64 OP v.
Proof.
  unfold to_int, bk_floor_i64, wrap_int, bk_int64_ok, int_min, bk_int64_min.
  change (64 - 1) with 63. destruct (isfinite OP v); reflexivity.
Qed.

Lemma gen_bucket_indices_char {T} (OP : ops T) (a : area T) x y :
  gen_bucket_indices OP a x y = (fst (bk_xy_idx OP a (x, y)), snd (bk_xy_idx OP a (x, y)), bk_idx OP a (x, y)).
Proof.
  unfold gen_bucket_indices, bk_idx, bk_xy_idx, bk_x_raw, bk_y_raw, bk_mask. cbn [fst snd].
  rewrite !to_int64_floor. rewrite !Z.geb_leb.
  destruct (_ && _ && _ && _); reflexivity.
Qed.

(* ------------------------------------------------------------------ the statistics are compositions of the pieces *)
Lemma get_sum_pieces size idxs data fill skipna ebv k :
  bk_get_sum size idxs data fill skipna ebv k
  = let s := bk_hist oadd (Some 0) size (combine idxs (map (bk_weight fill) data)) k in
    bk_ebv_apply ebv (if skipna then s else bk_missing_apply (bk_count size (bk_missing_idxs fill idxs data) k) fill s).
Proof.
  unfold bk_get_sum, bk_ebv_apply, bk_missing_apply, bk_weights, bk_weight. cbn zeta.
  destruct (dat_eqb ebv (Some 0)); destruct skipna; reflexivity.
Qed.

Lemma avg_data_pieces fill data : bk_avg_data fill data = map (bk_avg_datum fill) data.
Proof.
  unfold bk_avg_data, bk_avg_datum. destruct (dat_isnan fill); [symmetry; apply map_id | reflexivity].
Qed.

Lemma cat_flags_pieces cat data : bk_cat_flags cat data = map (bk_cat_flag cat) data.
Proof. reflexivity. Qed.

Lemma get_average_pieces {T} (OP : ops T) size idxs data fill skipna k :
  bk_get_average OP size idxs data fill skipna k
  = bk_avg_cell OP (bk_get_sum size idxs (map (bk_avg_datum fill) data) None skipna (Some 0) k)
                   (bk_hist Z.add 0 size (combine idxs (bk_valid_flags (map (bk_avg_datum fill) data))) k) fill.
Proof. unfold bk_get_average, bk_avg_cell. rewrite avg_data_pieces. reflexivity. Qed.

Lemma get_fraction_pieces {T} (OP : ops T) size idxs data cat fill k :
  bk_get_fraction OP size idxs data cat fill k
  = bk_frac_cell OP (bk_hist Z.add 0 size (combine idxs (map (bk_cat_flag cat) data)) k) (bk_count size idxs k) fill.
Proof. reflexivity. Qed.

(* ------------------------------------------------------------------ pieces = regenerated statements *)
(* statements without a float comparison: equal for every arithmetic, NaN included *)
Lemma gen_sum_weight_char {T} (OP : ops T) fill d :
  gen_sum_weight OP (bk_invalid fill d) (dat_embT OP d) = dat_embT OP (bk_weight fill d).
Proof. unfold gen_sum_weight, bk_weight. destruct (bk_invalid fill d); reflexivity. Qed.

Lemma gen_sum_mask_missing_char {T} (OP : ops T) m fill s :
  gen_sum_mask_missing m (dat_embT OP fill) (dat_embT OP s) = dat_embT OP (bk_missing_apply m fill s).
Proof. unfold gen_sum_mask_missing, bk_missing_apply. rewrite Z.gtb_ltb. destruct (0 <? m); reflexivity. Qed.

(* statements with float comparisons, over the reals on finite values *)
Open Scope R_scope.
Lemma gen_sum_empty_bucket_char s e :
  gen_sum_empty_bucket RO (IZR s) (IZR e)
  = match bk_ebv_apply (Some e) (Some s) with Some v => IZR v | None => 0 end.
Proof.
  unfold gen_sum_empty_bucket, bk_ebv_apply. cbn [eqb ofZ RO dat_eqb]. rewrite !IZR_eqb.
  destruct (e =? 0)%Z; cbn [negb]; [reflexivity|]. destruct (s =? 0)%Z; reflexivity.
Qed.

Lemma gen_average_cell_char s c fill : c <> 0%Z ->
  Some (gen_average_cell RO (IZR s) (IZR c) fill) = bk_avg_cell RO (Some s) c None.
Proof.
  intros Hc. unfold gen_average_cell, bk_avg_cell. cbn [eqb ofZ isnan div RO]. rewrite IZR_eqb.
  apply Z.eqb_neq in Hc. rewrite Hc. reflexivity.
Qed.

Lemma gen_fraction_cell_char s c fill :
  Some (gen_fraction_cell RO (IZR s) (IZR c) (IZR fill)) = bk_frac_cell RO s c (Some fill).
Proof.
  unfold gen_fraction_cell, bk_frac_cell, bk_fill_T. cbn [eqb ofZ lit div RO option_map].
  replace (0 * Raux.bpow Zaux.radix2 0) with (IZR 0) by (cbn; lra). rewrite IZR_eqb.
  destruct (c =? 0)%Z; reflexivity.
Qed.

Lemma gen_fraction_flag_char d cat : gen_fraction_flag RO (IZR d) (IZR cat) = IZR (bk_cat_flag cat (Some d)).
Proof.
  unfold gen_fraction_flag, bk_cat_flag. cbn [eqb lit RO dat_eqb]. rewrite IZR_eqb.
  destruct (d =? cat)%Z; cbn; lra.
Qed.

Lemma gen_average_data_char d f : d <> f ->
  gen_average_data RO (IZR d) (IZR f) = IZR d /\ bk_avg_datum (Some f) (Some d) = Some d.
Proof.
  intros H. unfold gen_average_data, bk_avg_datum. cbn [isnan eqb RO negb dat_isnan dat_eqb]. rewrite IZR_eqb.
  apply Z.eqb_neq in H. rewrite H. split; reflexivity.
Qed.
Close Scope R_scope.

(* ------------------------------------------------------------------ binary64, NaN included: exhaustive over a small domain
   (the float comparisons / NaN tests of the regenerated statements agree with the model on every combination of
   NaN, 0, small and large integers) *)
Definition gdom : list dat := [None; Some 0; Some 1; Some (-1); Some 2; Some (-3); Some 255; Some (-999); Some 4095].
Definition cdom : list Z := [0; 1; 2; 3; 7].
Definition embF (d : dat) : PrimFloat.float := dat_embT F64 d.
Definition oflF (m : option PrimFloat.float) (e : PrimFloat.float) : bool :=
  match m with Some v => same_bits v e | None => f_isnan e end.
Definition all2 {A B} (f : A -> B -> bool) (la : list A) (lb : list B) : bool := forallb (fun a => forallb (f a) lb) la.

Definition chk_gen_pieces : bool :=
  (* _get_invalid_mask *)
  all2 (fun d f => Bool.eqb (gen_get_invalid_mask F64 (embF d) (embF f)) (bk_invalid f d)) gdom gdom &&
  (* get_sum: empty_bucket_value *)
  all2 (fun s e => same_bits (gen_sum_empty_bucket F64 (embF s) (embF e)) (embF (bk_ebv_apply e s))) gdom gdom &&
  (* get_average: fill-marked data -> NaN *)
  all2 (fun d f => same_bits (gen_average_data F64 (embF d) (embF f)) (embF (bk_avg_datum f d))) gdom gdom &&
  (* get_average: sums / where(counts == 0, nan, counts), NaN -> fill_value *)
  all2 (fun s c => forallb (fun f => oflF (bk_avg_cell F64 s c f) (gen_average_cell F64 (embF s) (Z2F c) (embF f))) gdom) gdom cdom &&
  (* get_fractions *)
  all2 (fun d c => match c with Some cat => same_bits (gen_fraction_flag F64 (embF d) (Z2F cat)) (Z2F (bk_cat_flag cat d)) | None => true end) gdom gdom &&
  all2 (fun s c => forallb (fun f => oflF (bk_frac_cell F64 s c f) (gen_fraction_cell F64 (Z2F s) (Z2F c) (embF f))) gdom) cdom cdom &&
  (* _get_abs_max_from_min_max *)
  all2 (fun a b => same_bits (gen_abs_max_from_min_max F64 (embF a) (embF b)) (embF (bk_absmax_of a b))) gdom gdom.

Lemma gen_pieces_f64 : chk_gen_pieces = true.
Proof. vm_compute. reflexivity. Qed.
