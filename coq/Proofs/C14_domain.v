(* C14: compute_domain / _update_corners_for_full_extent over the reals.  The definitions are the ones
   REGENERATED from /repo (Gen/GenC14.v); each gets a characterisation lemma [gen_f = clean_f] and the facts the
   property needs are proved about the clean form. *)
From Coq Require Import Reals ZArith Lra Lia List Bool.
From Flocq Require Import Zaux Raux Generic_fmt Round_NE.
From PR Require Import Base.Num Base.RNum Model.Grid Model.DynBase Gen.GenC14 Model.Dynamic Proofs.Grid_real.
Import ListNotations.
Open Scope R_scope.

Definition ext4 := (R * R * R * R)%type.

(* ------------------------------------------------------------------ shape given *)
(* pixel size from a span of pixel CENTRES over n pixels; a one-pixel axis is treated like two pixels *)
Definition shape_res (span : R) (n : Z) : R := span / IZR (Z.max (n - 1) 1).

Definition cd_shape_clean (c0 c1 c2 c3 : R) (w h : Z) : option (ext4 * Z * Z) :=
  let rx0 := shape_res (c2 - c0) w in
  let ry0 := shape_res (c3 - c1) h in
  if Reqb rx0 0 && Reqb ry0 0 then None
  else let rx := if Reqb rx0 0 then ry0 else rx0 in
       let ry := if Reqb ry0 0 then rx else ry0 in
       Some ((c0 - rx / 2, c1 - ry / 2, c2 + rx / 2, c3 + ry / 2), w, h).

Lemma gen_cd_shape_char c0 c1 c2 c3 w h aou :
  gen_cd_shape RO (c0, c1, c2, c3) tt (h, w) aou = cd_shape_clean c0 c1 c2 c3 w h.
Proof.
  unfold gen_cd_shape, gen_ucfe_keep, cd_shape_clean, shape_res. cbn -[Z.max Z.sub].
  rewrite ?Rmult_1_r. reflexivity.
Qed.

Lemma shape_res_pos span n : 0 < span -> 0 < shape_res span n.
Proof.
  intros H. unfold shape_res. apply Rdiv_lt_0_compat; [assumption|]. apply (IZR_lt 0). lia.
Qed.
Lemma shape_res_zero span n : shape_res span n = 0 <-> span = 0.
Proof.
  unfold shape_res. assert (0 < IZR (Z.max (n - 1) 1)) by (apply (IZR_lt 0); lia). split; intros E.
  - apply Rmult_eq_compat_r with (r := IZR (Z.max (n - 1) 1)) in E. field_simplify in E; lra.
  - rewrite E. field. lra.
Qed.
Lemma shape_res_nonneg span n : 0 <= span -> 0 <= shape_res span n.
Proof.
  intros [H|<-]; [left; apply shape_res_pos, H|]. right. symmetry. apply shape_res_zero. reflexivity.
Qed.

(* data with some extent (not a single point): the domain exists, keeps the shape, has positive pixel sizes
   rx, ry and its extent is the centre box grown by half a pixel *)
Lemma cd_shape_some c0 c1 c2 c3 w h : c0 <= c2 -> c1 <= c3 -> (c0 < c2 \/ c1 < c3) ->
  exists rx ry, 0 < rx /\ 0 < ry /\
    cd_shape_clean c0 c1 c2 c3 w h = Some ((c0 - rx / 2, c1 - ry / 2, c2 + rx / 2, c3 + ry / 2), w, h) /\
    (c0 < c2 -> rx = shape_res (c2 - c0) w) /\ (c1 < c3 -> ry = shape_res (c3 - c1) h).
Proof.
  intros Hx Hy Hne. unfold cd_shape_clean.
  pose proof (shape_res_nonneg (c2 - c0) w ltac:(lra)) as Nx.
  pose proof (shape_res_nonneg (c3 - c1) h ltac:(lra)) as Ny.
  pose proof (shape_res_zero (c2 - c0) w) as Zx. pose proof (shape_res_zero (c3 - c1) h) as Zy.
  set (rx0 := shape_res (c2 - c0) w) in *. set (ry0 := shape_res (c3 - c1) h) in *.
  destruct (Reqb rx0 0) eqn:Ex; destruct (Reqb ry0 0) eqn:Ey; cbn [andb].
  - apply Reqb_true in Ex, Ey. exfalso. destruct Hne; [apply Zx in Ex | apply Zy in Ey]; lra.
  - apply Reqb_true in Ex. assert (ry0 <> 0) by (intros E; apply Reqb_true in E; congruence).
    exists ry0, ry0. split; [lra|]. split; [lra|]. split; [reflexivity|]. split; [|reflexivity]. intros ?. apply Zx in Ex. lra.
  - apply Reqb_true in Ey. assert (rx0 <> 0) by (intros E; apply Reqb_true in E; congruence).
    exists rx0, rx0. split; [lra|]. split; [lra|]. split; [reflexivity|]. split; [reflexivity|]. intros ?. apply Zy in Ey. lra.
  - assert (rx0 <> 0) by (intros E; apply Reqb_true in E; congruence).
    assert (ry0 <> 0) by (intros E; apply Reqb_true in E; congruence).
    exists rx0, ry0. split; [lra|]. split; [lra|]. split; [reflexivity|]. split; reflexivity.
Qed.
(* a single point cannot be given a pixel size from a shape alone: the code raises ValueError *)
Lemma cd_shape_point c0 c1 w h : cd_shape_clean c0 c1 c0 c1 w h = None.
Proof.
  unfold cd_shape_clean. replace (c0 - c0) with 0 by lra. replace (c1 - c1) with 0 by lra.
  assert (E : forall n, shape_res 0 n = 0) by (intros n; apply shape_res_zero; reflexivity).
  rewrite !E. assert (Reqb 0 0 = true) as -> by (apply Reqb_true; reflexivity). reflexivity.
Qed.

(* w >= 2 pixels over a positive span: the extent divided into w pixels has exactly that pixel size *)
Lemma shape_pixel_size span n x0 : (2 <= n)%Z ->
  ((x0 + span + shape_res span n / 2) - (x0 - shape_res span n / 2)) / IZR n = shape_res span n.
Proof.
  intros Hn. unfold shape_res. rewrite Z.max_l by lia. rewrite minus_IZR.
  assert (2 <= IZR n) by (apply (IZR_le 2); lia). field. lra.
Qed.

(* ------------------------------------------------------------------ resolution given *)
Definition kfloor (c r : R) : Z := Zfloor ((c - r / 2) / r).
Definition kceil (c r : R) : Z := Zceil ((c + r / 2) / r).

Definition cd_res_clean (c0 c1 c2 c3 rx ry : R) : option (ext4 * Z * Z) :=
  let e := (IZR (kfloor c0 rx) * rx, IZR (kfloor c1 ry) * ry, IZR (kceil c2 rx) * rx, IZR (kceil c3 ry) * ry) in
  Some (e, ZnearestE ((IZR (kceil c2 rx) * rx - IZR (kfloor c0 rx) * rx) / rx),
           ZnearestE ((IZR (kceil c3 ry) * ry - IZR (kfloor c1 ry) * ry) / ry)).

Lemma gen_cd_res_char c0 c1 c2 c3 rx ry aou :
  gen_cd_res RO (c0, c1, c2, c3) (rx, ry) tt aou = cd_res_clean c0 c1 c2 c3 rx ry.
Proof. reflexivity. Qed.
Lemma gen_cd_res_scalar_char c0 c1 c2 c3 r aou :
  gen_cd_res_scalar RO (c0, c1, c2, c3) r tt aou = cd_res_clean c0 c1 c2 c3 r r.
Proof. reflexivity. Qed.

Lemma nearest_of_int_quot (a b : Z) r : r <> 0 -> ZnearestE ((IZR a * r - IZR b * r) / r) = (a - b)%Z.
Proof.
  intros Hr. replace ((IZR a * r - IZR b * r) / r) with (IZR (a - b)) by (rewrite minus_IZR; field; assumption).
  apply Znearest_imp. rewrite Rminus_eq_0, Rabs_R0. lra.
Qed.

Lemma kfloor_lt c r : 0 < r -> IZR (kfloor c r) * r < c.
Proof.
  intros Hr. unfold kfloor. pose proof (Zfloor_lb ((c - r / 2) / r)) as H.
  apply Rmult_le_compat_r with (r := r) in H; [|lra].
  replace ((c - r / 2) / r * r) with (c - r / 2) in H by (field; lra). lra.
Qed.
Lemma kceil_gt c r : 0 < r -> c < IZR (kceil c r) * r.
Proof.
  intros Hr. unfold kceil. pose proof (Zceil_ub ((c + r / 2) / r)) as H.
  apply Rmult_le_compat_r with (r := r) in H; [|lra].
  replace ((c + r / 2) / r * r) with (c + r / 2) in H by (field; lra). lra.
Qed.
Lemma kfloor_lt_kceil a b r : 0 < r -> a <= b -> (kfloor a r < kceil b r)%Z.
Proof.
  intros Hr Hab. pose proof (kfloor_lt a r Hr). pose proof (kceil_gt b r Hr).
  apply lt_IZR. apply Rmult_lt_reg_r with r; lra.
Qed.

(* the result in resolution mode, with the sizes in closed form *)
Lemma cd_res_spec c0 c1 c2 c3 rx ry : 0 < rx -> 0 < ry ->
  cd_res_clean c0 c1 c2 c3 rx ry =
    Some ((IZR (kfloor c0 rx) * rx, IZR (kfloor c1 ry) * ry, IZR (kceil c2 rx) * rx, IZR (kceil c3 ry) * ry),
          (kceil c2 rx - kfloor c0 rx)%Z, (kceil c3 ry - kfloor c1 ry)%Z).
Proof.
  intros Hx Hy. unfold cd_res_clean. rewrite !nearest_of_int_quot by lra. reflexivity.
Qed.

(* ------------------------------------------------------------------ x corners None (global_extents) *)
Definition ucfe_shape_clean (W E : R) (w : Z) : R * R :=
  let xr := (E - W) / IZR (Z.max w 2) in (W + xr / 2, E - xr / 2).

Lemma gen_ucfe_shape_char c1 c3 h w aou :
  gen_ucfe_shape RO (tt, c1, tt, c3) (h, w) tt aou =
    (fst (ucfe_shape_clean (aou_west aou) (aou_east aou) w), c1, snd (ucfe_shape_clean (aou_west aou) (aou_east aou) w), c3).
Proof. unfold gen_ucfe_shape, ucfe_shape_clean, aou_of. cbn -[Z.max]. rewrite ?Rmult_1_r. reflexivity. Qed.

Lemma gen_cd_shape_glob_char c1 c3 w h aou :
  gen_cd_shape_glob RO (tt, c1, tt, c3) tt (h, w) aou =
    cd_shape_clean (fst (ucfe_shape_clean (aou_west aou) (aou_east aou) w)) c1
                   (snd (ucfe_shape_clean (aou_west aou) (aou_east aou) w)) c3 w h.
Proof.
  rewrite <- gen_cd_shape_char with (aou := aou). unfold gen_cd_shape_glob, gen_cd_shape, gen_ucfe_keep.
  rewrite gen_ucfe_shape_char. reflexivity.
Qed.

(* the full-extent centres give back exactly the area of use as x extent, for every width >= 1 *)
Lemma ucfe_shape_extent W E w : (1 <= w)%Z -> W < E ->
  let '(a, b) := ucfe_shape_clean W E w in
  a < b /\ a - shape_res (b - a) w / 2 = W /\ b + shape_res (b - a) w / 2 = E.
Proof.
  intros Hw HWE. unfold ucfe_shape_clean, shape_res.
  destruct (Z.eq_dec w 1) as [->|Hn].
  - cbn. lra.
  - rewrite (Z.max_l w 2), (Z.max_l (w - 1) 1) by lia. rewrite minus_IZR.
    assert (2 <= IZR w) by (apply (IZR_le 2); lia).
    split; [|split; field; lra].
    assert (0 < (E - W) * (1 - / IZR w)) as P.
    { apply Rmult_lt_0_compat; [lra|]. assert (/ IZR w <= / 2) by (apply Rinv_le_contravar; lra). lra. }
    replace ((E - W) * (1 - / IZR w)) with (E - (E - W) / IZR w / 2 - (W + (E - W) / IZR w / 2)) in P by (field; lra).
    lra.
Qed.

Definition ucfe_res_clean (W E rx : R) : R * R := (W + rx / 2, E - rx / 2).
Lemma gen_ucfe_res_char c1 c3 rx ry aou :
  gen_ucfe_res RO (tt, c1, tt, c3) tt (rx, ry) aou =
    (fst (ucfe_res_clean (aou_west aou) (aou_east aou) rx), c1, snd (ucfe_res_clean (aou_west aou) (aou_east aou) rx), c3).
Proof. unfold gen_ucfe_res, ucfe_res_clean, aou_of. cbn. rewrite ?Rmult_1_r. reflexivity. Qed.
Lemma gen_cd_res_glob_char c1 c3 rx ry aou :
  gen_cd_res_glob RO (tt, c1, tt, c3) (rx, ry) tt aou =
    cd_res_clean (fst (ucfe_res_clean (aou_west aou) (aou_east aou) rx)) c1
                 (snd (ucfe_res_clean (aou_west aou) (aou_east aou) rx)) c3 rx ry.
Proof.
  rewrite <- gen_cd_res_char with (aou := aou). unfold gen_cd_res_glob, gen_cd_res, gen_ucfe_keep.
  rewrite gen_ucfe_res_char. reflexivity.
Qed.
Lemma gen_cd_res_scalar_glob_char c1 c3 r aou :
  gen_cd_res_scalar_glob RO (tt, c1, tt, c3) r tt aou =
    cd_res_clean (fst (ucfe_res_clean (aou_west aou) (aou_east aou) r)) c1
                 (snd (ucfe_res_clean (aou_west aou) (aou_east aou) r)) c3 r r.
Proof.
  rewrite <- gen_cd_res_char with (aou := aou). unfold gen_cd_res_scalar_glob, gen_cd_res, gen_ucfe_keep.
  rewrite gen_ucfe_res_char. reflexivity.
Qed.

Lemma ucfe_res_bounds W E r : 0 < r -> W < E ->
  IZR (kfloor (W + r / 2) r) * r <= W /\ E <= IZR (kceil (E - r / 2) r) * r /\ (kfloor (W + r / 2) r < kceil (E - r / 2) r)%Z.
Proof.
  intros Hr HWE. unfold kfloor, kceil.
  replace (W + r / 2 - r / 2) with W by lra. replace (E - r / 2 + r / 2) with E by lra.
  pose proof (Zfloor_lb (W / r)) as H1. pose proof (Zceil_ub (E / r)) as H2.
  apply Rmult_le_compat_r with (r := r) in H1; [|lra]. apply Rmult_le_compat_r with (r := r) in H2; [|lra].
  replace (W / r * r) with W in H1 by (field; lra). replace (E / r * r) with E in H2 by (field; lra).
  split; [lra|]. split; [lra|]. apply lt_IZR. apply Rmult_lt_reg_r with r; lra.
Qed.

(* ------------------------------------------------------------------ error kinds *)
Lemma gen_cd_both_none c r s aou : @gen_cd_both R c r s aou = None. Proof. reflexivity. Qed.
Lemma gen_cd_neither_none c aou : @gen_cd_neither R c tt tt aou = None. Proof. reflexivity. Qed.
