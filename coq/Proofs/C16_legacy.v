(* C16 - alternative entry points: the complete sides (vertices_per_side=None, get_boundary_lonlats), vertices_per_side
   beyond both sides, and AreaBoundary.decimate (AreaDefBoundary(area, frequency)). *)
From Coq Require Import ZArith List Lia Bool Arith Sorted.
From PR Require Import Base.ListX Model.Boundary Proofs.C16_idx Proofs.C16_ring.
Import ListNotations.
Open Scope Z_scope.

(* ------------------------------------------------------------------ complete sides *)
Lemma idx_full n i : 2 <= n -> idx n (Z.to_nat n) i = Z.of_nat i.
Proof.
  intros Hn. unfold idx. rewrite Z2Nat.id by lia. apply Z.div_mul. lia.
Qed.

Lemma idx_list_full n : 2 <= n -> idx_list n (Z.to_nat n) = zrange n.
Proof.
  intros Hn. unfold idx_list, zrange. apply map_ext. intros i. apply idx_full. exact Hn.
Qed.

Theorem full_sides_are_vps_none h w : 2 <= h -> 2 <= w -> c_sides h w None = full_sides h w.
Proof.
  intros Hh Hw. unfold c_sides, bbox_sides, sides_num, full_sides, num_of.
  rewrite !idx_list_desc_rev, !idx_list_full by assumption. reflexivity.
Qed.

Theorem vps_beyond_sides_is_full h w v : 2 <= h -> 2 <= w -> h <= v -> w <= v ->
  c_sides h w (Some v) = c_sides h w None.
Proof.
  intros Hh Hw Hhv Hwv. unfold c_sides, bbox_sides, num_of.
  replace (Z.min v (Z.max h 2)) with h by lia. replace (Z.min v (Z.max w 2)) with w by lia. reflexivity.
Qed.

(* every edge pixel is a vertex of the complete ring *)
Theorem full_ring_covers_edge h w p : 2 <= h -> 2 <= w -> on_edge h w p -> In p (contour (c_sides h w None)).
Proof.
  intros Hh Hw (Hr & Hc & He). destruct p as [r c]. cbn [fst snd] in *.
  unfold c_sides, bbox_sides. fold (c_sides_num h w (num_of None h) (num_of None w)).
  rewrite contour_sides_num. unfold num_of, top', right', bottom', left'.
  assert (Hi : forall n i, 2 <= n -> idx n (Z.to_nat n) i = Z.of_nat i) by (intros; apply idx_full; assumption).
  rewrite !in_app_iff.
  destruct (Z.eq_dec r 0) as [Hr0|Hr0]; [destruct (Z.eq_dec c (w - 1)) as [Hcw|Hcw]|].
  - (* (0, w-1): first vertex of the right side *)
    right; left. apply in_map_iff. exists 0%nat. split.
    + rewrite Hi by assumption. subst. reflexivity.
    + apply in_seq. lia.
  - left. apply in_map_iff. exists (Z.to_nat c). split.
    + rewrite Hi by assumption. rewrite Z2Nat.id by lia. subst. reflexivity.
    + apply in_seq. lia.
  - destruct (Z.eq_dec c 0) as [Hc0|Hc0].
    + (* left column, r > 0 *)
      right; right; right. apply in_map_iff. exists (Z.to_nat (h - 1 - r)). split.
      * rewrite Hi by assumption. subst. f_equal. lia.
      * apply in_seq. lia.
    + destruct (Z.eq_dec r (h - 1)) as [Hrh|Hrh].
      * (* bottom row, c > 0 *)
        right; right; left. apply in_map_iff. exists (Z.to_nat (w - 1 - c)). split.
        -- rewrite Hi by assumption. subst. f_equal. lia.
        -- apply in_seq. lia.
      * (* right column, 0 < r < h-1 *)
        assert (c = w - 1) by lia.
        right; left. apply in_map_iff. exists (Z.to_nat r). split.
        -- rewrite Hi by assumption. rewrite Z2Nat.id by lia. subst. reflexivity.
        -- apply in_seq. lia.
Qed.
