(* C09: the zig-zag scan over an affine source gives every target pixel its exact position (or none),
   independently of the carried-over start position. *)
From Coq Require Import Reals ZArith Lra Lia Bool List Psatz.
From Flocq Require Import Zaux Raux.
From PR Require Import Base.Num Base.RNum Base.Slice Model.Blockwise Model.Gradient Proofs.C09_newton.
Import ListNotations.
Open Scope R_scope.

Lemma Forall2_rev_both {A B} (R : A -> B -> Prop) l l' : Forall2 R l l' -> Forall2 R (rev l) (rev l').
Proof.
  induction 1; cbn; [constructor|]. apply Forall2_app; [assumption|]. constructor; [assumption|constructor].
Qed.
Lemma Forall2_fun_map {A B} (g : A -> B) l l' : Forall2 (fun x y => y = g x) l l' -> l' = map g l.
Proof. induction 1; cbn; congruence. Qed.
Lemma Forall2_impl {A B} (R S : A -> B -> Prop) l l' : (forall x y, R x y -> S x y) -> Forall2 R l l' -> Forall2 S l l'.
Proof. intros H. induction 1; constructor; auto. Qed.

(* inside the hull of the source pixel centres *)
Definition inside (lmax pmax : Z) (L P : R) : bool :=
  Rleb 0 L && Rleb L (IZR lmax) && Rleb 0 P && Rleb P (IZR pmax).
Lemma inside_true lmax pmax L P : inside lmax pmax L P = true <-> (0 <= L <= IZR lmax /\ 0 <= P <= IZR pmax).
Proof. unfold inside. rewrite !andb_true_iff, !Rleb_true. lra. Qed.

Section ScanAffine.
  Variables x0 y0 a b c e : R.
  Hypothesis Hdet : c * b - e * a <> 0.
  Variables lmax pmax : Z.
  Hypothesis Hl : (0 <= lmax < 2 ^ 31)%Z.
  Hypothesis Hp : (0 <= pmax < 2 ^ 31)%Z.
  Context {A : Type}.
  Variable kern : Z -> Z -> R -> R -> A.
  (* what the kernel is required to deliver at the exact position (L, P) *)
  Variable K : R -> R -> A -> Prop.
  Hypothesis kern_ok : forall l1 p1 dl dp,
    in_image lmax pmax l1 p1 = true -> Rabs dl < 1 -> Rabs dp < 1 ->
    0 <= IZR l1 + dl <= IZR lmax -> 0 <= IZR p1 + dp <= IZR pmax ->
    K (IZR l1 + dl) (IZR p1 + dp) (kern l1 p1 dl dp).

  Notation F := (affF x0 y0 a b c e).
  Notation eL := (exactL x0 y0 a b c e).
  Notation eP := (exactP x0 y0 a b c e).

  Definition pix_rel (t : R * R) (o : option A) : Prop :=
    if inside lmax pmax (eL (fst t) (snd t)) (eP (fst t) (snd t))
    then exists v, o = Some v /\ K (eL (fst t) (snd t)) (eP (fst t) (snd t)) v
    else o = None.
  Definition st_ok (st : sstate) : Prop :=
    in_image lmax pmax (s_l0 st) (s_p0 st) = true /\ in_image lmax pmax (s_last_l0 st) (s_last_p0 st) = true.

  Lemma pixel_ok st t : st_ok st ->
    st_ok (fst (pixel RO F lmax pmax kern st t)) /\ pix_rel t (snd (pixel RO F lmax pmax kern st t)).
  Proof.
    intros [H0 H1]. unfold pixel. unfold is_inf. cbn [isfinite isnan RO negb andb].
    destruct t as [tx ty]. cbn [fst snd].
    destruct (newton RO F lmax pmax tx ty 5 (s_l0 st) (s_p0 st)) as [l1 p1 dl dp|] eqn:N.
    - destruct (newton_conv_exact x0 y0 a b c e Hdet lmax pmax tx ty _ _ _ _ _ _ _ N) as (EL & EP & Hin & Hdl & Hdp).
      cbn [fst snd]. split; [split; exact Hin|].
      unfold pix_rel. cbn [fst snd].
      assert (E : in_range RO lmax pmax l1 p1 dl dp = inside lmax pmax (eL tx ty) (eP tx ty)).
      { unfold in_range, inside, zeroT. cbn [leb add ofZ RO].
        replace (dl + IZR l1) with (eL tx ty) by lra. replace (dp + IZR p1) with (eP tx ty) by lra. reflexivity. }
      rewrite E. destruct (inside lmax pmax (eL tx ty) (eP tx ty)) eqn:I; [|reflexivity].
      apply inside_true in I. eexists; split; [reflexivity|].
      rewrite <- EL, <- EP. apply kern_ok; try assumption; lra.
    - cbn [fst snd]. split; [split; exact H1|].
      unfold pix_rel. cbn [fst snd]. destruct (inside lmax pmax (eL tx ty) (eP tx ty)) eqn:I; [|reflexivity].
      apply inside_true in I. destruct I as [IL IP].
      destruct (newton_converges x0 y0 a b c e Hdet lmax pmax tx ty Hl Hp 3%nat _ _ H0 IL IP) as (l1 & p1 & dl & dp & C).
      rewrite C in N. discriminate.
  Qed.

  Lemma scan_row_ok dst : forall js st, st_ok st ->
    st_ok (fst (scan_row RO F lmax pmax kern dst st js)) /\
    Forall2 (fun j o => pix_rel (dst j) o) js (snd (scan_row RO F lmax pmax kern dst st js)).
  Proof.
    induction js as [|j r IH]; intros st Hst; cbn [scan_row]; [split; [exact Hst|constructor]|].
    pose proof (pixel_ok st (dst j) Hst) as [S1 R1].
    destruct (pixel RO F lmax pmax kern st (dst j)) as [st1 o]. cbn [fst snd] in S1, R1.
    specialize (IH st1 S1). destruct (scan_row RO F lmax pmax kern dst st1 r) as [st2 os]. cbn [fst snd] in *.
    destruct IH as [S2 R2]. split; [exact S2|constructor; assumption].
  Qed.

  Lemma scan_rows_ok dst W : forall rows st fwd, st_ok st ->
    Forall2 (fun i row => Forall2 (fun j o => pix_rel (dst i j) o) (zrange 0 W) row)
            rows (scan_rows RO F lmax pmax kern dst W st fwd rows).
  Proof.
    induction rows as [|i r IH]; intros st fwd Hst; cbn [scan_rows]; [constructor|].
    pose proof (scan_row_ok (dst i) (if fwd then zrange 0 W else rev (zrange 0 W)) st Hst) as [S1 R1].
    destruct (scan_row RO F lmax pmax kern (dst i) st (if fwd then zrange 0 W else rev (zrange 0 W))) as [st' res].
    cbn [fst snd] in S1, R1. constructor; [|apply IH; exact S1].
    destruct fwd; [exact R1|]. apply Forall2_rev_both in R1. rewrite rev_involutive in R1. exact R1.
  Qed.

  Lemma init_ok : st_ok (init_state lmax pmax).
  Proof.
    unfold st_ok, init_state; cbn [s_l0 s_p0 s_last_l0 s_last_p0].
    assert (in_image lmax pmax (lmax ÷ 2) (pmax ÷ 2) = true).
    { apply in_image_spec. pose proof (Z.quot_pos lmax 2). pose proof (Z.quot_pos pmax 2).
      pose proof (Z.quot_le_upper_bound lmax 2 lmax). pose proof (Z.quot_le_upper_bound pmax 2 pmax). lia. }
    split; assumption.
  Qed.

  (* every pixel of the scanned image satisfies the pointwise specification *)
  Theorem search_rel dst H W :
    Forall2 (fun i row => Forall2 (fun j o => pix_rel (dst i j) o) (zrange 0 W) row)
            (zrange 0 H) (search RO F lmax pmax kern dst H W).
  Proof. unfold search. apply scan_rows_ok. exact init_ok. Qed.

  (* a kernel whose requirement determines its value *)
  Variable kspec : R -> R -> A.
  Hypothesis K_fun : forall L P v, K L P v -> v = kspec L P.
  Definition pix_spec (t : R * R) : option A :=
    if inside lmax pmax (eL (fst t) (snd t)) (eP (fst t) (snd t))
    then Some (kspec (eL (fst t) (snd t)) (eP (fst t) (snd t))) else None.

  Theorem search_eq dst H W :
    search RO F lmax pmax kern dst H W = tab (fun i j => pix_spec (dst i j)) 0 H 0 W.
  Proof.
    unfold tab. apply Forall2_fun_map. eapply Forall2_impl; [|apply search_rel].
    intros i row Hrow. cbn beta in Hrow. apply Forall2_fun_map. eapply Forall2_impl; [|exact Hrow].
    intros j o Ho. cbn beta in Ho. unfold pix_rel in Ho. unfold pix_spec.
    destruct (inside lmax pmax (eL (fst (dst i j)) (snd (dst i j))) (eP (fst (dst i j)) (snd (dst i j)))); [|exact Ho].
    destruct Ho as (v & -> & Kv). f_equal. apply K_fun. exact Kv.
  Qed.
End ScanAffine.
