(* C08: ll2cr assigns to a projected point exactly the fractional column/row of the area's own grid map
   (get_array_coordinates_from_projection_coordinates = Grid.arr_of_proj_x/_y), also for flipped extents, writes the
   fill where the projection failed (x >= 1e30), and counts the points within one cell of the grid. Over the reals. *)
From Coq Require Import Reals ZArith Lra Lia List Bool.
From Flocq Require Import Zaux Raux.
From PR Require Import Base.Num Base.RNum Model.Grid Model.EWA Proofs.Grid_real.
Import ListNotations.
Open Scope R_scope.

Lemma big30_pos : 0 < big30 RO.
Proof.
  unfold big30. cbn [lit RO]. apply Rmult_lt_0_compat; [apply IZR_lt; lia | apply bpow_gt_0].
Qed.

Lemma ll2cr_row_eq a y :
  wf_area a ->
  div RO (sub RO y (cp_oy (ll2cr_params RO a))) (cp_ch (ll2cr_params RO a)) = arr_of_proj_y RO a y.
Proof.
  intros Hwf. pose proof (dy_nonzero a Hwf) as Hy.
  unfold arr_of_proj_y, yscale, upl_y, ll2cr_params. cbn.
  change ((ymax a - ymin a) / IZR (height a)) with (dyR a). field. exact Hy.
Qed.
Lemma ll2cr_col_eq a x :
  div RO (sub RO x (cp_ox (ll2cr_params RO a))) (cp_cw (ll2cr_params RO a)) = arr_of_proj_x RO a x.
Proof. reflexivity. Qed.

Lemma ll2cr_pixel_fill a fill x y :
  big30 RO <= x -> ll2cr_pixel RO (ll2cr_params RO a) fill (x, y) = (fill, fill, false).
Proof.
  intros Hx. unfold ll2cr_pixel. cbn [leb RO].
  destruct (Rleb (big30 RO) x) eqn:E; [reflexivity | apply Rleb_false in E; lra].
Qed.

(* the counting test, as a proposition *)
Definition within_one_cell (a : area R) (c r : R) : Prop :=
  -1 <= c <= IZR (width a) + 1 /\ -1 <= r <= IZR (height a) + 1.

Lemma in_grid_test_spec a c r :
  in_grid_test RO (ll2cr_params RO a) c r = true <-> within_one_cell a c r.
Proof.
  unfold in_grid_test, within_one_cell. cbn. rewrite !andb_true_iff, !Rleb_true, !plus_IZR. cbn. lra.
Qed.

(* the specification the theorems compare with *)
Definition area_cr (a : area R) (fill : R) (xy : R * R) : R * R :=
  if Rleb (big30 RO) (fst xy) then (fill, fill) else (arr_of_proj_x RO a (fst xy), arr_of_proj_y RO a (snd xy)).
Definition counted_b (a : area R) (xy : R * R) : bool :=
  negb (Rleb (big30 RO) (fst xy)) &&
  in_grid_test RO (ll2cr_params RO a) (arr_of_proj_x RO a (fst xy)) (arr_of_proj_y RO a (snd xy)).

Lemma counted_b_spec a xy :
  counted_b a xy = true <->
  fst xy < big30 RO /\ within_one_cell a (arr_of_proj_x RO a (fst xy)) (arr_of_proj_y RO a (snd xy)).
Proof.
  unfold counted_b. rewrite andb_true_iff, negb_true_iff, Rleb_false, in_grid_test_spec. tauto.
Qed.

Lemma ll2cr_pixel_spec a fill xy :
  wf_area a ->
  ll2cr_pixel RO (ll2cr_params RO a) fill xy = (area_cr a fill xy, counted_b a xy).
Proof.
  intros Hwf. destruct xy as [x y]. unfold area_cr, counted_b. cbn [fst snd].
  destruct (Rleb (big30 RO) x) eqn:E.
  - apply Rleb_true in E. rewrite ll2cr_pixel_fill by assumption. reflexivity.
  - unfold ll2cr_pixel. cbn [leb RO]. rewrite E. cbn [negb andb].
    rewrite ll2cr_row_eq by assumption. rewrite ll2cr_col_eq. reflexivity.
Qed.

Lemma count_true_from (l : list bool) n :
  fold_left (fun (n : Z) (b : bool) => if b then (n + 1)%Z else n) l n = (n + Z.of_nat (length (filter (fun b => b) l)))%Z.
Proof.
  revert n. induction l as [|b l IH]; intros n; cbn [fold_left filter length].
  - lia.
  - rewrite IH. destruct b; cbn [length]; lia.
Qed.

Lemma count_true_filter {A} (f : A -> bool) (l : list A) :
  count_true (map f l) = Z.of_nat (length (filter f l)).
Proof.
  unfold count_true. rewrite count_true_from. rewrite Z.add_0_l. f_equal.
  induction l as [|x l IH]; cbn; [reflexivity|]. destruct (f x); cbn; rewrite IH; reflexivity.
Qed.

Theorem ll2cr_is_area_map (proj : R * R -> R * R) a fill lonlats :
  wf_area a ->
  snd (ll2cr_lonlat RO proj a fill lonlats) = map (fun ll => area_cr a fill (proj ll)) lonlats.
Proof.
  intros Hwf. unfold ll2cr_lonlat, ll2cr, ll2cr_static. cbn [snd].
  rewrite !map_map. apply map_ext. intros ll. rewrite ll2cr_pixel_spec by assumption. reflexivity.
Qed.

Theorem points_in_grid_spec (proj : R * R -> R * R) a fill lonlats :
  wf_area a ->
  fst (ll2cr_lonlat RO proj a fill lonlats) =
  Z.of_nat (length (filter (fun ll => counted_b a (proj ll)) lonlats)).
Proof.
  intros Hwf. unfold ll2cr_lonlat, ll2cr, ll2cr_static. cbn [fst].
  rewrite !map_map.
  rewrite (map_ext _ (fun ll => counted_b a (proj ll))).
  - apply count_true_filter.
  - intros ll. rewrite ll2cr_pixel_spec by assumption. reflexivity.
Qed.

(* the canonical reading: column c, row r of a projected point, for north-up and for flipped extents alike *)
Lemma area_cr_canonical a fill x y :
  wf_area a -> x < big30 RO ->
  area_cr a fill (x, y) = ((x - xmin a) / dxR a - /2, (ymax a - y) / dyR a - /2).
Proof.
  intros Hwf Hx. unfold area_cr. cbn [fst snd].
  destruct (Rleb (big30 RO) x) eqn:E; [apply Rleb_true in E; lra|].
  rewrite arr_of_proj_x_canonical, arr_of_proj_y_canonical by assumption. reflexivity.
Qed.
