(* C10 -- code is model: the definitions regenerated from StackedAreaDefinition.append / squeeze / width / height
   (tools/py2coq_imp.py, Gen/GenC10imp.v) are the hand model of Model/Stack.v, for every arithmetic instance. *)
From Coq Require Import ZArith List Lia Bool.
From PR Require Import Base.Num Base.ZX Base.Slice Base.Imp Model.Grid Model.SliceArea Model.Stack Model.ImpStack
     Gen.GenC10 Gen.GenC10imp Proofs.C10_gen.
Import ListNotations.
Open Scope Z_scope.

Section ImpStackProofs.
  Context {T : Type} (OP : ops T).

  Ltac sa_proj := cbn [imp_stack_append_self imp_stack_append_definition imp_stack_append__call
                       imp_stack_append_set_self imp_stack_append_set_definition imp_stack_append_set__call
                       ps_crs ps_defs ps_hash ps_lons ps_lats].
  Ltac istep := repeat (first [rewrite seq_assoc | rewrite andthen_assign | rewrite andthen_skip | rewrite andthen_ite
                              | rewrite andthen_raise | rewrite andthen_check]; cbv beta; sa_proj).

  (* ---- Python's l[-1] on a non-empty list *)
  Lemma idx_ok_last {A} (l : list A) x : idx_ok (l ++ [x]) (-1) = true.
  Proof. unfold idx_ok, Imp.zlen, SliceArea.zlen. rewrite app_length. cbn. apply andb_true_intro. split; [apply Z.leb_le|apply Z.ltb_lt]; lia. Qed.
  Lemma idx_ok_nil {A} : idx_ok (@nil A) (-1) = false.
  Proof. reflexivity. Qed.
  Lemma idx_last {A} (d : A) (l : list A) x : idx d (l ++ [x]) (-1) = x.
  Proof.
    unfold idx, Imp.zlen, SliceArea.zlen. rewrite app_length. cbn [length Z.ltb Z.compare].
    replace (Z.to_nat (-1 + Z.of_nat (length l + 1))) with (length l) by lia.
    rewrite app_nth2 by lia. rewrite Nat.sub_diag. reflexivity.
  Qed.
  Lemma list_set_last {A} (l : list A) x v : list_set (l ++ [x]) (-1) v = l ++ [v].
  Proof.
    unfold list_set, Imp.zlen, SliceArea.zlen. rewrite app_length. cbn [length Z.ltb Z.compare].
    replace (Z.to_nat (-1 + Z.of_nat (length l + 1))) with (length l) by lia.
    rewrite firstn_app, Nat.sub_diag, firstn_all. cbn [firstn]. rewrite app_nil_r.
    rewrite skipn_all2 by (rewrite app_length; cbn; lia). reflexivity.
  Qed.

  Lemma try_raised {St Y R} (a h k : M St Y R) s : a s = Raised -> andthen (try_ a h) k s = andthen h k s.
  Proof. intros E. unfold andthen at 1, try_. rewrite E. reflexivity. Qed.
  Lemma try_fall {St Y R} (a h k : M St Y R) s ys s' : a s = Fall ys s' -> andthen (try_ a h) k s = prepend ys (k s').
  Proof. intros E. unfold andthen at 1, try_. rewrite E. reflexivity. Qed.

  (* what append leaves in the memoised attributes *)
  Definition memo_reset (p : pstack T) : Prop := ps_hash p = None /\ ps_lons p = None /\ ps_lats p = None.

  (* StackedAreaDefinition.append(definition) for an AreaDefinition argument = Model.Stack.stack_append *)
  Lemma imp_stack_append_model (p : pstack T) (d : garea T) :
    match stack_append OP (to_stack p) d with
    | None => imp_stack_append OP p d = Raised
    | Some s' => exists st', state_of (imp_stack_append OP p d) = COk st' /\ to_stack (imp_stack_append_self st') = s' /\
                             (gheight d <> 0 -> memo_reset (imp_stack_append_self st')) /\
                             (gheight d = 0 -> imp_stack_append_self st' = p)
    end.
  Proof.
    unfold stack_append, imp_stack_append. destruct p as [crs defs h lo la]. unfold to_stack. cbn [ps_crs ps_defs s_rdefs s_crs].
    rewrite andthen_ite. cbv beta. sa_proj.
    destruct (Z.eqb_spec (gheight d) 0) as [Hz|Hz].
    - rewrite andthen_ret. eexists. split; [reflexivity|]. sa_proj. split; [reflexivity|]. split; [intros H; congruence|reflexivity].
    - rewrite andthen_skip.
      destruct defs as [|x0 l0] using rev_ind.
      + (* first member: self.defs[-1] raises IndexError, the handler appends *)
        cbn [rev]. istep. cbn [Imp.zlen SliceArea.zlen length Z.of_nat Z.eqb]. istep.
        match goal with |- context [andthen (try_ ?A ?H) ?K ?s] =>
          assert (EA : A s = Raised) by (rewrite seq_assoc, andthen_check; cbv beta; sa_proj; reflexivity);
          rewrite (try_raised A H K s EA) end.
        istep. rewrite assign_eval. sa_proj.
        eexists. split; [reflexivity|]. cbn [state_of]. sa_proj. split; [reflexivity|]. split; [intros _; repeat split|intros E; congruence].
      + clear IHl0. rewrite rev_app_distr. cbn [rev app].
        istep. replace (SliceArea.zlen (l0 ++ [x0]) =? 0) with false
          by (symmetry; apply Z.eqb_neq; unfold SliceArea.zlen; rewrite app_length; cbn; lia).
        cbv iota.
        destruct (match crs with Some c => c =? g_crs d | None => false end) eqn:Ec; cbn [negb].
        * cbv iota. pose proof (gen_concat_eq OP x0 d) as Eg.
          destruct (concatenate_area_defs OP x0 d) as [m|] eqn:Em.
          -- match goal with |- context [andthen (try_ ?A ?H) ?K ?s] =>
               assert (EA : exists s1, A s = Fall [] s1 /\ imp_stack_append_self s1 = mk_pstack crs (l0 ++ [m]) h lo la /\
                                      imp_stack_append_definition s1 = d)
             end.
             { rewrite seq_assoc, andthen_check. cbv beta. sa_proj. rewrite idx_ok_last.
               unfold andthen at 1. unfold call_, value_of, ext_concat. sa_proj. rewrite idx_last, Eg.
               cbn [prepend app]. rewrite andthen_check. cbv beta. sa_proj. rewrite idx_ok_last. rewrite assign_eval. sa_proj.
               rewrite list_set_last. eexists. split; [reflexivity|]. sa_proj. split; reflexivity. }
             destruct EA as (s1 & EA & E1 & E2).
             match goal with |- context [andthen (try_ ?A ?H) ?K ?s] => rewrite (try_fall A H K s [] s1 EA) end.
             cbn [prepend app]. istep. rewrite assign_eval. sa_proj. rewrite E1. sa_proj.
             eexists. split; [reflexivity|]. sa_proj. split; [|split; [intros _; repeat split|intros E; congruence]].
             unfold to_stack; cbn [ps_crs ps_defs]. rewrite rev_app_distr. reflexivity.
          -- match goal with |- context [andthen (try_ ?A ?H) ?K ?s] =>
               assert (EA : A s = Raised) end.
             { rewrite seq_assoc, andthen_check. cbv beta. sa_proj. rewrite idx_ok_last.
               unfold andthen at 1. unfold call_, value_of, ext_concat. sa_proj. rewrite idx_last, Eg. reflexivity. }
             match goal with |- context [andthen (try_ ?A ?H) ?K ?s] => rewrite (try_raised A H K s EA) end.
             istep. rewrite assign_eval. sa_proj.
             eexists. split; [reflexivity|]. sa_proj. split; [|split; [intros _; repeat split|intros E; congruence]].
             unfold to_stack; cbn [ps_crs ps_defs]. rewrite !rev_app_distr. reflexivity.
        * reflexivity.
  Qed.
End ImpStackProofs.

From PR Require Import Model.C10_imp_run.

Section ImpStackMore.
  Context {T : Type} (OP : ops T).

  (* every sequence of appends: the regenerated code follows the model step by step (induction over the sequence) *)
  Lemma imp_append_all_model (ds : list (garea T)) : forall p : pstack T,
    match stack_append_all OP (to_stack p) ds with
    | None => imp_append_all OP p ds = CRaised
    | Some s' => exists p', imp_append_all OP p ds = COk p' /\ to_stack p' = s'
    end.
  Proof.
    induction ds as [|d r IH]; intros p; cbn [stack_append_all imp_append_all].
    - exists p. split; reflexivity.
    - pose proof (imp_stack_append_model OP p d) as H.
      destruct (stack_append OP (to_stack p) d) as [s1|].
      + destruct H as (st' & E & Es & _). rewrite E. specialize (IH (imp_stack_append_self st')). rewrite Es in IH. exact IH.
      + rewrite H. reflexivity.
  Qed.

  Lemma rev_two_not_single {A} (a b : A) r : match rev (a :: b :: r) with [_] => False | _ => True end.
  Proof.
    cbn [rev]. destruct (rev r) as [|x t]; cbn; [exact I|]. destruct (t ++ [b]) eqn:E; [destruct t; discriminate|].
    cbn. destruct l; exact I.
  Qed.

  Lemma imp_stack_squeeze_model (p : pstack T) :
    value_of (imp_stack_squeeze OP p) = COk (match stack_squeeze (to_stack p) with Some d => inl d | None => inr p end).
  Proof.
    destruct p as [crs defs h lo la].
    unfold imp_stack_squeeze, stack_squeeze, to_stack. cbn [s_rdefs ps_defs ps_crs]. rewrite ite_eval.
    cbn [imp_stack_squeeze_self ps_defs]. destruct defs as [|a [|b r]].
    - reflexivity.
    - cbn [SliceArea.zlen length Z.of_nat Pos.of_succ_nat Z.eqb Pos.eqb rev app]. rewrite andthen_check.
      cbn [imp_stack_squeeze_self ps_defs]. reflexivity.
    - replace (SliceArea.zlen (a :: b :: r) =? 1) with false
        by (symmetry; apply Z.eqb_neq; unfold SliceArea.zlen; cbn [length]; lia).
      pose proof (rev_two_not_single a b r) as H. destruct (rev (a :: b :: r)) as [|x [|y t]]; try reflexivity. destruct H.
  Qed.

  Lemma imp_stack_width_model (p : pstack T) :
    value_of (imp_stack_width OP p) = match ps_defs p with [] => CRaised | d :: _ => COk (gwidth d) end /\
    (ps_defs p <> [] -> value_of (imp_stack_width OP p) = COk (stack_width (to_stack p))).
  Proof.
    destruct p as [crs defs h lo la].
    unfold imp_stack_width, stack_width, stack_defs, to_stack. cbn [s_rdefs ps_defs]. rewrite rev_involutive.
    rewrite andthen_check. cbn [imp_stack_width_self ps_defs].
    destruct defs as [|d r]; [split; [reflexivity|congruence]|]. split; reflexivity.
  Qed.

  Lemma fold_left_add (l : list Z) : forall acc, fold_left Z.add l acc = acc + fold_right Z.add 0 l.
  Proof. induction l as [|x r IH]; intros acc; cbn; [lia|]. rewrite IH. lia. Qed.

  Lemma imp_stack_height_model (p : pstack T) : value_of (imp_stack_height p) = COk (stack_height (to_stack p)).
  Proof.
    destruct p as [crs defs h lo la].
    unfold imp_stack_height, stack_height, stack_defs, to_stack. cbn [s_rdefs ps_defs value_of ret imp_stack_height_self]. rewrite rev_involutive.
    f_equal. unfold zsum. rewrite fold_left_add. cbn. induction defs as [|d r IH]; cbn; [reflexivity|]. rewrite IH. reflexivity.
  Qed.
End ImpStackMore.
