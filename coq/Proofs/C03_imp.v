(* C03 (wave 3): kd_tree.get_neighbour_info as TRANSLATED from /repo (Gen/GenC03imp.v) returns, for every value of the
   segments argument, what its single full-slice query returns, when the kd-tree query is a per-row oracle. *)
From Coq Require Import ZArith List Bool Lia.
From PR Require Import Base.ZX Base.ListX Base.Slice Base.Imp Model.Partition Model.Organise Model.OrganiseImp
     Gen.GenC19 Gen.GenC03imp Proofs.C19_partition Proofs.C19_raa Proofs.C19_imp_raa Proofs.C19_imp_slice Proofs.C03_org.
Import ListNotations.
Open Scope Z_scope.

Ltac gproj := cbn [imp_get_neighbour_info__ret  imp_get_neighbour_info_appendable_distance_array  imp_get_neighbour_info_appendable_index_array  imp_get_neighbour_info_appendable_valid_output_index  imp_get_neighbour_info_cut_off  imp_get_neighbour_info_distance_array  imp_get_neighbour_info_epsilon  imp_get_neighbour_info_full_slice  imp_get_neighbour_info_index_array  imp_get_neighbour_info_neighbours  imp_get_neighbour_info_next_da  imp_get_neighbour_info_next_ia  imp_get_neighbour_info_next_voi  imp_get_neighbour_info_nprocs  imp_get_neighbour_info_radius_of_influence  imp_get_neighbour_info_reduce_data  imp_get_neighbour_info_resample_kdtree  imp_get_neighbour_info_segments  imp_get_neighbour_info_set__ret imp_get_neighbour_info_set_appendable_distance_array imp_get_neighbour_info_set_appendable_index_array imp_get_neighbour_info_set_appendable_valid_output_index imp_get_neighbour_info_set_cut_off imp_get_neighbour_info_set_distance_array imp_get_neighbour_info_set_epsilon imp_get_neighbour_info_set_full_slice imp_get_neighbour_info_set_index_array imp_get_neighbour_info_set_neighbours imp_get_neighbour_info_set_next_da imp_get_neighbour_info_set_next_ia imp_get_neighbour_info_set_next_voi imp_get_neighbour_info_set_nprocs imp_get_neighbour_info_set_radius_of_influence imp_get_neighbour_info_set_reduce_data imp_get_neighbour_info_set_resample_kdtree imp_get_neighbour_info_set_segments imp_get_neighbour_info_set_source_geo_def imp_get_neighbour_info_set_source_lats imp_get_neighbour_info_set_source_lons imp_get_neighbour_info_set_target_geo_def imp_get_neighbour_info_set_target_slice imp_get_neighbour_info_set_valid_input_index imp_get_neighbour_info_set_valid_output_index imp_get_neighbour_info_source_geo_def  imp_get_neighbour_info_source_lats  imp_get_neighbour_info_source_lons  imp_get_neighbour_info_target_geo_def  imp_get_neighbour_info_target_slice  imp_get_neighbour_info_valid_input_index  imp_get_neighbour_info_valid_output_index fst snd].
Ltac ev1 := first [rewrite andthen_skip | rewrite andthen_assign | rewrite andthen_check | rewrite seq_assoc | rewrite andthen_ret];
            cbv beta; gproj.

Section Loop.
  Context {A SRC TGT RAD EPS TREE VII LL P : Type}.
  Variables (src_size : SRC -> Z) (tgt_size : TGT -> Z) (tgt_shape : TGT -> list Z)
            (get_vii : SRC -> TGT -> bool -> RAD -> Z -> VII * LL * LL)
            (tree_ok : LL -> LL -> VII -> Z -> bool) (mk_tree : LL -> LL -> VII -> Z -> TREE)
            (empty_info : SRC -> TGT -> Z -> list (option A) * list (option A) * list (option A))
            (query_seg : TREE -> SRC -> TGT -> RAD -> (pslice + pslice * oslice) -> Z -> EPS -> bool -> Z -> list (option A) * list (option A) * list (option A))
            (query_full : TREE -> SRC -> TGT -> RAD -> oslice -> Z -> EPS -> bool -> Z -> list (option A) * list (option A) * list (option A))
            (all_inf : list (option A) -> bool) (nd : Z) (tree0 : TREE) (vii0 : VII) (ll0 : LL).
  Notation GNI := (imp_get_neighbour_info src_size tgt_size tgt_shape get_vii tree_ok mk_tree empty_info query_seg query_full all_inf nd tree0 vii0 ll0).

  (* the per-row oracle: pixel grid g (rows of target pixels), which pixels are queried, and the three rows per pixel *)
  Variables (g : list (list P)) (valid : P -> bool) (fv fi fd : P -> A).
  Definition q3 (ts : list P) : list (option A) * list (option A) * list (option A) :=
    (map Some (map fv ts), map Some (map fi (filter valid ts)), map Some (map fd (filter valid ts))).
  Definition wrap (rest : list Z) (x : pslice) : pslice + pslice * oslice :=
    match rest with [] => inl x | _ => inr (x, mk_oslice None None) end.

  Variables (src : SRC) (tgt : TGT) (rad : RAD) (k : Z) (eps : EPS) (red : bool) (np : Z) (rest : list Z).
  Let V := get_vii src tgt red rad np.
  Let tree := mk_tree (snd (fst V)) (snd V) (fst (fst V)) np.
  Hypothesis Hshape : tgt_shape tgt = Z.of_nat (length g) :: rest.
  Hypothesis Hrest : (length rest <= 1)%nat.
  Hypothesis Hg : g <> [].
  Hypothesis Hsize : 0 <= tgt_size tgt.
  Hypothesis Hseg : forall sl, query_seg tree src tgt rad (wrap rest sl) k eps red np = q3 (rows_of sl g).
  Hypothesis Hfull : query_full tree src tgt rad (mk_oslice None None) k eps red np = q3 (concat g).

  Lemma if_same {X} (b : bool) (x : X) : (if b then x else x) = x.
  Proof. destruct b; reflexivity. Qed.
  Lemma warn_noop {St Y R} (c1 c2 : St -> bool) (kk : M St Y R) s :
    andthen (ite c1 (ite c2 skip skip) skip) kk s = kk s.
  Proof. unfold andthen, ite, skip. destruct (c1 s); [destruct (c2 s)|]; apply prepend_nil. Qed.
  Lemma andthen_try_fall {St Y R} (a h kk : M St Y R) s ys s' :
    a s = Fall ys s' -> andthen (try_ a h) kk s = prepend ys (kk s').
  Proof. unfold andthen, try_. intros ->. reflexivity. Qed.

  Lemma get_slice_nonempty z n : 1 <= z -> 0 < n -> get_slice z n <> [].
  Proof.
    intros Hz Hn E. destruct (get_slice_partition z n ltac:(lia) Hz) as [Ht _]. rewrite E in Ht. cbn in Ht. lia.
  Qed.

  Lemma gen_slices_model z : 1 <= z ->
    gen_slices_ok z (tgt_shape tgt) = true /\ gen_slices z (tgt_shape tgt) = map (wrap rest) (get_slice z (Z.of_nat (length g))).
  Proof.
    intros Hz. unfold gen_slices_ok, gen_slices. rewrite Hshape.
    rewrite (imp_get_slice_yields z (Z.of_nat (length g)) rest (gs_fuel z) Hz ltac:(lia) Hrest ltac:(unfold gs_fuel; lia)).
    split; reflexivity.
  Qed.

  (* one array: appending the per-slice rows of a tiling and reading the array back gives the rows of the whole grid *)
  Lemma array_of_pieces (f : list P -> list A) cap l :
    (forall ll, f (concat ll) = concat (map f ll)) ->
    0 <= cap -> l <> [] -> tiles 0 l (Z.of_nat (length g)) ->
    let r := fold_left raa_append (map (fun s => f (rows_of s g)) l) (raa_init cap) in
    to_arr_ok r = true /\ to_arr r = map Some (f (concat g)).
  Proof.
    intros Hf Hcap Hne Ht r.
    assert (Hwf : raa_wf (@raa_init A cap)) by (unfold raa_wf, raa_init; cbn; lia).
    assert (Hne' : map (fun s => f (rows_of s g)) l <> []) by (destruct l; [congruence|discriminate]).
    destruct (fold_append_allocated _ (raa_init cap) Hne') as [d Hd]. fold r in Hd.
    pose proof (fold_append_wf (map (fun s => f (rows_of s g)) l) _ Hwf) as Hw. fold r in Hw.
    unfold raa_wf in Hw. rewrite Hd in Hw.
    pose proof (imp_to_array_model r d Hd Hw) as Hm.
    unfold to_arr_ok, to_arr. rewrite Hm. split; [reflexivity|].
    unfold r. rewrite raa_refines_concat. f_equal. apply (map_pieces f g l Hf Ht).
  Qed.

  Lemma app_row_model (r : @raa A) rows : raa_wf r ->
    app_row_ok r (map Some rows) nd = true /\ app_row_val r (map Some rows) nd = raa_append r rows.
  Proof.
    intros Hw. destruct (imp_append_row_model r rows nd Hw) as (st & E & Hs).
    unfold app_row_ok, app_row_val. rewrite E. split; [reflexivity|exact Hs].
  Qed.

  Theorem gni_segments_independent segments : tree_ok (snd (fst V)) (snd V) (fst (fst V)) np = true ->
    value_of (GNI src tgt rad k eps red np segments)
    = COk (fst (fst V), fst (fst (q3 (concat g))), snd (fst (q3 (concat g))), snd (q3 (concat g))).
  Proof.
    intros Hok. unfold imp_get_neighbour_info.
    rewrite andthen_ite. cbv beta. gproj. rewrite !andthen_skip, if_same.
    match goal with |- context [andthen (ite _ _ _) ?T _] => set (TAIL := T) end.
    assert (Htail : forall z c, value_of (TAIL (mk_imp_get_neighbour_info_st src tgt rad k eps red np (Some z) c vii0 ll0 ll0 tree0 [] [] []
                       (mk_raa 0 None 0) (mk_raa 0 None 0) (mk_raa 0 None 0) (inl (mk_slice 0 0)) [] [] [] (mk_oslice None None) (vii0, [], [], [])))
                     = COk (fst (fst V), fst (fst (q3 (concat g))), snd (fst (q3 (concat g))), snd (q3 (concat g)))).
    { intros z c. unfold TAIL. clear TAIL.
      rewrite andthen_assign. cbv beta. gproj. fold V.
      erewrite andthen_try_fall;
        [|rewrite andthen_check; cbv beta; gproj; rewrite Hok; rewrite assign_eval; gproj; reflexivity].
      rewrite prepend_nil. fold tree.
      rewrite seq_assoc, andthen_check. cbv beta. gproj.
      rewrite andthen_ite. cbv beta. gproj.
      destruct (z >? 1) eqn:Ez.
      - (* segments > 1: the loop *)
        assert (Hz : 1 <= z) by (apply Z.gtb_lt in Ez; lia).
        destruct (gen_slices_model z Hz) as [Gok Gsl].
        do 3 (rewrite seq_assoc, andthen_assign; cbv beta; gproj).
        rewrite !seq_assoc, andthen_check. cbv beta. gproj. rewrite Gok.
        match goal with |- context [for_ ?it ?b ?body] => pose (B := b); pose (BODY := body); change (for_ it b body) with (for_ it B BODY) end.
        set (ST := fun (ra ri rd : @raa A) (ts : pslice + pslice * oslice) (nv ni ndd : list (option A)) =>
               mk_imp_get_neighbour_info_st src tgt rad k eps red np (Some z) c (fst (fst V)) (snd (fst V)) (snd V) tree [] [] []
                 ra ri rd ts nv ni ndd (mk_oslice None None) (vii0, [], [], [])).
        assert (Hloop : forall l ra ri rd ts nv ni ndd, raa_wf ra -> raa_wf ri -> raa_wf rd ->
                  exists ts' nv' ni' ndd',
                    for_list (map (wrap rest) l) B BODY (ST ra ri rd ts nv ni ndd)
                    = Fall [] (ST (fold_left raa_append (map (fun sl => map fv (rows_of sl g)) l) ra)
                                  (fold_left raa_append (map (fun sl => map fi (filter valid (rows_of sl g))) l) ri)
                                  (fold_left raa_append (map (fun sl => map fd (filter valid (rows_of sl g))) l) rd)
                                  ts' nv' ni' ndd')).
        { induction l as [|sl l IH]; intros ra ri rd ts nv ni ndd Wa Wi Wd.
          - exists ts, nv, ni, ndd. reflexivity.
          - cbn [map for_list fold_left].
            destruct (app_row_model ra (map fv (rows_of sl g)) Wa) as [Oa Va].
            destruct (app_row_model ri (map fi (filter valid (rows_of sl g))) Wi) as [Oi Vi].
            destruct (app_row_model rd (map fd (filter valid (rows_of sl g))) Wd) as [Od Vd].
            destruct (IH (raa_append ra (map fv (rows_of sl g))) (raa_append ri (map fi (filter valid (rows_of sl g))))
                         (raa_append rd (map fd (filter valid (rows_of sl g))))
                         (wrap rest sl) (fst (fst (q3 (rows_of sl g)))) (snd (fst (q3 (rows_of sl g)))) (snd (q3 (rows_of sl g)))
                         (raa_append_wf _ _ Wa) (raa_append_wf _ _ Wi) (raa_append_wf _ _ Wd)) as (ts' & nv' & ni' & nd' & E).
            exists ts', nv', ni', nd'.
            rewrite (andthen_fall _ _ _ [] (ST (raa_append ra (map fv (rows_of sl g))) (raa_append ri (map fi (filter valid (rows_of sl g))))
                                           (raa_append rd (map fd (filter valid (rows_of sl g)))) (wrap rest sl)
                                           (fst (fst (q3 (rows_of sl g)))) (snd (fst (q3 (rows_of sl g)))) (snd (q3 (rows_of sl g)))));
              [rewrite prepend_nil; exact E|].
            unfold B, BODY, ST. cbv beta. gproj.
            rewrite andthen_assign. cbv beta. gproj. rewrite Hseg. unfold q3. gproj.
            rewrite seq_assoc, andthen_check. cbv beta. gproj. rewrite Oa.
            rewrite andthen_assign. cbv beta. gproj. rewrite Va.
            rewrite seq_assoc, andthen_check. cbv beta. gproj. rewrite Oi.
            rewrite andthen_assign. cbv beta. gproj. rewrite Vi.
            rewrite andthen_check. cbv beta. gproj. rewrite Od.
            rewrite assign_eval. gproj. rewrite Vd. reflexivity. }
        assert (Wf0 : raa_wf (@raa_init A (tgt_size tgt))) by (unfold raa_wf, raa_init; cbn; lia).
        destruct (Hloop (get_slice z (Z.of_nat (length g))) (raa_init (tgt_size tgt)) (raa_init (tgt_size tgt)) (raa_init (tgt_size tgt))
                        (inl (mk_slice 0 0)) [] [] [] Wf0 Wf0 Wf0) as (ts' & nv' & ni' & nd' & E).
        destruct (get_slice_partition z (Z.of_nat (length g)) ltac:(lia) Hz) as [Ht _].
        assert (Hne : get_slice z (Z.of_nat (length g)) <> []).
        { apply get_slice_nonempty; [exact Hz|]. destruct g; [congruence|cbn; lia]. }
        destruct (array_of_pieces (map fv) (tgt_size tgt) _ ltac:(intros; apply concat_map) Hsize Hne Ht) as [Ka Ra].
        destruct (array_of_pieces (fun l => map fi (filter valid l)) (tgt_size tgt) _
                    ltac:(intros ll; cbv beta; rewrite <- concat_filter_map, concat_map, map_map; reflexivity) Hsize Hne Ht) as [Ki Ri].
        destruct (array_of_pieces (fun l => map fd (filter valid l)) (tgt_size tgt) _
                    ltac:(intros ll; cbv beta; rewrite <- concat_filter_map, concat_map, map_map; reflexivity) Hsize Hne Ht) as [Kd Rd].
        cbv zeta in Ka, Ra, Ki, Ri, Kd, Rd.
        erewrite andthen_fall; [|unfold for_; cbv beta; gproj; rewrite Gsl; exact E].
        rewrite prepend_nil. unfold ST.
        rewrite ?seq_assoc, andthen_check. cbv beta. gproj. rewrite Ka. rewrite andthen_assign. cbv beta. gproj.
        rewrite ?seq_assoc, andthen_check. cbv beta. gproj. rewrite Ki. rewrite andthen_assign. cbv beta. gproj.
        rewrite ?seq_assoc, andthen_check. cbv beta. gproj. rewrite Kd. rewrite andthen_assign. cbv beta. gproj.
        rewrite warn_noop. unfold ret. gproj. cbn [value_of]. rewrite Ra, Ri, Rd. reflexivity.
      - (* one full-slice query *)
        rewrite seq_assoc, andthen_assign. cbv beta. gproj.
        rewrite andthen_assign. cbv beta. gproj. rewrite Hfull.
        rewrite warn_noop. unfold ret. gproj. reflexivity. }
    rewrite andthen_ite. cbv beta. gproj. destruct segments as [z|].
    - rewrite andthen_skip. apply Htail.
    - rewrite seq_assoc, andthen_assign. cbv beta. gproj. rewrite andthen_ite. cbv beta. gproj.
      destruct (tgt_size tgt >? 3000000).
      + rewrite seq_assoc, andthen_check. cbv beta. gproj. cbn [Z.eqb negb]. rewrite andthen_assign. cbv beta. gproj. apply Htail.
      + rewrite andthen_assign. cbv beta. gproj. apply Htail.
  Qed.

  Lemma andthen_try_raised {St Y R} (a h kk : M St Y R) s : a s = Raised -> andthen (try_ a h) kk s = andthen h kk s.
  Proof. unfold andthen, try_. intros ->. reflexivity. Qed.

  (* all sources reduced away (EmptyResult): _create_empty_info's arrays, whatever the segments argument *)
  Theorem gni_empty_segments_independent segments : tree_ok (snd (fst V)) (snd V) (fst (fst V)) np = false ->
    value_of (GNI src tgt rad k eps red np segments)
    = COk (fst (fst V), fst (fst (empty_info src tgt k)), snd (fst (empty_info src tgt k)), snd (empty_info src tgt k)).
  Proof.
    intros Hok. unfold imp_get_neighbour_info.
    rewrite andthen_ite. cbv beta. gproj. rewrite !andthen_skip, if_same.
    match goal with |- context [andthen (ite _ _ _) ?T _] => set (TAIL := T) end.
    assert (Htail : forall z c, value_of (TAIL (mk_imp_get_neighbour_info_st src tgt rad k eps red np (Some z) c vii0 ll0 ll0 tree0 [] [] []
                       (mk_raa 0 None 0) (mk_raa 0 None 0) (mk_raa 0 None 0) (inl (mk_slice 0 0)) [] [] [] (mk_oslice None None) (vii0, [], [], [])))
                     = COk (fst (fst V), fst (fst (empty_info src tgt k)), snd (fst (empty_info src tgt k)), snd (empty_info src tgt k))).
    { intros z c. unfold TAIL. clear TAIL.
      rewrite andthen_assign. cbv beta. gproj. fold V.
      rewrite andthen_try_raised; [|rewrite andthen_check; cbv beta; gproj; rewrite Hok; reflexivity].
      rewrite seq_assoc, andthen_assign. cbv beta. gproj. rewrite andthen_ret. gproj. reflexivity. }
    rewrite andthen_ite. cbv beta. gproj. destruct segments as [z|].
    - rewrite andthen_skip. apply Htail.
    - rewrite seq_assoc, andthen_assign. cbv beta. gproj. rewrite andthen_ite. cbv beta. gproj.
      destruct (tgt_size tgt >? 3000000).
      + rewrite seq_assoc, andthen_check. cbv beta. gproj. cbn [Z.eqb negb]. rewrite andthen_assign. cbv beta. gproj. apply Htail.
      + rewrite andthen_assign. cbv beta. gproj. apply Htail.
  Qed.
End Loop.
