(* C13: which parameter subsets give an AreaDefinition and which a DynamicAreaDefinition.
   Pure presence logic: holds for every arithmetic instance and every PROJ oracle. *)
From Coq Require Import ZArith Bool List Lia.
From PR Require Import Base.Num Model.AreaConfig.
Open Scope Z_scope.

Definition has {A} (o : option A) : bool := match o with Some _ => true | None => false end.

Section Missing.
  Context {T : Type} (OP : ops T).
  Variable pfwd pinv : T * T -> option (T * T).
  Variable fac : cu -> T * T.
  Variable geographic : bool.
  Variable crs_units : cu.
  Local Notation convert := (convert_units OP pfwd pinv fac geographic crs_units).
  Local Notation create := (create_area_def OP pfwd pinv fac geographic crs_units).
  Local Notation extrap := (extrapolate OP pfwd pinv fac geographic crs_units).

  (* what can be found from what is given, in the order the code looks for it *)
  Definition k_radius1 (ext shape center radius res ul : bool) := ext || (ul && center) || radius.
  Definition k_shape (ext shape center radius res ul : bool) := shape || (k_radius1 ext shape center radius res ul && res).
  Definition k_radius2 (ext shape center radius res ul : bool) := k_radius1 ext shape center radius res ul || (res && shape).
  Definition k_ext (ext shape center radius res ul : bool) :=
    ext || ((ext || center) && k_radius2 ext shape center radius res ul)
        || ((ext || ul) && k_radius2 ext shape center radius res ul).

  Lemma convert_none name u c : convert None name u c = Ok None.
  Proof. reflexivity. Qed.
  Lemma convert_some (p : T * T * option utok) name u c : convert (Some p) name u c = Err \/ exists v, convert (Some p) name u c = Ok (Some v).
  Proof.
    unfold convert_units. destruct p as [v attr].
    destruct (extract_units _ _); cbn [bind]; [|now left].
    destruct (match name with Ncenter => _ | _ => _ end); cbn [bind]; [|now left].
    destruct (if cu_eqb a Cdeg then _ else _); cbn [bind]; [|now left].
    right. eexists. reflexivity.
  Qed.
  Lemma validate2_cases v n : validate2 OP v n = Ok n \/ validate2 OP v n = Err.
  Proof. unfold validate2. destruct v; [destruct (allclose2 _ _ _)|]; auto. Qed.
  Lemma validate4_cases v n : validate4 OP v n = Ok n \/ validate4 OP v n = Err.
  Proof. unfold validate4. destruct v; [destruct (allclose4 _ _ _)|]; auto. Qed.
  Lemma validate_shape_cases v n : validate_shape OP v n = Ok n \/ validate_shape OP v n = Err.
  Proof. unfold validate_shape. destruct v; [destruct (allclose2 _ _ _)|]; auto. Qed.
  Lemma round_shape_cases s : (exists z, round_shape OP s = Ok z) \/ round_shape OP s = Err.
  Proof. unfold round_shape. destruct (_ && _); eauto. Qed.

  Lemma round_shape_kw_cases s r d : (exists z, round_shape_kw OP s r d = Ok z) \/ round_shape_kw OP s r d = Err.
  Proof. unfold round_shape_kw. destruct (_ || _); [now right|apply round_shape_cases]. Qed.

  Ltac step :=
    cbn [bind fst snd has orb andb] in *;
    match goal with
    | |- context[convert None ?n ?u ?c] => rewrite (convert_none n u c)
    | |- context[convert (@Some ?ty ?p) ?n ?u ?c] =>
      let H := fresh in pose proof (convert_some p n u c) as H;
      change (@Some (T * T * option utok) p) with (@Some ty p) in H; destruct H as [-> | [? ->]]
    | |- context[validate2 OP ?v ?n] => destruct (validate2_cases v n) as [-> | ->]
    | |- context[validate4 OP ?v ?n] => destruct (validate4_cases v n) as [-> | ->]
    | |- context[validate_shape OP ?v ?n] => destruct (validate_shape_cases v n) as [-> | ->]
    | |- context[round_shape_kw OP ?s ?r ?d] => destruct (round_shape_kw_cases s r d) as [[? ->] | ->]
    | |- context[round_shape OP ?s] => destruct (round_shape_cases s) as [[? ->] | ->]
    | |- context[if ?b then Err else _] => destruct b
    end.

  Lemma extrapolate_presence ext shape center radius res ul units :
    match extrap ext shape center radius res ul units with
    | Err => True
    | Ok (e, s, d) =>
      has e = k_ext (has ext) (has shape) (has center) (has radius) (has res) (has ul) /\
      has s = k_shape (has ext) (has shape) (has center) (has radius) (has res) (has ul) /\
      has d = has res
    end.
  Proof.
    unfold extrapolate, k_ext, k_shape, k_radius2, k_radius1.
    destruct ext as [[[[e0 e1] e2] e3]|], shape, center, radius, res, ul; repeat step; cbn; auto.
  Qed.

  Lemma make_area_cases e s : make_area OP e s = Raised \/ make_area OP e s = Area e s.
  Proof. unfold make_area. destruct e as [[[? ?] ?] ?]. destruct (_ || _); auto. destruct (_ || _); auto. Qed.

  Definition shape_given (a : args (T:=T)) : bool := has (a_shape a) || (has (a_height a) && has (a_width a)).
  Definition sufficient_ext (a : args (T:=T)) : bool :=
    k_ext (has (a_extent a)) (shape_given a) (has (a_center a)) (has (a_radius a)) (has (a_resolution a)) (has (a_ul a)).
  Definition sufficient_shape (a : args (T:=T)) : bool :=
    k_shape (has (a_extent a)) (shape_given a) (has (a_center a)) (has (a_radius a)) (has (a_resolution a)) (has (a_ul a)).

  Theorem missing_gives_dynamic a :
    match create a with
    | Raised => True
    | Area _ _ => sufficient_ext a = true /\ sufficient_shape a = true
    | Dynamic e s _ => has e = sufficient_ext a /\ has s = sufficient_shape a /\ sufficient_ext a && sufficient_shape a = false
    end.
  Proof.
    unfold create_area_def, sufficient_ext, sufficient_shape, shape_given.
    destruct a as [wd ht ext shape ul center res radius units]; cbn [a_width a_height a_extent a_shape a_ul a_center a_resolution a_radius a_units].
    set (u := match units with Some u => u | None => default_units crs_units end).
    assert (HS : forall (sh : option (T * T)) (b : bool), has sh = b ->
      match (do shape0 <- (match sh with Some s => do s <- round_shape OP s; Ok (Some s) | None => Ok None end);
             do center0 <- convert center Ncenter u None;
             do ul0 <- convert ul Nul u None;
             do area_extent <-
               (match ext with
                | Some (e0, e1, e2, e3, attr) =>
                  do ll <- convert (Some (e0, e1, attr)) Nextent u None;
                  do ur <- convert (Some (e2, e3, attr)) Nextent u None;
                  match ll, ur with
                  | Some ll, Some ur => Ok (Some (fst ll, snd ll, fst ur, snd ur))
                  | _, _ => Err
                  end
                | None => Ok None
                end);
             match area_extent, shape0 with
             | Some e, Some s => Ok (Some e, Some s, strip res)
             | _, _ => extrap area_extent shape0 center0 radius res ul0 u
             end) with
      | Err => True
      | Ok (Some e, Some s, _) =>
          k_ext (has ext) b (has center) (has radius) (has res) (has ul) = true /\
          k_shape (has ext) b (has center) (has radius) (has res) (has ul) = true
      | Ok (e, s, _) =>
          has e = k_ext (has ext) b (has center) (has radius) (has res) (has ul) /\
          has s = k_shape (has ext) b (has center) (has radius) (has res) (has ul) /\
          k_ext (has ext) b (has center) (has radius) (has res) (has ul) &&
          k_shape (has ext) b (has center) (has radius) (has res) (has ul) = false
      end).
    { intros sh b <-. unfold k_ext, k_shape, k_radius2, k_radius1.
      destruct sh as [sh|], center as [pc|], ul as [pu|], ext as [[[[[e0 e1] e2] e3] attr]|]; repeat (first [step | progress cbn [bind fst snd has orb andb] in *]); auto.
      all: try (match goal with |- context[extrap ?a ?b ?c ?d ?e ?f ?g] =>
          pose proof (extrapolate_presence a b c d e f g) as HP; unfold k_ext, k_shape, k_radius2, k_radius1 in HP;
          destruct (extrap a b c d e f g) as [[[[?|] [?|]] ?]|]; auto;
          cbn [has orb andb] in *; destruct HP as (He & Hs & _); rewrite <- ?He, <- ?Hs; auto end).
      all: try (destruct (_ || _); cbn; auto). }
    destruct ht as [h|], wd as [w|]; cbn [bind has andb orb]; auto.
    - destruct (validate2_cases shape (h, w)) as [-> | ->]; cbn [bind]; auto.
      specialize (HS (Some (h, w)) (has shape || true)). rewrite orb_true_r in HS. specialize (HS eq_refl).
      rewrite orb_true_r.
      destruct (do shape0 <- _; _) as [[[[e|] [s|]] d]|]; auto; destruct (make_area_cases e s) as [-> | ->]; auto.
    - specialize (HS shape (has shape || false)). rewrite orb_false_r in *. specialize (HS eq_refl).
      destruct (do shape0 <- _; _) as [[[[e|] [s|]] d]|]; auto; destruct (make_area_cases e s) as [-> | ->]; auto.
  Qed.
End Missing.
