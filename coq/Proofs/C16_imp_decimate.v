(* C16 - the definition regenerated from AreaBoundary.decimate (loop over the sides, in-place update of self.sides_*, reset of
   the memoised polygon) IS the model: every side is replaced by its selection at decimate_idx, the memo becomes None. *)
From Coq Require Import ZArith List Bool Lia Arith.
From PR Require Import Base.Num Base.Slice Base.Imp Model.Boundary Model.ImpBoundary Gen.GenC16imp Proofs.C16_ring Proofs.C16_decimate.
Import ListNotations.
Open Scope Z_scope.

(* ------------------------------------------------------------------ Python slicing / indexing facts *)
Lemma take_slice_from1 {A} (l : list A) : take_slice (indices (mk_oslice (Some 1) None) (zlen l)) l = tl l.
Proof.
  destruct l as [|x r]; [reflexivity|]. unfold take_slice, indices, adj, zlen. cbn [ostart ostop sstart sstop length].
  replace (1 <? 0) with false by reflexivity.
  replace (Z.min 1 (Z.of_nat (S (length r)))) with 1 by lia.
  replace (Z.to_nat (Z.of_nat (S (length r)) - 1)) with (length r) by lia. change (Z.to_nat 1) with 1%nat.
  cbn [skipn tl]. apply firstn_all.
Qed.

Lemma take_slice_to_m1 {A} (l : list A) : take_slice (indices (mk_oslice None (Some (-1))) (zlen l)) l = removelast l.
Proof.
  unfold take_slice, indices, adj, zlen. cbn [ostart ostop sstart sstop].
  replace (-1 <? 0) with true by reflexivity. change (Z.to_nat 0) with 0%nat. cbn [skipn].
  rewrite removelast_firstn_len. f_equal. lia.
Qed.

Lemma idx_1 (l : list Z) a b r : l = a :: b :: r -> PR.Base.Imp.idx 0 l 1 = b /\ idx_ok l 1 = true.
Proof.
  intros ->. unfold PR.Base.Imp.idx, idx_ok, zlen. cbn [length]. split; [reflexivity|].
  apply andb_true_iff. split; [apply Z.leb_le|apply Z.ltb_lt]; lia.
Qed.

Lemma idx_m2 (l : list Z) : (2 <= length l)%nat ->
  idx_ok l (-2) = true /\ exists x y t, rev l = x :: y :: t /\ PR.Base.Imp.idx 0 l (-2) = y.
Proof.
  intros H. split.
  - unfold idx_ok, zlen. apply andb_true_iff. split; [apply Z.leb_le|apply Z.ltb_lt]; lia.
  - destruct (rev l) as [|x [|y t]] eqn:E; try (apply (f_equal (@length Z)) in E; rewrite rev_length in E; cbn in E; lia).
    exists x, y, t. split; [reflexivity|].
    unfold PR.Base.Imp.idx, zlen. replace (-2 <? 0) with true by reflexivity.
    replace (Z.to_nat (-2 + Z.of_nat (length l))) with (length l - 2)%nat by lia.
    assert (El : l = (rev t ++ [y]) ++ [x]) by (rewrite <- (rev_involutive l), E; reflexivity).
    rewrite El. rewrite !app_length. cbn [length].
    replace (length (rev t) + 1 + 1 - 2)%nat with (length (rev t)) by lia.
    rewrite app_nth1 by (rewrite app_length; cbn [length]; lia). rewrite app_nth2 by lia.
    rewrite Nat.sub_diag. reflexivity.
Qed.

Lemma second_rule (l : list Z) v : (2 <= length l)%nat ->
  idx_ok l (-2) = true
  /\ (if PR.Base.Imp.idx 0 l (-2) =? v then take_slice (indices (mk_oslice None (Some (-1))) (zlen l)) l else l)
     = match rev l with _ :: x :: _ => if x =? v then removelast l else l | _ => l end.
Proof.
  intros H. destruct (idx_m2 l H) as [K (x & y & t & Er & Ey)]. split; [exact K|].
  rewrite Ey, take_slice_to_m1, Er. reflexivity.
Qed.

(* ------------------------------------------------------------------ the positions computed by one iteration *)
Definition imp_points_raw (L ratio : Z) : list Z := [0] ++ arange_step ((L mod ratio) / 2) L ratio ++ [L - 1].
Definition imp_points1 (L ratio : Z) : list Z :=
  let p := imp_points_raw L ratio in
  if PR.Base.Imp.idx 0 p 1 =? 0 then take_slice (indices (mk_oslice (Some 1) None) (zlen p)) p else p.
Definition imp_points2 (L ratio : Z) : list Z :=
  let p := imp_points1 L ratio in
  if PR.Base.Imp.idx 0 p (-2) =? L - 1 then take_slice (indices (mk_oslice None (Some (-1))) (zlen p)) p else p.

Lemma imp_points_spec L ratio : 2 <= L -> 1 <= ratio ->
  idx_ok (imp_points_raw L ratio) 1 = true /\ idx_ok (imp_points1 L ratio) (-2) = true
  /\ imp_points2 L ratio = decimate_idx L ratio.
Proof.
  intros HL Hr. unfold imp_points2, imp_points1, imp_points_raw, decimate_idx.
  set (start := (L mod ratio) / 2).
  assert (Hs : 0 <= start < L).
  { unfold start. pose proof (Z.mod_pos_bound L ratio ltac:(lia)) as Hm.
    split; [apply Z.div_pos; lia|]. apply Z.div_lt_upper_bound; [lia|].
    destruct (Z_lt_ge_dec L ratio); [rewrite Z.mod_small by lia; lia|lia]. }
  destruct (arange_spec start L ratio Hs Hr) as (rest & -> & _ & _).
  cbn [app]. set (p0 := 0 :: start :: rest ++ [L - 1]).
  destruct (idx_1 p0 0 start (rest ++ [L - 1]) eq_refl) as [E1 K1]. rewrite E1. split; [exact K1|].
  rewrite take_slice_from1.
  assert (Hlen0 : (1 <= length (rest ++ [(L - 1)%Z]))%nat) by (rewrite app_length; cbn [length]; lia).
  unfold p0. destruct start as [|q|q]; cbn [Z.eqb tl]; apply second_rule; cbn [length]; lia.
Qed.

(* ------------------------------------------------------------------ list_set at a natural position *)
Lemma list_set_nat {A} (l : list A) (k : nat) v : (k < length l)%nat ->
  list_set l (Z.of_nat k) v = firstn k l ++ v :: skipn (S k) l.
Proof.
  intros H. unfold list_set. replace (Z.of_nat k <? 0) with false by (symmetry; apply Z.ltb_ge; lia).
  rewrite Nat2Z.id. reflexivity.
Qed.
Lemma idx_nat {A} (d : A) (l : list A) (k : nat) : PR.Base.Imp.idx d l (Z.of_nat k) = nth k l d.
Proof. unfold PR.Base.Imp.idx. replace (Z.of_nat k <? 0) with false by (symmetry; apply Z.ltb_ge; lia). rewrite Nat2Z.id. reflexivity. Qed.
Lemma idx_ok_nat {A} (l : list A) (k : nat) : (k < length l)%nat -> idx_ok l (Z.of_nat k) = true.
Proof. intros H. unfold idx_ok, zlen. apply andb_true_iff. split; [apply Z.leb_le|apply Z.ltb_lt]; lia. Qed.

Section ImpDecimate.
  Context {T : Type} (OP : ops T).
  Context {P : Type}.
  Notation ab := (@area_boundary T P).
  Notation st := (@imp_decimate_st T P).

  (* what one iteration does to the two side lists at position k *)
  Definition dec_lon (ratio : Z) (lo : list T) : list T := select (nan OP) lo (decimate_idx (zlen lo) ratio).
  Definition dec_lat (ratio : Z) (lo la : list T) : list T := select (nan OP) la (decimate_idx (zlen lo) ratio).
  Definition upd {A} (l : list A) (k : nat) (v : A) : list A := firstn k l ++ v :: skipn (S k) l.
  Definition step_ab (ratio : Z) (k : nat) (b : ab) : ab :=
    mk_ab (upd (ab_lons b) k (dec_lon ratio (nth k (ab_lons b) [])))
          (upd (ab_lats b) k (dec_lat ratio (nth k (ab_lons b) []) (nth k (ab_lats b) []))) (ab_poly b).

  Definition body : M st Empty_set unit :=
 (andthen (andthen (check (fun s => (idx_ok (ab_lons (imp_decimate_self s)) (imp_decimate_i s)))) (assign (fun s => (imp_decimate_set_length (zlen (PR.Base.Imp.idx [] (ab_lons (imp_decimate_self s)) (imp_decimate_i s))) s))))
 (andthen (andthen (check (fun s => (negb ((imp_decimate_ratio s) =? 0)))) (assign (fun s => (imp_decimate_set_start (((imp_decimate_length s) mod (imp_decimate_ratio s)) / 2) s))))
 (andthen (assign (fun s => (imp_decimate_set_points ([0] ++ arange_step (imp_decimate_start s) (imp_decimate_length s) (imp_decimate_ratio s) ++ [(imp_decimate_length s) - 1]) s)))
 (andthen (andthen (check (fun s => (idx_ok (imp_decimate_points s) (1)))) (ite (fun s => ((PR.Base.Imp.idx 0 (imp_decimate_points s) (1)) =? (0)))
 (assign (fun s => (imp_decimate_set_points (let l_ := (imp_decimate_points s) in take_slice (indices (mk_oslice (Some (1)) None) (zlen l_)) l_) s)))
 skip))
 (andthen (andthen (check (fun s => (idx_ok (imp_decimate_points s) (- (2))))) (ite (fun s => ((PR.Base.Imp.idx 0 (imp_decimate_points s) (- (2))) =? ((imp_decimate_length s) - (1))))
 (assign (fun s => (imp_decimate_set_points (let l_ := (imp_decimate_points s) in take_slice (indices (mk_oslice None (Some (- (1)))) (zlen l_)) l_) s)))
 skip))
 (andthen (andthen (check (fun s => (idx_ok (ab_lons (imp_decimate_self s)) (imp_decimate_i s)) && (idx_ok (ab_lons (imp_decimate_self s)) (imp_decimate_i s)))) (assign (fun s => (imp_decimate_set_self (mk_ab (list_set (ab_lons (imp_decimate_self s)) (imp_decimate_i s) (select (nan OP) (PR.Base.Imp.idx [] (ab_lons (imp_decimate_self s)) (imp_decimate_i s)) (imp_decimate_points s))) (ab_lats (imp_decimate_self s)) (ab_poly (imp_decimate_self s))) s))))
 (andthen (check (fun s => (idx_ok (ab_lats (imp_decimate_self s)) (imp_decimate_i s)) && (idx_ok (ab_lats (imp_decimate_self s)) (imp_decimate_i s)))) (assign (fun s => (imp_decimate_set_self (mk_ab (ab_lons (imp_decimate_self s)) (list_set (ab_lats (imp_decimate_self s)) (imp_decimate_i s) (select (nan OP) (PR.Base.Imp.idx [] (ab_lats (imp_decimate_self s)) (imp_decimate_i s)) (imp_decimate_points s))) (ab_poly (imp_decimate_self s))) s)))))))))).

  Ltac norm := repeat rewrite seq_assoc; cbv beta; try change (- (2)) with (-2); try change (- (1)) with (-1);
    cbn [imp_decimate_self imp_decimate_ratio imp_decimate_i imp_decimate_length imp_decimate_start imp_decimate_points
         imp_decimate_set_self imp_decimate_set_i imp_decimate_set_length imp_decimate_set_start imp_decimate_set_points].
  Ltac finish :=
    match goal with Hk1 : (?k < length (ab_lons ?b))%nat, Hk2 : (?k < length (ab_lats ?b))%nat |- _ =>
      rewrite andthen_check; norm; rewrite (idx_ok_nat _ k Hk1); cbn [andb];
      norm; rewrite andthen_assign; norm;
      unfold andthen, check; norm; cbn [ab_lats]; rewrite (idx_ok_nat _ k Hk2); cbn [andb];
      unfold assign; cbn [prepend app]; eexists; split; [reflexivity|];
      norm; cbn [ab_lons ab_lats ab_poly]; rewrite !idx_nat, !list_set_nat by assumption; split; reflexivity
    end.

  Lemma body_step (s : st) (k : nat) : 1 <= imp_decimate_ratio s ->
    (k < length (ab_lons (imp_decimate_self s)))%nat -> (k < length (ab_lats (imp_decimate_self s)))%nat ->
    (2 <= length (nth k (ab_lons (imp_decimate_self s)) []))%nat ->
    exists s', body (imp_decimate_set_i (Z.of_nat k) s) = Fall [] s'
      /\ imp_decimate_self s' = step_ab (imp_decimate_ratio s) k (imp_decimate_self s)
      /\ imp_decimate_ratio s' = imp_decimate_ratio s.
  Proof.
    intros Hr Hk1 Hk2 HL. destruct s as [b ratio i0 len0 st0 pts0]. cbn [imp_decimate_ratio imp_decimate_self] in *.
    unfold body.
    norm. rewrite andthen_check. norm. rewrite (idx_ok_nat _ k Hk1).
    norm. rewrite andthen_assign. norm.
    rewrite andthen_check. norm. replace (ratio =? 0) with false by (symmetry; apply Z.eqb_neq; lia). cbn [negb].
    norm. rewrite andthen_assign. norm. rewrite andthen_assign. norm.
    rewrite idx_nat. set (L := zlen (nth k (ab_lons b) [])).
    assert (HL2 : 2 <= L) by (unfold L, zlen; lia).
    destruct (imp_points_spec L ratio HL2 Hr) as (K1 & K2 & E2).
    unfold imp_points2, imp_points1, imp_points_raw in *.
    rewrite andthen_check. norm. rewrite K1.
    norm. rewrite andthen_ite. norm.
    revert K2 E2. match goal with |- context [if ?c then andthen (assign _) _ _ else _] => destruct c eqn:Ec end; intros K2 E2.
    - rewrite andthen_assign. norm. rewrite andthen_check. norm. rewrite K2.
      norm. rewrite andthen_ite. norm.
      revert E2. match goal with |- context [if ?c then andthen (assign _) _ _ else _] => destruct c eqn:Ec2 end; intros E2.
      + rewrite andthen_assign. norm. rewrite E2. finish.
      + rewrite andthen_skip. norm. rewrite E2. finish.
    - rewrite andthen_skip. norm. rewrite andthen_check. norm. rewrite K2.
      norm. rewrite andthen_ite. norm.
      revert E2. match goal with |- context [if ?c then andthen (assign _) _ _ else _] => destruct c eqn:Ec2 end; intros E2.
      + rewrite andthen_assign. norm. rewrite E2. finish.
      + rewrite andthen_skip. norm. rewrite E2. finish.
  Qed.

  (* ---------------------------------------------------------------- the loop *)
  Lemma nth_firstn_lt {A} (l : list A) k j d : (j < k)%nat -> nth j (firstn k l) d = nth j l d.
  Proof.
    revert l j. induction k as [|k IH]; intros l j H; [lia|].
    destruct l as [|x l]; [destruct j; reflexivity|]. destruct j as [|j]; [reflexivity|]. cbn. apply IH. lia.
  Qed.
  Lemma nth_skipn_add {A} (l : list A) k j d : nth j (skipn k l) d = nth (k + j) l d.
  Proof.
    revert l. induction k as [|k IH]; intros l; [reflexivity|].
    destruct l as [|x l]; [destruct j; reflexivity|]. cbn. apply IH.
  Qed.

  Lemma nth_map_any {A B} (f : A -> B) (l : list A) j d d' : (j < length l)%nat -> nth j (map f l) d' = f (nth j l d).
  Proof. intros H. rewrite (nth_indep (map f l) d' (f d)) by (rewrite map_length; exact H). apply map_nth. Qed.

  Lemma upd_length {A} (l : list A) k v : (k < length l)%nat -> length (upd l k v) = length l.
  Proof.
    intros H. unfold upd. rewrite app_length, firstn_length. cbn [length]. rewrite skipn_length. lia.
  Qed.
  Lemma upd_nth_same {A} (l : list A) k v d : (k < length l)%nat -> nth k (upd l k v) d = v.
  Proof.
    intros H. unfold upd. rewrite app_nth2 by (rewrite firstn_length; lia).
    rewrite firstn_length. replace (k - Nat.min k (length l))%nat with 0%nat by lia. reflexivity.
  Qed.
  Lemma upd_nth_other {A} (l : list A) k v d j : (k < length l)%nat -> j <> k -> nth j (upd l k v) d = nth j l d.
  Proof.
    intros H Hj. unfold upd. destruct (Nat.lt_ge_cases j k) as [Hlt|Hge].
    - rewrite app_nth1 by (rewrite firstn_length; lia). apply nth_firstn_lt; exact Hlt.
    - rewrite app_nth2 by (rewrite firstn_length; lia). rewrite firstn_length.
      replace (j - Nat.min k (length l))%nat with (S (j - S k)) by lia. cbn [nth].
      rewrite nth_skipn_add. f_equal. lia.
  Qed.

  Definition ok_from (b : ab) (k m : nat) : Prop :=
    forall j, (k <= j < k + m)%nat ->
      (j < length (ab_lons b))%nat /\ (j < length (ab_lats b))%nat /\ (2 <= length (nth j (ab_lons b) []))%nat.

  Lemma ok_step ratio b k m : ok_from b k (S m) -> ok_from (step_ab ratio k b) (S k) m.
  Proof.
    intros H j Hj. destruct (H k ltac:(lia)) as (K1 & K2 & _). destruct (H j ltac:(lia)) as (J1 & J2 & J3).
    unfold step_ab. cbn [ab_lons ab_lats]. rewrite !upd_length by assumption.
    rewrite upd_nth_other by (try assumption; lia). repeat split; assumption.
  Qed.

  Definition bind := (fun (x_ : Z) (s : st) => imp_decimate_set_i x_ s).

  Lemma loop_spec ratio m : 1 <= ratio -> forall k (s : st), imp_decimate_ratio s = ratio -> ok_from (imp_decimate_self s) k m ->
    exists s', for_list (map Z.of_nat (seq k m)) bind body s = Fall [] s'
      /\ imp_decimate_self s' = fold_left (fun b j => step_ab ratio j b) (seq k m) (imp_decimate_self s)
      /\ imp_decimate_ratio s' = ratio.
  Proof.
    intros Hr. induction m as [|m IH]; intros k s Es Hok.
    - exists s. repeat split; assumption.
    - cbn [seq map for_list fold_left].
      destruct (Hok k ltac:(lia)) as (K1 & K2 & K3).
      destruct (body_step s k ltac:(rewrite Es; exact Hr) K1 K2 K3) as (s1 & E1 & S1 & R1).
      rewrite Es in S1, R1.
      destruct (IH (S k) s1 R1 ltac:(rewrite S1; apply ok_step; exact Hok)) as (s' & E & S' & R').
      exists s'. unfold andthen. unfold bind at 1. rewrite E1, E. rewrite S', S1. repeat split; assumption.
  Qed.

  (* the fold of the per-side steps is the map *)
  Lemma fold_steps ratio (b : ab) m : ok_from b 0 m ->
    let b' := fold_left (fun b j => step_ab ratio j b) (seq 0 m) b in
    length (ab_lons b') = length (ab_lons b) /\ length (ab_lats b') = length (ab_lats b) /\ ab_poly b' = ab_poly b
    /\ (forall j, nth j (ab_lons b') [] = if (j <? m)%nat then dec_lon ratio (nth j (ab_lons b) []) else nth j (ab_lons b) [])
    /\ (forall j, nth j (ab_lats b') [] = if (j <? m)%nat then dec_lat ratio (nth j (ab_lons b) []) (nth j (ab_lats b) []) else nth j (ab_lats b) []).
  Proof.
    induction m as [|m IH]; intros Hok.
    - cbn. repeat split; reflexivity.
    - rewrite seq_S, fold_left_app. cbn [fold_left plus].
      destruct (IH ltac:(intros j Hj; apply Hok; lia)) as (L1 & L2 & Pp & N1 & N2). clear IH.
      set (bm := fold_left (fun b j => step_ab ratio j b) (seq 0 m) b) in *. cbv zeta.
      destruct (Hok m ltac:(lia)) as (K1 & K2 & _).
      unfold step_ab. cbn [ab_lons ab_lats ab_poly].
      rewrite !upd_length by lia. repeat split; try assumption.
      + intros j. destruct (Nat.eq_dec j m) as [->|Hne].
        * rewrite upd_nth_same by lia. rewrite N1. rewrite Nat.ltb_irrefl.
          replace (m <? S m)%nat with true by (symmetry; apply Nat.ltb_lt; lia). reflexivity.
        * rewrite upd_nth_other by lia. rewrite N1.
          destruct (Nat.ltb_spec j m); destruct (Nat.ltb_spec j (S m)); try lia; reflexivity.
      + intros j. destruct (Nat.eq_dec j m) as [->|Hne].
        * rewrite upd_nth_same by lia. rewrite N1, N2. rewrite Nat.ltb_irrefl.
          replace (m <? S m)%nat with true by (symmetry; apply Nat.ltb_lt; lia). reflexivity.
        * rewrite upd_nth_other by lia. rewrite N2.
          destruct (Nat.ltb_spec j m); destruct (Nat.ltb_spec j (S m)); try lia; reflexivity.
  Qed.

  (* sides the object must have for decimate not to raise: as many latitude as longitude sides, each with >= 2 vertices
     and as many latitudes as longitudes *)
  Definition sides_ok (b : ab) : Prop :=
    length (ab_lons b) = length (ab_lats b)
    /\ Forall (fun p => (2 <= length (fst p))%nat /\ length (fst p) = length (snd p)) (combine (ab_lons b) (ab_lats b)).

  Theorem imp_decimate_code_is_model (b : ab) (ratio : Z) : 1 <= ratio -> sides_ok b ->
    exists s', imp_decimate OP b ratio = Fall [] s'
      /\ imp_decimate_self s' = mk_ab (decimate_sides (nan OP) ratio (ab_lons b)) (decimate_sides (nan OP) ratio (ab_lats b)) None.
  Proof.
    intros Hr [Hlen HF]. unfold imp_decimate.
    match goal with |- context [andthen _ _ ?s0] => set (s0' := s0) end.
    set (n := length (ab_lons b)).
    assert (Hok : ok_from b 0 n).
    { intros j Hj. unfold n in Hj. repeat split; try lia.
      rewrite Forall_forall in HF.
      assert (Hin : In (nth j (ab_lons b) [], nth j (ab_lats b) []) (combine (ab_lons b) (ab_lats b)))
        by (rewrite <- combine_nth by exact Hlen; apply nth_In; rewrite combine_length; lia).
      destruct (HF _ Hin) as [H2 _]. exact H2. }
    destruct (loop_spec ratio n Hr 0%nat s0' eq_refl Hok) as (s1 & E & S1 & R1).
    unfold andthen at 1. unfold for_ at 1. cbv beta.
    change (imp_decimate_self s0') with b. unfold zrange.
    replace (Z.to_nat (zlen (ab_lons b))) with n by (unfold zlen, n; lia). fold bind. fold body.
    rewrite E. cbn [prepend app]. unfold assign. eexists. split; [reflexivity|].
    cbn [imp_decimate_set_self imp_decimate_self]. rewrite S1. change (imp_decimate_self s0') with b.
    destruct (fold_steps ratio b n Hok) as (L1 & L2 & _ & N1 & N2). cbv zeta in *.
    set (bn := fold_left (fun b j => step_ab ratio j b) (seq 0 n) b) in *.
    f_equal.
    - apply (nth_ext _ _ [] []).
      + unfold decimate_sides. rewrite map_length. exact L1.
      + intros j Hj. rewrite L1 in Hj. fold n in Hj. rewrite N1.
        replace (j <? n)%nat with true by (symmetry; apply Nat.ltb_lt; exact Hj).
        unfold decimate_sides.
        rewrite (nth_map_any _ _ j [] []) by exact Hj. reflexivity.
    - apply (nth_ext _ _ [] []).
      + unfold decimate_sides. rewrite map_length. exact L2.
      + intros j Hj. rewrite L2 in Hj. rewrite N2. rewrite <- Hlen in Hj. fold n in Hj.
        replace (j <? n)%nat with true by (symmetry; apply Nat.ltb_lt; exact Hj).
        unfold decimate_sides.
        rewrite (nth_map_any _ _ j [] []) by (unfold n in Hj; lia).
        unfold dec_lat, zlen. 
        rewrite Forall_forall in HF.
        assert (Hin : In (nth j (ab_lons b) [], nth j (ab_lats b) []) (combine (ab_lons b) (ab_lats b)))
          by (rewrite <- combine_nth by exact Hlen; apply nth_In; rewrite combine_length; unfold n in Hj; lia).
        destruct (HF _ Hin) as [_ H2]. cbn [fst snd] in H2. rewrite H2. reflexivity.
  Qed.
End ImpDecimate.
