(* C05: index arithmetic of the geo-dim flattening: element [l][i][j][t] of the result (leading dims, y, x, trailing
   dims) is element ((l*S + s)*T + t) of the flat source buffer, s the selected source pixel, or the fill value. *)
From Coq Require Import ZArith List Lia Bool.
From PR Require Import Base.ZX Base.ListX Base.Slice Model.Partition Model.Blockwise Model.BlockwiseSpec
     Proofs.C05_assemble Proofs.C05_pipeline Proofs.C05_mask.
Import ListNotations.
Open Scope Z_scope.

Lemma nth_firstn_lt {A} (l : list A) : forall n k d, (k < n)%nat -> nth k (firstn n l) d = nth k l d.
Proof. induction l as [|x l IH]; intros [|n] [|k] d H; cbn; try lia; try reflexivity. apply IH. lia. Qed.

Lemma nth_skipn_add {A} (l : list A) : forall n k d, nth k (skipn n l) d = nth (n + k) l d.
Proof. induction l as [|x l IH]; intros [|n] k d; cbn; try reflexivity; [destruct k; reflexivity|apply IH]. Qed.

Lemma skipn_add {A} (l : list A) : forall a b, skipn a (skipn b l) = skipn (b + a) l.
Proof. induction l as [|x l IH]; intros a [|b]; cbn; try reflexivity; [destruct a; reflexivity|apply IH]. Qed.

Lemma nth_repeat_lt {A} (a d : A) : forall m k, (k < m)%nat -> nth k (repeat a m) d = a.
Proof. induction m as [|m IH]; intros [|k] H; cbn; try lia; [reflexivity|apply IH; lia]. Qed.

Lemma unravel_length {A} nr nc : forall (l : list A), length (unravel nr nc l) = nr.
Proof. induction nr as [|nr IH]; intros l; cbn; [reflexivity|]. f_equal. apply IH. Qed.

Lemma unravel_nth_row {A} nr nc : forall (l : list A) i,
  (i < nr)%nat -> nth i (unravel nr nc l) [] = firstn nc (skipn (i * nc) l).
Proof.
  induction nr as [|nr IH]; intros l i Hi; [lia|]. cbn [unravel]. destruct i as [|i]; cbn [nth].
  - reflexivity.
  - rewrite IH by lia. rewrite skipn_add. reflexivity.
Qed.

Lemma unravel_nth {A} nr nc (l : list A) i j d :
  (i < nr)%nat -> (j < nc)%nat -> nth j (nth i (unravel nr nc l) []) d = nth (i * nc + j) l d.
Proof. intros Hi Hj. rewrite unravel_nth_row by exact Hi. rewrite nth_firstn_lt by exact Hj. apply nth_skipn_add. Qed.

Lemma unravel_row_length {A} nr nc (l : list A) i :
  (i < nr)%nat -> (nr * nc <= length l)%nat -> length (nth i (unravel nr nc l) []) = nc.
Proof.
  intros Hi Hl. rewrite unravel_nth_row by exact Hi. rewrite firstn_length, skipn_length. nia.
Qed.

Theorem flatten_index (L Sn T : nat) fill voi q rows cols vii data l i j t d :
  let n := count_true vii in
  let k := index_pointwise n voi q i j in
  Forall (fun x => 0 <= x) rows -> Forall (fun x => 0 <= x) cols ->
  length data = (L * Sn * T)%nat -> length vii = Sn ->
  (l < L)%nat -> 0 <= i < sumZ rows -> 0 <= j < sumZ cols -> (t < T)%nat ->
  0 <= q i j <= n ->
  nth t (nth (Z.to_nat j) (nth (Z.to_nat i) (nth l
      (resample_nested L Sn T fill rows cols
         (fun rs cs => qnd_block n voi q (sstart rs) (slen rs) (sstart cs) (slen cs)) vii data) []) []) []) d
  = if k =? -1 then fill else nth ((l * Sn + src_of vii k) * T + t) data d.
Proof.
  intros n k Hr Hc Hdata Hvii Hl Hi Hj Ht Hq.
  unfold resample_nested.
  assert (HL : length (reshape_src L Sn T data) = L) by (unfold reshape_src; apply unravel_length).
  rewrite nth_map_in with (d' := []) by (rewrite HL; exact Hl).
  rewrite gather_chunked_char by assumption. rewrite tab_nth by assumption. rewrite !Z.add_0_l. fold n. fold k.
  set (plane := nth l (reshape_src L Sn T data) []).
  assert (Hcells : (L * Sn * T <= length (unravel (L * Sn) T data) * T)%nat)
    by (rewrite unravel_length; lia).
  assert (Hplane : length plane = Sn).
  { unfold plane, reshape_src. apply unravel_row_length; [exact Hl|]. rewrite unravel_length. lia. }
  unfold cell_pointwise. destruct (Z.eqb_spec k (-1)) as [E|E].
  - apply nth_repeat_lt. exact Ht.
  - assert (Hk : 0 <= k < n).
    { unfold k, index_pointwise in *. destruct (voi i j && (q i j <? n)) eqn:G; [|congruence].
      apply andb_prop in G. destruct G as [_ G]. apply Z.ltb_lt in G. lia. }
    unfold pyget. destruct (Z.ltb_spec k 0); [lia|].
    assert (Hkc : (Z.to_nat k < length (compress vii plane))%nat).
    { rewrite compress_length by (rewrite Hplane, Hvii; reflexivity). unfold n, count_true in Hk. lia. }
    rewrite compress_nth by (try (rewrite Hplane, Hvii; reflexivity); exact Hkc).
    fold (src_of vii k).
    assert (Hs : (src_of vii k < Sn)%nat).
    { unfold src_of. rewrite <- Hvii.
      assert (Hin : In (nth (Z.to_nat k) (positions vii) 0%nat) (positions vii)).
      { apply nth_In. unfold positions. rewrite positions_from_length.
        rewrite compress_length in Hkc by (rewrite Hplane, Hvii; reflexivity). exact Hkc. }
      unfold positions in *. apply positions_from_In in Hin. lia. }
    rewrite nth_indep with (d' := []) by (rewrite Hplane; exact Hs).
    unfold plane, reshape_src. rewrite unravel_nth by assumption.
    apply unravel_nth; [nia|exact Ht].
Qed.
