(* C11: bounds -> slices is sound (AreaSlicer arithmetic), over the reals. *)
From Coq Require Import Reals ZArith Lra Lia Bool List Psatz.
From Flocq Require Import Zaux Raux Generic_fmt Round_NE.
From PR Require Import Base.Num Base.RNum Base.Slice Model.Grid Model.CropBase Model.Partition Model.Crop
     Gen.GenSubset Proofs.Grid_real.
Import ListNotations.
Open Scope R_scope.

Definition in_slice (s : pslice) (k : Z) : Prop := (sstart s <= k < sstop s)%Z.
Definition clip (n k : Z) : Z := Z.max 0 (Z.min k (n - 1)).

Lemma fmin_R a b : fmin RO a b = Rmin a b.
Proof.
  unfold fmin; cbn. unfold Rltb, Rmin. destruct (Rlt_dec b a), (Rle_dec a b); try reflexivity; lra.
Qed.
Lemma fmax_R a b : fmax RO a b = Rmax a b.
Proof.
  unfold fmax; cbn. unfold Rltb, Rmax. destruct (Rlt_dec a b), (Rle_dec a b); try reflexivity; lra.
Qed.
Lemma amin_R p : amin RO p = Rmin (fst p) (snd p). Proof. apply fmin_R. Qed.
Lemma amax_R p : amax RO p = Rmax (fst p) (snd p). Proof. apply fmax_R. Qed.
Lemma lo_of_R p : lo_of RO p = Rmax (Rmin (fst p) (snd p)) 0.
Proof. unfold lo_of. rewrite fmax_R, amin_R. reflexivity. Qed.

Lemma raw_slice_R p : raw_slice RO p = mk_slice (Zfloor (Rmax (Rmin (fst p) (snd p)) 0)) (Zceil (Rmax (fst p) (snd p))).
Proof. unfold raw_slice. rewrite lo_of_R, amax_R. reflexivity. Qed.

Lemma expand_eq s : gen_expand_slice s = mk_slice (Z.max (sstart s - 1) 0) (sstop s + 1).
Proof. reflexivity. Qed.

Lemma Zfloor_lt_of (c : R) (n : Z) : c < IZR n -> (Zfloor c < n)%Z.
Proof. intros H. apply lt_IZR. pose proof (Zfloor_lb c). lra. Qed.
Lemma Zceil_ge0 (c : R) : -1 < c -> (0 <= Zceil c)%Z.
Proof.
  intros H. pose proof (Zceil_ub c). assert (IZR (-1) < IZR (Zceil c)) by (simpl; lra).
  apply lt_IZR in H1. lia.
Qed.

(* one axis: every integer between floor c and ceil c (so: the containing pixel under both rounding
   conventions, the nearest pixel, the lower bilinear neighbour), clipped to the grid, is inside *)
Lemma slice1d (b0 b1 c : R) (n k : Z) :
  Rmin b0 b1 <= c <= Rmax b0 b1 -> -1 < c < IZR n -> (Zfloor c <= k <= Zceil c)%Z ->
  in_slice (gen_expand_slice (raw_slice RO (b0, b1))) (clip n k).
Proof.
  intros [Hm HM] [Hc0 Hcn] [Hk0 Hk1].
  rewrite raw_slice_R, expand_eq. unfold in_slice, clip; cbn.
  pose proof (Zfloor_lt_of c n Hcn) as Hfn.
  assert (HceilM : (Zceil c <= Zceil (Rmax b0 b1))%Z) by (apply Zceil_le; exact HM).
  pose proof (Zceil_ge0 c Hc0) as Hc.
  split.
  - destruct (Rle_dec (Rmin b0 b1) 0) as [Hle|Hgt].
    + rewrite Rmax_right by exact Hle. rewrite (Zfloor_IZR 0). lia.
    + rewrite Rmax_left by lra.
      assert ((Zfloor (Rmin b0 b1) <= Zfloor c)%Z) by (apply Zfloor_le; exact Hm). lia.
  - lia.
Qed.

(* the upper bilinear neighbour floor c + 1 is inside as soon as c is strictly below the upper bound *)
Lemma slice1d_next (b0 b1 c : R) (n : Z) :
  Rmin b0 b1 <= c < Rmax b0 b1 -> -1 < c < IZR n ->
  in_slice (gen_expand_slice (raw_slice RO (b0, b1))) (clip n (Zfloor c + 1)).
Proof.
  intros [Hm HM] [Hc0 Hcn].
  rewrite raw_slice_R, expand_eq. unfold in_slice, clip; cbn.
  pose proof (Zfloor_lt_of c n Hcn) as Hfn.
  assert (Hlt : (Zfloor c < Zceil (Rmax b0 b1))%Z).
  { apply lt_IZR. pose proof (Zfloor_lb c). pose proof (Zceil_ub (Rmax b0 b1)). lra. }
  assert (Hf0 : (-1 <= Zfloor c)%Z).
  { apply Zfloor_lub. simpl. lra. }
  split.
  - destruct (Rle_dec (Rmin b0 b1) 0) as [Hle|Hgt].
    + rewrite Rmax_right by exact Hle. rewrite (Zfloor_IZR 0). lia.
    + rewrite Rmax_left by lra.
      assert ((Zfloor (Rmin b0 b1) <= Zfloor c)%Z) by (apply Zfloor_le; exact Hm). lia.
  - lia.
Qed.

(* the rounding conventions in use all lie between floor and ceil *)
Lemma round_half_up_between c : (Zfloor c <= Zfloor (c + /2) <= Zceil c)%Z.
Proof.
  split.
  - apply Zfloor_le. lra.
  - destruct (Req_dec (IZR (Zfloor c)) c) as [E|N].
    + remember (Zfloor c) as f eqn:Ef. rewrite <- E. rewrite Zceil_IZR.
      assert (Zfloor (IZR f + /2) = f) as ->; [|lia].
      apply Zfloor_imp. rewrite plus_IZR. simpl. lra.
    + rewrite (Zceil_floor_neq c N).
      assert (Zfloor (c + /2) < Zfloor c + 2)%Z; [|lia].
      apply Zfloor_lt_of. rewrite plus_IZR. pose proof (Zfloor_ub c). simpl. lra.
Qed.
Lemma round_half_even_between c : (Zfloor c <= ZnearestE c <= Zceil c)%Z.
Proof. split; [apply Znearest_ge_floor | apply Znearest_le_ceil]. Qed.

(* an affine map sends an interval between the images of its end points *)
Lemma affine_between (k q x0 x x1 : R) : x0 <= x <= x1 ->
  Rmin (k * x0 + q) (k * x1 + q) <= k * x + q <= Rmax (k * x0 + q) (k * x1 + q).
Proof.
  intros [H0 H1].
  assert (A : 0 <= k * (x - x0) \/ k * (x - x0) <= 0) by (destruct (Rle_dec 0 (k * (x - x0))); [left|right]; lra).
  destruct (Rle_dec 0 k) as [Hk|Hk].
  - assert (0 <= k * (x - x0)) by (apply Rmult_le_pos; lra).
    assert (0 <= k * (x1 - x)) by (apply Rmult_le_pos; lra).
    unfold Rmin, Rmax. destruct (Rle_dec (k * x0 + q) (k * x1 + q)); split; lra.
  - assert (0 <= (- k) * (x - x0)) by (apply Rmult_le_pos; lra).
    assert (0 <= (- k) * (x1 - x)) by (apply Rmult_le_pos; lra).
    unfold Rmin, Rmax. destruct (Rle_dec (k * x0 + q) (k * x1 + q)); split; lra.
Qed.
Lemma affine_between_strict (k q x0 x x1 : R) : k <> 0 -> x0 < x < x1 ->
  Rmin (k * x0 + q) (k * x1 + q) < k * x + q < Rmax (k * x0 + q) (k * x1 + q).
Proof.
  intros Hk [H0 H1].
  destruct (Rlt_dec 0 k) as [Hp|Hn].
  - assert (0 < k * (x - x0)) by (apply Rmult_lt_0_compat; lra).
    assert (0 < k * (x1 - x)) by (apply Rmult_lt_0_compat; lra).
    unfold Rmin, Rmax. destruct (Rle_dec (k * x0 + q) (k * x1 + q)); split; lra.
  - assert (0 < (- k) * (x - x0)) by (apply Rmult_lt_0_compat; lra).
    assert (0 < (- k) * (x1 - x)) by (apply Rmult_lt_0_compat; lra).
    unfold Rmin, Rmax. destruct (Rle_dec (k * x0 + q) (k * x1 + q)); split; lra.
Qed.

Lemma arr_x_affine a x : wf_area a -> arr_of_proj_x RO a x = / dxR a * x + (- xmin a / dxR a - /2).
Proof. intros H. rewrite arr_of_proj_x_canonical by exact H. pose proof (dx_nonzero a H). field. assumption. Qed.
Lemma arr_y_affine a y : wf_area a -> arr_of_proj_y RO a y = (- / dyR a) * y + (ymax a / dyR a - /2).
Proof. intros H. rewrite arr_of_proj_y_canonical by exact H. pose proof (dy_nonzero a H). field. assumption. Qed.

Lemma arr_x_between a x0 x x1 : wf_area a -> x0 <= x <= x1 ->
  Rmin (arr_of_proj_x RO a x0) (arr_of_proj_x RO a x1) <= arr_of_proj_x RO a x
    <= Rmax (arr_of_proj_x RO a x0) (arr_of_proj_x RO a x1).
Proof. intros H Hx. rewrite !(arr_x_affine a _ H). apply affine_between. exact Hx. Qed.
Lemma arr_y_between a y0 y y1 : wf_area a -> y0 <= y <= y1 ->
  Rmin (arr_of_proj_y RO a y0) (arr_of_proj_y RO a y1) <= arr_of_proj_y RO a y
    <= Rmax (arr_of_proj_y RO a y0) (arr_of_proj_y RO a y1).
Proof. intros H Hy. rewrite !(arr_y_affine a _ H). apply affine_between. exact Hy. Qed.
Lemma arr_x_between_strict a x0 x x1 : wf_area a -> x0 < x < x1 ->
  arr_of_proj_x RO a x < Rmax (arr_of_proj_x RO a x0) (arr_of_proj_x RO a x1).
Proof.
  intros H Hx. rewrite !(arr_x_affine a _ H). apply affine_between_strict; [|exact Hx].
  apply Rinv_neq_0_compat. apply dx_nonzero; exact H.
Qed.
Lemma arr_y_between_strict a y0 y y1 : wf_area a -> y0 < y < y1 ->
  arr_of_proj_y RO a y < Rmax (arr_of_proj_y RO a y0) (arr_of_proj_y RO a y1).
Proof.
  intros H Hy. rewrite !(arr_y_affine a _ H). apply affine_between_strict; [|exact Hy].
  apply Ropp_neq_0_compat. apply Rinv_neq_0_compat. apply dy_nonzero; exact H.
Qed.

(* the "all outside" test over the reals *)
Definition outside_axis (n : Z) (p : R * R) : Prop :=
  (fst p < 0 /\ snd p < 0) \/ (IZR n <= fst p /\ IZR n <= snd p).
Lemma all_outside_R a xb yb :
  all_outside RO a xb yb = true <-> outside_axis (width a) xb \/ outside_axis (height a) yb.
Proof.
  unfold all_outside, outside_axis; cbn.
  rewrite !orb_true_iff, !andb_true_iff, !Rltb_true, !Rleb_true. tauto.
Qed.
Lemma not_outside_of_point (n : Z) (p : R * R) (c : R) :
  Rmin (fst p) (snd p) <= c <= Rmax (fst p) (snd p) -> 0 <= c < IZR n -> ~ outside_axis n p.
Proof.
  intros [Hm HM] [H0 Hn] [[A B]|[A B]].
  - assert (Rmax (fst p) (snd p) < 0) by (unfold Rmax; destruct (Rle_dec (fst p) (snd p)); lra). lra.
  - assert (IZR n <= Rmin (fst p) (snd p)) by (unfold Rmin; destruct (Rle_dec (fst p) (snd p)); lra). lra.
Qed.

Lemma create_slices_R xb yb :
  create_slices RO xb yb = Slices (gen_expand_slice (raw_slice RO xb)) (gen_expand_slice (raw_slice RO yb)).
Proof. reflexivity. Qed.

(* what get_slices_from_polygon returns, as a function of the oracle bits *)
Lemma crop_slices_cases valid inter a b :
  crop_slices RO valid inter a b =
    if negb valid then NoOverlap 1 else if negb inter then NoOverlap 2 else
    if all_outside RO a (fst (bounds_to_arr RO a b)) (snd (bounds_to_arr RO a b)) then NoOverlap 3
    else Slices (gen_expand_slice (raw_slice RO (fst (bounds_to_arr RO a b))))
                (gen_expand_slice (raw_slice RO (snd (bounds_to_arr RO a b)))).
Proof.
  unfold crop_slices. destruct valid, inter; cbn; try reflexivity.
  destruct (bounds_to_arr RO a b) as [xb yb]; cbn. reflexivity.
Qed.

Lemma bounds_to_arr_R a minx miny maxx maxy :
  bounds_to_arr RO a (minx, miny, maxx, maxy) =
    ((arr_of_proj_x RO a minx, arr_of_proj_x RO a maxx), (arr_of_proj_y RO a miny, arr_of_proj_y RO a maxy)).
Proof. reflexivity. Qed.

(* non-overlap is reported by the arithmetic exactly when a bit says so or a whole axis is outside *)
Lemma nonoverlap_iff valid inter a b k :
  crop_slices RO valid inter a b = NoOverlap k <->
    (valid = false /\ k = 1%Z) \/ (valid = true /\ inter = false /\ k = 2%Z) \/
    (valid = true /\ inter = true /\ k = 3%Z /\
     (outside_axis (width a) (fst (bounds_to_arr RO a b)) \/ outside_axis (height a) (snd (bounds_to_arr RO a b)))).
Proof.
  rewrite crop_slices_cases.
  destruct valid, inter; cbn.
  - destruct (all_outside RO a _ _) eqn:E.
    + apply all_outside_R in E. split.
      * intros H; inversion H; subst. right; right. auto.
      * intros [[H _]|[(_ & H & _)|(_ & _ & -> & _)]]; try discriminate. reflexivity.
    + split; [discriminate|].
      intros [[H _]|[(_ & H & _)|(_ & _ & _ & H)]]; try discriminate.
      apply all_outside_R in H. congruence.
  - split.
    + intros H; inversion H; subst. right; left; auto.
    + intros [[H _]|[(_ & _ & ->)|(_ & H & _)]]; try discriminate. reflexivity.
  - split.
    + intros H; inversion H; subst. left; auto.
    + intros [[_ ->]|[(H & _)|(H & _)]]; try discriminate. reflexivity.
  - split.
    + intros H; inversion H; subst. left; auto.
    + intros [[_ ->]|[(H & _)|(H & _)]]; try discriminate. reflexivity.
Qed.

(* soundness given slices were returned: any bbox point whose index is within one pixel of the grid *)
Lemma sound_if_slices a minx miny maxx maxy px py sx sy :
  wf_area a -> minx <= px <= maxx -> miny <= py <= maxy ->
  -1 < arr_of_proj_x RO a px < IZR (width a) -> -1 < arr_of_proj_y RO a py < IZR (height a) ->
  crop_slices RO true true a (minx, miny, maxx, maxy) = Slices sx sy ->
  (forall k, (Zfloor (arr_of_proj_x RO a px) <= k <= Zceil (arr_of_proj_x RO a px))%Z -> in_slice sx (clip (width a) k)) /\
  (forall k, (Zfloor (arr_of_proj_y RO a py) <= k <= Zceil (arr_of_proj_y RO a py))%Z -> in_slice sy (clip (height a) k)) /\
  (minx < px < maxx -> in_slice sx (clip (width a) (Zfloor (arr_of_proj_x RO a px) + 1))) /\
  (miny < py < maxy -> in_slice sy (clip (height a) (Zfloor (arr_of_proj_y RO a py) + 1))).
Proof.
  intros Hwf Hx Hy Hc Hr E.
  rewrite crop_slices_cases, bounds_to_arr_R in E; cbn in E.
  destruct (all_outside RO a _ _); [discriminate|]. inversion E; subst; clear E.
  pose proof (arr_x_between a minx px maxx Hwf Hx) as Bx.
  pose proof (arr_y_between a miny py maxy Hwf Hy) as By.
  split; [|split; [|split]].
  - intros k Hk. apply slice1d with (c := arr_of_proj_x RO a px); auto.
  - intros k Hk. apply slice1d with (c := arr_of_proj_y RO a py); auto.
  - intros Hs. apply slice1d_next; [|exact Hc]. split; [apply Bx|]. apply arr_x_between_strict; auto.
  - intros Hs. apply slice1d_next; [|exact Hr]. split; [apply By|]. apply arr_y_between_strict; auto.
Qed.

(* full soundness: index inside [0,W) x [0,H) => slices ARE returned and contain the pixels *)
Lemma bounds_to_slices_sound a minx miny maxx maxy px py :
  wf_area a -> minx <= px <= maxx -> miny <= py <= maxy ->
  0 <= arr_of_proj_x RO a px < IZR (width a) -> 0 <= arr_of_proj_y RO a py < IZR (height a) ->
  exists sx sy, crop_slices RO true true a (minx, miny, maxx, maxy) = Slices sx sy /\
  (forall k, (Zfloor (arr_of_proj_x RO a px) <= k <= Zceil (arr_of_proj_x RO a px))%Z -> in_slice sx (clip (width a) k)) /\
  (forall k, (Zfloor (arr_of_proj_y RO a py) <= k <= Zceil (arr_of_proj_y RO a py))%Z -> in_slice sy (clip (height a) k)) /\
  (minx < px < maxx -> in_slice sx (clip (width a) (Zfloor (arr_of_proj_x RO a px) + 1))) /\
  (miny < py < maxy -> in_slice sy (clip (height a) (Zfloor (arr_of_proj_y RO a py) + 1))).
Proof.
  intros Hwf Hx Hy Hc Hr.
  pose proof (arr_x_between a minx px maxx Hwf Hx) as Bx.
  pose proof (arr_y_between a miny py maxy Hwf Hy) as By.
  destruct (crop_slices RO true true a (minx, miny, maxx, maxy)) as [sx sy|k] eqn:E.
  - exists sx, sy. split; [reflexivity|].
    apply (sound_if_slices a minx miny maxx maxy px py sx sy); auto; lra.
  - exfalso. apply nonoverlap_iff in E.
    destruct E as [[H _]|[(_ & H & _)|(_ & _ & _ & H)]]; try discriminate.
    rewrite bounds_to_arr_R in H; cbn in H. destruct H as [H|H].
    + revert H. apply not_outside_of_point with (c := arr_of_proj_x RO a px); auto.
    + revert H. apply not_outside_of_point with (c := arr_of_proj_y RO a py); auto.
Qed.

(* the gap to the property text: a bbox lying in the outer half of the border pixels is reported as
   non-overlapping although its points are inside pixel column 0 *)
Definition unit4 : area R := mk_area 0 0 4 4 4 4.
Lemma unit4_wf : wf_area unit4.
Proof. unfold wf_area, unit4; cbn. repeat split; try lia; lra. Qed.
Lemma unit4_arr_x x : arr_of_proj_x RO unit4 x = x - /2.
Proof. rewrite arr_of_proj_x_canonical by exact unit4_wf. unfold dxR, unit4; cbn. field. Qed.
Lemma unit4_arr_y y : arr_of_proj_y RO unit4 y = 4 - y - /2.
Proof. rewrite arr_of_proj_y_canonical by exact unit4_wf. unfold dyR, unit4; cbn. field. Qed.
Lemma unit4_outer_half : crop_slices RO true true unit4 (/8, 1, /4, 2) = NoOverlap 3.
Proof.
  apply nonoverlap_iff. right; right. split; [reflexivity|]. split; [reflexivity|]. split; [reflexivity|].
  left. rewrite bounds_to_arr_R. unfold outside_axis, fst, snd. left. rewrite !unit4_arr_x. split; lra.
Qed.
Lemma outer_half_pixel_refuted :
  exists a minx miny maxx maxy px py, wf_area a /\ minx <= px <= maxx /\ miny <= py <= maxy /\
    - /2 <= arr_of_proj_x RO a px < IZR (width a) - /2 /\ - /2 <= arr_of_proj_y RO a py < IZR (height a) - /2 /\
    crop_slices RO true true a (minx, miny, maxx, maxy) = NoOverlap 3.
Proof.
  exists unit4, (/8), 1, (/4), 2, (/8), 2.
  split; [exact unit4_wf|].
  rewrite unit4_arr_x, unit4_arr_y.
  replace (IZR (width unit4)) with 4 by reflexivity. replace (IZR (height unit4)) with 4 by reflexivity.
  split; [lra|]. split; [lra|]. split; [lra|]. split; [lra|]. exact unit4_outer_half.
Qed.
(* ... and a hit for the sound theorem's hypotheses (non-vacuity) *)
Lemma sound_example :
  exists sx sy, crop_slices RO true true unit4 (1, 1, 2, 2) = Slices sx sy /\ sx = mk_slice 0 3 /\ sy = mk_slice 0 4.
Proof.
  rewrite crop_slices_cases, bounds_to_arr_R. cbn [negb fst snd].
  destruct (all_outside RO unit4 _ _) eqn:E.
  - exfalso. apply all_outside_R in E. unfold outside_axis in E. cbn [fst snd] in E.
    rewrite !unit4_arr_x, !unit4_arr_y in E.
    replace (IZR (width unit4)) with 4 in E by reflexivity. replace (IZR (height unit4)) with 4 in E by reflexivity. lra.
  - eexists _, _. split; [reflexivity|].
    rewrite !raw_slice_R, !expand_eq. cbn [fst snd sstart sstop]. rewrite !unit4_arr_x, !unit4_arr_y.
    replace (Rmin (1 - /2) (2 - /2)) with (/2) by (unfold Rmin; destruct (Rle_dec _ _); lra).
    replace (Rmax (1 - /2) (2 - /2)) with (3 * /2) by (unfold Rmax; destruct (Rle_dec _ _); lra).
    replace (Rmin (4 - 1 - /2) (4 - 2 - /2)) with (3 * /2) by (unfold Rmin; destruct (Rle_dec _ _); lra).
    replace (Rmax (4 - 1 - /2) (4 - 2 - /2)) with (5 * /2) by (unfold Rmax; destruct (Rle_dec _ _); lra).
    rewrite !Rmax_left by lra.
    assert (Zfloor (/2) = 0%Z) as -> by (apply Zfloor_imp; simpl; lra).
    assert (Zfloor (3 * /2) = 1%Z) as -> by (apply Zfloor_imp; simpl; lra).
    assert (Zceil (3 * /2) = 2%Z) as -> by (apply Zceil_imp; simpl; lra).
    assert (Zceil (5 * /2) = 3%Z) as -> by (apply Zceil_imp; simpl; lra).
    split; reflexivity.
Qed.

(* the property at the level of a whole target: H_poly = the bbox contains the source-CRS image of every
   target pixel centre (shapely + sampling density: not provable here); the validity and intersection bits
   are shapely's (H_valid, H_inter: taken as true) *)
Definition in_bbox (b : R * R * R * R) (p : R * R) : Prop :=
  let '(minx, miny, maxx, maxy) := b in minx <= fst p <= maxx /\ miny <= snd p <= maxy.
Definition H_poly (b : R * R * R * R) (pts : list (R * R)) : Prop := Forall (in_bbox b) pts.
Definition on_grid (a : area R) (p : R * R) : Prop :=
  0 <= arr_of_proj_x RO a (fst p) < IZR (width a) /\ 0 <= arr_of_proj_y RO a (snd p) < IZR (height a).
Definition near_grid (a : area R) (p : R * R) : Prop :=
  -1 < arr_of_proj_x RO a (fst p) < IZR (width a) /\ -1 < arr_of_proj_y RO a (snd p) < IZR (height a).
Definition pixel_kept (a : area R) (sx sy : pslice) (p : R * R) : Prop :=
  (forall k, (Zfloor (arr_of_proj_x RO a (fst p)) <= k <= Zceil (arr_of_proj_x RO a (fst p)))%Z -> in_slice sx (clip (width a) k)) /\
  (forall k, (Zfloor (arr_of_proj_y RO a (snd p)) <= k <= Zceil (arr_of_proj_y RO a (snd p)))%Z -> in_slice sy (clip (height a) k)).

Lemma crop_never_discards_if a b pts : wf_area a -> H_poly b pts ->
  (* no false "non-overlapping": one target pixel centre on the grid of pixel centres is enough *)
  (Exists (on_grid a) pts -> exists sx sy, crop_slices RO true true a b = Slices sx sy) /\
  (* whenever slices are returned, every target pixel whose centre lies on (or within a pixel of) the source grid
     keeps its containing, nearest and lower-neighbour source pixels *)
  (forall sx sy, crop_slices RO true true a b = Slices sx sy ->
     Forall (fun p => near_grid a p -> pixel_kept a sx sy p) pts).
Proof.
  intros Hwf HP. destruct b as [[[minx miny] maxx] maxy]. split.
  - intros Hex. apply Exists_exists in Hex. destruct Hex as ([px py] & Hin & [Hc Hr]).
    unfold H_poly in HP. rewrite Forall_forall in HP. specialize (HP _ Hin). cbn in HP. destruct HP as [Hx Hy].
    destruct (bounds_to_slices_sound a minx miny maxx maxy px py Hwf Hx Hy Hc Hr) as (sx & sy & E & _).
    exists sx, sy. exact E.
  - intros sx sy E. unfold H_poly in HP. rewrite Forall_forall in *. intros [px py] Hin [Hc Hr].
    specialize (HP _ Hin). cbn in HP. destruct HP as [Hx Hy].
    destruct (sound_if_slices a minx miny maxx maxy px py sx sy Hwf Hx Hy Hc Hr E) as (A & B & _).
    split; assumption.
Qed.
Lemma H_poly_example : H_poly (1, 1, 2, 2) [(3 * /2, 3 * /2); (1, 2)] /\ on_grid unit4 (3 * /2, 3 * /2).
Proof.
  split.
  - repeat constructor; cbn; lra.
  - unfold on_grid. cbn [fst snd]. rewrite unit4_arr_x, unit4_arr_y.
    replace (IZR (width unit4)) with 4 by reflexivity. replace (IZR (height unit4)) with 4 by reflexivity. lra.
Qed.
Lemma roundings_between c : (Zfloor c <= Zfloor (c + /2) <= Zceil c)%Z /\ (Zfloor c <= ZnearestE c <= Zceil c)%Z.
Proof. split; [apply round_half_up_between | apply round_half_even_between]. Qed.
