(* C09: the resample_blocks path.  Indices found on a cropped source, shifted by the crop offset, are the
   indices on the full source; GIVEN that every target block's crop contains the enclosing source pixels
   (H_crop, property C11) the assembled result is the pointwise specification for EVERY block decomposition. *)
From Coq Require Import Reals ZArith Lra Lia Bool List Psatz FunctionalExtensionality.
From Flocq Require Import Zaux Raux Generic_fmt Round_NE.
From PR Require Import Base.ZX Base.Num Base.RNum Base.Slice Model.Partition Model.Blockwise Model.Gradient
     Proofs.C05_assemble Proofs.C09_newton Proofs.C09_scan Proofs.C09_kernels.
Import ListNotations.
Open Scope R_scope.

(* ---------------- list plumbing ---------------- *)
Lemma tab_ext_in {A} (f g : Z -> Z -> A) r0 nr c0 nc :
  (forall i j, (r0 <= i < r0 + nr)%Z -> (c0 <= j < c0 + nc)%Z -> f i j = g i j) -> tab f r0 nr c0 nc = tab g r0 nr c0 nc.
Proof.
  intros H. unfold tab. apply map_ext_in. intros i Hi. apply map_ext_in. intros j Hj.
  apply zrange_In in Hi. apply zrange_In in Hj. apply H; assumption.
Qed.
Lemma map_map_tab {A B} (h : A -> B) (f : Z -> Z -> A) r0 nr c0 nc :
  map (map h) (tab f r0 nr c0 nc) = tab (fun i j => h (f i j)) r0 nr c0 nc.
Proof. unfold tab. rewrite map_map. apply map_ext. intros i. rewrite map_map. reflexivity. Qed.
Lemma zrange_shift s len : zrange s len = map (fun k => (s + k)%Z) (zrange 0 len).
Proof. unfold zrange. rewrite map_map. apply map_ext. intros k. lia. Qed.
Lemma tab_shift {A} (g : Z -> Z -> A) r0 nr c0 nc :
  tab (fun i j => g (r0 + i)%Z (c0 + j)%Z) 0 nr 0 nc = tab g r0 nr c0 nc.
Proof.
  unfold tab. rewrite (zrange_shift r0 nr), (zrange_shift c0 nc). rewrite map_map. apply map_ext. intros i.
  rewrite map_map. reflexivity.
Qed.

Section Blocks.
  (* the full source: n_l x n_p pixels, affine coordinates with non-zero determinant, one band of data *)
  Variables x0 y0 a b c e : R.
  Hypothesis Hdet : c * b - e * a <> 0.
  Variables n_l n_p : Z.
  Hypothesis Hnl : (1 <= n_l <= 2 ^ 31)%Z.
  Hypothesis Hnp : (1 <= n_p <= 2 ^ 31)%Z.
  Variable D : Z -> Z -> R.
  Variable dst : Z -> Z -> R * R.

  Notation F := (affF x0 y0 a b c e).
  Definition pL (i j : Z) : R := exactL x0 y0 a b c e (fst (dst i j)) (snd (dst i j)).
  Definition pP (i j : Z) : R := exactP x0 y0 a b c e (fst (dst i j)) (snd (dst i j)).

  (* ---- cropping and shifting commute with the search ---- *)
  Lemma shift_affine oy ox :
    shift_fields F oy ox = affF (x0 + a * IZR oy + b * IZR ox) (y0 + c * IZR oy + e * IZR ox) a b c e.
  Proof.
    unfold shift_fields, affF, shift2. cbn [f_sx f_sy f_xl f_xp f_yl f_yp]. f_equal;
      apply functional_extensionality; intros l; apply functional_extensionality; intros p;
      rewrite ?plus_IZR; ring.
  Qed.
  Lemma exact_shift oy ox tx ty :
    exactL (x0 + a * IZR oy + b * IZR ox) (y0 + c * IZR oy + e * IZR ox) a b c e tx ty = exactL x0 y0 a b c e tx ty - IZR oy /\
    exactP (x0 + a * IZR oy + b * IZR ox) (y0 + c * IZR oy + e * IZR ox) a b c e tx ty = exactP x0 y0 a b c e tx ty - IZR ox.
  Proof. unfold exactL, exactP. split; field; exact Hdet. Qed.

  Definition crop_ok (ys xs : pslice) : Prop :=
    (0 <= sstart ys < sstop ys)%Z /\ (sstop ys <= n_l)%Z /\ (0 <= sstart xs < sstop xs)%Z /\ (sstop xs <= n_p)%Z.
  (* the point lies in the hull of the pixel centres of the crop *)
  Definition in_crop (ys xs : pslice) (L P : R) : bool :=
    inside (slen ys - 1) (slen xs - 1) (L - IZR (sstart ys)) (P - IZR (sstart xs)).

  (* gradient_resampler_indices on a crop: block-local search + offset = the full-source position,
     for the points inside the crop's hull; nothing for the others *)
  Definition crop_idx_spec (ys xs : pslice) (i j : Z) : option (R * R) :=
    if in_crop ys xs (pL i j) (pP i j) then Some (pP i j, pL i j) else None.

  Lemma slen_pos s : (sstart s < sstop s)%Z -> slen s = (sstop s - sstart s)%Z.
  Proof. unfold slen. lia. Qed.

  Lemma indices_on_crop ys xs rs cs : crop_ok ys xs ->
    gradient_resampler_indices RO (shift_fields F (sstart ys) (sstart xs)) ys xs dst rs cs
    = tab (crop_idx_spec ys xs) (sstart rs) (slen rs) (sstart cs) (slen cs).
  Proof.
    intros (Hy0 & Hy1 & Hx0 & Hx1). unfold gradient_resampler_indices. rewrite shift_affine.
    pose proof (slen_pos ys ltac:(lia)) as Sy. pose proof (slen_pos xs ltac:(lia)) as Sx.
    assert (KO : forall (l1 p1 : Z) (dl dp : R),
      in_image (slen ys - 1) (slen xs - 1) l1 p1 = true -> Rabs dl < 1 -> Rabs dp < 1 ->
      0 <= IZR l1 + dl <= IZR (slen ys - 1) -> 0 <= IZR p1 + dp <= IZR (slen xs - 1) ->
      (fun L P v => v = (P, L)) (IZR l1 + dl) (IZR p1 + dp) (idx_kern RO l1 p1 dl dp)).
    { intros. unfold idx_kern. cbn [add ofZ RO]. f_equal; lra. }
    assert (B1 : (0 <= slen ys - 1 < 2 ^ 31)%Z) by lia. assert (B2 : (0 <= slen xs - 1 < 2 ^ 31)%Z) by lia.
    rewrite (search_eq _ _ a b c e Hdet (slen ys - 1) (slen xs - 1) B1 B2
               (idx_kern RO) (fun L P v => v = (P, L)) KO (fun L P => (P, L)) (fun L P v H => H)).
    rewrite map_map_tab. rewrite <- (tab_shift (crop_idx_spec ys xs)). apply tab_ext_in. intros i j _ _. cbn beta.
    unfold pix_spec, crop_idx_spec, in_crop, pL, pP.
    destruct (exact_shift (sstart ys) (sstart xs) (fst (dst (sstart rs + i) (sstart cs + j))) (snd (dst (sstart rs + i) (sstart cs + j)))) as [-> ->].
    destruct (inside _ _ _ _); [|reflexivity]. cbn [option_map]. unfold add_offset. cbn [fst snd add ofZ RO]. f_equal. f_equal; ring.
  Qed.

  Lemma in_crop_inside ys xs L P : crop_ok ys xs -> in_crop ys xs L P = true -> inside (n_l - 1) (n_p - 1) L P = true.
  Proof.
    intros (Hy0 & Hy1 & Hx0 & Hx1). unfold in_crop. rewrite !inside_true.
    rewrite (slen_pos ys) by lia. rewrite (slen_pos xs) by lia. rewrite !minus_IZR.
    pose proof (IZR_le _ _ Hy1). pose proof (IZR_le _ _ Hx1).
    pose proof (IZR_le 0 (sstart ys) ltac:(lia)). pose proof (IZR_le 0 (sstart xs) ltac:(lia)).
    lra.
  Qed.

  (* ---- the interpolation step ---- *)
  Variable core : (Z -> Z -> R) -> Z -> Z -> R -> R -> R.
  Variable cspec : R -> R -> R.                 (* the value the property demands at position (L, P) *)
  Variable side : R -> R -> Prop.               (* side condition on the position (True for bilinear) *)
  Hypothesis core_ok : forall oy ox ny nx L P, (1 <= ny)%Z -> (1 <= nx)%Z ->
    0 <= L - IZR oy <= IZR (ny - 1) -> 0 <= P - IZR ox <= IZR (nx - 1) -> side L P ->
    core (shift2 D oy ox) ny nx (P - IZR ox) (L - IZR oy) = cspec L P.

  (* what every decomposition must produce *)
  Definition point_spec (i j : Z) : option R :=
    if inside (n_l - 1) (n_p - 1) (pL i j) (pP i j) then Some (cspec (pL i j) (pP i j)) else None.

  Variable crop : pslice -> pslice -> option (pslice * pslice).

  (* H_crop for one target block: the crop is a proper sub-rectangle of the source and, for every pixel of the
     block whose position is inside the source's hull of centres, the crop's hull of centres contains it *)
  Definition H_crop_block (rs cs : pslice) : Prop :=
    (forall ys xs, crop rs cs = Some (ys, xs) -> crop_ok ys xs) /\
    (forall i j, (sstart rs <= i < sstart rs + slen rs)%Z -> (sstart cs <= j < sstart cs + slen cs)%Z ->
       inside (n_l - 1) (n_p - 1) (pL i j) (pP i j) = true ->
       exists ys xs, crop rs cs = Some (ys, xs) /\ in_crop ys xs (pL i j) (pP i j) = true).
  Definition side_block (rs cs : pslice) : Prop :=
    forall i j, (sstart rs <= i < sstart rs + slen rs)%Z -> (sstart cs <= j < sstart cs + slen cs)%Z ->
      inside (n_l - 1) (n_p - 1) (pL i j) (pP i j) = true -> side (pL i j) (pP i j).

  Lemma result_block_spec rs cs : H_crop_block rs cs -> side_block rs cs ->
    result_block RO (fun ys xs => shift_fields F (sstart ys) (sstart xs)) crop dst D core rs cs
    = tab point_spec (sstart rs) (slen rs) (sstart cs) (slen cs).
  Proof.
    intros [Hok Hin] Hside. unfold result_block, indices_block.
    destruct (crop rs cs) as [[ys xs]|] eqn:C.
    - pose proof (Hok ys xs eq_refl) as Ok. rewrite (indices_on_crop ys xs rs cs Ok).
      unfold interp_block. rewrite map_map_tab. apply tab_ext_in. intros i j Hi Hj.
      unfold crop_idx_spec, point_spec.
      destruct (in_crop ys xs (pL i j) (pP i j)) eqn:IC.
      + rewrite (in_crop_inside ys xs _ _ Ok IC). unfold mask_adjust. cbn [fst snd sub ofZ RO]. f_equal.
        destruct Ok as (Hy0 & Hy1 & Hx0 & Hx1).
        unfold in_crop in IC. apply inside_true in IC. destruct IC as [IL IP].
        rewrite (slen_pos ys) in * by lia. rewrite (slen_pos xs) in * by lia.
        apply core_ok; try lia; try assumption.
        apply Hside; try assumption. apply in_crop_inside with (ys := ys) (xs := xs); [repeat split; lia|].
        unfold in_crop. apply inside_true. rewrite (slen_pos ys) by lia. rewrite (slen_pos xs) by lia. split; assumption.
      + cbn. destruct (inside (n_l - 1) (n_p - 1) (pL i j) (pP i j)) eqn:I; [|reflexivity].
        destruct (Hin i j Hi Hj I) as (ys' & xs' & C' & IC'). inversion C'; subst. congruence.
    - unfold nan_block. apply tab_ext_in. intros i j Hi Hj. unfold point_spec.
      destruct (inside (n_l - 1) (n_p - 1) (pL i j) (pP i j)) eqn:I; [|reflexivity].
      destruct (Hin i j Hi Hj I) as (ys' & xs' & C' & _). congruence.
  Qed.

  (* H_crop for a decomposition (row chunks, column chunks) *)
  Definition H_crop (rows cols : list Z) : Prop :=
    forall rs cs, In rs (axis_slices rows) -> In cs (axis_slices cols) -> H_crop_block rs cs.
  Definition H_side (rows cols : list Z) : Prop :=
    forall rs cs, In rs (axis_slices rows) -> In cs (axis_slices cols) -> side_block rs cs.

  Theorem resample_any_chunking rows cols :
    Forall (fun x => (0 <= x)%Z) rows -> Forall (fun x => (0 <= x)%Z) cols -> H_crop rows cols -> H_side rows cols ->
    resample RO (fun ys xs => shift_fields F (sstart ys) (sstart xs)) crop dst D core rows cols
    = tab point_spec 0 (sumZ rows) 0 (sumZ cols).
  Proof.
    intros Hr Hc HC HS. unfold resample. apply assemble_blocks_eq; try assumption.
    intros rs cs Irs Ics. apply result_block_spec; [apply HC|apply HS]; assumption.
  Qed.
End Blocks.
