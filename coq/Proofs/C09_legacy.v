(* C09: the legacy stacking path (parallel_gradient_search / _concatenate_chunks): a target block is searched once per
   co-located source chunk and the results are reduced with nanmax. *)
From Coq Require Import Reals ZArith Lra Lia Bool List Psatz.
From Flocq Require Import Zaux Raux Generic_fmt Round_NE.
From PR Require Import Base.ZX Base.Num Base.RNum Base.Slice Model.Partition Model.Blockwise Model.Gradient
     Proofs.C05_assemble Proofs.C09_newton Proofs.C09_scan Proofs.C09_kernels Proofs.C09_blocks Proofs.C09_main.
Import ListNotations.
Open Scope R_scope.

Lemma map2_map {A B C X} (g : A -> B -> C) (f : X -> A) (h : X -> B) (l : list X) :
  map2 g (map f l) (map h l) = map (fun x => g (f x) (h x)) l.
Proof. unfold map2. induction l as [|x l IH]; cbn; [reflexivity|]. f_equal. exact IH. Qed.
Lemma stack2_tab (f h : Z -> Z -> option R) r0 nr c0 nc :
  stack2 RO (tab f r0 nr c0 nc) (tab h r0 nr c0 nc) = tab (fun i j => omax RO (f i j) (h i j)) r0 nr c0 nc.
Proof.
  unfold stack2, tab. rewrite map2_map. apply map_ext. intros i. apply map2_map.
Qed.

Lemma bilin4_shift D oy ox L P :
  bilin4 (shift2 D oy ox) (Zfloor (L - IZR oy)) (Zfloor (P - IZR ox)) (L - IZR oy) (P - IZR ox) = bilin4 D (Zfloor L) (Zfloor P) L P.
Proof.
  rewrite !Zfloor_shift. unfold bilin4, shift2. rewrite !minus_IZR.
  replace (Zfloor L - oy + oy)%Z with (Zfloor L) by lia. replace (Zfloor P - ox + ox)%Z with (Zfloor P) by lia.
  replace (Zfloor L - oy + 1 + oy)%Z with (Zfloor L + 1)%Z by lia. replace (Zfloor P - ox + 1 + ox)%Z with (Zfloor P + 1)%Z by lia.
  replace (L - IZR oy - (IZR (Zfloor L) - IZR oy)) with (L - IZR (Zfloor L)) by ring.
  replace (P - IZR ox - (IZR (Zfloor P) - IZR ox)) with (P - IZR (Zfloor P)) by ring. reflexivity.
Qed.

Section Legacy.
  Variables x0 y0 a b c e : R.
  Hypothesis Hdet : c * b - e * a <> 0.
  Variables n_l n_p : Z.
  Hypothesis Hnl : (1 <= n_l <= 2 ^ 31)%Z.
  Hypothesis Hnp : (1 <= n_p <= 2 ^ 31)%Z.
  Variable D : Z -> Z -> R.
  Variable dst : Z -> Z -> R * R.
  Notation F := (affF x0 y0 a b c e).
  Notation L_ := (pL x0 y0 a b c e dst).
  Notation P_ := (pP x0 y0 a b c e dst).

  Definition contrib_spec (cr : pslice * pslice) (i j : Z) : option R :=
    if in_crop (fst cr) (snd cr) (L_ i j) (P_ i j) then Some (bil_value D (L_ i j) (P_ i j)) else None.

  (* one source chunk: the Cython bilinear kernel on the chunk's own data gives the full-source bilinear value
     on the chunk's hull of centres and nothing elsewhere *)
  Lemma contribution_spec rs cs cr : crop_ok n_l n_p (fst cr) (snd cr) ->
    legacy_contribution RO F D dst rs cs cr = tab (contrib_spec cr) (sstart rs) (slen rs) (sstart cs) (slen cs).
  Proof.
    destruct cr as [ys xs]. cbn [fst snd]. intros (Hy0 & Hy1 & Hx0 & Hx1). unfold legacy_contribution.
    rewrite (shift_affine x0 y0 a b c e).
    assert (Sy : slen ys = (sstop ys - sstart ys)%Z) by (unfold slen; lia).
    assert (Sx : slen xs = (sstop xs - sstart xs)%Z) by (unfold slen; lia).
    rewrite (search_bil _ _ a b c e Hdet (slen ys - 1) (slen xs - 1) ltac:(lia) ltac:(lia)).
    rewrite <- (tab_shift (contrib_spec (ys, xs))). apply tab_ext_in. intros i j _ _. cbn beta.
    unfold pix_spec, contrib_spec, in_crop, pL, pP. cbn [fst snd].
    destruct (exact_shift x0 y0 a b c e Hdet (sstart ys) (sstart xs) (fst (dst (sstart rs + i) (sstart cs + j))) (snd (dst (sstart rs + i) (sstart cs + j)))) as [-> ->].
    destruct (inside _ _ _ _); [|reflexivity]. f_equal. unfold bil_value. apply bilin4_shift.
  Qed.

  Lemma omax_same_or_none (v : R) (u w : option R) : (u = Some v \/ u = None) -> (w = Some v \/ w = None) ->
    omax RO u w = if match u with Some _ => true | None => false end || match w with Some _ => true | None => false end then Some v else None.
  Proof.
    intros [->| ->] [->| ->]; cbn; try reflexivity. unfold fmax. cbn [ltb RO].
    destruct (Rltb v v); reflexivity.
  Qed.

  (* the stack of all co-located chunks: valued iff SOME chunk's hull of centres contains the point *)
  Definition stack_spec (crops : list (pslice * pslice)) (i j : Z) : option R :=
    if existsb (fun cr => in_crop (fst cr) (snd cr) (L_ i j) (P_ i j)) crops then Some (bil_value D (L_ i j) (P_ i j)) else None.

  Theorem legacy_stack_spec rs cs crops : Forall (fun cr => crop_ok n_l n_p (fst cr) (snd cr)) crops ->
    legacy_stack RO F D dst rs cs crops = tab (stack_spec crops) (sstart rs) (slen rs) (sstart cs) (slen cs).
  Proof.
    induction 1 as [|cr crops Hok _ IH]; cbn [legacy_stack fold_right].
    - apply tab_ext_in. intros. reflexivity.
    - unfold legacy_stack in IH. rewrite IH. rewrite (contribution_spec rs cs cr Hok). rewrite stack2_tab.
      apply tab_ext_in. intros i j _ _. unfold contrib_spec, stack_spec. cbn [existsb].
      destruct (in_crop (fst cr) (snd cr) (L_ i j) (P_ i j)); destruct (existsb _ crops); cbn; try reflexivity.
      unfold fmax. cbn [ltb RO]. destruct (Rltb _ _); reflexivity.
  Qed.

  (* H_cover: the chunks' hulls of centres together cover the position of every inside pixel of the block
     (true when consecutive source chunks OVERLAP by one pixel; false for a plain partition of the source, see the
     refuted example in Properties/C09.v) *)
  Definition H_cover (rs cs : pslice) (crops : list (pslice * pslice)) : Prop :=
    forall i j, (sstart rs <= i < sstart rs + slen rs)%Z -> (sstart cs <= j < sstart cs + slen cs)%Z ->
      inside (n_l - 1) (n_p - 1) (L_ i j) (P_ i j) = true ->
      existsb (fun cr => in_crop (fst cr) (snd cr) (L_ i j) (P_ i j)) crops = true.

  Theorem legacy_stack_if rs cs crops : Forall (fun cr => crop_ok n_l n_p (fst cr) (snd cr)) crops -> H_cover rs cs crops ->
    legacy_stack RO F D dst rs cs crops
    = tab (point_spec x0 y0 a b c e n_l n_p dst (bil_value D)) (sstart rs) (slen rs) (sstart cs) (slen cs).
  Proof.
    intros Hok Hc. rewrite (legacy_stack_spec rs cs crops Hok). apply tab_ext_in. intros i j Hi Hj.
    unfold stack_spec, point_spec.
    destruct (inside (n_l - 1) (n_p - 1) (L_ i j) (P_ i j)) eqn:I.
    - rewrite (Hc i j Hi Hj I). reflexivity.
    - destruct (existsb _ crops) eqn:E; [|reflexivity]. exfalso.
      apply existsb_exists in E. destruct E as (cr & Hin & IC). rewrite Forall_forall in Hok.
      rewrite (in_crop_inside n_l n_p (fst cr) (snd cr) _ _ (Hok cr Hin) IC) in I. discriminate.
  Qed.
End Legacy.
