(* C04 — proofs about the weighted-resampling model on the real instance; induction over the neighbour-slot list,
   so every statement holds for every k. *)
From Coq Require Import Reals ZArith Bool List Lra Lia Psatz.
From PR Require Import Base.Num Base.RNum Model.Weights.
Import ListNotations.
Open Scope R_scope.

Fixpoint sumR (l : list R) : R := match l with [] => 0 | x :: r => x + sumR r end.

Lemma sumR_app a b : sumR (a ++ b) = sumR a + sumR b.
Proof. induction a as [|x a IH]; cbn; [lra|rewrite IH; lra]. Qed.

(* ---- the neighbours in range ("present" slots) of one column, as (distance, value) *)
Fixpoint nbrs (n : Z) (col : list R) (ix : list Z) (ds : list R) : list (R * R) :=
  match ix, ds with
  | i :: ix', d :: ds' => if (i =? n)%Z then nbrs n col ix' ds' else (d, nth (Z.to_nat i) col 0) :: nbrs n col ix' ds'
  | _, _ => []
  end.

(* (weight, value) of the present slots *)
Definition pres (ss : list (slot R)) : list (R * R) := map (fun s => (wgt s, val s)) (filter present ss).

Definition Wsum (l : list (R * R)) : R := sumR (map fst l).
Definition WXsum (l : list (R * R)) : R := sumR (map (fun p => fst p * snd p) l).
Definition W2sum (l : list (R * R)) : R := sumR (map (fun p => fst p * fst p) l).
Definition Dev (m : R) (l : list (R * R)) : R := sumR (map (fun p => fst p * ((snd p - m) * (snd p - m))) l).

Definition weigh (wf : R -> R) (nb : list (R * R)) : list (R * R) := map (fun p => (wf (fst p), snd p)) nb.

Lemma pres_gather wf n col ix ds :
  pres (slots_col (gather RO) wf n col ix ds) = weigh wf (nbrs n col ix ds).
Proof.
  unfold slots_col, pres, weigh. revert ds.
  induction ix as [|i ix IH]; intros [|d ds]; cbn; try reflexivity.
  unfold gather at 1. cbn. destruct (i =? n)%Z eqn:E; cbn; [apply IH|].
  f_equal. apply IH.
Qed.

(* ---- accumulation loops *)
Lemma acc_fold ss : forall ab,
  fold_left (acc_step RO (wtmp RO)) ss ab = (fst ab + WXsum (pres ss), snd ab + Wsum (pres ss)).
Proof.
  induction ss as [|s ss IH]; intros [a b]; cbn [fold_left].
  - unfold WXsum, Wsum; cbn. f_equal; lra.
  - rewrite IH. unfold pres, acc_step, wtmp, b2t, tone, tzero; cbn.
    destruct (present s); cbn; unfold WXsum, Wsum; cbn; f_equal; lra.
Qed.

Lemma acc_R ss : acc RO (wtmp RO) ss = (WXsum (pres ss), Wsum (pres ss)).
Proof. unfold acc, tzero. rewrite acc_fold. cbn. f_equal; lra. Qed.

Lemma mean_of_R ss f :
  mean_of RO (wtmp RO) ss f = if Rlt_dec 0 (Wsum (pres ss)) then WXsum (pres ss) / Wsum (pres ss) else f.
Proof. unfold mean_of. rewrite acc_R. cbn. unfold Rltb, tzero. cbn. destruct (Rlt_dec 0 _); reflexivity. Qed.

Lemma count_fold ss : forall c,
  fold_left (fun c s => (c + (if present s then 1 else 0))%Z) ss c = (c + Z.of_nat (length (pres ss)))%Z.
Proof.
  induction ss as [|s ss IH]; intros c; cbn; [lia|]. rewrite IH. unfold pres.
  destruct (present s); cbn [filter map length]; lia.
Qed.

Lemma count_of_R ss : count_of ss = Z.of_nat (length (pres ss)).
Proof. unfold count_of. rewrite count_fold. lia. Qed.

Lemma unc_fold res ss : forall ab,
  fold_left (unc_step RO (wtmp RO) res) ss ab = (fst ab + W2sum (pres ss), snd ab + Dev res (pres ss)).
Proof.
  induction ss as [|s ss IH]; intros [a b]; cbn [fold_left].
  - unfold W2sum, Dev; cbn. f_equal; lra.
  - rewrite IH. unfold pres, unc_step, wtmp, sq, b2t, tone, tzero; cbn.
    destruct (present s); cbn; unfold W2sum, Dev; cbn; f_equal; lra.
Qed.

Lemma unc_R res ss : unc RO (wtmp RO) res ss = (W2sum (pres ss), Dev res (pres ss)).
Proof. unfold unc, tzero. rewrite unc_fold. cbn. f_equal; lra. Qed.

Lemma stddev_of_R ss res :
  stddev_of RO (wtmp RO) (count_of ss) ss res =
    if (1 <? Z.of_nat (length (pres ss)))%Z
    then (sqrt (Wsum (pres ss) / (Wsum (pres ss) * Wsum (pres ss) - W2sum (pres ss)) * Dev res (pres ss)), false)
    else (0, true).
Proof.
  unfold stddev_of. rewrite acc_R, unc_R, count_of_R. cbn.
  destruct (1 <? _)%Z; reflexivity.
Qed.

(* ---- column level, in terms of the neighbour info *)
Section Col.
  Variables (wf : R -> R) (n : Z) (col : list R) (ix : list Z) (ds : list R) (f : R).
  Let NB := weigh wf (nbrs n col ix ds).
  Let C := weighted_col RO wf n col ix ds f.

  Lemma col_res : c_res C = if Rlt_dec 0 (Wsum NB) then WXsum NB / Wsum NB else f.
  Proof. unfold C, weighted_col, col_of_slots; cbn [c_res]. rewrite mean_of_R, pres_gather. reflexivity. Qed.

  Lemma weighted_mean_spec :
    (0 < Wsum NB -> c_res C = WXsum NB / Wsum NB) /\ (Wsum NB <= 0 -> c_res C = f).
  Proof. rewrite col_res. split; intros H; destruct (Rlt_dec 0 (Wsum NB)); try reflexivity; lra. Qed.

  Lemma count_spec : c_cnt C = Z.of_nat (length (nbrs n col ix ds)).
  Proof.
    unfold C, weighted_col, col_of_slots; cbn [c_cnt]. rewrite count_of_R, pres_gather.
    unfold weigh. rewrite map_length. reflexivity.
  Qed.

  Lemma stddev_spec :
    ((1 < c_cnt C)%Z -> c_sd_undef C = false /\
        c_sd C = sqrt (Wsum NB / (Wsum NB * Wsum NB - W2sum NB) * Dev (c_res C) NB)) /\
    ((c_cnt C <= 1)%Z -> c_sd_undef C = true).
  Proof.
    rewrite count_spec.
    unfold C, weighted_col, col_of_slots; cbn [c_sd c_sd_undef c_res].
    rewrite stddev_of_R, pres_gather.
    assert (EL : length (weigh wf (nbrs n col ix ds)) = length (nbrs n col ix ds)) by (unfold weigh; apply map_length).
    rewrite EL. unfold NB.
    destruct (Z.ltb_spec 1 (Z.of_nat (length (nbrs n col ix ds)))); cbn [fst snd]; split; intros H'; try lia;
      try split; reflexivity.
  Qed.
End Col.

(* ---- sums of non-negative terms *)
Lemma Wsum_nonneg l : (forall p, In p l -> 0 <= fst p) -> 0 <= Wsum l.
Proof.
  unfold Wsum. induction l as [|p l IH]; cbn; intros H; [lra|].
  pose proof (H p (or_introl eq_refl)). assert (0 <= sumR (map fst l)) by (apply IH; intros; apply H; right; assumption). lra.
Qed.

Lemma Wsum_pos l : l <> [] -> (forall p, In p l -> 0 < fst p) -> 0 < Wsum l.
Proof.
  intros Hne H. destruct l as [|p l]; [congruence|]. unfold Wsum; cbn.
  pose proof (H p (or_introl eq_refl)).
  assert (0 <= Wsum l) by (apply Wsum_nonneg; intros q Hq; apply Rlt_le, H; right; assumption).
  unfold Wsum in *. lra.
Qed.

(* convexity: lo*W <= WX <= hi*W *)
Lemma WX_between l lo hi :
  (forall p, In p l -> 0 <= fst p /\ lo <= snd p <= hi) ->
  lo * Wsum l <= WXsum l <= hi * Wsum l.
Proof.
  unfold Wsum, WXsum. induction l as [|p l IH]; cbn; intros H; [lra|].
  destruct (H p (or_introl eq_refl)) as [Hw [Hl Hh]].
  assert (IH' := IH (fun q Hq => H q (or_intror Hq))). nra.
Qed.

Lemma convex_mean l lo hi :
  (forall p, In p l -> 0 <= fst p /\ lo <= snd p <= hi) -> 0 < Wsum l ->
  lo <= WXsum l / Wsum l <= hi.
Proof.
  intros H HW. pose proof (WX_between l lo hi H) as [H1 H2].
  split.
  - apply Rmult_le_reg_r with (Wsum l); [assumption|]. unfold Rdiv. rewrite Rmult_assoc, Rinv_l by lra. lra.
  - apply Rmult_le_reg_r with (Wsum l); [assumption|]. unfold Rdiv. rewrite Rmult_assoc, Rinv_l by lra. lra.
Qed.

(* mask channel: values 0/1, non-negative weights *)
Lemma WX_mask_nonneg l :
  (forall p, In p l -> 0 <= fst p /\ (snd p = 0 \/ snd p = 1)) -> 0 <= WXsum l.
Proof.
  unfold WXsum. induction l as [|p l IH]; cbn; intros H; [lra|].
  destruct (H p (or_introl eq_refl)) as [Hw Hm].
  assert (IH' := IH (fun q Hq => H q (or_intror Hq))). destruct Hm as [-> | ->]; lra.
Qed.

Lemma WX_mask_zero_iff l :
  (forall p, In p l -> 0 <= fst p /\ (snd p = 0 \/ snd p = 1)) ->
  (WXsum l <> 0 <-> exists p, In p l /\ 0 < fst p /\ snd p = 1).
Proof.
  induction l as [|p l IH]; intros H.
  - unfold WXsum; cbn. split; [intros E; lra|intros [p [[] _]]].
  - destruct (H p (or_introl eq_refl)) as [Hw Hm].
    assert (Hl := fun q Hq => H q (or_intror Hq)).
    pose proof (WX_mask_nonneg l Hl) as Hnn. specialize (IH Hl).
    assert (E : WXsum (p :: l) = fst p * snd p + WXsum l) by reflexivity. rewrite E.
    split.
    + intros Hne.
      destruct (Rlt_dec 0 (fst p)) as [Hp|Hp].
      * destruct Hm as [Hm|Hm].
        -- rewrite Hm in Hne. assert (WXsum l <> 0) by lra. destruct (proj1 IH H0) as [q [Hq Hq']].
           exists q; split; [right; assumption|assumption].
        -- exists p; split; [left; reflexivity|split; assumption].
      * assert (fst p = 0) by lra. rewrite H0 in Hne. assert (WXsum l <> 0) by lra.
        destruct (proj1 IH H1) as [q [Hq Hq']]. exists q; split; [right; assumption|assumption].
    + intros [q [[->|Hq] [Hq1 Hq2]]].
      * rewrite Hq2. lra.
      * assert (WXsum l <> 0) by (apply IH; exists q; auto).
        assert (0 <= fst p * snd p) by (destruct Hm as [-> | ->]; lra). lra.
Qed.

Lemma mask_mean_nonzero_iff l :
  (forall p, In p l -> 0 <= fst p /\ (snd p = 0 \/ snd p = 1)) -> 0 < Wsum l ->
  (WXsum l / Wsum l <> 0 <-> exists p, In p l /\ 0 < fst p /\ snd p = 1).
Proof.
  intros H HW. rewrite <- (WX_mask_zero_iff l H). split; intros Hne E; apply Hne.
  - rewrite E. unfold Rdiv. lra.
  - apply (Rmult_eq_compat_r (Wsum l)) in E. unfold Rdiv in E. rewrite Rmult_assoc, Rinv_l in E by lra. lra.
Qed.

(* the estimator's denominator is positive as soon as two neighbours carry positive weight *)
Lemma W2_le_Wsq l : (forall p, In p l -> 0 <= fst p) -> W2sum l <= Wsum l * Wsum l.
Proof.
  unfold W2sum, Wsum. induction l as [|p l IH]; cbn; intros H; [lra|].
  pose proof (H p (or_introl eq_refl)).
  assert (Hl := fun q Hq => H q (or_intror Hq)).
  pose proof (Wsum_nonneg l Hl) as Hnn. unfold Wsum in Hnn. specialize (IH Hl). nra.
Qed.

Lemma estimator_denominator_pos l :
  (forall p, In p l -> 0 < fst p) -> (2 <= length l)%nat -> 0 < Wsum l * Wsum l - W2sum l.
Proof.
  intros H Hlen. destruct l as [|p [|q l]]; cbn in Hlen; try lia.
  pose proof (H p (or_introl eq_refl)) as Hp.
  assert (Hl : forall r, In r (q :: l) -> 0 < fst r) by (intros r Hr; apply H; right; assumption).
  assert (Hpos : 0 < Wsum (q :: l)) by (apply Wsum_pos; [discriminate|assumption]).
  assert (Hle : W2sum (q :: l) <= Wsum (q :: l) * Wsum (q :: l)) by (apply W2_le_Wsq; intros r Hr; apply Rlt_le, Hl, Hr).
  assert (E1 : Wsum (p :: q :: l) = fst p + Wsum (q :: l)) by reflexivity.
  assert (E2 : W2sum (p :: q :: l) = fst p * fst p + W2sum (q :: l)) by reflexivity.
  rewrite E1, E2. nra.
Qed.

(* ---- k = 1 *)
Lemma nn_col_spec n col i f (w : R) :
  let C := nn_col RO n col i f in
  ((i =? n)%Z = true -> c_res C = f /\ c_cnt C = 0%Z) /\
  ((i =? n)%Z = false -> w <> 0 -> c_res C = (w * nth (Z.to_nat i) col 0) / w /\ c_cnt C = 1%Z) /\
  c_sd_undef C = true.
Proof.
  cbn. unfold nn_col. destruct (i =? n)%Z; cbn; repeat split; intros; try discriminate; try reflexivity.
  field. assumption.
Qed.

(* ---- gauss weights *)
Definition gaussw (sigma d : R) : R := exp (- (d * d) / (sigma * sigma)).
Lemma gaussw_pos sigma d : 0 < gaussw sigma d.
Proof. apply exp_pos. Qed.

Lemma weigh_in wf nb p : In p (weigh wf nb) -> exists q, In q nb /\ p = (wf (fst q), snd q).
Proof. unfold weigh. rewrite in_map_iff. intros [q [E Hq]]. exists q. split; [assumption|symmetry; assumption]. Qed.

(* ---- corollaries *)
Lemma nbrs_all_missing n col ix : forall ds, Forall (fun i => i = n) ix -> nbrs n col ix ds = [].
Proof.
  induction ix as [|i ix IH]; intros [|d ds] H; cbn; try reflexivity.
  inversion H; subst. rewrite Z.eqb_refl. apply IH. assumption.
Qed.

Lemma no_neighbour_filled wf n col ix ds f :
  Forall (fun i => i = n) ix ->
  let C := weighted_col RO wf n col ix ds f in c_res C = f /\ c_cnt C = 0%Z /\ c_sd_undef C = true.
Proof.
  intros H C. unfold C.
  destruct (weighted_mean_spec wf n col ix ds f) as [_ Hf].
  pose proof (count_spec wf n col ix ds f) as Hc.
  destruct (stddev_spec wf n col ix ds f) as [_ Hs].
  rewrite (nbrs_all_missing n col ix ds H) in *. cbn in *.
  repeat split; [apply Hf; unfold Wsum; cbn; lra|assumption|apply Hs; lia].
Qed.

Lemma weigh_nonempty wf nb : nb <> [] -> weigh wf nb <> [].
Proof. destruct nb; [congruence|discriminate]. Qed.

Lemma convex_spec wf n col ix ds f lo hi :
  let NB := weigh wf (nbrs n col ix ds) in
  (forall p, In p NB -> 0 <= fst p /\ lo <= snd p <= hi) -> 0 < Wsum NB ->
  lo <= c_res (weighted_col RO wf n col ix ds f) <= hi.
Proof.
  intros NB H HW. destruct (weighted_mean_spec wf n col ix ds f) as [Hm _]. fold NB in Hm.
  rewrite (Hm HW). apply convex_mean; assumption.
Qed.

Lemma gauss_spec sigma n col ix ds f lo hi :
  let NB := weigh (gaussw sigma) (nbrs n col ix ds) in
  let C := weighted_col RO (gaussw sigma) n col ix ds f in
  nbrs n col ix ds <> [] -> (forall p, In p (nbrs n col ix ds) -> lo <= snd p <= hi) ->
  0 < Wsum NB /\ c_res C = WXsum NB / Wsum NB /\ lo <= c_res C <= hi /\
  (forall p, In p NB -> 0 < fst p) /\ c_cnt C = Z.of_nat (length NB).
Proof.
  intros NB C Hne Hb.
  assert (Hpos : forall p, In p NB -> 0 < fst p).
  { intros p Hp. destruct (weigh_in _ _ _ Hp) as [q [_ ->]]. apply gaussw_pos. }
  assert (HW : 0 < Wsum NB) by (apply Wsum_pos; [apply weigh_nonempty; assumption|assumption]).
  assert (Hcv : lo <= c_res C <= hi).
  { apply convex_spec; [|assumption]. intros p Hp. destruct (weigh_in _ _ _ Hp) as [q [Hq ->]].
    cbn [fst snd]. split; [apply Rlt_le, gaussw_pos|apply Hb; assumption]. }
  split; [assumption|]. split; [apply weighted_mean_spec; assumption|]. split; [assumption|].
  split; [assumption|].
  unfold C. rewrite count_spec. unfold NB, weigh. rewrite map_length. reflexivity.
Qed.

Lemma Dev_nonneg m l : (forall p, In p l -> 0 <= fst p) -> 0 <= Dev m l.
Proof.
  unfold Dev. induction l as [|p l IH]; cbn; intros H; [lra|].
  pose proof (H p (or_introl eq_refl)). assert (IH' := IH (fun q Hq => H q (or_intror Hq))).
  pose proof (Rle_0_sqr (snd p - m)) as Hs. unfold Rsqr in Hs. nra.
Qed.

Lemma stddev_welldefined wf n col ix ds f :
  let NB := weigh wf (nbrs n col ix ds) in
  (forall p, In p NB -> 0 < fst p) -> (1 < c_cnt (weighted_col RO wf n col ix ds f))%Z ->
  0 < Wsum NB * Wsum NB - W2sum NB /\ 0 <= Dev (c_res (weighted_col RO wf n col ix ds f)) NB.
Proof.
  intros NB Hpos Hc. rewrite count_spec in Hc. split.
  - apply estimator_denominator_pos; [assumption|]. unfold NB, weigh. rewrite map_length. lia.
  - apply Dev_nonneg. intros p Hp. apply Rlt_le, Hpos, Hp.
Qed.

(* evaluation of closed examples (indices are Z literals) *)
Ltac c04_eval := cbn; cbv [Pos.to_nat Pos.iter_op Nat.add]; cbn.
