(* C18: (1) the values selected downstream of the index pairs never come from row 0 / column 0 for a point outside;
        (2) the area's own pixel centres map back to their cell in every module (composition with the canonical map);
        (3) the independently written models of C01 (masked_ints), C07 (bucket) and C08 (ll2cr) are the same functions. *)
From Coq Require Import Reals ZArith Lra Lia Bool List Arith.
From Flocq Require Import Zaux Raux Generic_fmt Round_NE.
From PR Require Import Base.Num Base.RNum Model.Grid Model.CellIndex Model.CellSample
     Proofs.Grid_real Proofs.C18_axis Proofs.C18_real.
From PR Require Model.Bucket Model.C01_Area Model.EWA.
Open Scope Z_scope.

(* ---------------------------------------------------------------- (1) value selection *)
Lemma linesample_value_spec img fill h w r c :
  linesample_value img fill h w r c = if in_range h r && in_range w c then img r c else fill.
Proof.
  unfold linesample_value, b2z. destruct (in_range h r); destruct (in_range w c); cbn [andb]; rewrite ?Z.mul_1_r, ?Z.mul_0_r; lia.
Qed.

Lemma linesample_masked_spec img h w r c :
  linesample_masked img h w r c = if in_range h r && in_range w c then (false, img r c) else (true, snd (linesample_masked img h w r c)).
Proof.
  unfold linesample_masked, b2z. destruct (in_range h r); destruct (in_range w c); cbn [andb negb snd]; rewrite ?Z.mul_1_r; reflexivity.
Qed.

Lemma value_of_cell {T} (a : area T) img fill r c :
  linesample_value img fill (height a) (width a) r c = match cell_of a r c with Some (r', c') => img r' c' | None => fill end.
Proof. rewrite linesample_value_spec. unfold cell_of. destruct (_ && _); reflexivity. Qed.

Lemma grid_image_spec {T} (OP : ops T) img fill a x y :
  grid_image OP img fill a x y = match grid_cell OP a x y with Some (r, c) => img r c | None => fill end.
Proof. unfold grid_image. rewrite value_of_cell. reflexivity. Qed.

Lemma quick_image_spec {T} (OP : ops T) img fill a x y :
  quick_image OP img fill a x y = match quick_cell OP a x y with Some (r, c) => img r c | None => fill end.
Proof. unfold quick_image. rewrite value_of_cell. reflexivity. Qed.

Lemma gf_valid_index_spec {T} (OP : ops T) filt a x y :
  gf_valid_index OP filt a x y = match gf_cell OP a x y with Some (r, c) => filt r c | None => false end.
Proof.
  unfold gf_valid_index, gf_cell, gf_cell_with, cell_of. cbv zeta.
  destruct (in_range (height a) _); destruct (in_range (width a) _); cbn [negb andb]; rewrite ?andb_true_r, ?andb_false_r; reflexivity.
Qed.

Open Scope R_scope.

Lemma grid_image_outside img fill a x y : wf_area a -> ~ in_extent a x y -> grid_image RO img fill a x y = fill.
Proof. intros H Ho. rewrite grid_image_spec, grid_outside by assumption. reflexivity. Qed.
Lemma grid_image_interior img fill a x y r c : wf_area a -> fits_int32 a -> valid_cell a r c -> in_cell_open a r c x y ->
  grid_image RO img fill a x y = img r c.
Proof. intros H F V Hi. rewrite grid_image_spec, (grid_complete a x y r c) by assumption. reflexivity. Qed.
Lemma quick_image_outside img fill a x y : wf_area a -> ~ in_extent a x y -> quick_image RO img fill a x y = fill.
Proof. intros H Ho. rewrite quick_image_spec, quick_outside by assumption. reflexivity. Qed.
Lemma quick_image_interior img fill a x y r c : wf_area a -> fits_int32 a -> valid_cell a r c -> in_cell_open a r c x y ->
  quick_image RO img fill a x y = img r c.
Proof. intros H F V Hi. rewrite quick_image_spec, (quick_complete a x y r c) by assumption. reflexivity. Qed.
Lemma gf_valid_outside filt a x y : wf_area a -> ~ in_extent a x y -> gf_valid_index RO filt a x y = false.
Proof. intros H Ho. rewrite gf_valid_index_spec, gf_outside by assumption. reflexivity. Qed.
Lemma gf_valid_interior filt a x y r c : wf_area a -> fits_int32 a -> valid_cell a r c -> in_cell_open a r c x y ->
  gf_valid_index RO filt a x y = filt r c.
Proof. intros H F V Hi. rewrite gf_valid_index_spec, (gf_complete a x y r c) by assumption. reflexivity. Qed.

(* ---------------------------------------------------------------- (2) pixel centres come back to their cell *)
Lemma centre_in_cell a r c : wf_area a -> in_cell_open a r c (proj_x RO a c) (proj_y RO a r).
Proof.
  intros H. apply in_cell_open_frac; [exact H |].
  pose proof (dx_nonzero a H) as Dx. pose proof (dy_nonzero a H) as Dy.
  assert (Eu : ufrac a (proj_x RO a c) = IZR c + / 2) by (rewrite proj_x_canonical; unfold ufrac; field; exact Dx).
  assert (Ev : vfrac a (proj_y RO a r) = IZR r + / 2) by (rewrite proj_y_canonical; unfold vfrac; field; exact Dy).
  rewrite Eu, Ev. lra.
Qed.

Lemma centres_roundtrip a r c : wf_area a -> fits_int32 a -> valid_cell a r c ->
  let x := proj_x RO a c in let y := proj_y RO a r in
  area_cell RO a x y = Some (r, c) /\ grid_cell RO a x y = Some (r, c) /\ quick_cell RO a x y = Some (r, c) /\
  gf_cell RO a x y = Some (r, c) /\ bk_cell RO a x y = Some (r, c) /\
  (x < big_1e30 RO -> forall fill, ll2cr_point RO a fill x y = (IZR c, IZR r, true)).
Proof.
  intros H F V x y. pose proof (centre_in_cell a r c H) as Hi. fold x y in Hi.
  repeat split.
  - apply area_complete; assumption.
  - apply grid_complete; assumption.
  - apply quick_complete; assumption.
  - apply gf_complete; assumption.
  - apply bk_complete; assumption.
  - intros Hx fill. rewrite ll2cr_point_R by assumption.
    assert (Ec : arr_of_proj_x RO a x = IZR c) by (apply (arr_proj_inverse_x a (IZR c) H)).
    assert (Er : arr_of_proj_y RO a y = IZR r) by (apply (arr_proj_inverse_y a (IZR r) H)).
    rewrite Ec, Er. f_equal. apply ll_in_grid_true. destruct V as [Vr Vc].
    assert (0 <= IZR c <= IZR (width a)) by (split; apply IZR_le; lia).
    assert (0 <= IZR r <= IZR (height a)) by (split; apply IZR_le; lia). lra.
Qed.

(* ---------------------------------------------------------------- (3) the other properties' models of the same code *)
(* C07 (Model/Bucket.v): same function for every arithmetic *)
Lemma c07_bucket_same {T} (OP : ops T) (a : area T) x y :
  Bucket.bk_cell_of OP a (x, y) = bk_cell OP a x y /\ Bucket.bk_xy_idx OP a (x, y) = bk_xy OP a x y.
Proof.
  unfold Bucket.bk_cell_of, Bucket.bk_xy_idx, bk_xy, bk_cell, cell_of, bk_row, bk_col, Bucket.bk_x_raw, Bucket.bk_y_raw,
    Bucket.bk_floor_i64, Bucket.bk_mask, Bucket.bk_int64_ok, Bucket.bk_int64_min, to_int, wrap_int, int_min, in_range. cbn [fst snd].
  change (2 ^ (64 - 1))%Z with (2 ^ 63)%Z.
  set (u := div OP (sub OP x (xmin a)) (pixel_size_x OP a)). set (v := div OP (sub OP (ymax a) y) (pixel_size_y OP a)).
  set (xi := if isfinite OP u then _ else _). set (yi := if isfinite OP v then _ else _).
  destruct (0 <=? xi)%Z; destruct (xi <? width a)%Z; destruct (0 <=? yi)%Z; destruct (yi <? height a)%Z; split; reflexivity.
Qed.

(* C01 (Model/C01_Area.v): the scalar index lookup (col, row) / ValueError *)
Lemma mi_index_nowrap n v : (1 <= n <= 2 ^ 63)%Z -> mi_index RO n v = ZnearestE (clipf RO v 0 (IZR (n - 1))).
Proof.
  intros Hn. rewrite mi_index_R. assert (Hlo : 0 <= IZR (n - 1)) by (apply IZR_le; lia).
  assert (B : (0 <= ZnearestE (clipf RO v 0%R (IZR (n - 1))) <= n - 1)%Z).
  { apply near_bounds. destruct (clipf_cases v 0 (IZR (n - 1)) Hlo) as [[_ E] | [[_ E] | [Hb E]]]; rewrite E; cbn; lra. }
  apply wrap_int_id; lia.
Qed.

Lemma c01_index_same a x y : wf_area a -> fits_int32 a ->
  C01_Area.c01_index_scalar RO a x y = match area_cell RO a x y with Some (r, c) => Some (c, r) | None => None end.
Proof.
  intros (Hw & Hh & _) F. apply fits_32_64 in F. destruct F as [F1 F2]. change (2 ^ (64 - 1))%Z with (2 ^ 63)%Z in *.
  unfold C01_Area.c01_index_scalar, C01_Area.c01_index_array, C01_Area.c01_masked_index, area_cell, area_col_mask, area_row_mask, area_col, area_row.
  change (C01_Area.c01_area_mask RO) with (mi_mask RO).
  rewrite (mi_index_nowrap (width a)) by lia. rewrite (mi_index_nowrap (height a)) by lia.
  unfold C01_Area.c01_area_index, C01_Area.c01_clip, clipf.
  destruct (mi_mask RO (width a) _); destruct (mi_mask RO (height a) _); reflexivity.
Qed.

(* C08 (Model/EWA.v): its model of ewa.ll2cr + one iteration of the ll2cr_static loop, for every x (also x >= 1e30) *)
Lemma big_same : EWA.big30 RO = big_1e30 RO.
Proof. unfold EWA.big30. rewrite big_R. cbn. lra. Qed.

Lemma c08_ll2cr_same (a : area R) fill x y :
  EWA.ll2cr_pixel RO (EWA.ll2cr_params RO a) fill (x, y) = ll2cr_point RO a fill x y.
Proof.
  unfold EWA.ll2cr_pixel, ll2cr_point. rewrite big_same. destruct (leb RO (big_1e30 RO) x); reflexivity.
Qed.

(* ---------------------------------------------------------------- (4) joint evaluation of several bucket resamplers *)
Section Joint.
  Context {T : Type} (OP : ops T).
  (* task names identify what the task computes: equal names only for equal projection outputs *)
  Definition keys_sound (rs : list (resampler (T := T))) : Prop :=
    forall r1 r2, In r1 rs -> In r2 rs -> rs_key r1 = rs_key r2 -> rs_proj r1 = rs_proj r2.

  Lemma glookup_own (rs : list resampler) r : keys_sound rs -> In r rs -> glookup (rs_key r) (map rs_task rs) = Some (rs_proj r).
  Proof.
    intros K. induction rs as [| r0 rs IH]; intros Hin; [destruct Hin |]. cbn [map glookup rs_task fst snd].
    destruct (Z.eqb_spec (rs_key r) (rs_key r0)) as [E | N].
    - f_equal. symmetry. apply K; [exact Hin | left; reflexivity | exact E].
    - destruct Hin as [-> | Hin]; [contradiction |]. apply IH; [| exact Hin].
      intros r1 r2 H1 H2. apply K; right; assumption.
  Qed.

  Lemma standalone_eq r : rs_standalone OP r = map (fun p => bk_xy OP (rs_area r) (fst p) (snd p)) (rs_proj r).
  Proof. unfold rs_standalone, rs_indices. cbn. rewrite Z.eqb_refl. reflexivity. Qed.

  Lemma joint_is_standalone (rs : list resampler) : keys_sound rs -> rs_joint OP rs = map (rs_standalone OP) rs.
  Proof.
    intros K. unfold rs_joint. apply map_ext_in. intros r Hin. rewrite standalone_eq.
    unfold rs_indices. rewrite (glookup_own rs r K Hin). reflexivity.
  Qed.

  Lemma nodup_keys_sound (rs : list resampler) : NoDup (map rs_key rs) -> keys_sound rs.
  Proof.
    induction rs as [| r0 rs IH]; intros ND r1 r2 H1 H2 E; [destruct H1 |].
    inversion ND as [| ? ? Hn ND']; subst.
    destruct H1 as [<- | H1]; destruct H2 as [<- | H2]; try reflexivity.
    - exfalso. apply Hn. rewrite E. apply in_map. exact H2.
    - exfalso. apply Hn. rewrite <- E. apply in_map. exact H1.
    - apply IH; assumption.
  Qed.
End Joint.

(* ---------------------------------------------------------------- (5) histories on shared arrays *)
Section HistoryProofs.
  Context {S Out : Type}.
  Lemma history_independent (h : list (call (S := S) (Out := Out))) s :
    Forall read_only h -> run_history h s = map (fun c => fst (c s)) h.
  Proof.
    intros H. induction H as [| c r Hc Hr IH]; [reflexivity |]. cbn [run_history map]. rewrite (Hc s), IH. reflexivity.
  Qed.
End HistoryProofs.

Section ModuleHistory.
  Context {T : Type} (OP : ops T) (proj : T * T -> T * T).
  Lemma module_call_read_only c : is_module_call OP proj c -> read_only c.
  Proof. intros (a & [-> | [-> | [-> | [-> | (fill & ->)]]]]) s; reflexivity. Qed.

  (* any sequence of the five modules (any areas, any repetitions) on the same arrays: every call returns what it returns
     on the untouched arrays *)
  Lemma module_history h s : Forall (is_module_call OP proj) h -> run_history h s = map (fun c => fst (c s)) h.
  Proof.
    intros H. apply history_independent. eapply Forall_impl; [| exact H]. intros c. apply module_call_read_only.
  Qed.
End ModuleHistory.

(* ---------------------------------------------------------------- (6) layout: flatten in C order, reshape in C order *)
Section LayoutProofs.
  Context {A B : Type}.
  Lemma reshape_concat (w : nat) (m : list (list B)) : Forall (fun r => length r = w) m -> reshape_C (length m) w (concat m) = m.
  Proof.
    intros H. induction H as [| r m Hr Hm IH]; [reflexivity |]. cbn [length reshape_C concat].
    assert (E1 : firstn w (r ++ concat m) = r)
      by (rewrite <- Hr; rewrite firstn_app, Nat.sub_diag, firstn_all; cbn; apply app_nil_r).
    assert (E2 : skipn w (r ++ concat m) = concat m)
      by (rewrite <- Hr; rewrite skipn_app, Nat.sub_diag, skipn_all; reflexivity).
    rewrite E1, E2, IH. reflexivity.
  Qed.

  Lemma flat_apply_pointwise (f : A -> B) (w : nat) (m : list (list A)) :
    Forall (fun r => length r = w) m -> flat_apply f ravel_C w m = map (map f) m.
  Proof.
    intros H. unfold flat_apply, ravel_C. rewrite concat_map. rewrite <- (map_length (map f) m).
    apply reshape_concat. rewrite Forall_map. eapply Forall_impl; [| exact H]. intros r Hr. rewrite map_length. exact Hr.
  Qed.
End LayoutProofs.
