(* C13: facts about the real-number instance of the area_config model: tolerance test, _round_shape. *)
From Coq Require Import Reals ZArith Bool Lra Lia.
From Flocq Require Import Zaux Raux Generic_fmt Round_NE.
From PR Require Import Base.Num Base.RNum Model.AreaConfig.
Open Scope R_scope.

(* ---- the constants, as rationals *)
Lemma rtol_val : rtol RO = 5902958103587057 / 590295810358705651712.
Proof. unfold rtol. cbn [lit RO]. unfold bpow. simpl Z.pow_pos. reflexivity. Qed.
Lemma atol_val : atol RO = 3022314549036573 / 302231454903657293676544.
Proof. unfold atol. cbn [lit RO]. unfold bpow. simpl Z.pow_pos. reflexivity. Qed.
Lemma c1em8_val : c_1em8 RO = 3022314549036573 / 302231454903657293676544.
Proof. unfold c_1em8. cbn [lit RO]. unfold bpow. simpl Z.pow_pos. reflexivity. Qed.
Lemma c001_val : c_001 RO = 5764607523034235 / 576460752303423488.
Proof. unfold c_001. cbn [lit RO]. unfold bpow. simpl Z.pow_pos. reflexivity. Qed.
Lemma c1em4_val : c_1em4 RO = 7378697629483821 / 73786976294838206464.
Proof. unfold c_1em4. cbn [lit RO]. unfold bpow. simpl Z.pow_pos. reflexivity. Qed.

(* they are the decimal constants of the source up to binary64 rounding *)
Lemma rtol_bounds : 1 / 100000 - 1 / 10 ^ 20 < rtol RO < 1 / 100000 + 1 / 10 ^ 20.
Proof. rewrite rtol_val. lra. Qed.
Lemma atol_bounds : 1 / 100000000 - 1 / 10 ^ 23 < atol RO < 1 / 100000000 + 1 / 10 ^ 23.
Proof. rewrite atol_val. lra. Qed.
Lemma c001_bounds : 1 / 100 - 1 / 10 ^ 17 < c_001 RO < 1 / 100 + 1 / 10 ^ 17.
Proof. rewrite c001_val. lra. Qed.
Lemma c1em4_bounds : 1 / 10000 - 1 / 10 ^ 19 < c_1em4 RO < 1 / 10000 + 1 / 10 ^ 19.
Proof. rewrite c1em4_val. lra. Qed.
Lemma rtol_pos : 0 < rtol RO. Proof. pose proof rtol_bounds; lra. Qed.
Lemma atol_pos : 0 < atol RO. Proof. pose proof atol_bounds; lra. Qed.

(* ---- numpy.isclose over the reals *)
Lemma isclose_R x y : isclose RO x y = true <-> Rabs (x - y) <= atol RO + rtol RO * Rabs y.
Proof.
  unfold isclose. cbn [leb absf sub add mul isfinite eqb isnan RO].
  rewrite andb_true_r, andb_false_r, orb_false_r.
  split.
  - intros H. apply orb_true_iff in H. destruct H as [H|H].
    + now apply Rleb_true.
    + apply Reqb_true in H. subst. replace (y - y) with 0 by ring. rewrite Rabs_R0.
      pose proof rtol_pos. pose proof atol_pos. pose proof (Rabs_pos y). nra.
  - intros H. apply orb_true_iff. left. now apply Rleb_true.
Qed.
Lemma isclose_refl x : isclose RO x x = true.
Proof.
  apply isclose_R. replace (x - x) with 0 by ring. rewrite Rabs_R0.
  pose proof rtol_pos. pose proof atol_pos. pose proof (Rabs_pos x). nra.
Qed.
Lemma allclose2_refl v : allclose2 RO v v = true.
Proof. unfold allclose2. now rewrite !isclose_refl. Qed.
Lemma allclose4_refl v : allclose4 RO v v = true.
Proof. destruct v as [[[a b] c] d]. unfold allclose4. now rewrite !isclose_refl. Qed.

Lemma allclose2_R a b : allclose2 RO a b = true <->
  Rabs (fst a - fst b) <= atol RO + rtol RO * Rabs (fst b) /\ Rabs (snd a - snd b) <= atol RO + rtol RO * Rabs (snd b).
Proof. unfold allclose2. rewrite andb_true_iff, !isclose_R. tauto. Qed.

(* _validate_variable: raises exactly when some component is outside the tolerance; otherwise returns the value found *)
Lemma validate2_spec var new_var :
  validate2 RO var new_var = match var with
                             | Some v => if allclose2 RO v new_var then Ok new_var else Err
                             | None => Ok new_var end.
Proof. reflexivity. Qed.
Lemma validate2_same v : validate2 RO (Some v) v = Ok v.
Proof. unfold validate2. now rewrite allclose2_refl. Qed.
Lemma validate4_same v : validate4 RO (Some v) v = Ok v.
Proof. unfold validate4. now rewrite allclose4_refl. Qed.
Lemma validate_shape_same s : validate_shape RO (Some s) s = Ok s.
Proof. unfold validate_shape. now rewrite allclose2_refl. Qed.
Lemma validate2_raises v new_var :
  validate2 RO (Some v) new_var = Err <->
  (atol RO + rtol RO * Rabs (fst new_var) < Rabs (fst v - fst new_var) \/
   atol RO + rtol RO * Rabs (snd new_var) < Rabs (snd v - snd new_var)).
Proof.
  unfold validate2. destruct (allclose2 RO v new_var) eqn:E.
  - apply allclose2_R in E. split; [discriminate|]. lra.
  - split; [intros _|reflexivity].
    destruct (Rle_dec (Rabs (fst v - fst new_var)) (atol RO + rtol RO * Rabs (fst new_var))) as [H1|H1]; [|lra].
    destruct (Rle_dec (Rabs (snd v - snd new_var)) (atol RO + rtol RO * Rabs (snd new_var))) as [H2|H2]; [|lra].
    exfalso. assert (allclose2 RO v new_var = true) by (apply allclose2_R; split; assumption). congruence.
Qed.

(* ---- _round_shape over the reals *)
Lemma rint_IZR n : ZnearestE (IZR n) = n.
Proof. apply Znearest_imp. replace (IZR n - IZR n) with 0 by ring. rewrite Rabs_R0. lra. Qed.

Lemma round_dim_exact n : round_dim RO (IZR n) = n.
Proof.
  unfold round_dim. cbn [ltb absf sub ofZ rintZ leb floorZ ceilZ RO].
  rewrite rint_IZR. replace (IZR n - IZR n) with 0 by ring. rewrite Rabs_R0.
  assert (Rltb (c_1em8 RO) 0 = false) as ->; [|reflexivity].
  apply Rltb_false. rewrite c1em8_val. lra.
Qed.

Lemma round_dim_bounds x : (Zfloor x <= round_dim RO x <= Zceil x)%Z.
Proof.
  unfold round_dim. cbn [ltb absf sub ofZ rintZ leb floorZ ceilZ RO].
  destruct (_ && _).
  - split; [|lia]. apply le_IZR. pose proof (Zfloor_lb x). pose proof (Zceil_ub x). lra.
  - split; [apply Znearest_ge_floor|apply Znearest_le_ceil].
Qed.

(* at least .01 above the integer below: rounded up *)
Lemma round_dim_up x : c_001 RO <= x - IZR (Zfloor x) -> round_dim RO x = Zceil x.
Proof.
  intros H. unfold round_dim. cbn [ltb absf sub ofZ rintZ leb floorZ ceilZ RO].
  destruct (Rltb _ _ && Rleb _ _) eqn:E; [reflexivity|].
  apply andb_false_iff in E. destruct E as [E|E].
  - apply Rltb_false in E. destruct (Znearest_DN_or_UP (fun t => negb (Z.even t)) x) as [D|U]; [|exact U].
    exfalso. unfold ZnearestE in *. rewrite D in E. rewrite c1em8_val in E. rewrite c001_val in H.
    rewrite Rabs_pos_eq in E by (pose proof (Zfloor_lb x); lra). lra.
  - apply Rleb_false in E. lra.
Qed.
(* less than .01 above the integer below: rounded down *)
Lemma round_dim_down x : x - IZR (Zfloor x) < c_001 RO -> round_dim RO x = Zfloor x.
Proof.
  intros H. unfold round_dim. cbn [ltb absf sub ofZ rintZ leb floorZ ceilZ RO].
  assert (Rleb (c_001 RO) (x - IZR (Zfloor x)) = false) as -> by (apply Rleb_false; exact H).
  rewrite andb_false_r. apply Znearest_imp. rewrite c001_val in H. pose proof (Zfloor_lb x).
  rewrite Rabs_pos_eq by lra. lra.
Qed.

Lemma round_shape_R s : round_shape RO s = Ok (round_dim RO (fst s), round_dim RO (snd s)).
Proof. reflexivity. Qed.
