(* C16 - the binary64 index tables (numpy's arithmetic) coincide with the integer tables for every
   side length and vertex count up to 48 (checked by computation inside Coq), and the real-arithmetic
   instance of the side model is the integer one. *)
From Coq Require Import ZArith List Lia Bool Arith.
From PR Require Import Base.Num Base.RNum Base.F64 Base.ListX Model.Boundary Proofs.C16_idx Proofs.C16_ring.
Import ListNotations.
Open Scope Z_scope.

Lemma forallb2_in (f : nat -> nat -> bool) a la b lb :
  forallb (fun n => forallb (fun m => f n m) (seq b lb)) (seq a la) = true ->
  forall n m, In n (seq a la) -> In m (seq b lb) -> f n m = true.
Proof.
  intros H n m Hn Hm. rewrite forallb_forall in H. specialize (H n Hn).
  rewrite forallb_forall in H. exact (H m Hm).
Qed.

Lemma forallb3_in {C} (f : nat -> nat -> C -> bool) a la b lb (lc : list C) :
  forallb (fun n => forallb (fun m => forallb (fun c => f n m c) lc) (seq b lb)) (seq a la) = true ->
  forall n m c, In n (seq a la) -> In m (seq b lb) -> In c lc -> f n m c = true.
Proof.
  intros H n m c Hn Hm Hc. rewrite forallb_forall in H. specialize (H n Hn).
  rewrite forallb_forall in H. specialize (H m Hm). rewrite forallb_forall in H. exact (H c Hc).
Qed.

(* the specification of an index table, as a boolean: m entries in 0..n-1, first 0, last n-1, non-decreasing,
   strictly increasing exactly when m <= n *)
Fixpoint nondecr (l : list Z) : bool :=
  match l with x :: ((y :: _) as r) => (x <=? y) && nondecr r | _ => true end.
Fixpoint strict_incr (l : list Z) : bool :=
  match l with x :: ((y :: _) as r) => (x <? y) && strict_incr r | _ => true end.
Definition table_spec_b (n : Z) (m : nat) (l : list Z) : bool :=
  (length l =? m)%nat && forallb (fun x => (0 <=? x) && (x <=? n - 1)) l
  && match l with x :: _ => x =? 0 | [] => false end
  && match rev l with x :: _ => x =? n - 1 | [] => false end
  && nondecr l && Bool.eqb (strict_incr l) (Z.of_nat m <=? n).

(* binary64 tables (numpy's arithmetic) for every side length and vertex count up to 48; the descending table
   is checked through its reversal. Entries may differ from the integer table by rounding (first at n=27, m=47). *)
Definition f64_pair_ok (n m : nat) : bool :=
  table_spec_b (Z.of_nat n) m (linspace_idx F64 (Z.of_nat n) m)
  && table_spec_b (Z.of_nat n) m (rev (linspace_idx_desc F64 (Z.of_nat n) m)).
Lemma f64_table_48 : forallb (fun n => forallb (fun m => f64_pair_ok n m) (seq 2 48)) (seq 1 48) = true.
Proof. vm_compute. reflexivity. Qed.

Theorem f64_tables_spec (n m : nat) : (1 <= n <= 48)%nat -> (2 <= m <= 49)%nat ->
  table_spec_b (Z.of_nat n) m (linspace_idx F64 (Z.of_nat n) m) = true
  /\ table_spec_b (Z.of_nat n) m (rev (linspace_idx_desc F64 (Z.of_nat n) m)) = true.
Proof.
  intros Hn Hm.
  assert (H : f64_pair_ok n m = true).
  { apply (forallb2_in f64_pair_ok 1 48 2 48 f64_table_48); apply in_seq; lia. }
  unfold f64_pair_ok in H. apply andb_true_iff in H. exact H.
Qed.

(* the integer table satisfies the same boolean specification (sanity of the checker; all n, m up to 40) *)
Lemma idx_table_spec_40 :
  forallb (fun n => forallb (fun m => table_spec_b (Z.of_nat n) m (idx_list (Z.of_nat n) m)) (seq 2 39)) (seq 1 40) = true.
Proof. vm_compute. reflexivity. Qed.

(* the ring built from the binary64 tables: on the outer rows/columns, closed, no repeated vertex *)
Definition pix_eqb (a b : pix) : bool := (fst a =? fst b) && (snd a =? snd b).
Fixpoint nodup_b (l : list pix) : bool :=
  match l with [] => true | x :: r => negb (existsb (pix_eqb x) r) && nodup_b r end.
Definition on_edge_b (h w : Z) (p : pix) : bool :=
  (0 <=? fst p) && (fst p <? h) && (0 <=? snd p) && (snd p <? w)
  && ((fst p =? 0) || (fst p =? h - 1) || (snd p =? 0) || (snd p =? w - 1)).
Definition opt_pix_eqb (a b : option pix) : bool :=
  match a, b with Some x, Some y => pix_eqb x y | _, _ => false end.
Definition closed4_b (s : list (list pix)) : bool :=
  match s with
  | [a; b; c; d] => opt_pix_eqb (last_opt a) (hd_error b) && opt_pix_eqb (last_opt b) (hd_error c)
                    && opt_pix_eqb (last_opt c) (hd_error d) && opt_pix_eqb (last_opt d) (hd_error a)
  | _ => false
  end.
Definition f64_sides := bbox_sides (linspace_idx F64) (linspace_idx_desc F64).
Definition f64_ring_ok (h w : Z) (vps : option Z) : bool :=
  let s := f64_sides h w vps in
  forallb (forallb (on_edge_b h w)) s && closed4_b s && closed4_b (reverse_boundaries s)
  && nodup_b (contour s) && nodup_b (contour (reverse_boundaries s)).
Definition vps_range (V : nat) : list (option Z) := None :: map (fun v => Some (Z.of_nat v)) (seq 2 (V - 1)).
Definition vps_list_20 : list (option Z) := Eval vm_compute in vps_range 20.
Lemma f64_rings_12_20 :
  forallb (fun h => forallb (fun w => forallb (fun vps => f64_ring_ok (Z.of_nat h) (Z.of_nat w) vps) vps_list_20)
                            (seq 2 11)) (seq 2 11) = true.
Proof. vm_compute. reflexivity. Qed.

Theorem f64_ring_spec (h w : nat) (vps : option Z) : (2 <= h <= 12)%nat -> (2 <= w <= 12)%nat ->
  In vps vps_list_20 -> f64_ring_ok (Z.of_nat h) (Z.of_nat w) vps = true.
Proof.
  intros Hh Hw Hv.
  apply (forallb3_in (fun h w vps => f64_ring_ok (Z.of_nat h) (Z.of_nat w) vps) 2 11 2 11 vps_list_20 f64_rings_12_20);
    try (apply in_seq; lia). exact Hv.
Qed.

(* before the repair the same check fails: 4 x 3 geometry, vertices_per_side = 4 *)
Lemma f64_ring_unclipped_repeats :
  nodup_b (contour (bbox_sides_unclipped (linspace_idx F64) (linspace_idx_desc F64) 4 3 (Some 4))) = false.
Proof. vm_compute. reflexivity. Qed.

(* the side model over the reals is the integer model *)
Definition r_sides := bbox_sides (linspace_idx RO) (linspace_idx_desc RO).

Lemma r_sides_eq h w vps : 2 <= h -> 2 <= w -> vps_ok vps -> r_sides h w vps = c_sides h w vps.
Proof.
  intros Hh Hw Hv. unfold r_sides, c_sides, bbox_sides, sides_num.
  pose proof (num_of_ge2 vps h Hh Hv). pose proof (num_of_ge2 vps w Hw Hv).
  rewrite !linspace_idx_RO, !linspace_idx_desc_RO by lia. reflexivity.
Qed.

Definition r_sides_num := sides_num (linspace_idx RO) (linspace_idx_desc RO).
Definition r_sides_unclipped := bbox_sides_unclipped (linspace_idx RO) (linspace_idx_desc RO).

Lemma r_sides_num_eq h w rn cn : 2 <= h -> 2 <= w -> (2 <= rn)%nat -> (2 <= cn)%nat ->
  r_sides_num h w rn cn = c_sides_num h w rn cn.
Proof.
  intros Hh Hw Hr Hc. unfold r_sides_num, c_sides_num, sides_num.
  rewrite !linspace_idx_RO, !linspace_idx_desc_RO by lia. reflexivity.
Qed.

Lemma r_sides_unclipped_eq h w v : 2 <= h -> 2 <= w -> 2 <= v ->
  r_sides_unclipped h w (Some v) = c_sides_unclipped h w (Some v).
Proof.
  intros Hh Hw Hv. unfold r_sides_unclipped, c_sides_unclipped, bbox_sides_unclipped, num_of_unclipped, sides_num.
  rewrite !linspace_idx_RO, !linspace_idx_desc_RO by lia. reflexivity.
Qed.
