(* C06 — what surrounds the per-pixel kernel in the resampler classes (definitions only):
     XArrayBilinearResampler._limit_output_values_to_input (and the same clip in the legacy get_sample_from_bil_info)
                                                        -> range_margin / limit_output
     {Numpy,XArray}BilinearResampler._reshape_to_target_area: results exist for the target pixels with valid lon/lat only
                                                        -> scatter / scatter_bands *)
From Coq Require Import ZArith List Bool.
From PR Require Import Base.Num Model.Bilinear.
Import ListNotations.
Open Scope Z_scope.

Section Wrap.
Context {T : Type} (OP : ops T).

(* epsilon = maximum(1e-6, 1e-15 * maximum(|data_min|, |data_max|)); the two literals as exact binary64 values *)
Definition lit_1em6 : T := lit OP 4722366482869645 (-72).
Definition lit_1em15 : T := lit OP 2535301200456459 (-101).
Definition range_margin (data_min data_max : T) : T :=
  fmax OP lit_1em6 (mul OP lit_1em15 (fmax OP (absf OP data_min) (absf OP data_max))).

(* res outside [data_min - eps, data_max + eps] -> fill; then NaN -> fill *)
Definition limit_output (data_min data_max eps fill res : T) : T :=
  let lo := sub OP data_min eps in
  let hi := add OP data_max eps in
  let r := where_ (outside OP res lo hi) fill res in
  where_ (isnan OP r) fill r.
End Wrap.

Section Scatter.
Context {A : Type}.
(* tmp = full(target.size, nan); tmp[valid_output_indices] = res *)
Fixpoint scatter (fill : A) (valid : list bool) (res : list A) : list A :=
  match valid with
  | [] => []
  | true :: v => match res with r :: rs => r :: scatter fill v rs | [] => fill :: scatter fill v [] end
  | false :: v => fill :: scatter fill v res
  end.
(* 3-D data: every band on its own *)
Definition scatter_bands (fill : A) (valid : list bool) (bands : list (list A)) : list (list A) :=
  map (scatter fill valid) bands.
(* number of valid target pixels before position i *)
Fixpoint rank (valid : list bool) (i : nat) : nat :=
  match i, valid with
  | S j, b :: v => (if b then 1 else 0) + rank v j
  | _, _ => 0
  end%nat.
End Scatter.
