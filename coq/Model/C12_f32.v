(* binary32 arithmetic on primitive (binary64) floats, for the float32 paths of np.isclose (C12):
   every binary32 number is a binary64 number; an operation is the binary64 operation followed by rounding to
   binary32 (for + - * / this double rounding equals the single binary32 rounding since 53 >= 2*24+2).
   Definitions only; executed by the correspondence, no theorem depends on it. *)
From Coq Require Import ZArith Bool PrimFloat SpecFloat FloatOps.
From PR Require Import Base.Num Base.F64.
Open Scope Z_scope.

Definition round32 (x : float) : float :=
  match Prim2SF x with
  | S754_finite s m e => SF2Prim (binary_normalize 24 128 (if s then Z.neg m else Z.pos m) e s)
  | _ => x
  end.

Definition F32 : ops float := {|
  add := fun a b => round32 (PrimFloat.add a b); sub := fun a b => round32 (PrimFloat.sub a b);
  mul := fun a b => round32 (PrimFloat.mul a b); div := fun a b => round32 (PrimFloat.div a b);
  neg := PrimFloat.opp; absf := PrimFloat.abs; sqrtf := fun a => round32 (PrimFloat.sqrt a);
  ofZ := fun z => round32 (Z2F z); lit := fun m e => round32 (litF m e);     (* a Python float cast to float32 *)
  floorZ := floorZ F64; ceilZ := ceilZ F64; truncZ := truncZ F64; rintZ := rintZ F64;
  ltb := PrimFloat.ltb; leb := PrimFloat.leb; eqb := PrimFloat.eqb;
  isnan := f_isnan; isfinite := f_isfinite; nan := PrimFloat.nan
|}.
