(* executable wrappers comparing the EWA model with observations of the implementation (C08) *)
From Coq Require Import ZArith List Bool PrimFloat QArith Qabs Qround.
From PR Require Import Base.Num Base.F64 Base.ListX Model.Grid Model.EWA.
Import ListNotations.
Open Scope Z_scope.

(* ---- ll2cr: binary64 instance, bit-exact cols / rows / count given the PROJ coordinates *)
Definition ll_case := (area float * float * list (float * float * (float * float)) * Z)%type.
Definition chk_ll2cr (c : ll_case) : bool :=
  let '(a, fill, pts, n) := c in
  let '(cnt, out) := ll2cr F64 a fill (map fst pts) in
  (cnt =? n) && list_eqb (fun m e => same_bits (fst m) (fst e) && same_bits (snd m) (snd e)) out (map snd pts).

(* dask_ewa._call_ll2cr placeholder decision for an input chunk *)
Definition chk_dropped (c : area float * list (float * float) * bool) : bool :=
  let '(a, pts, flag) := c in Bool.eqb (chunk_dropped F64 a PrimFloat.nan pts) flag.

(* ---- _generate_fornav_dask_tasks: (out_row_idx, out_col_idx, y_start, y_end, x_start, x_end) in order *)
Definition chk_blocks (c : list Z * list Z * list (Z * Z * (Z * Z) * (Z * Z))) : bool :=
  let '(ych, xch, e) := c in
  list_eqb (fun m x => let '(a, b, (c1, c2), (d1, d2)) := m in let '(a', b', (c1', c2'), (d1', d2')) := x in
                       (a =? a') && (b =? b') && (c1 =? c1') && (c2 =? c2') && (d1 =? d1') && (d2 =? d2'))
           (out_blocks ych xch) e.

(* ---- accumulation over exact rationals *)
Definition dy (m e : Z) : Q := Qlit m e.                      (* the float m * 2^e, exactly *)
Definition u24 : Q := Qlit 1 (-24).                           (* unit roundoff of binary32 *)
Definition gam (k : Z) : Q := Qred ((inject_Z k * u24) / (1 - inject_Z k * u24)).
Definition Qleb (a b : Q) : bool := Qle_bool a b.
Definition Qabsd (a b : Q) : Q := Qabs (Qred (a - b)).

Definition sumabs (l : list (Q * Q)) : Q := fold_left (fun s vw => Qred (s + Qabs (fst vw) * snd vw)) l 0%Q.

(* pixels: value (None = NaN / fill) and footprint [(row, col, weight)] *)
Definition mkpx (v : option Q) (fp : list (Z * Z * Q)) : pixel Q :=
  mk_pixel v (map (fun e => let '(r, c, w) := e in ((r, c), w)) fp).

(* one observed cell: impl weight, impl accum, impl output (None = fill) *)
Definition obs_cell := (Z * Z * Q * Q * option Q)%type.

(* is the implementation's (W, A, out) within the float32 error bound of the exact model?
   k contributions:  |W' - W| <= gam(k) W,  |A' - A| <= gam(k+2) S  (S = sum |v| w; +2: cast of the value, product),
   |out' - A/W| W <= gam(2k+4) S;  fill on one side only is accepted when W is within gam(k) W of the threshold.
   Maximum weight mode: exact equality (values are binary32 numbers in the generated data). *)
Definition chk_cell (mwm : bool) (smin : Q) (pixels : list (pixel Q)) (o : obs_cell) : bool :=
  let '(r, c, Wi, Ai, outi) := o in
  let l := contribs pixels (r, c) in
  let k := Z.of_nat (length l) in
  let '(W, A) := fold_cell QO mwm l (0%Q, 0%Q) in
  let S := sumabs l in
  let m := write_cell QO mwm smin 0%Q (W, A) in
  if mwm then
    Qeq_bool Wi W && Qeq_bool Ai A &&
    match m, outi with Some x, Some y => Qeq_bool x y | None, None => true | _, _ => false end
  else
    Qleb (Qabsd Wi W) (gam k * W) && Qleb (Qabsd Ai A) (gam (k + 2) * S) &&
    match m, outi with
    | Some x, Some y => Qleb (Qabsd y x * W) (gam (2 * k + 4) * S)
    | None, None => true
    | _, _ => Qleb (Qabsd W smin) (gam (k + 1) * W)
    end.

Record fcase := mk_fcase {
  f_mwm : bool; f_wsm : Q; f_wmin : Q;        (* weight_sum_min, weight_min as binary32 values *)
  f_pixels : list (pixel Q);
  f_cells : list obs_cell }.
Definition fcase_smin (c : fcase) : Q := sum_min_write QO (sum_min_fornav QO (f_wsm c) (f_wmin c)).
Definition chk_fornav (c : fcase) : bool :=
  forallb (chk_cell (f_mwm c) (fcase_smin c) (f_pixels c)) (f_cells c).

(* model-side summaries used by the harness for its attribution (never by the verdict) *)
Definition bad_cells (c : fcase) : list Z :=
  bad (chk_cell (f_mwm c) (fcase_smin c) (f_pixels c)) (f_cells c).

(* ---- dask: one output block; per input chunk the placeholder flag and the pixels with the footprints the
        kernel produced ON THAT SUB-GRID (tables from the real _delayed_fornav call); expected block values *)
Record dcase := mk_dcase {
  d_mwm : bool; d_wsm : Q;
  d_chunks : list (bool * list (pixel Q));
  d_cells : list (Z * Z * option Q) }.                        (* local (row, col) in the block, dask output *)
Definition chk_dcell (c : dcase) (o : Z * Z * option Q) : bool :=
  let '(r, q, outi) := o in
  let smin := sum_min_write QO (d_wsm c) in
  let m := dask_cell QO (d_mwm c) smin 0%Q (d_chunks c) (r, q) in
  let l := contribs (concat (map snd (filter (fun ic => negb (fst ic)) (d_chunks c)))) (r, q) in
  let k := Z.of_nat (length l) in
  let W := fst (fold_cell QO false l (0%Q, 0%Q)) in
  let S := sumabs l in
  if d_mwm c then
    match m, outi with Some x, Some y => Qeq_bool x y | None, None => true | _, _ => false end
  else
    match m, outi with
    | Some x, Some y => Qleb (Qabsd y x * W) (gam (2 * k + 4) * S)
    | None, None => true
    | _, _ => Qleb (Qabsd W smin) (gam (k + 1) * W)
    end.
Definition chk_dask (c : dcase) : bool := forallb (chk_dcell c) (d_cells c).

(* ---- write_grid_image on explicit weights / accums: float grids (quotient within one rounding) and int8 grids
        (data generated so that the float32 quotient is exact: exact equality) *)
Definition chk_wfloat (c : bool * Q * list (Q * Q * option Q)) : bool :=
  let '(mwm, wsm, cells) := c in
  let smin := sum_min_write QO wsm in
  forallb (fun e => let '(W, A, outi) := e in
                    match write_cell QO mwm smin 0%Q (W, A), outi with
                    | Some x, Some y => Qleb (Qabsd y x) (u24 * Qabs x)
                    | None, None => true
                    | _, _ => false end) cells.
Definition chk_wint8 (c : bool * Q * Z * list (Q * Q * Z)) : bool :=
  let '(mwm, wsm, fill, cells) := c in
  let smin := sum_min_write QO wsm in
  forallb (fun e => let '(W, A, outi) := e in
                    match write_cell QO mwm smin (1 # 2)%Q (W, A) with
                    | Some x => write_pixel_i8 QO x =? outi
                    | None => fill =? outi end) cells.

(* ---- DaskEWAResampler._get_rows_per_scan observed for (keyword, attrs, rows): exact; None = ValueError *)
Definition oz_eqb (a b : option Z) : bool :=
  match a, b with Some x, Some y => x =? y | None, None => true | _, _ => false end.
Definition chk_rps (c : option Z * option Z * Z * option Z) : bool :=
  let '(kw, attr, n, e) := c in oz_eqb (get_rows_per_scan kw attr n) e.
