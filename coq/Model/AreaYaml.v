(* C13 model, YAML side, at the level of the parsed dictionaries:
     geometry.AreaDefinition.dump          -> dump_dict   (EPSG shortcut, units moved into area_extent)
     area_config._capture_subarguments     -> capture_subarguments
     area_config._create_area_def_from_dict-> load_one
     area_config._parse_yaml_area_file     -> load_file   (one or many areas, optional region list)
   The YAML text layer (yaml.dump / yaml.safe_load) and CRS parsing (pyproj) are oracles: a CRS is a token,
   strings are tokens; what pyproj says about a CRS (to_epsg, the units entry of to_dict, is_geographic,
   unit name, unit factor) is data / a Section variable. *)
From Coq Require Import ZArith Bool List.
From PR Require Import Base.Num Model.AreaConfig.
Import ListNotations.
Open Scope Z_scope.

Inductive key := Kdescription | Kprojection | Kshape | Kheight | Kwidth | Karea_extent | Klower_left_xy
               | Kupper_right_xy | Kunits | Kcenter | Kradius | Kresolution | Kupper_left_extent
               | Kx | Ky | Kdx | Kdy | Karea_id | Kproj_id | Kother.
Definition key_eqb (a b : key) : bool :=
  match a, b with
  | Kdescription, Kdescription | Kprojection, Kprojection | Kshape, Kshape | Kheight, Kheight | Kwidth, Kwidth
  | Karea_extent, Karea_extent | Klower_left_xy, Klower_left_xy | Kupper_right_xy, Kupper_right_xy | Kunits, Kunits
  | Kcenter, Kcenter | Kradius, Kradius | Kresolution, Kresolution | Kupper_left_extent, Kupper_left_extent
  | Kx, Kx | Ky, Ky | Kdx, Kdx | Kdy, Kdy | Karea_id, Karea_id | Kproj_id, Kproj_id | Kother, Kother => true
  | _, _ => false
  end.
Definition utok_eqb (a b : utok) : bool :=
  match a, b with
  | UTdeg, UTdeg | UTdegrees, UTdegrees | UTm, UTm | UTmeters, UTmeters | UTmetres, UTmetres | UTkm, UTkm
  | UTbaddeg, UTbaddeg | UTcrs, UTcrs => true
  | _, _ => false
  end.

(* the projection entry as written: {EPSG: n}, or crs.to_dict() of CRS token c without its units key *)
Inductive pentry := PEpsg (n : Z) | PDict (c : Z).
Definition pentry_eqb (a b : pentry) : bool :=
  match a, b with PEpsg n, PEpsg m => n =? m | PDict c, PDict d => c =? d | _, _ => false end.

Section Yaml.
  Context {T : Type}.

  Inductive yval :=
  | YNum (x : T) | YInt (z : Z) | YStr (s : Z) | YUnits (u : utok) | YNull | YProj (p : pentry)
  | YList (l : list yval) | YDict (d : list (key * yval)).
  Definition ydict := list (key * yval).
  Definition yentry := (Z * ydict)%type.         (* area name (string token) -> its parameters *)

  Fixpoint yval_eqb (feq : T -> T -> bool) (a b : yval) {struct a} : bool :=
    match a, b with
    | YNum x, YNum y => feq x y
    | YInt x, YInt y => x =? y
    | YStr x, YStr y => x =? y
    | YUnits u, YUnits v => utok_eqb u v
    | YNull, YNull => true
    | YProj p, YProj q => pentry_eqb p q
    | YList l, YList m =>
      (fix go (l m : list yval) : bool :=
         match l, m with
         | [], [] => true
         | x :: l', y :: m' => yval_eqb feq x y && go l' m'
         | _, _ => false
         end) l m
    | YDict d, YDict e =>
      (fix go (d e : list (key * yval)) : bool :=
         match d, e with
         | [], [] => true
         | (k, x) :: d', (k', y) :: e' => key_eqb k k' && yval_eqb feq x y && go d' e'
         | _, _ => false
         end) d e
    | _, _ => false
    end.
  Definition yentry_eqb (feq : T -> T -> bool) (a b : yentry) : bool :=
    (fst a =? fst b) && yval_eqb feq (YDict (snd a)) (YDict (snd b)).

  (* an AreaDefinition as far as dump is concerned; r_epsg = crs.to_epsg() and
     r_units = crs.to_dict().get('units') are pyproj's answers about CRS token r_crs *)
  Record area_rec := mk_area_rec {
    r_id : Z; r_desc : Z; r_crs : Z; r_epsg : option Z; r_units : option utok;
    r_shape : Z * Z; r_ext : T * T * T * T }.

  Definition proj_entry (a : area_rec) : pentry :=
    match r_epsg a with Some n => PEpsg n | None => PDict (r_crs a) end.
  Definition dumped_units (a : area_rec) : option utok :=
    match r_epsg a with Some _ => None | None => r_units a end.

  (* AreaDefinition.dump *)
  Definition dump_dict (a : area_rec) : yentry :=
    let '(e0, e1, e2, e3) := r_ext a in
    (r_id a,
     [(Kdescription, YStr (r_desc a));
      (Kprojection, YProj (proj_entry a));
      (Kshape, YDict [(Kheight, YInt (fst (r_shape a))); (Kwidth, YInt (snd (r_shape a)))]);
      (Karea_extent, YDict ([(Klower_left_xy, YList [YNum e0; YNum e1]);
                             (Kupper_right_xy, YList [YNum e2; YNum e3])]
                            ++ match dumped_units a with Some u => [(Kunits, YUnits u)] | None => [] end))]).

  (* dict helpers: get (last binding wins, as in a Python dict built by the YAML loader) and pop *)
  Fixpoint dget (d : ydict) (k : key) : option yval :=
    match d with
    | [] => None
    | (k', v) :: r => match dget r k with Some x => Some x | None => if key_eqb k' k then Some v else None end
    end.
  Definition dpop (d : ydict) (k : key) : ydict := filter (fun e => negb (key_eqb (fst e) k)) d.
  Definition mem (k : key) (l : list key) : bool := existsb (key_eqb k) l.

  (* _validate_sub_arg_list *)
  Definition validate_sub_arg_list (argument : ydict) (arg_name : key) (sub_arg_list : list key) : bool :=
    let keys := map fst argument in
    forallb (fun sub_arg =>
               mem sub_arg sub_arg_list &&
               (if mem arg_name keys
                then (key_eqb sub_arg arg_name || key_eqb sub_arg Kunits) && mem Kunits keys
                else true)) keys.

  (* what _capture_subarguments returns: the argument untouched when it is not a mapping,
     else the list of values and the units (a DataArray when units are present) *)
  Inductive captured := CRaw (v : option yval) | CList (l : list yval) (units : option utok).

  Definition capture_subarguments (params : ydict) (arg_name : key) (sub_arg_list : list key) : res captured :=
    match dget params arg_name with
    | Some (YDict argument) =>
      if negb (validate_sub_arg_list argument arg_name sub_arg_list) then Err else
      do units <- (match dget argument Kunits with
                   | None | Some YNull => Ok None
                   | Some (YUnits u) => Ok (Some u)
                   | Some _ => Err end);
      let argument := dpop argument Kunits in
      do list_of_values <- (match dget argument arg_name with
                            | None => Ok []
                            | Some (YList l) => Ok l
                            | Some _ => Err end);
      let argument := dpop argument arg_name in
      let list_of_values :=
        fold_left (fun acc sub_arg =>
                     match dget argument sub_arg with
                     | None | Some YNull => acc
                     | Some (YList l) =>
                       if key_eqb sub_arg Klower_left_xy || key_eqb sub_arg Kupper_right_xy
                       then acc ++ l else acc ++ [YList l]
                     | Some v => acc ++ [v]
                     end) sub_arg_list list_of_values in
      Ok (CList list_of_values units)
    | other => Ok (CRaw other)
    end.

  Context (OP : ops T).

  Definition num (v : yval) : res T :=
    match v with YNum x => Ok x | YInt z => Ok (ofZ OP z) | _ => Err end.

  (* _verify_list / _format_list on what the YAML side hands over *)
  Definition as_pair (scalar_ok : bool) (c : captured) : res (option (T * T * option utok)) :=
    match c with
    | CRaw None | CRaw (Some YNull) => Ok None
    | CRaw (Some (YList [a; b])) => do x <- num a; do y <- num b; Ok (Some (x, y, None))
    | CRaw (Some (YNum x)) => if scalar_ok then Ok (Some (x, x, None)) else Err
    | CRaw (Some (YInt z)) => if scalar_ok then Ok (Some (ofZ OP z, ofZ OP z, None)) else Err
    | CList [a; b] u => do x <- num a; do y <- num b; Ok (Some (x, y, u))
    | _ => Err
    end.
  Definition as_quad (c : captured) : res (option (T * T * T * T * option utok)) :=
    match c with
    | CRaw None | CRaw (Some YNull) => Ok None
    | CRaw (Some (YList [a; b; c; d])) =>
      do x <- num a; do y <- num b; do z <- num c; do w <- num d; Ok (Some (x, y, z, w, None))
    | CList [a; b; c; d] u =>
      do x <- num a; do y <- num b; do z <- num c; do w <- num d; Ok (Some (x, y, z, w, u))
    | _ => Err
    end.

  (* pyproj's answers about the CRS parsed from a projection entry:
     (is_geographic, _get_proj_units, unit factor) *)
  Variable crs_facts : pentry -> bool * cu * (cu -> T * T).

  (* l_projid: the proj_id keyword handed to create_area_def, None when the file has no proj_id entry *)
  Record loaded := mk_loaded { l_id : Z; l_desc : Z; l_projid : option Z; l_proj : pentry; l_out : outcome T }.

  (* _create_area_def_from_dict *)
  Definition load_one (e : yentry) : res loaded :=
    let '(area_name, params) := e in
    do area_id <- (match dget params Karea_id with None => Ok area_name | Some (YStr s) => Ok s | Some _ => Err end);
    do shape <- capture_subarguments params Kshape [Kheight; Kwidth];
    do ul <- capture_subarguments params Kupper_left_extent [Kupper_left_extent; Kx; Ky; Kunits];
    do center <- capture_subarguments params Kcenter [Kcenter; Kx; Ky; Kunits];
    do ext <- capture_subarguments params Karea_extent [Karea_extent; Klower_left_xy; Kupper_right_xy; Kunits];
    do resolution <- capture_subarguments params Kresolution [Kresolution; Kdx; Kdy; Kunits];
    do radius <- capture_subarguments params Kradius [Kradius; Kdx; Kdy; Kunits];
    do description <- (match dget params Kdescription with
                       | None => Ok area_id | Some (YStr s) => Ok s | Some _ => Err end);
    (* `if "proj_id" in params`: presence decides, the empty string is a value like any other *)
    do proj_id <- (match dget params Kproj_id with
                   | None => Ok None | Some (YStr s) => Ok (Some s) | Some _ => Err end);
    do projection <- (match dget params Kprojection with Some (YProj p) => Ok p | _ => Err (* KeyError *) end);
    do shape <- as_pair false shape;
    do ul <- as_pair false ul; do center <- as_pair false center;
    do resolution <- as_pair true resolution; do radius <- as_pair true radius;
    do ext <- as_quad ext;
    let '(geo, cunits, fac) := crs_facts projection in
    let a := {| a_width := None; a_height := None; a_extent := ext;
                a_shape := match shape with Some (h, w, _) => Some (h, w) | None => None end;
                a_ul := ul; a_center := center; a_resolution := resolution; a_radius := radius;
                a_units := None |} in
    Ok {| l_id := area_id; l_desc := description; l_projid := proj_id; l_proj := projection;
          l_out := create_area_def OP (fun _ => None) (fun _ => None) fac geo cunits a |}.

  (* _parse_yaml_area_file on the merged dictionary: all areas in file order, or the named regions *)
  Fixpoint fget (file : list yentry) (name : Z) : option yentry :=
    match file with
    | [] => None
    | e :: r => match fget r name with Some x => Some x | None => if fst e =? name then Some e else None end
    end.
  Fixpoint seq_res {A} (l : list (res A)) : res (list A) :=
    match l with
    | [] => Ok []
    | Ok a :: r => match seq_res r with Ok l' => Ok (a :: l') | Err => Err end
    | Err :: _ => Err
    end.
  Definition load_file (file : list yentry) (regions : list Z) : res (list loaded) :=
    let area_list := match regions with [] => map fst file | _ => regions end in
    seq_res (map (fun name => match fget file name with
                              | Some e => load_one e
                              | None => Err (* AreaNotFound *) end) area_list).

  (* AreaDefinition.__eq__ between the original and the loaded area; crs_same = (a.crs == b.crs), pyproj's answer *)
  Definition area_eq (crs_same : bool) (a : area_rec) (b : loaded) : bool :=
    match l_out b with
    | Area e s => allclose4 OP (r_ext a) e && crs_same && (fst (r_shape a) =? fst s) && (snd (r_shape a) =? snd s)
    | _ => false
    end.
End Yaml.
