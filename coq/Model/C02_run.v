(* executable wrappers comparing the C02 model (Model/KDTree.v) with observations of the implementation *)
From Coq Require Import ZArith Bool List PrimFloat.
From PR Require Import Base.Num Base.F64 Base.ListX Base.Imp Model.KDTree Model.NdArr Gen.GenC02imp.
Import ListNotations.
Open Scope Z_scope.

(* ---- exact squared chord distances from the implementation's own binary64 cartesian coordinates ---- *)
Definition xyzF := (float * float * float)%type.
Definition xyzZ := (Z * Z * Z)%type.

Definition fexp (x : float) : Z := match f2ZE x with Some (_, e) => e | None => 0 end.
Definition min_exp (l : list float) : Z := fold_left (fun acc x => Z.min acc (fexp x)) l 0.
(* x / 2^E as an integer, exact whenever E <= exponent of x *)
Definition scaleZ (E : Z) (x : float) : Z := match f2ZE x with Some (m, e) => Z.shiftl m (e - E) | None => 0 end.
Definition flat3 (l : list xyzF) : list float := flat_map (fun p => let '(x, y, z) := p in [x; y; z]) l.
Definition scale3 (E : Z) (p : xyzF) : xyzZ := let '(x, y, z) := p in (scaleZ E x, scaleZ E y, scaleZ E z).
Definition sqd (p q : xyzZ) : Z :=
  let '(x, y, z) := p in let '(u, v, w) := q in (x - u) * (x - u) + (y - v) * (y - v) + (z - w) * (z - w).

(* the implementation's index array as the oracle table: answer for target (flat index) t *)
Fixpoint index_of (t : nat) (l : list nat) (pos : nat) : nat :=
  match l with [] => pos | x :: r => if Nat.eqb x t then pos else index_of t r (S pos) end.
Definition knn_tab (vout : list bool) (idx : list nat) : list nat -> nat -> nat :=
  let co := compact vout in fun _ t => nth (index_of t co 0%nat) idx 0%nat.

Definition bool_list_eqb := list_eqb Bool.eqb.
Definition nat_list_eqb := list_eqb Nat.eqb.
Definition z_list_eqb := list_eqb Z.eqb.

(* geometry part of a case *)
Record geo_case := mk_geo {
  g_slon : list float; g_slat : list float; g_tlon : list float; g_tlat : list float;
  g_vii : list bool; g_voi : list bool; g_idx : list Z;          (* observed get_neighbour_info *)
  g_sxyz : list xyzF; g_txyz : list xyzF;                        (* observed cartesian coordinates of the valid points *)
  g_r : float;                                                   (* radius_of_influence *)
  g_tol : Z * Z * Z                                              (* (a, b, k): accepted slack a/b on squared distances; k >= 0:
                                                                    additional absolute slack (2^-k m)^2, k < 0: none *)
}.

(* ---- fast, proved-sound form of [accept_list] on coordinates (Proofs/C02_fast.v: accept_fast_sound) ----
   Besides the exact integer coordinates every point carries coarse ones (x / u, floor).  A source is shown to be
   far enough (bound <= a * d2) from the coarse coordinates alone whenever possible:
   u^2 * lbd <= d2 (lb1_sound), so thr <= lbd with thr = ceil(bound / (a u^2)) suffices; otherwise the exact
   test is used (near-ties only). *)
Definition coarse (u : Z) (p : xyzZ) : xyzZ := let '(x, y, z) := p in (x / u, y / u, z / u).
Definition lb1 (xc yc : Z) : Z := let dd := Z.abs (xc - yc) - 1 in if dd <=? 0 then 0 else dd * dd.
Definition lbd (pc qc : xyzZ) : Z :=
  let '(x, y, z) := pc in let '(x', y', z') := qc in lb1 x x' + lb1 y y' + lb1 z z'.
Definition cdivZ (num den : Z) : Z := (num + den - 1) / den.
Definition far_enough (a c bound thr : Z) (tf tc : xyzZ) (s : xyzZ * xyzZ) : bool :=
  if thr <=? lbd tc (snd s) then true else bound <=? a * sqd tf (fst s) + c.   (* [if]: the VM evaluates both arguments of || *)
Definition with_coarse (u : Z) (srcs : list xyzZ) : list (xyzZ * xyzZ) := map (fun q => (q, coarse u q)) srcs.
Definition pt0 : xyzZ * xyzZ := ((0, 0, 0), (0, 0, 0)).
Definition accept_fast (a b c r2 u : Z) (tf : xyzZ) (srcs : list (xyzZ * xyzZ)) (i : nat) : bool :=
  (0 <? a) && (0 <? u) && (0 <=? c) &&
  (let tc := coarse u tf in
   if (i <? length srcs)%nat
   then let bound := b * sqd tf (fst (nth i srcs pt0)) in
        let thr := cdivZ bound (a * (u * u)) in
        forallb (far_enough a c bound thr tf tc) srcs && (bound <=? a * r2 + c)
   else (i =? length srcs)%nat &&
        (let bound := b * r2 in
         let thr := cdivZ bound (a * (u * u)) in
         forallb (far_enough a c bound thr tf tc) srcs)).

(* every observed index is an acceptable answer for the exact distance table *)
Definition accept_all (g : geo_case) : bool :=
  let fl := g_r g :: flat3 (g_sxyz g) ++ flat3 (g_txyz g) in
  let E := min_exp fl in
  let u := Z.shiftl 1 (Z.max 0 (-20 - E)) in                  (* coarse unit 2^-20 m (or the fine unit if coarser) *)
  let sz := with_coarse u (map (scale3 E) (g_sxyz g)) in
  let tz := map (scale3 E) (g_txyz g) in
  let R := scaleZ E (g_r g) in
  let '(a, b, k) := g_tol g in
  let c := if k <? 0 then 0 else let h := Z.shiftl 1 (Z.max 0 (- k - E)) in h * h in   (* (2^-k m)^2 in fine units *)
  forallb f_isfinite fl &&
  list_eqb (fun t i => accept_fast a b c (R * R) u t sz (Z.to_nat i)) tz (g_idx g).

Definition geo_code (g : geo_case) : Z :=
  let vin := valid_input_index F64 (g_slon g) (g_slat g) in
  let vout := valid_output_index F64 (g_tlon g) (g_tlat g) in
  let idx := map Z.to_nat (g_idx g) in
  let '(mvii, mvoi, midx) := neighbour_info (knn_tab vout idx) vin vout in
  (if bool_list_eqb mvii (g_vii g) then 0 else 1) +
  (if bool_list_eqb mvoi (g_voi g) then 0 else 2) +
  (if nat_list_eqb midx idx then 0 else 4) +
  (match compact vin with
   | [] => 0
   | _ => if (length (g_sxyz g) =? count_true vin)%nat && (length (g_txyz g) =? count_true vout)%nat && accept_all g
          then 0 else 8
   end).

(* data part, generic in the element type *)
Section Data.
  Context {V : Type} (veqb : V -> V -> bool) (vsame : V -> V -> bool) (vzero vone : V).
  Record data_case := mk_data {
    d_tshape : list Z; d_dtype : Z; d_multi : bool; d_k : Z;
    d_rows : list (list V); d_mrows : option (list (list bool));
    d_fill : option V; d_sentinel : V;
    (* observed result *)
    r_shape : list Z; r_dtype : Z; r_vals : list V; r_mask : option (list bool)
  }.
  Definition data_code (g : geo_case) (c : data_case) : Z :=
    let idx := map Z.to_nat (g_idx g) in
    (* the model's gather applied to the implementation's own neighbour info *)
    let s := get_sample veqb vzero vone (d_tshape c) (d_dtype c) (d_multi c) (Z.to_nat (d_k c)) (d_rows c) (d_mrows c)
                        (g_vii g) (g_voi g) idx (d_fill c) (d_sentinel c) in
    (if list_eqb vsame (o_vals s) (r_vals c) then 0 else 16) +
    (match r_mask c with
     | Some m => if o_masked s && bool_list_eqb (o_mask s) m then 0 else 32
     | None => if o_masked s then 32 else 0
     end) +
    (if z_list_eqb (o_shape s) (r_shape c) then 0 else 64) +
    (if (o_dtype s =? r_dtype c) then 0 else 128).
  Definition case_code (c : geo_case * data_case) : Z := geo_code (fst c) + data_code (fst c) (snd c).
End Data.

(* ---- the TRANSLATED get_sample_from_neighbour_info (Gen/GenC02imp.v) run on the same cases: the data array in the layout
        it was handed over in ([inshape]), the implementation's own neighbour info; compared with the observed array ---- *)
Section ImpRun.
  Context {V : Type} (veqb : V -> V -> bool) (vsame : V -> V -> bool) (vzero vone : V).
  Definition imp_code (c : geo_case * @data_case V * list Z) : Z :=
    let '(g, d, inshape) := c in
    let data := mk_nda inshape (concat (d_rows d)) (match d_mrows d with Some mm => Some (concat mm) | None => None end) (d_dtype d) in
    let ia := mk_nda [zlen (g_idx g)] (g_idx g) None 0 in
    match value_of (imp_get_sample veqb vzero vone (fun _ => d_sentinel d) tt (d_tshape d) data (g_vii g) (g_voi g) ia tt tt (d_fill d) false) with
    | COk r =>
        (if list_eqb vsame (a_data r) (r_vals d) then 0 else 512) +
        (match r_mask d, a_mask r with
         | Some m, Some m' => if bool_list_eqb m' m then 0 else 1024
         | None, None => 0
         | _, _ => 1024
         end) +
        (if z_list_eqb (a_shape r) (r_shape d) then 0 else 2048) +
        (if a_dtype r =? r_dtype d then 0 else 4096)
    | _ => 8192
    end.
  Definition full_code (c : geo_case * @data_case V * list Z) : Z := case_code veqb vsame vzero vone (fst c) + imp_code c.
End ImpRun.
Definition full_code_F := full_code (V := float) PrimFloat.eqb same_bits 0%float 1%float.
Definition full_code_Z := full_code (V := Z) Z.eqb Z.eqb 0 1.

Definition case_code_F := case_code (V := float) PrimFloat.eqb same_bits 0%float 1%float.
Definition case_code_Z := case_code (V := Z) Z.eqb Z.eqb 0 1.

(* ---- Cartesian.transform_lonlats: the model with the implementation's own cos / sin values as oracle table ----
   table rows (argument, cos, sin), looked up by the bits of the argument the MODEL computes (lon * deg2rad) *)
Definition trig_tab := list (float * (float * float)).
Fixpoint trig_lookup (tab : trig_tab) (x : float) : float * float :=
  match tab with
  | [] => (PrimFloat.nan, PrimFloat.nan)
  | (a, cs) :: r => if same_bits a x then cs else trig_lookup r x
  end.
Definition R_earth : float := 6370997%float.
Definition deg2rad64 : float := 0x1.1df46a2529d39p-6%float.        (* np.pi / 180 *)
Definition xyz_same (p q : xyzF) : bool :=
  let '(x, y, z) := p in let '(u, v, w) := q in same_bits x u && same_bits y v && same_bits z w.
(* (trig table, valid source lon/lat, their observed xyz) *)
Definition xyz_case := (trig_tab * list (float * float) * list xyzF)%type.
Definition xyz_code (c : xyz_case) : Z :=
  let '(tab, lls, obs) := c in
  let model := map (fun ll => transform_lonlat F64 (fun a => fst (trig_lookup tab a)) (fun a => snd (trig_lookup tab a))
                                               R_earth deg2rad64 (fst ll) (snd ll)) lls in
  if list_eqb xyz_same model obs then 0 else 1.

(* (case number, code) of every case with a non-zero code *)
Fixpoint bad_codes_from {A} (f : A -> Z) (i : Z) (l : list A) : list (Z * Z) :=
  match l with
  | [] => []
  | x :: r => let c := f x in if c =? 0 then bad_codes_from f (i + 1) r else (i, c) :: bad_codes_from f (i + 1) r
  end.
Definition bad_codes {A} (f : A -> Z) (l : list A) : list (Z * Z) := bad_codes_from f 0 l.

(* ---- sub-check "kd-tree = brute force" on integer lattice points (exact ties, distance = bound) ----
   The library answer must be found / not-found exactly when the brute-force reference [nearest] (strict bound) is,
   and at exactly the reference's distance; which of several equidistant points is returned is not constrained
   (measured: pykdtree does not always return the lowest index). *)
(* (points, queries, squared bound, observed indices) *)
Definition lattice_case := (list xyzZ * list xyzZ * Z * list Z)%type.
Definition lattice_code (c : lattice_case) : Z :=
  let '(pts, qs, r2, idx) := c in
  let n := length pts in
  let cands := seq 0 n in
  if list_eqb (fun q iz =>
       let d := fun s => sqd q (nth s pts (0, 0, 0)) in
       let m := nearest r2 d cands in
       let i := Z.to_nat iz in
       if (m <? n)%nat then (i <? n)%nat && (d i =? d m) else (i =? n)%nat) qs idx
  then 0 else 1.
