(* C10 -- StackedAreaDefinition.get_lonlats(chunks=...): the dask path.  Definitions only. *)
From Coq Require Import ZArith List Bool.
From PR Require Import Base.Num Base.ZX Base.Slice Model.Grid Model.Partition Model.SliceArea Model.Stack Model.LonlatPaths.
Import ListNotations.
Open Scope Z_scope.

Section StackDask.
  Context {T C : Type} (OP : ops T) (inv : T -> T -> C).
  (* StackedAreaDefinition.get_lonlats(chunks=...): every member's dask array (its own chunking, whatever
     _get_chunks_for_areadef_in_stacked_areadef and dask's normalize_chunks make of the request) sliced by the local
     window, then dask.array.vstack *)
  Fixpoint stacked_rows_dask (rs : pslice) (cs : oslice) (offset : Z) (defs : list (garea T)) (chs : list (list Z * list Z))
    : list (list C) :=
    match defs, chs with
    | d :: dr, (cy, cx) :: cr =>
        np_slice2 (local_row_slice rs offset (gheight d), cs) (dask_grid OP inv (g_area d) cy cx)
        ++ stacked_rows_dask rs cs (offset + gheight d) dr cr
    | _, _ => []
    end.
  Definition tiling (d : garea T) (ch : list Z * list Z) : Prop :=
    Forall (fun x => 0 <= x) (fst ch) /\ Forall (fun x => 0 <= x) (snd ch) /\ sumZ (fst ch) = gheight d /\ sumZ (snd ch) = gwidth d.

End StackDask.
