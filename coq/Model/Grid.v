(* The regular grid of an AreaDefinition, written once over the arithmetic record.
   Mirrors geometry.AreaDefinition.__init__, _get_corner_and_scale, _generate_1d_proj_vectors,
   get_array_coordinates_from_projection_coordinates, get_projection_coordinates_from_array_coordinates.
   Operation order is the code's, so the binary64 instance is bit-exact. *)
From Coq Require Import ZArith Bool List.
From PR Require Import Base.Num.
Import ListNotations.
Open Scope Z_scope.

Record area (T : Type) := mk_area { xmin : T; ymin : T; xmax : T; ymax : T; width : Z; height : Z }.
Arguments mk_area {T}. Arguments xmin {T}. Arguments ymin {T}. Arguments xmax {T}. Arguments ymax {T}.
Arguments width {T}. Arguments height {T}.

Section Grid.
  Context {T : Type} (OP : ops T).
  Let two := ofZ OP 2.

  (* __init__ *)
  Definition pixel_size_x (a : area T) : T := div OP (sub OP (xmax a) (xmin a)) (ofZ OP (width a)).
  Definition pixel_size_y (a : area T) : T := div OP (sub OP (ymax a) (ymin a)) (ofZ OP (height a)).
  Definition upl_x (a : area T) : T := add OP (xmin a) (div OP (pixel_size_x a) two).
  Definition upl_y (a : area T) : T := sub OP (ymax a) (div OP (pixel_size_y a) two).
  Definition pixel_offset_x (a : area T) : T := div OP (neg OP (xmin a)) (pixel_size_x a).
  Definition pixel_offset_y (a : area T) : T := div OP (ymax a) (pixel_size_y a).

  (* _get_corner_and_scale *)
  Definition xscale (a : area T) : T := pixel_size_x a.
  Definition yscale (a : area T) : T := neg OP (pixel_size_y a).

  (* _generate_1d_proj_vectors: arange(c) * pixel_size + offset, rows with -pixel_size_y *)
  Definition proj_x (a : area T) (c : Z) : T := add OP (mul OP (ofZ OP c) (pixel_size_x a)) (upl_x a).
  Definition proj_y (a : area T) (r : Z) : T := add OP (mul OP (ofZ OP r) (neg OP (pixel_size_y a))) (upl_y a).

  (* get_projection_coordinates_from_array_coordinates (fractional cols/rows) *)
  Definition proj_of_arr_x (a : area T) (c : T) : T := add OP (mul OP c (xscale a)) (upl_x a).
  Definition proj_of_arr_y (a : area T) (r : T) : T := add OP (mul OP r (yscale a)) (upl_y a).
  (* get_array_coordinates_from_projection_coordinates *)
  Definition arr_of_proj_x (a : area T) (x : T) : T := div OP (sub OP x (upl_x a)) (xscale a).
  Definition arr_of_proj_y (a : area T) (y : T) : T := div OP (sub OP y (upl_y a)) (yscale a).

  Fixpoint zrange (from : Z) (n : nat) : list Z := match n with O => [] | S k => from :: zrange (from + 1) k end.
  Definition proj_vector_x (a : area T) : list T := map (proj_x a) (zrange 0 (Z.to_nat (width a))).
  Definition proj_vector_y (a : area T) : list T := map (proj_y a) (zrange 0 (Z.to_nat (height a))).
End Grid.
