(* executable wrappers comparing the C04 model (binary64 instance) with observations of the implementation *)
From Coq Require Import ZArith Bool List PrimFloat.
From PR Require Import Base.Num Base.F64 Base.ListX Model.Weights.
Import ListNotations.
Open Scope Z_scope.

(* a weight function as the finite table of the values the real function returned for the distances of the case *)
Definition lookup (tab : list (float * float)) (d : float) : float :=
  match find (fun p => same_bits (fst p) d) tab with Some p => snd p | None => PrimFloat.nan end.

(* accepted: the same bits, or within the stated a-priori rounding bound (passed per observable) *)
Definition close (a b tol : float) : bool := same_bits a b || PrimFloat.leb (PrimFloat.abs (PrimFloat.sub a b)) tol.

(* expected observables of one (location, channel):
   (mask, value, tol, None | Some (stddev mask, stddev, tol, count, count mask)) *)
Definition xunc : Type := bool * float * float * Z * bool.
Definition xobs : Type := bool * float * float * option xunc.

(* a tolerance of +infinity marks an observable the property leaves unconstrained AND the model does not cover
   (numpy.ma arithmetic on a masked-array input without masked valid elements, in cells whose neighbours carry
   non-finite data or whose estimator is 0/0): it is not compared *)
Definition skip (tol : float) : bool := PrimFloat.eqb tol infinity.

Definition chk_obs (exact : bool) (o : obs float) (x : xobs) : bool :=
  let '(xm, xv, tv, xu) := x in
  let cl := fun a b t => if exact then same_bits a b else close a b t in
  Bool.eqb (o_mask o) xm && (xm || skip tv || cl (o_val o) xv tv) &&
  match xu with
  | None => true
  | Some (sm, sv, ts, cn, cm) =>
      (skip ts || (Bool.eqb (o_sd_mask o) sm && (sm || cl (o_sd o) sv ts))) &&
      Bool.eqb (o_cnt_mask o) cm && (cm || (o_cnt o =? cn))
  end.

(* (valid output?, index row, distance row, expected observables per data channel) *)
Definition xrow : Type := bool * list Z * list float * list xobs.
(* (n_valid, columns of new_data, weight tables per data channel, masked data?, effective fill, fill_value=None?, rows) *)
Definition xcase : Type := Z * list (list float) * list (list (float * float)) * bool * float * bool * list xrow.

Definition cfg_of (c : xcase) : cfg float :=
  let '(n, cls, tabs, msk, fl, umf, _) := c in mk_cfg n cls (map lookup tabs) msk fl umf.

Fixpoint chk_chans (exact : bool) (c : cfg float) (t : trow float) (j : nat) (xs : list xobs) : bool :=
  match xs with
  | [] => true
  | x :: r => chk_obs exact (observe F64 c t j) x && chk_chans exact c t (S j) r
  end.

Definition chk_row (exact : bool) (c : cfg float) (r : xrow) : bool :=
  let '(vo, ix, ds, xs) := r in chk_chans exact c (mk_trow vo ix ds) 0%nat xs.

Definition chk_case (c : xcase) : bool :=
  let '(_, _, _, _, _, _, rows) := c in forallb (chk_row false (cfg_of c)) rows.
(* the same with bit equality only: reported as a statistic, never a verdict *)
Definition chk_case_exact (c : xcase) : bool :=
  let '(_, _, _, _, _, _, rows) := c in forallb (chk_row true (cfg_of c)) rows.

(* diagnosis: rows of a case that do not check *)
Definition bad_rows (c : xcase) : list Z :=
  let '(_, _, _, _, _, _, rows) := c in bad (chk_row false (cfg_of c)) rows.
