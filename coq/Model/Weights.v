(* C04 — weighted kd-tree resampling (resample_gauss / resample_custom), written once over the arithmetic record.
   Mirrors pyresample/kd_tree.py, statement by statement and in the code's operation order, so that the
   binary64 instance is bit-exact and the real instance is what the theorems are about:

     get_sample_from_neighbour_info   mask channels appended as extra columns (np.column_stack((data, mask)))
     _extract_resample_result         weight functions doubled for masked data; k = 1 -> array indexing path
     _resample_with_weights           per-slot gather, weight 0 for missing slots, result/norm accumulation, norm > 0, fill
     _calculate_uncertainty           count, norm_sqr (V2), weighted squared deviations, count > 1, sqrt(V1/(V1^2-V2) * s)
     _prepare_and_fill_uncertainty_result / _prepare_result / _remask_data
                                      locations that are not valid outputs, NaN -> mask, mask channel != 0, masked_equal(fill)

   The k-nearest query (pykdtree) and the weight functions are NOT modelled here: the neighbour slots (index,
   distance) and the weight function are inputs (Section-variable style arguments / tables in the run file).
   A missing neighbour is flagged by index = n_valid (distance inf), exactly as _query_resample_kdtree leaves it. *)
From Coq Require Import ZArith Bool List.
From PR Require Import Base.Num.
Import ListNotations.
Open Scope Z_scope.

Record slot (T : Type) := mk_slot { present : bool; wgt : T; val : T }.
Arguments mk_slot {T}. Arguments present {T}. Arguments wgt {T}. Arguments val {T}.

(* what one column (channel or mask channel) of one target location carries out of the accumulation *)
Record colres (T : Type) := mk_colres { c_res : T; c_sd : T; c_sd_undef : bool; c_cnt : Z }.
Arguments mk_colres {T}. Arguments c_res {T}. Arguments c_sd {T}. Arguments c_sd_undef {T}. Arguments c_cnt {T}.

(* one target location: is it a valid output, and its k neighbour slots *)
Record trow (T : Type) := mk_trow { valid_out : bool; idxs : list Z; dists : list T }.
Arguments mk_trow {T}. Arguments valid_out {T}. Arguments idxs {T}. Arguments dists {T}.

(* one call: number of valid inputs, the columns of new_data (data channels, then the mask channels when the
   input is a masked array with at least one masked valid element), one weight function per data channel,
   effective fill value (dtype max when fill_value=None) *)
Record cfg (T : Type) := mk_cfg {
  n_valid : Z; cols : list (list T); wfs : list (T -> T); masked_data : bool; fill : T; use_masked_fill : bool }.
Arguments mk_cfg {T}. Arguments n_valid {T}. Arguments cols {T}. Arguments wfs {T}. Arguments masked_data {T}.
Arguments fill {T}. Arguments use_masked_fill {T}.

(* the observables of one target location and data channel *)
Record obs (T : Type) := mk_obs {
  o_mask : bool; o_val : T; o_sd_mask : bool; o_sd : T; o_cnt : Z; o_cnt_mask : bool }.
Arguments mk_obs {T}. Arguments o_mask {T}. Arguments o_val {T}. Arguments o_sd_mask {T}. Arguments o_sd {T}.
Arguments o_cnt {T}. Arguments o_cnt_mask {T}.

Section Weights.
  Context {T : Type} (OP : ops T).

  Definition tzero : T := ofZ OP 0.
  Definition tone : T := ofZ OP 1.
  (* numpy: bool array * float array *)
  Definition b2t (b : bool) : T := if b then tone else tzero.
  (* numpy: x ** 2 is np.square, i.e. x * x *)
  Definition sq (x : T) : T := mul OP x x.

  (* ---- _resample_with_weights, loops 1 and 2: gather value and weight of neighbour slot i.
     index == input_size flags a missing neighbour; its distance is replaced by 1 before the weight function
     is called and (since the fix) its gathered value is set to 0. *)
  Definition gather (wf : T -> T) (n : Z) (col : list T) (idx : Z) (d : T) : slot T :=
    let miss := idx =? n in
    mk_slot (negb miss) (wf (if miss then tone else d))
            (if miss then tzero else nth (Z.to_nat idx) col (nan OP)).

  (* the code before the fix: the missing slot keeps pointing at valid input 0 (index_ni[index_mask_ni] = 0)
     and its value enters the sums multiplied by a zero weight *)
  Definition gather_legacy (wf : T -> T) (n : Z) (col : list T) (idx : Z) (d : T) : slot T :=
    let miss := idx =? n in
    mk_slot (negb miss) (wf (if miss then tone else d))
            (nth (Z.to_nat (if miss then 0 else idx)) col (nan OP)).

  Fixpoint map2 {A B C} (f : A -> B -> C) (a : list A) (b : list B) : list C :=
    match a, b with
    | x :: a', y :: b' => f x y :: map2 f a' b'
    | _, _ => []
    end.

  (* ---- loop 3: weights_tmp = np.where(inv_index_mask, weight, 0.0); result += weights_tmp * ch; norm += weights_tmp.
     A missing slot gets weight 0 outright (since the second fix); before, it was the 0/1 "present" factor times the
     weight function evaluated at the placeholder distance 1 (wtmp_legacy): 0 * inf = NaN. *)
  Definition wtmp (s : slot T) : T := if present s then wgt s else tzero.
  Definition wtmp_legacy (s : slot T) : T := mul OP (b2t (present s)) (wgt s).

  Section Accumulate.
    Variable wt : slot T -> T.
    Definition acc_step (a : T * T) (s : slot T) : T * T :=
      (add OP (fst a) (mul OP (wt s) (val s)), add OP (snd a) (wt s)).
    Definition acc (ss : list (slot T)) : T * T := fold_left acc_step ss (tzero, tzero).

    (* result[norm > 0] /= norm[norm > 0]; result[~(norm > 0)] = fill_value *)
    Definition mean_of (ss : list (slot T)) (fillv : T) : T :=
      let a := acc ss in
      if ltb OP tzero (snd a) then div OP (fst a) (snd a) else fillv.

    (* ---- _calculate_uncertainty *)
    Definition unc_step (res : T) (a : T * T) (s : slot T) : T * T :=
      (add OP (fst a) (sq (wt s)),
       add OP (snd a) (mul OP (wt s) (sq (sub OP (mul OP (b2t (present s)) (val s)) res)))).
    (* (norm_sqr, stddev accumulator) *)
    Definition unc (res : T) (ss : list (slot T)) : T * T := fold_left (unc_step res) ss (tzero, tzero).

    (* stddev[count > 1] = sqrt((v1 / (v1 ** 2 - v2)) * stddev); stddev[~(count > 1)] = nan; later mask = isnan(stddev).
       The NaN marker is carried as an explicit flag so that the real instance (which has no NaN) keeps it. *)
    Definition stddev_of (cnt : Z) (ss : list (slot T)) (res : T) : T * bool :=
      let v1 := snd (acc ss) in
      let u := unc res ss in
      if 1 <? cnt then
        let v := sqrtf OP (mul OP (div OP v1 (sub OP (sq v1) (fst u))) (snd u)) in (v, isnan OP v)
      else (nan OP, true).
  End Accumulate.

  Definition count_of (ss : list (slot T)) : Z :=
    fold_left (fun c s => c + (if present s then 1 else 0)) ss 0.

  Definition slots_col (g : (T -> T) -> Z -> list T -> Z -> T -> slot T)
             (wf : T -> T) (n : Z) (col : list T) (ix : list Z) (ds : list T) : list (slot T) :=
    map2 (g wf n col) ix ds.

  Definition col_of_slots (wt : slot T -> T) (ss : list (slot T)) (fillv : T) : colres T :=
    let res := mean_of wt ss fillv in
    let sd := stddev_of wt (count_of ss) ss res in
    mk_colres res (fst sd) (snd sd) (count_of ss).

  (* k >= 2 *)
  Definition weighted_col (wf : T -> T) (n : Z) (col : list T) (ix : list Z) (ds : list T) (fillv : T) : colres T :=
    col_of_slots wtmp (slots_col gather wf n col ix ds) fillv.
  (* the code before both fixes *)
  Definition weighted_col_legacy (wf : T -> T) (n : Z) (col : list T) (ix : list Z) (ds : list T) (fillv : T) : colres T :=
    col_of_slots wtmp_legacy (slots_col gather_legacy wf n col ix ds) fillv.
  (* the code between the fixes: missing slots gather 0 but are weighted 0 * wf(1) *)
  Definition weighted_col_legacy_w (wf : T -> T) (n : Z) (col : list T) (ix : list Z) (ds : list T) (fillv : T) : colres T :=
    col_of_slots wtmp_legacy (slots_col gather wf n col ix ds) fillv.

  (* k = 1 (index_array is one-dimensional): _extract_resample_result takes the nearest neighbour by array
     indexing, no weight is evaluated; with_uncert (since the fix): count 1 where found, stddev undefined *)
  Definition nn_col (n : Z) (col : list T) (idx : Z) (fillv : T) : colres T :=
    let miss := idx =? n in
    mk_colres (if miss then fillv else nth (Z.to_nat idx) col (nan OP)) (nan OP) true (if miss then 0 else 1).

  (* a location that is not a valid output keeps np.full(fill), stddev nan, count 0 *)
  Definition fill_col (fillv : T) : colres T := mk_colres fillv (nan OP) true 0.

  (* ---- one call *)
  (* weight_funcs * 2 / (weight_funcs,) * 2 for masked data *)
  Definition all_wfs (c : cfg T) : list (T -> T) := if masked_data c then wfs c ++ wfs c else wfs c.
  (* channels // 2 of _remask_data *)
  Definition nchan (c : cfg T) : nat := if masked_data c then Nat.div2 (length (cols c)) else length (cols c).

  Definition col_of (c : cfg T) (t : trow T) (j : nat) : colres T :=
    let col := nth j (cols c) [] in
    let wf := nth j (all_wfs c) (fun _ => nan OP) in
    if valid_out t then
      match idxs t with
      | [i] => nn_col (n_valid c) col i (fill c)
      | ix => weighted_col wf (n_valid c) col ix (dists t) (fill c)
      end
    else fill_col (fill c).

  (* _prepare_result (+ _remask_data: mask = (mask channel != 0); masked_equal(result, fill) when fill_value=None)
     and _prepare_and_fill_uncertainty_result (+ the final masks in _extract_resample_result) *)
  Definition observe (c : cfg T) (t : trow T) (j : nat) : obs T :=
    let d := col_of c t j in
    let m1 := if masked_data c then negb (eqb OP (c_res (col_of c t (nchan c + j)%nat)) tzero) else false in
    let m2 := if use_masked_fill c then eqb OP (c_res d) (fill c) else false in
    let m := m1 || m2 in
    mk_obs m (c_res d) (m || c_sd_undef d) (c_sd d) (c_cnt d) m.
End Weights.
