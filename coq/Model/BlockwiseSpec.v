(* C05: specification of the masked kd-tree query (oracle hypothesis) over real distances.  Definitions only. *)
From Coq Require Import ZArith List Bool Reals.
From PR Require Import Model.Blockwise.
Import ListNotations.
Open Scope Z_scope.

Section KnnSpec.
  Variable vii mask : list bool.          (* flat source: valid_input_index; data mask (true = masked pixel) *)
  Variable dist : Z -> Z -> nat -> R.     (* chord distance from target pixel (i,j) to flat source pixel s *)
  Variable r : R.                         (* radius_of_influence *)
  Definition nvalid : Z := count_true vii.
  (* mask.ravel()[valid_input_index.ravel()] -- what query_no_distance hands to kdtree.query *)
  Definition cmask : list bool := compress vii mask.
  (* compacted index -> flat source pixel *)
  Definition src_of (k : Z) : nat := nth (Z.to_nat k) (positions vii) 0%nat.
  Definition candidate (k : Z) : Prop := 0 <= k < nvalid /\ nth (Z.to_nat k) cmask true = false.
  (* pykdtree query(k=1, distance_upper_bound=r, mask=cmask) for one query point: the nearest unmasked point
     strictly within r, or n if there is none *)
  Definition knn_masked_spec (i j : Z) (res : Z) : Prop :=
    (res = nvalid /\ forall k, candidate k -> (r <= dist i j (src_of k))%R)
    \/ (candidate res /\ (dist i j (src_of res) < r)%R
        /\ forall k, candidate k -> (dist i j (src_of res) <= dist i j (src_of k))%R).
End KnnSpec.
