(* C19: spherical_utils.GetNonOverlapUnionsBaseClass over an abstract overlap/union. *)
From Coq Require Import ZArith List Lia Bool.
Import ListNotations.

Section Unions.
  Context {G : Type} (overlaps : G -> G -> bool) (union : G -> G -> G).

  (* keys are nested tuples of input indices *)
  Inductive key := KInt (i : nat) | KPair (a b : key).
  Fixpoint flat (k : key) : list nat := match k with KInt i => [i] | KPair a b => flat a ++ flat b end.

  Definition entry := (key * G)%type.

  (* first overlapping pair in itertools.combinations order over the dict's insertion order *)
  Fixpoint find_with (x : entry) (l : list entry) : option entry :=
    match l with
    | [] => None
    | y :: r => if overlaps (snd x) (snd y) then Some y else find_with x r
    end.
  Fixpoint find_pair (l : list entry) : option (entry * entry) :=
    match l with
    | [] => None
    | x :: r => match find_with x r with
                | Some y => Some (x, y)
                | None => find_pair r
                end
    end.

  Fixpoint key_eqb (a b : key) : bool :=
    match a, b with
    | KInt i, KInt j => Nat.eqb i j
    | KPair a1 a2, KPair b1 b2 => key_eqb a1 b1 && key_eqb a2 b2
    | _, _ => false
    end.
  Definition remove_key (k : key) (l : list entry) : list entry :=
    filter (fun e => negb (key_eqb (fst e) k)) l.

  (* one round of _merge_unions: delete the two, append the union under the pair key *)
  Definition merge_step (l : list entry) : option (list entry) :=
    match find_pair l with
    | None => None
    | Some (x, y) => Some (remove_key (fst y) (remove_key (fst x) l) ++ [(KPair (fst x) (fst y), union (snd x) (snd y))])
    end.
  Fixpoint merge_loop (fuel : nat) (l : list entry) : list entry :=
    match fuel with
    | O => l
    | S f => match merge_step l with None => l | Some l' => merge_loop f l' end
    end.
  Definition init_entries (gs : list G) : list entry :=
    combine (map KInt (seq 0 (length gs))) gs.
  Definition merge (gs : list G) : list (list nat * G) :=
    map (fun e => (flat (fst e), snd e)) (merge_loop (length gs) (init_entries gs)).
End Unions.
