(* C16 - the boundary ring of a geometry (pyresample/geometry.py BaseDefinition._get_bbox_slices,
   _get_sides, _filter_sides_nans, _reverse_boundaries, get_bbox_lonlats,
   AreaDefinition._get_geostationary_boundary_sides; boundary/legacy_boundary.py AreaBoundary.contour).

   Index selection is numpy's  np.linspace(start, stop, num, dtype=int)  (numpy 2.x, function_base.py):
       delta = stop - start (float64);  y = arange(0, num) (float64)
       div = num - 1
       if div > 0:  step = delta / div
                    if step == 0:  y /= div; y *= delta      else:  y *= step
       else:        y = y * delta
       y += start
       if num > 1:  y[-1] = stop
       floor(y).astype(int)
   written once over the arithmetic record: the binary64 instance is compared with numpy, the real
   instance is characterised by integer division (Proofs/C16_idx.v).

   The coordinate functions (get_lonlats / get_proj_coords), the orientation test _corner_is_clockwise
   and the shapely intersection of the geostationary disk with the extent are Section variables / inputs.

   Definitions only. *)
From Coq Require Import ZArith Bool List.
From PR Require Import Base.Num.
Import ListNotations.
Open Scope Z_scope.

Section Linspace.
  Context {T : Type} (OP : ops T).

  Definition lin_val (start stop : Z) (num i : nat) : Z :=
    let dv := Z.of_nat num - 1 in
    let delta := sub OP (ofZ OP stop) (ofZ OP start) in
    let yi := ofZ OP (Z.of_nat i) in
    if (1 <? Z.of_nat num) && (Z.of_nat i =? dv) then stop
    else
      let y :=
        if 0 <? dv then
          let step := div OP delta (ofZ OP dv) in
          if eqb OP step (ofZ OP 0) then mul OP (div OP yi (ofZ OP dv)) delta else mul OP yi step
        else mul OP yi delta in
      floorZ OP (add OP y (ofZ OP start)).

  Definition linspace_int (start stop : Z) (num : nat) : list Z := map (lin_val start stop num) (seq 0 num).

  (* np.linspace(0, n - 1, m, dtype=int)  and  np.linspace(n - 1, 0, m, dtype=int) *)
  Definition linspace_idx (n : Z) (m : nat) : list Z := linspace_int 0 (n - 1) m.
  Definition linspace_idx_desc (n : Z) (m : nat) : list Z := linspace_int (n - 1) 0 m.
End Linspace.

(* what the translator (tools/gen_specs/GenC16.json) needs: the geometry as far as _get_bbox_slices reads it,
   np.linspace(start, stop, num, dtype=int) with a Python int count, and Python's negative indexing *)
Record geom := mk_geom { g_shape : Z * Z }.
Definition np_linspace_int {T : Type} (OP : ops T) (start stop num : Z) : list Z := linspace_int OP start stop (Z.to_nat num).
Definition py_index (n i : Z) : Z := if i <? 0 then n + i else i.
Definition raw_slices := ((Z * list Z) * (list Z * Z) * (Z * list Z) * (list Z * Z))%type.
Definition resolve_slices (h w : Z) (s : raw_slices) : list (list (Z * Z)) :=
  let '(s1, s2, s3, s4) := s in
  [ map (fun c => (py_index h (fst s1), c)) (snd s1);
    map (fun r => (r, py_index w (snd s2))) (fst s2);
    map (fun c => (py_index h (fst s3), c)) (snd s3);
    map (fun r => (r, py_index w (snd s4))) (fst s4) ].

(* the exact (integer) index table: entry i of m over 0..n-1 *)
Definition idx (n : Z) (m i : nat) : Z := (Z.of_nat i * (n - 1)) / (Z.of_nat m - 1).
Definition idx_list (n : Z) (m : nat) : list Z := map (idx n m) (seq 0 m).
Definition idx_list_desc (n : Z) (m : nat) : list Z := map (fun i => idx n m (m - 1 - i)) (seq 0 m).

(* ------------------------------------------------------------------ sides as pixel index pairs (row, col) *)
Definition pix := (Z * Z)%type.

Section Sides.
  (* asc n m / desc n m : the ascending / descending index table of m entries over 0..n-1 *)
  Variable asc desc : Z -> nat -> list Z.

  (* _get_bbox_slices with explicit numbers of vertices; -1 resolved to the last row / column:
       s1 = (0, linspace(0, width-1, col_num))        top row, left -> right
       s2 = (linspace(0, height-1, row_num), -1)      last column, top -> bottom
       s3 = (-1, linspace(width-1, 0, col_num))       bottom row, right -> left
       s4 = (linspace(height-1, 0, row_num), 0)       first column, bottom -> top *)
  Definition sides_num (h w : Z) (row_num col_num : nat) : list (list pix) :=
    [ map (fun c => (0, c)) (asc w col_num);
      map (fun r => (r, w - 1)) (asc h row_num);
      map (fun c => (h - 1, c)) (desc w col_num);
      map (fun r => (r, 0)) (desc h row_num) ].

  (* row_num = min(vertices_per_side, max(height, 2)); None: the full side *)
  Definition num_of (vps : option Z) (n : Z) : nat :=
    match vps with
    | None => Z.to_nat n
    | Some v => Z.to_nat (Z.min v (Z.max n 2))
    end.
  (* the code before the repair: row_num = vertices_per_side *)
  Definition num_of_unclipped (vps : option Z) (n : Z) : nat :=
    match vps with None => Z.to_nat n | Some v => Z.to_nat v end.

  Definition bbox_sides (h w : Z) (vps : option Z) : list (list pix) :=
    sides_num h w (num_of vps h) (num_of vps w).
  Definition bbox_sides_unclipped (h w : Z) (vps : option Z) : list (list pix) :=
    sides_num h w (num_of_unclipped vps h) (num_of_unclipped vps w).
End Sides.

(* ------------------------------------------------------------------ generic side-list operations *)
Section Ring.
  Context {A : Type}.

  (* AreaBoundary.contour: every side without its last vertex, concatenated *)
  Definition contour (sides : list (list A)) : list A := concat (map (@removelast A) sides).

  (* _reverse_boundaries: [s[::-1] for s in sides[::-1]] *)
  Definition reverse_boundaries (sides : list (list A)) : list (list A) := map (@rev A) (rev sides).

  (* get_edge_lonlats / get_edge_bbox_in_projection_coordinates: plain concatenation *)
  Definition edge_concat (sides : list (list A)) : list A := concat sides.

  (* the three vertices handed to _corner_is_clockwise: sides[0][-2], sides[0][-1], sides[1][1] *)
  Definition corner_triple (sides : list (list A)) : option (A * A * A) :=
    match sides with
    | s0 :: s1 :: _ =>
        match rev s0, s1 with
        | c :: p :: _, _ :: q :: _ => Some (p, c, q)
        | _, _ => None
        end
    | _ => None
    end.

  (* get_bbox_lonlats: reverse when force_clockwise and the corner test says "not clockwise";
     [cw] is the orientation oracle (spherical geometry, not modelled). None = IndexError. *)
  Definition bbox_oriented (cw : A * A * A -> bool) (force : bool) (sides : list (list A)) : option (list (list A)) :=
    if force then
      match corner_triple sides with
      | Some t => Some (if cw t then sides else reverse_boundaries sides)
      | None => None
      end
    else Some sides.

  (* each side ends where the next begins (cyclically) *)
  Definition last_opt (l : list A) : option A := match rev l with x :: _ => Some x | [] => None end.
  Definition closed4 (sides : list (list A)) : Prop :=
    match sides with
    | [a; b; c; d] =>
        last_opt a = hd_error b /\ last_opt b = hd_error c /\ last_opt c = hd_error d /\ last_opt d = hd_error a
        /\ a <> [] /\ b <> [] /\ c <> [] /\ d <> []
    | _ => False
    end.

  (* geostationary dummy sides: the n vertices of (extent /\ Earth disk) split in two long and two 2-vertex sides
       k = int(n / 2) - 1
       [x[0:k+1], x[k:k+2], x[k+1:n], [x[n-1], x[0]]] *)
  Definition slice_l (a b : nat) (l : list A) : list A := firstn (b - a) (skipn a l).
  Definition geos_sides (x : list A) : list (list A) :=
    let n := length x in
    let k := (n / 2 - 1)%nat in
    [ slice_l 0 (k + 1) x; slice_l k (k + 2) x; slice_l (k + 1) n x;
      match last_opt x, x with Some l, f :: _ => [l; f] | _, _ => [] end ].
End Ring.

(* AreaBoundary.decimate(ratio) (legacy_boundary.py; reached through AreaDefBoundary(area, frequency)):
   the positions kept of a side with L vertices
       start = int((L % ratio) / 2)
       points = concatenate(([0], arange(start, L, ratio), [L - 1]))
       if points[1] == 0: points = points[1:]
       if points[-2] == L - 1: points = points[:-1] *)
Definition arange_step (start stop step : Z) : list Z :=
  map (fun k => start + Z.of_nat k * step) (seq 0 (Z.to_nat ((stop - start + step - 1) / step))).
Definition decimate_idx (L ratio : Z) : list Z :=
  let start := (L mod ratio) / 2 in
  let p0 := [0] ++ arange_step start L ratio ++ [L - 1] in
  let p1 := match p0 with _ :: 0 :: _ => tl p0 | _ => p0 end in
  match rev p1 with
  | _ :: x :: _ => if x =? L - 1 then removelast p1 else p1
  | _ => p1
  end.
Definition select {A} (d : A) (l : list A) (pos : list Z) : list A := map (fun i => nth (Z.to_nat i) l d) pos.
Definition decimate_sides {A} (d : A) (ratio : Z) (sides : list (list A)) : list (list A) :=
  map (fun s => select d s (decimate_idx (Z.of_nat (length s)) ratio)) sides.

(* get_boundary_lonlats (kd_tree / bilinear legacy entry point): the four complete sides
   (0, :), (:, -1), (-1, ::-1), (::-1, 0) *)
Definition zrange (n : Z) : list Z := map Z.of_nat (seq 0 (Z.to_nat n)).
Definition full_sides (h w : Z) : list (list (Z * Z)) :=
  [ map (fun c => (0, c)) (zrange w); map (fun r => (r, w - 1)) (zrange h);
    map (fun c => (h - 1, c)) (rev (zrange w)); map (fun r => (r, 0)) (rev (zrange h)) ].

(* _filter_sides_nans: drop the vertices with a NaN coordinate; a side without any valid vertex is an error *)
Section Nans.
  Context {T : Type} (OP : ops T).
  Definition valid_vertex (p : T * T) : bool := negb (isnan OP (fst p) || isnan OP (snd p)).
  Definition filter_side (s : list (T * T)) : option (list (T * T)) :=
    let f := filter valid_vertex s in
    match f with [] => None | _ => Some f end.
  Fixpoint filter_sides_nans (sides : list (list (T * T))) : option (list (list (T * T))) :=
    match sides with
    | [] => Some []
    | s :: r =>
        match filter_side s, filter_sides_nans r with
        | Some s', Some r' => Some (s' :: r')
        | _, _ => None
        end
    end.
End Nans.

(* twice the signed area of the closed polygon through a cyclic list of integer points (shoelace) *)
Definition cross2 (p q : pix) : Z := fst p * snd q - fst q * snd p.
Fixpoint path_area2 (l : list pix) : Z :=
  match l with
  | p :: ((q :: _) as r) => cross2 p q + path_area2 r
  | _ => 0
  end.
Definition ring_area2 (l : list pix) : Z :=
  match l with [] => 0 | p :: _ => path_area2 (l ++ [p]) end.
