(* C14, wave 3: what the imperative translation (tools/gen_specs/GenC14imp.json -> Gen/GenC14imp.v) of
   DynamicAreaDefinition._extract_lons_lats / _get_proj_dict / _compute_bound_centers / freeze needs to exist
   beforehand.  Definitions only.

   Everything that is pyproj / PROJ / a geometry object's own accessor is an ABSTRACT function of the record [world]
   (never an axiom): the generated methods take a world as a Section argument, the theorems quantify over all worlds.
   Aliasing discipline of the translation (enforced by types in the spec, see its note): a PROJ parameter dict that
   belongs to the object ([proj], what self._projection holds) and a dict the method may update in place ([pdict], only
   ever obtained from dict(..) / crs.to_dict()) are different types; `.update` is only translated on a [pdict] that
   the function owns (a local, or a parameter the caller gave away: spec option "consumes"). *)
From Coq Require Import ZArith Bool List.
From PR Require Import Base.Num Base.Imp Model.Grid Model.DynBase Gen.GenC14 Model.Dynamic.
Import ListNotations.
Open Scope Z_scope.

Record world (T : Type) := mk_world {
  pdict : Type;          (* a PROJ parameter dict owned by the running method *)
  proj : Type;           (* a projection definition: dict / str / CRS object / EPSG code *)
  crs : Type;            (* a pyproj CRS object *)
  arr : Type;            (* an array of longitudes or latitudes (numpy / dask / list) *)
  geodef : Type;         (* a geometry object passed as lonslats *)
  area_out : Type;       (* what compute_optimal_bb_area returns *)
  pd0 : pdict; proj0 : proj; crs0 : crs; arr0 : arr; area0 : area_out;
  w_parse : proj -> option crs;              (* CRS(projection); None = it raises (CRSError is a RuntimeError) *)
  w_parse_pd : pdict -> option crs;          (* CRS(proj_dict) *)
  w_to_dict : crs -> pdict;                  (* crs.to_dict(): a new dict *)
  w_dict_copy : proj -> pdict;               (* dict(projection): a new dict *)
  w_update : pdict -> pdict -> pdict;        (* d.update(e): d afterwards *)
  w_pd_proj : pdict -> proj;                 (* a parameter dict used as a projection definition *)
  w_pm_dict : crs -> pdict;                  (* {"pm": (_prime_meridian_degrees(crs) + 180.0) % 360.0}: the prime meridian, in degrees, moved by 180 *)
  w_is_geographic : crs -> bool;
  w_project : crs -> arr -> arr -> list (T * T);   (* Transformer(CRS(4326) -> crs).transform(lons, lats), position by position *)
  w_bbox : geodef -> option (arr * arr);     (* lonslats.attrs["bounding_box"]; None = AttributeError / KeyError *)
  w_get_lonlats : geodef -> arr * arr;       (* lonslats.get_lonlats() *)
  w_epsg : crs -> proj -> proj;              (* the `with suppress(CRSError)` block of freeze: the EPSG spelling or the projection itself *)
  w_aou : proj -> aou_t T;                   (* _get_crs_area_of_use *)
  w_optimal : geodef -> pdict -> resarg T -> option area_out   (* lonslats.compute_optimal_bb_area(proj_dict, resolution=..) *)
}.
Arguments pdict {T}. Arguments proj {T}. Arguments crs {T}. Arguments arr {T}. Arguments geodef {T}. Arguments area_out {T}.
Arguments pd0 {T}. Arguments proj0 {T}. Arguments crs0 {T}. Arguments arr0 {T}. Arguments area0 {T}.
Arguments w_parse {T}. Arguments w_parse_pd {T}. Arguments w_to_dict {T}. Arguments w_dict_copy {T}. Arguments w_update {T}.
Arguments w_pd_proj {T}. Arguments w_pm_dict {T}. Arguments w_is_geographic {T}. Arguments w_project {T}. Arguments w_bbox {T}.
Arguments w_get_lonlats {T}. Arguments w_epsg {T}. Arguments w_aou {T}. Arguments w_optimal {T}.

(* `try: A except ...: H` for a single-statement A: H runs from the state at the try when A raises *)
Definition try_ {St Y R} (a h : M St Y R) : M St Y R :=
  fun s => match a s with Raised => h s | r => r end.

Section DynImp.
  Context {T : Type} (OP : ops T) (W : world T).

  (* the lonslats argument of freeze: a (lons, lats) pair or a geometry object *)
  Inductive lonslats_in := LL_pair (lons lats : arr W) | LL_obj (g : geodef W).
  Definition ll_is_pair (l : lonslats_in) : bool := match l with LL_pair _ _ => true | _ => false end.
  Definition ll_pair (l : lonslats_in) : arr W * arr W := match l with LL_pair a b => (a, b) | _ => (arr0 W, arr0 W) end.
  Definition ll_has_bbox (l : lonslats_in) : bool :=
    match l with LL_obj g => match w_bbox W g with Some _ => true | None => false end | _ => false end.
  Definition ll_bbox (l : lonslats_in) : arr W * arr W :=
    match l with LL_obj g => match w_bbox W g with Some p => p | None => (arr0 W, arr0 W) end | _ => (arr0 W, arr0 W) end.
  Definition ll_is_obj (l : lonslats_in) : bool := match l with LL_obj _ => true | _ => false end.
  Definition ll_get (l : lonslats_in) : arr W * arr W := match l with LL_obj g => w_get_lonlats W g | _ => (arr0 W, arr0 W) end.

  Variable wrap360 : T -> T.
  (* readings of the float / array expressions of _compute_bound_centers (their agreement with the source text is what the
     FIRST front end establishes: gen_clean_xy, gen_am_test, gen_nxc_* of Gen/GenC14.v and C14_bound_centers_pieces) *)
  Definition ofl (o : option T) : T := match o with Some v => v | None => nan OP end.
  Definition is_some {A} (o : option A) : bool := match o with Some _ => true | None => false end.
  Definition unzip (l : list (T * T)) : list T * list T := (map fst l, map snd l).
  (* self._compute_new_x_corners_for_antimeridian(xarr, antimeridian_mode): (None, None) or two floats *)
  Definition nxc_opt (mode : amode) (xs : list T) : option T * option T :=
    match new_x_corners OP wrap360 mode xs with Some (a, b) => (Some a, Some b) | None => (None, None) end.
  Definition is_mcrs (m : amode) : bool := match m with MCrs => true | _ => false end.

  (* the DynamicAreaDefinition object: the attributes freeze reads (none of them may be written) *)
  Record dyn_obj := mk_dobj {
    o_projection : proj W;
    o_resolution : resarg T;                 (* as normalised by __init__: RNone or RPair *)
    o_width : option Z; o_height : option Z;
    o_extent : option (T * T * T * T);
    o_optimize : bool
  }.
  Definition o_shape (o : dyn_obj) : option Z * option Z := (o_height o, o_width o).

  (* what freeze returns: AreaDefinition(area_id, description, '', projection, width, height, area_extent), or whatever
     compute_optimal_bb_area returned *)
  Inductive fz_out := FzArea (p : proj W) (w h : Z) (e : T * T * T * T) | FzOptimal (a : area_out W).

  Definition is_rnone (r : resarg T) : bool := match r with RNone => true | _ => false end.
  (* resolution or self.resolution *)
  Definition res_or (a b : resarg T) : resarg T := if is_rnone a then b else a.
  Definition ll_optimal_ok (l : option lonslats_in) (d : pdict W) (r : resarg T) : bool :=
    match l with Some (LL_obj g) => is_some (w_optimal W g d r) | _ => false end.
  Definition ll_optimal (l : option lonslats_in) (d : pdict W) (r : resarg T) : fz_out :=
    match l with
    | Some (LL_obj g) => match w_optimal W g d r with Some a => FzOptimal a | None => FzOptimal (area0 W) end
    | _ => FzOptimal (area0 W)
    end.
  (* shape = None if None in shape else shape *)
  Definition shape_or_none (s : option (option Z * option Z)) : option (option Z * option Z) :=
    match s with Some (Some h, Some w) => s | _ => None end.
  Definition shape_zz (s : option (option Z * option Z)) : option (Z * Z) :=
    match s with Some (Some h, Some w) => Some (h, w) | _ => None end.
  (* not area_extent or not width or not height *)
  Definition must_compute (e : option (T * T * T * T)) (w h : option Z) : bool := negb (is_some e && truthy w && truthy h).
  Definition corners_xc (c : option T * T * option T * T) : option (T * T) :=
    match c with (Some a, _, Some b, _) => Some (a, b) | _ => None end.
  (* self.compute_domain(corners, resolution, shape, projection): the dispatch of Model/Dynamic.v to the regenerated
     specialisations of Gen/GenC14.v; None = it raises *)
  Definition cd_imp (c : option T * T * option T * T) (r : resarg T) (s : option (option Z * option Z)) (p : proj W)
    : option ((T * T * T * T) * Z * Z) :=
    let '(_, y0, _, y1) := c in compute_domain OP (corners_xc c) y0 y1 r (shape_zz s) (w_aou W p).
  Definition cd_val (c : option T * T * option T * T) (r : resarg T) (s : option (option Z * option Z)) (p : proj W)
    : (T * T * T * T) * Z * Z :=
    match cd_imp c r s p with Some v => v | None => ((nan OP, nan OP, nan OP, nan OP), 0, 0) end.
  Definition oz (o : option Z) : Z := match o with Some z => z | None => 0 end.
  Definition oext (o : option (T * T * T * T)) : T * T * T * T :=
    match o with Some e => e | None => (nan OP, nan OP, nan OP, nan OP) end.

  (* ---------------------------------------------------------------- the object-level model (what the generated methods are
     proved to compute: Proofs/C14_imp.v) *)
  (* _extract_lons_lats: a pair as it is; an object's bounding_box attribute if it has one, else all its positions *)
  Definition extract_model (l : lonslats_in) : arr W * arr W :=
    match l with
    | LL_pair a b => (a, b)
    | LL_obj g => match w_bbox W g with Some p => p | None => w_get_lonlats W g end
    end.
  (* _get_proj_dict: a NEW dict in both cases *)
  Definition get_pd (o : dyn_obj) : pdict W :=
    match w_parse W (o_projection o) with Some c => w_to_dict W c | None => w_dict_copy W (o_projection o) end.
  (* _compute_bound_centers on a dict it owns: the hand model [bound_centers] of Model/Dynamic.v on PROJ's output; the prime
     meridian entry is written into the dict exactly when that model says so *)
  Definition bc_model (d : pdict W) (l : lonslats_in) (mode : amode) : cres (proj W * (option T * T * option T * T)) :=
    match w_parse_pd W d with
    | None => CRaised
    | Some c =>
        let '(lons, lats) := extract_model l in
        let '(pm, xc, y0, y1) := bound_centers OP wrap360 (w_is_geographic W c) mode (w_project W c lons lats) in
        COk (w_pd_proj W (if pm then w_update W d (w_pm_dict W c) else d),
             (match xc with Some (a, _) => Some a | None => None end, y0, match xc with Some (_, b) => Some b | None => None end, y1))
    end.
  Definition dyn_of (o : dyn_obj) : dyn T := mk_dyn (o_extent o) (o_width o) (o_height o) (o_resolution o).
  (* freeze *)
  Definition freeze_obj (o : dyn_obj) (ll : option lonslats_in) (fres : resarg T) (fshape : option (option Z * option Z))
             (pinfo : option (pdict W)) (mode : amode) : cres fz_out :=
    let d := match pinfo with Some i => w_update W (get_pd o) i | None => get_pd o end in
    let projection := match pinfo with Some _ => w_pd_proj W d | None => o_projection o end in
    if o_optimize o then
      (if ll_optimal_ok ll d (res_or fres (o_resolution o)) then COk (ll_optimal ll d (res_or fres (o_resolution o))) else CRaised)
    else match explicit_area (dyn_of o) fshape with
         | Some a => COk (FzArea projection (width a) (height a) (xmin a, ymin a, xmax a, ymax a))
         | None =>
             match ll with
             | None => CRaised
             | Some l =>
                 match bc_model d l mode with
                 | COk (p1, c) =>
                     match w_parse W p1 with
                     | None => CRaised
                     | Some c1 =>
                         let p2 := w_epsg W c1 p1 in
                         match cd_imp c (res_or fres (o_resolution o)) (shape_or_none (Some (eff_hw (dyn_of o) fshape))) p2 with
                         | Some (e, w, h) => COk (FzArea p2 w h e)
                         | None => CRaised
                         end
                     end
                 | _ => CRaised
                 end
             end
         end.
End DynImp.
