(* C11: the arithmetic of cropping one area around another.  Definitions only.
   Mirrors slicer.AreaSlicer.get_slices_from_polygon / _sanitize_polygon_bounds / _create_slices_from_bounds
   (expand_slice is the definition regenerated from /repo, Gen/GenSubset.v), utils.check_slice_orientation,
   _subset._ensure_integer_slice, slicer.SwathSlicer.get_slices_from_polygon / _assemble_slices /
   _get_chunk_bboxes_for_swath_to_crop.  shapely is an oracle: the model takes the bounds of the buffered
   polygon, its validity bit and the bit "intersects the polygon of the area to crop" as inputs. *)
From Coq Require Import ZArith Bool List.
From PR Require Import Base.Num Base.Slice Model.Grid Model.CropBase Model.Partition Gen.GenSubset.
Import ListNotations.
Open Scope Z_scope.

(* outcome of AreaSlicer.get_slices_from_polygon: the slices, or IncompatibleAreas with the stage that raised it
   1 "Area outside of domain." (polygon not valid)   2 "Areas not overlapping."   3 "No slice on area."
   4 "Area not within finite bounds." *)
Inductive cres := Slices (sx sy : pslice) | NoOverlap (stage : Z).

Section Crop.
  Context {T : Type} (OP : ops T).
  Let zero := ofZ OP 0.

  Definition amin (p : T * T) : T := fmin OP (fst p) (snd p).     (* np.min of a two-element array *)
  Definition amax (p : T * T) : T := fmax OP (fst p) (snd p).     (* np.max *)

  (* _sanitize_polygon_bounds: bounds of the polygon -> array coordinates of its corners *)
  Definition bounds_to_arr (a : area T) (b : T * T * T * T) : (T * T) * (T * T) :=
    let '(minx, miny, maxx, maxy) := b in acoords2 OP a (minx, maxx) (miny, maxy).
  (* np.all(x_bounds < 0) or np.all(y_bounds < 0) or np.all(x_bounds >= x_size) or np.all(y_bounds >= y_size) *)
  Definition all_outside (a : area T) (xb yb : T * T) : bool :=
    let xs := ofZ OP (width a) in let ys := ofZ OP (height a) in
    (ltb OP (fst xb) zero && ltb OP (snd xb) zero) || (ltb OP (fst yb) zero && ltb OP (snd yb) zero)
    || (leb OP xs (fst xb) && leb OP xs (snd xb)) || (leb OP ys (fst yb) && leb OP ys (snd yb)).

  (* slice(int(np.floor(max(np.min(b), 0))), int(np.ceil(np.max(b)))) *)
  Definition lo_of (p : T * T) : T := fmax OP (amin p) zero.
  Definition raw_slice (p : T * T) : pslice := mk_slice (floorZ OP (lo_of p)) (ceilZ OP (amax p)).
  (* _create_slices_from_bounds: int() of an infinity is the OverflowError turned into IncompatibleAreas *)
  Definition create_slices (xb yb : T * T) : cres :=
    if isfinite OP (lo_of xb) && isfinite OP (amax xb) && isfinite OP (lo_of yb) && isfinite OP (amax yb)
    then Slices (gen_expand_slice (raw_slice xb)) (gen_expand_slice (raw_slice yb))
    else NoOverlap 4.

  (* get_slices_from_polygon after shapely: validity test, intersection test, sanitize, create *)
  Definition crop_slices (valid intersects : bool) (a : area T) (b : T * T * T * T) : cres :=
    if negb valid then NoOverlap 1 else
    if negb intersects then NoOverlap 2 else
    let '(xb, yb) := bounds_to_arr a b in
    if all_outside a xb yb then NoOverlap 3 else create_slices xb yb.

  (* _ensure_integer_slice on float bounds *)
  Definition ensure_integer (start stop : T) : pslice := mk_slice (floorZ OP start) (ceilZ OP stop).
End Crop.

(* utils.check_slice_orientation on slice(start, stop) (step None): a reversed slice gets step -1 *)
Definition check_orientation (start stop : Z) : Z * Z * option Z :=
  if start >? stop then (start, stop, Some (-1)) else (start, stop, None).
(* _ensure_integer_slice on int bounds: floor/ceil of an int is the int; the step is kept *)
Definition ensure_integer_Z (s : Z * Z * option Z) : Z * Z * option Z := s.

(* SwathSlicer: chunk boxes = chunk slices expanded by one; result = hull of the boxes whose polygon intersects *)
Definition chunk_boxes (chunks : list (list Z)) : list (pslice * pslice) :=
  flat_map (fun blk => match blk with
                       | [l; c] => [(gen_expand_slice (snd l), gen_expand_slice (snd c))]
                       | _ => [] end) (enumerate_chunk_slices chunks).
Definition hull_start (l : list pslice) (d : Z) : Z := fold_right (fun s m => Z.min (sstart s) m) d l.
Definition hull_stop (l : list pslice) (d : Z) : Z := fold_right (fun s m => Z.max (sstop s) m) d l.
(* _assemble_slices: returns (col_slice, line_slice) *)
Definition assemble (boxes : list (pslice * pslice)) : option (pslice * pslice) :=
  match boxes with
  | [] => None
  | (l0, c0) :: r =>
      Some (mk_slice (hull_start (map snd r) (sstart c0)) (hull_stop (map snd r) (sstop c0)),
            mk_slice (hull_start (map fst r) (sstart l0)) (hull_stop (map fst r) (sstop l0)))
  end.
Definition select {A} (l : list A) (hit : list bool) : list A := map fst (filter snd (combine l hit)).
Definition swath_slices (chunks : list (list Z)) (hit : list bool) : option (pslice * pslice) :=
  assemble (select (chunk_boxes chunks) hit).
