(* C03: how kd_tree.py organises the work.  Definitions only.
   Part A: an abstract per-target query [q] (the kd-tree answer for one target point does not depend on
           which other targets are in the batch: a batch query is [map q]), row segmentation through
           geometry._get_slice, assembly through RowAppendableArray, worker processes writing slices.
   Part B: the pipeline of get_neighbour_info / get_sample_from_neighbour_info on lists: validity and
           reduction masks, compaction of the sources, k nearest within the radius (brute-force spec of the
           tree query, ties to the lower index), padding with (n, inf), the empty-result shortcuts,
           and the neighbour info mapped back to original source indices. *)
From Coq Require Import ZArith List Bool Lia Arith.
From PR Require Import Base.ZX Base.ListX Base.Slice Model.Partition.
Import ListNotations.
Local Close Scope Z_scope.
Local Open Scope nat_scope.

(* ------------------------------------------------------------------ Part A *)
Section Org.
  Context {target result : Type}.
  Variable q : target -> result.          (* _query_resample_kdtree for ONE target point *)
  Variable valid : target -> bool.        (* _get_valid_output_index for ONE target point *)

  (* _query_resample_kdtree on a block of target points: (valid_output_index, rows of index/distance arrays) *)
  Definition query_batch (ts : list target) : list bool * list result :=
    (map valid ts, map q (filter valid ts)).

  (* target_geo_def.get_lonlats(data_slice=(slice(a,b), slice(None))).ravel() *)
  Definition rows_of (s : pslice) (g : list (list target)) : list target := concat (take_slice s g).

  (* segments=None: estimate from the target size *)
  Definition auto_segments (size : Z) : Z := if (3000000 <? size)%Z then (size / 3000000)%Z else 1%Z.
  Definition segments_of (o : option Z) (size : Z) : Z := match o with Some s => s | None => auto_segments size end.

  (* the `if segments > 1:` branch: one RowAppendableArray per output, one append per row slice *)
  Definition info_segmented (segments : Z) (g : list (list target)) (capacity : Z)
    : list (option bool) * list (option result) :=
    let parts := map (fun s => query_batch (rows_of s g)) (get_slice segments (Z.of_nat (length g))) in
    (raa_to_array (fold_left raa_append (map fst parts) (raa_init capacity)),
     raa_to_array (fold_left raa_append (map snd parts) (raa_init capacity))).

  (* the `else:` branch: one query with slice(None) *)
  Definition info_plain (g : list (list target)) : list (option bool) * list (option result) :=
    let r := query_batch (concat g) in (map Some (fst r), map Some (snd r)).

  Definition neighbour_info (segments : Z) (g : list (list target)) (capacity : Z) :=
    if (1 <? segments)%Z then info_segmented segments g capacity else info_plain g.
End Org.

(* worker processes (cKDTree_MP.query, Proj_MP.__call__): each worker takes slices from the scheduler and does
   out[s] = f(x[s]) on the shared output array *)
Definition write_at {A} (arr : list A) (s : pslice) (vals : list A) : list A :=
  firstn (Z.to_nat (sstart s)) arr ++ vals ++ skipn (Z.to_nat (sstop s)) arr.
Definition run_workers {A B} (f : A -> B) (xs : list A) (handed : list pslice) (init : list B) : list B :=
  fold_left (fun arr s => write_at arr s (map f (take_slice s xs))) handed init.

(* ------------------------------------------------------------------ Part B *)
Definition indexed_from {A} (a : nat) (l : list A) : list (nat * A) := combine (seq a (length l)) l.
Definition indexed {A} (l : list A) : list (nat * A) := indexed_from 0 l.
(* np.flatnonzero(mask) *)
Definition positions (m : list bool) : list nat := map fst (filter (fun c => snd c) (indexed m)).
(* data[mask] *)
Definition compact {A} (m : list bool) (l : list A) : list A := map snd (filter (fun c => fst c) (combine m l)).
(* full = np.full(fill); full[mask] = vals *)
Fixpoint scatter {A} (m : list bool) (vals : list A) (dflt : A) : list A :=
  match m with
  | [] => []
  | true :: r => match vals with v :: vs => v :: scatter r vs dflt | [] => dflt :: scatter r [] dflt end
  | false :: r => dflt :: scatter r vals dflt
  end.

Section Pipe.
  Context {src tgt D V : Type}.
  Variable dist : tgt -> src -> D.              (* chord distance as the tree computes it *)
  Variable within : D -> bool.                  (* d < radius_of_influence *)
  Variable dle : D -> D -> bool.                (* ranking of neighbours *)
  Variable dinf : D.                            (* distance reported for a missing neighbour *)
  Variables (svalid : src -> bool) (tvalid : tgt -> bool).   (* legal lon/lat *)
  Variables (red : src -> bool) (redT : tgt -> bool).        (* data_reduce masks; constantly true if reduce_data=False *)
  Variable k : nat.

  Definition keepS (s : src) : bool := svalid s && red s.
  Definition keepT (t : tgt) : bool := tvalid t && redT t.

  (* stable insertion sort on the distance: equal distances keep the list (= index) order *)
  Fixpoint insert (x : nat * D) (l : list (nat * D)) : list (nat * D) :=
    match l with
    | [] => [x]
    | y :: r => if dle (snd x) (snd y) then x :: l else y :: insert x r
    end.
  Definition isort (l : list (nat * D)) : list (nat * D) := fold_right insert [] l.

  (* the k nearest among labelled candidates, within the radius: the specification of tree.query(k, distance_upper_bound) *)
  Definition knn (cands : list (nat * src)) (t : tgt) : list (nat * D) :=
    firstn k (isort (filter (fun c => within (snd c)) (map (fun c => (fst c, dist t (snd c))) cands))).

  (* one row of index_array / distance_array: missing neighbours are (n, inf) *)
  Definition query_row (pts : list src) (t : tgt) : list (nat * D) :=
    let found := knn (indexed pts) t in
    found ++ repeat (length pts, dinf) (k - length found).

  Record info := mk_info { vii : list bool; voi : list bool; nrows : list (list (nat * D)) }.

  (* general path of get_neighbour_info (any segmentation / nprocs: Part A) *)
  Definition general_info (srcs : list src) (tgts : list tgt) : info :=
    let pts := filter keepS srcs in
    mk_info (map keepS srcs) (map keepT tgts) (map (query_row pts) (filter keepT tgts)).

  (* _create_empty_info: all outputs "valid", index = source size, distance = 1 *)
  Variable done : D.
  Definition create_empty_info (srcs : list src) (tgts : list tgt) : info :=
    mk_info (map keepS srcs) (repeat true (length tgts)) (repeat (repeat (length srcs, done) k) (length tgts)).

  Definition get_neighbour_info (srcs : list src) (tgts : list tgt) : info :=
    match filter keepS srcs with
    | [] => create_empty_info srcs tgts           (* except EmptyResult *)
    | _ => general_info srcs tgts
    end.

  (* neighbour info mapped back to original source indices: per target pixel the found (source, distance) *)
  Definition canon_row (m : list bool) (row : list (nat * D)) : list (nat * D) :=
    let pos := positions m in
    map (fun e => (nth (fst e) pos 0, snd e)) (filter (fun e => fst e <? length pos) row).
  Definition canon (i : info) : list (list (nat * D)) :=
    scatter (voi i) (map (canon_row (vii i)) (nrows i)) [].

  (* what the plain, unreduced call finds for one target: defined directly on the original indices *)
  Definition neighbours_of (keep : src -> bool) (srcs : list src) (t : tgt) : list (nat * D) :=
    knn (filter (fun c => keep (snd c)) (indexed srcs)) t.

  (* ---- get_sample_from_neighbour_info *)
  Variable fill : V.
  Variable weigh : list (D * V) -> V.      (* C04: weighted combination of the found neighbours, in rank order *)

  Definition nn_row (nd : list V) (row : list (nat * D)) : V :=
    match row with
    | (j, _) :: _ => if j =? length nd then fill else nth j nd fill
    | [] => fill
    end.
  Definition w_row (nd : list V) (row : list (nat * D)) : V :=
    match filter (fun e => negb (fst e =? length nd)) row with
    | [] => fill                                                      (* norm = 0 *)
    | found => weigh (map (fun e => (snd e, nth (fst e) nd fill)) found)
    end.
  Definition sample_general (rowf : list V -> list (nat * D) -> V) (i : info) (data : list V) : list V :=
    let nd := compact (vii i) data in
    scatter (voi i) (map (rowf nd) (nrows i)) fill.
  (* with the `valid_input_size == 0 or valid_output_size == 0` shortcut (_get_empty_sample) *)
  Definition sample (rowf : list V -> list (nat * D) -> V) (i : info) (data : list V) : list V :=
    if forallb negb (vii i) || forallb negb (voi i) then repeat fill (length (voi i))
    else sample_general rowf i data.

  (* the same results read off the canonical neighbour lists and the UNcompacted data *)
  Definition pick_nn (data : list V) (nb : list (nat * D)) : V :=
    match nb with (s, _) :: _ => nth s data fill | [] => fill end.
  Definition pick_w (data : list V) (nb : list (nat * D)) : V :=
    match nb with [] => fill | _ => weigh (map (fun e => (snd e, nth (fst e) data fill)) nb) end.

  (* _resample = get_sample_from_neighbour_info o get_neighbour_info *)
  Definition resample (rowf : list V -> list (nat * D) -> V) (srcs : list src) (tgts : list tgt) (data : list V) : list V :=
    sample rowf (get_neighbour_info srcs tgts) data.
End Pipe.
