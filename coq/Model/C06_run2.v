(* executable wrappers for the resampler-class wrappers of C06 (range clip, scattering to the full target) *)
From Coq Require Import ZArith List Bool PrimFloat.
From PR Require Import Base.Num Base.F64 Base.ListX Model.Bilinear Model.BilinearWrap Model.C06_run.
Import ListNotations.
Open Scope Z_scope.

(* (data_min, data_max, fill, res, expected) *)
Definition chk_limit (c : float * float * float * float * float) : bool :=
  let '(dmin, dmax, fill, res, exp) := c in
  same_bits (limit_output F64 dmin dmax (range_margin F64 dmin dmax) fill res) exp.
(* (valid flags of the target pixels, bands of results at the valid pixels, expected full bands) *)
Definition chk_scatter (c : list bool * list (list float) * list (list float)) : bool :=
  let '(valid, bands, exp) := c in
  list_eqb fl_eqb (scatter_bands PrimFloat.nan valid bands) exp.
