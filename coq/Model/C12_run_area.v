(* executable wrapper for histories on an area: uses the regenerated AreaDefinition.__getitem__ (Gen/GenC12.v) *)
From Coq Require Import ZArith Bool List PrimFloat.
From PR Require Import Base.Num Base.F64 Base.Slice Base.ListX Model.HashEq Gen.GenC12 Model.C12_slice Model.C12_f32 Model.C12_run.
Import ListNotations.
Open Scope Z_scope.

(* ---- histories on an area.  rt is pyproj's WKT round trip on the tokens of this case *)
Definition lookup (tab : list (Z * Z)) (t : Z) : Z :=
  match find (fun p => fst p =? t) tab with Some p => snd p | None => t end.

Inductive aop := AHash | AEq (j : Z) (c12 c21 : bool) (e12 e21 : bool) | ASlice (ys xs : oslice) | ACopy.
(* observed after each call: memo consistent, digest equal to the ORIGINAL area's, crs token, width, height, extent *)
Definition aobs := (bool * bool * Z * Z * Z * (float * float * float * float))%type.

Definition ext_eqb (a b : float * float * float * float) : bool := list_eqb same_bits (ext_list a) (ext_list b).

Definition a_step (rt : Z -> Z) := step (harea float) (list (tok float)) (oslice * oslice) (area_image F64)
                                        (fun c _ => c) (area_slice F64 rt) (area_copy rt).
Definition a_op (p : aop) : op (harea float) (oslice * oslice) :=
  match p with AHash => OHash | AEq _ _ _ _ _ => OEq (mk_harea 0 0 0 (0, 0, 0, 0)%float (0, 0)) | ASlice ys xs => OSlice (ys, xs) | ACopy => OCopy end.

Fixpoint a_run (pool : list geo) (rt : Z -> Z) (orig : harea float) (o : obj (harea float) (list (tok float)))
         (l : list (aop * aobs)) : bool :=
  match l with
  | [] => true
  | (p, (mok, deq, tk, w, h, e)) :: r =>
      let eq_ok := match p with
                   | AEq j c12 c21 e12 e21 =>
                       Bool.eqb (geo_eq c12 (GA (coords o) false) (pick pool j)) e12 && Bool.eqb (geo_eq c21 (pick pool j) (GA (coords o) false)) e21
                   | _ => true end in
      let o' := a_step rt o (a_op p) in
      let c := coords o' in
      eq_ok
      && Bool.eqb (img_eqb (hash_of _ _ (area_image F64) o') (area_image F64 c)) mok
      && Bool.eqb (img_eqb (area_image F64 c) (area_image F64 orig)) deq
      && (h_crs c =? tk) && (h_w c =? w) && (h_h c =? h) && ext_eqb (h_ext c) e
      && a_run pool rt orig o' r
  end.
Definition area_hist_case := (Z * list (Z * Z) * list (aop * aobs))%type.
Definition chk_area_hist (pool : list geo) (c : area_hist_case) : bool :=
  let '(i, tab, l) := c in
  match pick pool i with
  | GA a _ => a_run pool (lookup tab) a (new_obj a) l
  | _ => false
  end.

