(* Array-level readings used by the spec patterns of tools/gen_specs/GenC07imp.json (definitions only).
   A dask array is the list of its chunks; a flat per-cell result is a list over cells 0 .. size-1.
   da.histogram is read as the histogram of the concatenation (that the per-chunk histograms summed give the same is
   C07_chunk_invariant / C07_get_sum_chunked_is_get_sum); da.rechunk / .chunks are read on the chunk lists. *)
From Coq Require Import ZArith Bool List.
From PR Require Import Base.Num Base.ListX Base.Imp Model.Grid Model.Bucket.
Import ListNotations.
Open Scope Z_scope.

(* `try: A except ...: H` for a single-statement A: H runs from the state at the try when A raises *)
Definition try_ {St Y R} (a h : M St Y R) : M St Y R :=
  fun s => match a s with Raised => h s | r => r end.

Definition ib_lens {A} (c : list (list A)) : list nat := map (@length A) c.
(* a.chunks != b.chunks *)
Definition ib_same_chunks {A B} (a : list (list A)) (b : list (list B)) : bool := list_eqb Nat.eqb (ib_lens a) (ib_lens b).
(* da.rechunk(idxs, like.chunks) *)
Definition ib_rechunk {A B} (idxs : list (list A)) (like : list (list B)) : list (list A) :=
  bk_split_chunks (ib_lens like) (concat idxs).

(* da.histogram(idxs, bins=size, range=(0, size)) *)
Definition ib_count_hist (size : Z) (idxs : list (list Z)) : list Z := bk_cells size (bk_count size (concat idxs)).
(* da.histogram(idxs, bins=size, range=(0, size), weights=w) *)
Definition ib_sum_hist (size : Z) (idxs : list (list Z)) (w : list (list dat)) : list dat :=
  bk_cells size (bk_hist oadd (Some 0) size (combine (concat idxs) (concat w))).
(* _get_invalid_mask(data, fill_value), element-wise over the chunks *)
Definition ib_invalid_mask (fill : dat) (data : list (list dat)) : list (list bool) := map (map (bk_invalid fill)) data.
(* da.where(invalid_mask, 0, data) *)
Definition ib_weights (mask : list (list bool)) (data : list (list dat)) : list (list dat) :=
  map (fun p : list bool * list dat => map (fun q : bool * dat => if fst q then Some 0 else snd q) (combine (fst p) (snd p))) (combine mask data).
(* da.histogram(idxs[missing_val], bins=size, range=(0, size)) *)
Definition ib_missing_hist (size : Z) (idxs : list (list Z)) (mask : list (list bool)) : list Z :=
  bk_cells size (bk_count size (map fst (filter (fun p : Z * bool => snd p) (combine (concat idxs) (concat mask))))).
(* da.where(missing_val_bins > 0, fill_value, statistic) *)
Definition ib_where_missing (missing : list Z) (fill : dat) (stat : list dat) : list dat :=
  map (fun p : Z * dat => if fst p >? 0 then fill else snd p) (combine missing stat).
(* da.where(sums == 0, empty_bucket_value, sums) *)
Definition ib_where_zero (ebv : dat) (sums : list dat) : list dat := map (fun s => if dat_eqb s (Some 0) then ebv else s) sums.
(* da.where(data == fill_value, np.nan, data) *)
Definition ib_mark_fill (fill : dat) (data : list (list dat)) : list (list dat) :=
  map (map (fun d => if dat_eqb d fill then None else d)) data.
(* np.logical_not(np.isnan(data)).astype(np.int64) *)
Definition ib_valid_flags (data : list (list dat)) : list (list dat) := map (map (fun d => Some (if dat_isnan d then 0 else 1))) data.
(* da.where(data == cat, 1.0, 0.0) *)
Definition ib_cat_flags (cat : Z) (data : list (list dat)) : list (list dat) := map (map (fun d => Some (bk_cat_flag cat d))) data.
(* da.from_delayed(_get_statistics(method, data, idxs, shape)): the whole arrays go to one delayed call *)
Definition ib_statistic (is_max : bool) (size : Z) (idxs : list (list Z)) (data : list (list dat)) : list dat :=
  bk_cells size (bk_get_stat is_max size (concat idxs) (concat data)).
(* _get_abs_max_from_min_max(min_, max_) *)
Definition ib_abs_max (mn mx : list dat) : list dat := map (fun p : dat * dat => bk_absmax_of (fst p) (snd p)) (combine mn mx).

Section ImpBucketF.
  Context {T : Type} (OP : ops T).
  (* sums / da.where(counts == 0, np.nan, counts): NaN where the count is 0 or the sum is NaN *)
  Definition ib_avg_div (sums counts : list dat) : list (option T) :=
    map (fun p : dat * dat => match snd p with
                  | Some c => if c =? 0 then None
                              else match fst p with Some s => Some (div OP (ofZ OP s) (ofZ OP c)) | None => None end
                  | None => None end) (combine sums counts).
  (* da.where(np.isnan(average), fill_value, average) *)
  Definition ib_avg_fill (fill : dat) (avg : list (option T)) : list (option T) :=
    map (fun a => match a with Some v => Some v | None => bk_fill_T OP fill end) avg.
  (* sums.astype(float) / counts *)
  Definition ib_frac_div (sums : list dat) (counts : list Z) : list (option T) :=
    map (fun p : dat * Z => match fst p with
                  | Some s => if snd p =? 0 then None else Some (div OP (ofZ OP s) (ofZ OP (snd p)))
                  | None => None end) (combine sums counts).
  (* da.where(counts == 0.0, fill_value, result) *)
  Definition ib_frac_fill (counts : list Z) (fill : dat) (res : list (option T)) : list (option T) :=
    map (fun p : Z * option T => if fst p =? 0 then bk_fill_T OP fill else snd p) (combine counts res).
End ImpBucketF.
