(* C19 (and C03): the helpers that split work.  Definitions only. *)
From Coq Require Import ZArith List Lia Bool.
From PR Require Import Base.ZX Base.Slice.
Import ListNotations.
Open Scope Z_scope.

(* geometry._get_slice: the generator's while loop, on fuel (at most [segments] pieces) *)
Fixpoint get_slice_loop (fuel : nat) (start stop len size : Z) : list pslice :=
  match fuel with
  | O => []
  | S f => if start <? size
           then mk_slice start stop :: get_slice_loop f stop (Z.min (stop + len) size) len size
           else []
  end.
Definition get_slice (segments size : Z) : list pslice :=
  let len := cdiv size segments in
  get_slice_loop (Z.to_nat segments) 0 len len size.

(* emitted slices, in order, tile [from, to) consecutively with non-empty pieces *)
Fixpoint tiles (from : Z) (l : list pslice) (to : Z) : Prop :=
  match l with
  | [] => from = to
  | s :: r => sstart s = from /\ sstart s < sstop s /\ tiles (sstop s) r to
  end.
(* same, pieces may be empty (zero-size dask chunks) *)
Fixpoint wtiles (from : Z) (l : list pslice) (to : Z) : Prop :=
  match l with
  | [] => from = to
  | s :: r => sstart s = from /\ sstart s <= sstop s /\ wtiles (sstop s) r to
  end.

(* slicer._enumerate_chunk_slices: per-axis offsets = prefix sums; positions in C order *)
Fixpoint offsets (pos : nat) (off : Z) (c : list Z) : list (nat * pslice) :=
  match c with
  | [] => []
  | x :: r => (pos, mk_slice off (off + x)) :: offsets (S pos) (off + x) r
  end.
Fixpoint product {A} (ls : list (list A)) : list (list A) :=
  match ls with
  | [] => [[]]
  | l :: r => flat_map (fun s => map (cons s) (product r)) l
  end.
Definition enumerate_chunk_slices (chunks : list (list Z)) : list (list (nat * pslice)) :=
  product (map (offsets 0 0) chunks).

(* utils.row_appendable_array.RowAppendableArray; rows are elements of A, np.empty cells are None *)
Section RAA.
  Context {A : Type}.
  Record raa := mk_raa { r_cap : Z; r_data : option (list (option A)); r_cursor : Z }.
  Definition raa_init (cap : Z) : raa := mk_raa cap None 0.
  Definition raa_append (s : raa) (rows : list A) : raa :=
    let data := match r_data s with Some d => d | None => repeat None (Z.to_nat (r_cap s)) end in
    let n := Z.of_nat (length data) in
    let cursor_end := r_cursor s + Z.of_nat (length rows) in
    if n <? cursor_end then
      let remaining := n - r_cursor s in
      mk_raa (r_cap s)
             (Some (firstn (Z.to_nat (r_cursor s)) data ++ map Some (firstn (Z.to_nat remaining) rows)
                    ++ map Some (skipn (Z.to_nat remaining) rows)))
             cursor_end
    else
      mk_raa (r_cap s)
             (Some (firstn (Z.to_nat (r_cursor s)) data ++ map Some rows ++ skipn (Z.to_nat cursor_end) data))
             cursor_end.
  Definition raa_to_array (s : raa) : list (option A) :=
    match r_data s with Some d => firstn (Z.to_nat (r_cursor s)) d | None => [] end.
End RAA.

(* the specification of _make_slice_divisible, as the property states it *)
Definition divisible_good (orig res : pslice) (max_size factor : Z) : Prop :=
  sstart res < sstop res /\ 0 <= sstart res /\ sstop res <= max_size /\
  (factor <= max_size -> (sstop res - sstart res) mod factor = 0) /\
  (cdiv (sstop orig - sstart orig) factor * factor <= max_size ->
     sstart res <= sstart orig /\ sstop orig <= sstop res).
