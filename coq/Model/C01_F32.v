(* C01 -- dtype=float32 coordinates, bit-exact: every binary32 operation is the binary64 operation followed by rounding to
   binary32 (double rounding is innocuous for + - * / when 53 >= 2*24+2), the Python-float pixel size / offset are first
   cast to binary32 (NEP 50 weak scalars).  The element recipe is the REGENERATED gen01_proj_vector_elements. *)
From Coq Require Import ZArith Bool List PrimFloat Uint63 SpecFloat FloatOps.
From PR Require Import Base.Num Base.F64 Base.ListX Model.Grid Model.C01_Area Gen.GenC01.
Import ListNotations.
Open Scope Z_scope.

Definition r32 (x : float) : float :=
  match Prim2SF x with
  | S754_finite s m e => SF2Prim (SpecFloat.binary_normalize 24 128 (if s then Z.neg m else Z.pos m) e s)
  | _ => x
  end.

Definition F32 : ops float := {|
  add := fun a b => r32 (PrimFloat.add a b); sub := fun a b => r32 (PrimFloat.sub a b);
  mul := fun a b => r32 (PrimFloat.mul a b); div := fun a b => r32 (PrimFloat.div a b);
  neg := PrimFloat.opp; absf := PrimFloat.abs; sqrtf := fun a => r32 (PrimFloat.sqrt a);
  ofZ := fun z => r32 (Z2F z); lit := fun m e => r32 (litF m e);
  floorZ := floorZ F64; ceilZ := ceilZ F64; truncZ := truncZ F64; rintZ := rintZ F64;
  ltb := PrimFloat.ltb; leb := PrimFloat.leb; eqb := PrimFloat.eqb;
  isnan := f_isnan; isfinite := f_isfinite; nan := PrimFloat.nan
|}.

(* get_proj_vectors(dtype=float32): arange(n, dtype=f32) * pixel_size + offset, attributes computed in binary64 by __init__ *)
Definition c01_vec32 (a : area float) : list float * list float :=
  let ps := (r32 (pixel_size_x F64 a), r32 (pixel_size_y F64 a)) in
  let ul := (r32 (upl_x F64 a), r32 (upl_y F64 a)) in
  (map (fun c => fst (gen01_proj_vector_elements F32 ps ul c 0)) (c01_range 0 (width a)),
   map (fun r => snd (gen01_proj_vector_elements F32 ps ul 0 r)) (c01_range 0 (height a))).
Definition chk_vectors32 (c : area float * list float * list float) : bool :=
  let '(a, xs, ys) := c in
  list_eqb same_bits (fst (c01_vec32 a)) xs && list_eqb same_bits (snd (c01_vec32 a)) ys.

(* a float32 2-D request observed through its marginals (first row of X, first column of Y; the harness checks that the
   arrays are bitwise the mesh of them): the selected entries of the float32 vectors *)
Definition chk_coords32 (c : area float * list Z * list Z * list float * list float) : bool :=
  let '(a, rows, cols, xs, ys) := c in
  list_eqb same_bits (c01_select PrimFloat.nan cols (fst (c01_vec32 a))) xs &&
  list_eqb same_bits (c01_select PrimFloat.nan rows (snd (c01_vec32 a))) ys.
