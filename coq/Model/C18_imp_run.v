(* the definition generated from grid.get_resampled_image (Gen/GenC18imp.v), RUN against the implementation:
   row_image i = the model's per-point sampling of target row i (binary64 instance), result compared with the image that
   ImageContainerQuick.resample / get_resampled_image(segments=..) returned *)
From Coq Require Import ZArith List Bool PrimFloat.
From PR Require Import Base.Num Base.F64 Base.ListX Base.Slice Base.Imp Model.Grid Model.CellIndex Model.C18_run Model.QuickImp Gen.GenC18imp.
Import ListNotations.
Open Scope Z_scope.

Fixpoint rows_of {A} (n w : nat) (l : list A) : list (list A) :=
  match n with O => [] | S k => firstn w l :: rows_of k w (skipn w l) end.

(* (source area, target height, target width, segments, projected target pixel centres row-major, observed image codes) *)
Definition chk_imp_resampled (c : fa * Z * Z * option Z * list (float * float) * list Z) : bool :=
  let '(a, th, tw, segments, pts, img) := c in
  let rows := rows_of (Z.to_nat th) (Z.to_nat tw) pts in
  let row_image := fun i : Z => map (fun p => code_of a (grid_cell F64 a (fst p) (snd p))) (nth (Z.to_nat i) rows []) in
  match value_of (imp_get_resampled_image th row_image tt tt tt tt tt segments None) with
  | COk res => list_eqb Z.eqb (concat res) img && (Z.of_nat (length res) =? th)
  | _ => false
  end.
