(* C16 - support definitions for the imperative translation (tools/py2coq_imp.py, tools/gen_specs/GenC16imp.json) of
   BaseDefinition._filter_sides_nans, AreaBoundary.decimate and Boundary.contour_poly: the numpy readings named in the
   spec's patterns and the AreaBoundary object as Python stores it.  Definitions only. *)
From Coq Require Import ZArith Bool List.
From PR Require Import Base.Num Base.Slice Base.Imp Model.Boundary.
Import ListNotations.
Open Scope Z_scope.

(* l[i] = v with Python's negative indices (guarded by idx_ok) *)
Definition list_set {A} (l : list A) (i : Z) (v : A) : list A :=
  let k := Z.to_nat (if i <? 0 then i + zlen l else i) in firstn k l ++ v :: skipn (S k) l.

(* ~(np.isnan(a) | np.isnan(b)) on two 1-D arrays of the same length *)
Definition valid_mask {T} (OP : ops T) (a b : list T) : list bool := map (valid_vertex OP) (combine a b).
(* a[mask] with a boolean mask of the same length *)
Definition mask_select {A} (a : list A) (mask : list bool) : list A := map fst (filter snd (combine a mask)).

(* an AreaBoundary object: the two lists of four side arrays and the polygon memoised by contour_poly (None = not yet) *)
Record area_boundary {T P : Type} := mk_ab { ab_lons : list (list T); ab_lats : list (list T); ab_poly : option P }.
Arguments mk_ab {T P}.
(* AreaBoundary.contour(): every side without its last vertex, concatenated, for both coordinates *)
Definition ab_contour {T P} (b : @area_boundary T P) : list T * list T :=
  (contour (ab_lons b), contour (ab_lats b)).

(* the two coordinate lists of the sides seen as one list of vertices per side, and back *)
Definition zip_sides {T} (d1 d2 : list (list T)) : list (list (T * T)) := map (fun p => combine (fst p) (snd p)) (combine d1 d2).
Definition unzip_sides {T} (s : list (list (T * T))) : list (list T) * list (list T) := (map (map fst) s, map (map snd) s).

(* Model.Boundary has its own [idx] (the index table); generated code means Python's l[i] of Base.Imp *)
Notation idx := PR.Base.Imp.idx (only parsing).
