(* C10 -- slicing an AreaDefinition (geometry.AreaDefinition.__getitem__) and numpy-style slicing of
   coordinate arrays.  Numeric code is written once over the arithmetic record; integer/list logic is
   plain Z/list.  Definitions only. *)
From Coq Require Import ZArith Bool List.
From PR Require Import Base.Num Base.Slice Model.Grid.
Import ListNotations.
Open Scope Z_scope.

(* An AreaDefinition as far as slicing / concatenation is concerned.  area_id, description, proj_id and
   crs are opaque tokens (only ever copied and, for crs, compared). *)
Record garea (T : Type) := mk_garea {
  g_area : area T;          (* area_extent, width, height *)
  g_off : Z * Z;            (* crop_offset = (rows, cols) *)
  g_id : Z; g_desc : Z; g_pid : Z; g_crs : Z
}.
Arguments mk_garea {T}. Arguments g_area {T}. Arguments g_off {T}.
Arguments g_id {T}. Arguments g_desc {T}. Arguments g_pid {T}. Arguments g_crs {T}.

Definition gheight {T} (g : garea T) : Z := height (g_area g).
Definition gwidth {T} (g : garea T) : Z := width (g_area g).

(* AreaDefinition(area_id, description, proj_id, crs, width, height, area_extent): crop_offset starts at (0, 0) *)
Definition new_area {T} (id desc pid crs w h : Z) (ext : T * T * T * T) : garea T :=
  let '(x0, y0, x1, y1) := ext in mk_garea (mk_area x0 y0 x1 y1 w h) (0, 0) id desc pid crs.
Definition set_crop_offset {T} (g : garea T) (o : Z * Z) : garea T :=
  mk_garea (g_area g) o (g_id g) (g_desc g) (g_pid g) (g_crs g).
Definition area_extent {T} (a : area T) : T * T * T * T := (xmin a, ymin a, xmax a, ymax a).
Definition garea_extent {T} (g : garea T) : T * T * T * T := area_extent (g_area g).

(* slice(start, stop, step): the model is restricted to unit step; [step] is the literal 1 produced by
   [indices] wherever the translated code builds a slice *)
Definition slice3 (start stop step : Z) : pslice := mk_slice start stop.

Section SliceArea.
  Context {T : Type} (OP : ops T).

  Definition gpul (g : garea T) : T * T := (upl_x OP (g_area g), upl_y OP (g_area g)).   (* pixel_upper_left *)
  Definition gpsx (g : garea T) : T := pixel_size_x OP (g_area g).
  Definition gpsy (g : garea T) : T := pixel_size_y OP (g_area g).

  Definition half : T := lit OP 1 (-1).

  (* hand-written mirror of AreaDefinition.__getitem__ for step None/1 (the regenerated definition
     Gen.GenC10.gen_area_getitem is proved equal to it over the reals in Proofs/C10_slice.v) *)
  Definition slice_extent_centre (g : garea T) (yi xi : pslice) : T * T * T * T :=
    (add OP (upl_x OP (g_area g)) (mul OP (sub OP (ofZ OP (sstart xi)) half) (gpsx g)),
     sub OP (upl_y OP (g_area g)) (mul OP (sub OP (ofZ OP (sstop yi)) half) (gpsy g)),
     add OP (upl_x OP (g_area g)) (mul OP (sub OP (ofZ OP (sstop xi)) half) (gpsx g)),
     sub OP (upl_y OP (g_area g)) (mul OP (sub OP (ofZ OP (sstart yi)) half) (gpsy g))).
  (* a side of the slice that lies on the border of the area keeps the border coordinate *)
  Definition slice_extent (g : garea T) (yi xi : pslice) : T * T * T * T :=
    let '(e0, e1, e2, e3) := slice_extent_centre g yi xi in
    (if sstart xi =? 0 then xmin (g_area g) else e0,
     if sstop yi =? gheight g then ymin (g_area g) else e1,
     if sstop xi =? gwidth g then xmax (g_area g) else e2,
     if sstart yi =? 0 then ymax (g_area g) else e3).

  Definition area_getitem (g : garea T) (key : oslice * oslice) : garea T :=
    let '(ys, xs) := key in
    let yi := indices ys (gheight g) in
    let xi := indices xs (gwidth g) in
    set_crop_offset
      (new_area (g_id g) (g_desc g) (g_pid g) (g_crs g) (sstop xi - sstart xi) (sstop yi - sstart yi)
                (slice_extent g yi xi))
      (fst (g_off g) + sstart yi, snd (g_off g) + sstart xi).

  (* 1-D projection vectors and the 2-D coordinate arrays derived from them through an external,
     pointwise inverse projection [inv] (PROJ; a Section variable where used) *)
  Definition gvec_x (g : garea T) : list T := proj_vector_x OP (g_area g).
  Definition gvec_y (g : garea T) : list T := proj_vector_y OP (g_area g).
End SliceArea.

(* ---- numpy basic slicing of python lists / arrays, unit step *)
Definition zlen {A} (l : list A) : Z := Z.of_nat (length l).
Definition np_slice {A} (s : oslice) (l : list A) : list A := take_slice (indices s (zlen l)) l.
(* arr[yslice, xslice] on a 2-D array stored as a list of rows *)
Definition np_slice2 {A} (key : oslice * oslice) (m : list (list A)) : list (list A) :=
  map (np_slice (snd key)) (np_slice (fst key) m).
(* meshgrid + pointwise function: the coordinate array of an area from its vectors *)
Definition grid_of {A B C} (f : A -> B -> C) (xs : list A) (ys : list B) : list (list C) :=
  map (fun y => map (fun x => f x y) xs) ys.

(* a normalised slice as a python slice object *)
Definition okey (s : pslice) : oslice := mk_oslice (Some (sstart s)) (Some (sstop s)).

(* composition of successive slices on one axis, as array slicing composes: the first key is normalised
   against the current length n, the remaining keys act on the selected window *)
Definition shift (a : Z) (s : pslice) : pslice := mk_slice (a + sstart s) (a + sstop s).
Fixpoint compose_all (n : Z) (keys : list oslice) : pslice :=
  match keys with
  | [] => mk_slice 0 n
  | k :: r => let i := indices k n in shift (sstart i) (compose_all (slen i) r)
  end.

(* a chain of keys is admissible when every step selects at least one row and one column *)
Fixpoint chain_ok (h w : Z) (keys : list (oslice * oslice)) : Prop :=
  match keys with
  | [] => True
  | (ys, xs) :: r =>
      1 <= slen (indices ys h) /\ 1 <= slen (indices xs w) /\
      chain_ok (slen (indices ys h)) (slen (indices xs w)) r
  end.
