(* C17: pyresample/spherical.py  SphPolygon.area / inverse, and the edge walk of SphPolygon._bool_oper.
   Definitions only.

   AREA.  SphPolygon.area computes, with phi_p/lam_p = take(arange(n)+1, mode="wrap") and
   phi_b/lam_b = take(arange(n)+2, mode="wrap"):
       new_lons_a = arctan2(...a, p...)          -- azimuth, seen from the pivot p, of the previous vertex a
       new_lons_b = arctan2(...b, p...)          -- the same expression for the next vertex b
       alpha = new_lons_a - new_lons_b ;  alpha[alpha < 0] += 2 * np.pi
       return (sum(alpha) - (len(self.lon) - 2) * np.pi) * self.radius ** 2
   The arctan2 expression is the ORACLE [az x p] (a Section variable; a table captured from the running
   implementation when the model is executed); [pi] is a constant of the carrier (Coq's PI for theorems, the
   binary64 value of np.pi for execution).  Everything else -- which differences, the single conditional
   "+ 2 pi", the left-to-right builtin sum starting at 0, the (n-2)*pi term and the final multiplication -- is
   mirrored operation by operation, so the F64 instance is bit-exact. *)
From Coq Require Import ZArith List Bool.
From PR Require Import Base.Num.
Import ListNotations.
Open Scope Z_scope.

(* take(arange(n) + 1, mode="wrap") on a list of length n >= 1 *)
Definition rot1 {A} (l : list A) : list A := match l with [] => [] | x :: t => t ++ [x] end.

Fixpoint map3 {A B C D} (f : A -> B -> C -> D) (a : list A) (b : list B) (c : list C) : list D :=
  match a, b, c with
  | x :: a', y :: b', z :: c' => f x y z :: map3 f a' b' c'
  | _, _, _ => []
  end.

Section Area.
  Context {T : Type} (OP : ops T).
  Variable V : Type.                       (* vertices (indices when executed) *)
  Variable az : V -> V -> T.               (* az x p = the arctan2 expression for the point x seen from the pivot p *)
  Variable pi : T.

  Definition twopi : T := mul OP (ofZ OP 2) pi.
  (* alpha[alpha < 0] += 2 * np.pi *)
  Definition norm2pi (a : T) : T := if ltb OP a (ofZ OP 0) then add OP a twopi else a.
  (* one entry of alpha: a = v_i, p = v_{i+1}, b = v_{i+2} *)
  Definition alpha (a p b : V) : T := norm2pi (sub OP (az a p) (az b p)).
  Definition alphas (vs : list V) : list T := map3 alpha vs (rot1 vs) (rot1 (rot1 vs)).
  (* builtin sum(): ((0 + x0) + x1) + ... *)
  Definition fsum (l : list T) : T := fold_left (add OP) l (ofZ OP 0).
  (* r2 is self.radius ** 2 *)
  Definition area_r2 (vs : list V) (r2 : T) : T :=
    mul OP (sub OP (fsum (alphas vs)) (mul OP (ofZ OP (Z.of_nat (length vs) - 2)) pi)) r2.
  Definition area (vs : list V) (r : T) : T := area_r2 vs (mul OP r r).
End Area.

(* SphPolygon.inverse / invert: np.flipud(vertices) *)
Definition inverse {V} (vs : list V) : list V := rev vs.

(* ------------------------------------------------------------------------------------------------------------
   SET OPERATIONS.  The geometry (Arc.intersection, the distance used to order crossings along an edge, the sign
   of Arc.angle at a crossing, _is_inside) is a TABLE; the model is the control flow of _bool_oper,
   Arc.get_next_intersection and _find_intersection_nodes over that table.

   Polygon 1 (self, side = false) has edges 0..n1-1 (edge i runs from vertex i to vertex i+1 mod n1), polygon 2
   (other, side = true) has edges 0..n2-1.  A crossing is a pair of edges for which Arc.intersection returned a
   point that passed the filters of get_next_intersection. *)
Inductive node := Cross (c : Z) | Vert (side : bool) (i : Z).
Definition node_eqb (a b : node) : bool :=
  match a, b with
  | Cross x, Cross y => x =? y
  | Vert s i, Vert t j => Bool.eqb s t && (i =? j)
  | _, _ => false
  end.

Section Walk.
  Context {T : Type} (OP : ops T).

  Record xing := mk_xing {
    xid : Z;                (* crossing id *)
    xe1 : Z; xe2 : Z;       (* edge of polygon 1 / polygon 2 *)
    xd1 : T; xd2 : T;       (* edge.start.distance(inter) along the edge of polygon 1 / polygon 2 *)
    xs12 : Z; xs21 : Z      (* np.sign(Arc(inter, e1.end).angle(Arc(inter, e2.end))) and with the roles swapped *)
  }.
  Record arrangement := mk_arr { n1 : Z; n2 : Z; xs : list xing }.

  Variable A : arrangement.
  Definition nside (side : bool) : Z := if side then n2 A else n1 A.
  Definition xe (side : bool) (x : xing) : Z := if side then xe2 x else xe1 x.
  Definition xd (side : bool) (x : xing) : T := if side then xd2 x else xd1 x.
  Definition xturn (side : bool) (x : xing) : Z := if side then xs21 x else xs12 x.

  (* arcs[idx:] + arcs[:idx] (+ [start] when [again]) as edge indices *)
  Definition rot_edges (n start : Z) (again : bool) : list Z :=
    map (fun k => (start + Z.of_nat k) mod n) (seq 0 (Z.to_nat n)) ++ (if again then [start] else []).

  Definition find_xing (side : bool) (e eo : Z) : option xing :=
    find (fun x => (xe side x =? e) && (xe (negb side) x =? eo)) (xs A).

  (* res of get_next_intersection: one entry per arc of [others] (edges of the other polygon, in that order) that crosses edge e *)
  Definition res_list (side : bool) (e : Z) (others : list Z) : list xing :=
    flat_map (fun eo => match find_xing side e eo with Some x => [x] | None => [] end) others.

  (* sorted(res, key=dist): stable insertion sort on the distance from the start of edge e *)
  Fixpoint insert_by (side : bool) (x : xing) (l : list xing) : list xing :=
    match l with
    | [] => [x]
    | y :: r => if ltb OP (xd side x) (xd side y) then x :: l else y :: insert_by side x r
    end.
  Definition sort_by (side : bool) (l : list xing) : list xing := fold_right (insert_by side) [] l.

  (* the loop over sorted res with known_inter / take_next *)
  Fixpoint pick (known : option Z) (take_next : bool) (l : list xing) : option xing :=
    match l with
    | [] => None
    | x :: r =>
        match known with
        | None => Some x
        | Some k => if xid x =? k then pick known true r
                    else if take_next then Some x else pick known take_next r
        end
    end.
  Definition get_next_intersection (side : bool) (e : Z) (others : list Z) (known : option Z) : option xing :=
    pick known false (sort_by side (res_list side e others)).

  (* the for loop of _find_intersection_nodes over narcs1; [known] is the variable `inter` of the code
     (None after the first edge without a further crossing) *)
  Fixpoint follow (side : bool) (edges : list Z) (others : list Z) (known : option Z) (nodes : list node)
    : option xing * Z * list node :=
    match edges with
    | [] => (None, 0, nodes)
    | e :: r =>
        match get_next_intersection side e others known with
        | Some x => (Some x, e, nodes)
        | None =>
            let v := Vert side ((e + 1) mod nside side) in
            let first := match nodes with n0 :: _ => node_eqb v n0 | [] => false end in
            let lastn := match rev nodes with nl :: _ => node_eqb v nl | [] => false end in
            follow side r others None (if first || lastn then nodes else nodes ++ [v])
        end
    end.

  Inductive walk_result := Nodes (l : list node) | WalkError (l : list node).

  (* the while loop; [side] tells which polygon the variables arcs1/edge1 currently refer to *)
  Fixpoint walk (fuel : nat) (sign : Z) (side : bool) (inter : xing) (e1 e2 : Z) (nodes : list node) : walk_result :=
    match fuel with
    | O => WalkError nodes
    | S f =>
        let swap := negb (xturn side inter =? sign) in
        let side' := if swap then negb side else side in
        let e1' := if swap then e2 else e1 in
        let e2' := if swap then e1 else e2 in
        let narcs1 := rot_edges (nside side') e1' true in
        let narcs2 := rot_edges (nside (negb side')) e2' true in
        let nodes1 := nodes ++ [Cross (xid inter)] in
        match follow side' narcs1 narcs2 (Some (xid inter)) nodes1 with
        | (Some x, e, nodes2) =>
            match nodes2 with
            | n0 :: _ => if node_eqb (Cross (xid x)) n0 then Nodes nodes2
                         else walk f sign side' x e (xe (negb side') x) nodes2
            | [] => WalkError nodes2
            end
        | (None, _, nodes2) =>
            (* `inter is None and len(nodes) > 2 and nodes[-1] == nodes[0]` -> drop the last node and stop;
               otherwise the next iteration dereferences None *)
            match nodes2, rev nodes2 with
            | n0 :: _, nl :: _ => if (2 <? Z.of_nat (length nodes2)) && node_eqb nl n0
                                  then Nodes (removelast nodes2) else WalkError nodes2
            | _, _ => WalkError nodes2
            end
        end
    end.

  (* the first loop of _bool_oper: first edge of polygon 1 with a crossing, nearest crossing to its start *)
  Fixpoint first_inter (edges : list Z) : option (xing * Z) :=
    match edges with
    | [] => None
    | e :: r => match get_next_intersection false e (rot_edges (n2 A) 0 false) None with
                | Some x => Some (x, e)
                | None => first_inter r
                end
    end.

  Inductive oper_result := RNone | RSelf | ROther | RPoly (l : list node) | RError (l : list node).

  (* _bool_oper; inside12 = self._is_inside(other), inside21 = other._is_inside(self) (oracle bits) *)
  Definition bool_oper (sign : Z) (inside12 inside21 : bool) : oper_result :=
    match first_inter (rot_edges (n1 A) 0 false) with
    | None =>
        if inside12 then (if sign =? 1 then ROther else RSelf)          (* polys[-sign] *)
        else if inside21 then (if sign =? 1 then RSelf else ROther)     (* polys[sign] *)
        else RNone
    | Some (x, e1) =>
        match walk (Z.to_nat (2 * (n1 A + n2 A) + 4)) sign false x e1 (xe2 x) [] with
        | Nodes l => RPoly l
        | WalkError l => RError l
        end
    end.
End Walk.

(* Interpretation of a result of _bool_oper as a set of cells of the arrangement of the two boundaries
   (the faces into which the edges of both polygons cut the sphere).  [enclosed l] is the set of cells to the
   right of the closed node sequence l -- geometry, an oracle. *)
Section Regions.
  Variable cell : Type.
  Definition region := cell -> bool.
  Variable enclosed : list node -> region.
  Definition oper_region (RA RB : region) (res : oper_result) : option region :=
    match res with
    | RNone => None
    | RSelf => Some RA
    | ROther => Some RB
    | RPoly l => Some (enclosed l)
    | RError _ => None
    end.
End Regions.

(* Histories of calls on ONE SphPolygon object: area() and inverse() leave the object as it is (inverse() builds a new
   polygon from np.flipud(self.vertices)), invert() reverses the object's own vertex list. *)
Inductive pop := PArea | PInverse | PInvert.
Definition pstep {V} (st : list V) (o : pop) : list V := match o with PInvert => inverse st | _ => st end.
Definition pret {V} (st : list V) (o : pop) : option (list V) := match o with PInverse => Some (inverse st) | _ => None end.
(* per call: the object's vertex list after the call, and the vertex list of the returned polygon *)
Fixpoint ptrace {V} (st : list V) (h : list pop) : list (list V * option (list V)) :=
  match h with
  | [] => []
  | o :: r => (pstep st o, pret st o) :: ptrace (pstep st o) r
  end.

(* Arc.get_next_intersection as a function of abstract geometry (what the translated code, Gen/GenC17imp.v, is proved
   equal to): isect = Arc.intersection, keep = the two `!=` end-point tests, sort_res = sorted(res, key=dist),
   peq = SCoordinate.__eq__. *)
Section NextSpec.
  Context {P ARC : Type} (isect : ARC -> ARC -> option P) (keep : ARC -> ARC -> P -> bool)
          (sort_res : ARC -> list (P * ARC) -> list (P * ARC)) (peq : P -> P -> bool).
  Definition gni_res (self : ARC) (arcs : list ARC) : list (P * ARC) :=
    flat_map (fun arc => match isect self arc with
                         | Some x => if keep self arc x then [(x, arc)] else []
                         | None => []
                         end) arcs.
  Fixpoint gni_find (known : option P) (take_next : bool) (l : list (P * ARC)) : option (P * ARC) :=
    match l with
    | [] => None
    | e :: r =>
        match known with
        | None => Some e
        | Some k => if peq k (fst e) then gni_find known true r
                    else if take_next then Some e else gni_find known take_next r
        end
    end.
  Definition gni (self : ARC) (arcs : list ARC) (known : option P) : option P * option ARC :=
    match gni_find known false (sort_res self (gni_res self arcs)) with
    | Some e => (Some (fst e), Some (snd e))
    | None => (None, None)
    end.
End NextSpec.

(* the abstract geometry of [gni] instantiated with the crossing table of the walk: arcs are edge indices of the other
   polygon, points are table rows *)
Section TableInst.
  Context {T : Type} (OP : ops T) (A : @arrangement T) (side : bool).
  (* sorted(res, key=dist) on (crossing, other edge) pairs: stable insertion sort on the crossing's distance *)
  Fixpoint insert_pair (p : @xing T * Z) (l : list (@xing T * Z)) : list (@xing T * Z) :=
    match l with
    | [] => [p]
    | q :: r => if ltb OP (xd side (fst p)) (xd side (fst q)) then p :: l else q :: insert_pair p r
    end.
  Definition sort_pairs (l : list (@xing T * Z)) : list (@xing T * Z) := fold_right insert_pair [] l.
  Definition tab_isect (e eo : Z) : option (@xing T) := find_xing A side e eo.
  Definition tab_keep (e eo : Z) (x : @xing T) : bool := true.      (* the table holds the crossings that passed the tests *)
  Definition tab_peq (k x : @xing T) : bool := xid x =? xid k.
End TableInst.
