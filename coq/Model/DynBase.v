(* C14: what the regenerated definitions of Gen/GenC14.v need to exist beforehand.
   [aou] stands for pyproj's AreaOfUse as returned by DynamicAreaDefinition._get_crs_area_of_use
   (an oracle value: only west/east are consulted by the code). *)
From Coq Require Import ZArith.
From PR Require Import Base.Num.

Record aou_t (T : Type) := mk_aou { aou_west : T; aou_east : T }.
Arguments mk_aou {T}. Arguments aou_west {T}. Arguments aou_east {T}.

(* self._get_crs_area_of_use(projection): in the model the projection argument IS its area of use *)
Definition aou_of {T} (a : aou_t T) : aou_t T := a.
