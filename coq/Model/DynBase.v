(* C14: what the regenerated definitions of Gen/GenC14.v need to exist beforehand.
   [aou] stands for pyproj's AreaOfUse as returned by DynamicAreaDefinition._get_crs_area_of_use
   (an oracle value: only west/east are consulted by the code). *)
From Coq Require Import ZArith List.
From PR Require Import Base.Num.
Import ListNotations.

Record aou_t (T : Type) := mk_aou { aou_west : T; aou_east : T }.
Arguments mk_aou {T}. Arguments aou_west {T}. Arguments aou_east {T}.

(* self._get_crs_area_of_use(projection): in the model the projection argument IS its area of use *)
Definition aou_of {T} (a : aou_t T) : aou_t T := a.

(* crs.is_geographic (PROJ oracle) as consulted by _compute_bound_centers *)
Record crs_t := mk_crs { crs_geo : bool }.

(* np.nanmin / np.nanmax over a float array seen as a list: NaNs ignored; NaN when nothing is left *)
Section NanMinMax.
  Context {T : Type} (OP : ops T).
  Fixpoint nanmin_o (l : list T) : option T :=
    match l with
    | [] => None
    | x :: r => let m := nanmin_o r in
                if isnan OP x then m else match m with None => Some x | Some y => Some (if ltb OP y x then y else x) end
    end.
  Fixpoint nanmax_o (l : list T) : option T :=
    match l with
    | [] => None
    | x :: r => let m := nanmax_o r in
                if isnan OP x then m else match m with None => Some x | Some y => Some (if ltb OP x y then y else x) end
    end.
  Definition nanmin (l : list T) : T := match nanmin_o l with Some v => v | None => nan OP end.
  Definition nanmax (l : list T) : T := match nanmax_o l with Some v => v | None => nan OP end.
End NanMinMax.
