(* C11: the two pieces of Model/Grid.v the translated kernels of _subset.py refer to.  Definitions only. *)
From Coq Require Import ZArith Bool.
From PR Require Import Base.Num Model.Grid.
Open Scope Z_scope.

(* AreaDefinition.area_extent = (xmin, ymin, xmax, ymax) *)
Definition aext {T} (a : area T) : T * T * T * T := (xmin a, ymin a, xmax a, ymax a).

Section CropBase.
  Context {T : Type} (OP : ops T).
  (* get_array_coordinates_from_projection_coordinates([x0, x1], [y0, y1]) -> (cols, rows), element by element *)
  Definition acoords2 (a : area T) (xs ys : T * T) : (T * T) * (T * T) :=
    ((arr_of_proj_x OP a (fst xs), arr_of_proj_x OP a (snd xs)),
     (arr_of_proj_y OP a (fst ys), arr_of_proj_y OP a (snd ys))).
End CropBase.

(* AreaSlicer seen from _sanitize_polygon_bounds: the slicer object is its area_to_crop; area.shape = (height, width) *)
Definition crop_area {T} (a : area T) : area T := a.
Definition ashape {T} (a : area T) : Z * Z := (height a, width a).
