(* C09: gradient search (pyresample/gradient/_gradient_search.pyx, gradient/__init__.py) and the
   resample_blocks path it runs in (resampler.py).  Definitions only, written once over [ops T].

   Arrays are index-defined ([Z -> Z -> T], rows = lines [l], columns = pixels [p]); "no value"
   (the NaN the code leaves in the output) is [None].  The source cropping of a target block
   (slicer.py / crop_source_area, property C11) is a Section variable, not modelled here. *)
From Coq Require Import ZArith List Bool.
From PR Require Import Base.Num Base.Slice Model.Blockwise.
Import ListNotations.
Open Scope Z_scope.

(* source coordinates and their np.gradient along lines (l) and pixels (p) *)
Record fields (T : Type) := mk_fields {
  f_sx : Z -> Z -> T; f_sy : Z -> Z -> T;
  f_xl : Z -> Z -> T; f_xp : Z -> Z -> T;
  f_yl : Z -> Z -> T; f_yp : Z -> Z -> T }.
Arguments mk_fields {T}. Arguments f_sx {T}. Arguments f_sy {T}. Arguments f_xl {T}.
Arguments f_xp {T}. Arguments f_yl {T}. Arguments f_yp {T}.

Inductive outcome (T : Type) := Conv (l0 p0 : Z) (dl dp : T) | NoConv.
Arguments Conv {T}. Arguments NoConv {T}.

(* a 2-D numpy array seen by the element-wise interpolators: its shape[-2:] and its elements *)
Record arr2 (T : Type) := mk_arr2 { arr_shape : Z * Z; arr_get : Z -> Z -> T }.
Arguments mk_arr2 {T}. Arguments arr_shape {T}. Arguments arr_get {T}.

Record sstate := mk_st { s_l0 : Z; s_p0 : Z; s_last_l0 : Z; s_last_p0 : Z }.

Section Gradient.
  Context {T : Type} (OP : ops T).

  Definition zeroT : T := ofZ OP 0.
  Definition oneT : T := ofZ OP 1.
  (* libc isinf *)
  Definition is_inf (x : T) : bool := negb (isfinite OP x) && negb (isnan OP x).
  (* the C cast (int)x of a double: truncation; out of range / NaN give INT_MIN on x86-64 (cvttsd2si) *)
  Definition int_min : Z := - 2 ^ 31.
  Definition c_int (x : T) : Z :=
    if isfinite OP x then
      let z := truncZ OP x in if (int_min <=? z) && (z <? 2 ^ 31) then z else int_min
    else int_min.
  (* lmax >= l0 >= 0 and pmax >= p0 >= 0 *)
  Definition in_image (lmax pmax l0 p0 : Z) : bool := (l0 <=? lmax) && (0 <=? l0) && (p0 <=? pmax) && (0 <=? p0).
  (* max(0, min(hi, v)) *)
  Definition clampZ (hi v : Z) : Z := Z.max 0 (Z.min hi v).
  (* 0 <= dl + l0 <= lmax and 0 <= dp + p0 <= pmax *)
  Definition in_range (lmax pmax l0 p0 : Z) (dl dp : T) : bool :=
    leb OP zeroT (add OP dl (ofZ OP l0)) && leb OP (add OP dl (ofZ OP l0)) (ofZ OP lmax) &&
    leb OP zeroT (add OP dp (ofZ OP p0)) && leb OP (add OP dp (ofZ OP p0)) (ofZ OP pmax).

  (* numpy element-wise primitives used by gradient/__init__.py *)
  Definition nan_to_num (x : T) (copy : Z) : T := if isnan OP x then ofZ OP 0 else x.   (* np.nan_to_num(x, copy): NaN -> 0.0 *)
  Definition modfT (y : T) : T * T := (sub OP y (ofZ OP (truncZ OP y)), ofZ OP (truncZ OP y)).   (* np.modf: (fractional, integral) *)
  Definition whereT (c : bool) (x y : T) : T := if c then x else y.
  Definition rintT (x : T) : T := ofZ OP (rintZ OP x).                                            (* np.rint, as a float *)
  Definition clipF (v lo hi : T) : T := fmin OP (fmax OP v lo) hi.                                (* np.clip on floats *)

  (* np.gradient along one axis of length n (unit spacing, edge_order 1): central differences, one-sided at the two ends *)
  Definition np_gradient1 (n : Z) (f : Z -> T) (i : Z) : T :=
    if i =? 0 then sub OP (f 1) (f 0)
    else if i =? n - 1 then sub OP (f (n - 1)) (f (n - 2))
    else div OP (sub OP (f (i + 1)) (f (i - 1))) (ofZ OP 2).
  (* _get_coordinates_in_same_projection for an n_l x n_p source: np.gradient(src_x, axis=[0, 1]), np.gradient(src_y, axis=[0, 1]) *)
  Definition fields_of_coords (n_l n_p : Z) (sx sy : Z -> Z -> T) : fields T :=
    mk_fields sx sy
      (fun l p => np_gradient1 n_l (fun l' => sx l' p) l) (fun l p => np_gradient1 n_p (fun p' => sx l p') p)
      (fun l p => np_gradient1 n_l (fun l' => sy l' p) l) (fun l p => np_gradient1 n_p (fun p' => sy l p') p).

  (* ---------------- the three kernels [fun] ---------------- *)
  (* indices_xy: res[0] = dp + p0 (x), res[1] = dl + l0 (y) *)
  Definition idx_kern (l0 p0 : Z) (dl dp : T) : T * T := (add OP dp (ofZ OP p0), add OP dl (ofZ OP l0)).
  Definition half : T := lit OP 1 (-1).
  (* nn: the one-axis choice *)
  Definition nn_axis (l0 : Z) (dl : T) (lmax : Z) : Z :=
    if ltb OP dl (neg OP half) && (0 <? l0) then l0 - 1
    else if ltb OP half dl && (l0 <? lmax) then l0 + 1
    else l0.
  Definition nn_kern (D : Z -> Z -> T) (lmax pmax l0 p0 : Z) (dl dp : T) : T :=
    D (nn_axis l0 dl lmax) (nn_axis p0 dp pmax).
  (* bil: (l_a, l_b, w_l) of one axis *)
  Definition bil_axis (l0 : Z) (dl : T) (lmax : Z) : Z * Z * T :=
    if ltb OP dl zeroT then (Z.max 0 (l0 - 1), l0, add OP oneT dl)
    else (l0, Z.min (l0 + 1) lmax, dl).
  (* the four-term sum, in the evaluation order of the source *)
  Definition bil_sum (w_l w_p vaa vab vba vbb : T) : T :=
    add OP (add OP (add OP
      (mul OP (mul OP (sub OP oneT w_l) (sub OP oneT w_p)) vaa)
      (mul OP (mul OP (sub OP oneT w_l) w_p) vab))
      (mul OP (mul OP w_l (sub OP oneT w_p)) vba))
      (mul OP (mul OP w_l w_p) vbb).
  Definition bil_kern (D : Z -> Z -> T) (lmax pmax l0 p0 : Z) (dl dp : T) : T :=
    let '(l_a, l_b, w_l) := bil_axis l0 dl lmax in
    let '(p_a, p_b, w_p) := bil_axis p0 dp pmax in
    bil_sum w_l w_p (D l_a p_a) (D l_a p_b) (D l_b p_a) (D l_b p_b).

  (* ---------------- one_step_gradient_search_no_gil ---------------- *)
  Section Search.
    Context {A : Type}.
    Variable F : fields T.
    Variables lmax pmax : Z.
    Variable kern : Z -> Z -> T -> T -> A.

    (* the [while True] loop of one target pixel; [fuel] = 5 - cnt body executions left *)
    Fixpoint newton (tx ty : T) (fuel : nat) (l0 p0 : Z) : outcome T :=
      match fuel with
      | O => NoConv                                   (* cnt > 5: algorithm does not converge *)
      | S k =>
        if in_image lmax pmax l0 p0 then
          let dx := sub OP tx (f_sx F l0 p0) in
          let dy := sub OP ty (f_sy F l0 p0) in
          let d := sub OP (mul OP (f_yl F l0 p0) (f_xp F l0 p0)) (mul OP (f_yp F l0 p0) (f_xl F l0 p0)) in
          if eqb OP d zeroT then newton tx ty k l0 p0   (* no gradient: try again *)
          else
            let dl := div OP (sub OP (mul OP (f_xp F l0 p0) dy) (mul OP (f_yp F l0 p0) dx)) d in
            let dp := div OP (sub OP (mul OP (f_yl F l0 p0) dx) (mul OP (f_xl F l0 p0) dy)) d in
            if ltb OP (absf OP dp) oneT && ltb OP (absf OP dl) oneT then Conv l0 p0 dl dp
            else newton tx ty k (c_int (add OP (ofZ OP l0) dl)) (c_int (add OP (ofZ OP p0) dp))
        else newton tx ty k (clampZ lmax l0) (clampZ pmax p0)
      end.

    Definition pixel (st : sstate) (t : T * T) : sstate * option A :=
      if is_inf (fst t) then (st, None)
      else match newton (fst t) (snd t) 5 (s_l0 st) (s_p0 st) with
           | NoConv => (mk_st (s_last_l0 st) (s_last_p0 st) (s_last_l0 st) (s_last_p0 st), None)
           | Conv l0 p0 dl dp =>
               (mk_st l0 p0 l0 p0, if in_range lmax pmax l0 p0 dl dp then Some (kern l0 p0 dl dp) else None)
           end.

    (* one target row, pixels visited in the order [js] *)
    Fixpoint scan_row (dst : Z -> T * T) (st : sstate) (js : list Z) : sstate * list (option A) :=
      match js with
      | [] => (st, [])
      | j :: r => let '(st1, o) := pixel st (dst j) in
                  let '(st2, os) := scan_row dst st1 r in (st2, o :: os)
      end.
    (* rows top to bottom, column direction swapped for every row (zig-zag); the image row is in column order *)
    Fixpoint scan_rows (dst : Z -> Z -> T * T) (W : Z) (st : sstate) (fwd : bool) (rows : list Z)
      : list (list (option A)) :=
      match rows with
      | [] => []
      | i :: r =>
          let js := if fwd then zrange 0 W else rev (zrange 0 W) in
          let '(st', res) := scan_row (dst i) st js in
          (if fwd then res else rev res) :: scan_rows dst W st' (negb fwd) r
      end.
    Definition init_state : sstate :=
      mk_st (Z.quot lmax 2) (Z.quot pmax 2) (Z.quot lmax 2) (Z.quot pmax 2).
    Definition search (dst : Z -> Z -> T * T) (H W : Z) : list (list (option A)) :=
      scan_rows dst W init_state true (zrange 0 H).
  End Search.

  (* ---------------- gradient/__init__.py on one (target block, source crop) pair ---------------- *)
  Definition shift2 {B} (f : Z -> Z -> B) (oy ox : Z) : Z -> Z -> B := fun l p => f (l + oy) (p + ox).
  Definition shift_fields (F : fields T) (oy ox : Z) : fields T :=
    mk_fields (shift2 (f_sx F) oy ox) (shift2 (f_sy F) oy ox) (shift2 (f_xl F) oy ox)
              (shift2 (f_xp F) oy ox) (shift2 (f_yl F) oy ox) (shift2 (f_yp F) oy ox).

  (* gradient_resampler_indices with block_info: indices on the cropped source, then += slice starts *)
  Definition add_offset (ys xs : pslice) (xy : T * T) : T * T :=
    (add OP (fst xy) (ofZ OP (sstart xs)), add OP (snd xy) (ofZ OP (sstart ys))).
  Definition gradient_resampler_indices (Fc : fields T) (ys xs : pslice) (dst : Z -> Z -> T * T) (rs cs : pslice)
    : list (list (option (T * T))) :=
    let raw := search Fc (slen ys - 1) (slen xs - 1) idx_kern
                      (fun i j => dst (sstart rs + i) (sstart cs + j)) (slen rs) (slen cs) in
    map (map (option_map (add_offset ys xs))) raw.

  (* _get_mask_and_adjusted_indices: (mask, x, y) *)
  Definition mask_adjust (ys xs : pslice) (o : option (T * T)) : bool * T * T :=
    match o with
    | None => (true, zeroT, zeroT)
    | Some xy => (false, sub OP (fst xy) (ofZ OP (sstart xs)), sub OP (snd xy) (ofZ OP (sstart ys)))
    end.
  Definition clipZ (v lo hi : Z) : Z := Z.min (Z.max v lo) hi.       (* np.clip = minimum(maximum(v, lo), hi) *)
  Definition clipT (v lo hi : T) : T := fmin OP (fmax OP v lo) hi.
  (* block_nn_interpolator, one pixel; n_l x n_p = shape of the cropped data *)
  Definition block_nn (Dc : Z -> Z -> T) (n_l n_p : Z) (x y : T) : T :=
    Dc (clipZ (rintZ OP y) 0 (n_l - 1)) (clipZ (rintZ OP x) 0 (n_p - 1)).
  (* block_bilinear_interpolator, one axis: modf(clip(y, 0, n-1)); l_end = clip(l_start + 1, 1, n-1) *)
  Definition block_bil_axis (n : Z) (y : T) : Z * Z * T :=
    let yc := clipT y zeroT (ofZ OP (n - 1)) in
    let l_start := truncZ OP yc in
    (l_start, clipZ (l_start + 1) 1 (n - 1), sub OP yc (ofZ OP l_start)).
  Definition block_bil (Dc : Z -> Z -> T) (n_l n_p : Z) (x y : T) : T :=
    let '(l_start, l_end, w_l) := block_bil_axis n_l y in
    let '(p_start, p_end, w_p) := block_bil_axis n_p x in
    bil_sum w_l w_p (Dc l_start p_start) (Dc l_start p_end) (Dc l_end p_start) (Dc l_end p_end).

  Definition interp_block (core : (Z -> Z -> T) -> Z -> Z -> T -> T -> T) (D : Z -> Z -> T) (ys xs : pslice)
             (idx : list (list (option (T * T)))) : list (list (option T)) :=
    map (map (fun o => let '(m, x, y) := mask_adjust ys xs o in
                       if m then None
                       else Some (core (shift2 D (sstart ys) (sstart xs)) (slen ys) (slen xs) x y))) idx.

  (* ---------------- the legacy stacking path: parallel_gradient_search + _concatenate_chunks ----------------
     every source chunk (a crop (y_slice, x_slice) of the source) that is co-located with a target block is searched
     separately with the Cython kernel on its own data; the results are stacked and reduced with np.nanmax *)
  Definition omax (u v : option T) : option T :=
    match u, v with
    | None, x => x
    | x, None => x
    | Some p, Some q => Some (fmax OP p q)
    end.
  Definition stack2 (x y : list (list (option T))) : list (list (option T)) := map2 (map2 omax) x y.
  Definition legacy_contribution (F : fields T) (D : Z -> Z -> T) (dst : Z -> Z -> T * T) (rs cs : pslice) (c : pslice * pslice)
    : list (list (option T)) :=
    let '(ys, xs) := c in
    search (shift_fields F (sstart ys) (sstart xs)) (slen ys - 1) (slen xs - 1)
           (bil_kern (shift2 D (sstart ys) (sstart xs)) (slen ys - 1) (slen xs - 1))
           (fun i j => dst (sstart rs + i) (sstart cs + j)) (slen rs) (slen cs).
  Definition legacy_stack (F : fields T) (D : Z -> Z -> T) (dst : Z -> Z -> T * T) (rs cs : pslice) (crops : list (pslice * pslice))
    : list (list (option T)) :=
    fold_right (fun c acc => stack2 (legacy_contribution F D dst rs cs c) acc)
               (tab (fun _ _ => None) (sstart rs) (slen rs) (sstart cs) (slen cs)) crops.

  (* ---------------- resample_blocks over a block decomposition of the target ---------------- *)
  Section Blocks.
    Variable Fc : pslice -> pslice -> fields T.                      (* coordinates/gradients of source[y_slice, x_slice] *)
    Variable crop : pslice -> pslice -> option (pslice * pslice).    (* crop_source_area of the target block (rows, cols):
                                                                        (y_slice, x_slice), None = IncompatibleAreas *)
    Variable dst : Z -> Z -> T * T.                                  (* target pixel centres in the source CRS *)
    Variable D : Z -> Z -> T.                                        (* one band of the source data *)
    Variable core : (Z -> Z -> T) -> Z -> Z -> T -> T -> T.

    Definition nan_block {B} (rs cs : pslice) : list (list (option B)) :=
      tab (fun _ _ => None) (sstart rs) (slen rs) (sstart cs) (slen cs).
    (* precompute(): resample_blocks(gradient_resampler_indices_block, ...) *)
    Definition indices_block (rs cs : pslice) : list (list (option (T * T))) :=
      match crop rs cs with
      | None => nan_block rs cs
      | Some (ys, xs) => gradient_resampler_indices (Fc ys xs) ys xs dst rs cs
      end.
    (* compute(): resample_blocks(interpolator, ..., dst_arrays=[indices_xy]) *)
    Definition result_block (rs cs : pslice) : list (list (option T)) :=
      match crop rs cs with
      | None => nan_block rs cs
      | Some (ys, xs) => interp_block core D ys xs (indices_block rs cs)
      end.
    Definition resample (rows cols : list Z) : list (list (option T)) := assemble rows cols result_block.
  End Blocks.
End Gradient.

(* ---------------- dask graphs: resample_blocks names its tasks (name, *position); computing several lazy arrays in one
   dask computation merges their graphs (dict union, first binding kept here) and reads every array's blocks back by key *)
Definition gkey : Type := (Z * (Z * Z))%type.                       (* (name token, block position) *)
Definition gkey_eqb (a b : gkey) : bool := (fst a =? fst b) && (fst (snd a) =? fst (snd b)) && (snd (snd a) =? snd (snd b)).
Fixpoint glookup {V} (g : list (gkey * V)) (k : gkey) : option V :=
  match g with
  | [] => None
  | (k', v) :: r => if gkey_eqb k' k then Some v else glookup r k
  end.
(* the graph of one lazy result: one task per block position, all under the array's name *)
Definition graph_of {V} (name : Z) (blocks : list ((Z * Z) * V)) : list (gkey * V) := map (fun pv => ((name, fst pv), snd pv)) blocks.
(* the blocks of the array called [name] as read from a (merged) graph *)
Definition read_array {V} (g : list (gkey * V)) (name : Z) (positions : list (Z * Z)) : list (option V) :=
  map (fun p => glookup g (name, p)) positions.

(* ---------------- a source area that is itself a slice (of a slice ...) of a bigger area: big[r0:, c0:][r1:, c1:]... ----------------
   its coordinate arrays are the big area's, read from the accumulated start on *)
Definition slice_steps {T} (F : fields T) (steps : list (Z * Z)) : fields T :=
  fold_left (fun G s => shift_fields G (fst s) (snd s)) steps F.
Definition steps_start (steps : list (Z * Z)) : Z * Z := fold_left (fun acc s => (fst acc + fst s, snd acc + snd s)) steps (0, 0).
