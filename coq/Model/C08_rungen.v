(* executable wrapper over the GENERATED pieces of ll2cr (Gen/GenC08.v): the parameters from ewa.py:ll2cr and the element
   loop body from _ll2cr.pyx:ll2cr_static; binary64, bit-exact (C08) *)
From Coq Require Import ZArith List Bool PrimFloat.
From PR Require Import Base.Num Base.F64 Base.ListX Base.Slice Base.Imp Model.Grid Model.EWA Model.C08_run Gen.GenC08 Gen.GenC08imp.
Import ListNotations.
Open Scope Z_scope.

(* the whole loop of ll2cr_static: the generated body for every point + the count *)
Definition ll2cr_static_src {T} (OP : ops T) (p : cr_params) (fill : T) (pts : list (T * T)) : Z * list (T * T) :=
  let res := map (fun xy => gen_ll2cr_body OP (fst xy) (snd xy) fill (cp_cw p) (cp_ch p) (cp_w p) (cp_h p) (cp_ox p) (cp_oy p)) pts in
  (count_true (map snd res), map fst res).

Definition chk_ll2cr_gen (c : ll_case) : bool :=
  let '(a, fill, pts, n) := c in
  let '(cnt, out) := ll2cr_static_src F64 (params_of_tuple (gen_ll2cr_params F64 a)) fill (map fst pts) in
  (cnt =? n) && list_eqb (fun m e => same_bits (fst m) (fst e) && same_bits (snd m) (snd e)) out (map snd pts).

(* ---- the GENERATED imperative definitions (Gen/GenC08imp.v) run against the implementation *)
(* _generate_fornav_dask_tasks: the task dictionary in insertion order; task name / input name / area / fill / kwargs are
   the tokens 7, 0, 0, 0, 0; an ll2cr block is ((0, in_row, in_col), token) *)
Definition task_item := (Z * Z * Z * (Z * Z) * (Z * Z) * (Z * Z) * Z)%type.   (* z, out_row, out_col, y span, x span, (in_row, in_col), block token *)
Definition chk_imp_tasks (c : list Z * list Z * list (Z * Z * Z) * list task_item) : bool :=
  let '(ych, xch, blocks, items) := c in
  match value_of (imp_fornav_tasks (ych, xch) (map (fun b => let '(ir, ic, tok) := b in ((0, ir, ic), tok)) blocks) 7 0 0 0 0) with
  | COk d =>
      list_eqb (fun (e : tkey * (Z * pslice * pslice * (Z * Z))) (it : task_item) =>
                  let '(z, orow, ocol, (y0, y1), (x0, x1), (ir, ic), tok) := it in
                  let '(k, (b, ys, xs, (ir', ic'))) := e in
                  tkey_eqb k (7, z, orow, ocol) && (b =? tok) && (sstart ys =? y0) && (sstop ys =? y1) && (sstart xs =? x0) && (sstop xs =? x1)
                  && (ir' =? ir) && (ic' =? ic)) d items
  | _ => false
  end.
(* _get_rows_per_scan(keyword) with the lon/lat attrs: None = ValueError *)
Definition chk_imp_rps (c : option Z * option Z * Z * option Z) : bool :=
  let '(kw, attr, n, e) := c in
  match value_of (imp_get_rows_per_scan kw true true attr n), e with
  | COk v, Some x => v =? x
  | CRaised, None => true
  | _, _ => false
  end.
