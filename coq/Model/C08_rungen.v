(* executable wrapper over the GENERATED pieces of ll2cr (Gen/GenC08.v): the parameters from ewa.py:ll2cr and the element
   loop body from _ll2cr.pyx:ll2cr_static; binary64, bit-exact (C08) *)
From Coq Require Import ZArith List Bool PrimFloat.
From PR Require Import Base.Num Base.F64 Base.ListX Model.Grid Model.EWA Model.C08_run Gen.GenC08.
Import ListNotations.
Open Scope Z_scope.

(* the whole loop of ll2cr_static: the generated body for every point + the count *)
Definition ll2cr_static_src {T} (OP : ops T) (p : cr_params) (fill : T) (pts : list (T * T)) : Z * list (T * T) :=
  let res := map (fun xy => gen_ll2cr_body OP (fst xy) (snd xy) fill (cp_cw p) (cp_ch p) (cp_w p) (cp_h p) (cp_ox p) (cp_oy p)) pts in
  (count_true (map snd res), map fst res).

Definition chk_ll2cr_gen (c : ll_case) : bool :=
  let '(a, fill, pts, n) := c in
  let '(cnt, out) := ll2cr_static_src F64 (params_of_tuple (gen_ll2cr_params F64 a)) fill (map fst pts) in
  (cnt =? n) && list_eqb (fun m e => same_bits (fst m) (fst e) && same_bits (snd m) (snd e)) out (map snd pts).
