(* executable wrapper over the GENERATED ll2cr parameters (Gen/GenC08.v): binary64, bit-exact (C08) *)
From Coq Require Import ZArith List Bool PrimFloat.
From PR Require Import Base.Num Base.F64 Base.ListX Model.Grid Model.EWA Model.C08_run Gen.GenC08.
Import ListNotations.
Open Scope Z_scope.

Definition chk_ll2cr_gen (c : ll_case) : bool :=
  let '(a, fill, pts, n) := c in
  let '(cnt, out) := ll2cr_static F64 (params_of_tuple (gen_ll2cr_params F64 a)) fill (map fst pts) in
  (cnt =? n) && list_eqb (fun m e => same_bits (fst m) (fst e) && same_bits (snd m) (snd e)) out (map snd pts).
