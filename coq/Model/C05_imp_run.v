(* run the dimension checks translated from /repo (Gen/GenC05imp.v) against what the implementation did *)
From Coq Require Import ZArith List Bool.
From PR Require Import Base.ListX Base.Imp Model.BlockwiseValid Gen.GenC05imp.
Import ListNotations.
Open Scope Z_scope.

(* (resampler: true = legacy XArrayResamplerNN, false = future; data dims; data shape; geometry dims; source shape;
    is the source a swath; (y, x) names; accepted = the call did not raise) *)
Definition chk_imp_dims_ok (c : bool * list Z * list Z * list Z * list Z * bool * (Z * Z) * bool) : bool :=
  let '(legacy, dims, shape, geo, src_shape, is_swath, (y, x), accepted) := c in
  let data := mk_darr dims shape in
  if legacy then
    match value_of (imp_get_valid_dims data is_swath geo y x) with
    | COk r => accepted && list_eqb Z.eqb (fst r) geo && list_eqb Z.eqb (snd r) [y; x]
    | CRaised => negb accepted
    | CFuel => false
    end
  else
    match state_of (imp_verify_data_geo_dims data geo src_shape) with
    | COk _ => accepted
    | CRaised => negb accepted
    | CFuel => false
    end.
