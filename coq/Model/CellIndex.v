(* C18 - the five functions of pyresample that place a projected point (x, y) on the grid of an
   AreaDefinition, written once over the arithmetic record (operation order = the code's, so the
   binary64 instance is bit-exact).  PROJ is an oracle: x, y are inputs.

     area_*    geometry.py  masked_ints(get_array_coordinates_from_projection_coordinates)
               = get_array_indices_from_lonlat / get_array_indices_from_projection_coordinates
     grid_*    grid.py      get_linesample + the validity masks of get_image_from_linesample
               (also reached by get_image_from_lonlats, get_resampled_image, ImageContainerQuick.resample)
     gf_*      geo_filter.py GridFilter.get_valid_index
     bk_*      bucket/__init__.py BucketResampler._get_indices (x_idxs / y_idxs)
     ll_*      ewa/ewa.py ll2cr + the loop body of ewa/_ll2cr.pyx ll2cr_static

   Definitions only. *)
From Coq Require Import ZArith Bool List.
From PR Require Import Base.Num Model.Grid.
Import ListNotations.
Open Scope Z_scope.

(* ndarray.astype(intN) of a float holding an integral value, as numpy does it on x86-64 (cvttsd2si):
   a value that does not fit yields the "integer indefinite" value -2^(N-1); so do NaN and +-inf. *)
Definition int_min (bits : Z) : Z := - 2 ^ (bits - 1).
Definition wrap_int (bits z : Z) : Z :=
  if (int_min bits <=? z) && (z <? 2 ^ (bits - 1)) then z else int_min bits.
Definition in_range (n i : Z) : bool := (0 <=? i) && (i <? n).

(* utils._downcast_index_array(index_array, size): for size <= 65535 out-of-range indices (negative or >= size) are
   replaced by the sentinel [size] and the array is cast to uint16 (C cast = reduction mod 2^16); larger axes keep int32.
   [downcast_with false] is the variant without the `index_array < 0` part of the mask (refuted in the proofs). *)
Definition uint16_max : Z := 65535.        (* np.iinfo(np.uint16).max *)
Definition downcast_with (mask_negative : bool) (size idx : Z) : Z :=
  if size <=? 65535 then
    (if (mask_negative && (idx <? 0)) || (size <=? idx) then size else idx) mod 65536
  else idx.
Definition downcast := downcast_with true.

Section CellIndex.
  Context {T : Type} (OP : ops T).
  Let two := ofZ OP 2.

  Definition half : T := lit OP 1 (-1).
  Definition one : T := ofZ OP 1.
  (* 0.02 as a binary64 literal = 0x1.47ae147ae147bp-6 *)
  Definition eps_mi : T := lit OP 5764607523034235 (-58).
  (* 1e30 as a binary64 literal = 0x1.93e5939a08ceap+99 *)
  Definition big_1e30 : T := lit OP 7105427357601002 47.

  (* np.floor(v).astype(intN) / np.round(v).astype(int) / v.astype(intN) *)
  Definition to_int (bits : Z) (toZ : T -> Z) (v : T) : Z :=
    if isfinite OP v then wrap_int bits (toZ v) else int_min bits.

  (* np.clip(v, lo, hi) = minimum(maximum(v, lo), hi); NaN propagates *)
  Definition clipf (v lo hi : T) : T := fmin OP (fmax OP v lo) hi.

  (* ---------------------------------------------------------------- geometry.masked_ints *)
  (*  x_mask = (x__ < -0.5 - epsilon) | (x__ > self.width - 0.5 + epsilon) | np.isnan(x__)  *)
  Definition mi_mask (n : Z) (v : T) : bool :=
    ltb OP v (sub OP (neg OP half) eps_mi)
    || ltb OP (add OP (sub OP (ofZ OP n) half) eps_mi) v
    || isnan OP v.
  (*  x__ = np.round(np.clip(x__, 0, self.width - 1)).astype(int)  *)
  Definition mi_index (n : Z) (v : T) : Z := to_int 64 (rintZ OP) (clipf v (ofZ OP 0) (ofZ OP (n - 1))).

  Definition area_col_mask (a : area T) (x : T) : bool := mi_mask (width a) (arr_of_proj_x OP a x).
  Definition area_row_mask (a : area T) (y : T) : bool := mi_mask (height a) (arr_of_proj_y OP a y).
  Definition area_col (a : area T) (x : T) : Z := mi_index (width a) (arr_of_proj_x OP a x).
  Definition area_row (a : area T) (y : T) : Z := mi_index (height a) (arr_of_proj_y OP a y).
  Definition area_cell (a : area T) (x y : T) : option (Z * Z) :=
    if area_col_mask a x || area_row_mask a y then None else Some (area_row a y, area_col a x).

  (* ---------------------------------------------------------------- grid.get_linesample *)
  (* [toZ] is np.floor in the code (after the `fix: floor instead of truncation` commit); the former code truncated. *)
  Definition grid_col_with (toZ : T -> Z) (a : area T) (x : T) : Z :=
    to_int 32 toZ (add OP (pixel_offset_x OP a) (div OP x (pixel_size_x OP a))).
  Definition grid_row_with (toZ : T -> Z) (a : area T) (y : T) : Z :=
    to_int 32 toZ (sub OP (pixel_offset_y OP a) (div OP y (pixel_size_y OP a))).
  (* get_image_from_linesample: row_mask * col_mask against the image shape (= the area's shape) *)
  Definition cell_of (a : area T) (r c : Z) : option (Z * Z) :=
    if in_range (height a) r && in_range (width a) c then Some (r, c) else None.
  Definition grid_cell_with (toZ : T -> Z) (a : area T) (x y : T) : option (Z * Z) :=
    cell_of a (grid_row_with toZ a y) (grid_col_with toZ a x).
  Definition grid_col := grid_col_with (floorZ OP).
  Definition grid_row := grid_row_with (floorZ OP).
  Definition grid_cell := grid_cell_with (floorZ OP).
  Definition grid_cell_trunc := grid_cell_with (truncZ OP).

  (* ---------------------------------------------------------------- utils.generate_quick_linesample_arrays
     = get_linesample + _downcast_index_array per axis; consumed by ImageContainer.get_array_from_linesample
     (= get_image_from_linesample: the same validity masks) *)
  Definition quick_row (a : area T) (y : T) : Z := downcast (height a) (grid_row a y).
  Definition quick_col (a : area T) (x : T) : Z := downcast (width a) (grid_col a x).
  Definition quick_cell (a : area T) (x y : T) : option (Z * Z) := cell_of a (quick_row a y) (quick_col a x).
  Definition quick_cell_unmasked (a : area T) (x y : T) : option (Z * Z) :=
    cell_of a (downcast_with false (height a) (grid_row a y)) (downcast_with false (width a) (grid_col a x)).

  (* ---------------------------------------------------------------- GridFilter.get_valid_index *)
  Definition gf_col_with (toZ : T -> Z) (a : area T) (x : T) : Z :=
    to_int 32 toZ (add OP (div OP x (pixel_size_x OP a)) (pixel_offset_x OP a)).
  Definition gf_row_with (toZ : T -> Z) (a : area T) (y : T) : Z :=
    to_int 32 toZ (sub OP (pixel_offset_y OP a) (div OP y (pixel_size_y OP a))).
  Definition gf_cell_with (toZ : T -> Z) (a : area T) (x y : T) : option (Z * Z) :=
    cell_of a (gf_row_with toZ a y) (gf_col_with toZ a x).
  Definition gf_cell := gf_cell_with (floorZ OP).
  Definition gf_cell_trunc := gf_cell_with (truncZ OP).

  (* ---------------------------------------------------------------- BucketResampler._get_indices *)
  Definition bk_col (a : area T) (x : T) : Z :=
    to_int 64 (floorZ OP) (div OP (sub OP x (xmin a)) (pixel_size_x OP a)).
  Definition bk_row (a : area T) (y : T) : Z :=
    to_int 64 (floorZ OP) (div OP (sub OP (ymax a) y) (pixel_size_y OP a)).
  Definition bk_cell (a : area T) (x y : T) : option (Z * Z) := cell_of a (bk_row a y) (bk_col a x).
  (* (x_idxs, y_idxs) = where(mask, idx, -1) *)
  Definition bk_xy (a : area T) (x y : T) : Z * Z :=
    match bk_cell a x y with Some (r, c) => (c, r) | None => (-1, -1) end.

  (* ---------------------------------------------------------------- ewa.ll2cr + ll2cr_static *)
  Definition ll_cw (a : area T) : T := pixel_size_x OP a.
  (* ch = -area_def.pixel_size_y: the area's own signed row scale (C08 fix; formerly -abs(pixel_size_y)) *)
  Definition ll_ch (a : area T) : T := neg OP (pixel_size_y OP a).
  Definition ll_ox (a : area T) : T := add OP (xmin a) (div OP (ll_cw a) two).
  Definition ll_oy (a : area T) : T := add OP (ymax a) (div OP (ll_ch a) two).
  Definition ll_col (a : area T) (x : T) : T := div OP (sub OP x (ll_ox a)) (ll_cw a).
  Definition ll_row (a : area T) (y : T) : T := div OP (sub OP y (ll_oy a)) (ll_ch a).
  Definition ll_in_grid (a : area T) (c r : T) : bool :=
    leb OP (neg OP one) c && leb OP c (ofZ OP (width a + 1)) &&
    leb OP (neg OP one) r && leb OP r (ofZ OP (height a + 1)).
  (* (col, row, counted in points_in_grid); x >= 1e30 is PROJ's failure marker -> fill *)
  Definition ll2cr_point (a : area T) (fill x y : T) : T * T * bool :=
    if leb OP big_1e30 x then (fill, fill, false)
    else let c := ll_col a x in let r := ll_row a y in (c, r, ll_in_grid a c r).
End CellIndex.
