(* C01 -- every accessor of an AreaDefinition, written once over the arithmetic record.
   Mirrors pyresample/geometry.py:
     _generate_1d_proj_vectors, _get_proj_vectors            -> c01_vec_x / c01_vec_y
     _generate_2d_coords (one dask block from its array-location) -> c01_block
     _proj_coords_dask (map_blocks over normalised chunks)   -> c01_assemble
     get_proj_coords (numpy path / dask path, data_slice)    -> c01_coords_numpy / c01_coords_dask
     masked_ints.wrapper                                     -> c01_area_mask / c01_area_index / c01_index_*
     get_lonlats, get_lonlat, _invproj (Transformer route)   -> c01_lonlats / c01_get_lonlat   (oracle invT)
     colrow2lonlat, get_lonlat_from_*, get_projection_coordinates_from_lonlat,
     get_array_coordinates_from_lonlat, get_array_indices_from_lonlat (_get_lonlat_transformer route;
     Proj(self.crs) before fix 9e97bafd)                     -> c01_colrow2lonlat ...          (oracles invP, fwdP)
   The affine kernels themselves live in Model/Grid.v (shared).  PROJ is an oracle (a function argument),
   never an axiom.  Definitions only; proofs are in Proofs/C01_*.v. *)
From Coq Require Import ZArith Bool List.
From PR Require Import Base.Num Model.Grid.
Import ListNotations.
Open Scope Z_scope.

Fixpoint c01_sumZ (l : list Z) : Z := match l with [] => 0 | x :: r => x + c01_sumZ r end.

(* row-wise horizontal concatenation of two 2-D arrays with the same number of rows (np.hstack / dask block placement) *)
Fixpoint c01_hcat {A} (a b : list (list A)) : list (list A) :=
  match a, b with
  | ra :: a', rb :: b' => (ra ++ rb) :: c01_hcat a' b'
  | _, _ => []
  end.

(* fancy/basic indexing by an explicit index list: the list is range(n)[slice] (numpy's semantics, computed by the harness) *)
Definition c01_select {A} (d : A) (idx : list Z) (l : list A) : list A := map (fun i => nth (Z.to_nat i) l d) idx.

Section C01.
  Context {T : Type} (OP : ops T).

  (* arange(start, end) *)
  Definition c01_range (s e : Z) : list Z := zrange s (Z.to_nat (e - s)).

  (* _generate_1d_proj_vectors((c0,c1),(r0,r1),(psx,psy),(ulx,uly)):
       x = arange(c0,c1) * psx + ulx ;  y = arange(r0,r1) * -psy + uly        (Grid.proj_x / proj_y per element) *)
  Definition c01_vec_x (a : area T) (c0 c1 : Z) : list T := map (proj_x OP a) (c01_range c0 c1).
  Definition c01_vec_y (a : area T) (r0 r1 : Z) : list T := map (proj_y OP a) (c01_range r0 r1).

  (* np.meshgrid(x, y) followed by np.stack: entry [i][j] = (x[j], y[i]) *)
  Definition c01_mesh (xs ys : list T) : list (list (T * T)) := map (fun y => map (fun x => (x, y)) xs) ys.

  (* _generate_2d_coords for the block whose array-location is rows [r0,r1) x cols [c0,c1) *)
  Definition c01_block (a : area T) (r0 r1 c0 c1 : Z) : list (list (T * T)) :=
    c01_mesh (c01_vec_x a c0 c1) (c01_vec_y a r0 r1).

  (* one row of blocks: rows [r0,r1), column chunks cch starting at column c0 *)
  Fixpoint c01_hblocks (a : area T) (r0 r1 c0 : Z) (cch : list Z) : list (list (T * T)) :=
    match cch with
    | [] => map (fun _ => []) (c01_range r0 r1)
    | n :: rest => c01_hcat (c01_block a r0 r1 c0 (c0 + n)) (c01_hblocks a r0 r1 (c0 + n) rest)
    end.
  (* da.map_blocks over (norm_y_chunks, norm_x_chunks): blocks stacked in array order *)
  Fixpoint c01_assemble (a : area T) (r0 c0 : Z) (rch cch : list Z) : list (list (T * T)) :=
    match rch with
    | [] => []
    | n :: rest => c01_hblocks a r0 (r0 + n) c0 cch ++ c01_assemble a (r0 + n) c0 rest cch
    end.

  (* get_proj_vectors() / projection_x_coords / projection_y_coords *)
  Definition c01_proj_vectors (a : area T) : list T * list T := (c01_vec_x a 0 (width a), c01_vec_y a 0 (height a)).

  Definition c01_dflt : T * T := (nan OP, nan OP).

  (* get_proj_coords(data_slice=(rows, cols)), numpy path: slice the 1-D vectors, then meshgrid *)
  Definition c01_coords_numpy (a : area T) (rows cols : list Z) : list (list (T * T)) :=
    c01_mesh (c01_select (nan OP) cols (c01_vec_x a 0 (width a))) (c01_select (nan OP) rows (c01_vec_y a 0 (height a))).
  (* get_proj_coords(data_slice, chunks=...), dask path: assemble the blocks, then slice the 2-D array *)
  Definition c01_coords_dask (a : area T) (rch cch : list Z) (rows cols : list Z) : list (list (T * T)) :=
    c01_select [] rows (map (c01_select c01_dflt cols) (c01_assemble a 0 0 rch cch)).

  (* ---- masked_ints.wrapper, per axis of length n (n = width for columns, height for rows) ---- *)
  Definition c01_eps : T := lit OP 5764607523034235 (-58).        (* the binary64 number written 0.02 *)
  Definition c01_half : T := lit OP 1 (-1).
  Definition c01_lo : T := sub OP (neg OP c01_half) c01_eps.                       (* -0.5 - epsilon *)
  Definition c01_hi (n : Z) : T := add OP (sub OP (ofZ OP n) c01_half) c01_eps.   (* n - 0.5 + epsilon *)
  (* (v < -0.5 - eps) | (v > n - 0.5 + eps) | isnan(v) *)
  Definition c01_area_mask (n : Z) (v : T) : bool := orb (orb (ltb OP v c01_lo) (ltb OP (c01_hi n) v)) (isnan OP v).
  Definition c01_clip (n : Z) (v : T) : T := fmin OP (fmax OP v (ofZ OP 0)) (ofZ OP (n - 1)).   (* np.clip(v, 0, n-1) *)
  Definition c01_area_index (n : Z) (v : T) : Z := rintZ OP (c01_clip n v).      (* np.round(..).astype(int) *)
  Definition c01_masked_index (n : Z) (v : T) : option Z :=
    if c01_area_mask n v then None else Some (c01_area_index n v).

  (* get_array_indices_from_projection_coordinates: array inputs -> (col, row) masked separately *)
  Definition c01_index_array (a : area T) (x y : T) : option Z * option Z :=
    (c01_masked_index (width a) (arr_of_proj_x OP a x), c01_masked_index (height a) (arr_of_proj_y OP a y)).
  (* scalar inputs: None = ValueError('Point outside area') *)
  Definition c01_index_scalar (a : area T) (x y : T) : option (Z * Z) :=
    match c01_index_array a x y with
    | (Some c, Some r) => Some (c, r)
    | _ => None
    end.

  (* ---- lon/lat accessors; PROJ enters only through the three oracle arguments ---- *)
  Section Oracles.
    Variable invT : T * T -> T * T.    (* Transformer(geodetic CRS without datum shift -> crs), INVERSE: get_lonlats, _invproj, Proj_MP *)
    Variable invP : T * T -> T * T.    (* self._get_lonlat_transformer().transform(x, y, direction=INVERSE) *)
    Variable fwdP : T * T -> T * T.    (* self._get_lonlat_transformer().transform(lon, lat) *)

    Definition c01_lonlats (a : area T) (rows cols : list Z) : list (list (T * T)) := map (map invT) (c01_coords_numpy a rows cols).
    Definition c01_lonlats_dask (a : area T) (rch cch rows cols : list Z) : list (list (T * T)) :=
      map (map invT) (c01_coords_dask a rch cch rows cols).
    Definition c01_get_lonlat (a : area T) (r c : Z) : T * T := invT (proj_x OP a c, proj_y OP a r).
    Definition c01_colrow2lonlat (a : area T) (c r : Z) : T * T := invP (proj_x OP a c, proj_y OP a r).
    Definition c01_lonlat_from_proj (x y : T) : T * T := invP (x, y).
    Definition c01_lonlat_from_arr (a : area T) (c r : T) : T * T := invP (proj_of_arr_x OP a c, proj_of_arr_y OP a r).
    Definition c01_proj_from_lonlat (lon lat : T) : T * T := fwdP (lon, lat).
    Definition c01_arr_from_lonlat (a : area T) (lon lat : T) : T * T :=
      let '(x, y) := fwdP (lon, lat) in (arr_of_proj_x OP a x, arr_of_proj_y OP a y).
    Definition c01_index_from_lonlat_array (a : area T) (lon lat : T) : option Z * option Z :=
      let '(x, y) := fwdP (lon, lat) in c01_index_array a x y.
    Definition c01_index_from_lonlat_scalar (a : area T) (lon lat : T) : option (Z * Z) :=
      let '(x, y) := fwdP (lon, lat) in c01_index_scalar a x y.
  End Oracles.
End C01.
