(* the definitions regenerated from the source (Gen/GenC17imp.v) evaluated on the observations of the implementation *)
From Coq Require Import ZArith List Bool PrimFloat.
From PR Require Import Base.Num Base.F64 Base.ListX Base.Imp Model.SphPoly Model.SphPolyObj Model.C17_run Gen.GenC17imp.
Import ListNotations.
Open Scope Z_scope.

(* ---- Arc.get_next_intersection on the crossing table of the ordered pair: self = edge e of polygon 1, arcs = all edges
   of polygon 2 in order, known = a crossing of the table (by id) or nothing.
   case: n1, n2, table, queries (e, known id | -1, returned crossing id | -1, returned edge of polygon 2 | -1) *)
Definition dummy_x : @xing float := mk_xing (-1) (-1) (-1) PrimFloat.nan PrimFloat.nan 0 0.
Definition run_gni (A : @arrangement float) (e : Z) (known : Z) : Z * Z :=
  let kn := if known <? 0 then None else find (fun x => xid x =? known) (xs A) in
  match value_of (imp_get_next_intersection (tab_isect A false) (@tab_keep float) (fun _ => sort_pairs F64 false) (@tab_peq float)
                                            dummy_x 0 e (rot_edges (n2 A) 0 false) kn) with
  | COk (Some x, Some a) => (xid x, a)
  | COk (None, None) => (-1, -1)
  | _ => (-2, -2)
  end.
Definition chk_imp_gni (c : Z * Z * list (Z * Z * Z * float * float * Z * Z) * list (Z * Z * Z * Z)) : bool :=
  let '(m1, m2, tab, qs) := c in
  let A := mk_arr m1 m2 (map mkx tab) in
  forallb (fun q => let '(e, k, rx, re) := q in pz_eqb (run_gni A e k) (rx, re)) qs.

(* ---- invert() / inverse() histories on the translated code; rows are vertex indices, columns are not looked at *)
Definition zpoly := poly Z Z Z.
Definition z_new (v : list Z) (r : Z) : zpoly := mk_poly v [] [] [] [] [] [] r.
Definition idz (z : Z) : Z := z.
Definition imp_hist_step (vs : list Z) (p : zpoly) (o : pop) : zpoly * (Z * Z) :=
  match o with
  | PArea => (p, (obit vs (pv p), -1))
  | PInverse =>
      match value_of (imp_inverse z_new 0 p), state_of (imp_inverse z_new 0 p) with
      | COk q, COk s => (imp_inverse_self s, (obit vs (pv (imp_inverse_self s)), obit vs (pv q)))
      | _, _ => (p, (-2, -2))
      end
  | PInvert =>
      match state_of (imp_invert idz idz idz idz idz p) with
      | COk s => (imp_invert_self s, (obit vs (pv (imp_invert_self s)), -1))
      | _ => (p, (-2, -2))
      end
  end.
Fixpoint imp_hist (vs : list Z) (p : zpoly) (h : list pop) : list (Z * Z) :=
  match h with
  | [] => []
  | o :: r => let '(p', ob) := imp_hist_step vs p o in ob :: imp_hist vs p' r
  end.
Definition chk_imp_hist (c : Z * list Z * list (Z * Z)) : bool :=
  let '(n, ops, obs) := c in
  let vs := map Z.of_nat (seq 0 (Z.to_nat n)) in
  list_eqb pz_eqb (imp_hist vs (z_new vs 1) (map dec_op ops)) obs.
