(* C14 — DynamicAreaDefinition.freeze: model of the code's own logic, written once over the arithmetic record.

   geometry.py:
     DynamicAreaDefinition.__init__ (resolution normalisation), freeze (orchestration),
     _compute_bound_centers (NaN / 1e30 filtering, nanmin/nanmax, antimeridian decision),
     _compute_new_x_corners_for_antimeridian (three modes),
     compute_domain + _update_corners_for_full_extent: REGENERATED from the source on every run
       (Gen/GenC14.v, one specialisation per argument kind); this file only dispatches to them.
     masked_ints (the area's own index function) for "maps to a valid pixel".

   Oracles (never axioms): the projected points (PROJ), crs.is_geographic, the CRS area of use are inputs;
   [wrap360] (numpy's float remainder x % 360) is a Section variable instantiated by an exact definition in
   both arithmetics (Proofs/C14_real.v: x - 360*floor(x/360); Model/C14_run.v: IEEE fmod + numpy's sign fix). *)
From Coq Require Import ZArith Bool List.
From PR Require Import Base.Num Model.Grid Model.DynBase Gen.GenC14.
Import ListNotations.
Open Scope Z_scope.

Inductive amode := MNone | MExtents | MCrs | MGlobal | MOther.   (* antimeridian_mode: None, the three names, any other string *)

(* resolution argument kinds: None, a scalar (int/float), a pair *)
Inductive resarg (T : Type) := RNone | RScalar (r : T) | RPair (rx ry : T).
Arguments RNone {T}. Arguments RScalar {T}. Arguments RPair {T}.

Record dyn (T : Type) := mk_dyn {
  d_extent : option (T * T * T * T);      (* area_extent given to the constructor *)
  d_width : option Z; d_height : option Z;
  d_res : resarg T                         (* resolution given to the constructor (before normalisation) *)
}.
Arguments mk_dyn {T}. Arguments d_extent {T}. Arguments d_width {T}. Arguments d_height {T}. Arguments d_res {T}.

(* result of freeze: the AreaDefinition's extent and size, and whether the prime meridian of the requested CRS was moved by
   180 degrees (modify_crs; +pm=180 for a Greenwich-based CRS) *)
Record frozen (T : Type) := mk_frozen { f_area : area T; f_pm180 : bool }.
Arguments mk_frozen {T}. Arguments f_area {T}. Arguments f_pm180 {T}.

Section Dynamic.
  Context {T : Type} (OP : ops T).
  Variable wrap360 : T -> T.

  (* ---- _compute_bound_centers ---- *)
  Definition big : T := lit OP 900000000000000046043660025856 0.          (* 9e29 *)
  Definition eps_pole : T := lit OP 3602879701896397 (-55).                (* 0.1 *)
  (* xarr[xarr > 9e29] = np.nan; yarr[yarr > 9e29] = np.nan -- REGENERATED (gen_clean_xy, one position) *)
  Definition clean_xy (p : T * T) : T * T := gen_clean_xy OP (fst p) (snd p).
  Definition clean (v : T) : T := if ltb OP big v then nan OP else v.     (* its clean form, per coordinate *)

  (* np.nanmin / np.nanmax: Model/DynBase.v *)

  (* _compute_new_x_corners_for_antimeridian: the four REGENERATED specialisations (mode "global_extents", "modify_crs",
     "modify_extents", None/any other string); x % m is [wrapm m] element-wise, only m = 360 occurs.  None = (None, None) *)
  Definition wrapm (m : Z) : T -> T := if m =? 360 then wrap360 else fun _ => nan OP.
  Definition new_x_corners (mode : amode) (xs : list T) : option (T * T) :=
    match mode with
    | MGlobal => let '(_, _) := gen_nxc_global wrapm xs tt in None
    | MCrs => Some (gen_nxc_crs OP wrapm xs tt)
    | MExtents => Some (gen_nxc_extents OP wrapm xs tt)
    | MNone | MOther => Some (gen_nxc_none OP wrapm xs tt)
    end.

  Definition passes_antimeridian (xmin xmax : T) : bool := ltb OP (ofZ OP 355) (sub OP xmax xmin).
  Definition y_is_pole (ymin ymax : T) : bool :=
    leb OP (sub OP (ofZ OP 90) eps_pole) ymax || leb OP ymin (add OP (ofZ OP (-90)) eps_pole).

  (* returns (pm=180 put into the projection?, x corners or None, ymin, ymax) *)
  Definition bound_centers (geographic : bool) (mode : amode) (pts : list (T * T)) : bool * option (T * T) * T * T :=
    let cl := map clean_xy pts in
    let xs := map fst cl in
    let ys := map snd cl in
    let xmin := nanmin OP xs in let xmax := nanmax OP xs in
    let ymin := nanmin OP ys in let ymax := nanmax OP ys in
    (* the guard is REGENERATED from the source: gen_am_test = geographic && passes_antimeridian && not y_is_pole *)
    if gen_am_test OP xmin xmax ymin ymax (mk_crs geographic) then
      (match mode with MCrs => true | _ => false end, new_x_corners mode xs, ymin, ymax)
    else (false, Some (xmin, xmax), ymin, ymax).

  (* ---- compute_domain: dispatch on the argument kinds to the regenerated specialisations ---- *)
  (* math.floor / math.ceil raise on nan/inf: resolution mode needs finite corners *)
  Definition fin4 (c : T * T * T * T) : bool :=
    let '(a, b, c2, d) := c in isfinite OP a && isfinite OP b && isfinite OP c2 && isfinite OP d.

  Definition compute_domain (xc : option (T * T)) (ymin ymax : T) (res : resarg T) (shape : option (Z * Z)) (aou : aou_t T)
    : option ((T * T * T * T) * Z * Z) :=
    match xc with
    | Some (xmin, xmax) =>
        let c := (xmin, ymin, xmax, ymax) in
        match res, shape with
        | RNone, None => gen_cd_neither c tt tt aou
        | RNone, Some s => gen_cd_shape OP c tt s aou
        | RPair rx ry, None => if fin4 c then gen_cd_res OP c (rx, ry) tt aou else None
        | RScalar r, None => if fin4 c then gen_cd_res_scalar OP c r tt aou else None
        | RPair rx ry, Some s => gen_cd_both c (rx, ry) s aou
        | RScalar r, Some s => gen_cd_both c (r, r) s aou
        end
    | None =>
        let c := (tt, ymin, tt, ymax) in
        match res, shape with
        | RNone, None => None
        | RNone, Some s => gen_cd_shape_glob OP c tt s aou
        | RPair rx ry, None => if isfinite OP ymin && isfinite OP ymax then gen_cd_res_glob OP c (rx, ry) tt aou else None
        | RScalar r, None => if isfinite OP ymin && isfinite OP ymax then gen_cd_res_scalar_glob OP c r tt aou else None
        | _, Some _ => None
        end
    end.

  (* ---- __init__: isinstance(resolution, (int, float)) -> (resolution, resolution) ---- *)
  Definition init_res (r : resarg T) : resarg T := match r with RScalar v => RPair v v | x => x end.

  (* ---- freeze (optimize_projection = False) ---- *)
  Definition truthy (z : option Z) : bool := match z with Some v => negb (v =? 0) | None => false end.

  (* resolution / shape actually used: the freeze argument wins over the constructor's *)
  Definition eff_res (d : dyn T) (fres : resarg T) : resarg T := match fres with RNone => init_res (d_res d) | r => r end.
  Definition eff_hw (d : dyn T) (fshape : option (option Z * option Z)) : option Z * option Z :=
    match fshape with None => (d_height d, d_width d) | Some s => s end.
  (* shape = None if None in shape else shape *)
  Definition eff_shape (d : dyn T) (fshape : option (option Z * option Z)) : option (Z * Z) :=
    match eff_hw d fshape with (Some h, Some w) => Some (h, w) | _ => None end.
  (* `if not area_extent or not width or not height` is False: extent and size are taken as given *)
  Definition explicit_area (d : dyn T) (fshape : option (option Z * option Z)) : option (area T) :=
    let '(height, width) := eff_hw d fshape in
    match d_extent d, truthy width && truthy height, width, height with
    | Some (x0, y0, x1, y1), true, Some w, Some h => Some (mk_area x0 y0 x1 y1 w h)
    | _, _, _, _ => None
    end.

  Definition freeze (d : dyn T) (fres : resarg T) (fshape : option (option Z * option Z))
             (geographic : bool) (mode : amode) (aou : aou_t T) (pts : list (T * T)) : option (frozen T) :=
    match explicit_area d fshape with
    | Some a => Some (mk_frozen a false)
    | None =>
        let '(pm, xc, ymin, ymax) := bound_centers geographic mode pts in
        match compute_domain xc ymin ymax (eff_res d fres) (eff_shape d fshape) aou with
        | Some ((x0, y0, x1, y1), w, h) => Some (mk_frozen (mk_area x0 y0 x1 y1 w h) pm)
        | None => None
        end
    end.

  (* ---- SwathDefinition.compute_optimal_bb_area (= freeze with optimize_projection=True): the projection parameters and the
     uniform shape (h, w) come from PROJ / Geod (oracles); the result is a NEW DynamicAreaDefinition of that projection
     frozen on all positions of the swath (get_lonlats) with that shape ---- *)
  Definition optimal_bb_area (h w : Z) (geographic : bool) (aou : aou_t T) (pts : list (T * T)) : option (frozen T) :=
    freeze (mk_dyn None None None RNone) RNone (Some (Some h, Some w)) geographic MNone aou pts.

  (* ---- masked_ints around get_array_coordinates_from_projection_coordinates: None = masked ---- *)
  Definition eps_idx : T := lit OP 5764607523034235 (-58).                  (* 0.02 *)
  Definition half : T := lit OP 1 (-1).
  Definition clipf (v lo hi : T) : T := fmin OP (fmax OP v lo) hi.          (* np.clip = minimum(maximum(v, lo), hi) *)
  Definition masked_index (c : T) (n : Z) : option Z :=
    if ltb OP c (sub OP (neg OP half) eps_idx) || ltb OP (add OP (sub OP (ofZ OP n) half) eps_idx) c || isnan OP c then None
    else Some (rintZ OP (clipf c (ofZ OP 0) (ofZ OP (n - 1)))).
  Definition index_x (a : area T) (x : T) : option Z := masked_index (arr_of_proj_x OP a x) (width a).
  Definition index_y (a : area T) (y : T) : option Z := masked_index (arr_of_proj_y OP a y) (height a).
End Dynamic.
