(* C15: pyresample/_multi_proc.py Scheduler (shared counters + one lock) as a state machine over the
   atomic shared-memory actions of __iter__, and the shared result array written by the workers of
   pyresample/_spatial_mp.py (_parallel_query / _parallel_proj).  Definitions only. *)
From Coq Require Import ZArith List Bool Arith.
Import ListNotations.
Open Scope Z_scope.

Inductive kind := Guided | Dynamic | Static.

(* Scheduler(ndata = n, nprocs, chunk = None | int, schedule = kind); [bits] is the width of the two
   shared counters (mp.RawValue(ctypes.c_int, ..): 32). *)
Record cfg := mk_cfg { n : Z; nprocs : Z; chunk : option Z; knd : kind; bits : Z }.

(* a store into a ctypes signed integer of [b] bits keeps the low b bits (two's complement) *)
Definition wrap (b v : Z) : Z := (v + 2 ^ (b - 1)) mod (2 * 2 ^ (b - 1)) - 2 ^ (b - 1).

(* Python truthiness of the [chunk] argument: None and 0 are false *)
Definition truthy (o : option Z) : option Z :=
  match o with Some x => if x =? 0 then None else Some x | None => None end.

(* Scheduler.__init__: self._chunk *)
Definition init_chunk (c : cfg) : Z :=
  match knd c with
  | Guided | Dynamic =>
      let min_chunk := n c / (10 * nprocs c) in
      let min_chunk := match truthy (chunk c) with Some ch => ch | None => min_chunk end in
      Z.max min_chunk 1
  | Static =>
      let min_chunk := n c / nprocs c in
      let min_chunk := match truthy (chunk c) with Some ch => Z.max ch min_chunk | None => min_chunk end in
      Z.max min_chunk 1
  end.

(* Scheduler.__iter__: the local [chunk] computed from the value of ndata that was read *)
Definition chunk_of (c : cfg) (nd : Z) : Z :=
  match knd c with
  | Guided => Z.max (init_chunk c) (nd / nprocs c)
  | _ => init_chunk c
  end.

(* program counter of one worker = position in `for s in scheduler: res[s] = f(data[s])`:
   the generator's locals that are live are carried in the constructor *)
Inductive pc :=
| PIdle                       (* about to call self._lock.acquire() *)
| PLocked                     (* holds the lock; about to read self._ndata.value *)
| PReadN (nd : Z)             (* about to read self._start.value *)
| PReadS (nd st : Z)          (* about to write self._ndata.value (or to release and return when nd = 0) *)
| PWroteN (nd st ch : Z)      (* chunk <= ndata branch: about to write self._start.value *)
| PRelease (s0 s1 : Z)        (* about to release the lock and yield slice(s0, s1) *)
| PWork (s0 s1 : Z)           (* received slice(s0, s1); about to write the result array rows s0..s1-1 *)
| PDone.                      (* generator returned *)

Record state := mk_state {
  ndata : Z;                        (* self._ndata.value *)
  start : Z;                        (* self._start.value *)
  lock : option nat;                (* self._lock: holder *)
  pcs : nat -> pc;
  out : list (nat * (Z * Z));       (* slices yielded so far, in order of emission, with the receiving worker *)
  wdone : list (Z * Z)              (* slices whose result rows have been written, in order of completion *)
}.

Definition upd (f : nat -> pc) (w : nat) (p : pc) : nat -> pc := fun v => if Nat.eqb v w then p else f v.

Definition set_pc (s : state) (w : nat) (p : pc) : state :=
  mk_state (ndata s) (start s) (lock s) (upd (pcs s) w p) (out s) (wdone s).

(* one atomic action of worker w; a worker blocked on the lock, or finished, does not move *)
Definition step (c : cfg) (s : state) (w : nat) : state :=
  match pcs s w with
  | PIdle =>
      match lock s with
      | None => mk_state (ndata s) (start s) (Some w) (upd (pcs s) w PLocked) (out s) (wdone s)
      | Some _ => s
      end
  | PLocked => set_pc s w (PReadN (ndata s))
  | PReadN nd => set_pc s w (PReadS nd (start s))
  | PReadS nd st =>
      let ch := chunk_of c nd in
      if nd =? 0 then
        mk_state (ndata s) (start s) None (upd (pcs s) w PDone) (out s) (wdone s)
      else if nd <? ch then
        mk_state (wrap (bits c) 0) (start s) (lock s) (upd (pcs s) w (PRelease st (st + nd))) (out s) (wdone s)
      else
        mk_state (wrap (bits c) (nd - ch)) (start s) (lock s) (upd (pcs s) w (PWroteN nd st ch)) (out s) (wdone s)
  | PWroteN nd st ch =>
      mk_state (ndata s) (wrap (bits c) (st + ch)) (lock s) (upd (pcs s) w (PRelease st (st + ch))) (out s) (wdone s)
  | PRelease s0 s1 =>
      mk_state (ndata s) (start s) None (upd (pcs s) w (PWork s0 s1)) (out s ++ [(w, (s0, s1))]) (wdone s)
  | PWork s0 s1 =>
      mk_state (ndata s) (start s) (lock s) (upd (pcs s) w PIdle) (out s) (wdone s ++ [(s0, s1)])
  | PDone => s
  end.

Definition init (c : cfg) : state :=
  mk_state (wrap (bits c) (n c)) (wrap (bits c) 0) None (fun _ => PIdle) [] [].

Definition run_from (c : cfg) (s : state) (sched : list nat) : state := fold_left (step c) sched s.
Definition run (c : cfg) (sched : list nat) : state := run_from c (init c) sched.

Definition slices (s : state) : list (Z * Z) := map snd (out s).

(* ---- vocabulary of the statements ---- *)

(* slices, in order, tile [from, to) consecutively with non-empty pieces *)
Fixpoint ztiles (from : Z) (l : list (Z * Z)) (to : Z) : Prop :=
  match l with
  | [] => from = to
  | (a, b) :: r => a = from /\ a < b /\ ztiles b r to
  end.

(* number of slices that contain item i *)
Definition contains (i : Z) (s : Z * Z) : bool := (fst s <=? i) && (i <? snd s).
Definition hits (i : Z) (l : list (Z * Z)) : nat := length (filter (contains i) l).

(* between acquire and release *)
Definition in_critical (p : pc) : bool :=
  match p with PIdle | PDone | PWork _ _ => false | _ => true end.

(* can worker w make a move? *)
Definition enabled (s : state) (w : nat) : bool :=
  match pcs s w with
  | PDone => false
  | PIdle => match lock s with None => true | Some _ => false end
  | _ => true
  end.

Definition all_done (nw : nat) (s : state) : Prop := forall w, (w < nw)%nat -> pcs s w = PDone.
Definition workers_below (nw : nat) (sched : list nat) : Prop := Forall (fun w => (w < nw)%nat) sched.

(* number of turns of a schedule in which the chosen worker actually moved *)
Fixpoint effective (c : cfg) (s : state) (sched : list nat) : nat :=
  match sched with
  | [] => 0
  | w :: r => ((if enabled s w then 1 else 0) + effective c (step c s w) r)%nat
  end.

(* a round gives every one of the nw workers at least one turn; a schedule made of k rounds *)
Definition covers (nw : nat) (seg : list nat) : Prop := forall w, (w < nw)%nat -> In w seg.
Definition fair_rounds (nw : nat) (k : nat) (sched : list nat) : Prop :=
  exists segs, sched = concat segs /\ (k <= length segs)%nat /\ Forall (covers nw) segs.

(* termination measure *)
Definition rank (p : pc) : Z :=
  match p with
  | PDone => 0 | PReadS _ _ => 2 | PReadN _ => 3 | PLocked => 4 | PIdle => 5
  | PWork _ _ => 6 | PRelease _ _ => 7 | PWroteN _ _ _ => 8
  end.
Fixpoint sumrank (k : nat) (f : nat -> pc) : Z :=
  match k with O => 0 | S k' => sumrank k' f + rank (f k') end.
Definition measure (nw : nat) (s : state) : Z := 7 * ndata s + sumrank nw (pcs s).

(* well-formed configuration: n fits the signed counters, at least one process *)
Definition wf (c : cfg) : Prop := 1 <= bits c /\ 0 <= n c < 2 ^ (bits c - 1) /\ 1 <= nprocs c.

(* ---- the shared result array ---- *)
Definition zrange (a b : Z) : list Z := map (fun k => a + Z.of_nat k) (seq 0 (Z.to_nat (b - a))).

Section Arr.
  Context {V : Type}.
  (* res[a:b] = [f i for i in range(a, b)]  (f i = engine applied to input row i) *)
  Definition write_slice (f : Z -> V) (arr : list V) (s : Z * Z) : list V :=
    firstn (Z.to_nat (fst s)) arr ++ map f (zrange (fst s) (snd s)) ++ skipn (Z.to_nat (snd s)) arr.
  (* the shared array after the workers' writes, starting from the fresh (zero-filled) array *)
  Definition result_array (f : Z -> V) (d : V) (n : Z) (writes : list (Z * Z)) : list V :=
    fold_left (write_slice f) writes (repeat d (Z.to_nat n)).
  (* the single-process computation *)
  Definition single_process (f : Z -> V) (n : Z) : list V := map f (zrange 0 n).
End Arr.

(* ---- histories of calls on one object ---- *)
(* _spatial_mp creates a FRESH Scheduler (init) for every query / projection call.  The alternative, a second
   call whose workers iterate the Scheduler object left behind by a finished call: the shared counters keep
   their values, the new workers start from the top of __iter__, nothing has been handed out or written yet *)
Definition recycle (s : state) : state := mk_state (ndata s) (start s) None (fun _ => PIdle) [] [].

(* ---- failing workers ---- *)
(* the engine may raise while a worker processes the slice it received (_parallel_query / _parallel_proj: the except
   handler counts the error, nothing of the slice has been written, the worker function returns).  A turn is (worker, fails):
   [fails] only matters when the worker is about to write its slice.  The second component collects the slices dropped. *)
Definition fstep (c : cfg) (sd : state * list (Z * Z)) (e : nat * bool) : state * list (Z * Z) :=
  let '(s, dropped) := sd in
  let '(w, fails) := e in
  match fails, pcs s w with
  | true, PWork a b => (set_pc s w PDone, dropped ++ [(a, b)])
  | _, _ => (step c s w, dropped)
  end.
Definition frun (c : cfg) (fsched : list (nat * bool)) : state * list (Z * Z) := fold_left (fstep c) fsched (init c, []).
