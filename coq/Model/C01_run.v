(* executable wrappers comparing the C01 model (binary64 instance) with observations of the implementation *)
From Coq Require Import ZArith List Bool PrimFloat.
From PR Require Import Base.Num Base.F64 Base.ListX Model.Grid Model.C01_Area Model.C01_Cache.
Import ListNotations.
Open Scope Z_scope.

Definition ff_eqb (p q : float * float) : bool := same_bits (fst p) (fst q) && same_bits (snd p) (snd q).
Definition oz_eqb (a b : option Z) : bool :=
  match a, b with Some x, Some y => x =? y | None, None => true | _, _ => false end.
Definition ozz_eqb (a b : option (Z * Z)) : bool :=
  match a, b with Some (x, y), Some (u, v) => (x =? u) && (y =? v) | None, None => true | _, _ => false end.

(* AreaDefinition.__init__: pixel_size_x, pixel_size_y, pixel_upper_left, pixel_offset_x, pixel_offset_y *)
Definition chk_attrs (c : area float * list float) : bool :=
  let '(a, obs) := c in
  list_eqb same_bits [pixel_size_x F64 a; pixel_size_y F64 a; upl_x F64 a; upl_y F64 a; pixel_offset_x F64 a; pixel_offset_y F64 a] obs.

(* get_proj_vectors / projection_x_coords / projection_y_coords *)
Definition chk_vectors (c : area float * list float * list float) : bool :=
  let '(a, xs, ys) := c in
  list_eqb same_bits (fst (c01_proj_vectors F64 a)) xs && list_eqb same_bits (snd (c01_proj_vectors F64 a)) ys.

(* a 2-D result observed through its shape and a list of sampled entries (i, j, x, y) *)
Definition grid_shape_ok {A} (g : list (list A)) (nr nc : Z) : bool :=
  (Z.of_nat (length g) =? nr) && forallb (fun row => Z.of_nat (length row) =? nc) g.
Definition sample_ok (g : list (list (float * float))) (s : Z * Z * float * float) : bool :=
  let '(i, j, x, y) := s in
  ff_eqb (nth (Z.to_nat j) (nth (Z.to_nat i) g []) (PrimFloat.nan, PrimFloat.nan)) (x, y) &&
  (i <? Z.of_nat (length g)) && (j <? Z.of_nat (length (nth (Z.to_nat i) g []))).
Definition grid_ok (g : list (list (float * float))) (nr nc : Z) (samples : list (Z * Z * float * float)) : bool :=
  grid_shape_ok g nr nc && forallb (sample_ok g) samples.

(* get_proj_coords(data_slice): numpy path *)
Definition chk_coords_numpy (c : area float * list Z * list Z * list (Z * Z * float * float)) : bool :=
  let '(a, rows, cols, samples) := c in
  grid_ok (c01_coords_numpy F64 a rows cols) (Z.of_nat (length rows)) (Z.of_nat (length cols)) samples.
(* get_proj_coords(data_slice, chunks=): dask path, normalised chunk tuples *)
Definition chk_coords_dask (c : area float * list Z * list Z * list Z * list Z * list (Z * Z * float * float)) : bool :=
  let '(a, rch, cch, rows, cols, samples) := c in
  grid_ok (c01_coords_dask F64 a rch cch rows cols) (Z.of_nat (length rows)) (Z.of_nat (length cols)) samples.

(* get_array_coordinates_from_projection_coordinates: (x, y, col, row) *)
Definition chk_arr_of_proj (c : area float * list (float * float * float * float)) : bool :=
  let '(a, pts) := c in
  forallb (fun p => let '(x, y, cf, rf) := p in
                    same_bits (arr_of_proj_x F64 a x) cf && same_bits (arr_of_proj_y F64 a y) rf) pts.
(* get_projection_coordinates_from_array_coordinates: (col, row, x, y) *)
Definition chk_proj_of_arr (c : area float * list (float * float * float * float)) : bool :=
  let '(a, pts) := c in
  forallb (fun p => let '(cf, rf, x, y) := p in
                    same_bits (proj_of_arr_x F64 a cf) x && same_bits (proj_of_arr_y F64 a rf) y) pts.

(* get_array_indices_from_projection_coordinates, array inputs: (x, y, col data, col mask, row data, row mask).
   The integer stored under a NaN coordinate is platform-defined and not compared. *)
Definition axis_ok (n : Z) (v : float) (data : Z) (mask : bool) : bool :=
  Bool.eqb (c01_area_mask F64 n v) mask && (f_isnan v || (c01_area_index F64 n v =? data)).
Definition chk_index_array (c : area float * list (float * float * Z * bool * Z * bool)) : bool :=
  let '(a, pts) := c in
  forallb (fun p => let '(x, y, cd, cm, rd, rm) := p in
                    axis_ok (width a) (arr_of_proj_x F64 a x) cd cm && axis_ok (height a) (arr_of_proj_y F64 a y) rd rm) pts.
(* scalar inputs: Some (col, row) or None = ValueError *)
Definition chk_index_scalar (c : area float * list (float * float * option (Z * Z))) : bool :=
  let '(a, pts) := c in
  forallb (fun p => let '(x, y, res) := p in ozz_eqb (c01_index_scalar F64 a x y) res) pts.

(* ---- lon/lat accessors: the PROJ oracles are finite tables produced by pyproj on the coordinate bits ---- *)
Definition table := list ((float * float) * (float * float)).
Definition missing : float * float := ((-0x1.23456789abcdep+1000)%float, (-0x1.23456789abcdep+1000)%float).
Definition lookup (t : table) (p : float * float) : float * float :=
  match find (fun e => ff_eqb (fst e) p) t with Some e => snd e | None => missing end.

Record ll_case := mk_ll {
  ll_area : area float; ll_T : table; ll_P : table; ll_F : table;
  ll_get : list (Z * Z * float * float);                 (* get_lonlat(row, col) -> lon, lat *)
  ll_colrow : list (Z * Z * float * float);              (* colrow2lonlat(col, row) *)
  ll_from_arr : list (float * float * float * float);    (* get_lonlat_from_array_coordinates(col, row) *)
  ll_from_proj : list (float * float * float * float);   (* get_lonlat_from_projection_coordinates(x, y) *)
  ll_proj_from : list (float * float * float * float);   (* get_projection_coordinates_from_lonlat(lon, lat) -> x, y *)
  ll_arr_from : list (float * float * float * float);    (* get_array_coordinates_from_lonlat(lon, lat) -> col, row *)
  ll_idx_arr : list (float * float * Z * bool * Z * bool);   (* get_array_indices_from_lonlat, arrays *)
  ll_idx_sc : list (float * float * option (Z * Z));         (* get_array_indices_from_lonlat, scalars *)
  ll_rows : list Z; ll_cols : list Z; ll_rch : list Z; ll_cch : list Z;   (* get_lonlats(data_slice[, chunks]) *)
  ll_np : list (Z * Z * float * float); ll_da : list (Z * Z * float * float); ll_has_da : bool
}.

(* entry (i, j) of map (map invT) g is invT (entry (i, j) of g)  (Proofs/C01_grid.v: c01_lonlats_entry):
   the oracle table is consulted at the sampled entries only *)
Definition ll_sample_ok (inv : float * float -> float * float) (g : list (list (float * float))) (s : Z * Z * float * float) : bool :=
  let '(i, j, lon, lat) := s in
  (i <? Z.of_nat (length g)) && (j <? Z.of_nat (length (nth (Z.to_nat i) g []))) &&
  ff_eqb (inv (nth (Z.to_nat j) (nth (Z.to_nat i) g []) (PrimFloat.nan, PrimFloat.nan))) (lon, lat).
Definition ll_grid_ok inv (g : list (list (float * float))) (nr nc : Z) (samples : list (Z * Z * float * float)) : bool :=
  grid_shape_ok g nr nc && forallb (ll_sample_ok inv g) samples.

Definition chk_lonlat (c : ll_case) : bool :=
  let a := ll_area c in
  let invT := lookup (ll_T c) in let invP := lookup (ll_P c) in let fwdP := lookup (ll_F c) in
  forallb (fun q => let '(r, cc, lon, lat) := q in ff_eqb (c01_get_lonlat F64 invT a r cc) (lon, lat)) (ll_get c) &&
  forallb (fun q => let '(cc, r, lon, lat) := q in ff_eqb (c01_colrow2lonlat F64 invP a cc r) (lon, lat)) (ll_colrow c) &&
  forallb (fun q => let '(cf, rf, lon, lat) := q in ff_eqb (c01_lonlat_from_arr F64 invP a cf rf) (lon, lat)) (ll_from_arr c) &&
  forallb (fun q => let '(x, y, lon, lat) := q in ff_eqb (c01_lonlat_from_proj invP x y) (lon, lat)) (ll_from_proj c) &&
  forallb (fun q => let '(lon, lat, x, y) := q in ff_eqb (c01_proj_from_lonlat fwdP lon lat) (x, y)) (ll_proj_from c) &&
  forallb (fun q => let '(lon, lat, cf, rf) := q in ff_eqb (c01_arr_from_lonlat F64 fwdP a lon lat) (cf, rf)) (ll_arr_from c) &&
  forallb (fun q => let '(lon, lat, cd, cm, rd, rm) := q in
                    let '(x, y) := fwdP (lon, lat) in
                    axis_ok (width a) (arr_of_proj_x F64 a x) cd cm && axis_ok (height a) (arr_of_proj_y F64 a y) rd rm &&
                    (let '(oc, orow) := c01_index_from_lonlat_array F64 fwdP a lon lat in
                     Bool.eqb (match oc with None => true | _ => false end) cm &&
                     Bool.eqb (match orow with None => true | _ => false end) rm)) (ll_idx_arr c) &&
  forallb (fun q => let '(lon, lat, res) := q in ozz_eqb (c01_index_from_lonlat_scalar F64 fwdP a lon lat) res) (ll_idx_sc c) &&
  ll_grid_ok invT (c01_coords_numpy F64 a (ll_rows c) (ll_cols c)) (Z.of_nat (length (ll_rows c))) (Z.of_nat (length (ll_cols c))) (ll_np c) &&
  (negb (ll_has_da c) ||
   ll_grid_ok invT (c01_coords_dask F64 a (ll_rch c) (ll_cch c) (ll_rows c) (ll_cols c))
              (Z.of_nat (length (ll_rows c))) (Z.of_nat (length (ll_cols c))) (ll_da c)).

(* a history of lon/lat accessor calls on one object: every observation, in order, entry by entry *)
Definition chk_history (c : area float * table * table * list c01_op * list (list (list (float * float)))) : bool :=
  let '(a, tT, tP, ops, obs) := c in
  list_eqb (list_eqb (list_eqb ff_eqb)) (c01_run F64 (lookup tT) (lookup tP) a false None ops) obs.
