(* C12, wave 3 -- vocabulary of the imperative translations in Gen/GenC12imp.v (tools/py2coq_imp.py over Base/Imp.v):
   get_array_hashable's branch ladder, BaseDefinition.update_hash / __hash__, CoordinateDefinition.append / concatenate,
   StackedAreaDefinition.update_hash.  Arrays are trees over an ABSTRACT payload A (the numbers of an ndarray); what
   sha1 is fed is a list of ABSTRACT byte strings HV.  Definitions only. *)
From Coq Require Import ZArith Bool List.
From PR Require Import Base.Num Base.Slice Base.Imp Model.HashEq.
Import ListNotations.
Open Scope Z_scope.

(* `try: A except ...: H` for a single-statement A: H runs from the state at the try when A raises *)
Definition try_ {St Y R} (a h : M St Y R) : M St Y R :=
  fun s => match a s with Raised => h s | r => r end.

Section Arr.
  Context {A HV : Type}.

  (* what a lons / lats attribute can be *)
  Inductive parr : Type :=
  | PNp (x : A) (mask : option A)      (* numpy ndarray; Some m: a numpy masked array whose .mask is the array m *)
  | PDask (name : HV) (x : A)          (* dask array: .name (already utf-8 encoded), computes to x *)
  | PXr (xname : option HV) (attr : option HV) (data : parr).
      (* xarray.DataArray: its own .name (None or a string), attrs.get('hash'), .data *)

  Variable bytes_of : A -> HV.          (* np.ascontiguousarray(x).view(np.uint8) *)

  Definition is_xr (a : parr) : bool := match a with PXr _ _ _ => true | _ => false end.
  Definition xr_data (a : parr) : parr := match a with PXr _ _ d => d | _ => a end.
  Definition attr_or (a : parr) (dflt : HV) : HV := match a with PXr _ (Some h) _ => h | _ => dflt end.
  (* arr.name.encode('utf-8'): AttributeError without a usable .name *)
  Definition has_name (a : parr) : bool := match a with PDask _ _ => true | PXr (Some _) _ _ => true | _ => false end.
  Fixpoint payload (a : parr) : A := match a with PNp x _ => x | PDask _ x => x | PXr _ _ d => payload d end.
  Definition name_tok (a : parr) : HV :=
    match a with PDask n _ => n | PXr (Some n) _ _ => n | _ => bytes_of (payload a) end.
  Definition bytes_tok (a : parr) : HV := bytes_of (payload a).
  (* self.lons.mask: only numpy masked arrays have it *)
  Definition has_mask (a : parr) : bool := match a with PNp _ (Some _) => true | _ => false end.
  Definition mask_tok (a : parr) : HV := match a with PNp _ (Some m) => bytes_of m | _ => bytes_of (payload a) end.

  (* the model of get_array_hashable: attrs['hash'] of a DataArray, else what its .data gives; the dask name; the bytes *)
  Fixpoint arr_hashable (a : parr) : HV :=
    match a with
    | PNp x _ => bytes_of x
    | PDask n _ => n
    | PXr _ (Some h) _ => h
    | PXr _ None d => arr_hashable d
    end.
  Fixpoint depth (a : parr) : nat := match a with PXr _ _ d => S (depth d) | _ => O end.

  (* a hashlib object: the byte strings fed so far; None = the argument existing_hash=None *)
  Definition hlg := option (list HV).
  Definition hlg_fed (h : hlg) : list HV := match h with Some l => l | None => [] end.
  Definition hlg_update (h : hlg) (x : HV) : hlg := Some (hlg_fed h ++ [x]).

  (* a Base/Coordinate/SwathDefinition as far as hashing goes *)
  Record hgeo := mk_hgeo { hg_lons : parr; hg_lats : parr; hg_hash : option Z; hg_ndim : Z; hg_nprocs : Z }.

  (* the model of BaseDefinition.update_hash: lons, lats, and the mask of a masked lons *)
  Definition geo_fed (g : hgeo) : list HV :=
    [arr_hashable (hg_lons g); arr_hashable (hg_lats g)] ++ (if has_mask (hg_lons g) then [mask_tok (hg_lons g)] else []).
  Definition geo_update_hash (g : hgeo) (h : hlg) : hlg := Some (hlg_fed h ++ geo_fed g).

  (* np.concatenate((a, b)) of two coordinate arrays: a fresh numpy array (cat = the numbers of both) *)
  Variable cat : A -> A -> A.
  Definition pa_concat (a b : parr) : parr := PNp (cat (payload a) (payload b)) None.
  Definition set_shape_size (g : hgeo) : hgeo := g.     (* shape / size are functions of lons in this model *)
End Arr.
Arguments parr : clear implicits.
Arguments hgeo : clear implicits.
Arguments hlg : clear implicits.

(* ---- tie to the hand model of Model/HashEq.v: a swath's arrays as trees, bytes as tokens *)
Section Embed.
  Context {T : Type}.
  Definition rows_bytes (r : list (list T)) : list (tok T) := map TNum (concat r).
  Definition parr_of (kind : Z) (rows : list (list T)) (name : Z) : parr (list (list T)) (list (tok T)) :=
    if kind =? 0 then PNp rows None
    else if kind =? 1 then PXr None None (PNp rows None)
    else if kind =? 2 then PXr None None (PDask [TName name] rows)
    else PXr None (Some [TName name]) (PNp rows None).
  Definition hgeo_of (s : swath T) (memo : option Z) : hgeo (list (list T)) (list (tok T)) :=
    mk_hgeo (parr_of (s_kind s) (s_lon s) (s_nlon s)) (parr_of (s_kind s) (s_lat s) (s_nlat s)) memo (s_ndim s) 1.
End Embed.

(* StackedAreaDefinition for update_hash: the member areas in order *)
Record hstack (T : Type) := mk_hstack { hs_defs : list (harea T) }.
Arguments mk_hstack {T}. Arguments hs_defs {T}.
