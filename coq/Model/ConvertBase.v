(* Data carried between pyresample and the other libraries' grid descriptions (C20).
   Definitions only; imported by the regenerated Gen/GenC20.v and by Model/Convert.v. *)
From Coq Require Import ZArith Bool List.
From PR Require Import Base.Num Model.Grid.
Open Scope Z_scope.

(* the dict returned by utils/cf._load_cf_axis_info, keys 'first' 'last' 'spacing' 'nb' 'sign' *)
Record cf_axis (T : Type) := mk_axis { ax_first : T; ax_last : T; ax_spacing : T; ax_nb : Z; ax_sign : T }.
Arguments mk_axis {T}. Arguments ax_first {T}. Arguments ax_last {T}. Arguments ax_spacing {T}.
Arguments ax_nb {T}. Arguments ax_sign {T}.

(* the two attributes of an osgeo.gdal dataset read by utils/rasterio._get_area_def_from_gdal *)
Record raster_ds := mk_ds { RasterXSize : Z; RasterYSize : Z }.

(* AreaDefinition.area_extent = (xmin, ymin, xmax, ymax) *)
Definition area_extent {T : Type} (a : area T) : T * T * T * T := (xmin a, ymin a, xmax a, ymax a).
Definition area_of_extent {T : Type} (e : T * T * T * T) (w h : Z) : area T :=
  let '(x0, y0, x1, y1) := e in mk_area x0 y0 x1 y1 w h.

(* affine.Affine(a, b, c, d, e, f): x' = a*col + b*row + c ; y' = d*col + e*row + f *)
Definition affine6 (T : Type) : Type := (T * T * T * T * T * T)%type.
Definition mk_affine6 {T : Type} (a b c d e f : T) : affine6 T := (a, b, c, d, e, f).
