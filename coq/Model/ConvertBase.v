(* Data carried between pyresample and the other libraries' grid descriptions (C20).
   Definitions only; imported by the regenerated Gen/GenC20.v and by Model/Convert.v. *)
From Coq Require Import ZArith Bool List.
From PR Require Import Base.Num Model.Grid.
Open Scope Z_scope.

(* the dict returned by utils/cf._load_cf_axis_info, keys 'first' 'last' 'spacing' 'nb' 'sign' *)
Record cf_axis (T : Type) := mk_axis { ax_first : T; ax_last : T; ax_spacing : T; ax_nb : Z; ax_sign : T }.
Arguments mk_axis {T}. Arguments ax_first {T}. Arguments ax_last {T}. Arguments ax_spacing {T}.
Arguments ax_nb {T}. Arguments ax_sign {T}.

(* axis_info = {'x': <axis dict>, 'y': <axis dict>} of utils/cf._load_cf_area_one_variable_areadef *)
Record cf_axes (T : Type) := mk_axes { axes_x : cf_axis T; axes_y : cf_axis T }.
Arguments mk_axes {T}. Arguments axes_x {T}. Arguments axes_y {T}.

(* what utils/rasterio._get_area_def_from_rasterio reads of a rasterio dataset; .bounds is computed by rasterio *)
Record rio_ds (T : Type) := mk_rio { rio_height : Z; rio_width : Z; rio_bounds : T * T * T * T }.
Arguments mk_rio {T}. Arguments rio_height {T}. Arguments rio_width {T}. Arguments rio_bounds {T}.

(* the two attributes of an osgeo.gdal dataset read by utils/rasterio._get_area_def_from_gdal *)
Record raster_ds := mk_ds { RasterXSize : Z; RasterYSize : Z }.

(* AreaDefinition.area_extent = (xmin, ymin, xmax, ymax) *)
Definition area_extent {T : Type} (a : area T) : T * T * T * T := (xmin a, ymin a, xmax a, ymax a).
Definition area_of_extent {T : Type} (e : T * T * T * T) (w h : Z) : area T :=
  let '(x0, y0, x1, y1) := e in mk_area x0 y0 x1 y1 w h.

(* affine.Affine(a, b, c, d, e, f): x' = a*col + b*row + c ; y' = d*col + e*row + f *)
Definition affine6 (T : Type) : Type := (T * T * T * T * T * T)%type.
Definition mk_affine6 {T : Type} (a b c d e f : T) : affine6 T := (a, b, c, d, e, f).
