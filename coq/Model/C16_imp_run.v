(* executable wrappers that RUN the definitions regenerated from /repo by the imperative front end (Gen/GenC16imp.v) on the
   same cases as the hand models *)
From Coq Require Import ZArith List Bool PrimFloat.
From PR Require Import Base.Num Base.F64 Base.ListX Base.Imp Model.Boundary Model.ImpBoundary Model.C16_run Gen.GenC16imp.
Import ListNotations.
Open Scope Z_scope.

(* _filter_sides_nans, generated: same inputs as chk_nan *)
Definition chk_imp_nan (c : Z * Z * option Z * list pix * list pix * option (list (list pix))) : bool :=
  let '(h, w, vps, nlon, nlat, exp) := c in
  let s := map (map (nan_coord nlon nlat)) (f_sides h w vps) in
  match value_of (imp_filter_sides_nans F64 (map (map fst) s) (map (map snd) s)), exp with
  | COk (r1, r2), Some e => sides_eqb (map (fun p => map coord_pix (combine (fst p) (snd p))) (combine r1 r2)) e
  | CRaised, None => true
  | _, _ => false
  end.

(* AreaBoundary.decimate, generated: an object with one side of L vertices whose coordinates are their positions and a memoised
   polygon; afterwards the side holds the expected positions and the memo is gone *)
Definition chk_imp_decimate (c : Z * Z * list Z) : bool :=
  let '(L, ratio, exp) := c in
  let side := map Z2F (zrange L) in
  match state_of (imp_decimate F64 (mk_ab [side] [side] (Some tt)) ratio) with
  | COk s' =>
      let b := imp_decimate_self s' in
      list_eqb (list_eqb Z.eqb) (map (map (floorZ F64)) (ab_lons b)) [exp]
      && list_eqb (list_eqb Z.eqb) (map (map (floorZ F64)) (ab_lats b)) [exp]
      && match ab_poly b with None => true | Some _ => false end
  | _ => false
  end.
