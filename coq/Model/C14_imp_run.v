(* C14 wave 3: the GENERATED object-level methods (Gen/GenC14imp.v) run on the binary64 instance against the same
   observations of the implementation as the hand model (Model/C14_run.v: fcase).  The abstract world is instantiated per
   case by tables: a PROJ parameter dict is (number of proj_info merges, prime meridian moved); CRS parsing succeeds and is
   the identity; the transformer returns the case's captured points; geographic flag and area of use are the case's. *)
From Coq Require Import ZArith List Bool PrimFloat.
From PR Require Import Base.Num Base.F64 Base.ListX Base.Imp Model.Grid Model.DynBase Gen.GenC14 Model.Dynamic Model.C14_run
     Model.DynImp Gen.GenC14imp.
Import ListNotations.
Open Scope Z_scope.

Definition pdF := (nat * bool)%type.
Definition case_world (geo : bool) (aou : aou_t float) (pts : list (float * float)) : world float :=
  mk_world float pdF pdF pdF (list float) (option (list float * list float) * (list float * list float)) unit
    (0%nat, false) (0%nat, false) (0%nat, false) [] tt
    (fun p => Some p) (fun d => Some d) (fun c => c) (fun p => p)
    (fun d e => (fst d + fst e, snd d || snd e)%nat) (fun d => d) (fun _ => (0%nat, true))
    (fun _ => geo) (fun _ _ _ => pts)
    (fun g => fst g) (fun g => snd g) (fun _ p => p) (fun _ => aou) (fun _ _ _ => None).

Definition obj_of_dyn (W : world float) (p : proj W) (d : dyn float) : dyn_obj W :=
  mk_dobj W p (init_res (d_res d)) (d_width d) (d_height d) (d_extent d) false.

(* the same comparison as chk_freeze, through the generated freeze; the (lons, lats) pair is a placeholder: the
   transformer table ignores it *)
Definition chk_imp_freeze (c : fcase) : bool :=
  let '(d, fres, fshape, geo, mode, aou, pts, expected) := c in
  let W := case_world geo aou pts in
  match value_of (imp_freeze F64 W wrap360_F (obj_of_dyn W (0%nat, false) d) (Some (LL_pair W [] [])) fres fshape None mode), expected with
  | COk (FzArea _ p w h e), Some (e', w', h', pm) => ext_same e e' && (w =? w') && (h =? h') && Bool.eqb (snd p) pm
  | CRaised, None => true
  | _, _ => false
  end.

(* _extract_lons_lats: which of the three sources is used (0 = the pair, 1 = bounding_box attribute, 2 = get_lonlats) *)
Definition chk_imp_extract (c : Z * bool * Z) : bool :=
  let '(kind, has_bbox, expected) := c in
  let W := case_world false (mk_aou 0%float 0%float) [] in
  let g : geodef W := (if has_bbox then Some ([1%float], [1%float]) else None, ([2%float], [2%float])) in
  let l := if kind =? 0 then LL_pair W [0%float] [0%float] else LL_obj W g in
  match value_of (imp_extract_lons_lats W l) with
  | COk (a, _) => match a with [x] => PrimFloat.eqb x (Z2F expected) | _ => false end
  | _ => false
  end.
