(* C11: the definitions regenerated from the SwathSlicer loops (Gen/GenC11imp.v), RUN against the implementation on the
   same cases as the hand model: the swath is its chunk tuple, the oracles are trivial, a chunk polygon is its hit bit *)
From Coq Require Import ZArith List Bool.
From PR Require Import Base.ListX Base.Slice Base.Imp Model.Crop Model.CropImp Model.C11_run Gen.GenC11imp.
Import ListNotations.
Open Scope Z_scope.

Definition run_bboxes (chunks : list (list Z)) : Imp.cres (list ((unit * unit) * (pslice * pslice))) :=
  value_of (imp_chunk_bboxes (fun sw : list (list Z) => sw) (fun sw _ _ => sw) (fun _ _ => (tt, tt)) (fun e => e) [] tt chunks).
Definition run_swath (hit : list bool) (boxes : list (pslice * pslice)) : Imp.cres (pslice * pslice) :=
  value_of (imp_swath_slices_from_polygon (fun p _ : bool => p) false true (combine hit boxes)).

Definition chk_imp_swath (c : list (list Z) * list bool * list (list Z) * list Z) : bool :=
  let '(chunks, hit, boxes, exp) := c in
  match run_bboxes chunks with
  | COk bb =>
      list_eqb zl_eqb (map box_code (map snd bb)) boxes &&
      zl_eqb (match run_swath hit (map snd bb) with
              | COk (cs, ls) => [1; sstart cs; sstop cs; sstart ls; sstop ls]
              | CRaised => [0; 0; 0; 0; 0]
              | CFuel => [-1] end) exp
  | _ => false
  end.
