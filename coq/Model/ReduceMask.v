(* C03: the decision skeleton of data_reduce._get_valid_index, written once over an arithmetic [OP];
   sin / cos / arcsin are oracles (libm), the numpy remainder is a parameter instantiated exactly in C03_run.v.
   Two variants: [legacy_win] = the function as it was in the snapshot (longitude buffer r/(sin(max|lat|) R),
   side 4 taken as west / side 2 as east, `if prev:`), [fixed_win] = the function after the repair
   (angular radius of the chord, spherical longitude bound with pole guard, longitude range of the unwrapped
   boundary, `if prev is not None`).  Definitions only. *)
From Coq Require Import ZArith List Bool.
From PR Require Import Base.Num.
Import ListNotations.
Open Scope Z_scope.

Section Reduce.
  Context {T : Type} (OP : ops T).
  Variables (f_sin f_cos f_asin : T -> T).
  Variable pymod : T -> T -> T.

  Definition cz (z : Z) : T := ofZ OP z.
  Definition REarth : T := ofZ OP 6370997.
  Definition rad2deg : T := lit OP 8063664102031864 (-47).       (* 180.0 / pi in binary64 *)
  Definition deg2rad : T := lit OP 5030569068109113 (-58).       (* pi / 180.0 in binary64 *)
  Definition degrees (x : T) : T := mul OP x rad2deg.            (* np.degrees *)
  Definition radians (x : T) : T := mul OP x deg2rad.            (* np.radians *)

  Record sides := mk_sides { lo1 : list T; lo2 : list T; lo3 : list T; lo4 : list T;
                             la1 : list T; la2 : list T; la3 : list T; la4 : list T }.

  (* ((side < lo) | (side > hi)).any() *)
  Definition outside (lo hi : T) (l : list T) : bool := existsb (fun x => ltb OP x lo || ltb OP hi x) l.
  Definition illegal (s : sides) : bool :=
    (outside (cz (-180)) (cz 180) (lo1 s) || outside (cz (-180)) (cz 180) (lo2 s)
     || outside (cz (-180)) (cz 180) (lo3 s) || outside (cz (-180)) (cz 180) (lo4 s))
    || (outside (cz (-90)) (cz 90) (la1 s) || outside (cz (-90)) (cz 90) (la2 s)
        || outside (cz (-90)) (cz 90) (la3 s) || outside (cz (-90)) (cz 90) (la4 s)).

  (* ndarray.min() / .max(): np.minimum.reduce *)
  Definition np_min2 (a b : T) : T := if ltb OP a b || isnan OP a then a else b.
  Definition np_max2 (a b : T) : T := if ltb OP b a || isnan OP a then a else b.
  Definition np_min (l : list T) : T := match l with [] => nan OP | x :: r => fold_left np_min2 r x end.
  Definition np_max (l : list T) : T := match l with [] => nan OP | x :: r => fold_left np_max2 r x end.
  (* builtin min(a, b, ...) / max(a, b, ...): keeps the first unless a later one is strictly smaller / larger *)
  Definition py_min (a b : T) : T := fmin OP a b.
  Definition py_max (a b : T) : T := fmax OP a b.

  (* the body of the boundary loop *)
  Definition wrap_delta (lon prev : T) : T :=
    let delta := sub OP lon prev in
    if ltb OP (cz 180) (absf OP delta)
    then mul OP (sub OP (absf OP delta) (cz 360)) (ofZ OP (floorZ OP (div OP delta (absf OP delta))))
    else delta.
  Definition truthy (p : T) : bool := negb (eqb OP p (cz 0)).     (* `if prev:` on a float *)
  Definition always (p : T) : bool := true.                       (* `if prev is not None:` *)

  Fixpoint side_loop (test : T -> bool) (side : list T) (prev : option T) (st : T * T * T) : T * T * T :=
    match side with
    | [] => st
    | lon :: r =>
        let st' := match prev with
                   | Some p => if test p
                               then let '(s, mn, mx) := st in
                                    let s' := add OP s (wrap_delta lon p) in (s', py_min mn s', py_max mx s')
                               else st
                   | None => st
                   end in
        side_loop test r (Some lon) st'
    end.
  Definition angle_loop (test : T -> bool) (s : sides) : T * T * T :=
    fold_left (fun st side => side_loop test side None st) [lo1 s; lo2 s; lo3 s; lo4 s] (cz 0, cz 0, cz 0).

  (* the window that is then applied to every point *)
  Record win := mk_win { cls : Z;        (* 0 north pole, 1 south pole, 2 no pole, 3 keep everything *)
                         latlo : T; lathi : T;
                         lonmode : Z;    (* 0 [a,b]; 1 [a,180] or [-180,b]; 2 all; 3 (lon - a) % 360 <= b *)
                         wa : T; wb : T }.
  Definition keep_all : win := mk_win 3 (cz 0) (cz 0) 2 (cz 0) (cz 0).

  Definition in_lat (w : win) (lat : T) : bool :=
    match cls w with
    | 0 => leb OP (latlo w) lat
    | 1 => leb OP lat (lathi w)
    | 2 => leb OP (latlo w) lat && leb OP lat (lathi w)
    | _ => true
    end.
  Definition in_lon (w : win) (lon : T) : bool :=
    match cls w with
    | 2 => match lonmode w with
           | 0 => leb OP (wa w) lon && leb OP lon (wb w)
           | 1 => (leb OP (wa w) lon && leb OP lon (cz 180)) || (leb OP lon (wb w) && leb OP (cz (-180)) lon)
           | 2 => true
           | _ => leb OP (pymod (sub OP lon (wa w)) (cz 360)) (wb w)
           end
    | _ => true
    end.
  Definition keep (w : win) (p : T * T) : bool := in_lat w (snd p) && in_lon w (fst p).
  (* which test rejects the point: 0 none, 1 latitude window, 2 longitude window, 3 both *)
  Definition reason (w : win) (p : T * T) : Z :=
    (if in_lat w (snd p) then 0 else 1) + (if in_lon w (fst p) then 0 else 2).

  Definition classify (angle_sum : T) : Z :=
    let r := rintZ OP angle_sum in
    if r =? -360 then 0 else if r =? 360 then 1 else if r =? 0 then 2 else 3.

  Definition lat_min_of (s : sides) : T := py_min (py_min (py_min (np_min (la1 s)) (np_min (la2 s))) (np_min (la3 s))) (np_min (la4 s)).
  Definition lat_max_of (s : sides) : T := py_max (py_max (py_max (np_max (la1 s)) (np_max (la2 s))) (np_max (la3 s))) (np_max (la4 s)).

  (* ---- the snapshot's function *)
  Definition legacy_win (s : sides) (radius : T) : win :=
    if illegal s then keep_all else
    let '(angle_sum, _, _) := angle_loop truthy s in
    let lat_buf := degrees (div OP radius REarth) in
    let lat_min_buffered := sub OP (lat_min_of s) lat_buf in
    let lat_max_buffered := add OP (lat_max_of s) lat_buf in
    let max_angle_s2 := py_max (absf OP (np_max (la2 s))) (absf OP (np_min (la2 s))) in
    let max_angle_s4 := py_max (absf OP (np_max (la4 s))) (absf OP (np_min (la4 s))) in
    let lon_min_buffered := sub OP (np_min (lo4 s)) (degrees (div OP radius (mul OP (f_sin (radians max_angle_s4)) REarth))) in
    let lon_max_buffered := add OP (np_max (lo2 s)) (degrees (div OP radius (mul OP (f_sin (radians max_angle_s2)) REarth))) in
    let mode := if ltb OP (np_max (lo4 s)) (np_min (lo2 s)) then 0 else 1 in       (* lons_side2.min() > lons_side4.max() *)
    mk_win (classify angle_sum) lat_min_buffered lat_max_buffered mode lon_min_buffered lon_max_buffered.

  (* ---- the repaired function *)
  Definition fixed_win (s : sides) (radius : T) : win :=
    if illegal s then keep_all else
    let '(angle_sum, angle_sum_min, angle_sum_max) := angle_loop always s in
    let angular_radius := mul OP (cz 2) (f_asin (py_min (div OP radius (mul OP (cz 2) REarth)) (cz 1))) in
    let lat_buffer := degrees angular_radius in
    let lat_min := lat_min_of s in
    let lat_max := lat_max_of s in
    let lat_min_buffered := sub OP lat_min lat_buffer in
    let lat_max_buffered := add OP lat_max lat_buffer in
    let c := classify angle_sum in
    if negb (c =? 2) then mk_win c lat_min_buffered lat_max_buffered 2 (cz 0) (cz 0) else
    let lon_start := hd (nan OP) (lo1 s) in
    let lon_west := add OP lon_start angle_sum_min in
    let lon_east := add OP lon_start angle_sum_max in
    let max_abs_lat := py_max (absf OP lat_min) (absf OP lat_max) in
    (* _get_valid_lons *)
    if leb OP (cz 90) (add OP max_abs_lat (degrees angular_radius)) then mk_win 2 lat_min_buffered lat_max_buffered 2 (cz 0) (cz 0) else
    let lon_buffer := degrees (f_asin (py_min (div OP (f_sin angular_radius) (f_cos (radians max_abs_lat))) (cz 1))) in
    let lon_range := add OP (sub OP lon_east lon_west) (mul OP (cz 2) lon_buffer) in
    if leb OP (cz 360) lon_range then mk_win 2 lat_min_buffered lat_max_buffered 2 (cz 0) (cz 0)
    else mk_win 2 lat_min_buffered lat_max_buffered 3 (sub OP lon_west lon_buffer) lon_range.
End Reduce.
