(* C03 (wave 3): glue between the translated get_neighbour_info (Gen/GenC03imp.v) and the TRANSLATED helpers it uses
   (Gen/GenC19.v: imp_get_slice, imp_append_row, imp_to_array).  No hand model of those helpers appears here: the loop
   iterates what the generated generator yields and every append / to_array runs the generated method.  Definitions only. *)
From Coq Require Import ZArith List Bool.
From PR Require Import Base.ZX Base.Slice Base.Imp Model.Partition Gen.GenC19.
Import ListNotations.
Open Scope Z_scope.

(* `for x in geometry._get_slice(segments, shape)`: the values the generated generator yields (fuel: one more than the
   number of segments is enough for every run that does not raise, Proofs/C19_imp_slice) *)
Definition gs_fuel (segments : Z) : nat := S (S (Z.to_nat segments)).
Definition gen_slices (segments : Z) (shape : list Z) : list (pslice + pslice * oslice) :=
  match yields_of (imp_get_slice (gs_fuel segments) segments shape) with Some ys => ys | None => [] end.
Definition gen_slices_ok (segments : Z) (shape : list Z) : bool :=
  match yields_of (imp_get_slice (gs_fuel segments) segments shape) with Some _ => true | None => false end.

Section RAA.
  Context {A : Type}.
  (* obj.append_row(rows): the generated method run on the object; its final `self` is the new object *)
  Definition app_row_ok (r : @raa A) (rows : list (option A)) (ndim : Z) : bool :=
    match imp_append_row r rows ndim with Fall _ _ => true | _ => false end.
  Definition app_row_val (r : @raa A) (rows : list (option A)) (ndim : Z) : @raa A :=
    match imp_append_row r rows ndim with Fall _ st => imp_append_row_self st | _ => r end.
  (* obj.to_array(): the generated method's return value *)
  Definition to_arr_ok (r : @raa A) : bool := match value_of (imp_to_array r) with COk _ => true | _ => false end.
  Definition to_arr (r : @raa A) : list (option A) := match value_of (imp_to_array r) with COk v => v | _ => [] end.
End RAA.

(* `try: A except EmptyResult: H` for a single-statement A (same reading as Model/ImpStack.try_): H runs from the state
   at the try when A raises *)
Definition try_ {St Y R} (a h : M St Y R) : M St Y R :=
  fun s => match a s with Raised => h s | r => r end.
