(* executable wrappers comparing the C10 models (binary64 instance) with observations of the implementation *)
From Coq Require Import ZArith List Bool PrimFloat.
From PR Require Import Base.Num Base.F64 Base.ListX Base.Slice Model.Grid Model.SliceArea Model.Stack Model.LonlatPaths Gen.GenC10.
Import ListNotations.
Open Scope Z_scope.

(* observation of an AreaDefinition: area_extent (4 floats), width, height, crop_offset (rows, cols), crs token *)
Definition fobs := (float * float * float * float * Z * Z * Z * Z * Z)%type.
Definition garea_obs (g : garea float) : fobs :=
  (xmin (g_area g), ymin (g_area g), xmax (g_area g), ymax (g_area g), gwidth g, gheight g,
   fst (g_off g), snd (g_off g), g_crs g).
Definition mkg (o : fobs) : garea float :=
  let '(x0, y0, x1, y1, w, h, orow, ocol, crs) := o in mk_garea (mk_area x0 y0 x1 y1 w h) (orow, ocol) 1 2 3 crs.
Definition obs_eqb (a b : fobs) : bool :=
  let '(x0, y0, x1, y1, w, h, orow, ocol, crs) := a in
  let '(x0', y0', x1', y1', w', h', orow', ocol', crs') := b in
  same_bits x0 x0' && same_bits y0 y0' && same_bits x1 x1' && same_bits y1 y1' &&
  (w =? w') && (h =? h') && (orow =? orow') && (ocol =? ocol') && (crs =? crs').
(* extent and shape only (crop_offset of a freshly constructed area is (0, 0)) *)
Definition obs_opt_eqb (a : option (garea float)) (b : option fobs) : bool :=
  match a, b with
  | Some g, Some o => obs_eqb (garea_obs g) o
  | None, None => true
  | _, _ => false
  end.

(* a chain of successive slices: after every step the regenerated AND the hand-written __getitem__ agree
   with the implementation bit for bit *)
Fixpoint chk_chain (g : garea float) (steps : list (oslice * oslice * fobs)) : bool :=
  match steps with
  | [] => true
  | (k, o) :: r =>
      let g' := gen_area_getitem F64 g k in
      obs_eqb (garea_obs g') o && obs_eqb (garea_obs (area_getitem F64 g k)) o && chk_chain g' r
  end.
Definition chk_getitem (c : fobs * list (oslice * oslice * fobs)) : bool := chk_chain (mkg (fst c)) (snd c).

(* 1-D projection vectors of an area *)
Definition chk_vectors (c : fobs * list float * list float) : bool :=
  let '(o, xs, ys) := c in
  list_eqb same_bits (gvec_x F64 (mkg o)) xs && list_eqb same_bits (gvec_y F64 (mkg o)) ys.

(* the regenerated concatenate_area_defs (axis=0) and the hand model *)
Definition chk_concat (c : fobs * fobs * option fobs) : bool :=
  let '(a, b, e) := c in
  obs_opt_eqb (gen_concatenate_area_defs F64 (mkg a) (mkg b) 0) e && obs_opt_eqb (concatenate_area_defs F64 (mkg a) (mkg b)) e.

(* StackedAreaDefinition of the given members: the members after all appends (None = NotImplementedError), height, width *)
Definition chk_stack (c : list fobs * option (list fobs * Z * Z)) : bool :=
  let '(members, e) := c in
  match stack_append_all F64 stack_empty (map mkg members), e with
  | Some s, Some (defs, h, w) =>
      list_eqb obs_eqb (map garea_obs (stack_defs s)) defs && (stack_height s =? h) && (stack_width s =? w)
  | None, None => true
  | _, _ => false
  end.

(* rows selected by StackedAreaDefinition.get_lonlats; cells are tagged by provenance *)
Definition zgrid_eqb (a b : list (list Z)) : bool := list_eqb (list_eqb Z.eqb) a b.
Definition chk_stack_rows (c : list (list (list Z)) * option (Z * Z * oslice) * list (list Z)) : bool :=
  let '(ms, ds, e) := c in
  zgrid_eqb (stack_lonlats (match ds with Some (a, b, cs) => Some (mk_slice a b, cs) | None => None end) ms) e.

(* numpy slicing of an n x m array (cell (r, c) tagged r * 1000 + c) by a chain of keys: swaths *)
Definition tag_grid (n m : Z) : list (list Z) :=
  map (fun r => map (fun c => r * 1000 + c) (zrange 0 (Z.to_nat m))) (zrange 0 (Z.to_nat n)).
Definition chk_np_chain (c : Z * Z * list (oslice * oslice) * list (list Z)) : bool :=
  let '(n, m, keys, e) := c in
  zgrid_eqb (fst (fold_left (fun acc k => swath_getitem k acc) keys (tag_grid n m, tag_grid n m))) e.
Definition chk_swath_concat (c : list (list Z) * list (list Z) * list (list Z)) : bool :=
  let '(a, b, e) := c in zgrid_eqb (fst (swath_concat (a, a) (b, b))) e.

(* dask path: the projection coordinate arrays assembled from the blocks of the chunking dask actually used *)
Definition fgrid_eqb (a b : list (list float)) : bool := list_eqb (list_eqb same_bits) a b.
Definition chk_dask (c : fobs * list Z * list Z * list (list float) * list (list float)) : bool :=
  let '(o, cy, cx, ex, ey) := c in
  fgrid_eqb (dask_grid F64 (fun x _ => x) (g_area (mkg o)) cy cx) ex &&
  fgrid_eqb (dask_grid F64 (fun _ y => y) (g_area (mkg o)) cy cx) ey.

(* cache= histories on one AreaDefinition: after every call, is the memo (self.lons) set? *)
Fixpoint memo_trace (g : garea float) (memo : option (list (list float)))
         (ops_ : list (option (oslice * oslice) * bool * bool)) : bool :=
  match ops_ with
  | [] => true
  | (ds, flag, seen) :: r =>
      let '(memo', _) := area_call F64 (fun x _ => x) g memo ds flag in
      Bool.eqb (match memo' with Some _ => true | None => false end) seen && memo_trace g memo' r
  end.
Definition chk_memo (c : fobs * list (option (oslice * oslice) * bool * bool)) : bool := memo_trace (mkg (fst c)) None (snd c).
