(* executable wrappers comparing the C13 models (binary64 instance, PROJ tables as oracles) with
   observations of the implementation *)
From Coq Require Import ZArith List Bool PrimFloat String.
From PR Require Import Base.Num Base.F64 Base.ListX Model.AreaConfig Model.AreaYaml.
Import ListNotations.
Open Scope Z_scope.

Definition F2 := (float * float)%type.
Definition F4 := (float * float * float * float)%type.
(* recorded Proj calls: input, output (None = ProjError) *)
Definition tbl := list (F2 * option F2).
Fixpoint lookup (t : tbl) (p : F2) : option F2 :=
  match t with
  | [] => None
  | (k, v) :: r => if PrimFloat.eqb (fst k) (fst p) && PrimFloat.eqb (snd k) (snd p) then v else lookup r p
  end.

Definition bits2 (a b : F2) : bool := same_bits (fst a) (fst b) && same_bits (snd a) (snd b).
Definition bits4 (a b : F4) : bool :=
  let '(a0, a1, a2, a3) := a in let '(b0, b1, b2, b3) := b in
  same_bits a0 b0 && same_bits a1 b1 && same_bits a2 b2 && same_bits a3 b3.
Definition opt_eqb {A} (f : A -> A -> bool) (a b : option A) : bool :=
  match a, b with Some x, Some y => f x y | None, None => true | _, _ => false end.
Definition zz_eqb (a b : Z * Z) : bool := (fst a =? fst b) && (snd a =? snd b).

Definition outcome_eqb (a b : outcome float) : bool :=
  match a, b with
  | Raised, Raised => true
  | Area e s, Area e' s' => bits4 e e' && zz_eqb s s'
  | Dynamic e s d, Dynamic e' s' d' => opt_eqb bits4 e e' && opt_eqb zz_eqb s s' && opt_eqb bits2 d d'
  | _, _ => false
  end.

Definition facF (km m : float * float) (u : cu) : float * float := match u with Ckm => km | _ => m end.

(* (geographic, unit name of the CRS's first axis, factor for km, factor for m, forward table, inverse table, arguments, observed) *)
Definition ccase := (bool * uname * (float * float) * (float * float) * tbl * tbl * args (T:=float) * outcome float)%type.
Definition run_create (c : ccase) : outcome float :=
  let '(geo, un, fkm, fm, tf, ti, a, _) := c in
  create_area_def F64 (lookup tf) (lookup ti) (facF fkm fm) geo (get_proj_units geo un) a.
Definition chk_create (c : ccase) : bool :=
  let '(_, _, _, _, _, _, _, obs) := c in outcome_eqb (run_create c) obs.

(* ------------------------------------------------------------------ dump / load at the dict level *)
(* (area as dumped: id, description, to_epsg, units of crs.to_dict(), shape, extent;  observed parsed YAML entry) *)
Definition chk_dump (c : area_rec (T:=float) * yentry (T:=float)) : bool :=
  let '(a, obs) := c in yentry_eqb same_bits (dump_dict a) obs.

(* (parsed YAML entries of the whole file, regions, per entry CRS facts of the loaded CRS
    (geographic, crs units, factor km, factor m), observed loaded areas) *)
Definition lcase := (list (yentry (T:=float)) * list Z * list (pentry * (bool * uname * (float * float) * (float * float))) * res (list (loaded (T:=float))))%type.
Fixpoint facts_of (t : list (pentry * (bool * uname * (float * float) * (float * float)))) (p : pentry) : bool * cu * (cu -> float * float) :=
  match t with
  | [] => (false, Cm, facF (1, 1)%float (1, 1)%float)
  | (k, (g, u, fkm, fm)) :: r => if pentry_eqb k p then (g, get_proj_units g u, facF fkm fm) else facts_of r p
  end.
Definition run_load (c : lcase) : res (list (loaded (T:=float))) :=
  let '(file, regions, facts, _) := c in load_file F64 (facts_of facts) file regions.
Definition loaded_eqb (a b : loaded (T:=float)) : bool :=
  (l_id a =? l_id b) && (l_desc a =? l_desc b) && opt_eqb Z.eqb (l_projid a) (l_projid b) && pentry_eqb (l_proj a) (l_proj b) && outcome_eqb (l_out a) (l_out b).
Definition chk_load (c : lcase) : bool :=
  let '(_, _, _, obs) := c in
  match run_load c, obs with
  | Ok l, Ok l' => list_eqb loaded_eqb l l'
  | Err, Err => true
  | _, _ => false
  end.

(* ------------------------------------------------------------------ the pole-snap witness (Properties/C13.v, clause 2)
   geographic CRS, degrees, no PROJ call on that path: grid extent (-20, 79.99995, 20, 99.99995), shape (20, 40),
   once as centre + radius + shape, once as extent + shape *)
Definition snap_crs_args : args (T:=float) :=
  @mk_args float None None None (Some (20, 40)%float) None (Some ((0, 0x1.67fff2e48e8a7p+6)%float, None)) None
           (Some ((20, 10)%float, None)) None.
Definition snap_es_args : args (T:=float) :=
  @mk_args float None None (Some ((-20, 0x1.3ffff2e48e8a7p+6, 20, 0x1.8ffff2e48e8a7p+6)%float, None)) (Some (20, 40)%float)
           None None None None None.
Definition run_geo (a : args (T:=float)) : outcome float :=
  create_area_def F64 (fun _ => None) (fun _ => None) (fun _ => (1, 1)%float) true Cdeg a.
