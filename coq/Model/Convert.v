(* C20: conversions between an AreaDefinition and CF / rasterio (gdal) / odc-geo / cartopy grid descriptions.
   Definitions only, written once over the arithmetic record.  The scalar kernels are the definitions regenerated
   from the source tree (Gen/GenC20.v):
     gen_cf_axis_arith   utils/cf._load_cf_axis_info             delta / spacing / sign
     gen_cf_extent       utils/cf._get_area_extent_from_cf_axis  half-pixel extent reconstruction
     gen_geos_scale      utils/cf._convert_XY_CF_to_Proj         which keys are multiplied by the satellite height (loop unrolled)
     gen_cf_areadef      utils/cf._load_cf_area_one_variable_areadef  width <- x.nb, height <- y.nb, extent <- (x, y)
     gen_gdal_area       utils/rasterio._get_area_def_from_gdal  geotransform -> extent and (rows, cols) (rasterio's .bounds is the same expression)
     gen_gdal_rotated / gen_rio_rotated                          the `not (b == d == 0)` refusal of rotated rasters
     gen_rio_area        utils/rasterio._get_area_def_from_rasterio   (dataset.bounds, (dataset.height, dataset.width))
     gen_cartopy_bounds  geometry.AreaDefinition.to_cartopy_crs  bounds reordering
     gen_geobox          geometry.AreaDefinition.to_odc_geobox   Affine(psx, 0, extent[0], 0, -psy, extent[3]) and shape (height, width)
   What is hand-written here is the plumbing around them (which element of a coordinate vector is read, the loop of
   _convert_XY_CF_to_Proj, the unit conversion of the two extent corners in create_area_def, the affine transform of
   an area, affine application).  External engines are arguments, never axioms:
     uconv : T*T -> T*T   the PROJ unit conversion create_area_def applies to a corner point (km -> CRS units). *)
From Coq Require Import ZArith Bool List.
From PR Require Import Base.Num Model.Grid Model.ConvertBase Gen.GenC20.
Import ListNotations.
Open Scope Z_scope.

Section Convert.
  Context {T : Type} (OP : ops T).
  Let zero := ofZ OP 0.

  (* ---------------------------------------------------------------- CF: what is written *)
  (* pixel-centre coordinate vectors of an area (= AreaDefinition.get_proj_vectors), optionally divided by a
     unit factor (1000 for km, the satellite height for geostationary scanning angles) *)
  Definition cf_x (a : area T) (c : Z) : T := proj_x OP a c.
  Definition cf_y_ns (a : area T) (r : Z) : T := proj_y OP a r.                       (* north-to-south storage *)
  Definition cf_y_sn (a : area T) (r : Z) : T := proj_y OP a (height a - 1 - r).      (* south-to-north storage: y[::-1] *)
  Definition cf_x_rev (a : area T) (c : Z) : T := proj_x OP a (width a - 1 - c).      (* descending x: x[::-1] *)
  Definition scaled (k : T) (v : Z -> T) (i : Z) : T := div OP (v i) k.

  (* ---------------------------------------------------------------- CF: what is read *)
  (* _load_cf_axis_info: first = v[0], last = v[-1], nb = len(v); spacing/sign generated *)
  Definition load_axis (v : Z -> T) (nb : Z) : cf_axis T :=
    let first := v 0 in
    let last := v (nb - 1) in
    let '(spacing, sign) := gen_cf_axis_arith OP first last nb in
    mk_axis first last spacing nb sign.

  (* Python raises ZeroDivisionError in `delta = float(last - first) / (nb - 1)` when nb = 1 and in
     `sign = delta / spacing` when spacing == 0.0 (python floats, not numpy scalars) *)
  Definition load_axis_raises (v : Z -> T) (nb : Z) : bool :=
    (nb - 1 =? 0) || eqb OP (ax_spacing (load_axis v nb)) zero.

  (* _convert_XY_CF_to_Proj for a geostationary grid mapping with angular coordinates:
     for k in ('first', 'last', 'spacing'): axis_info[k] *= satellite_height *)
  Definition scale_axis (hgt : T) (x : cf_axis T) : cf_axis T := gen_geos_scale OP x hgt.

  (* _load_cf_area_one_variable_areadef: shape = (y.nb, x.nb), extent generated *)
  Definition cf_area_of_axes (x y : cf_axis T) : area T :=
    let '(w, h, e) := gen_cf_areadef OP (mk_axes x y) in area_of_extent e w h.

  (* coordinates already in CRS units (metres for a metre CRS, degrees for a geographic one):
     create_area_def leaves the extent untouched *)
  Definition cf_load (xs ys : Z -> T) (w h : Z) : area T :=
    cf_area_of_axes (load_axis xs w) (load_axis ys h).

  (* geostationary scanning angles *)
  Definition cf_load_geos (hgt : T) (xs ys : Z -> T) (w h : Z) : area T :=
    cf_area_of_axes (scale_axis hgt (load_axis xs w)) (scale_axis hgt (load_axis ys h)).

  (* coordinate units differ from the CRS units (km on a metre CRS): create_area_def converts the lower-left and
     the upper-right corner, each as one (x, y) point, through the unit conversion *)
  Definition convert_extent (uconv : T * T -> T * T) (a : area T) : area T :=
    let '(llx, lly) := uconv (xmin a, ymin a) in
    let '(urx, ury) := uconv (xmax a, ymax a) in
    mk_area llx lly urx ury (width a) (height a).
  Definition cf_load_units (uconv : T * T -> T * T) (xs ys : Z -> T) (w h : Z) : area T :=
    convert_extent uconv (cf_load xs ys w h).

  (* ---------------------------------------------------------------- rasters *)
  (* the affine transform a raster of the area is written with: Affine(psx, 0, xmin, 0, -psy, ymax) *)
  Definition area_affine (a : area T) : affine6 T :=
    (pixel_size_x OP a, zero, xmin a, zero, neg OP (pixel_size_y OP a), ymax a).
  (* the same grid stored south-to-north: row 0 is the southernmost row *)
  Definition area_affine_sn (a : area T) : affine6 T :=
    (pixel_size_x OP a, zero, xmin a, zero, pixel_size_y OP a, ymin a).

  (* affine.Affine.__mul__ on a point: (vx * a + vy * b + c, vx * d + vy * e + f) *)
  Definition affine_apply (tr : affine6 T) (col row : T) : T * T :=
    let '(a, b, c, d, e, f) := tr in
    (add OP (add OP (mul OP col a) (mul OP row b)) c, add OP (add OP (mul OP col d) (mul OP row e)) f).

  Definition rotated (tr : affine6 T) : bool :=                     (* gdal branch *)
    let '(a, b, c, d, e, f) := tr in gen_gdal_rotated OP b d.         (* not (b == d == 0) *)
  Definition rotated_rio (tr : affine6 T) : bool :=                 (* rasterio branch *)
    let '(a, b, c, d, e, f) := tr in gen_rio_rotated OP b d.

  (* _get_area_def_from_gdal / _get_area_def_from_rasterio (dataset.bounds): extent from transform + size *)
  Definition raster_load (tr : affine6 T) (w h : Z) : area T :=
    let '(a, b, c, d, e, f) := tr in
    let '(ext, (rows, cols)) := gen_gdal_area OP c a f e (mk_ds w h) in
    area_of_extent ext cols rows.
  (* the rasterio branch takes the extent from dataset.bounds (computed by rasterio) and the shape from the dataset *)
  Definition rio_load (ds : rio_ds T) : area T :=
    let '(ext, (rows, cols)) := gen_rio_area ds in area_of_extent ext cols rows.

  (* ---------------------------------------------------------------- odc-geo *)
  (* to_odc_geobox: GeoBox(shape = (height, width), affine = Affine(psx, 0, extent[0], 0, -psy, extent[3])) *)
  Definition geobox_affine (a : area T) : affine6 T := fst (gen_geobox OP a).
  Definition geobox_shape (a : area T) : Z * Z := snd (gen_geobox OP a).

  (* ---------------------------------------------------------------- cartopy *)
  Definition cartopy_bounds (a : area T) : T * T * T * T := gen_cartopy_bounds a.
End Convert.
