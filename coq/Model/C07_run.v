(* executable wrappers comparing the bucket model with observations of the implementation (C07) *)
From Coq Require Import ZArith List Bool PrimFloat.
From PR Require Import Base.Num Base.F64 Base.ListX Model.Grid Model.Bucket Gen.GenC07.
Import ListNotations.
Open Scope Z_scope.

(* ---- indices: binary64 instance of _get_indices, bit-exact *)
Definition idx_case := (area float * list (float * float * (Z * Z * Z)))%type.
Definition chk_idx_pt (a : area float) (q : float * float * (Z * Z * Z)) : bool :=
  let '(x, y, (ex, ey, ei)) := q in
  let '(xi, yi) := bk_xy_idx F64 a (x, y) in
  (xi =? ex) && (yi =? ey) && (bk_idx F64 a (x, y) =? ei).
Definition chk_idx (c : idx_case) : bool := let '(a, pts) := c in forallb (chk_idx_pt a) pts.

(* ---- statistics *)
Definition dat_same (a b : dat) : bool :=
  match a, b with Some x, Some y => x =? y | None, None => true | _, _ => false end.
Definition ofl_same (m : option float) (e : float) : bool :=
  match m with Some v => same_bits v e | None => f_isnan e end.

Record scase := mk_scase {
  s_size : Z; s_idxs : list Z;
  s_data : list dat; s_fill : dat; s_skipna : bool; s_ebv : dat;      (* get_sum / get_average input *)
  s_chunks : list nat;                                                (* data chunk lengths *)
  e_count : list Z; e_sum : list dat; e_avg : list float;
  s_fdata : list dat;                                                 (* finite data for min / max / abs max / fractions *)
  e_min : list dat; e_max : list dat; e_absmax : list dat;
  s_cats : list Z; s_ffill : dat; e_frac : list (list float) }.

Definition chk_count (c : scase) : bool :=
  list_eqb Z.eqb (bk_cells (s_size c) (bk_count (s_size c) (s_idxs c))) (e_count c).
Definition chk_sum (c : scase) : bool :=
  list_eqb dat_same (bk_cells (s_size c) (bk_get_sum (s_size c) (s_idxs c) (s_data c) (s_fill c) (s_skipna c) (s_ebv c))) (e_sum c).
Definition chk_avg (c : scase) : bool :=
  list_eqb ofl_same (bk_cells (s_size c) (bk_get_average F64 (s_size c) (s_idxs c) (s_data c) (s_fill c) (s_skipna c))) (e_avg c).
Definition chk_min (c : scase) : bool :=
  list_eqb dat_same (bk_cells (s_size c) (bk_get_min (s_size c) (s_idxs c) (s_fdata c))) (e_min c).
Definition chk_max (c : scase) : bool :=
  list_eqb dat_same (bk_cells (s_size c) (bk_get_max (s_size c) (s_idxs c) (s_fdata c))) (e_max c).
Definition chk_absmax (c : scase) : bool :=
  list_eqb dat_same (bk_cells (s_size c) (bk_get_abs_max (s_size c) (s_idxs c) (s_fdata c))) (e_absmax c).
Definition chk_frac (c : scase) : bool :=
  list_eqb (fun cat e => list_eqb ofl_same
                           (bk_cells (s_size c) (bk_get_fraction F64 (s_size c) (s_idxs c) (s_fdata c) cat (s_ffill c))) e)
           (s_cats c) (e_frac c).

(* dask: the histogram is computed chunk by chunk and summed *)
Fixpoint split_chunks {A} (lens : list nat) (l : list A) : list (list A) :=
  match lens with
  | [] => match l with [] => [] | _ => [l] end
  | n :: r => firstn n l :: split_chunks r (skipn n l)
  end.
Definition chk_chunked (c : scase) : bool :=
  let size := s_size c in
  let cnt := bk_hist_chunked Z.add 0 size (split_chunks (s_chunks c) (map (fun i => (i, 1)) (s_idxs c))) in
  let sm := bk_hist_chunked oadd (Some 0) size (split_chunks (s_chunks c) (combine (s_idxs c) (bk_weights (s_fill c) (s_data c)))) in
  let sm_flat := bk_hist oadd (Some 0) size (combine (s_idxs c) (bk_weights (s_fill c) (s_data c))) in
  list_eqb Z.eqb (bk_cells size cnt) (e_count c) && list_eqb dat_same (bk_cells size sm) (bk_cells size sm_flat).

Definition chk_all (c : scase) : list bool :=
  [chk_count c; chk_sum c; chk_avg c; chk_min c; chk_max c; chk_absmax c; chk_frac c; chk_chunked c].
(* indices (case number) of failing cases, per statistic *)
Definition bad_stats (cases : list scase) : list (list Z) :=
  map (fun j => bad (fun c => nth j (chk_all c) false) cases) (seq 0 8).

(* ---- the regenerated scalar kernels on binary64, against the implementation and against the model *)
Definition dat_emb (d : dat) : float := match d with Some v => Z2F v | None => PrimFloat.nan end.
Definition kcase := (float * float * bool * float * option (dat * dat))%type.
Definition chk_kernel (c : kcase) : bool :=
  let '(x, y, e_inv, e_abs, od) := c in
  Bool.eqb (gen_get_invalid_mask F64 x y) e_inv &&
  same_bits (gen_abs_max_from_min_max F64 x y) e_abs &&
  match od with
  | Some (dx, dy) =>
      Bool.eqb (gen_get_invalid_mask F64 (dat_emb dx) (dat_emb dy)) (bk_invalid dy dx) &&
      same_bits (gen_abs_max_from_min_max F64 (dat_emb dx) (dat_emb dy)) (dat_emb (bk_absmax_of dx dy))
  | None => true
  end.

(* ---- a history of calls on one object: the state machine of Model/Bucket.v against the recorded results *)
Inductive hres := HZ (l : list Z) | HD (l : list dat) | HF (l : list float).
Definition res_same (a : @bk_result float) (b : hres) : bool :=
  match a, b with
  | ResZ x, HZ y => list_eqb Z.eqb x y
  | ResD x, HD y => list_eqb dat_same x y
  | ResF x, HF y => list_eqb ofl_same x y
  | _, _ => false
  end.
Definition hcase := (Z * list (list Z) * list bk_call * list hres)%type.
Definition chk_history (c : hcase) : bool :=
  let '(size, chunks0, calls, exp) := c in list_eqb res_same (bk_run F64 (mk_obj size chunks0 None) calls) exp.
