(* C13 model: pyresample/area_config.py (create_area_def and the helpers it calls), written once
   over the arithmetic record so that it runs bit-exactly in binary64 and is reasoned about over R.
   Every definition names the Python function it mirrors; statement order and operation order are
   the code's.  PROJ (Proj forward / inverse, the unit-conversion factor of Transformer) is an oracle:
   Section variables here, finite tables captured from the real library in the correspondence.
   Exceptions are the value [Err]. *)
From Coq Require Import ZArith Bool List.
From PR Require Import Base.Num.
Import ListNotations.
Open Scope Z_scope.

Inductive res (A : Type) : Type := Ok (a : A) | Err.
Arguments Ok {A}. Arguments Err {A}.
Definition bind {A B} (r : res A) (f : A -> res B) : res B := match r with Ok a => f a | Err => Err end.
Notation "'do' x <- r ; k" := (bind r (fun x => k)) (at level 200, x pattern, r at level 100, k at level 200).

(* unit strings seen by _extract_and_validate_units *)
Inductive utok := UTdeg | UTdegrees | UTm | UTmeters | UTmetres | UTkm | UTbaddeg (* contains "deg", e.g. "degree" *)
              | UTcrs (* the unit name of a projected CRS that is neither metre nor kilometre, e.g. "US survey foot" *).
(* canonical units after _extract_and_validate_units; also the range of _get_proj_units for the CRS pool *)
Inductive cu := Cdeg | Cm | Ckm | Cother.
Definition cu_eqb (a b : cu) : bool :=
  match a, b with Cdeg, Cdeg | Cm, Cm | Ckm, Ckm | Cother, Cother => true | _, _ => false end.
(* _get_proj_units: 'degrees' for a geographic CRS, else crs.axis_info[0].unit_name with the metre / kilometre
   spellings mapped to 'm' / 'km' and every other name kept as it is *)
Inductive uname := UNmetre | UNmeter | UNkilometre | UNkilometer | UNother.
Definition get_proj_units (geographic : bool) (n : uname) : cu :=
  if geographic then Cdeg else
  match n with UNmetre | UNmeter => Cm | UNkilometre | UNkilometer => Ckm | UNother => Cother end.
(* parameter names that _convert_units distinguishes *)
Inductive pname := Ncenter | Nul | Nextent | Nradius | Nresolution.
Definition is_dist (n : pname) : bool := match n with Nradius | Nresolution => true | _ => false end.

(* what create_area_def returns *)
Inductive outcome (T : Type) : Type :=
| Raised
| Area (ext : T * T * T * T) (shape : Z * Z)
| Dynamic (ext : option (T * T * T * T)) (shape : option (Z * Z)) (resolution : option (T * T)).
Arguments Raised {T}. Arguments Area {T}. Arguments Dynamic {T}.

Section AreaConfig.
  Context {T : Type} (OP : ops T).
  Notation P2 := (T * T)%type.
  Notation P4 := (T * T * T * T)%type.

  (* numpy.allclose defaults, and the constants of the module, as exact binary64 values *)
  Definition rtol : T := lit OP 5902958103587057 (-69).     (* 1e-05 *)
  Definition atol : T := lit OP 3022314549036573 (-78).     (* 1e-08 *)
  Definition c_1em8 : T := lit OP 3022314549036573 (-78).   (* 1e-8  in _round_shape *)
  Definition c_001 : T := lit OP 5764607523034235 (-59).    (* .01   in _round_shape *)
  Definition c_1em4 : T := lit OP 7378697629483821 (-66).   (* .0001 in _round_poles *)
  Definition c_1em3 : T := lit OP 1152921504606847 (-60).   (* 1e-3  in _distance_from_center_forward *)
  Definition zeroT : T := ofZ OP 0.
  Definition twoT : T := ofZ OP 2.
  Definition ninety : T := ofZ OP 90.

  (* numpy.isclose(x, y, equal_nan=True):
       (less_equal(abs(x - y), atol + rtol * abs(y)) & isfinite(y) | (x == y)) | (isnan(x) & isnan(y)) *)
  Definition isclose (x y : T) : bool :=
    (leb OP (absf OP (sub OP x y)) (add OP atol (mul OP rtol (absf OP y))) && isfinite OP y)
    || eqb OP x y || (isnan OP x && isnan OP y).
  Definition allclose2 (a b : P2) : bool := isclose (fst a) (fst b) && isclose (snd a) (snd b).
  Definition allclose4 (a b : P4) : bool :=
    let '(a0, a1, a2, a3) := a in let '(b0, b1, b2, b3) := b in
    isclose a0 b0 && isclose a1 b1 && isclose a2 b2 && isclose a3 b3.

  (* _validate_variable: the value found always replaces the value given *)
  Definition validate2 (var : option P2) (new_var : P2) : res P2 :=
    match var with
    | Some v => if allclose2 v new_var then Ok new_var else Err
    | None => Ok new_var
    end.
  Definition validate4 (var : option P4) (new_var : P4) : res P4 :=
    match var with
    | Some v => if allclose4 v new_var then Ok new_var else Err
    | None => Ok new_var
    end.
  Definition zz2t (s : Z * Z) : P2 := (ofZ OP (fst s), ofZ OP (snd s)).
  Definition validate_shape (var : option (Z * Z)) (new_var : Z * Z) : res (Z * Z) :=
    match var with
    | Some v => if allclose2 (zz2t v) (zz2t new_var) then Ok new_var else Err
    | None => Ok new_var
    end.

  (* _round_shape, one dimension:
       if abs(width - round(width)) > 1e-8:
           if width - math.floor(width) >= .01: width = math.ceil(width)
       width = int(round(width))                                                    *)
  Definition round_dim (w : T) : Z :=
    if ltb OP c_1em8 (absf OP (sub OP w (ofZ OP (rintZ OP w)))) &&
       leb OP c_001 (sub OP w (ofZ OP (floorZ OP w)))
    then ceilZ OP w else rintZ OP w.
  (* shape is (height, width); a non-finite entry makes round() raise *)
  Definition round_shape (shape : P2) : res (Z * Z) :=
    if isfinite OP (fst shape) && isfinite OP (snd shape)
    then Ok (round_dim (fst shape), round_dim (snd shape)) else Err.

  (* ---------------------------------------------------------------- units *)
  (* _extract_and_validate_units (the DataArray override is resolved by the caller) *)
  Definition extract_units (u : utok) (geographic : bool) : res cu :=
    match u with
    | UTdeg | UTdegrees => Ok Cdeg
    | _ => if geographic then Err else
           match u with
           | UTbaddeg => Err
           | UTkm => Ok Ckm
           | UTcrs => Ok Cother
           | _ => Ok Cm
           end
    end.
  Definition default_units (crs_units : cu) : utok :=
    match crs_units with Cdeg => UTdegrees | Cm => UTm | Ckm => UTkm | Cother => UTcrs end.

  (* oracles: Proj(crs)(x, y, errcheck=True), its inverse, and the factor PROJ's unitconvert applies
     when going from the given canonical unit to the CRS unit.  None = ProjError. *)
  Variable pfwd : P2 -> option P2.
  Variable pinv : P2 -> option P2.
  (* PROJ converts through metres: at most two unitconvert steps, e.g. km -> m -> us-ft; a missing step is the factor 1 *)
  Variable fac : cu -> T * T.
  Variable geographic : bool.
  Variable crs_units : cu.

  Definition oget (o : option P2) : res P2 := match o with Some v => Ok v | None => Err end.
  Definition signT (x : T) : T := if ltb OP x zeroT then ofZ OP (-1) else ofZ OP 1.     (* _sign *)
  Definition near_pole (lat tol : T) : bool := ltb OP (absf OP (sub OP (absf OP lat) ninety)) tol.

  (* _convert_coordinate_for_metered_units *)
  Definition convert_metered (var : P2) (u : cu) : P2 :=
    if cu_eqb crs_units u then var
    else (mul OP (mul OP (fst var) (fst (fac u))) (snd (fac u)), mul OP (mul OP (snd var) (fst (fac u))) (snd (fac u))).

  (* _round_poles *)
  Definition round_poles (center : P2) (is_angle : bool) : res P2 :=
    if is_angle then
      Ok (if near_pole (snd center) c_1em4 then (fst center, mul OP (signT (snd center)) ninety) else center)
    else
      do c <- oget (pinv center);
      let c := if near_pole (snd c) c_1em4 then (fst c, mul OP (signT (snd c)) ninety) else c in
      oget (pfwd c).

  (* _distance_from_center_forward *)
  Definition distance_from_center_forward (var : P2) (center : option P2) : res P2 :=
    let center := match center with Some c => c | None => (zeroT, zeroT) end in
    do ca <- oget (pinv center);
    if near_pole (snd ca) c_1em3 then
      let d := signT (snd ca) in
      do a <- oget (pfwd (zeroT, sub OP (snd ca) (mul OP d (absf OP (fst var)))));
      do b <- oget (pfwd (zeroT, sub OP (snd ca) (mul OP d (absf OP (snd var)))));
      Ok (sub OP (snd center) (snd a), sub OP (snd center) (snd b))
    else
      do a <- oget (pfwd (sub OP (fst ca) (fst var), snd ca));
      do b <- oget (pfwd (fst ca, sub OP (snd ca) (snd var)));
      Ok (sub OP (fst center) (fst a), sub OP (snd center) (snd b)).

  (* a parameter as handed to _convert_units: values, and the units attribute if it is a DataArray *)
  Definition param := (P2 * option utok)%type.

  (* _convert_units (inverse=False) *)
  Definition convert_units (var : option param) (name : pname) (units : utok) (center : option P2)
    : res (option P2) :=
    match var with
    | None => Ok None
    | Some (v, attr) =>
      let units := match attr with Some u => u | None => units end in
      do u <- extract_units units geographic;
      let is_angle := cu_eqb u Cdeg in
      let v := if is_angle then v else convert_metered v u in
      do v <- (match name with Ncenter => round_poles v is_angle | _ => Ok v end);
      do v <- (if is_angle then
                 if is_dist name then
                   (if geographic then Ok v else distance_from_center_forward v center)
                 else if geographic then Ok v else oget (pfwd v)
               else Ok v);
      Ok (Some (if is_dist name then (absf OP (fst v), absf OP (snd v)) else v))
    end.

  (* the calls of _extrapolate_information as seen from one fixed None-pattern of its arguments (the generated
     specialisations in Gen/GenC13.v call these): the argument is known not to be None, so is the result *)
  Definition conv1 (name : pname) (var : param) (units : utok) (center : option P2) : res P2 :=
    do r <- convert_units (Some var) name units center; match r with Some v => Ok v | None => Err end.
  Definition conv_radius_c var units c := conv1 Nradius var units (Some c).
  Definition conv_radius_n var units := conv1 Nradius var units None.
  Definition conv_resolution_c var units c := conv1 Nresolution var units (Some c).
  Definition conv_resolution_n var units := conv1 Nresolution var units None.
  Definition validate2s (given found : P2) : res P2 := validate2 (Some given) found.
  Definition validate4s (given found : P4) : res P4 := validate4 (Some given) found.
  Definition validate_shapes (given found : Z * Z) : res (Z * Z) := validate_shape (Some given) found.
  (* _round_shape(shape, radius=radius, resolution=resolution); the shape handed over is 2 * radius / resolution, computed
     with Python floats: a zero resolution is a ZeroDivisionError before the call *)
  Definition round_shape_kw (shape radius resolution : P2) : res (Z * Z) :=
    if eqb OP (snd resolution) zeroT || eqb OP (fst resolution) zeroT then Err else round_shape shape.

  (* ---------------------------------------------------------------- _extrapolate_information *)
  Definition extrapolate (area_extent : option P4) (shape : option (Z * Z)) (center : option P2)
             (radius resolution : option param) (upper_left_extent : option P2) (units : utok)
    : res (option P4 * option (Z * Z) * option P2) :=
    do (center, radius, upper_left_extent) <-
      (match area_extent with
       | Some (e0, e1, e2, e3) =>                                                   (* 1-A *)
         let new_center := (div OP (add OP e2 e0) twoT, div OP (add OP e3 e1) twoT) in
         do center <- validate2 center new_center;
         do radius <- convert_units radius Nradius units (Some center);
         let new_radius := (div OP (sub OP e2 e0) twoT, div OP (sub OP e3 e1) twoT) in
         do radius <- validate2 radius new_radius;
         let new_ul := (e0, e3) in
         do ul <- validate2 upper_left_extent new_ul;
         Ok (Some center, Some radius, Some ul)
       | None =>
         match upper_left_extent, center with
         | Some ul, Some c =>                                                       (* 1-B *)
           do radius <- convert_units radius Nradius units center;
           let new_radius := (sub OP (fst c) (fst ul), sub OP (snd ul) (snd c)) in
           do radius <- validate2 radius new_radius;
           Ok (center, Some radius, upper_left_extent)
         | _, _ =>
           do radius <- convert_units radius Nradius units center;
           Ok (center, radius, upper_left_extent)
         end
       end);
    do resolution <- convert_units resolution Nresolution units center;
    do (shape, radius) <-
      (match radius, resolution with
       | Some r, Some d =>                                                          (* 2-A *)
         do new_shape <- round_shape_kw (div OP (mul OP twoT (snd r)) (snd d), div OP (mul OP twoT (fst r)) (fst d)) r d;
         do shape <- validate_shape shape new_shape;
         Ok (Some shape, radius)
       | _, _ =>
         match resolution, shape with
         | Some d, Some s =>                                                        (* 2-B *)
           let new_radius := (div OP (mul OP (fst d) (ofZ OP (snd s))) twoT,
                              div OP (mul OP (snd d) (ofZ OP (fst s))) twoT) in
           do radius <- validate2 radius new_radius;
           Ok (shape, Some radius)
         | _, _ => Ok (shape, radius)
         end
       end);
    do area_extent <-
      (match center, radius with
       | Some c, Some r =>                                                          (* 1-C *)
         let new_ext := (sub OP (fst c) (fst r), sub OP (snd c) (snd r),
                         add OP (fst c) (fst r), add OP (snd c) (snd r)) in
         do e <- validate4 area_extent new_ext; Ok (Some e)
       | _, _ =>
         match upper_left_extent, radius with
         | Some ul, Some r =>                                                       (* 1-D *)
           let new_ext := (fst ul, sub OP (snd ul) (mul OP twoT (snd r)),
                           add OP (fst ul) (mul OP twoT (fst r)), snd ul) in
           do e <- validate4 area_extent new_ext; Ok (Some e)
         | _, _ => Ok area_extent
         end
       end);
    Ok (area_extent, shape, resolution).

  (* ---------------------------------------------------------------- create_area_def *)
  (* raw arguments: shape / width / height as given (numbers), the list-like ones with an optional
     units attribute.  A scalar radius / resolution is passed as the pair (x, x) (_format_list). *)
  Record args := mk_args {
    a_width : option T; a_height : option T;
    a_extent : option (P4 * option utok);
    a_shape : option P2;
    a_ul : option param; a_center : option param; a_resolution : option param; a_radius : option param;
    a_units : option utok }.

  (* _make_area with extent and shape: AreaDefinition.__init__ computes
       pixel_size_x = (x1 - x0) / float(width), pixel_offset_x = -x0 / pixel_size_x (and the same for y)
     with Python floats: a zero width / height or a zero pixel size is a ZeroDivisionError *)
  Definition make_area (e : P4) (s : Z * Z) : outcome T :=
    let '(e0, e1, e2, e3) := e in
    if (fst s =? 0) || (snd s =? 0) then Raised
    else if eqb OP (div OP (sub OP e2 e0) (ofZ OP (snd s))) zeroT || eqb OP (div OP (sub OP e3 e1) (ofZ OP (fst s))) zeroT
         then Raised
         else Area e s.

  Definition strip (p : option param) : option P2 := match p with Some (v, _) => Some v | None => None end.

  Definition create_area_def (a : args) : outcome T :=
    let r :=
      let units := match a_units a with Some u => u | None => default_units crs_units end in
      (* height / width: shape = _validate_variable(shape, (height, width), ...) then _verify_list *)
      do shape <- (match a_height a, a_width a with
                   | None, None => Ok (a_shape a)
                   | Some h, Some w => do s <- validate2 (a_shape a) (h, w); Ok (Some s)
                   | _, _ => Err     (* (None, x): not close to anything / not list-like *)
                   end);
      do shape <- (match shape with Some s => do s <- round_shape s; Ok (Some s) | None => Ok None end);
      do center <- convert_units (a_center a) Ncenter units None;
      do ul <- convert_units (a_ul a) Nul units None;
      do area_extent <-
        (match a_extent a with
         | Some ((e0, e1, e2, e3), attr) =>
           do ll <- convert_units (Some ((e0, e1), attr)) Nextent units None;
           do ur <- convert_units (Some ((e2, e3), attr)) Nextent units None;
           match ll, ur with
           | Some ll, Some ur => Ok (Some (fst ll, snd ll, fst ur, snd ur))
           | _, _ => Err
           end
         | None => Ok None
         end);
      match area_extent, shape with
      | Some e, Some s => Ok (Some e, Some s, strip (a_resolution a))
      | _, _ => extrapolate area_extent shape center (a_radius a) (a_resolution a) ul units
      end in
    (* _make_area *)
    match r with
    | Err => Raised
    | Ok (Some e, Some s, _) => make_area e s
    | Ok (e, s, d) => Dynamic e s d
    end.
End AreaConfig.
