(* executable wrappers comparing the C12 model (binary64 instance, digest function H := identity on byte
   images, which is injective) with relations observed on the implementation *)
From Coq Require Import ZArith Bool List PrimFloat.
From PR Require Import Base.Num Base.F64 Base.Slice Base.ListX Model.HashEq Gen.GenC12 Model.C12_slice.
Import ListNotations.
Open Scope Z_scope.

Definition tok_eqb (a b : tok float) : bool :=
  match a, b with
  | TCrs x, TCrs y => x =? y
  | TInt x, TInt y => x =? y
  | TNum x, TNum y => same_bits x y
  | TName x, TName y => x =? y
  | TJson x, TJson y => x =? y
  | _, _ => false
  end.
Definition img_eqb (a b : list (tok float)) : bool := list_eqb tok_eqb a b.

Inductive geo := GA (a : harea float) | GS (s : swath float) | GSt (l : list (harea float)).
Definition geo_image (g : geo) : list (tok float) :=
  match g with GA a => area_image F64 a | GS s => swath_image s | GSt l => stack_image F64 l end.
(* ceq: what pyproj answers for crs(a) == crs(b) (areas only) *)
Definition geo_eq (ceq : bool) (a b : geo) : bool :=
  match a, b with
  | GA x, GA y => area_eq F64 (fun _ _ => ceq) x y
  | GS x, GS y => swath_eq F64 x y
  | _, _ => false
  end.
Definition dflt_geo : geo := GSt [].
Definition pick (pool : list geo) (i : Z) : geo := nth (Z.to_nat i) pool dflt_geo.

(* ---- pairs: (i, j, crs(i)==crs(j), crs(j)==crs(i), observed i==j, observed j==i,
        observed [hash-equal; digest-equal; dask-name-equal; ...]: each must be "image-equal") *)
Definition pair_case := (Z * Z * bool * bool * bool * bool * list bool)%type.
Definition chk_pair (pool : list geo) (c : pair_case) : bool :=
  let '(i, j, c12, c21, e12, e21, rels) := c in
  let a := pick pool i in let b := pick pool j in
  Bool.eqb (geo_eq c12 a b) e12 && Bool.eqb (geo_eq c21 b a) e21 &&
  forallb (Bool.eqb (img_eqb (geo_image a) (geo_image b))) rels.

(* ---- cache keys: (src1, tgt1, kw1, src2, tgt2, kw2, observed key-equal relations) *)
Definition key_case := (Z * Z * Z * Z * Z * Z * list bool)%type.
Definition chk_key (pool : list geo) (c : key_case) : bool :=
  let '(s1, t1, k1, s2, t2, k2, rels) := c in
  let im := fun s t k => key_image (geo_image (pick pool s)) (geo_image (pick pool t)) k in
  forallb (Bool.eqb (img_eqb (im s1 t1 k1) (im s2 t2 k2))) rels.

(* ---- histories on an area.  rt is pyproj's WKT round trip on the tokens of this case *)
Definition lookup (tab : list (Z * Z)) (t : Z) : Z :=
  match find (fun p => fst p =? t) tab with Some p => snd p | None => t end.

Inductive aop := AHash | AEq (j : Z) (c12 c21 : bool) (e12 e21 : bool) | ASlice (ys xs : oslice) | ACopy.
(* observed after each call: memo consistent, digest equal to the ORIGINAL area's, crs token, width, height, extent *)
Definition aobs := (bool * bool * Z * Z * Z * (float * float * float * float))%type.

Definition ext_eqb (a b : float * float * float * float) : bool := list_eqb same_bits (ext_list a) (ext_list b).

Definition a_step (rt : Z -> Z) := step (harea float) (list (tok float)) (oslice * oslice) (area_image F64)
                                        (fun c _ => c) (area_slice F64 rt) (area_copy rt).
Definition a_op (p : aop) : op (harea float) (oslice * oslice) :=
  match p with AHash => OHash | AEq _ _ _ _ _ => OEq (mk_harea 0 0 0 (0, 0, 0, 0)%float (0, 0)) | ASlice ys xs => OSlice (ys, xs) | ACopy => OCopy end.

Fixpoint a_run (pool : list geo) (rt : Z -> Z) (orig : harea float) (o : obj (harea float) (list (tok float)))
         (l : list (aop * aobs)) : bool :=
  match l with
  | [] => true
  | (p, (mok, deq, tk, w, h, e)) :: r =>
      let eq_ok := match p with
                   | AEq j c12 c21 e12 e21 =>
                       Bool.eqb (geo_eq c12 (GA (coords o)) (pick pool j)) e12 && Bool.eqb (geo_eq c21 (pick pool j) (GA (coords o))) e21
                   | _ => true end in
      let o' := a_step rt o (a_op p) in
      let c := coords o' in
      eq_ok
      && Bool.eqb (img_eqb (hash_of _ _ (area_image F64) o') (area_image F64 c)) mok
      && Bool.eqb (img_eqb (area_image F64 c) (area_image F64 orig)) deq
      && (h_crs c =? tk) && (h_w c =? w) && (h_h c =? h) && ext_eqb (h_ext c) e
      && a_run pool rt orig o' r
  end.
Definition area_hist_case := (Z * list (Z * Z) * list (aop * aobs))%type.
Definition chk_area_hist (pool : list geo) (c : area_hist_case) : bool :=
  let '(i, tab, l) := c in
  match pick pool i with
  | GA a => a_run pool (lookup tab) a (new_obj a) l
  | _ => false
  end.

(* ---- histories on a swath *)
Inductive sop := SHash | SEq (j : Z) (e12 e21 : bool) | SAppend (j : Z) | SSlice (ys xs : oslice) (names : Z * Z) | SCopy.
(* observed after each call: memo consistent, hash(obj) == hash(fresh swath of the same arrays), digest equal to the
   ORIGINAL swath's, kind, the coordinates *)
Definition sobs := (bool * bool * bool * Z * list (list float) * list (list float))%type.
Definition rows_eqb (a b : list (list float)) : bool := list_eqb (list_eqb same_bits) a b.

Definition s_slc (c : swath float) (k : oslice * oslice * (Z * Z)) : swath float := swath_slice c (fst k) (snd k).
Definition s_step := step (swath float) (list (tok float)) (oslice * oslice * (Z * Z)) (@swath_image float)
                          (@swath_append float) s_slc (@swath_copy float).
Definition swath_of (g : geo) : swath float := match g with GS s => s | _ => mk_swath 0 0 [] [] 0 0 end.
Definition s_op (pool : list geo) (p : sop) : op (swath float) (oslice * oslice * (Z * Z)) :=
  match p with
  | SHash => OHash | SEq j _ _ => OEq (swath_of (pick pool j)) | SAppend j => OAppend (swath_of (pick pool j))
  | SSlice ys xs nm => OSlice (ys, xs, nm) | SCopy => OCopy
  end.

Fixpoint s_run (pool : list geo) (orig : swath float) (o : obj (swath float) (list (tok float)))
         (l : list (sop * sobs)) : bool :=
  match l with
  | [] => true
  | (p, (mok, fok, deq, kind, lon, lat)) :: r =>
      let eq_ok := match p with
                   | SEq j e12 e21 =>
                       Bool.eqb (swath_eq F64 (coords o) (swath_of (pick pool j))) e12
                       && Bool.eqb (swath_eq F64 (swath_of (pick pool j)) (coords o)) e21
                   | _ => true end in
      let o' := s_step o (s_op pool p) in
      let c := coords o' in
      eq_ok
      && Bool.eqb (img_eqb (hash_of _ _ (@swath_image float) o') (swath_image c)) mok
      && Bool.eqb (img_eqb (hash_of _ _ (@swath_image float) o') (swath_image (swath_copy c))) fok
      && Bool.eqb (img_eqb (swath_image c) (swath_image orig)) deq
      && (s_kind c =? kind) && rows_eqb (s_lon c) lon && rows_eqb (s_lat c) lat
      && s_run pool orig o' r
  end.
Definition swath_hist_case := (Z * list (sop * sobs))%type.
Definition chk_swath_hist (pool : list geo) (c : swath_hist_case) : bool :=
  let '(i, l) := c in
  match pick pool i with
  | GS s => s_run pool s (new_obj s) l
  | _ => false
  end.

(* ---- histories on a stack of areas (appends that do not merge with the last member) *)
Inductive kop := KHash | KAppend (j : Z).
(* observed: memo consistent, digest equal to that of a fresh stack of the same areas, digest equal to the original's *)
Definition kobs := (bool * bool * bool)%type.
Definition k_step := step (list (harea float)) (list (tok float)) unit (stack_image F64) (@app (harea float)) (fun c _ => c) (fun c => c).
Definition area_list_of (g : geo) : list (harea float) := match g with GA a => [a] | GSt l => l | _ => [] end.
Fixpoint k_run (pool : list geo) (orig : list (harea float)) (o : obj (list (harea float)) (list (tok float)))
         (l : list (kop * kobs)) : bool :=
  match l with
  | [] => true
  | (p, (mok, fok, deq)) :: r =>
      let o' := k_step o (match p with KHash => OHash | KAppend j => OAppend (area_list_of (pick pool j)) end) in
      let c := coords o' in
      Bool.eqb (img_eqb (hash_of _ _ (stack_image F64) o') (stack_image F64 c)) mok
      && Bool.eqb (img_eqb (hash_of _ _ (stack_image F64) o') (stack_image F64 c)) fok
      && Bool.eqb (img_eqb (stack_image F64 c) (stack_image F64 orig)) deq
      && k_run pool orig o' r
  end.
Definition stack_hist_case := (list Z * list (kop * kobs))%type.
Definition chk_stack_hist (pool : list geo) (c : stack_hist_case) : bool :=
  let '(init, l) := c in
  let c0 := concat (map (fun i => area_list_of (pick pool i)) init) in
  k_run pool c0 (new_obj c0) l.
