(* (area histories, which execute the regenerated __getitem__, are in Model/C12_run_area.v so that everything here still
   runs when the translation of the source breaks)
   executable wrappers comparing the C12 model (binary64 instance, digest function H := identity on byte
   images, which is injective) with relations observed on the implementation *)
From Coq Require Import ZArith Bool List PrimFloat.
From PR Require Model.Grid Model.SliceArea Model.Stack.
From PR Require Import Base.Num Base.F64 Base.Slice Base.ListX Model.HashEq Model.C12_f32.
Import ListNotations.
Open Scope Z_scope.

Definition tok_eqb (a b : tok float) : bool :=
  match a, b with
  | TCrs x, TCrs y => x =? y
  | TInt x, TInt y => x =? y
  | TNum x, TNum y => same_bits x y
  | TName x, TName y => x =? y
  | TJson x, TJson y => x =? y
  | _, _ => false
  end.
Definition img_eqb (a b : list (tok float)) : bool := list_eqb tok_eqb a b.

(* f32: the extent is a float32 array for numpy (all four numbers np.float32) / the swath arrays are float32 *)
Inductive geo := GA (a : harea float) (f32 : bool) | GS (s : swath float) (f32 : bool) | GSt (l : list (harea float)).
Definition geo_image (g : geo) : list (tok float) :=
  match g with GA a _ => area_image F64 a | GS s _ => swath_image s | GSt l => stack_image F64 l end.

(* np.isclose(x, y) as numpy evaluates it on arrays of possibly different precision: |x - y| in the promoted dtype,
   atol + rtol * |y| in the dtype of y (the Python-float tolerances are cast to it) *)
Definition isclose_np (xs ys : bool) (x y : float) : bool :=
  let OL := if xs && ys then F32 else F64 in
  let OR := if ys then F32 else F64 in
  (PrimFloat.leb (PrimFloat.abs (sub OL x y)) (add OR (atol_area OR) (mul OR (rtol_area OR) (PrimFloat.abs y))) && f_isfinite y)
  || PrimFloat.eqb x y.
Definition area_eq_np (ceq : bool) (a : harea float) (xs : bool) (b : harea float) (ys : bool) : bool :=
  list_eqb (isclose_np xs ys) (ext_list (h_ext a)) (ext_list (h_ext b)) && ceq && ((h_h a =? h_h b) && (h_w a =? h_w b)).

(* ceq: what pyproj answers for crs(a) == crs(b) (areas only) *)
Definition geo_eq (ceq : bool) (a b : geo) : bool :=
  match a, b with
  | GA x xs, GA y ys => if xs || ys then area_eq_np ceq x xs y ys else area_eq F64 (fun _ _ => ceq) x y
  | GS x xs, GS y ys => if xs && ys then swath_eq F32 x y else swath_eq F64 x y
  | _, _ => false
  end.
Definition dflt_geo : geo := GSt [].
Definition pick (pool : list geo) (i : Z) : geo := nth (Z.to_nat i) pool dflt_geo.

(* ---- pairs: (i, j, crs(i)==crs(j), crs(j)==crs(i), observed i==j, observed j==i,
        observed [hash-equal; digest-equal; dask-name-equal; ...]: each must be "image-equal") *)
Definition pair_case := (Z * Z * bool * bool * bool * bool * list bool)%type.
Definition chk_pair (pool : list geo) (c : pair_case) : bool :=
  let '(i, j, c12, c21, e12, e21, rels) := c in
  let a := pick pool i in let b := pick pool j in
  Bool.eqb (geo_eq c12 a b) e12 && Bool.eqb (geo_eq c21 b a) e21 &&
  forallb (Bool.eqb (img_eqb (geo_image a) (geo_image b))) rels.

(* ---- cache keys: (src1, tgt1, kw1, src2, tgt2, kw2, observed key-equal relations) *)
Definition key_case := (Z * Z * Z * Z * Z * Z * list bool)%type.
Definition chk_key (pool : list geo) (c : key_case) : bool :=
  let '(s1, t1, k1, s2, t2, k2, rels) := c in
  let im := fun s t k => key_image (geo_image (pick pool s)) (geo_image (pick pool t)) k in
  forallb (Bool.eqb (img_eqb (im s1 t1 k1) (im s2 t2 k2))) rels.

(* ---- histories on a swath *)
Inductive sop := SHash | SEq (j : Z) (e12 e21 : bool) | SAppend (j : Z) | SSlice (ys xs : oslice) (names : Z * Z) | SCopy.
(* observed after each call: memo consistent, hash(obj) == hash(fresh swath of the same arrays), digest equal to the
   ORIGINAL swath's, kind, the coordinates *)
Definition sobs := (bool * bool * bool * Z * list (list float) * list (list float))%type.
Definition rows_eqb (a b : list (list float)) : bool := list_eqb (list_eqb same_bits) a b.

Definition s_slc (c : swath float) (k : oslice * oslice * (Z * Z)) : swath float := swath_slice c (fst k) (snd k).
Definition s_step := step (swath float) (list (tok float)) (oslice * oslice * (Z * Z)) (@swath_image float)
                          (@swath_append float) s_slc (@swath_copy float).
Definition swath_of (g : geo) : swath float := match g with GS s _ => s | _ => mk_swath 0 0 [] [] 0 0 end.
Definition s_op (pool : list geo) (p : sop) : op (swath float) (oslice * oslice * (Z * Z)) :=
  match p with
  | SHash => OHash | SEq j _ _ => OEq (swath_of (pick pool j)) | SAppend j => OAppend (swath_of (pick pool j))
  | SSlice ys xs nm => OSlice (ys, xs, nm) | SCopy => OCopy
  end.

Fixpoint s_run (pool : list geo) (orig : swath float) (o : obj (swath float) (list (tok float)))
         (l : list (sop * sobs)) : bool :=
  match l with
  | [] => true
  | (p, (mok, fok, deq, kind, lon, lat)) :: r =>
      let eq_ok := match p with
                   | SEq j e12 e21 =>
                       Bool.eqb (swath_eq F64 (coords o) (swath_of (pick pool j))) e12
                       && Bool.eqb (swath_eq F64 (swath_of (pick pool j)) (coords o)) e21
                   | _ => true end in
      let o' := s_step o (s_op pool p) in
      let c := coords o' in
      eq_ok
      && Bool.eqb (img_eqb (hash_of _ _ (@swath_image float) o') (swath_image c)) mok
      && Bool.eqb (img_eqb (hash_of _ _ (@swath_image float) o') (swath_image (swath_copy c))) fok
      && Bool.eqb (img_eqb (swath_image c) (swath_image orig)) deq
      && (s_kind c =? kind) && rows_eqb (s_lon c) lon && rows_eqb (s_lat c) lat
      && s_run pool orig o' r
  end.
Definition swath_hist_case := (Z * list (sop * sobs))%type.
Definition chk_swath_hist (pool : list geo) (c : swath_hist_case) : bool :=
  let '(i, l) := c in
  match pick pool i with
  | GS s _ => s_run pool s (new_obj s) l
  | _ => false
  end.

(* ---- histories on a stack of areas.  StackedAreaDefinition.append, with the merging of a member that continues
   the last one (concatenate_area_defs / combine_area_extents_vertical), is C10's model (Model/Stack.v) *)
Definition garea_of (a : harea float) : SliceArea.garea float :=
  let '(x0, y0, x1, y1) := h_ext a in SliceArea.mk_garea (Grid.mk_area x0 y0 x1 y1 (h_w a) (h_h a)) (h_off a) 0 0 0 (h_crs a).
Definition harea_of (g : SliceArea.garea float) : harea float :=
  mk_harea (SliceArea.g_crs g) (SliceArea.gwidth g) (SliceArea.gheight g) (SliceArea.area_extent (SliceArea.g_area g)) (SliceArea.g_off g).
Definition kstate := @Stack.stack float.
Definition k_defs (s : kstate) : list (harea float) := map harea_of (Stack.stack_defs s).
Definition k_image (s : kstate) : list (tok float) := stack_image F64 (k_defs s).
Definition k_app_list (s : kstate) (ds : list (harea float)) : kstate :=
  match Stack.stack_append_all F64 s (map garea_of ds) with Some s' => s' | None => s end.
(* append(other) with other a StackedAreaDefinition appends its members one by one; a single area is a one-member stack *)
Definition k_app (s o : kstate) : kstate :=
  match Stack.stack_append_all F64 s (Stack.stack_defs o) with Some s' => s' | None => s end.
Definition k_of (ds : list (harea float)) : kstate := k_app_list Stack.stack_empty ds.

Inductive kop := KHash | KAppend (j : Z).
(* observed: memo consistent, hash and digest equal to those of a fresh stack of the same areas, digest equal to the
   original's, number of members after merging *)
Definition kobs := (bool * bool * bool * Z)%type.
Definition k_step := step kstate (list (tok float)) unit k_image k_app (fun c _ => c) (fun c => c).
Definition area_list_of (g : geo) : list (harea float) := match g with GA a _ => [a] | GSt l => l | _ => [] end.
Fixpoint k_run (pool : list geo) (orig : kstate) (fresh : kstate) (o : obj kstate (list (tok float)))
         (l : list (kop * kobs)) : bool :=
  match l with
  | [] => true
  | (p, (mok, fok, deq, nd)) :: r =>
      let o' := k_step o (match p with KHash => OHash | KAppend j => OAppend (k_of (area_list_of (pick pool j))) end) in
      (* the fresh stack: all members appended one by one to an empty stack *)
      let fresh' := match p with KHash => fresh | KAppend j => k_app_list fresh (area_list_of (pick pool j)) end in
      let c := coords o' in
      Bool.eqb (img_eqb (hash_of _ _ k_image o') (k_image c)) mok
      && Bool.eqb (img_eqb (hash_of _ _ k_image o') (k_image fresh')) fok
      && Bool.eqb (img_eqb (k_image c) (k_image orig)) deq
      && (Z.of_nat (length (k_defs c)) =? nd)
      && k_run pool orig fresh' o' r
  end.
Definition stack_hist_case := (list Z * list (kop * kobs))%type.
Definition chk_stack_hist (pool : list geo) (c : stack_hist_case) : bool :=
  let '(init, l) := c in
  let c0 := k_of (concat (map (fun i => area_list_of (pick pool i)) init)) in
  k_run pool c0 c0 (new_obj c0) l.
