(* C03 (wave 3): the TRANSLATED get_neighbour_info (Gen/GenC03imp.v) executed against the implementation.  The per-row
   answers and validity are read from the PLAIN run (tables indexed by target pixel, as in C03_run.chk_segments); the
   generated function, given the requested number of segments, must return the arrays the implementation returned for
   that number of segments. *)
From Coq Require Import ZArith List Bool.
From PR Require Import Base.ZX Base.ListX Base.Slice Base.Imp Model.Partition Model.Organise Model.OrganiseImp Model.C03_run
     Gen.GenC19 Gen.GenC03imp.
Import ListNotations.
Open Scope Z_scope.

Definition key_slice (x : pslice + pslice * oslice) : pslice := match x with inl s => s | inr (s, _) => s end.
Definition b2row (b : bool) : list Z := [if b then 1 else 0].
Definition orow_some_eqb (a : option (list Z)) (b : list Z) : bool := match a with Some x => list_eqb Z.eqb x b | None => false end.

Definition chk_imp_gni (c : Z * nat * nat * list bool * list (list Z) * list bool * list (list Z)) : bool :=
  let '(segments, rows, cols, voi, qtab, voi_seg, ia_seg) := c in
  let g := grid rows cols in
  let rowsq := fun (ts : list nat) =>
      (map (fun t => Some (b2row (nth t voi false))) ts,
       map (fun t => Some (nth t qtab [])) (filter (fun t => nth t voi false) ts),
       map (fun t => Some (nth t qtab [])) (filter (fun t => nth t voi false) ts)) in
  let qs := fun (_ _ _ _ : unit) (sl : pslice + pslice * oslice) (_ : Z) (_ : unit) (_ : bool) (_ : Z) => rowsq (rows_of (key_slice sl) g) in
  let qf := fun (_ _ _ _ : unit) (_ : oslice) (_ : Z) (_ : unit) (_ : bool) (_ : Z) => rowsq (concat g) in
  match value_of (imp_get_neighbour_info (A := list Z) (fun _ : unit => Z.of_nat (rows * cols)) (fun _ : unit => Z.of_nat (rows * cols))
                    (fun _ => [Z.of_nat rows; Z.of_nat cols]) (fun _ _ _ (_ : unit) _ => (tt, tt, tt)) (fun _ _ _ _ => true) (fun _ _ _ _ => tt)
                    (fun _ _ _ => ([], [], [])) qs qf (fun _ => true) 1 tt tt tt tt tt tt 1 tt false 1 (Some segments)) with
  | COk (_, v, i, d) => list_eqb orow_some_eqb v (map b2row voi_seg) && list_eqb orow_some_eqb i ia_seg && list_eqb orow_some_eqb d ia_seg
  | _ => false
  end.
