(* executable wrappers comparing the C03 models with observations of the implementation *)
From Coq Require Import ZArith List Bool PrimFloat SpecFloat FloatOps.
From PR Require Import Base.ZX Base.ListX Base.Slice Base.Num Base.F64 Model.Partition Model.Organise Model.ReduceMask.
Import ListNotations.
Open Scope Z_scope.

(* ---- exact C fmod and numpy's remainder on binary64 ---- *)
Definition fmod_exact (a b : float) : float :=
  match f2ZE a, f2ZE b with
  | Some (ma, ea), Some (mb, eb) =>
      if mb =? 0 then PrimFloat.nan else
      let e := Z.min ea eb in
      let r := Z.rem (ma * 2 ^ (ea - e)) (mb * 2 ^ (eb - e)) in
      if r =? 0 then (if PrimFloat.ltb a 0%float then (-0)%float else 0%float) else litF r e
  | _, _ => PrimFloat.nan
  end.
Definition np_remainder (a b : float) : float :=
  let m := fmod_exact a b in
  if f_isnan m then m
  else if PrimFloat.eqb m 0%float then (if PrimFloat.ltb b 0%float then (-0)%float else 0%float)
  else if Bool.eqb (PrimFloat.ltb b 0%float) (PrimFloat.ltb m 0%float) then m else PrimFloat.add m b.

(* ---- libm values recorded from the implementation ---- *)
Definition table := list (float * float).
Definition lookup (tab : table) (x : float) : float :=
  match find (fun e => same_bits (fst e) x) tab with Some e => snd e | None => PrimFloat.nan end.

Record mask_case := mk_case {
  c_sides : sides (T := float);
  c_radius : float;
  c_sin : table; c_cos : table; c_asin : table;
  c_deg : table; c_rad : table;            (* np.degrees / np.radians calls: argument, value *)
  c_pts : list (float * float);            (* lon, lat *)
  c_mask : list bool                       (* what data_reduce returned *)
}.

Definition win_of (fixed : bool) (c : mask_case) : win (T := float) :=
  if fixed then fixed_win F64 (lookup (c_sin c)) (lookup (c_cos c)) (lookup (c_asin c)) (c_sides c) (c_radius c)
  else legacy_win F64 (lookup (c_sin c)) (c_sides c) (c_radius c).

Definition conv_ok (c : mask_case) : bool :=
  forallb (fun e => same_bits (degrees F64 (fst e)) (snd e)) (c_deg c)
  && forallb (fun e => same_bits (radians F64 (fst e)) (snd e)) (c_rad c).

(* a libm value the model needs but the implementation never computed comes back as NaN and poisons the window *)
Definition win_ok (w : win (T := float)) : bool :=
  negb (f_isnan (latlo w) || f_isnan (lathi w) || f_isnan (wa w) || f_isnan (wb w)).

Definition chk_mask (fixed : bool) (c : mask_case) : bool :=
  let w := win_of fixed c in
  list_eqb Bool.eqb (map (keep F64 np_remainder w) (c_pts c)) (c_mask c) && conv_ok c && win_ok w.

(* attribution: for the listed points, which window rejects them; and the winding class *)
Definition reasons (fixed : bool) (c : mask_case) (idx : list nat) : Z * list Z :=
  let w := win_of fixed c in
  (cls w * 10 + lonmode w, map (fun i => reason F64 np_remainder w (nth i (c_pts c) (PrimFloat.nan, PrimFloat.nan))) idx).

(* ---- Part A against the implementation: the per-target answers and validity are read from the PLAIN run
   (tables indexed by target pixel); the model assembles them under the given number of segments and must
   produce the arrays the implementation returned for that number of segments ---- *)
Definition grid (rows cols : nat) : list (list nat) :=
  map (fun r => map (fun c => (r * cols + c)%nat) (seq 0 cols)) (seq 0 rows).
Definition ob_eqb (a : option bool) (b : bool) : bool := match a with Some x => Bool.eqb x b | None => false end.
Definition orow_eqb (a : option (list Z)) (b : list Z) : bool := match a with Some x => list_eqb Z.eqb x b | None => false end.
Definition chk_segments (c : Z * nat * nat * list bool * list (list Z) * list bool * list (list Z)) : bool :=
  let '(segments, rows, cols, voi, qtab, voi_seg, ia_seg) := c in
  let r := neighbour_info (fun t => nth t qtab []) (fun t => nth t voi false) segments (grid rows cols)
                          (Z.of_nat (rows * cols)) in
  list_eqb ob_eqb (fst r) voi_seg && list_eqb orow_eqb (snd r) ia_seg.
