(* executable wrappers comparing the C11 models with observations of the implementation *)
From Coq Require Import ZArith List Bool PrimFloat.
From PR Require Import Base.Num Base.F64 Base.ListX Base.Slice Model.Grid Model.CropBase Model.Partition Model.Crop
     Gen.GenSubset Gen.GenC11.
Import ListNotations.
Open Scope Z_scope.

Definition farea := (float * float * float * float * Z * Z)%type.
Definition to_area (a : farea) : area float :=
  let '(x0, y0, x1, y1, w, h) := a in mk_area x0 y0 x1 y1 w h.

(* outcome as five integers: (0, xstart, xstop, ystart, ystop) or (stage, 0, 0, 0, 0) *)
Definition code (r : cres) : list Z :=
  match r with
  | Slices sx sy => [0; sstart sx; sstop sx; sstart sy; sstop sy]
  | NoOverlap k => [k; 0; 0; 0; 0]
  end.
Definition zl_eqb (a b : list Z) : bool := list_eqb Z.eqb a b.

(* AreaSlicer.get_slices_from_polygon given shapely's bits and bounds *)
Definition chk_crop (c : bool * bool * farea * (float * float * float * float) * list Z) : bool :=
  let '(valid, inter, a, b, exp) := c in zl_eqb (code (crop_slices F64 valid inter (to_area a) b)) exp.
(* the array coordinates _sanitize_polygon_bounds computes from the bounds, bit for bit *)
Definition chk_arr (c : farea * (float * float * float * float) * (float * float) * (float * float)) : bool :=
  let '(a, b, xb, yb) := c in
  let '(mx, my) := bounds_to_arr F64 (to_area a) b in
  same_bits (fst mx) (fst xb) && same_bits (snd mx) (snd xb) && same_bits (fst my) (fst yb) && same_bits (snd my) (snd yb).
(* _create_slices_from_bounds on explicit array coordinates *)
Definition chk_create (c : (float * float) * (float * float) * list Z) : bool :=
  let '(xb, yb, exp) := c in zl_eqb (code (create_slices F64 xb yb)) exp.

(* same-CRS path of get_area_slices: translated _get_slice_starts_stops, then orientation, then integer slice *)
Definition step_code (o : option Z) : Z := match o with None => 0 | Some s => s end.
Definition chk_starts (c : farea * farea * list Z) : bool :=
  let '(s, t, exp) := c in
  let '(xs, xe, ys, ye) := gen_get_slice_starts_stops F64 (to_area s) (to_area t) in zl_eqb [xs; xe; ys; ye] exp.
Definition chk_gas (c : farea * farea * list Z) : bool :=
  let '(s, t, exp) := c in
  let '(xs, xe, ys, ye) := gen_get_slice_starts_stops F64 (to_area s) (to_area t) in
  let '(a, b, sx) := ensure_integer_Z (check_orientation xs xe) in
  let '(c0, d, sy) := ensure_integer_Z (check_orientation ys ye) in
  zl_eqb [a; b; step_code sx; c0; d; step_code sy] exp.
Definition chk_ensure (c : float * float * (Z * Z)) : bool :=
  let '(a, b, (ea, eb)) := c in
  let s := ensure_integer F64 a b in (sstart s =? ea) && (sstop s =? eb).
Definition chk_orient (c : Z * Z * Z) : bool :=
  let '(a, b, e) := c in let '(_, _, s) := check_orientation a b in step_code s =? e.

(* SwathSlicer: expanded chunk boxes and the hull of the hit ones; expectation (0,..) = IncompatibleAreas *)
Definition box_code (b : pslice * pslice) : list Z := [sstart (fst b); sstop (fst b); sstart (snd b); sstop (snd b)].
Definition chk_swath (c : list (list Z) * list bool * list (list Z) * list Z) : bool :=
  let '(chunks, hit, boxes, exp) := c in
  list_eqb zl_eqb (map box_code (chunk_boxes chunks)) boxes &&
  zl_eqb (match swath_slices chunks hit with
          | Some (cs, ls) => [1; sstart cs; sstop cs; sstart ls; sstop ls]
          | None => [0; 0; 0; 0; 0] end) exp.

(* different-CRS get_area_slices with shape_divisible_by: one axis, undivided slice [a,b) of an axis of [size] pixels *)
Definition chk_div (c : Z * Z * Z * Z * (Z * Z)) : bool :=
  let '(a, b, size, n, (ra, rb)) := c in
  let r := gen_make_slice_divisible (mk_slice a b) size n in (sstart r =? ra) && (sstop r =? rb).
