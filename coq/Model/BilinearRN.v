(* C06 — a real-number arithmetic WITH a NaN: [option R], [None] standing for "not a number".
   It is the instance of [ops] the pipeline theorems of C06 are stated over, so that "the code returned a
   non-NaN (s, t)" is expressible (the plain instance RO has no NaN).  Conventions, chosen to follow IEEE/numpy
   where the bilinear code can observe them:
     - None is absorbing for + - * / neg abs sqrt;
     - x / 0 = None.  (binary64 gives +-inf or NaN; every quotient of the bilinear code goes through
       find_indices_outside_min_and_max(.., 0, 1) -> NaN before it is used in further arithmetic, and
       that filter maps +-inf to NaN, so collapsing inf into None is unobservable there);
     - sqrt of a negative number = None;
     - every comparison with None is false; isnan None = true.
   Definitions only. *)
From Coq Require Import Reals ZArith Bool.
From Flocq Require Import Zaux Raux Generic_fmt Round_NE.
From PR Require Import Base.Num Base.RNum.
Open Scope R_scope.

Definition olift1 (f : R -> R) (a : option R) : option R :=
  match a with Some x => Some (f x) | None => None end.
Definition olift2 (f : R -> R -> R) (a b : option R) : option R :=
  match a, b with Some x, Some y => Some (f x y) | _, _ => None end.
Definition odiv (a b : option R) : option R :=
  match a, b with Some x, Some y => if Req_EM_T y 0 then None else Some (x / y) | _, _ => None end.
Definition osqrt (a : option R) : option R :=
  match a with Some x => if Rlt_dec x 0 then None else Some (sqrt x) | None => None end.
Definition ocmp (f : R -> R -> bool) (a b : option R) : bool :=
  match a, b with Some x, Some y => f x y | _, _ => false end.
Definition oZ (f : R -> Z) (a : option R) : Z := match a with Some x => f x | None => 0%Z end.
Definition oisnan (a : option R) : bool := match a with Some _ => false | None => true end.

Definition RN : ops (option R) := {|
  add := olift2 Rplus; sub := olift2 Rminus; mul := olift2 Rmult; div := odiv;
  neg := olift1 Ropp; absf := olift1 Rabs; sqrtf := osqrt;
  ofZ := fun z => Some (IZR z); lit := fun m e => Some (IZR m * bpow radix2 e);
  floorZ := oZ Zfloor; ceilZ := oZ Zceil; truncZ := oZ Ztrunc; rintZ := oZ ZnearestE;
  ltb := ocmp Rltb; leb := ocmp Rleb; eqb := ocmp Reqb;
  isnan := oisnan; isfinite := fun a => negb (oisnan a); nan := None
|}.

(* ---- vocabulary of the C06 statements (plain reals) *)
Definition bilerp (v1 v2 v3 v4 s t : R) : R := v1 * (1 - s) * (1 - t) + v2 * s * (1 - t) + v3 * (1 - s) * t + v4 * s * t.

(* corners p1 (upper left), p2 (upper right), p3 (lower left), p4 (lower right) lie in the four open quadrants
   around the output location (ox, oy) *)
Definition surrounds (p1 p2 p3 p4 : R * R) (ox oy : R) : Prop :=
  fst p1 < ox /\ oy < snd p1 /\ ox < fst p2 /\ oy < snd p2 /\
  fst p3 < ox /\ snd p3 < oy /\ ox < fst p4 /\ snd p4 < oy.

Definition in01 (x : R) : Prop := 0 <= x <= 1.

(* lifting plain real inputs into RN *)
Definition lift_pt (p : R * R) : option R * option R := (Some (fst p), Some (snd p)).
Definition lift_nb (n : R * R * Z) : option R * option R * Z := let '(x, y, i) := n in (Some x, Some y, i).
