(* C12 -- slicing an area as the implementation does it: the regenerated AreaDefinition.__getitem__
   (Gen/GenC12.v) followed by the constructor's derivation of crs_wkt from the CRS object it is given.
   Definitions only. *)
From Coq Require Import ZArith Bool List.
From PR Require Import Base.Num Base.Slice Model.HashEq Gen.GenC12.
Open Scope Z_scope.

Section Slice.
  Context {T : Type} (OP : ops T).
  (* __getitem__ passes self.crs = CRS.from_wkt(self.crs_wkt) to AreaDefinition(...), which stores
     CRS(that object).to_wkt(): pyproj exports the object to WKT and parses it again, i.e. two
     round trips rt = "CRS(wkt).to_wkt()" of the token *)
  Definition area_slice (rt : Z -> Z) (a : harea T) (key : oslice * oslice) : harea T :=
    set_h_crs (gen12_area_getitem OP a key) (rt (rt (h_crs a))).
End Slice.
