(* C12 -- equality, hashing and cache keys of geometry definitions (pyresample/geometry.py:
   BaseDefinition / CoordinateDefinition / SwathDefinition / AreaDefinition / StackedAreaDefinition
   __hash__, update_hash, __eq__, append, copy, __getitem__; resampler.py: BaseResampler.get_hash;
   future/resamplers/resampler.py: hash_resampler_geometries, hash_dict; _caching.py: _hash_args).

   A geometry is modelled by its BYTE IMAGE: the sequence of byte strings handed to sha1.update, one token
   per string / per number.  digest = H image for a Section variable H (sha1; theorems assume it injective
   where they need it), hash() = int(digest, 16) reduced by CPython to the hash of that int.
   Numeric code is written once over the arithmetic record (Base/Num.v).  Definitions only. *)
From Coq Require Import ZArith Bool List.
From PR Require Import Base.Num Base.Slice Base.ListX.
Import ListNotations.
Open Scope Z_scope.

(* ---- tokens of a byte image *)
Inductive tok (T : Type) : Type :=
| TCrs (id : Z)     (* utf-8 bytes of one crs_wkt string; id indexes the distinct strings pyproj returns *)
| TInt (z : Z)      (* one int64 (np.array(self.shape)) *)
| TNum (x : T)      (* the 8 bytes of one float64 *)
| TName (id : Z)    (* utf-8 bytes of one dask array name *)
| TJson (id : Z).   (* utf-8 bytes of one json.dumps(..., sort_keys=True) text *)
Arguments TCrs {T}. Arguments TInt {T}. Arguments TNum {T}. Arguments TName {T}. Arguments TJson {T}.

(* one number of an area extent as the caller spelled it: Python int / numpy integer, Python float /
   np.float64, np.float32 scalar (carried as the binary64 number with the same value) *)
Inductive num (T : Type) : Type := NInt (z : Z) | NF64 (x : T) | NF32 (x : T).
Arguments NInt {T}. Arguments NF64 {T}. Arguments NF32 {T}.

(* AreaDefinition as far as ==, hash and slicing are concerned.  h_crs is the token of self.crs_wkt. *)
Record harea (T : Type) := mk_harea { h_crs : Z; h_w : Z; h_h : Z; h_ext : T * T * T * T; h_off : Z * Z }.
Arguments mk_harea {T}. Arguments h_crs {T}. Arguments h_w {T}. Arguments h_h {T}. Arguments h_ext {T}. Arguments h_off {T}.

Definition ext_list {T} (e : T * T * T * T) : list T := let '(x0, y0, x1, y1) := e in [x0; y0; x1; y1].
Definition h_none {T} (a : harea T) : Z := 0.          (* area_id, description, proj_id: never hashed or compared *)
(* AreaDefinition(area_id, description, proj_id, crs, width, height, area_extent); crop_offset = (0, 0) *)
Definition new_harea {T} (id desc pid crs w h : Z) (ext : T * T * T * T) : harea T := mk_harea crs w h ext (0, 0).
Definition set_h_off {T} (a : harea T) (o : Z * Z) : harea T := mk_harea (h_crs a) (h_w a) (h_h a) (h_ext a) o.
Definition set_h_crs {T} (a : harea T) (c : Z) : harea T := mk_harea c (h_w a) (h_h a) (h_ext a) (h_off a).
Definition slice3 (start stop step : Z) : pslice := mk_slice start stop.      (* unit step only *)

(* SwathDefinition.  2-D coordinates are lists of rows; a 1-D swath of n points is n rows of one element
   with s_ndim = 1.  s_kind: 0 numpy (also list input), 1 xarray over numpy, 2 xarray over dask, in which
   case the image is made of the two dask names (opaque tokens supplied by dask), 3 xarray with attrs['hash']. *)
Record swath (T : Type) := mk_swath { s_kind : Z; s_ndim : Z; s_lon : list (list T); s_lat : list (list T);
                                      s_nlon : Z; s_nlat : Z }.
Arguments mk_swath {T}. Arguments s_kind {T}. Arguments s_ndim {T}. Arguments s_lon {T}. Arguments s_lat {T}.
Arguments s_nlon {T}. Arguments s_nlat {T}.

(* kinds whose digest is made of two names instead of the coordinate bytes: 2 = xarray over dask (dask names),
   3 = xarray (over numpy) whose DataArrays carry a precomputed attrs['hash'] (get_array_hashable returns it as is) *)
Definition named (k : Z) : bool := (k =? 2) || (k =? 3).
Definition zlen {A} (l : list A) : Z := Z.of_nat (length l).
Definition np_slice {A} (s : oslice) (l : list A) : list A := take_slice (indices s (zlen l)) l.
Definition np_slice2 {A} (key : oslice * oslice) (m : list (list A)) : list (list A) :=
  map (np_slice (snd key)) (np_slice (fst key) m).

Section HashEq.
  Context {T : Type} (OP : ops T).

  (* ---------- numbers *)
  Definition nval (n : num T) : T := match n with NInt z => ofZ OP z | NF64 x => x | NF32 x => x end.
  (* update_hash: np.array(self.area_extent, dtype=np.float64) + 0.0 *)
  Definition canon (x : T) : T := add OP x (ofZ OP 0).

  (* np.isclose(a, b, rtol, atol): (|a - b| <= atol + rtol * |b|) & isfinite(b) | (a == b) *)
  Definition isclose (rtol atol a b : T) : bool :=
    (leb OP (absf OP (sub OP a b)) (add OP atol (mul OP rtol (absf OP b))) && isfinite OP b) || eqb OP a b.
  Definition isclose_nan (rtol atol a b : T) : bool := isclose rtol atol a b || (isnan OP a && isnan OP b).

  (* tolerances as exact dyadic literals of the binary64 numbers the code writes *)
  Definition rtol_area : T := lit OP 5902958103587057 (-69).    (* 1e-05, np.allclose default *)
  Definition atol_area : T := lit OP 3022314549036573 (-78).    (* 1e-08, np.allclose default *)
  Definition rtol_swath : T := lit OP 3022314549036573 (-79).   (* 5e-09 *)
  Definition atol_swath : T := lit OP 4722366482869645 (-72).   (* 1e-06 *)

  (* ---------- AreaDefinition *)
  (* __init__: pixel sizes and centre of the upper left pixel *)
  Definition h_psx (a : harea T) : T := let '(x0, y0, x1, y1) := h_ext a in div OP (sub OP x1 x0) (ofZ OP (h_w a)).
  Definition h_psy (a : harea T) : T := let '(x0, y0, x1, y1) := h_ext a in div OP (sub OP y1 y0) (ofZ OP (h_h a)).
  Definition h_upl (a : harea T) : T * T :=
    let '(x0, y0, x1, y1) := h_ext a in
    (add OP x0 (div OP (h_psx a) (ofZ OP 2)), sub OP y1 (div OP (h_psy a) (ofZ OP 2))).

  (* update_hash: crs_wkt, np.array(self.shape) = (height, width), the extent *)
  Definition area_image (a : harea T) : list (tok T) :=
    [TCrs (h_crs a); TInt (h_h a); TInt (h_w a)] ++ map (fun x => TNum (canon x)) (ext_list (h_ext a)).

  (* __eq__: np.allclose(extents) and crs == crs and shape == shape; crs_eq is pyproj's CRS.__eq__ *)
  Definition area_eq (crs_eq : Z -> Z -> bool) (a b : harea T) : bool :=
    list_eqb (isclose rtol_area atol_area) (ext_list (h_ext a)) (ext_list (h_ext b))
    && crs_eq (h_crs a) (h_crs b) && ((h_h a =? h_h b) && (h_w a =? h_w b)).

  (* an area from the spelled constructor arguments; tok = token of CRS(projection).to_wkt() *)
  Definition area_of (tk w h : Z) (e : num T * num T * num T * num T) : harea T :=
    let '(x0, y0, x1, y1) := e in mk_harea tk w h (nval x0, nval y0, nval x1, nval y1) (0, 0).

  (* copy(): AreaDefinition(projection=self.crs_wkt, ...): the new token is rt(token),
     rt = "CRS(wkt).to_wkt()" as pyproj/PROJ compute it *)
  Definition area_copy (rt : Z -> Z) (a : harea T) : harea T := mk_harea (rt (h_crs a)) (h_w a) (h_h a) (h_ext a) (0, 0).

  (* ---------- SwathDefinition *)
  (* BaseDefinition.update_hash / get_array_hashable: dask names, or the C-contiguous bytes of lons then lats *)
  Definition swath_image (s : swath T) : list (tok T) :=
    if named (s_kind s) then [TName (s_nlon s); TName (s_nlat s)]
    else map TNum (concat (s_lon s)) ++ map TNum (concat (s_lat s)).

  Definition rows_shape_eqb (a b : list (list T)) : bool :=
    list_eqb Nat.eqb (map (@length T) a) (map (@length T) b).
  Definition same_shape (a b : swath T) : bool :=
    (s_ndim a =? s_ndim b) && rows_shape_eqb (s_lon a) (s_lon b) && rows_shape_eqb (s_lat a) (s_lat b).
  Definition allclose_rows (a b : list (list T)) : bool :=
    list_eqb (isclose_nan rtol_swath atol_swath) (concat a) (concat b).
  (* BaseDefinition.__eq__ (the `is` shortcuts are unobservable: identical arrays are allclose / same name) *)
  Definition swath_eq (a b : swath T) : bool :=
    if (s_kind a =? 2) && (s_kind b =? 2) then (s_nlon a =? s_nlon b) && (s_nlat a =? s_nlat b)
    else same_shape a b && allclose_rows (s_lon a) (s_lon b) && allclose_rows (s_lat a) (s_lat b).

  (* CoordinateDefinition.append: np.concatenate along axis 0 (numpy result) *)
  Definition swath_append (a b : swath T) : swath T :=
    mk_swath 0 (s_ndim a) (s_lon a ++ s_lon b) (s_lat a ++ s_lat b) 0 0.
  (* BaseDefinition.__getitem__: lons[y, x], lats[y, x]; names of a sliced dask array come from dask *)
  Definition swath_slice (a : swath T) (key : oslice * oslice) (names : Z * Z) : swath T :=
    mk_swath (s_kind a) (s_ndim a) (np_slice2 key (s_lon a)) (np_slice2 key (s_lat a)) (fst names) (snd names).
  (* SwathDefinition.copy: SwathDefinition(self.lons, self.lats) *)
  Definition swath_copy (a : swath T) : swath T := a.

  (* ---------- StackedAreaDefinition: update_hash chains the areas' update_hash *)
  Definition stack_image (defs : list (harea T)) : list (tok T) := concat (map area_image defs).

  (* ---------- resampler cache key: source.update_hash(); target.update_hash(h); hash_dict(kwargs, h) *)
  Definition key_image (src tgt : list (tok T)) (kw : Z) : list (tok T) := src ++ tgt ++ [TJson kw].
End HashEq.

(* CPython: hash(obj) = hash(obj.__hash__()) and the hash of a non-negative int n is n mod (2^61 - 1) *)
Definition py_hash_int (n : Z) : Z := n mod (2 ^ 61 - 1).

(* ---------- the memoised hash as a state machine, for any kind of geometry:
   C = what the digest is computed from (coordinates / extent+crs / list of areas) *)
Section Memo.
  Variables (C D S : Type).
  Variable dig : C -> D.                (* int(self.update_hash().hexdigest(), 16) *)
  Variable app : C -> C -> C.           (* append *)
  Variable slc : C -> S -> C.           (* __getitem__ *)
  Variable cpy : C -> C.                (* copy *)

  Record obj := mk_obj { coords : C; memo : option D }.
  Inductive op := OHash | OEq (other : C) | OAppend (other : C) | OSlice (s : S) | OCopy.

  Definition new_obj (c : C) : obj := mk_obj c None.                     (* __init__: self.hash = None *)
  (* __hash__: if self.hash is None: self.hash = ...; return self.hash *)
  Definition do_hash (o : obj) : obj := match memo o with None => mk_obj (coords o) (Some (dig (coords o))) | Some _ => o end.
  Definition hash_of (o : obj) : D := match memo o with None => dig (coords o) | Some d => d end.

  (* one call on the instance under observation.  __eq__ does not touch the instance; append mutates it and
     resets the memo; __getitem__ and copy() build a new instance (memo None) which the history continues with *)
  Definition step (o : obj) (p : op) : obj :=
    match p with
    | OHash => do_hash o
    | OEq _ => o
    | OAppend c => mk_obj (app (coords o) c) None
    | OSlice s => new_obj (slc (coords o) s)
    | OCopy => new_obj (cpy (coords o))
    end.
  Definition run (ops : list op) (o : obj) : obj := fold_left step ops o.

  (* append as it was before the repair: the memo survives *)
  Definition step_legacy (o : obj) (p : op) : obj :=
    match p with OAppend c => mk_obj (app (coords o) c) (memo o) | _ => step o p end.

  Definition memo_ok (o : obj) : Prop := memo o = None \/ memo o = Some (dig (coords o)).
End Memo.
Arguments mk_obj {C D}. Arguments coords {C D}. Arguments memo {C D}. Arguments new_obj {C D}.
Arguments OHash {C S}. Arguments OEq {C S}. Arguments OAppend {C S}. Arguments OSlice {C S}. Arguments OCopy {C S}.

(* ---------- vocabulary of the stateful methods regenerated from the source (Gen/GenC12.v: __hash__, append,
   update_hash, hash_dict, hash_resampler_geometries, BaseResampler.get_hash).  A hashlib object is the list of
   tokens fed to it so far; an optional one is `existing_hash=None`. *)
Definition is_noneb {A} (o : option A) : bool := match o with None => true | Some _ => false end.
Definition set_memo {C} (o : obj C Z) (m : option Z) : obj C Z := mk_obj (coords o) m.
(* int(self.update_hash().hexdigest(), 16) *)
Definition digest_int {C} (dig : C -> Z) (o : obj C Z) : option Z := Some (dig (coords o)).

Definition o_ndim {T} (o : obj (swath T) Z) : Z := s_ndim (coords o).
Definition o_lons {T} (o : obj (swath T) Z) : list (list T) := s_lon (coords o).
Definition o_lats {T} (o : obj (swath T) Z) : list (list T) := s_lat (coords o).
(* assigning a freshly concatenated (numpy) array *)
Definition set_o_lons {T} (o : obj (swath T) Z) (l : list (list T)) : obj (swath T) Z :=
  mk_obj (mk_swath 0 (s_ndim (coords o)) l (s_lat (coords o)) 0 0) (memo o).
Definition set_o_lats {T} (o : obj (swath T) Z) (l : list (list T)) : obj (swath T) Z :=
  mk_obj (mk_swath 0 (s_ndim (coords o)) (s_lon (coords o)) l 0 0) (memo o).
(* shape and size are functions of the coordinate arrays in the model: the assignments store nothing new *)
Definition rows_shape {T} (l : list (list T)) : Z * Z := (zlen l, match l with r :: _ => zlen r | nil => 0 end).
Definition rows_size {T} (l : list (list T)) : Z := zlen (concat l).
Definition set_o_shape {T} (o : obj (swath T) Z) (s : Z * Z) : obj (swath T) Z := o.
Definition set_o_size {T} (o : obj (swath T) Z) (s : Z) : obj (swath T) Z := o.
Definition np_concat {T} (p : list (list T) * list (list T)) : list (list T) := fst p ++ snd p.

Definition hl (T : Type) := option (list (tok T)).
Definition sha1_new {T} : hl T := Some nil.
Definition hl_tokens {T} (h : hl T) : list (tok T) := match h with Some l => l | None => nil end.
Definition hl_update {T} (h : hl T) (x : list (tok T)) : hl T := Some (hl_tokens h ++ x).
Definition hexdigest {T} (h : hl T) : list (tok T) := hl_tokens h.            (* H is applied by the reader *)
Definition upd_crs {T} (h : hl T) (a : harea T) : hl T := hl_update h [TCrs (h_crs a)].
Definition upd_shape {T} (h : hl T) (a : harea T) : hl T := hl_update h [TInt (h_h a); TInt (h_w a)].
Definition upd_ext {T} (OP : ops T) (h : hl T) (a : harea T) : hl T := hl_update h (map (fun x => TNum (canon OP x)) (ext_list (h_ext a))).
Definition upd_json {T} (h : hl T) (kw : Z) : hl T := hl_update h [TJson kw].
(* geometry.update_hash() / geometry.update_hash(h) for a geometry given by its byte image *)
Definition geo_upd0 {T} (g : list (tok T)) : hl T := hl_update sha1_new g.
Definition geo_upd {T} (g : list (tok T)) (h : hl T) : hl T := hl_update h g.
(* BaseResampler: self.source_geo_def / self.target_geo_def, and the optional overriding arguments *)
Record resampler (T : Type) := mk_resampler { r_src : option (list (tok T)); r_tgt : option (list (tok T)) }.
Arguments mk_resampler {T}. Arguments r_src {T}. Arguments r_tgt {T}.
Definition ogeo_upd0 {T} (g : option (list (tok T))) : hl T := match g with Some i => geo_upd0 i | None => None end.
Definition ogeo_upd {T} (g : option (list (tok T))) (h : hl T) : hl T := match g with Some i => geo_upd i h | None => None end.
