(* C15: vocabulary of the definitions that tools/py2coq.py (option "shared_protocol", tools/py2coq_c15.py) generates
   from pyresample/_multi_proc.py: the trace of shared-memory actions of one iteration of Scheduler.__iter__.
   Definitions only.  Action codes as in Model/C15_run.v [event]; 10/11 = yield slice(a, b); 12 = return. *)
From Coq Require Import ZArith List Bool.
Import ListNotations.
Open Scope Z_scope.

Definition trace := list (Z * Z).
Definition ev_acquire (tr : trace) : trace := tr ++ [(2, 0)].
Definition ev_read_ndata (tr : trace) (v : Z) : trace := tr ++ [(3, v)].
Definition ev_read_start (tr : trace) (v : Z) : trace := tr ++ [(4, v)].
Definition ev_write_ndata (tr : trace) (v : Z) : trace := tr ++ [(5, v)].
Definition ev_write_start (tr : trace) (v : Z) : trace := tr ++ [(6, v)].
Definition ev_release (tr : trace) : trace := tr ++ [(7, 0)].
Definition ev_yield (tr : trace) (a b : Z) : trace := tr ++ [(10, a); (11, b)].
Definition ev_return (tr : trace) : trace := tr ++ [(12, 0)].

(* lock discipline of one iteration: acquire, then only reads/writes of the shared counters, then release, then
   (with the lock free) either yield slice(a, b) or return.  [cs_outcome] = None when the trace is not of that form,
   Some None when the iteration returned, Some (Some (a, b)) when it yielded slice(a, b). *)
Fixpoint after_body (tr : trace) : option trace :=
  match tr with
  | [] => None
  | (code, _) :: r =>
      if (3 <=? code) && (code <=? 6) then after_body r
      else if code =? 7 then Some r else None
  end.
Definition cs_outcome (tr : trace) : option (option (Z * Z)) :=
  match tr with
  | (c0, _) :: r =>
      if c0 =? 2 then
        match after_body r with
        | Some [(c1, a); (c2, b)] => if (c1 =? 10) && (c2 =? 11) then Some (Some (a, b)) else None
        | Some [(c1, _)] => if c1 =? 12 then Some None else None
        | _ => None
        end
      else None
  | [] => None
  end.
