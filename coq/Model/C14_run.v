(* executable wrappers comparing the C14 model (binary64 instance) with observations of the implementation *)
From Coq Require Import ZArith List Bool PrimFloat.
From PR Require Import Base.Num Base.F64 Base.ListX Model.Grid Model.DynBase Gen.GenC14 Model.Dynamic.
Import ListNotations.
Open Scope Z_scope.

(* C fmod(a, 360): exact (the result is always representable) *)
Definition fmod360 (a : float) : float :=
  match f2ZE a with
  | None => PrimFloat.nan
  | Some (m, e) =>
      if 0 <=? e then Z2F (Z.rem (m * 2 ^ e) 360)
      else litF (Z.rem m (360 * 2 ^ (- e))) e
  end.
(* numpy float remainder a % 360 (npy_divmod): fmod, then shift a negative remainder by +360, zero becomes +0.0 *)
Definition wrap360_F (a : float) : float :=
  let m := fmod360 a in
  if f_isnan m then m
  else if PrimFloat.eqb m 0%float then 0%float
  else if PrimFloat.ltb m 0%float then PrimFloat.add m 360%float else m.

Definition freezeF := freeze F64 wrap360_F.
Definition compute_domainF := @compute_domain float F64.

Definition ext_same (a b : float * float * float * float) : bool :=
  let '(a0, a1, a2, a3) := a in let '(b0, b1, b2, b3) := b in
  same_bits a0 b0 && same_bits a1 b1 && same_bits a2 b2 && same_bits a3 b3.

(* one freeze case: constructor args, freeze args, oracle values, observed result (None = exception) *)
Definition fcase := (dyn float * resarg float * option (option Z * option Z) * bool * amode * aou_t float
                     * list (float * float) * option ((float * float * float * float) * Z * Z * bool))%type.

Definition chk_freeze (c : fcase) : bool :=
  let '(d, fres, fshape, geo, mode, aou, pts, expected) := c in
  match freezeF d fres fshape geo mode aou pts, expected with
  | Some fr, Some (e, w, h, pm) =>
      let a := f_area fr in
      ext_same (xmin a, ymin a, xmax a, ymax a) e && (width a =? w) && (height a =? h) && Bool.eqb (f_pm180 fr) pm
  | None, None => true
  | _, _ => false
  end.

(* compute_domain called directly *)
Definition ccase := (option (float * float) * float * float * resarg float * option (Z * Z) * aou_t float
                     * option ((float * float * float * float) * Z * Z))%type.
Definition chk_cd (c : ccase) : bool :=
  let '(xc, y0, y1, res, shape, aou, expected) := c in
  match compute_domainF xc y0 y1 res shape aou, expected with
  | Some (e', w', h'), Some (e, w, h) => ext_same e' e && (w' =? w) && (h' =? h)
  | None, None => true
  | _, _ => false
  end.

(* x % 360 alone *)
Definition chk_wrap (c : float * float) : bool := same_bits (wrap360_F (fst c)) (snd c).

(* the area's own index function on a frozen area: (extent, w, h, x, y, expected col/row; None = masked) *)
Definition oz_same (a b : option Z) : bool :=
  match a, b with Some x, Some y => x =? y | None, None => true | _, _ => false end.
Definition icase := ((float * float * float * float) * Z * Z * float * float * option Z * option Z)%type.
Definition chk_index (c : icase) : bool :=
  let '((x0, y0, x1, y1), w, h, x, y, ec, er) := c in
  let a := mk_area x0 y0 x1 y1 w h in
  oz_same (index_x F64 a x) ec && oz_same (index_y F64 a y) er.
