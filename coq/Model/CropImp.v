(* C11: what the translated loops of the SwathSlicer (Gen/GenC11imp.v, tools/py2coq_imp.py) refer to.  Definitions only. *)
From Coq Require Import ZArith List Bool.
From PR Require Import Base.Slice Base.Imp Gen.GenC19.
Import ListNotations.
Open Scope Z_scope.

(* min(...) / max(...) of a non-empty sequence (Python raises on an empty one: the translation checks that first) *)
Definition lmin (l : list Z) : Z := match l with [] => 0 | x :: r => fold_right Z.min x r end.
Definition lmax (l : list Z) : Z := match l with [] => 0 | x :: r => fold_right Z.max x r end.

(* `for _position, (line_slice, col_slice) in _enumerate_chunk_slices(src_chunks)` on the chunks of a 2-D array: what the
   translated generator yields, each slice list unpacked into (line, column) *)
Definition blocks2 (chunks : list (list Z)) : list (list Z * (pslice * pslice)) :=
  match yields_of (imp_enumerate_chunk_slices chunks) with
  | Some ys => flat_map (fun e => match snd e with [l; c] => [(fst e, (l, c))] | _ => [] end) ys
  | None => []
  end.
