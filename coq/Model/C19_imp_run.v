(* executable wrappers comparing the definitions REGENERATED from /repo (Gen/GenC19.v) with observations of the implementation *)
From Coq Require Import ZArith List Bool.
From PR Require Import Base.ZX Base.ListX Base.Slice Base.Imp Model.Partition Model.Unions Model.C19_run Gen.GenC19.
Import ListNotations.
Open Scope Z_scope.

Definition un_inl (y : pslice + pslice * oslice) : Z * Z := match y with inl s => sl2p s | inr (s, _) => sl2p s end.
Definition is_2d (y : pslice + pslice * oslice) : bool :=
  match y with inr (_, o) => match ostart o, ostop o with None, None => true | _, _ => false end | inl _ => false end.
(* (segments, size, ndim, expected slices) *)
Definition chk_imp_get_slice (c : Z * Z * Z * list (Z * Z)) : bool :=
  let '(seg, size, nd, exp) := c in
  let shape := if nd =? 1 then [size] else [size; 7] in
  match yields_of (imp_get_slice (S (Z.to_nat seg)) seg shape) with
  | Some ys => list_eqb pz_eqb (map un_inl ys) exp && forallb (fun y => Bool.eqb (is_2d y) (negb (nd =? 1))) ys
  | None => false
  end.

Definition chk_imp_chunks (c : list (list Z) * list (list (Z * (Z * Z)))) : bool :=
  let '(chunks, exp) := c in
  match yields_of (imp_enumerate_chunk_slices chunks) with
  | Some ys => list_eqb (list_eqb pzz_eqb) (map (fun y => combine (fst y) (map sl2p (snd y))) ys) exp
  | None => false
  end.

Fixpoint run_appends (s : @raa Z) (appends : list (list Z)) (ndim : Z) : option (@raa Z) :=
  match appends with
  | [] => Some s
  | r :: rest => match state_of (imp_append_row s (map Some r) ndim) with
                 | COk st => run_appends (imp_append_row_self st) rest ndim
                 | _ => None
                 end
  end.
Definition chk_imp_raa (c : Z * list (list Z) * list (Z * list Z)) : bool :=
  let '(cap, appends, reads) := c in
  forallb (fun rd => match run_appends (raa_init cap) (firstn (Z.to_nat (fst rd)) appends) (1 + fst rd mod 2) with
                     | Some s => match value_of (imp_to_array s) with
                                 | COk a => list_eqb oz_eqb a (snd rd)
                                 | _ => false
                                 end
                     | None => false
                     end) reads.

Definition chk_imp_unions (c : list zset * list (list Z * zset)) : bool :=
  let '(gs, exp) := c in
  match value_of (imp_merge_unions set_overlaps set_union [] (S (length gs)) (init_entries gs)) with
  | COk d => list_eqb (fun m e => list_eqb Z.eqb (map Z.of_nat (flat (fst m))) (fst e) && set_eqb (snd m) (snd e)) d exp
  | _ => false
  end.
