(* C07: running the methods generated from /repo (coq/Gen/GenC07imp.v) - one call, and histories of calls on one object;
   executable wrappers comparing them with observations of the implementation. *)
From Coq Require Import ZArith List Bool PrimFloat.
From PR Require Import Base.Num Base.F64 Base.ListX Base.Imp Model.Grid Model.Bucket Model.ImpBucket Model.C07_run Gen.GenC07imp.
Import ListNotations.
Open Scope Z_scope.

Inductive icall :=
| ICount
| ISum (data : list (list dat)) (fill : dat) (skipna : bool) (ebv : dat)
| IMin (data : list (list dat))
| IMax (data : list (list dat))
| IAbsMax (data : list (list dat))
| IAvg (data : list (list dat)) (fill : dat) (skipna : bool)
| IFrac (data : list (list dat)) (cats : list Z) (fill : dat).

Section ImpRun.
  Context {T : Type} (OP : ops T).
  Inductive ires := IZ (l : list Z) | ID (l : list dat) | IFl (l : list (option T)) | IFr (l : list (Z * list (option T))).

  Definition ran {St R} (r : res St Empty_set R) (self : St -> bk_obj) (wrap : R -> ires) : option (bk_obj * ires) :=
    match r with Ret _ st v => Some (self st, wrap v) | _ => None end.

  (* one call of a generated method on the object o: the object afterwards and the result; None = raised / no return *)
  Definition imp_step (o : bk_obj) (c : icall) : option (bk_obj * ires) :=
    match c with
    | ICount => ran (imp_get_count o) imp_get_count_self IZ
    | ISum data fill skipna ebv => ran (imp_get_sum o data fill skipna ebv) imp_get_sum_self ID
    | IMin data => ran (imp_get_min o data None true) imp_get_min_self ID
    | IMax data => ran (imp_get_max o data None true) imp_get_max_self ID
    | IAbsMax data => ran (imp_get_abs_max o data None true) imp_get_abs_max_self ID
    | IAvg data fill skipna => ran (imp_get_average OP o data fill skipna) imp_get_average_self IFl
    | IFrac data cats fill => ran (imp_get_fractions OP o data cats fill) imp_get_fractions_self IFr
    end.

  Fixpoint imp_run (o : bk_obj) (calls : list icall) : option (list ires) :=
    match calls with
    | [] => Some []
    | c :: r => match imp_step o c with
                | Some (o', res) => option_map (cons res) (imp_run o' r)
                | None => None
                end
    end.

  (* the same call answered by the pure model functions on a fresh object holding the indices idxs *)
  Definition imp_fresh (size : Z) (idxs : list Z) (c : icall) : ires :=
    match c with
    | ICount => IZ (bk_cells size (bk_count size idxs))
    | ISum data fill skipna ebv => ID (bk_cells size (bk_get_sum size idxs (concat data) fill skipna ebv))
    | IMin data => ID (bk_cells size (bk_get_min size idxs (concat data)))
    | IMax data => ID (bk_cells size (bk_get_max size idxs (concat data)))
    | IAbsMax data => ID (bk_cells size (bk_get_abs_max size idxs (concat data)))
    | IAvg data fill skipna => IFl (bk_cells size (bk_get_average OP size idxs (concat data) fill skipna))
    | IFrac data cats fill =>
        IFr (fold_left (fun d cat => d_set Z.eqb d cat (bk_cells size (bk_get_fraction OP size idxs (concat data) cat fill))) cats [])
    end.
End ImpRun.
Arguments IZ {T}. Arguments ID {T}. Arguments IFl {T}. Arguments IFr {T}.

(* ---- correspondence: a recorded history of the implementation against the generated methods *)
Inductive ihres := HIZ (l : list Z) | HID (l : list dat) | HIF (l : list float) | HIFr (l : list (Z * list float)).
Definition ires_same (a : @ires float) (b : ihres) : bool :=
  match a, b with
  | IZ x, HIZ y => list_eqb Z.eqb x y
  | ID x, HID y => list_eqb dat_same x y
  | IFl x, HIF y => list_eqb ofl_same x y
  | IFr x, HIFr y => list_eqb (fun p q => (fst p =? fst q) && list_eqb ofl_same (snd p) (snd q)) x y
  | _, _ => false
  end.
Definition ihcase := (Z * list (list Z) * list icall * list ihres)%type.
Definition chk_imp_history (c : ihcase) : bool :=
  let '(size, chunks0, calls, exp) := c in
  match imp_run F64 (mk_obj size chunks0 None) calls with
  | Some rs => list_eqb ires_same rs exp
  | None => false
  end.
