(* C10 -- vertical concatenation of areas (geometry.combine_area_extents_vertical, concatenate_area_defs),
   StackedAreaDefinition (append, height, width, squeeze, the per-member row slicing of get_lonlats) and
   swath slicing / concatenation (BaseDefinition.__getitem__, CoordinateDefinition.concatenate/append,
   future/geometry/swath.py).  Definitions only. *)
From Coq Require Import ZArith Bool List.
From PR Require Import Base.Num Base.Slice Model.Grid Model.SliceArea.
Import ListNotations.
Open Scope Z_scope.

Section Concat.
  Context {T : Type} (OP : ops T).

  (* numpy.isclose(a, b) with the default rtol=1e-05, atol=1e-08 (the exact binary64 values) *)
  Definition np_atol : T := lit OP 3022314549036573 (-78).
  Definition np_rtol : T := lit OP 5902958103587057 (-69).
  Definition isclose (a b : T) : bool :=
    (leb OP (absf OP (sub OP a b)) (add OP np_atol (mul OP np_rtol (absf OP b))) && isfinite OP b) || eqb OP a b.

  (* combine_area_extents_vertical: None = IncompatibleAreas *)
  Definition combine_area_extents_vertical (a1 a2 : area T) : option (T * T * T * T) :=
    if eqb OP (xmin a1) (xmin a2) && eqb OP (xmax a1) (xmax a2) then
      if isclose (ymin a1) (ymax a2) then Some (xmin a1, ymin a2, xmax a1, ymax a1)
      else if isclose (ymax a1) (ymin a2) then Some (xmin a1, ymin a1, xmax a1, ymax a2)
      else None
    else None.

  (* concatenate_area_defs(area1, area2, axis=0): None = IncompatibleAreas *)
  Definition concatenate_area_defs (g1 g2 : garea T) : option (garea T) :=
    if (g_crs g1 =? g_crs g2) && (gwidth g1 =? gwidth g2) then
      match combine_area_extents_vertical (g_area g1) (g_area g2) with
      | Some ext => Some (new_area (g_id g1) (g_desc g1) (g_pid g1) (g_crs g1) (gwidth g1) (gheight g1 + gheight g2) ext)
      | None => None
      end
    else None.

  (* StackedAreaDefinition: crs (None before the first member) and the members, LAST MEMBER FIRST *)
  Record stack := mk_stack { s_crs : option Z; s_rdefs : list (garea T) }.
  Definition stack_empty : stack := mk_stack None [].
  Definition stack_defs (s : stack) : list (garea T) := rev (s_rdefs s).

  (* append(definition) for an AreaDefinition argument; None = NotImplementedError (CRS mismatch) *)
  Definition stack_append (s : stack) (d : garea T) : option stack :=
    if gheight d =? 0 then Some s else
    match s_rdefs s with
    | [] => Some (mk_stack (Some (g_crs d)) [d])
    | l :: r =>
        if negb (match s_crs s with Some c => c =? g_crs d | None => false end) then None else
        match concatenate_area_defs l d with
        | Some m => Some (mk_stack (s_crs s) (m :: r))
        | None => Some (mk_stack (s_crs s) (d :: l :: r))
        end
    end.
  Fixpoint stack_append_all (s : stack) (ds : list (garea T)) : option stack :=
    match ds with
    | [] => Some s
    | d :: r => match stack_append s d with Some s' => stack_append_all s' r | None => None end
    end.
  Definition stack_height (s : stack) : Z := fold_right (fun d acc => gheight d + acc) 0 (stack_defs s).
  Definition stack_width (s : stack) : Z := match stack_defs s with d :: _ => gwidth d | [] => 0 end.
  (* squeeze(): the single member if there is exactly one *)
  Definition stack_squeeze (s : stack) : option (garea T) :=
    match s_rdefs s with [d] => Some d | _ => None end.

  (* the vertically adjacent parts of [g] cut at rows a < k1 < k2 < ... < h (full width) *)
  Definition rows_key (a b : Z) : oslice * oslice := (mk_oslice (Some a) (Some b), mk_oslice None None).
  Fixpoint parts (g : garea T) (a : Z) (cuts : list Z) : list (garea T) :=
    match cuts with
    | [] => [area_getitem OP g (rows_key a (gheight g))]
    | k :: r => area_getitem OP g (rows_key a k) :: parts g k r
    end.
End Concat.
Arguments s_crs {T}. Arguments s_rdefs {T}. Arguments mk_stack {T}. Arguments stack_empty {T}.
Arguments stack_defs {T}. Arguments stack_squeeze {T}.

Fixpoint cuts_ok (a : Z) (cuts : list Z) (h : Z) : Prop :=
  match cuts with
  | [] => a < h
  | k :: r => a < k /\ cuts_ok k r h
  end.

(* ---- StackedAreaDefinition.get_lonlats: rows contributed by each member.
   A member is given by its full 2-D coordinate array (list of rows; areadef.height = number of rows);
   areadef.get_lonlats(data_slice=(local_row_slice, col_slice)) is numpy slicing of that array
   (Proofs/C10_list.v: grid_slice_commute).  [offset] advances by the member's height. *)
Definition local_row_slice (rs : pslice) (offset h : Z) : oslice :=
  mk_oslice (Some (Z.max (sstart rs - offset) 0)) (Some (Z.min (Z.max (sstop rs - offset) 0) h)).
Fixpoint stack_rows {A} (rs : pslice) (cs : oslice) (offset : Z) (ms : list (list (list A))) : list (list A) :=
  match ms with
  | [] => []
  | m :: r => np_slice2 (local_row_slice rs offset (zlen m), cs) m ++ stack_rows rs cs (offset + zlen m) r
  end.
Definition total_rows {A} (ms : list (list (list A))) : Z := fold_right (fun m acc => zlen m + acc) 0 ms.
Definition first_width {A} (ms : list (list (list A))) : Z :=
  match ms with (row :: _) :: _ => zlen row | _ => 0 end.
(* data_slice = None (or anything that does not unpack into two): slice(0, height), slice(0, width) *)
Definition stack_lonlats {A} (data_slice : option (pslice * oslice)) (ms : list (list (list A))) : list (list A) :=
  match data_slice with
  | Some (rs, cs) => stack_rows rs cs 0 ms
  | None => stack_rows (mk_slice 0 (total_rows ms)) (mk_oslice (Some 0) (Some (first_width ms))) 0 ms
  end.

(* the same on areas: AreaDefinition.get_lonlats slices the 1-D projection vectors (get_proj_coords),
   meshgrids them and maps every (x, y) through the external inverse projection [inv];
   StackedAreaDefinition.get_lonlats calls it per member with the local row slice and vstacks *)
Section StackLonlats.
  Context {T C : Type} (OP : ops T) (inv : T -> T -> C).
  Definition area_lonlats (g : garea T) (data_slice : option (oslice * oslice)) : list (list C) :=
    match data_slice with
    | Some key => grid_of inv (np_slice (snd key) (gvec_x OP g)) (np_slice (fst key) (gvec_y OP g))
    | None => grid_of inv (gvec_x OP g) (gvec_y OP g)
    end.
  Fixpoint stacked_rows (rs : pslice) (cs : oslice) (offset : Z) (defs : list (garea T)) : list (list C) :=
    match defs with
    | [] => []
    | d :: r => area_lonlats d (Some (local_row_slice rs offset (gheight d), cs))
                ++ stacked_rows rs cs (offset + gheight d) r
    end.
  Definition stacked_lonlats (data_slice : option (pslice * oslice)) (defs : list (garea T)) : list (list C) :=
    match data_slice with
    | Some (rs, cs) => stacked_rows rs cs 0 defs
    | None => stacked_rows (mk_slice 0 (fold_right (fun d acc => gheight d + acc) 0 defs))
                           (mk_oslice (Some 0) (Some (match defs with d :: _ => gwidth d | [] => 0 end))) 0 defs
    end.
End StackLonlats.

(* the accumulation used before the fix (offset += number of rows returned so far); kept only to state
   that it violates the law (Proofs/C10_stack.v: stack_rows_prefix_refuted) *)
Fixpoint stack_rows_prefix {A} (rs : pslice) (cs : oslice) (offset : Z) (ms : list (list (list A))) : list (list A) :=
  match ms with
  | [] => []
  | m :: r => let got := np_slice2 (local_row_slice rs offset (zlen m), cs) m in
              got ++ stack_rows_prefix rs cs (offset + zlen got) r
  end.

(* ---- swaths: a pair of equally shaped 2-D arrays *)
Definition swath (A : Type) : Type := list (list A) * list (list A).
Definition swath_getitem {A} (key : oslice * oslice) (s : swath A) : swath A :=
  (np_slice2 key (fst s), np_slice2 key (snd s)).
Definition swath_concat {A} (a b : swath A) : swath A := (fst a ++ fst b, snd a ++ snd b).
