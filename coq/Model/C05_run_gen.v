(* executable wrappers for the definitions regenerated from /repo (Gen/GenC05.v), run on binary64 *)
From Coq Require Import ZArith List Bool Floats.
From PR Require Import Base.Num Base.F64 Base.ListX Gen.GenC05.
Import ListNotations.

(* a validity expression applied to the actual lon/lat bits vs the mask the implementation produced *)
Definition chk_valid_with (f : float -> float -> bool) (c : list (float * float) * list bool) : bool :=
  list_eqb Bool.eqb (map (fun p => f (fst p) (snd p)) (fst c)) (snd c).
Definition chk_vin_legacy := chk_valid_with (gen_valid_input_legacy F64).
Definition chk_vout_legacy := chk_valid_with (gen_valid_output_legacy F64).
Definition chk_vin_future := chk_valid_with (gen_valid_input_future F64).
Definition chk_vin_numpy := chk_valid_with (gen_valid_input_numpy F64).
Definition chk_vout_numpy := chk_valid_with (gen_valid_output_numpy F64).
