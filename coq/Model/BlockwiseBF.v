(* C05: the masked kd-tree query instantiated with C02's brute-force reference (Model/KDTree.v: nearest), in the
   index space pykdtree uses: positions among the compacted valid sources, masked points skipped.  Definitions only. *)
From Coq Require Import ZArith List Bool.
From PR Require Import Model.Blockwise Model.BlockwiseSpec.
From PR Require Model.KDTree.
Import ListNotations.
Open Scope Z_scope.

Section BruteForce.
  Variable vii mask : list bool.
  Variable d2 : Z -> Z -> nat -> Z.     (* exact squared chord distance from target pixel (i,j) to flat source pixel s *)
  Variable r2 : Z.                      (* squared radius of influence *)
  (* compacted indices of the unmasked valid sources, in tree order *)
  Definition cands_c : list nat :=
    filter (fun k => negb (nth k (cmask vii mask) true)) (seq 0 (Z.to_nat (nvalid vii))).
  Definition bf_query (i j : Z) : Z :=
    let p := KDTree.nearest r2 (fun k => d2 i j (src_of vii (Z.of_nat k))) cands_c in
    if (p <? length cands_c)%nat then Z.of_nat (nth p cands_c 0%nat) else nvalid vii.
End BruteForce.
