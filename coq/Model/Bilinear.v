(* C06 — model of pyresample/bilinear/_base.py (definitions only).

   Numeric kernels are written once over an arithmetic [OP : ops T] and mirror the code one numpy
   statement at a time for ONE output location (the code is element-wise over the output locations):

     find_indices_outside_min_and_max   -> outside
     _calc_abc                          -> calc_abc
     _solve_quadratic                   -> solve_quadratic
     _solve_another_fractional_distance -> solve_other
     _get_fractional_distances_irregular / _uprights_parallel / _parallellogram
                                        -> frac_irregular / frac_uprights / frac_parallelogram
     _invalid_s_and_t_to_nan            -> invalid_to_nan
     _update_fractional_distances       -> update_frac
     _get_fractional_distances          -> fractional_distances
     _resample                          -> resample
     _get_stride_and_valid_corner_indices + _get_corner + _get_four_closest_corners -> corner / four_corners
     BilinearBase._get_slices, _slice2d, _slice3d -> get_slices / slice2d / slice3d

   Instances: F64 (bit-exact execution in the correspondence), RN (option R, Model/BilinearRN.v) and RO for theorems. *)
From Coq Require Import ZArith List Bool.
From PR Require Import Base.Num.
Import ListNotations.
Open Scope Z_scope.

Section Bilinear.
Context {T : Type} (OP : ops T).

Local Notation "a +! b" := (add OP a b) (at level 50, left associativity).
Local Notation "a -! b" := (sub OP a b) (at level 50, left associativity).
Local Notation "a *! b" := (mul OP a b) (at level 40, left associativity).
Local Notation "a /! b" := (div OP a b) (at level 40, left associativity).

Definition pt : Type := (T * T)%type.
Definition px (p : pt) : T := let '(x, _) := p in x.
Definition py (p : pt) : T := let '(_, y) := p in y.

(* (data < min_val) | (data > max_val); every comparison with NaN is false *)
Definition outside (data min_val max_val : T) : bool := orb (ltb OP data min_val) (ltb OP max_val data).

(* np.where(cond, x, y) for one element *)
Definition where_ (c : bool) (x y : T) : T := if c then x else y.

(* _calc_abc(corner_points, out_y, out_x) *)
Definition calc_abc (pt_1 pt_2 pt_3 pt_4 : pt) (out_y out_x : T) : T * T * T :=
  let x_21 := px pt_2 -! px pt_1 in
  let x_31 := px pt_3 -! px pt_1 in
  let x_42 := px pt_4 -! px pt_2 in
  let y_21 := py pt_2 -! py pt_1 in
  let y_31 := py pt_3 -! py pt_1 in
  let y_42 := py pt_4 -! py pt_2 in
  let a__ := x_31 *! y_42 -! y_31 *! x_42 in
  let b__ := out_y *! (x_42 -! x_31) -! out_x *! (y_42 -! y_31) +! x_31 *! py pt_2 -! y_31 *! px pt_2
             +! y_42 *! px pt_1 -! x_42 *! py pt_1 in
  let c__ := out_y *! x_21 -! out_x *! y_21 +! px pt_1 *! py pt_2 -! px pt_2 *! py pt_1 in
  (a__, b__, c__).

(* _solve_quadratic(a, b, c, min_val, max_val): the three candidates and the numpy where-chain *)
Definition quad_x1 (a__ b__ c__ : T) : T :=
  (neg OP b__ +! sqrtf OP (b__ *! b__ -! ofZ OP 4 *! a__ *! c__)) /! (ofZ OP 2 *! a__).
Definition quad_x2 (a__ b__ c__ : T) : T :=
  (neg OP b__ -! sqrtf OP (b__ *! b__ -! ofZ OP 4 *! a__ *! c__)) /! (ofZ OP 2 *! a__).
Definition quad_x3 (b__ c__ : T) : T := neg OP c__ /! b__.

Definition solve_quadratic (a__ b__ c__ min_val max_val : T) : T :=
  let x_1 := quad_x1 a__ b__ c__ in
  let x_2 := quad_x2 a__ b__ c__ in
  let x_3 := quad_x3 b__ c__ in
  let x__ := where_ (orb (outside x_1 min_val max_val) (isnan OP x_1)) x_2 x_1 in
  let x__ := where_ (orb (outside x__ min_val max_val) (isnan OP x__)) x_3 x__ in
  where_ (outside x__ min_val max_val) (nan OP) x__.

(* _solve_another_fractional_distance(f, (y_1, y_2, y_3, y_4), out_y) *)
Definition solve_other (f__ y_1 y_2 y_3 y_4 out_y : T) : T :=
  let y_21 := y_2 -! y_1 in
  let y_43 := y_4 -! y_3 in
  let g__ := (out_y -! y_1 -! y_21 *! f__) /! (y_3 +! y_43 *! f__ -! y_1 -! y_21 *! f__) in
  where_ (outside g__ (ofZ OP 0) (ofZ OP 1)) (nan OP) g__.

(* the float literals 0. and 1. of the callers *)
Definition f0 : T := lit OP 0 0.
Definition f1 : T := lit OP 1 0.

(* _get_fractional_distances_irregular: returns (t, s) *)
Definition frac_irregular (pt_1 pt_2 pt_3 pt_4 : pt) (out_y out_x : T) : T * T :=
  let '(a__, b__, c__) := calc_abc pt_1 pt_2 pt_3 pt_4 out_y out_x in
  let t__ := solve_quadratic a__ b__ c__ f0 f1 in
  let s__ := solve_other t__ (py pt_1) (py pt_3) (py pt_2) (py pt_4) out_y in
  (t__, s__).

(* _get_fractional_distances_uprights_parallel: pt_2 and pt_3 change places; returns (t, s) *)
Definition frac_uprights (pt_1 pt_2 pt_3 pt_4 : pt) (out_y out_x : T) : T * T :=
  let '(a__, b__, c__) := calc_abc pt_1 pt_3 pt_2 pt_4 out_y out_x in
  let s__ := solve_quadratic a__ b__ c__ f0 f1 in
  let t__ := solve_other s__ (py pt_1) (py pt_2) (py pt_3) (py pt_4) out_y in
  (t__, s__).

(* _get_fractional_distances_parallellogram: three corners only; returns (t, s) *)
Definition frac_parallelogram (pt_1 pt_2 pt_3 : pt) (out_y out_x : T) : T * T :=
  let x_21 := px pt_2 -! px pt_1 in
  let x_31 := px pt_3 -! px pt_1 in
  let y_21 := py pt_2 -! py pt_1 in
  let y_31 := py pt_3 -! py pt_1 in
  let t__ := (x_21 *! (out_y -! py pt_1) -! y_21 *! (out_x -! px pt_1)) /! (x_21 *! y_31 -! y_21 *! x_31) in
  let t__ := where_ (outside t__ f0 f1) (nan OP) t__ in
  let s__ := (out_x -! px pt_1 +! x_31 *! t__) /! x_21 in
  let s__ := where_ (outside s__ f0 f1) (nan OP) s__ in
  (t__, s__).

(* _invalid_s_and_t_to_nan *)
Definition invalid_to_nan (ts : T * T) : T * T :=
  let '(t__, s__) := ts in
  let idxs := orb (outside t__ (ofZ OP 0) (ofZ OP 1)) (outside s__ (ofZ OP 0) (ofZ OP 1)) in
  (where_ idxs (nan OP) t__, where_ idxs (nan OP) s__).

(* _update_fractional_distances for one element: where t or s is NaN the new values replace the old ones and
   are range-checked.  (The code's `if np.any(idxs)` switches the whole array; an element whose idxs is False
   keeps (t, s), on which _invalid_s_and_t_to_nan is the identity because both are already in [0, 1].) *)
Definition update_frac (new : T * T) (ts : T * T) : T * T :=
  let '(t__, s__) := ts in
  if orb (isnan OP t__) (isnan OP s__) then invalid_to_nan new else ts.

(* _get_fractional_distances(corner_points, out_x, out_y): returns (t, s) *)
Definition fractional_distances (pt_1 pt_2 pt_3 pt_4 : pt) (out_x out_y : T) : T * T :=
  let ts := invalid_to_nan (frac_irregular pt_1 pt_2 pt_3 pt_4 out_y out_x) in
  let ts := update_frac (frac_uprights pt_1 pt_2 pt_3 pt_4 out_y out_x) ts in
  update_frac (frac_parallelogram pt_1 pt_2 pt_3 out_y out_x) ts.

(* _resample((p_1, p_2, p_3, p_4), (s, t)) in the code's operation order *)
Definition resample (p_1 p_2 p_3 p_4 s__ t__ : T) : T :=
  p_1 *! (ofZ OP 1 -! s__) *! (ofZ OP 1 -! t__) +!
  p_2 *! s__ *! (ofZ OP 1 -! t__) +!
  p_3 *! (ofZ OP 1 -! s__) *! t__ +!
  p_4 *! s__ *! t__.

(* ---- choice of the four corners among the k neighbours of one output location.
   A neighbour is (x, y, index) in the target's projection coordinates, in kd-tree (distance) order. *)
Definition nb : Type := (T * T * Z)%type.
Definition nb_x (n : nb) : T := let '(x, _, _) := n in x.
Definition nb_y (n : nb) : T := let '(_, y, _) := n in y.
Definition nb_i (n : nb) : Z := let '(_, _, i) := n in i.

(* _get_stride_and_valid_corner_indices: x_diff = out_x - in_x, y_diff = out_y - in_y *)
Inductive quadrant := UL | UR | LL | LR.
Definition in_quadrant (q : quadrant) (out_x out_y : T) (n : nb) : bool :=
  let x_diff := out_x -! nb_x n in
  let y_diff := out_y -! nb_y n in
  match q with
  | UL => andb (ltb OP (ofZ OP 0) x_diff) (ltb OP y_diff (ofZ OP 0))
  | UR => andb (ltb OP x_diff (ofZ OP 0)) (ltb OP y_diff (ofZ OP 0))
  | LL => andb (ltb OP (ofZ OP 0) x_diff) (ltb OP (ofZ OP 0) y_diff)
  | LR => andb (ltb OP x_diff (ofZ OP 0)) (ltb OP (ofZ OP 0) y_diff)
  end.

(* np.argmax(valid, axis=1) picks the first True; np.max(valid) tells whether there is one *)
Fixpoint first_valid (f : nb -> bool) (l : list nb) : option nb :=
  match l with
  | [] => None
  | n :: r => if f n then Some n else first_valid f r
  end.

(* _get_corner: without a valid neighbour argmax is 0: the index of the first neighbour with NaN coordinates *)
Definition corner (q : quadrant) (out_x out_y : T) (l : list nb) : nb :=
  match first_valid (in_quadrant q out_x out_y) l with
  | Some n => n
  | None => (nan OP, nan OP, match l with n :: _ => nb_i n | [] => 0 end)
  end.

Definition four_corners (out_x out_y : T) (l : list nb) : nb * nb * nb * nb :=
  (corner UL out_x out_y l, corner UR out_x out_y l, corner LL out_x out_y l, corner LR out_x out_y l).

(* the same choice with "not found" explicit (used by the theorems: "k large enough to surround the target") *)
Definition found_corners (out_x out_y : T) (l : list nb) : option (nb * nb * nb * nb) :=
  match first_valid (in_quadrant UL out_x out_y) l, first_valid (in_quadrant UR out_x out_y) l,
        first_valid (in_quadrant LL out_x out_y) l, first_valid (in_quadrant LR out_x out_y) l with
  | Some a, Some b, Some c, Some d => Some (a, b, c, d)
  | _, _, _, _ => None
  end.

(* one output pixel, end to end: neighbours -> corners -> (t, s) -> weighted sum of the data at the corner indices *)
Definition pixel (data : Z -> T) (l : list nb) (out_x out_y : T) : T :=
  let '(c1, c2, c3, c4) := four_corners out_x out_y l in
  let '(t__, s__) := fractional_distances (nb_x c1, nb_y c1) (nb_x c2, nb_y c2) (nb_x c3, nb_y c3) (nb_x c4, nb_y c4)
                                          out_x out_y in
  resample (data (nb_i c1)) (data (nb_i c2)) (data (nb_i c3)) (data (nb_i c4)) s__ t__.

End Bilinear.

(* ---- look-up tables into the compacted source (no arithmetic: plain lists) *)
Section Slices.
Context {A : Type} (dflt : A).

(* flat positions of the True entries: the compacted ("valid") source pixels in order *)
Fixpoint valid_positions (pos : Z) (valid : list bool) : list Z :=
  match valid with
  | [] => []
  | b :: r => if b then pos :: valid_positions (pos + 1) r else valid_positions (pos + 1) r
  end.

Definition znth {B} (d : B) (l : list B) (i : Z) : B := if i <? 0 then d else nth (Z.to_nat i) l d.

(* BilinearBase._get_slices for a 2-D source of [ncols] columns: (line, column) of compacted pixel number idx,
   for each of the four corner indices; mask_slices = index >= source size *)
Definition line_col (ncols : Z) (valid : list bool) (idx : Z) : Z * Z :=
  let f := znth 0 (valid_positions 0 valid) idx in (f / ncols, f mod ncols).
Definition get_slices (ncols size : Z) (valid : list bool) (index : list (list Z))
  : list (list (Z * Z)) * list (list bool) :=
  (map (map (line_col ncols valid)) index, map (map (fun i => size <=? i)) index).
(* 1-D source (the IndexError path): line 0, column = flat position *)
Definition get_slices_1d (size : Z) (valid : list bool) (index : list (list Z))
  : list (list (Z * Z)) * list (list bool) :=
  (map (map (fun i => (0, znth 0 (valid_positions 0 valid) i))) index, map (map (fun i => size <=? i)) index).

(* _slice2d: values[(sl_y, sl_x)], masked entries replaced by fill_value *)
Definition slice2d (values : list (list A)) (fill : A) (lc : list (list (Z * Z))) (mask : list (list bool))
  : list (list A) :=
  map (fun rm : list (Z * Z) * list bool =>
         map (fun cm : (Z * Z) * bool =>
                if snd cm then fill else znth dflt (znth [] values (fst (fst cm))) (snd (fst cm)))
             (combine (fst rm) (snd rm)))
      (combine lc mask).
(* _slice3d: the same for every band *)
Definition slice3d (values : list (list (list A))) (fill : A) (lc : list (list (Z * Z))) (mask : list (list bool))
  : list (list (list A)) :=
  map (fun band => slice2d band fill lc mask) values.
End Slices.
