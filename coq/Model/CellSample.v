(* C18 - what the index pairs are used for: the value-selection recipes downstream of the index functions,
   element by element (integer-valued images / boolean filters).  Definitions only.

     linesample_value   grid.get_image_from_linesample (= ImageContainer.get_array_from_linesample):
                        invalid indices are zeroed (so the read hits image[0, 0]) and the read value is then
                        replaced by fill_value through  target * valid + (1 - valid) * fill
     linesample_masked  the same with fill_value=None: (mask, data)
     gf_valid_index     GridFilter.get_valid_index: filter[target_y, target_x] & x_valid & y_valid after zeroing *)
From Coq Require Import ZArith Bool List.
From PR Require Import Base.Num Model.Grid Model.CellIndex.
Open Scope Z_scope.

Definition b2z (b : bool) : Z := if b then 1 else 0.

Definition linesample_value (img : Z -> Z -> Z) (fill : Z) (h w r c : Z) : Z :=
  let row_mask := in_range h r in
  let col_mask := in_range w c in
  let valid_rows := r * b2z row_mask in
  let valid_cols := c * b2z col_mask in
  let target_image := img valid_rows valid_cols in
  let valid_data := row_mask && col_mask in
  target_image * b2z valid_data + (1 - b2z valid_data) * fill.

Definition linesample_masked (img : Z -> Z -> Z) (h w r c : Z) : bool * Z :=
  let row_mask := in_range h r in
  let col_mask := in_range w c in
  let target_image := img (r * b2z row_mask) (c * b2z col_mask) in
  (negb (row_mask && col_mask), target_image).

Section CellSample.
  Context {T : Type} (OP : ops T).

  (* get_image_from_lonlats / get_resampled_image / ImageContainerQuick.resample *)
  Definition grid_image (img : Z -> Z -> Z) (fill : Z) (a : area T) (x y : T) : Z :=
    linesample_value img fill (height a) (width a) (grid_row OP a y) (grid_col OP a x).
  (* generate_quick_linesample_arrays + ImageContainer.get_array_from_linesample *)
  Definition quick_image (img : Z -> Z -> Z) (fill : Z) (a : area T) (x y : T) : Z :=
    linesample_value img fill (height a) (width a) (quick_row OP a y) (quick_col OP a x).

  Definition gf_valid_index (filt : Z -> Z -> bool) (a : area T) (x y : T) : bool :=
    let target_x := gf_col_with OP (floorZ OP) a x in
    let target_y := gf_row_with OP (floorZ OP) a y in
    let target_x_valid := in_range (width a) target_x in
    let target_y_valid := in_range (height a) target_y in
    let target_x' := if negb target_x_valid then 0 else target_x in
    let target_y' := if negb target_y_valid then 0 else target_y in
    filt target_y' target_x' && target_x_valid && target_y_valid.
End CellSample.

(* ---------------------------------------------------------------- several lazy bucket resamplers in ONE dask.compute.
   dask merges the task graphs of all requested arrays into one dictionary keyed by task name; the index arrays of a
   resampler read the output of ITS projection task (map_blocks(self._get_proj_coordinates, lons, lats)) under that
   task's name.  [rs_key] is that name, [rs_proj] what the task yields (the PROJ oracle for this resampler's target CRS
   applied to the shared lon/lats). *)
Section BucketJoint.
  Context {T : Type} (OP : ops T).
  Record resampler := mk_rs { rs_area : area T; rs_key : Z; rs_proj : list (T * T) }.
  Definition graph := list (Z * list (T * T)).
  Fixpoint glookup (k : Z) (g : graph) : option (list (T * T)) :=
    match g with nil => None | (k', v) :: r => if k =? k' then Some v else glookup k r end.
  Definition rs_task (r : resampler) : Z * list (T * T) := (rs_key r, rs_proj r).
  Definition rs_indices (g : graph) (r : resampler) : list (Z * Z) :=
    match glookup (rs_key r) g with
    | Some pts => map (fun p => bk_xy OP (rs_area r) (fst p) (snd p)) pts
    | None => nil
    end.
  Definition rs_standalone (r : resampler) : list (Z * Z) := rs_indices (rs_task r :: nil) r.
  Definition rs_joint (rs : list resampler) : list (list (Z * Z)) := map (rs_indices (map rs_task rs)) rs.
End BucketJoint.
Arguments mk_rs {T}. Arguments rs_area {T}. Arguments rs_key {T}. Arguments rs_proj {T}.
