(* C18 - what the index pairs are used for: the value-selection recipes downstream of the index functions,
   element by element (integer-valued images / boolean filters).  Definitions only.

     linesample_value   grid.get_image_from_linesample (= ImageContainer.get_array_from_linesample):
                        invalid indices are zeroed (so the read hits image[0, 0]) and the read value is then
                        replaced by fill_value through  target * valid + (1 - valid) * fill
     linesample_masked  the same with fill_value=None: (mask, data)
     gf_valid_index     GridFilter.get_valid_index: filter[target_y, target_x] & x_valid & y_valid after zeroing *)
From Coq Require Import ZArith Bool List.
From PR Require Import Base.Num Model.Grid Model.CellIndex.
Open Scope Z_scope.

Definition b2z (b : bool) : Z := if b then 1 else 0.

Definition linesample_value (img : Z -> Z -> Z) (fill : Z) (h w r c : Z) : Z :=
  let row_mask := in_range h r in
  let col_mask := in_range w c in
  let valid_rows := r * b2z row_mask in
  let valid_cols := c * b2z col_mask in
  let target_image := img valid_rows valid_cols in
  let valid_data := row_mask && col_mask in
  target_image * b2z valid_data + (1 - b2z valid_data) * fill.

Definition linesample_masked (img : Z -> Z -> Z) (h w r c : Z) : bool * Z :=
  let row_mask := in_range h r in
  let col_mask := in_range w c in
  let target_image := img (r * b2z row_mask) (c * b2z col_mask) in
  (negb (row_mask && col_mask), target_image).

Section CellSample.
  Context {T : Type} (OP : ops T).

  (* get_image_from_lonlats / get_resampled_image / ImageContainerQuick.resample *)
  Definition grid_image (img : Z -> Z -> Z) (fill : Z) (a : area T) (x y : T) : Z :=
    linesample_value img fill (height a) (width a) (grid_row OP a y) (grid_col OP a x).
  (* generate_quick_linesample_arrays + ImageContainer.get_array_from_linesample *)
  Definition quick_image (img : Z -> Z -> Z) (fill : Z) (a : area T) (x y : T) : Z :=
    linesample_value img fill (height a) (width a) (quick_row OP a y) (quick_col OP a x).

  Definition gf_valid_index (filt : Z -> Z -> bool) (a : area T) (x y : T) : bool :=
    let target_x := gf_col_with OP (floorZ OP) a x in
    let target_y := gf_row_with OP (floorZ OP) a y in
    let target_x_valid := in_range (width a) target_x in
    let target_y_valid := in_range (height a) target_y in
    let target_x' := if negb target_x_valid then 0 else target_x in
    let target_y' := if negb target_y_valid then 0 else target_y in
    filt target_y' target_x' && target_x_valid && target_y_valid.
End CellSample.

(* ---------------------------------------------------------------- several lazy bucket resamplers in ONE dask.compute.
   dask merges the task graphs of all requested arrays into one dictionary keyed by task name; the index arrays of a
   resampler read the output of ITS projection task (map_blocks(self._get_proj_coordinates, lons, lats)) under that
   task's name.  [rs_key] is that name, [rs_proj] what the task yields (the PROJ oracle for this resampler's target CRS
   applied to the shared lon/lats). *)
Section BucketJoint.
  Context {T : Type} (OP : ops T).
  Record resampler := mk_rs { rs_area : area T; rs_key : Z; rs_proj : list (T * T) }.
  Definition graph := list (Z * list (T * T)).
  Fixpoint glookup (k : Z) (g : graph) : option (list (T * T)) :=
    match g with nil => None | (k', v) :: r => if k =? k' then Some v else glookup k r end.
  Definition rs_task (r : resampler) : Z * list (T * T) := (rs_key r, rs_proj r).
  Definition rs_indices (g : graph) (r : resampler) : list (Z * Z) :=
    match glookup (rs_key r) g with
    | Some pts => map (fun p => bk_xy OP (rs_area r) (fst p) (snd p)) pts
    | None => nil
    end.
  Definition rs_standalone (r : resampler) : list (Z * Z) := rs_indices (rs_task r :: nil) r.
  Definition rs_joint (rs : list resampler) : list (list (Z * Z)) := map (rs_indices (map rs_task rs)) rs.
End BucketJoint.
Arguments mk_rs {T}. Arguments rs_area {T}. Arguments rs_key {T}. Arguments rs_proj {T}.

(* ---------------------------------------------------------------- histories of calls on the caller's arrays.
   A call takes the caller's state (the lon/lat arrays it passes, shared between calls) and returns its output and the
   state it leaves behind.  [run] threads the state through a list of calls, as a program calling module after module
   on the same arrays / the same SwathDefinition does. *)
Section History.
  Context {S Out : Type}.
  Definition call := S -> Out * S.
  Definition read_only (c : call) : Prop := forall s, snd (c s) = s.
  Fixpoint run_history (h : list call) (s : S) : list Out :=
    match h with nil => nil | c :: r => fst (c s) :: run_history r (snd (c s)) end.
End History.

(* the five modules as calls on a shared array of points (PROJ applied element-wise by [proj]); what they return is the
   per-point result, the arrays are handed back untouched (ll2cr works on the copy made by astype(copy=True)) *)
Section ModuleCalls.
  Context {T : Type} (OP : ops T).
  Variable proj : T * T -> T * T.
  Inductive out :=
  | OCells (l : list (option (Z * Z)))
  | OIdx (l : list (Z * Z))
  | OColRow (l : list (T * T * bool)).
  Definition on_proj {B} (f : T -> T -> B) (p : T * T) : B := let q := proj p in f (fst q) (snd q).
  Definition call_area (a : area T) : call (S := list (T * T)) := fun s => (OCells (map (on_proj (area_cell OP a)) s), s).
  Definition call_grid (a : area T) : call (S := list (T * T)) := fun s => (OCells (map (on_proj (grid_cell OP a)) s), s).
  Definition call_gf (a : area T) : call (S := list (T * T)) := fun s => (OCells (map (on_proj (gf_cell OP a)) s), s).
  Definition call_bucket (a : area T) : call (S := list (T * T)) := fun s => (OIdx (map (on_proj (bk_xy OP a)) s), s).
  Definition call_ll2cr (a : area T) (fill : T) : call (S := list (T * T)) :=
    fun s => (OColRow (map (on_proj (ll2cr_point OP a fill)) s), s).
  (* ll2cr WITHOUT the copy (copy=False, or a conversion that does not copy): col / row are written into the caller's arrays *)
  Definition call_ll2cr_inplace (a : area T) (fill : T) : call (S := list (T * T)) :=
    fun s => let r := map (on_proj (ll2cr_point OP a fill)) s in (OColRow r, map (fun q => (fst (fst q), snd (fst q))) r).
  Definition is_module_call (c : call (S := list (T * T))) : Prop :=
    exists a, c = call_area a \/ c = call_grid a \/ c = call_gf a \/ c = call_bucket a \/ exists fill, c = call_ll2cr a fill.
End ModuleCalls.

(* ---------------------------------------------------------------- memory layout.  A 2-D array is its list of rows (logical
   content); an element-wise routine that flattens, works on the flat buffer and reshapes (Proj_MP: shared-memory buffers,
   worker processes, reshape(grid_shape)) must flatten in the same (C) order it reshapes in. *)
Section Layout.
  Context {A B : Type}.
  Definition ravel_C (m : list (list A)) : list A := concat m.
  Fixpoint reshape_C (rows w : nat) (l : list B) : list (list B) :=
    match rows with O => nil | S k => firstn w l :: reshape_C k w (skipn w l) end.
  Definition flat_apply (f : A -> B) (flatten : list (list A) -> list A) (w : nat) (m : list (list A)) : list (list B) :=
    reshape_C (length m) w (map f (flatten m)).
End Layout.
(* memory order of a Fortran-ordered array = C order of its transpose: ravel(order='K') walks the columns *)
Fixpoint ravel_F {A} (w : nat) (m : list (list A)) : list A :=
  match w with O => nil | S k => flat_map (fun r => firstn 1 r) m ++ ravel_F k (map (skipn 1) m) end.
