(* Bucket resampling (pyresample/bucket/__init__.py), definitions only.

   Index part (BucketResampler._get_indices) is written once over the arithmetic record:
     x_idxs = floor((proj_x - area_extent[0]) / x_res).astype(int64)
     y_idxs = floor((area_extent[3] - proj_y) / y_res).astype(int64)
     mask   = (x_idxs >= 0) & (x_idxs < width) & (y_idxs >= 0) & (y_idxs < height)
     x_idxs, y_idxs = where(mask, ., -1);  idxs = y_idxs * shape[1] + x_idxs
   The projected coordinates are inputs (PROJ is an oracle).

   Statistics part is list based.  A data value is [option Z]: [None] is NaN, [Some v] an
   integer-valued float (sums of those are exact in binary64 below 2^53, so the order in which
   numpy/dask add them is immaterial; float summation order of non-integer data is the IEEE gap).
   A histogram is a fold over the points that bumps one entry of a (functional) array, as
   np.histogram(range=(0,size), bins=size) + np.bincount do; dask sums the per-chunk histograms. *)
From Coq Require Import ZArith Bool List.
From PR Require Import Base.Num Model.Grid.
Import ListNotations.
Open Scope Z_scope.

(* ------------------------------------------------------------------ indices *)
Definition bk_int64_min : Z := - 2 ^ 63.
Definition bk_int64_ok (z : Z) : bool := (bk_int64_min <=? z) && (z <? 2 ^ 63).

Section BucketIdx.
  Context {T : Type} (OP : ops T).

  (* np.floor(v).astype(np.int64): NaN, +-inf and values beyond int64 give INT64_MIN (x86 cvttsd2si) *)
  Definition bk_floor_i64 (v : T) : Z :=
    if isfinite OP v then
      let z := floorZ OP v in if bk_int64_ok z then z else bk_int64_min
    else bk_int64_min.

  (* x_res, y_res = adef.resolution = (pixel_size_x, pixel_size_y) *)
  Definition bk_x_raw (a : area T) (x : T) : Z :=
    bk_floor_i64 (div OP (sub OP x (xmin a)) (pixel_size_x OP a)).
  Definition bk_y_raw (a : area T) (y : T) : Z :=
    bk_floor_i64 (div OP (sub OP (ymax a) y) (pixel_size_y OP a)).

  Definition bk_mask (a : area T) (xi yi : Z) : bool :=
    (0 <=? xi) && (xi <? width a) && (0 <=? yi) && (yi <? height a).

  (* (x_idxs, y_idxs) of one point *)
  Definition bk_xy_idx (a : area T) (p : T * T) : Z * Z :=
    let xi := bk_x_raw a (fst p) in
    let yi := bk_y_raw a (snd p) in
    if bk_mask a xi yi then (xi, yi) else (-1, -1).

  (* raveled index: y_idxs * target_shape[1] + x_idxs *)
  Definition bk_idx (a : area T) (p : T * T) : Z :=
    let '(xi, yi) := bk_xy_idx a p in yi * width a + xi.

  (* the cell (row, column) a point is assigned to, or none *)
  Definition bk_cell_of (a : area T) (p : T * T) : option (Z * Z) :=
    let xi := bk_x_raw a (fst p) in
    let yi := bk_y_raw a (snd p) in
    if bk_mask a xi yi then Some (yi, xi) else None.

  (* map_blocks over coordinate chunks: every chunk is processed on its own, results concatenated *)
  Definition bk_idxs (a : area T) (pts : list (T * T)) : list Z := map (bk_idx a) pts.
  Definition bk_idxs_chunked (a : area T) (chunks : list (list (T * T))) : list Z :=
    concat (map (bk_idxs a) chunks).
End BucketIdx.

Definition bk_size {T} (a : area T) : Z := height a * width a.

(* ------------------------------------------------------------------ histogram *)
(* np.histogram(a, bins=size, range=(0,size)): keep 0 <= a <= size, the right edge goes to the last bin *)
Definition bk_bin (size i : Z) : option Z :=
  if (0 <=? i) && (i <=? size) then Some (if i =? size then size - 1 else i) else None.

Section Hist.
  Context {V : Type} (vadd : V -> V -> V) (vzero : V).

  Definition bk_upd (f : Z -> V) (i : Z) (w : V) : Z -> V :=
    fun k => if k =? i then vadd (f k) w else f k.
  Definition bk_hist_step (size : Z) (f : Z -> V) (p : Z * V) : Z -> V :=
    match bk_bin size (fst p) with Some b => bk_upd f b (snd p) | None => f end.
  (* one np.histogram call *)
  Definition bk_hist (size : Z) (pts : list (Z * V)) : Z -> V :=
    fold_left (bk_hist_step size) pts (fun _ => vzero).
  (* da.histogram: per-chunk histograms, summed *)
  Definition bk_hist_chunked (size : Z) (chunks : list (list (Z * V))) : Z -> V :=
    fun k => fold_right (fun c acc => vadd (bk_hist size c k) acc) vzero chunks.

  (* specification side: sum of the weights of the points whose index is k *)
  Definition bk_vsum (l : list V) : V := fold_right vadd vzero l.
End Hist.

Definition bk_members {V} (k : Z) (pts : list (Z * V)) : list V :=
  map snd (filter (fun p => fst p =? k) pts).

(* ------------------------------------------------------------------ data values *)
Definition dat := option Z.                       (* None = NaN *)
Definition dat_isnan (d : dat) : bool := match d with None => true | Some _ => false end.
Definition dat_eqb (a b : dat) : bool :=          (* IEEE ==: NaN equals nothing *)
  match a, b with Some x, Some y => x =? y | _, _ => false end.
Definition oadd (a b : dat) : dat :=              (* float + with NaN absorbing *)
  match a, b with Some x, Some y => Some (x + y) | _, _ => None end.

(* _get_invalid_mask(data, fill_value) *)
Definition bk_invalid (fill d : dat) : bool :=
  if dat_isnan fill then dat_isnan d else dat_eqb d fill.

(* get_count: da.histogram(idxs, bins=size, range=(0,size)) *)
Definition bk_count (size : Z) (idxs : list Z) : Z -> Z :=
  bk_hist Z.add 0 size (map (fun i => (i, 1)) idxs).

(* get_sum(data, fill_value, skipna, empty_bucket_value) *)
Definition bk_weights (fill : dat) (data : list dat) : list dat :=
  map (fun d => if bk_invalid fill d then Some 0 else d) data.
Definition bk_missing_idxs (fill : dat) (idxs : list Z) (data : list dat) : list Z :=
  map fst (filter (fun p => bk_invalid fill (snd p)) (combine idxs data)).
Definition bk_get_sum (size : Z) (idxs : list Z) (data : list dat) (fill : dat) (skipna : bool) (ebv : dat)
  : Z -> dat :=
  let sums := bk_hist oadd (Some 0) size (combine idxs (bk_weights fill data)) in
  let sums1 := if skipna then sums
               else let missing := bk_count size (bk_missing_idxs fill idxs data) in
                    fun k => if 0 <? missing k then fill else sums k in
  if dat_eqb ebv (Some 0) then sums1                      (* if empty_bucket_value != 0: *)
  else fun k => if dat_eqb (sums1 k) (Some 0) then ebv else sums1 k.

(* get_average(data, fill_value, skipna) *)
Definition bk_avg_data (fill : dat) (data : list dat) : list dat :=
  if dat_isnan fill then data else map (fun d => if dat_eqb d fill then None else d) data.
Definition bk_valid_flags (data : list dat) : list Z := map (fun d => if dat_isnan d then 0 else 1) data.

(* get_fractions: category indicator *)
Definition bk_cat_flags (cat : Z) (data : list dat) : list Z :=
  map (fun d => if dat_eqb d (Some cat) then 1 else 0) data.

Section BucketStat.
  Context {T : Type} (OP : ops T).
  (* a result value of the float-valued statistics: None = NaN *)
  Definition bk_fill_T (fill : dat) : option T := option_map (ofZ OP) fill.

  Definition bk_get_average (size : Z) (idxs : list Z) (data : list dat) (fill : dat) (skipna : bool)
    : Z -> option T :=
    let data1 := bk_avg_data fill data in
    let sums := bk_get_sum size idxs data1 None skipna (Some 0) in
    let counts := bk_hist Z.add 0 size (combine idxs (bk_valid_flags data1)) in
    fun k =>
      let avg := if counts k =? 0 then None
                 else match sums k with
                      | Some s => Some (div OP (ofZ OP s) (ofZ OP (counts k)))
                      | None => None end in
      match avg with Some v => Some v | None => bk_fill_T fill end.

  Definition bk_get_fraction (size : Z) (idxs : list Z) (data : list dat) (cat : Z) (fill : dat)
    : Z -> option T :=
    let counts := bk_count size idxs in
    let sums := bk_hist Z.add 0 size (combine idxs (bk_cat_flags cat data)) in
    fun k => if counts k =? 0 then bk_fill_T fill
             else Some (div OP (ofZ OP (sums k)) (ofZ OP (counts k))).
End BucketStat.

(* ------------------------------------------------------------------ min / max *)
(* np.argsort order on floats: ascending, NaN last *)
Definition dat_leb (a b : dat) : bool :=
  match a, b with
  | Some x, Some y => x <=? y
  | _, None => true
  | None, Some _ => false
  end.

Fixpoint bk_insert (p : Z * dat) (l : list (Z * dat)) : list (Z * dat) :=
  match l with
  | [] => [p]
  | q :: r => if dat_leb (snd p) (snd q) then p :: l else q :: bk_insert p r
  end.
(* idxs[order], data[order] with order = np.argsort(data) *)
Definition bk_sort (l : list (Z * dat)) : list (Z * dat) := fold_right bk_insert [] l.

(* _sort_weights: 'max' reverses the order *)
Definition bk_sorted_for (is_max : bool) (pts : list (Z * dat)) : list (Z * dat) :=
  if is_max then rev (bk_sort pts) else bk_sort pts.

(* np.unique(digitized idxs_sorted, return_index=True): first position of every bin *)
Fixpoint bk_first_pos (l : list Z) (k : Z) (i : nat) : option nat :=
  match l with
  | [] => None
  | x :: r => if x =? k then Some i else bk_first_pos r k (S i)
  end.
(* weights_sorted[weight_idx] with weight_idx = -1 for bins without a point:
   data_sorted has a NaN appended, index -1 selects it *)
Definition bk_pick (sorted : list (Z * dat)) (k : Z) : dat :=
  let ds := map snd sorted ++ [None] in
  match bk_first_pos (map fst sorted) k 0 with
  | Some i => nth i ds None
  | None => last ds None
  end.

(* _get_statistics; bins outside [0, size) are never reported *)
Definition bk_get_stat (is_max : bool) (size : Z) (idxs : list Z) (data : list dat) : Z -> dat :=
  fun k => if (0 <=? k) && (k <? size) then bk_pick (bk_sorted_for is_max (combine idxs data)) k else None.
Definition bk_get_min := bk_get_stat false.
Definition bk_get_max := bk_get_stat true.

(* _get_abs_max_from_min_max: where(-min > max, min, max); a NaN makes the comparison false *)
Definition bk_absmax_of (mn mx : dat) : dat :=
  match mn, mx with
  | Some a, Some b => if - a >? b then Some a else Some b
  | _, _ => mx
  end.
Definition bk_get_abs_max (size : Z) (idxs : list Z) (data : list dat) : Z -> dat :=
  fun k => bk_absmax_of (bk_get_min size idxs data k) (bk_get_max size idxs data k).

(* the observable arrays: values at 0 .. size-1 *)
Definition bk_cells {A} (size : Z) (f : Z -> A) : list A := map f (zrange 0 (Z.to_nat size)).

(* ------------------------------------------------------------------ specification vocabulary
   (what the property text talks about: the points of a cell, their valid data) *)
Section BucketSpec.
  Context {T : Type} (OP : ops T).
  Definition bk_in_cell (a : area T) (r c : Z) (p : T * T) : bool :=
    match bk_cell_of OP a p with Some (r', c') => (r' =? r) && (c' =? c) | None => false end.
  Definition bk_inside (a : area T) (p : T * T) : bool :=
    match bk_cell_of OP a p with Some _ => true | None => false end.
  (* data values of the points assigned to cell (r, c), in input order *)
  Definition bk_cell_data {D} (a : area T) (r c : Z) (pts : list (T * T)) (data : list D) : list D :=
    map snd (filter (fun q => bk_in_cell a r c (fst q)) (combine pts data)).
  (* data values of the points inside the area *)
  Definition bk_inside_data {D} (a : area T) (pts : list (T * T)) (data : list D) : list D :=
    map snd (filter (fun q => bk_inside a (fst q)) (combine pts data)).
End BucketSpec.

(* the valid (neither fill-marked nor NaN) values of a list of data *)
Definition bk_valid_vals (fill : dat) (ds : list dat) : list Z :=
  flat_map (fun d => if bk_invalid fill d then [] else match d with Some v => [v] | None => [] end) ds.
(* data the property quantifies over: finite values and fill markers (NaN only as the NaN fill marker) *)
Definition bk_data_ok (fill : dat) (ds : list dat) : Prop :=
  Forall (fun d => bk_invalid fill d = true \/ d <> None) ds.
Definition bk_finite (ds : list dat) : Prop := Forall (fun d => d <> None) ds.
Definition bk_vals (ds : list dat) : list Z := flat_map (fun d => match d with Some v => [v] | None => [] end) ds.

(* ------------------------------------------------------------------ the per-element pieces of the statistics
   (the element-wise statements of get_sum / get_average / get_fractions; Proofs/C07_gen.v ties them to the
   definitions regenerated from /repo and shows the functions above are their compositions) *)
Definition bk_weight (fill d : dat) : dat := if bk_invalid fill d then Some 0 else d.
Definition bk_missing_apply (missing : Z) (fill s : dat) : dat := if 0 <? missing then fill else s.
Definition bk_ebv_apply (ebv s : dat) : dat :=
  if dat_eqb ebv (Some 0) then s else if dat_eqb s (Some 0) then ebv else s.
Definition bk_avg_datum (fill d : dat) : dat :=
  if dat_isnan fill then d else if dat_eqb d fill then None else d.
Definition bk_cat_flag (cat : Z) (d : dat) : Z := if dat_eqb d (Some cat) then 1 else 0.
Section BucketPieces.
  Context {T : Type} (OP : ops T).
  Definition bk_avg_cell (s : dat) (c : Z) (fill : dat) : option T :=
    let avg := if c =? 0 then None
               else match s with Some v => Some (div OP (ofZ OP v) (ofZ OP c)) | None => None end in
    match avg with Some v => Some v | None => bk_fill_T OP fill end.
  Definition bk_frac_cell (s c : Z) (fill : dat) : option T :=
    if c =? 0 then bk_fill_T OP fill else Some (div OP (ofZ OP s) (ofZ OP c)).
  (* a datum as a value of the carrier *)
  Definition dat_embT (d : dat) : T := match d with Some v => ofZ OP v | None => nan OP end.
End BucketPieces.

(* ------------------------------------------------------------------ one BucketResampler object through a history of calls
   State kept between calls: the chunk layout of self.idxs (get_sum / _call_bin_statistic re-chunk it in place to match the data)
   and the memoised self.counts of get_count. *)
Fixpoint bk_split_chunks {A} (lens : list nat) (l : list A) : list (list A) :=
  match lens with
  | [] => match l with [] => [] | _ => [l] end
  | n :: r => firstn n l :: bk_split_chunks r (skipn n l)
  end.

(* get_sum on chunked inputs: per-chunk histograms of (idxs, weights), and of the idxs of the missing data, summed by dask *)
Definition bk_get_sum_chunked (size : Z) (lens : list nat) (idxs : list Z) (data : list dat) (fill : dat) (skipna : bool) (ebv : dat)
  : Z -> dat :=
  let sums := bk_hist_chunked oadd (Some 0) size (bk_split_chunks lens (combine idxs (bk_weights fill data))) in
  let sums1 := if skipna then sums
               else let missing := bk_hist_chunked Z.add 0 size
                                     (map (fun ch => map (fun p => (fst p, 1)) (filter (fun p : Z * dat => bk_invalid fill (snd p)) ch))
                                          (bk_split_chunks lens (combine idxs data))) in
                    fun k => if 0 <? missing k then fill else sums k in
  if dat_eqb ebv (Some 0) then sums1
  else fun k => if dat_eqb (sums1 k) (Some 0) then ebv else sums1 k.

Record bk_obj := mk_obj { o_size : Z; o_chunks : list (list Z); o_counts : option (list Z) }.
Inductive bk_call :=
| CallCount
| CallSum (lens : list nat) (data : list dat) (fill : dat) (skipna : bool) (ebv : dat)
| CallMin (lens : list nat) (data : list dat)
| CallMax (lens : list nat) (data : list dat)
| CallAvg (lens : list nat) (data : list dat) (fill : dat) (skipna : bool)
| CallFrac (lens : list nat) (data : list dat) (cat : Z) (fill : dat).

Definition bk_rechunk (lens : list nat) (o : bk_obj) : bk_obj :=
  mk_obj (o_size o) (bk_split_chunks lens (concat (o_chunks o))) (o_counts o).

(* get_count: memoised in self.counts *)
Definition bk_count_step (o : bk_obj) : bk_obj * list Z :=
  match o_counts o with
  | Some cs => (o, cs)
  | None => let cs := bk_cells (o_size o) (bk_hist_chunked Z.add 0 (o_size o) (map (map (fun i => (i, 1))) (o_chunks o))) in
            (mk_obj (o_size o) (o_chunks o) (Some cs), cs)
  end.

Section BucketHistory.
  Context {T : Type} (OP : ops T).
  Inductive bk_result := ResZ (l : list Z) | ResD (l : list dat) | ResF (l : list (option T)).

  Definition bk_step (o : bk_obj) (c : bk_call) : bk_obj * bk_result :=
    let size := o_size o in
    match c with
    | CallCount => let '(o', cs) := bk_count_step o in (o', ResZ cs)
    | CallSum lens data fill skipna ebv =>
        let o' := bk_rechunk lens o in
        (o', ResD (bk_cells size (bk_get_sum_chunked size lens (concat (o_chunks o')) data fill skipna ebv)))
    | CallMin lens data =>
        let o' := bk_rechunk lens o in (o', ResD (bk_cells size (bk_get_min size (concat (o_chunks o')) data)))
    | CallMax lens data =>
        let o' := bk_rechunk lens o in (o', ResD (bk_cells size (bk_get_max size (concat (o_chunks o')) data)))
    | CallAvg lens data fill skipna =>
        (* get_average: two get_sum calls (re-chunking idxs); self.counts is neither read nor written *)
        let o' := bk_rechunk lens o in
        (o', ResF (bk_cells size (bk_get_average OP size (concat (o_chunks o')) data fill skipna)))
    | CallFrac lens data cat fill =>
        (* get_fractions: counts = self.get_count() (memo read or filled), then get_sum of the category indicator *)
        let '(o1, cs) := bk_count_step o in
        let o' := bk_rechunk lens o1 in
        let sums := bk_hist Z.add 0 size (combine (concat (o_chunks o')) (bk_cat_flags cat data)) in
        (o', ResF (map (fun kc => bk_frac_cell OP (sums (fst kc)) (snd kc) fill) (combine (zrange 0 (Z.to_nat size)) cs)))
    end.

  Fixpoint bk_run (o : bk_obj) (calls : list bk_call) : list bk_result :=
    match calls with
    | [] => []
    | c :: r => let '(o', res) := bk_step o c in res :: bk_run o' r
    end.

  (* the same call on a fresh object holding the same indices in one chunk *)
  Definition bk_fresh (size : Z) (idxs : list Z) (c : bk_call) : bk_result :=
    match c with
    | CallCount => ResZ (bk_cells size (bk_count size idxs))
    | CallSum _ data fill skipna ebv => ResD (bk_cells size (bk_get_sum size idxs data fill skipna ebv))
    | CallMin _ data => ResD (bk_cells size (bk_get_min size idxs data))
    | CallMax _ data => ResD (bk_cells size (bk_get_max size idxs data))
    | CallAvg _ data fill skipna => ResF (bk_cells size (bk_get_average OP size idxs data fill skipna))
    | CallFrac _ data cat fill => ResF (bk_cells size (bk_get_fraction OP size idxs data cat fill))
    end.
End BucketHistory.
Arguments ResZ {T}. Arguments ResD {T}. Arguments ResF {T}.
