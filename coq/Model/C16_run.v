(* executable wrappers comparing the C16 model (binary64 index tables) with observations of the implementation *)
From Coq Require Import ZArith List Bool PrimFloat.
From PR Require Import Base.Num Base.F64 Base.ListX Model.Boundary Gen.GenC16.
Import ListNotations.
Open Scope Z_scope.

Definition pix_eqb (a b : pix) : bool := (fst a =? fst b) && (snd a =? snd b).
Definition sides_eqb (a b : list (list pix)) : bool := list_eqb (list_eqb pix_eqb) a b.

Definition f_asc := linspace_idx F64.
Definition f_desc := linspace_idx_desc F64.
Definition f_sides (h w : Z) (vps : option Z) : list (list pix) := bbox_sides f_asc f_desc h w vps.

(* np.linspace(start, stop, num, dtype=int) *)
Definition chk_linspace (c : Z * Z * Z * list Z) : bool :=
  let '(start, stop, num, exp) := c in list_eqb Z.eqb (linspace_int F64 start stop (Z.to_nat num)) exp.

(* the definition regenerated from /repo's _get_bbox_slices, negative indices resolved as Python does *)
Definition g_sides (h w : Z) (vps : option Z) : list (list pix) :=
  resolve_slices h w (match vps with
                      | Some v => gen_bbox_slices_some F64 (mk_geom (h, w)) v
                      | None => gen_bbox_slices_none F64 (mk_geom (h, w)) tt
                      end).

(* _get_bbox_slices (negative indices resolved by the harness): the model and the generated definition *)
Definition chk_slices (c : Z * Z * option Z * list (list pix)) : bool :=
  let '(h, w, vps, exp) := c in sides_eqb (f_sides h w vps) exp && sides_eqb (g_sides h w vps) exp.

(* one geometry: the pixel indices of
     get_bbox_lonlats(force_clockwise=False), get_bbox_lonlats(force_clockwise=True),
     boundary(force_clockwise=True).contour(), boundary().contour(), get_edge_lonlats()
   given the verdict [cw] of _corner_is_clockwise on the unforced sides *)
Record ring_obs := mkRing {
  r_h : Z; r_w : Z; r_vps : option Z; r_cw : bool;
  r_unforced : list (list pix); r_forced : list (list pix);
  r_contour_f : list pix; r_contour_u : list pix; r_edge : list pix
}.
Definition chk_ring (c : ring_obs) : bool :=
  let s := f_sides (r_h c) (r_w c) (r_vps c) in
  match bbox_oriented (fun _ => r_cw c) true s, bbox_oriented (fun _ => r_cw c) false s with
  | Some f, Some u =>
      sides_eqb u (r_unforced c) && sides_eqb f (r_forced c)
      && list_eqb pix_eqb (contour f) (r_contour_f c)
      && list_eqb pix_eqb (contour u) (r_contour_u c)
      && list_eqb pix_eqb (edge_concat u) (r_edge c)
  | _, _ => false
  end.

(* NaN filtering: the coordinates of pixel (r, c) are (lon, lat) = (c, r) as floats, with a NaN longitude /
   latitude on the listed pixels *)
Definition nan_coord (nlon nlat : list pix) (p : pix) : float * float :=
  ((if existsb (pix_eqb p) nlon then PrimFloat.nan else Z2F (snd p)),
   (if existsb (pix_eqb p) nlat then PrimFloat.nan else Z2F (fst p))).
Definition coord_pix (q : float * float) : pix := (floorZ F64 (snd q), floorZ F64 (fst q)).
Definition chk_nan (c : Z * Z * option Z * list pix * list pix * option (list (list pix))) : bool :=
  let '(h, w, vps, nlon, nlat, exp) := c in
  let s := map (map (nan_coord nlon nlat)) (f_sides h w vps) in
  match filter_sides_nans F64 s, exp with
  | Some f, Some e => sides_eqb (map (map coord_pix) f) e
  | None, None => true
  | _, _ => false
  end.

(* geostationary dummy sides: positions (into the list of intersection vertices) of the vertices of each side *)
Definition chk_geos (c : Z * list (list Z)) : bool :=
  let '(n, exp) := c in
  list_eqb (list_eqb Z.eqb) (geos_sides (map Z.of_nat (seq 0 (Z.to_nat n)))) exp.

(* AreaBoundary.decimate: positions kept of a side of L vertices *)
Definition chk_decimate (c : Z * Z * list Z) : bool :=
  let '(L, ratio, exp) := c in list_eqb Z.eqb (decimate_idx L ratio) exp.

(* get_boundary_lonlats: the complete sides *)
Definition chk_full_sides (c : Z * Z * list (list pix)) : bool :=
  let '(h, w, exp) := c in sides_eqb (full_sides h w) exp && sides_eqb (f_sides h w None) exp.
