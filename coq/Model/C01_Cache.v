(* C01 -- call histories on ONE AreaDefinition object: get_lonlats(cache=True) memoises self.lons / self.lats.
   Mirrors geometry.AreaDefinition.get_lonlats:
     if self.lons is not None:  return self.lons[data_slice]          (dtype / chunks ignored)
     ... compute ...;  dask result returned before the cache code
     if cache and data_slice is None:  self.lons, self.lats = result
   get_lonlat(row, col) = get_lonlats(data_slice=(row, col)).item();  colrow2lonlat never touches the cache.
   State = optional cached grid.  [store_sliced = true] is the broken variant `if cache:` (stores a sliced result). *)
From Coq Require Import ZArith Bool List.
From PR Require Import Base.Num Model.Grid Model.C01_Area.
Import ListNotations.
Open Scope Z_scope.

Inductive c01_op :=
| OpLonlats (sl : option (list Z * list Z)) (ch : option (list Z * list Z)) (cache : bool)   (* data_slice / chunks / cache *)
| OpGetLonlat (r c : Z)
| OpColrow (c r : Z).

Section Cache.
  Context {T : Type} (OP : ops T) (invT invP : T * T -> T * T) (a : area T).
  Definition c01_grid := list (list (T * T)).

  Definition c01_all_rows : list Z := c01_range 0 (height a).
  Definition c01_all_cols : list Z := c01_range 0 (width a).
  Definition c01_sel (sl : option (list Z * list Z)) : list Z * list Z :=
    match sl with None => (c01_all_rows, c01_all_cols) | Some p => p end.

  (* the stateless computation *)
  Definition c01_fresh_lonlats (sl : option (list Z * list Z)) (ch : option (list Z * list Z)) : c01_grid :=
    let '(rows, cols) := c01_sel sl in
    match ch with
    | None => c01_lonlats OP invT a rows cols
    | Some (rch, cch) => c01_lonlats_dask OP invT a rch cch rows cols
    end.
  (* self.lons[data_slice] *)
  Definition c01_slice_cached (g : c01_grid) (sl : option (list Z * list Z)) : c01_grid :=
    match sl with
    | None => g
    | Some (rows, cols) => c01_select [] rows (map (c01_select (c01_dflt OP) cols) g)
    end.
  Definition is_none {A} (o : option A) : bool := match o with None => true | Some _ => false end.

  Definition c01_lonlats_step (store_sliced : bool) (st : option c01_grid) sl ch (cache : bool) : option c01_grid * c01_grid :=
    match st with
    | Some g => (st, c01_slice_cached g sl)
    | None =>
        let res := c01_fresh_lonlats sl ch in
        let store := cache && is_none ch && (store_sliced || is_none sl) in
        ((if store then Some res else None), res)
    end.

  Definition c01_step (store_sliced : bool) (st : option c01_grid) (op : c01_op) : option c01_grid * c01_grid :=
    match op with
    | OpLonlats sl ch cache => c01_lonlats_step store_sliced st sl ch cache
    | OpGetLonlat r c => c01_lonlats_step store_sliced st (Some ([r], [c])) None false
    | OpColrow c r => (st, [[c01_colrow2lonlat OP invP a c r]])
    end.

  Fixpoint c01_run (store_sliced : bool) (st : option c01_grid) (ops : list c01_op) : list c01_grid :=
    match ops with
    | [] => []
    | op :: rest => let '(st', o) := c01_step store_sliced st op in o :: c01_run store_sliced st' rest
    end.

  (* what a fresh object answers to the same call *)
  Definition c01_stateless (op : c01_op) : c01_grid := snd (c01_step false None op).
End Cache.
