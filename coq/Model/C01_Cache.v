(* C01 -- call histories on ONE AreaDefinition object: get_lonlats(cache=True) memoises self.lons / self.lats.
   Mirrors geometry.AreaDefinition.get_lonlats:
     if self.lons is not None:  return self.lons[data_slice]          (dtype / chunks ignored)
     ... compute ...;  dask result returned before the cache code
     if cache and data_slice is None:  self.lons, self.lats = result
   get_lonlat(row, col) = get_lonlats(data_slice=(row, col)).item();  colrow2lonlat never touches the cache.
   State = optional cached grid.  [store_sliced = true] is the broken variant `if cache:` (stores a sliced result). *)
From Coq Require Import ZArith Bool List.
From PR Require Import Base.Num Model.Grid Model.C01_Area.
Import ListNotations.
Open Scope Z_scope.

Inductive c01_op :=
| OpLonlats (sl : option (list Z * list Z)) (ch : option (list Z * list Z)) (cache : bool)   (* data_slice / chunks / cache *)
| OpGetLonlat (r c : Z)
| OpColrow (c r : Z).

Section Cache.
  Context {T : Type} (OP : ops T) (invT invP : T * T -> T * T) (a : area T).
  Definition c01_grid := list (list (T * T)).

  Definition c01_all_rows : list Z := c01_range 0 (height a).
  Definition c01_all_cols : list Z := c01_range 0 (width a).
  Definition c01_sel (sl : option (list Z * list Z)) : list Z * list Z :=
    match sl with None => (c01_all_rows, c01_all_cols) | Some p => p end.

  (* the stateless computation *)
  Definition c01_fresh_lonlats (sl : option (list Z * list Z)) (ch : option (list Z * list Z)) : c01_grid :=
    let '(rows, cols) := c01_sel sl in
    match ch with
    | None => c01_lonlats OP invT a rows cols
    | Some (rch, cch) => c01_lonlats_dask OP invT a rch cch rows cols
    end.
  (* self.lons[data_slice] *)
  Definition c01_slice_cached (g : c01_grid) (sl : option (list Z * list Z)) : c01_grid :=
    match sl with
    | None => g
    | Some (rows, cols) => c01_select [] rows (map (c01_select (c01_dflt OP) cols) g)
    end.
  Definition is_none {A} (o : option A) : bool := match o with None => true | Some _ => false end.

  Definition c01_lonlats_step (store_sliced : bool) (st : option c01_grid) sl ch (cache : bool) : option c01_grid * c01_grid :=
    match st with
    | Some g => (st, c01_slice_cached g sl)
    | None =>
        let res := c01_fresh_lonlats sl ch in
        let store := cache && is_none ch && (store_sliced || is_none sl) in
        ((if store then Some res else None), res)
    end.

  Definition c01_step (store_sliced : bool) (st : option c01_grid) (op : c01_op) : option c01_grid * c01_grid :=
    match op with
    | OpLonlats sl ch cache => c01_lonlats_step store_sliced st sl ch cache
    | OpGetLonlat r c => c01_lonlats_step store_sliced st (Some ([r], [c])) None false
    | OpColrow c r => (st, [[c01_colrow2lonlat OP invP a c r]])
    end.

  Fixpoint c01_run (store_sliced : bool) (st : option c01_grid) (ops : list c01_op) : list c01_grid :=
    match ops with
    | [] => []
    | op :: rest => let '(st', o) := c01_step store_sliced st op in o :: c01_run store_sliced st' rest
    end.

  (* what a fresh object answers to the same call *)
  Definition c01_stateless (op : c01_op) : c01_grid := snd (c01_step false None op).
End Cache.

(* ---- the CALLER overwrites, in place, arrays it was handed ----
   A call may be followed by such an overwrite, given as the effect g it would have on the cache IF the returned arrays were
   the cache itself or a view of it.  AreaDefinition.get_lonlats stores and hands out COPIES (fix 0014900f), so nothing the
   caller holds aliases the object: [alias = false] is the code.  [alias = true] is the earlier behaviour (the numpy result
   was self.lons or a view of it exactly when the cache is set after the call).  get_lonlat returns Python floats and
   colrow2lonlat never touches the cache. *)
Section Mutation.
  Context {T : Type} (OP : ops T) (invT invP : T * T -> T * T) (a : area T).
  Inductive c01_mop := MCall (op : c01_op) (overwrite : option (list (list (T * T)) -> list (list (T * T)))).
  Definition c01_mop_op (m : c01_mop) : c01_op := match m with MCall op _ => op end.

  Definition c01_mstep (alias : bool) (st : option (list (list (T * T)))) (m : c01_mop) : option (list (list (T * T))) * list (list (T * T)) :=
    match m with
    | MCall op ow =>
        let '(st', o) := c01_step OP invT invP a false st op in
        let st'' := match ow, op, st' with
                    | Some g, OpLonlats _ _ _, Some c => if alias then Some (g c) else st'   (* alias: the caller's arrays ARE (a view of) the cache *)
                    | _, _, _ => st'
                    end in
        (st'', o)
    end.
  Fixpoint c01_mrun (alias : bool) (st : option (list (list (T * T)))) (ms : list c01_mop) : list (list (list (T * T))) :=
    match ms with
    | [] => []
    | m :: rest => let '(st', o) := c01_mstep alias st m in o :: c01_mrun alias st' rest
    end.

  (* the 1-D projection vectors: AreaDefinition keeps NO memo of them ([memo = false]); [memo = true] is the variant that
     stores the default numpy vectors and hands the same arrays to every caller *)
  Inductive c01_vop := VGet | VOverwrite (f : T -> T).     (* get_proj_vectors() / the caller overwrites the returned x vector *)
  Definition c01_vstep (memo : bool) (st : option (list T)) (op : c01_vop) : option (list T) * option (list T) :=
    match op with
    | VGet => match st with
              | Some v => (st, Some v)
              | None => let v := c01_vec_x OP a 0 (width a) in ((if memo then Some v else None), Some v)
              end
    | VOverwrite f => (option_map (map f) st, None)          (* the array the caller holds IS the memo, when there is one *)
    end.
  Fixpoint c01_vrun (memo : bool) (st : option (list T)) (ops : list c01_vop) : list (option (list T)) :=
    match ops with
    | [] => []
    | op :: rest => let '(st', o) := c01_vstep memo st op in o :: c01_vrun memo st' rest
    end.
End Mutation.
Arguments MCall {T}.
Arguments VGet {T}.
Arguments VOverwrite {T}.

(* ---- several lazy results in ONE dask.compute: the task graphs are merged by task NAME ----
   A graph is a list of (name, value); merging is concatenation; a task is looked up by name (first hit).  *)
Section Joint.
  Context {K V : Type} (keq : K -> K -> bool).
  Fixpoint c01_glookup (g : list (K * V)) (k : K) : option V :=
    match g with
    | [] => None
    | (k', v) :: r => if keq k' k then Some v else c01_glookup r k
    end.
  Definition c01_graph {Task : Type} (name : Task -> K) (val : Task -> V) (tasks : list Task) : list (K * V) :=
    map (fun t => (name t, val t)) tasks.
End Joint.

(* the tasks of _proj_coords_dask: everything map_blocks passes to _generate_2d_coords plus the block's array-location *)
Record c01_task (T : Type) := mk_task { t_psx : T; t_psy : T; t_ulx : T; t_uly : T; t_r0 : Z; t_r1 : Z; t_c0 : Z; t_c1 : Z }.
Arguments mk_task {T}. Arguments t_psx {T}. Arguments t_psy {T}. Arguments t_ulx {T}. Arguments t_uly {T}.
Arguments t_r0 {T}. Arguments t_r1 {T}. Arguments t_c0 {T}. Arguments t_c1 {T}.
Section JointCoords.
  Context {T : Type} (OP : ops T).
  (* _generate_2d_coords computes the block from those arguments alone *)
  Definition c01_task_value (t : c01_task T) : list (list (T * T)) :=
    c01_mesh (map (fun c => add OP (mul OP (ofZ OP c) (t_psx t)) (t_ulx t)) (c01_range (t_c0 t) (t_c1 t)))
             (map (fun r => add OP (mul OP (ofZ OP r) (neg OP (t_psy t))) (t_uly t)) (c01_range (t_r0 t) (t_r1 t))).
  Definition c01_task_of (a : area T) (r0 r1 c0 c1 : Z) : c01_task T :=
    mk_task (pixel_size_x OP a) (pixel_size_y OP a) (upl_x OP a) (upl_y OP a) r0 r1 c0 c1.
End JointCoords.
