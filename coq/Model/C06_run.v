(* executable wrappers comparing the C06 model (binary64 instance) with observations of the implementation *)
From Coq Require Import ZArith List Bool PrimFloat.
From PR Require Import Base.Num Base.F64 Base.ListX Model.Bilinear.
Import ListNotations.
Open Scope Z_scope.

Definition fl_eqb (a b : list float) : bool := list_eqb same_bits a b.

(* inputs x1 y1 x2 y2 x3 y3 x4 y4 ox oy; outputs in the order the driver reports them *)
Definition kernel_outputs (i : list float) : list float :=
  match i with
  | [x1; y1; x2; y2; x3; y3; x4; y4; ox; oy] =>
      let p1 := (x1, y1) in let p2 := (x2, y2) in let p3 := (x3, y3) in let p4 := (x4, y4) in
      let '(a, b, c) := calc_abc F64 p1 p2 p3 p4 oy ox in
      let '(a2, b2, c2) := calc_abc F64 p1 p3 p2 p4 oy ox in
      let q := solve_quadratic F64 a b c (f0 F64) (f1 F64) in
      let q2 := solve_quadratic F64 a2 b2 c2 (f0 F64) (f1 F64) in
      let '(ti, si) := frac_irregular F64 p1 p2 p3 p4 oy ox in
      let '(tu, su) := frac_uprights F64 p1 p2 p3 p4 oy ox in
      let '(tp, sp) := frac_parallelogram F64 p1 p2 p3 oy ox in
      let '(tf, sf) := fractional_distances F64 p1 p2 p3 p4 ox oy in
      [a; b; c; a2; b2; c2; q; q2; ti; si; tu; su; tp; sp; tf; sf; tf; sf]
  | _ => []
  end.
Definition chk_kernels (c : list float * list float) : bool := fl_eqb (kernel_outputs (fst c)) (snd c).

Definition chk_other (c : list float * float) : bool :=
  match fst c with
  | [f; y1; y2; y3; y4; oy] => same_bits (solve_other F64 f y1 y2 y3 y4 oy) (snd c)
  | _ => false
  end.
Definition chk_quadratic (c : list float * float) : bool :=
  match fst c with
  | [a; b; cc; lo; hi] => same_bits (solve_quadratic F64 a b cc lo hi) (snd c)
  | _ => false
  end.
Definition chk_resample (c : list float * float) : bool :=
  match fst c with
  | [p1; p2; p3; p4; s; t] => same_bits (resample F64 p1 p2 p3 p4 s t) (snd c)
  | _ => false
  end.

(* corner choice: (out_x, out_y, neighbours in kd-tree order, expected four corners (x, y, index)) *)
Definition nb_eqb (a b : float * float * Z) : bool :=
  let '(x, y, i) := a in let '(x', y', i') := b in same_bits x x' && same_bits y y' && (i =? i').
Definition chk_corners (c : float * float * list (float * float * Z) * list (float * float * Z)) : bool :=
  let '(ox, oy, l, exp) := c in
  let '(c1, c2, c3, c4) := four_corners F64 ox oy l in
  list_eqb nb_eqb [c1; c2; c3; c4] exp.

(* look-up tables: (ncols (0 = 1-D source), size, valid, index, expected (line, col) table, expected mask) *)
Definition pz_eqb (a b : Z * Z) : bool := (fst a =? fst b) && (snd a =? snd b).
Definition chk_slices (c : Z * Z * list bool * list (list Z) * list (list (Z * Z)) * list (list bool)) : bool :=
  let '(ncols, size, valid, index, exp, expm) := c in
  let '(lc, m) := if ncols =? 0 then get_slices_1d size valid index else get_slices ncols size valid index in
  list_eqb (list_eqb pz_eqb) lc exp && list_eqb (list_eqb Bool.eqb) m expm.
(* _slice2d / _slice3d on the tables: (bands of rows of values, fill, (line, col) table, mask, expected per band) *)
Definition chk_sliced (c : list (list (list float)) * float * list (list (Z * Z)) * list (list bool) * list (list (list float))) : bool :=
  let '(values, fill, lc, m, exp) := c in
  list_eqb (list_eqb fl_eqb) (slice3d PrimFloat.nan values fill lc m) exp.

(* one pixel end to end: data table by index, neighbours, output location, expected value *)
Definition chk_pixel (c : list float * list (float * float * Z) * float * float * float) : bool :=
  let '(data, l, ox, oy, exp) := c in
  same_bits (pixel F64 (fun i => znth PrimFloat.nan data i) l ox oy) exp.
