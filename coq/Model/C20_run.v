(* executable wrappers comparing the C20 models (binary64 instance) with observations of the implementation *)
From Coq Require Import ZArith List Bool PrimFloat.
From PR Require Import Base.Num Base.F64 Base.ListX Model.Grid Model.ConvertBase Gen.GenC20 Model.Convert.
Import ListNotations.
Open Scope Z_scope.

Definition f4 : Type := (float * float * float * float)%type.
Definition f6 : Type := (float * float * float * float * float * float)%type.
Definition f4_same (a b : f4) : bool :=
  let '(a0, a1, a2, a3) := a in let '(b0, b1, b2, b3) := b in
  same_bits a0 b0 && same_bits a1 b1 && same_bits a2 b2 && same_bits a3 b3.
Definition f6_same (a b : f6) : bool :=
  let '(a0, a1, a2, a3, a4, a5) := a in let '(b0, b1, b2, b3, b4, b5) := b in
  same_bits a0 b0 && same_bits a1 b1 && same_bits a2 b2 && same_bits a3 b3 && same_bits a4 b4 && same_bits a5 b5.
Definition f2_same (a b : float * float) : bool := same_bits (fst a) (fst b) && same_bits (snd a) (snd b).

Definition mka (e : f4) (w h : Z) : area float := area_of_extent e w h.

Fixpoint same_list (f : Z -> float) (i : Z) (l : list float) : bool :=
  match l with [] => true | x :: r => same_bits (f i) x && same_list f (i + 1) r end.

(* ---------------------------------------------------------------- CF *)
(* the PROJ unit conversion as the table of the implementation's own calls: (x_in, y_in, (x_out, y_out)) *)
Fixpoint tab_lookup (tab : list (float * float * (float * float))) (p : float * float) : float * float :=
  match tab with
  | [] => (PrimFloat.nan, PrimFloat.nan)
  | (x, y, o) :: r => if same_bits x (fst p) && same_bits y (snd p) then o else tab_lookup r p
  end.

Record cf_case := mk_cf_case {
  cf_extent : f4; cf_w : Z; cf_h : Z;
  cf_mode : Z;                 (* 0 coordinates in CRS units; 1 other length unit (divisor k, conversion table); 2 geostationary angles (k = height) *)
  cf_flipx : bool; cf_flipy : bool;
  cf_k : float;
  cf_tab : list (float * float * (float * float));
  cf_stored : f4;              (* observed x[0], x[-1], y[0], y[-1] of the dataset handed to load_cf_area *)
  cf_raises : bool;            (* load_cf_area raised ZeroDivisionError *)
  cf_obs_extent : f4; cf_obs_w : Z; cf_obs_h : Z;
  cf_obs_x : list float; cf_obs_y : list float   (* get_proj_vectors() of the loaded area *)
}.

Definition cf_vectors (c : cf_case) : (Z -> float) * (Z -> float) :=
  let a := mka (cf_extent c) (cf_w c) (cf_h c) in
  let xs := if cf_flipx c then cf_x_rev F64 a else cf_x F64 a in
  let ys := if cf_flipy c then cf_y_sn F64 a else cf_y_ns F64 a in
  if cf_mode c =? 0 then (xs, ys) else (scaled F64 (cf_k c) xs, scaled F64 (cf_k c) ys).

Definition cf_model (c : cf_case) : area float :=
  let '(xs, ys) := cf_vectors c in
  if cf_mode c =? 0 then cf_load F64 xs ys (cf_w c) (cf_h c)
  else if cf_mode c =? 1 then cf_load_units F64 (tab_lookup (cf_tab c)) xs ys (cf_w c) (cf_h c)
  else cf_load_geos F64 (cf_k c) xs ys (cf_w c) (cf_h c).

Definition chk_cf (c : cf_case) : bool :=
  let '(xs, ys) := cf_vectors c in
  let stored := (xs 0, xs (cf_w c - 1), ys 0, ys (cf_h c - 1)) in
  let raises := load_axis_raises F64 xs (cf_w c) || load_axis_raises F64 ys (cf_h c) in
  f4_same stored (cf_stored c) &&
  Bool.eqb raises (cf_raises c) &&
  (if raises then true else
     let b := cf_model c in
     f4_same (area_extent b) (cf_obs_extent c) && (width b =? cf_obs_w c) && (height b =? cf_obs_h c) &&
     same_list (proj_x F64 b) 0 (cf_obs_x c) && same_list (proj_y F64 b) 0 (cf_obs_y c)).

(* ---------------------------------------------------------------- rasters *)
Record raster_case := mk_raster_case {
  ra_extent : f4; ra_w : Z; ra_h : Z;
  ra_sn : bool;                                   (* written south-to-north *)
  ra_written : f6;                                (* transform the raster was written with *)
  ra_transform : f6;                              (* transform of the opened dataset (GDAL re-derives it for PixelIsPoint files: may differ in the last bit) *)
  ra_bounds : f4;                                 (* dataset.bounds as computed by rasterio *)
  ra_obs_rio : f4; ra_obs_gdal : f4;              (* area_extent returned through the rasterio / gdal branch *)
  ra_obs_w : Z; ra_obs_h : Z;
  ra_obs_x : list float; ra_obs_y : list float
}.
Definition chk_raster (c : raster_case) : bool :=
  let a := mka (ra_extent c) (ra_w c) (ra_h c) in
  let tr0 := if ra_sn c then area_affine_sn F64 a else area_affine F64 a in
  let tr := ra_transform c in
  let b := raster_load F64 tr (ra_w c) (ra_h c) in                                  (* gdal branch *)
  let b' := rio_load (mk_rio (ra_h c) (ra_w c) (ra_bounds c)) in                    (* rasterio branch on rasterio's own bounds *)
  f6_same tr0 (ra_written c) && negb (rotated F64 tr) && negb (rotated_rio F64 tr) &&
  f4_same (area_extent b) (ra_bounds c) &&                                          (* H_bounds of C20_rasterio_roundtrip *)
  f4_same (area_extent b') (ra_obs_rio c) && f4_same (area_extent b) (ra_obs_gdal c) &&
  (width b =? ra_obs_w c) && (height b =? ra_obs_h c) && (width b' =? ra_obs_w c) && (height b' =? ra_obs_h c) &&
  same_list (proj_x F64 b) 0 (ra_obs_x c) && same_list (proj_y F64 b) 0 (ra_obs_y c).

(* a rotated transform must be refused: (transform, implementation raised ValueError) *)
Definition chk_rotated (c : f6 * bool * bool) : bool :=
  let '(tr, gdal_raised, rio_raised) := c in Bool.eqb (rotated F64 tr) gdal_raised && Bool.eqb (rotated_rio F64 tr) rio_raised.

(* ---------------------------------------------------------------- GeoBox / cartopy *)
Record geobox_case := mk_geobox_case {
  gb_extent : f4; gb_w : Z; gb_h : Z;
  gb_affine : f6; gb_shape : Z * Z;
  gb_c00 : float * float; gb_cwh : float * float  (* affine * (0, 0), affine * (width, height) *)
}.
Definition chk_geobox (c : geobox_case) : bool :=
  let a := mka (gb_extent c) (gb_w c) (gb_h c) in
  let tr := geobox_affine F64 a in
  f6_same tr (gb_affine c) &&
  (fst (geobox_shape F64 a) =? fst (gb_shape c)) && (snd (geobox_shape F64 a) =? snd (gb_shape c)) &&
  f2_same (affine_apply F64 tr (Z2F 0) (Z2F 0)) (gb_c00 c) &&
  f2_same (affine_apply F64 tr (Z2F (gb_w c)) (Z2F (gb_h c))) (gb_cwh c).

Definition chk_cartopy (c : f4 * Z * Z * f4) : bool :=
  let '(e, w, h, obs) := c in f4_same (cartopy_bounds (mka e w h)) obs.
