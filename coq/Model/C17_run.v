(* executable wrappers comparing the C17 models with observations of the implementation *)
From Coq Require Import ZArith List Bool PrimFloat.
From PR Require Import Base.Num Base.F64 Base.ListX Model.SphPoly.
Import ListNotations.
Open Scope Z_scope.

Definition pi64 : float := (0x1.921fb54442d18p+1)%float.     (* np.pi *)

(* az tables captured from the two np.arctan2 calls of SphPolygon.area:
   ta[i] = az(v_i, v_{i+1}) (new_lons_a), tb[i] = az(v_{i+2}, v_{i+1}) (new_lons_b), indices mod n *)
Definition az_tab (n : Z) (ta tb : list float) (x p : Z) : float :=
  if (x + 1) mod n =? p then nth (Z.to_nat x) ta PrimFloat.nan
  else if (p + 1) mod n =? x then nth (Z.to_nat ((p - 1) mod n)) tb PrimFloat.nan
  else PrimFloat.nan.

Definition model_area (n : Z) (ta tb : list float) (r2 : float) : float :=
  area_r2 F64 Z (az_tab n ta tb) pi64 (map Z.of_nat (seq 0 (Z.to_nat n))) r2.

(* case: n, ta, tb, radius**2, area returned by SphPolygon.area *)
Definition chk_area (c : Z * list float * list float * float * float) : bool :=
  let '(n, ta, tb, r2, exp) := c in same_bits (model_area n ta tb r2) exp.

(* ---- the walk *)
Definition enc_node (nd : node) : Z * Z :=
  match nd with Cross c => (0, c) | Vert false i => (1, i) | Vert true i => (2, i) end.
Definition pz_eqb (a b : Z * Z) : bool := (fst a =? fst b) && (snd a =? snd b).
(* result kinds: 0 None, 1 self, 2 other, 3 polygon with the node list, 4 exception *)
Definition enc_result (r : oper_result) : Z * list (Z * Z) :=
  match r with
  | RNone => (0, []) | RSelf => (1, []) | ROther => (2, [])
  | RPoly l => (3, map enc_node l) | RError _ => (4, [])
  end.
Definition mkx (c : Z * Z * Z * float * float * Z * Z) : xing :=
  let '(i, e1, e2, d1, d2, s12, s21) := c in mk_xing i e1 e2 d1 d2 s12 s21.

(* case: n1, n2, crossing table, sign, self._is_inside(other), other._is_inside(self), observed kind, observed nodes *)
Definition chk_oper (c : Z * Z * list (Z * Z * Z * float * float * Z * Z) * Z * bool * bool * Z * list (Z * Z)) : bool :=
  let '(m1, m2, tab, sign, i12, i21, kind, nodes) := c in
  let r := enc_result (bool_oper F64 (mk_arr m1 m2 (map mkx tab)) sign i12 i21) in
  (fst r =? kind) && list_eqb pz_eqb (snd r) nodes.

(* ---- histories: ops 0 area(), 1 inverse(), 2 invert(); observed per call: orientation of the object's vertex array
   (0 as given, 1 reversed) and of the returned polygon (-1: nothing returned) *)
Definition dec_op (z : Z) : pop := if z =? 1 then PInverse else if z =? 2 then PInvert else PArea.
Definition obit (vs l : list Z) : Z := if list_eqb Z.eqb l vs then 0 else if list_eqb Z.eqb l (rev vs) then 1 else 2.
Definition chk_hist (c : Z * list Z * list (Z * Z)) : bool :=
  let '(n, ops, obs) := c in
  let vs := map Z.of_nat (seq 0 (Z.to_nat n)) in
  list_eqb pz_eqb
    (map (fun e => (obit vs (fst e), match snd e with Some q => obit vs q | None => -1 end)) (ptrace vs (map dec_op ops)))
    obs.
