(* Nearest-neighbour resampling through a kd-tree (pyresample/kd_tree.py), definitions only.

   Mirrors, with neighbours = 1, epsilon = 0, reduce_data = False, nprocs = 1, segments = 1:
     _get_valid_input_index / _get_valid_output_index   -> valid_in / valid_out   (generic arithmetic)
     source_lons[valid_input_index] (boolean indexing)   -> select / compact
     KDTree.query(k=1, distance_upper_bound=r)           -> an ORACLE [knn]; its contract is [knn_spec_tol];
                                                            [nearest] is the brute-force reference that meets it
     get_neighbour_info (+ _create_empty_info)           -> neighbour_info
     get_sample_from_neighbour_info, _get_empty_sample,
     _extract_resample_result ('nn' branch), _prepare_result,
     _remask_data, np.ma.masked_equal                    -> get_sample
     resample_nearest / _resample                        -> resample_nn

   The metric is a finite table [d2 : target index -> source index -> Z] of EXACT squared chord
   distances (flat indices into the full, uncompacted coordinate arrays), [r2] the squared radius in
   the same unit.  Imported by C03 / C04 / C05. *)
From Coq Require Import ZArith Bool List Lia.
From PR Require Import Base.Num.
Import ListNotations.

(* ------------------------------------------------------------------------------------------ *)
(* validity of coordinates: the four range comparisons, in the code's order; false on NaN      *)
Section Validity.
  Context {T : Type} (OP : ops T).

  (* ((source_lons >= -180) & (source_lons <= 180) & (source_lats <= 90) & (source_lats >= -90)) *)
  Definition valid_in (lon lat : T) : bool :=
    leb OP (ofZ OP (-180)) lon && leb OP lon (ofZ OP 180) && leb OP lat (ofZ OP 90) && leb OP (ofZ OP (-90)) lat.
  (* ((target_lons >= -180) & (target_lons <= 180) & (target_lats <= 90) & (target_lats >= -90)) *)
  Definition valid_out (lon lat : T) : bool :=
    leb OP (ofZ OP (-180)) lon && leb OP lon (ofZ OP 180) && leb OP lat (ofZ OP 90) && leb OP (ofZ OP (-90)) lat.

  Fixpoint map2 {A B C} (f : A -> B -> C) (a : list A) (b : list B) : list C :=
    match a, b with
    | x :: a', y :: b' => f x y :: map2 f a' b'
    | _, _ => []
    end.
  Definition valid_input_index (lons lats : list T) : list bool := map2 valid_in lons lats.
  Definition valid_output_index (lons lats : list T) : list bool := map2 valid_out lons lats.
End Validity.
Arguments map2 {A B C} f a b.

(* ------------------------------------------------------------------------------------------ *)
(* numpy boolean indexing and its inverse                                                      *)
Fixpoint select {A} (m : list bool) (l : list A) : list A :=          (* l[m] *)
  match m, l with
  | b :: m', x :: l' => if b then x :: select m' l' else select m' l'
  | _, _ => []
  end.
Definition compact (m : list bool) : list nat := select m (seq 0 (length m)).   (* flat indices kept, in order *)
Definition count_true (m : list bool) : nat := length (filter (fun b => b) m).  (* m.sum() *)

(* full = np.full(size, dflt); full[m] = res *)
Fixpoint scatter {A} (m : list bool) (res : list A) (dflt : A) : list A :=
  match m with
  | [] => []
  | true :: m' => match res with
                  | x :: res' => x :: scatter m' res' dflt
                  | [] => dflt :: scatter m' [] dflt
                  end
  | false :: m' => dflt :: scatter m' res dflt
  end.

(* ------------------------------------------------------------------------------------------ *)
(* the kd-tree query: contract, executable acceptance test, brute-force reference              *)
Section Query.
  Open Scope Z_scope.
  (* a / b = (1 + tol)^2 >= 1 : relative slack on squared distances, c >= 0 : absolute slack (binary32 trees:
     squares of tiny coordinate differences underflow); a = b = 1, c = 0 is the exact contract *)
  Variables (a b c : Z).
  Variable r2 : Z.                 (* squared radius of influence *)
  Variable d : nat -> Z.           (* squared distance from the query point to source (flat index) *)
  Variable cands : list nat.       (* flat indices of the valid sources, in tree order *)

  (* answer i is a position in [cands], or (length cands) for "no neighbour within the bound".
     d < r => must be returned, d > r => must not, d = r => either (the libraries' bound is strict). *)
  Definition knn_spec_tol (i : nat) : Prop :=
    ((i < length cands)%nat ->
        (forall s, In s cands -> b * d (nth i cands 0%nat) <= a * d s + c) /\ b * d (nth i cands 0%nat) <= a * r2 + c) /\
    ((length cands <= i)%nat ->
        i = length cands /\ forall s, In s cands -> b * r2 <= a * d s + c).

  Definition accept (i : nat) : bool :=
    if (i <? length cands)%nat
    then forallb (fun s => b * d (nth i cands 0%nat) <=? a * d s + c) cands && (b * d (nth i cands 0%nat) <=? a * r2 + c)
    else (i =? length cands)%nat && forallb (fun s => b * r2 <=? a * d s + c) cands.

  (* brute force: first position of the minimum (lower index wins ties), strict cut at the radius *)
  Fixpoint argmin_from (l : list nat) (pos : nat) (best : option (nat * Z)) : option (nat * Z) :=
    match l with
    | [] => best
    | s :: rest =>
        let best' := match best with
                     | None => Some (pos, d s)
                     | Some (_, db) => if d s <? db then Some (pos, d s) else best
                     end in
        argmin_from rest (S pos) best'
    end.
  Definition nearest : nat :=
    match argmin_from cands 0%nat None with
    | Some (p, dp) => if dp <? r2 then p else length cands
    | None => length cands
    end.
End Query.

Definition knn_spec := knn_spec_tol 1 1 0.

(* [accept] on the list of distances [map d cands] -- the form the correspondence executes *)
Definition accept_list (a b c r2 : Z) (dl : list Z) (i : nat) : bool :=
  let di := nth i dl 0%Z in
  if (i <? length dl)%nat
  then forallb (fun ds => b * di <=? a * ds + c)%Z dl && (b * di <=? a * r2 + c)%Z
  else (i =? length dl)%nat && forallb (fun ds => b * r2 <=? a * ds + c)%Z dl.

(* ------------------------------------------------------------------------------------------ *)
(* the pipeline around the query                                                               *)
Section NN.
  Context {V D : Type}.                       (* element values; dtype tag *)
  Variable veqb : V -> V -> bool.             (* numpy == on the element type *)
  Variables (vzero vone : V).                 (* 0 and 1 (bool True stacked into a numeric array) *)
  Definition b2v (x : bool) : V := if x then vone else vzero.

  (* get_neighbour_info: (valid_input_index, valid_output_index, index_array).
     [knn cands t] = answer of the tree built on [cands] for target (flat index) t. *)
  Definition neighbour_info (knn : list nat -> nat -> nat) (vin vout : list bool)
    : list bool * list bool * list nat :=
    match compact vin with
    | [] => (vin, repeat true (length vout), repeat (length vin) (length vout))    (* _create_empty_info *)
    | cands => (vin, vout, map (knn cands) (compact vout))
    end.

  Record sample := mk_sample {
    o_shape : list Z;
    o_dtype : D;
    o_cells : list (list V * list bool);      (* per target location: channel values, channel mask bits *)
    o_masked : bool                            (* result is a numpy MaskedArray *)
  }.
  Definition o_vals (s : sample) : list V := concat (map fst (o_cells s)).
  Definition o_mask (s : sample) : list bool := concat (map snd (o_cells s)).

  (* data as seen after the reshape at the top of get_sample_from_neighbour_info:
     rows : one list of k channel values per source location (k = 1 and multi = false for 1-D data)
     mrows: Some mask rows when data is a MaskedArray
     fill : None = fill_value None; sentinel = _get_fill_mask_value(dtype) *)
  Definition get_sample (tshape : list Z) (dtype : D) (multi : bool) (k : nat)
             (rows : list (list V)) (mrows : option (list (list bool)))
             (vin vout : list bool) (idx : list nat) (fill : option V) (sentinel : V) : sample :=
    let kk := if multi then k else 1%nat in
    let chan := if multi then [Z.of_nat k] else [] in
    if ((count_true vin =? 0) || (count_true vout =? 0))%nat then
      (* _get_empty_sample *)
      match fill with
      | None => mk_sample (tshape ++ chan) dtype (repeat (repeat vzero kk, repeat true kk) (length vout)) true
      | Some f => mk_sample (tshape ++ chan) dtype (repeat (repeat f kk, repeat false kk) (length vout)) false
      end
    else
      let new_rows := select vin rows in                                   (* data[valid_input_index] *)
      let new_m := match mrows with Some mm => select vin mm | None => [] end in
      let is_masked := existsb (existsb (fun x => x)) new_m in             (* np.ma.is_masked(new_data) *)
      let new_data := if is_masked then map2 (fun r m => r ++ map b2v m) new_rows new_m else new_rows in
      let W := if is_masked then (2 * kk)%nat else kk in
      let use_mf := match fill with None => true | Some _ => false end in
      let fillv := match fill with Some f => f | None => sentinel end in
      let n := count_true vin in                                           (* valid_input_size *)
      let fillrow := repeat fillv W in
      (* index_mask = (index_array == n); result = new_data[where(mask, 0, idx)]; result[mask] = fill *)
      let res := map (fun i => if (i =? n)%nat then fillrow else nth i new_data fillrow) idx in
      (* full_result = np.full(.., fill); full_result[valid_output_index] = result *)
      let full := scatter vout res fillrow in
      (* _prepare_result: reshape, _remask_data (second half of the channels != 0 is the mask) *)
      let cells := if is_masked
                   then map (fun row => (firstn kk row, map (fun v => negb (veqb v vzero)) (skipn kk row))) full
                   else map (fun row => (row, repeat false kk)) full in
      (* fill_value None: np.ma.masked_equal(result, sentinel) -- masks EVERY element equal to the sentinel *)
      let cells' := if use_mf
                    then map (fun c => (fst c, map2 orb (snd c) (map (fun v => veqb v fillv) (fst c)))) cells
                    else cells in
      (* _remask_data drops a trailing channel dimension of length 1, also for (n,1) multi-channel input *)
      let suffix := if is_masked then (if (kk =? 1)%nat then [] else [Z.of_nat kk]) else chan in
      mk_sample (tshape ++ suffix) dtype cells' (is_masked || use_mf).

  (* resample_nearest = get_sample_from_neighbour_info o get_neighbour_info *)
  Definition resample_nn (knn : list nat -> nat -> nat) (tshape : list Z) (dtype : D) (multi : bool) (k : nat)
             (rows : list (list V)) (mrows : option (list (list bool)))
             (vin vout : list bool) (fill : option V) (sentinel : V) : sample :=
    let '(vii, voi, idx) := neighbour_info knn vin vout in
    get_sample tshape dtype multi k rows mrows vii voi idx fill sentinel.
End NN.

Definition prodZ (l : list Z) : Z := fold_right Z.mul 1%Z l.

(* ------------------------------------------------------------------------------------------ *)
(* _spatial_mp.Cartesian.transform_lonlats for one location, generic arithmetic; cos / sin are ORACLES
   (numexpr / libm):  "R*cos(lats*deg2rad)*cos(lons*deg2rad)", "R*cos(lats*deg2rad)*sin(lons*deg2rad)",
   "R*sin(lats*deg2rad)"  (left-associated products, deg2rad = np.pi / 180 as a binary64 constant) *)
Section Cartesian.
  Context {T : Type} (OP : ops T).
  Variables (cosf sinf : T -> T).
  Variables (Rearth deg2rad : T).
  Definition transform_lonlat (lon lat : T) : T * T * T :=
    let la := mul OP lat deg2rad in
    let lo := mul OP lon deg2rad in
    (mul OP (mul OP Rearth (cosf la)) (cosf lo), mul OP (mul OP Rearth (cosf la)) (sinf lo), mul OP Rearth (sinf la)).
End Cartesian.
