(* Elliptical weighted averaging (C08): definitions only.
   Mirrors  pyresample/ewa/ewa.py:ll2cr  +  _ll2cr.pyx:ll2cr_static  (column/row of a projected point, in-grid count),
            _fornav_templates.cpp:compute_ewa / compute_ewa_single (weight and weighted-value accumulation),
            write_grid_image (threshold, division, rounding term), _fornav.pyx:fornav (default weight_sum_min),
            dask_ewa.py:_call_ll2cr / _delayed_fornav / _combine_fornav / _average_fornav /
            _generate_fornav_dask_tasks (placeholders, per-output-chunk offsets, reduction).
   Numeric code is written once over the arithmetic record: RO for the theorems, F64 for the bit-exact ll2cr
   correspondence, QO (below, exact rationals) for the accumulation correspondence.
   ORACLES (never axioms): the projected coordinates (PROJ) are inputs; the per-pixel footprint
   (compute_ewa_parameters, the ellipse scan, the q recurrence and the weight table) is a table [px_fp]. *)
From Coq Require Import ZArith Bool List QArith Qround Qabs.
From PR Require Import Base.Num Model.Grid.
Import ListNotations.
Open Scope Z_scope.

(* ------------------------------------------------------------------ exact rationals *)
Definition Qlit (m e : Z) : Q :=
  if 0 <=? e then inject_Z (m * 2 ^ e) else Qred (Qmake m (Z.to_pos (2 ^ (- e)))).
Definition Qrint (q : Q) : Z :=
  let f := Qfloor q in
  let r := Qred (q - inject_Z f) in
  match Qcompare r (1 # 2) with Lt => f | Gt => f + 1 | Eq => if Z.even f then f else f + 1 end.
Definition QO : ops Q := {|
  add := fun a b => Qred (a + b); sub := fun a b => Qred (a - b);
  mul := fun a b => Qred (a * b); div := fun a b => Qred (a / b);
  neg := Qopp; absf := Qabs; sqrtf := fun x => x;      (* sqrt is not used by any model run on Q *)
  ofZ := inject_Z; lit := Qlit;
  floorZ := Qfloor; ceilZ := Qceiling;
  truncZ := fun q => if Qle_bool 0 q then Qfloor q else Qceiling q; rintZ := Qrint;
  ltb := fun a b => negb (Qle_bool b a); leb := Qle_bool; eqb := Qeq_bool;
  isnan := fun _ => false; isfinite := fun _ => true; nan := 0%Q
|}.

(* ------------------------------------------------------------------ ll2cr *)
Section LL2CR.
  Context {T : Type} (OP : ops T).

  (* the C literal 1e30 as a double (= 7105427357601002 * 2^47), written as the translator writes it *)
  Definition big30 : T := lit OP 1000000000000000019884624838656 0.

  Record cr_params := mk_crp { cp_cw : T; cp_ch : T; cp_ox : T; cp_oy : T; cp_w : Z; cp_h : Z }.

  (* ewa.py:ll2cr:  cw = pixel_size_x; ch = -pixel_size_y; ox = area_extent[0] + cw / 2.; oy = area_extent[3] + ch / 2. *)
  Definition ll2cr_params (a : area T) : cr_params :=
    let cw := pixel_size_x OP a in
    let ch := neg OP (pixel_size_y OP a) in
    let w := width a in
    let h := height a in
    let ox := add OP (xmin a) (div OP cw (ofZ OP 2)) in
    let oy := add OP (ymax a) (div OP ch (ofZ OP 2)) in
    mk_crp cw ch ox oy w h.

  (* the argument tuple (cell_width, cell_height, width, height, origin_x, origin_y) of _ll2cr.ll2cr_static, as the
     translator emits it from the source of ewa.ll2cr (Gen/GenC08.v) *)
  Definition params_of_tuple (g : T * T * Z * Z * T * T) : cr_params :=
    let '(cw, ch, w, h, ox, oy) := g in mk_crp cw ch ox oy w h.

  (* `x_tmp >= -1 and x_tmp <= width + 1 and y_tmp >= -1 and y_tmp <= height + 1` *)
  Definition in_grid_test (p : cr_params) (c r : T) : bool :=
    leb OP (ofZ OP (-1)) c && leb OP c (ofZ OP (cp_w p + 1)) &&
    leb OP (ofZ OP (-1)) r && leb OP r (ofZ OP (cp_h p + 1)).

  (* body of the ll2cr_static loop for one projected point: (col, row, counted) *)
  Definition ll2cr_pixel (p : cr_params) (fill : T) (xy : T * T) : T * T * bool :=
    let '(x, y) := xy in
    if leb OP big30 x then (fill, fill, false)
    else
      let c := div OP (sub OP x (cp_ox p)) (cp_cw p) in
      let r := div OP (sub OP y (cp_oy p)) (cp_ch p) in
      (c, r, in_grid_test p c r).

  Definition count_true (l : list bool) : Z := fold_left (fun (n : Z) (b : bool) => if b then n + 1 else n) l 0.

  (* ll2cr_static: (points_in_grid, [(col, row)]) *)
  Definition ll2cr_static (p : cr_params) (fill : T) (pts : list (T * T)) : Z * list (T * T) :=
    let res := map (ll2cr_pixel p fill) pts in
    (count_true (map snd res), map fst res).

  Definition ll2cr (a : area T) (fill : T) (pts : list (T * T)) : Z * list (T * T) :=
    ll2cr_static (ll2cr_params a) fill pts.

  (* dask_ewa._call_ll2cr: `if swath_points_in_grid == 0: return <placeholders>` (the chunk is never resampled) *)
  Definition chunk_dropped (a : area T) (fill : T) (pts : list (T * T)) : bool := fst (ll2cr a fill pts) =? 0.

  (* with the projection as an oracle *)
  Definition ll2cr_lonlat (proj : T * T -> T * T) (a : area T) (fill : T) (lonlats : list (T * T)) :=
    ll2cr a fill (map proj lonlats).
End LL2CR.

(* ------------------------------------------------------------------ fornav: accumulation *)
Definition cell := (Z * Z)%type.                (* (row, col) of the output grid; grid_offset = row * grid_cols + col *)
Definition cell_eqb (a b : cell) : bool := (fst a =? fst b) && (snd a =? snd b).

(* one swath pixel: its value (None = NaN or equal to the input fill) and its footprint = the grid cells it
   touches with their table weights, in the kernel's visiting order (ORACLE table) *)
Record pixel (T : Type) := mk_pixel { px_val : option T; px_fp : list (cell * T) }.
Arguments mk_pixel {T}. Arguments px_val {T}. Arguments px_fp {T}.

Section ACC.
  Context {T : Type} (OP : ops T).
  Let zero := ofZ OP 0.

  (* `(this_val != img_fill) && !(__isnan(this_val))` *)
  Definition classify (fill v : T) : option T := if eqb OP v fill || isnan OP v then None else Some v.

  (* DaskEWAResampler.compute: `if fill_value is None: fill_value = self._get_default_fill(data)` -- the value that marks
     invalid input pixels and is written to empty cells; None (not falsiness) selects the default *)
  Definition effective_fill (fill_value : option T) (dflt : T) : T :=
    match fill_value with None => dflt | Some f => f end.
  (* the grid value of a cell given what write_grid decided *)
  Definition grid_value (fill : T) (o : option T) : T := match o with None => fill | Some v => v end.

  (* ewa.py:_mask_helper: the output cells that are masked again when masked arrays were given *)
  Definition mask_helper (data fill : T) : bool := if isnan OP fill then isnan OP data else eqb OP data fill.

  Definition cstate := (T * T)%type.             (* (grid_weights[cell], grid_accums[cell]) *)
  Definition gridst := cell -> cstate.
  Definition zero_grid : gridst := fun _ => (zero, zero).
  Definition upd (g : gridst) (c : cell) (s : cstate) : gridst := fun c' => if cell_eqb c c' then s else g c'.

  (* average mode:  weight += w; accum += val * w *)
  Definition step_avg (v : T) (s : cstate) (w : T) : cstate := (add OP (fst s) w, add OP (snd s) (mul OP v w)).
  (* maximum weight mode:  if (w > weight) { weight = w; accum = val } *)
  Definition step_max (v : T) (s : cstate) (w : T) : cstate := if ltb OP (fst s) w then (w, v) else s.
  Definition step (mwm : bool) := if mwm then step_max else step_avg.

  Definition acc_pixel (mwm : bool) (g : gridst) (p : pixel T) : gridst :=
    match px_val p with
    | None => g
    | Some v => fold_left (fun g cw => upd g (fst cw) (step mwm v (g (fst cw)) (snd cw))) (px_fp p) g
    end.
  (* pixels in scan order (scan by scan, row by row, column by column) *)
  Definition accumulate (mwm : bool) (pixels : list (pixel T)) (g0 : gridst) : gridst :=
    fold_left (acc_pixel mwm) pixels g0.

  (* the contributions (value, weight) one cell receives, in order *)
  Definition contribs_px (c : cell) (p : pixel T) : list (T * T) :=
    match px_val p with
    | None => []
    | Some v => map (fun cw => (v, snd cw)) (filter (fun cw => cell_eqb (fst cw) c) (px_fp p))
    end.
  Definition contribs (pixels : list (pixel T)) (c : cell) : list (T * T) := flat_map (contribs_px c) pixels.
  Definition fold_cell (mwm : bool) (l : list (T * T)) (s : cstate) : cstate :=
    fold_left (fun s vw => step mwm (fst vw) s (snd vw)) l s.

  (* ---- thresholds.  _fornav.pyx:fornav  `if weight_sum_min == -1.0: weight_sum_min = weight_min`;
          write_grid_image  `if (weight_sum_min <= 0.0) weight_sum_min = EPSILON` (EPSILON = 1e-8 stored in a float) *)
  Definition eps32 : T := lit OP 22517998 (-51).
  Definition sum_min_fornav (wsm wmin : T) : T := if eqb OP wsm (ofZ OP (-1)) then wmin else wsm.
  Definition sum_min_write (s : T) : T := if leb OP s zero then eps32 else s.

  (* write_grid_image for one cell; None = the fill value is written.  [rounding] is get_rounding (0 for float
     grids, 0.5 for integer grids) *)
  Definition write_cell (mwm : bool) (smin rounding : T) (s : cstate) : option T :=
    let '(W, A) := s in
    if ltb OP W smin || isnan OP A then None
    else
      let chanf := if mwm then A
                   else if leb OP zero A then add OP (div OP A W) rounding
                   else sub OP (div OP A W) rounding in
      if isnan OP chanf then None else Some chanf.

  (* write_grid_pixel(npy_int8*, chanf): clamp, then C truncation *)
  Definition write_pixel_i8 (chanf : T) : Z :=
    if ltb OP chanf (ofZ OP (-128)) then -128 else if ltb OP (ofZ OP 127) chanf then 127 else truncZ OP chanf.

  (* one-shot fornav at one cell, with the effective threshold [smin] / with the user parameters *)
  Definition fornav_cell_s (mwm : bool) (smin rounding : T) (pixels : list (pixel T)) (c : cell) : option T :=
    write_cell mwm smin rounding (accumulate mwm pixels zero_grid c).
  Definition fornav_cell (mwm : bool) (wsm wmin rounding : T) (pixels : list (pixel T)) (c : cell) : option T :=
    fornav_cell_s mwm (sum_min_write (sum_min_fornav wsm wmin)) rounding pixels c.

  (* ------------------------------------------------------------------ dask path *)
  (* output chunk = sub-grid [y0, y0+nr) x [x0, x0+nc);  _delayed_fornav: cols - x_slice.start, rows - y_slice.start,
     grid shape = subdef.shape.  H_cov (oracle property): the footprint the kernel produces on the shifted
     sub-grid is the full-grid footprint restricted to the sub-grid and renumbered. *)
  Definition in_sub (y0 x0 nr nc : Z) (c : cell) : bool :=
    (y0 <=? fst c) && (fst c <? y0 + nr) && (x0 <=? snd c) && (snd c <? x0 + nc).
  Definition restrict_shift (y0 x0 nr nc : Z) (fp : list (cell * T)) : list (cell * T) :=
    map (fun cw => ((fst (fst cw) - y0, snd (fst cw) - x0), snd cw))
        (filter (fun cw => in_sub y0 x0 nr nc (fst cw)) fp).
  Definition sub_pixel (y0 x0 nr nc : Z) (p : pixel T) : pixel T :=
    mk_pixel (px_val p) (restrict_shift y0 x0 nr nc (px_fp p)).

  (* one input chunk as seen by one output chunk: [true] = a placeholder is returned instead of arrays
     (ll2cr counted no pixel within one cell of the grid, or the kernel reported no point: RuntimeError / False) *)
  Definition in_chunk := (bool * list (pixel T))%type.
  (* _delayed_fornav, at one cell of the sub-grid *)
  Definition delayed_cell (mwm : bool) (ic : in_chunk) (c : cell) : option cstate :=
    if fst ic then None else Some (accumulate mwm (snd ic) zero_grid c).

  (* _combine_fornav at one cell: placeholders are skipped; sum of weights and of accums, or (first) argmax of
     the weights in maximum weight mode; all placeholders -> placeholder *)
  Definition combine2 (mwm : bool) (a b : cstate) : cstate :=
    if mwm then (if ltb OP (fst a) (fst b) then b else a)
    else (add OP (fst a) (fst b), add OP (snd a) (snd b)).
  Definition combine_opt (mwm : bool) (a b : option cstate) : option cstate :=
    match a, b with
    | None, y => y
    | Some x, None => Some x
    | Some x, Some y => Some (combine2 mwm x y)
    end.
  Definition combine (mwm : bool) (l : list (option cstate)) : option cstate := fold_left (combine_opt mwm) l None.

  (* _average_fornav: one last combine, then write_grid_image_single(weight_sum_min = user value) or all fill *)
  Definition average_cell (mwm : bool) (wsm rounding : T) (l : list (option cstate)) : option T :=
    match combine mwm l with
    | None => None
    | Some s => write_cell mwm (sum_min_write wsm) rounding s
    end.
  Definition average_cell_s (mwm : bool) (smin rounding : T) (l : list (option cstate)) : option T :=
    match combine mwm l with
    | None => None
    | Some s => write_cell mwm smin rounding s
    end.

  (* da.reduction is a tree: groups of chunks are combined first, then the partial results *)
  Definition dask_cell_tree (mwm : bool) (smin rounding : T) (groups : list (list in_chunk)) (c : cell) : option T :=
    average_cell_s mwm smin rounding (map (fun g => combine mwm (map (fun ic => delayed_cell mwm ic c) g)) groups).
  Definition dask_cell (mwm : bool) (smin rounding : T) (chunks : list in_chunk) (c : cell) : option T :=
    average_cell_s mwm smin rounding (map (fun ic => delayed_cell mwm ic c) chunks).

  (* the whole dask result at a cell (r, c) of the full grid that lies in the output chunk (y0, x0, nr, nc):
     every input chunk (flag, pixels with full-grid footprints) is restricted/shifted to the sub-grid *)
  Definition dask_at (mwm : bool) (smin rounding : T) (y0 x0 nr nc : Z) (groups : list (list in_chunk)) (c : cell) : option T :=
    dask_cell_tree mwm smin rounding
      (map (map (fun ic => (fst ic, map (sub_pixel y0 x0 nr nc) (snd ic)))) groups)
      (fst c - y0, snd c - x0).
  (* ------------------------------------------------------------------ the resampler object: cache, persist, histories *)
  (* DaskEWAResampler.precompute fills self.cache once per object (`if self.cache: return None`).  The cache holds the
     ll2cr blocks the fornav tasks are generated from: with persist=False every input chunk (dropped ones as
     placeholders), with persist=True only the chunks whose ll2cr result is not a placeholder
     (_fill_block_cache_with_ll2cr_results).  [dr] = per input chunk, did ll2cr count no pixel near the grid. *)
  Fixpoint select {A} (mask : list bool) (l : list A) : list A :=
    match mask, l with
    | m :: mask', x :: l' => if m then x :: select mask' l' else select mask' l'
    | _, _ => []
    end.
  Definition precompute (dr : list bool) (persist : bool) (cache : option (list bool)) : option (list bool) :=
    match cache with
    | Some m => Some m
    | None => Some (if persist then map negb dr else map (fun _ => true) dr)
    end.
  (* one resample() call = precompute(persist) then compute(data): (persist flag, the input chunks of this data) *)
  Definition resample_call (dr : list bool) (mwm : bool) (smin rounding : T) (c : cell)
             (cache : option (list bool)) (call : bool * list in_chunk) : option (list bool) * option T :=
    let cache' := precompute dr (fst call) cache in
    (cache', match cache' with
             | Some m => dask_cell mwm smin rounding (select m (snd call)) c
             | None => None end).
  Fixpoint run_history (dr : list bool) (mwm : bool) (smin rounding : T) (c : cell)
           (cache : option (list bool)) (calls : list (bool * list in_chunk)) : list (option T) :=
    match calls with
    | [] => []
    | call :: rest =>
        let '(cache', out) := resample_call dr mwm smin rounding c cache call in
        out :: run_history dr mwm smin rounding c cache' rest
    end.
End ACC.

(* DaskEWAResampler._get_rows_per_scan: the keyword wins; only when it is None the lon/lat attrs['rows_per_scan'] are
   consulted; nothing given = ValueError (None here); 0 = the whole swath *)
Definition get_rows_per_scan (kw attr : option Z) (nrows : Z) : option Z :=
  let r := match kw with Some k => Some k | None => attr end in
  match r with
  | None => None
  | Some k => Some (if k =? 0 then nrows else k)
  end.

(* DaskEWAResampler._new_chunks: input chunks are made scan aligned,
   chunk_rows = max(floor(auto_rows / rows_per_scan), 1) * rows_per_scan *)
Definition scan_aligned_rows (auto_rows rps : Z) : Z := Z.max (auto_rows / rps) 1 * rps.

(* `x == y` on Optional values (None equals only None) *)
Definition opt_eqb {A} (eqb : A -> A -> bool) (a b : option A) : bool :=
  match a, b with Some x, Some y => eqb x y | None, None => true | _, _ => false end.

(* key of a fornav task in the dask graph: (task name token, z index, output row block, output column block) *)
Definition tkey := (Z * Z * Z * Z)%type.
Definition tkey_eqb (a b : tkey) : bool :=
  let '(a1, a2, a3, a4) := a in let '(b1, b2, b3, b4) := b in (a1 =? b1) && (a2 =? b2) && (a3 =? b3) && (a4 =? b4).

(* ------------------------------------------------------------------ output chunk layout *)
(* _generate_fornav_dask_tasks: y_start/x_start are running sums of the chunk sizes; blocks in row-major order *)
Fixpoint chunk_spans (start : Z) (sizes : list Z) : list (Z * Z) :=
  match sizes with
  | [] => []
  | n :: r => (start, start + n) :: chunk_spans (start + n) r
  end.
(* (out_row_idx, out_col_idx, y_start, y_end, x_start, x_end) *)
Fixpoint enum_from {A} (i : Z) (l : list A) : list (Z * A) :=
  match l with [] => [] | x :: r => (i, x) :: enum_from (i + 1) r end.
Definition out_blocks (ych xch : list Z) : list (Z * Z * (Z * Z) * (Z * Z)) :=
  flat_map (fun iy => map (fun ix => (fst iy, fst ix, snd iy, snd ix)) (enum_from 0 (chunk_spans 0 xch)))
           (enum_from 0 (chunk_spans 0 ych)).
