(* C05: the dask/xarray nearest-neighbour resamplers (kd_tree.XArrayResamplerNN, future KDTreeNearestXarrayResampler)
   and the numpy pipeline they must agree with.  Definitions only.

   Arrays are C-order lists (2-D: list of rows).  The kd-tree is an oracle: [q i j] is the answer of
   [kdtree.query] for target pixel (i,j) -- an index into the compacted valid source pixels, or [n] for
   "nothing within the radius" -- and does not depend on the batch (block) the pixel is queried in. *)
From Coq Require Import ZArith List Lia Bool.
From PR Require Import Base.ZX Base.ListX Base.Slice Model.Partition.
Import ListNotations.
Open Scope Z_scope.

(* ---------- numpy primitives ---------- *)
(* a[m] for a boolean mask m (same length) *)
Fixpoint compress {A} (m : list bool) (l : list A) : list A :=
  match m, l with
  | b :: m', x :: l' => if b then x :: compress m' l' else compress m' l'
  | _, _ => []
  end.
(* res = full(dflt); res[m] = vals   (boolean-mask assignment, C order) *)
Fixpoint scatter {A} (m : list bool) (vals : list A) (dflt : A) : list A :=
  match m with
  | [] => []
  | true :: m' => match vals with
                  | v :: vs => v :: scatter m' vs dflt
                  | [] => dflt :: scatter m' [] dflt
                  end
  | false :: m' => dflt :: scatter m' vals dflt
  end.
(* flat.reshape(nrows, ncols) *)
Fixpoint unravel {A} (nrows ncols : nat) (l : list A) : list (list A) :=
  match nrows with
  | 0%nat => []
  | S k => firstn ncols l :: unravel k ncols (skipn ncols l)
  end.
Definition count_true (m : list bool) : Z := Z.of_nat (length (filter (fun b => b) m)).
(* np.nonzero(m)[0]: flat positions of the True entries = compacted index -> original index *)
Fixpoint positions_from (off : nat) (m : list bool) : list nat :=
  match m with
  | [] => []
  | b :: m' => if b then off :: positions_from (S off) m' else positions_from (S off) m'
  end.
Definition positions (m : list bool) : list nat := positions_from 0 m.

Definition zrange (start len : Z) : list Z := map (fun k => start + Z.of_nat k) (seq 0 (Z.to_nat len)).
(* the rectangle [r0, r0+nr) x [c0, c0+nc) of an index-defined array *)
Definition tab {A} (f : Z -> Z -> A) (r0 nr c0 nc : Z) : list (list A) :=
  map (fun i => map (f i) (zrange c0 nc)) (zrange r0 nr).

Definition map2 {A B C} (f : A -> B -> C) (a : list A) (b : list B) : list C :=
  map (fun p => f (fst p) (snd p)) (combine a b).

(* ---------- dask blockwise assembly over two chunk lists (rows, cols) ---------- *)
Definition zipapp {A} (a b : list (list A)) : list (list A) := map2 (@app A) a b.
(* np.concatenate(blocks, axis=1) of blocks with nr rows *)
Definition hstack {A} (nr : nat) (bs : list (list (list A))) : list (list A) := fold_right zipapp (repeat [] nr) bs.
(* per-axis block extents: prefix sums of the chunk sizes (Partition.offsets, theorems in C19) *)
Definition axis_slices (c : list Z) : list pslice := map snd (offsets 0 0 c).
Definition assemble {A} (rows cols : list Z) (blk : pslice -> pslice -> list (list A)) : list (list A) :=
  concat (map (fun rs => hstack (Z.to_nat (slen rs)) (map (blk rs) (axis_slices cols))) (axis_slices rows)).
(* the (rs, cs) block of an assembled 2-D array *)
Definition sub2 {A} (a : list (list A)) (rs cs : pslice) : list (list A) := map (take_slice cs) (take_slice rs a).

(* ---------- future/resamplers/nearest.py: query_no_distance (neighbours = 1) on one block ---------- *)
Section QND.
  Variable n : Z.                       (* kdtree.n = number of valid (compacted) source pixels *)
  Variable voi : Z -> Z -> bool.        (* valid_output_index: elementwise lon/lat range test of the target pixel *)
  Variable q : Z -> Z -> Z.             (* oracle: kd-tree answer for target pixel (i,j), in [0,n] *)

  Definition qnd_flat (pix : list (Z * Z)) : list Z :=
    let voir := map (fun p => voi (fst p) (snd p)) pix in           (* voi.ravel() *)
    let tvalid := compress voir pix in                              (* target_lons.ravel()[voir], lats likewise *)
    let index_array := map (fun p => q (fst p) (snd p)) tvalid in   (* kdtree.query(coords, ...) *)
    let good_pixels := map (fun i => i <? n) index_array in         (* index_array < kdtree.n *)
    let mask := scatter voir good_pixels false in                   (* mask = zeros; mask[voi, :] = good_pixels *)
    scatter mask (compress good_pixels index_array) (-1).           (* res_ia[mask] = index_array[good]; res_ia[~mask] = -1 *)

  Definition qnd_block (r0 nr c0 nc : Z) : list (list Z) :=
    unravel (Z.to_nat nr) (Z.to_nat nc) (qnd_flat (concat (tab pair r0 nr c0 nc))).

  (* da.blockwise(query_no_distance, 'jik', tlons, 'ji', tlats, 'ji', valid_oi, 'ji', ...) for target chunks (rows, cols) *)
  Definition index_array_chunked (rows cols : list Z) : list (list Z) :=
    assemble rows cols (fun rs cs => qnd_block (sstart rs) (slen rs) (sstart cs) (slen cs)).

  (* what every chunking must produce *)
  Definition index_pointwise (i j : Z) : Z := if voi i j && (q i j <? n) then q i j else -1.
End QND.

(* ---------- _my_index: compact the sources by valid_input_index, gather, -1 => fill ---------- *)
Section Gather.
  Context {V : Type}.                   (* one cell = the vector over the trailing (non-geo) dims *)
  Variable fill : V.
  (* python a[i] for i in [-len, len); out of range (IndexError in numpy) never happens for i in [-1, n), n >= 1 *)
  Definition pyget (l : list V) (i : Z) : V :=
    if i <? 0 then nth (Z.to_nat (i + Z.of_nat (length l))) l fill else nth (Z.to_nat i) l fill.

  (* one leading-dims plane: data_arr[..., vii, ...][..., index_arr, ...]; res[index_arr == -1] = fill_value *)
  Definition my_index_plane (index_arr : list (list Z)) (vii : list bool) (plane : list V) : list (list V) :=
    let sel := compress vii plane in
    let res := map (map (pyget sel)) index_arr in
    map2 (map2 (fun i v => if i =? -1 then fill else v)) index_arr res.

  Definition gather_chunked (rows cols : list Z) (iablk : pslice -> pslice -> list (list Z)) (vii : list bool)
             (plane : list V) : list (list V) :=
    assemble rows cols (fun rs cs => my_index_plane (iablk rs cs) vii plane).

  Definition cell_pointwise (vii : list bool) (plane : list V) (k : Z) : V :=
    if k =? -1 then fill else pyget (compress vii plane) k.

  (* ---------- the numpy reference: kd_tree.get_sample_from_neighbour_info('nn', ...) with 1 neighbour ---------- *)
  Definition np_sample (vii voi : list bool) (index_array : list Z) (data : list V) : list V :=
    let valid_input_size := count_true vii in
    let valid_output_size := count_true voi in
    if (valid_input_size =? 0) || (valid_output_size =? 0) then map (fun _ => fill) voi      (* _get_empty_sample *)
    else
      let new_data := compress vii data in                                                    (* data[valid_input_index] *)
      let index_mask := map (fun i => i =? valid_input_size) index_array in
      let new_index_array := map2 (fun (m : bool) i => if m then 0 else i) index_mask index_array in
      let result := map (fun i => nth (Z.to_nat i) new_data fill) new_index_array in          (* new_data[new_index_array] *)
      let result := map2 (fun (m : bool) v => if m then fill else v) index_mask result in     (* result[index_mask] = fill *)
      scatter voi result fill.                                                                (* full(fill)[voi] = result *)
End Gather.

(* ---------- geo-dim flattening: data (lead..., geo..., trail...) as a flat C-order buffer ---------- *)
(* data.reshape(flat_src_shape) seen as L planes x Sn source pixels x T trailing values (L, T = products of the
   leading / trailing non-geo sizes; a C-order reshape only regroups the buffer) *)
Definition reshape_src (L Sn T : nat) (data : list Z) : list (list (list Z)) :=
  unravel L Sn (unravel (L * Sn) T data).
(* blockwise(_my_index, dst_adims, ia, (y,x), vii, flat, new_data, src_adims): result nested as [lead][y][x][trail] *)
Definition resample_nested (L Sn T : nat) (fill : Z) (rows cols : list Z) (iablk : pslice -> pslice -> list (list Z))
           (vii : list bool) (data : list Z) : list (list (list (list Z))) :=
  map (gather_chunked (repeat fill T) rows cols iablk vii) (reshape_src L Sn T data).

(* the numpy query: one batch over the valid target pixels (whole target, C order) *)
Definition np_index_array (q : Z -> Z -> Z) (voi : list bool) (pix : list (Z * Z)) : list Z :=
  map (fun p => q (fst p) (snd p)) (compress voi pix).

(* ---------- get_sample_from_neighbour_info: dimension bookkeeping loop ---------- *)
Section Dims.
  Variable y x : Z.                     (* names of the destination geo dims *)
  Definition memb (d : Z) (l : list Z) : bool := existsb (Z.eqb d) l.
  (* for i, dim in enumerate(data.dims): ...  -> (flat_src_shape, dst_dims); -1 marks the flattened geo axis *)
  Fixpoint dims_loop (dims sizes geo : list Z) (geo_handled : bool) : list Z * list Z :=
    match dims, sizes with
    | d :: ds, s :: ss =>
        if memb d geo && negb geo_handled then
          let '(sh, dd) := dims_loop ds ss geo true in ((-1) :: sh, y :: x :: dd)
        else if negb (memb d geo) then
          let '(sh, dd) := dims_loop ds ss geo geo_handled in (s :: sh, d :: dd)
        else dims_loop ds ss geo geo_handled
    | _, _ => ([], [])
    end.
  (* shape of the blockwise result: non-geo dims keep their size, the flattened axis becomes (H, W) *)
  Fixpoint out_shape (flat_src_shape : list Z) (H W : Z) : list Z :=
    match flat_src_shape with
    | [] => []
    | s :: r => if s =? -1 then H :: W :: out_shape r H W else s :: out_shape r H W
    end.
  Record meta := mk_meta { m_dims : list Z; m_shape : list Z; m_dtype : Z; m_attrs : list (Z * Z) }.
  (* DataArray(res, dims=dst_dims, attrs=deepcopy(data.attrs)), dtype=new_data.dtype *)
  Definition result_meta (data : meta) (geo : list Z) (H W : Z) : meta :=
    let '(sh, dd) := dims_loop (m_dims data) (m_shape data) geo false in
    mk_meta dd (out_shape sh H W) (m_dtype data) (m_attrs data).
End Dims.
