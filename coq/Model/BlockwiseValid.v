(* C05: the lon/lat validity test shared by the numpy and the dask/xarray pipelines, and the resampler objects'
   state (neighbour-info cache of the future resampler, overwritten attributes of the legacy one).  Definitions only. *)
From Coq Require Import ZArith List Bool.
From PR Require Import Base.Num Base.ListX Model.Blockwise.
From PR Require Base.Imp.
Import ListNotations.
Open Scope Z_scope.

Section Valid.
  Context {T : Type} (OP : ops T).
  (* ((lons >= -180) & (lons <= 180) & (lats <= 90) & (lats >= -90)) for one pixel; false on NaN *)
  Definition valid_lonlat (lon lat : T) : bool :=
    leb OP (ofZ OP (-180)) lon && leb OP lon (ofZ OP 180) && leb OP lat (ofZ OP 90) && leb OP (ofZ OP (-90)) lat.
End Valid.

(* KDTreeNearestXarrayResampler._internal_cache: a dict from (mask.data.name, neighbors, radius, epsilon) to the
   neighbour info; precompute() fills it when the key is absent, resample() precomputes and then reads it *)
Section Cache.
  Context {Arg Key Info : Type}.
  Variable key : Arg -> Key.                (* internal_cache_key of a call's arguments *)
  Variable key_eqb : Key -> Key -> bool.
  Variable compute : Arg -> Info.           (* _get_neighbor_info(mask, neighbors, radius_of_influence, epsilon) *)
  Definition cache := list (Key * Info).
  Fixpoint lookup (c : cache) (k : Key) : option Info :=
    match c with
    | [] => None
    | (k', v) :: r => if key_eqb k k' then Some v else lookup r k
    end.
  Definition precompute (c : cache) (a : Arg) : cache :=
    match lookup c (key a) with
    | Some _ => c                                  (* in_int_cache *)
    | None => (key a, compute a) :: c
    end.
  Definition resample_info (c : cache) (a : Arg) : cache * option Info :=
    let c' := precompute c a in (c', lookup c' (key a)).
  (* a history of resample() calls on ONE instance: the neighbour info each call uses, and the cache sizes *)
  Fixpoint run (c : cache) (h : list Arg) : list (option Info) :=
    match h with
    | [] => []
    | a :: r => let '(c', res) := resample_info c a in res :: run c' r
    end.
  Fixpoint run_sizes (c : cache) (h : list Arg) : list Z :=
    match h with
    | [] => []
    | a :: r => let c' := precompute c a in Z.of_nat (length c') :: run_sizes c' r
    end.

  (* XArrayResamplerNN: get_neighbour_info(mask) overwrites self.valid_input_index / self.index_array,
     get_sample_from_neighbour_info reads whatever is stored *)
  Inductive lcall := GetInfo (a : Arg) | Sample.
  Fixpoint run_legacy (st : option Info) (h : list lcall) : list (option Info) :=
    match h with
    | [] => []
    | GetInfo a :: r => run_legacy (Some (compute a)) r
    | Sample :: r => st :: run_legacy st r
    end.
End Cache.

(* XArrayResamplerNN._get_valid_dims / KDTreeNearestXarrayResampler._verify_data_geo_dims: which data dims are accepted
   for a geometry with dims [geo] (names as integers); anything else raises ValueError *)
Fixpoint zindex (d : Z) (l : list Z) : nat :=          (* tuple.index *)
  match l with
  | [] => 0%nat
  | x :: r => if Z.eqb x d then 0%nat else S (zindex d r)
  end.
Definition geo_dims_ok (dims geo : list Z) : bool :=
  let data_geo_dims := filter (fun d => memb d geo) dims in             (* tuple(d for d in data.dims if d in src_geo_dims) *)
  list_eqb Z.eqb data_geo_dims geo                                       (* != src_geo_dims -> "do not match" *)
  && list_eqb Z.eqb (firstn (length geo) (skipn (zindex (hd 0 geo) dims) dims)) data_geo_dims.   (* "not consecutive" *)

(* what the dimension checks read of an xarray.DataArray: dim names (as integers) and sizes *)
Record darr := mk_darr { dd_dims : list Z; dd_shape : list Z }.
(* tuple.index(x): position of the first occurrence; ValueError when absent *)
Definition zindex_ok (d : Z) (l : list Z) : bool := memb d l.

(* _verify_data_geo_dims, second half: every geometry dim has the size of the source geometry along it
   (IndexError / ValueError otherwise); first = position of the first geometry dim in the data dims *)
Definition geo_sizes_ok (shape src_shape : list Z) (first ngeo : Z) : bool :=
  forallb (fun k => Imp.idx_ok src_shape k && Imp.idx_ok shape (first + k)
                    && (Imp.idx 0 src_shape k =? Imp.idx 0 shape (first + k)))
          (Imp.zrange ngeo).
