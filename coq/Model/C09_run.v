(* executable wrappers comparing the C09 model (binary64 instance) with observations of the implementation *)
From Coq Require Import ZArith List Bool PrimFloat.
From PR Require Import Base.Num Base.F64 Base.ListX Base.Slice Model.Blockwise Model.Gradient.
Import ListNotations.
Open Scope Z_scope.

(* a C-order array with [w] columns *)
Definition getf (l : list float) (w : Z) (i j : Z) : float := nth (Z.to_nat (i * w + j)) l PrimFloat.nan.
Definition mkF (np : Z) (a : list float * list float * list float * list float * list float * list float) : fields float :=
  let '(sx, sy, xl, xp, yl, yp) := a in
  mk_fields (getf sx np) (getf sy np) (getf xl np) (getf xp np) (getf yl np) (getf yp np).

(* NaN in the output array <-> no value *)
Definition cmp_val (o : option float) (e : float) : bool :=
  match o with None => f_isnan e | Some v => same_bits v e end.
Definition cmp_idx (o : option (float * float)) (e : float * float) : bool :=
  match o with
  | None => f_isnan (fst e) && f_isnan (snd e)
  | Some xy => same_bits (fst xy) (fst e) && same_bits (snd xy) (snd e) && negb (f_isnan (snd e))
  end.

(* one_step_gradient_indices (off = None) / gradient_resampler_indices with block_info (off = Some (y0, x0)) *)
Definition search_case : Type :=
  (Z * Z * Z * Z) * (list float * list float * list float * list float * list float * list float)
  * (list float * list float) * option (Z * Z) * (list float * list float).
Definition run_indices (c : search_case) : list (option (float * float)) :=
  let '(dims, arrs, (dx, dy), off, _) := c in
  let '(nl, np, H, W) := dims in
  let dst := fun i j => (getf dx W i j, getf dy W i j) in
  concat match off with
         | None => search F64 (mkF np arrs) (nl - 1) (np - 1) (idx_kern F64) dst H W
         | Some (oy, ox) => gradient_resampler_indices F64 (mkF np arrs) (mk_slice oy (oy + nl)) (mk_slice ox (ox + np))
                                                       dst (mk_slice 0 H) (mk_slice 0 W)
         end.
Definition chk_indices (c : search_case) : bool :=
  let '(_, _, _, _, (ex, ey)) := c in list_eqb cmp_idx (run_indices c) (combine ex ey).

(* one_step_gradient_search on one band of float64 data: meth 0 = nn, 1 = bilinear *)
Definition kern_case : Type :=
  (Z * Z * Z * Z) * (list float * list float * list float * list float * list float * list float)
  * (list float * list float) * (Z * list float) * list float.
Definition run_kernel (c : kern_case) : list (option float) :=
  let '(dims, arrs, (dx, dy), (meth, data), _) := c in
  let '(nl, np, H, W) := dims in
  let dst := fun i j => (getf dx W i j, getf dy W i j) in
  let D := getf data np in
  concat (search F64 (mkF np arrs) (nl - 1) (np - 1)
                 (if meth =? 0 then nn_kern F64 D (nl - 1) (np - 1) else bil_kern F64 D (nl - 1) (np - 1)) dst H W).
Definition chk_kernel (c : kern_case) : bool :=
  let '(_, _, _, _, e) := c in list_eqb cmp_val (run_kernel c) e.

(* block_nn_interpolator / block_bilinear_interpolator on one band of a float64 source block:
   (n_l, n_p, y_slice.start, x_slice.start, method), data block, indices (x, y) with NaN, expected *)
Definition interp_case : Type := (Z * Z * Z * Z * Z) * list float * (list float * list float) * list float.
Definition run_interp (c : interp_case) : list (option float) :=
  let '((nl, np, oy, ox, meth), data, (ix, iy), _) := c in
  let idx := map (fun xy => if f_isnan (snd xy) then None else Some xy) (combine ix iy) in
  let ys := mk_slice oy (oy + nl) in let xs := mk_slice ox (ox + np) in
  (* the block holds data[oy:oy+nl, ox:ox+np]; [interp_block] shifts a full-source array, so present the block as one *)
  let D := fun l p => getf data np (l - oy) (p - ox) in
  concat (interp_block F64 (if meth =? 0 then block_nn F64 else block_bil F64) D ys xs [idx]).
Definition chk_interp (c : interp_case) : bool :=
  let '(_, _, _, e) := c in list_eqb cmp_val (run_interp c) e.

(* np.gradient: the four gradient arrays of a traced call are np_gradient1 of its coordinate arrays (sources of >= 2x2 pixels) *)
Definition chk_fields (c : search_case) : bool :=
  let '(dims, arrs, _, _, _) := c in
  let '(nl, np, _, _) := dims in
  let '(sx, sy, xl, xp, yl, yp) := arrs in
  let G := fields_of_coords F64 nl np (getf sx np) (getf sy np) in
  let idx := flat_map (fun l => map (fun p => (l, p)) (zrange 0 np)) (zrange 0 nl) in
  forallb (fun lp => let '(l, p) := lp in
             same_bits (f_xl G l p) (getf xl np l p) && same_bits (f_xp G l p) (getf xp np l p) &&
             same_bits (f_yl G l p) (getf yl np l p) && same_bits (f_yp G l p) (getf yp np l p)) idx.
Definition chk_indices_traced (c : search_case) : bool := chk_indices c && chk_fields c.

(* legacy stacking: full-source arrays, one band, the crops (y0, y1, x0, x1) co-located with the target block (rows, cols) *)
Definition stack_case : Type :=
  (Z * Z * Z) * (list float * list float * list float * list float * list float * list float)
  * (list float * list float) * list float * list (Z * Z * Z * Z) * (Z * Z * Z * Z) * list float.
Definition run_stack (c : stack_case) : list (option float) :=
  let '(dims, arrs, (dx, dy), data, crops, blk, _) := c in
  let '(nl, np, W) := dims in
  let '(r0, r1, c0, c1) := blk in
  let dst := fun i j => (getf dx W i j, getf dy W i j) in
  concat (legacy_stack F64 (mkF np arrs) (getf data np) dst (mk_slice r0 r1) (mk_slice c0 c1)
                       (map (fun q => let '(a0, a1, b0, b1) := q in (mk_slice a0 a1, mk_slice b0 b1)) crops)).
Definition chk_stack (c : stack_case) : bool :=
  let '(_, _, _, _, _, _, e) := c in list_eqb cmp_val (run_stack c) e.
