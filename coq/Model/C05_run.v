(* executable wrappers comparing the C05 models with observations of the implementation *)
From Coq Require Import ZArith List Bool.
From PR Require Import Base.ZX Base.ListX Base.Slice Model.Partition Model.Blockwise Model.BlockwiseValid.
Import ListNotations.
Open Scope Z_scope.

Definition zl_eqb (a b : list Z) : bool := list_eqb Z.eqb a b.
(* a flat C-order table of a 2-D array with W columns, as an index function *)
Definition lookup2 {A} (W : Z) (tbl : list A) (dflt : A) (i j : Z) : A := nth (Z.to_nat (i * W + j)) tbl dflt.

(* query_no_distance called once on the whole target (one block):
   (n, H, W, valid_output_index flat, oracle answers flat, observed result flat) *)
Definition chk_qnd (c : Z * Z * Z * list bool * list Z * list Z) : bool :=
  let '(n, H, W, voi, q, exp) := c in
  zl_eqb (concat (qnd_block n (lookup2 W voi false) (lookup2 W q n) 0 H 0 W)) exp.

(* blockwise index array for the implementation's chunk tuples (rows, cols) *)
Definition chk_assemble (c : Z * list Z * list Z * list bool * list Z * list Z) : bool :=
  let '(n, rows, cols, voi, q, exp) := c in
  let W := sumZ cols in
  zl_eqb (concat (index_array_chunked n (lookup2 W voi false) (lookup2 W q n) rows cols)) exp.

(* the gather: (L, S, T, rows, cols, valid_input_index, index array flat, fill, data flat (L,S,T), observed flat (L,H,W,T), _) *)
Definition chk_gather (c : Z * Z * Z * list Z * list Z * list bool * list Z * Z * list Z * list Z * bool) : bool :=
  let '(L, Sn, T, rows, cols, vii, ia, fill, data, exp, _) := c in
  let H := sumZ rows in
  let W := sumZ cols in
  let ia2 := unravel (Z.to_nat H) (Z.to_nat W) ia in
  let out := resample_nested (Z.to_nat L) (Z.to_nat Sn) (Z.to_nat T) fill rows cols (sub2 ia2) vii data in
  zl_eqb (concat (concat (concat out))) exp.

(* numpy pipeline: (targets, K, vii, voi, index_array (compacted over valid targets), fill, data rows (S x K), observed flat) *)
Definition chk_numpy (c : Z * Z * list bool * list bool * list Z * Z * list (list Z) * list Z) : bool :=
  let '(HW, K, vii, voi, ia, fill, data, exp) := c in
  zl_eqb (concat (np_sample (repeat fill (Z.to_nat K)) vii voi ia data)) exp.

(* dimension bookkeeping: (dims, sizes, geo dims, (y, x, H, W), observed (dims, shape)) *)
Definition chk_dims (c : list Z * list Z * list Z * (Z * Z * Z * Z) * (list Z * list Z)) : bool :=
  let '(dims, sizes, geo, (y, x, H, W), (edims, eshape)) := c in
  let m := result_meta y x (mk_meta dims sizes 0 []) geo H W in
  zl_eqb (m_dims m) edims && zl_eqb (m_shape m) eshape.

(* neighbour-info cache of one KDTreeNearestXarrayResampler instance over a history of resample() calls:
   (identity of each call's cache key, observed len(_internal_cache) after each call) *)
Definition chk_cache (c : list Z * list Z) : bool :=
  let '(ids, sizes) := c in zl_eqb (run_sizes (fun m : Z => m) Z.eqb (fun m : Z => m) [] ids) sizes.

(* acceptance of the data dims: (data dims, geometry dims, did the resampler accept them?) *)
Definition chk_dims_ok (c : list Z * list Z * bool) : bool :=
  let '(dims, geo, accepted) := c in Bool.eqb (geo_dims_ok dims geo) accepted.
