(* C09: the definitions regenerated from gradient/__init__.py, executed in binary64 on the same interpolator cases *)
From Coq Require Import ZArith List Bool PrimFloat.
From PR Require Import Base.Num Base.F64 Base.ListX Base.Slice Model.Blockwise Model.Gradient Model.C09_run Gen.GenC09.
Import ListNotations.
Open Scope Z_scope.

Definition run_interp_gen (c : interp_case) : list float :=
  let '((nl, np, oy, ox, meth), data, (ix, iy), _) := c in
  let a := mk_arr2 (nl, np) (getf data np) in
  let bi := (mk_slice oy (oy + nl), mk_slice ox (ox + np)) in
  map (fun xy => if meth =? 0 then gen_block_nn F64 a xy PrimFloat.nan bi else gen_block_bil F64 a xy PrimFloat.nan bi)
      (combine ix iy).
Definition chk_interp_gen (c : interp_case) : bool :=
  let '(_, _, _, e) := c in list_eqb same_bits (run_interp_gen c) e.
Definition chk_interp_both (c : interp_case) : bool := chk_interp c && chk_interp_gen c.
