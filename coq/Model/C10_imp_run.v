(* C10 -- running the regenerated imperative definitions (Gen/GenC10imp.v): sequences of appends, and the executable
   checks that compare them (binary64 instance) with observations of the implementation. *)
From Coq Require Import ZArith List Bool PrimFloat.
From PR Require Import Base.Num Base.F64 Base.ListX Base.Slice Base.Imp Model.Grid Model.SliceArea Model.Stack Model.ImpStack
     Model.C10_run Gen.GenC10 Gen.GenC10imp.
Import ListNotations.
Open Scope Z_scope.

Section Run.
  Context {T : Type} (OP : ops T).
  (* stack = StackedAreaDefinition(); for d in ds: stack.append(d) -- the object after the appends, or the exception *)
  Fixpoint imp_append_all (p : pstack T) (ds : list (garea T)) : cres (pstack T) :=
    match ds with
    | [] => COk p
    | d :: r => match state_of (imp_stack_append OP p d) with
                | COk st => imp_append_all (imp_stack_append_self st) r
                | CRaised => CRaised
                | CFuel => CFuel
                end
    end.
End Run.
Definition pstack_empty {T} : pstack T := mk_pstack None [] None None None.

(* same observation as Model.C10_run.chk_stack, through the regenerated append / height / width / squeeze *)
Definition chk_imp_stack (c : list fobs * option (list fobs * Z * Z)) : bool :=
  let '(members, e) := c in
  match imp_append_all F64 pstack_empty (map mkg members), e with
  | COk p, Some x_ =>
      let '(defs, h, w) := x_ in
      list_eqb obs_eqb (map garea_obs (ps_defs p)) defs &&
      match value_of (imp_stack_height p) with COk v => v =? h | _ => false end &&
      match value_of (imp_stack_width F64 p) with COk v => v =? w | _ => false end &&
      match value_of (imp_stack_squeeze F64 p) with
      | COk (inl _) => (Z.of_nat (length defs) =? 1)
      | COk (inr _) => negb (Z.of_nat (length defs) =? 1)
      | _ => false
      end
  | CRaised, None => true
  | _, _ => false
  end.
