(* executable wrappers comparing the C18 models (binary64 instance) with observations of the implementation *)
From Coq Require Import ZArith List Bool PrimFloat.
From PR Require Import Base.Num Base.F64 Base.ListX Model.Grid Model.CellIndex.
Import ListNotations.
Open Scope Z_scope.

Definition fa := area float.

(* linear code of a cell: 0 = no cell, r * width + c + 1 otherwise (what the index-valued images / filters encode) *)
Definition code_of (a : fa) (o : option (Z * Z)) : Z :=
  match o with Some (r, c) => r * width a + c + 1 | None => 0 end.

(* get_array_indices_from_lonlat / _from_projection_coordinates (array form):
   (area, x, y, (col mask, col data), (row mask, row data)) *)
Definition chk_area (c : fa * float * float * (bool * Z) * (bool * Z)) : bool :=
  let '(a, x, y, (cm, cv), (rm, rv)) := c in
  Bool.eqb (area_col_mask F64 a x) cm && (area_col F64 a x =? cv) &&
  Bool.eqb (area_row_mask F64 a y) rm && (area_row F64 a y =? rv).

(* scalar form: code 0 = ValueError, else r * w + c + 1 *)
Definition chk_area_scalar (c : fa * float * float * Z) : bool :=
  let '(a, x, y, code) := c in code_of a (area_cell F64 a x y) =? code.

(* get_linesample rows/cols (int32) and the value sampled from an index-valued image *)
Definition chk_grid (c : fa * float * float * Z * Z * Z) : bool :=
  let '(a, x, y, r, cc, code) := c in
  (grid_row F64 a y =? r) && (grid_col F64 a x =? cc) && (code_of a (grid_cell F64 a x y) =? code).

(* image only (ImageContainerQuick.resample, masked variant) *)
Definition chk_grid_img (c : fa * float * float * Z) : bool :=
  let '(a, x, y, code) := c in code_of a (grid_cell F64 a x y) =? code.

(* utils.generate_quick_linesample_arrays rows/cols (uint16 or int32) and ImageContainer.get_array_from_linesample *)
Definition chk_quick (c : fa * float * float * Z * Z * Z) : bool :=
  let '(a, x, y, r, cc, code) := c in
  (quick_row F64 a y =? r) && (quick_col F64 a x =? cc) && (code_of a (quick_cell F64 a x y) =? code).

(* GridFilter.get_valid_index decoded through one-hot bit filters *)
Definition chk_gf (c : fa * float * float * Z) : bool :=
  let '(a, x, y, code) := c in code_of a (gf_cell F64 a x y) =? code.

(* BucketResampler.x_idxs / y_idxs *)
Definition chk_bucket (c : fa * float * float * Z * Z) : bool :=
  let '(a, x, y, xi, yi) := c in
  let '(mx, my) := bk_xy F64 a x y in (mx =? xi) && (my =? yi).

(* ll2cr cols / rows, bit for bit (fill = NaN) *)
Definition chk_ll (c : fa * float * float * float * float) : bool :=
  let '(a, x, y, col, row) := c in
  let '(mc, mr, _) := ll2cr_point F64 a PrimFloat.nan x y in same_bits mc col && same_bits mr row.

(* ll2cr swath_points_in_grid over one call *)
Definition chk_ll_count (c : fa * list (float * float) * Z) : bool :=
  let '(a, pts, n) := c in
  Z.of_nat (length (filter (fun p => let '(_, _, b) := ll2cr_point F64 a PrimFloat.nan (fst p) (snd p) in b) pts)) =? n.

(* the former (truncating) code, replayed in the model: half a pixel left of / above a 8x4 unit grid *)
Definition unit_area : fa := mk_area 0%float 0%float 8%float 4%float 8 4.
