(* C01 -- the part of an AreaDefinition object that its stateful methods read and write, for the imperative front end
   (tools/py2coq_imp.py, coq/Gen/GenC01imp.v): the memoised lon/lat arrays and the attributes that never change. *)
From Coq Require Import ZArith List.
Record areaobj (G : Type) := mk_areaobj {
  ao_lons : option G; ao_lats : option G;        (* self.lons / self.lats: None or the cached arrays *)
  ao_nprocs : Z; ao_dtype : unit; ao_crs : unit  (* read only; dtype and crs are opaque here *)
}.
Arguments mk_areaobj {G}. Arguments ao_lons {G}. Arguments ao_lats {G}. Arguments ao_nprocs {G}. Arguments ao_dtype {G}. Arguments ao_crs {G}.
