(* C17: the attributes of a SphPolygon object, for the translated invert() / inverse() (Gen/GenC17imp.v).
   numpy arrays are lists of rows; V = a (lon, lat) row, C = a cartesian row, F = a scalar.  Definitions only. *)
From Coq Require Import List.
Import ListNotations.

Section Obj.
  Context {V C F : Type}.
  Record poly := mk_poly {
    pv : list V;            (* self.vertices *)
    pcv : list C;           (* self.cvertices *)
    plon : list F; plat : list F;
    px : list F; py : list F; pz : list F;
    pradius : F
  }.
  Variables (col0 col1 : V -> F) (c0 c1 c2 : C -> F).
  (* what invert() makes of the object: both arrays reversed, the five column attributes re-read from them *)
  Definition invert_obj (p : poly) : poly :=
    let v := rev (pv p) in let cv := rev (pcv p) in
    mk_poly v cv (map col0 v) (map col1 v) (map c0 cv) (map c1 cv) (map c2 cv) (pradius p).
End Obj.
Arguments poly : clear implicits.
