(* C18, wave 3: the world of grid.get_resampled_image (the engine of ImageContainerQuick.resample) for the imperative
   translator (Gen/GenC18imp.v).  Definitions only.

   Abstract: [Px] a pixel value of the result; [height] = target_area_def.height; [row_image i] = the result row that
   get_image_from_lonlats produces from the lon/lats of target row i (PROJ inverse of the target + the per-point sampling
   of Model/CellSample.v [grid_image]; it does not depend on which other rows are processed with it, numpy being
   element-wise).  A pair of lon/lat arrays obtained with data_slice = (slice(a, b), slice(None)) is represented by the row
   range [a, b) it holds. *)
From Coq Require Import ZArith List Bool.
From PR Require Import Base.Slice Base.Imp Model.Partition.
Import ListNotations.
Open Scope Z_scope.

(* a, a+1, .., a+n-1 *)
Fixpoint zrows_from (a : Z) (n : nat) : list Z := match n with O => [] | S k => a :: zrows_from (a + 1) k end.

Section QuickWorld.
  Context {Px : Type}.
  Variable height : Z.
  Variable row_image : Z -> list Px.
  Definition qimg := list (list Px).
  (* rows [sstart, sstop) of the target, sampled: get_image_from_lonlats applied to get_lonlats(data_slice=s) *)
  Definition w_rows (s : pslice) : list Z := zrows_from (sstart s) (Z.to_nat (sstop s - sstart s)).
  Definition w_sample (s : pslice) : qimg := map row_image (w_rows s).
  Definition w_all : pslice := mk_slice 0 height.
  (* the result accumulated so far: None = the local `result` is still unbound (reading it raises UnboundLocalError) *)
  Definition w_issome (r : option qimg) : bool := match r with Some _ => true | None => false end.
  Definition w_unopt (r : option qimg) : qimg := match r with Some i => i | None => [] end.
  (* the unsegmented answer *)
  Definition w_whole : qimg := w_sample w_all.
End QuickWorld.
