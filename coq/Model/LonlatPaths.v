(* C10 -- the other code paths of get_lonlats: dask (chunked) generation of the projection coordinates,
   the `cache=` / memoised `lons` attribute of AreaDefinition and StackedAreaDefinition as histories of calls,
   and the in-place CoordinateDefinition.append.  Definitions only. *)
From Coq Require Import ZArith Bool List.
From PR Require Import Base.Num Base.Slice Model.Grid Model.Partition Model.SliceArea Model.Stack.
Import ListNotations.
Open Scope Z_scope.

Section Dask.
  Context {T C : Type} (OP : ops T) (f : T -> T -> C).
  (* _generate_1d_proj_vectors((start, end), ...) of one dask block: arange(start, end) * pixel_size + offset *)
  Definition block_vec_x (a : area T) (s : pslice) : list T := map (proj_x OP a) (zrange (sstart s) (Z.to_nat (sstop s - sstart s))).
  Definition block_vec_y (a : area T) (s : pslice) : list T := map (proj_y OP a) (zrange (sstart s) (Z.to_nat (sstop s - sstart s))).
  (* the blocks of one axis for dask chunk sizes [c] (prefix-sum offsets, as in C19's Partition.offsets) *)
  Definition axis_blocks (c : list Z) : list pslice := map snd (offsets 0 0 c).
  (* _proj_coords_dask / _generate_2d_coords + the per-block inverse projection: every block (by, bx) is the meshgrid of
     its two block vectors mapped through f; dask assembles the blocks row-block by row-block *)
  Definition block_grid (a : area T) (sy sx : pslice) : list (list C) := grid_of f (block_vec_x a sx) (block_vec_y a sy).
  (* horizontal assembly of the blocks of one row-block, then vertical assembly *)
  Fixpoint hstack (blocks : list (list (list C))) (nrows : nat) : list (list C) :=
    match blocks with
    | [] => repeat [] nrows
    | b :: r => map (fun p => fst p ++ snd p) (combine b (hstack r nrows))
    end.
  Definition dask_grid (a : area T) (cy cx : list Z) : list (list C) :=
    concat (map (fun sy => hstack (map (block_grid a sy) (axis_blocks cx)) (Z.to_nat (sstop sy - sstart sy))) (axis_blocks cy)).
End Dask.

(* ---- histories of get_lonlats calls on one AreaDefinition: the memoised self.lons / self.lats *)
Definition apply_ds {C} (ds : option (oslice * oslice)) (g : list (list C)) : list (list C) :=
  match ds with Some key => np_slice2 key g | None => g end.

Section Cache.
  Context {T C : Type} (OP : ops T) (inv : T -> T -> C).
  (* one call get_lonlats(data_slice=ds, cache=flag) on an area whose memo is [memo]: new memo and result *)
  Definition area_call (g : garea T) (memo : option (list (list C))) (ds : option (oslice * oslice)) (flag : bool)
    : option (list (list C)) * list (list C) :=
    match memo with
    | Some m => (memo, apply_ds ds m)
    | None => let res := area_lonlats OP inv g ds in
              ((if flag then match ds with None => Some res | Some _ => None end else None), res)
    end.
  (* a history of calls: the list of results *)
  Fixpoint area_history (g : garea T) (memo : option (list (list C))) (ops_ : list (option (oslice * oslice) * bool))
    : list (list (list C)) :=
    match ops_ with
    | [] => []
    | (ds, flag) :: r => let '(memo', res) := area_call g memo ds flag in res :: area_history g memo' r
    end.

  (* StackedAreaDefinition.get_lonlats(data_slice, cache): every member is called with an explicit
     (local_row_slice, col_slice) and the same cache flag; the stack keeps the result in self.lons / self.lats *)
  Fixpoint stack_call_rows (rs : pslice) (cs : oslice) (offset : Z) (flag : bool)
           (memos : list (option (list (list C)))) (defs : list (garea T))
    : list (option (list (list C))) * list (list C) :=
    match memos, defs with
    | m :: mr, d :: dr =>
        let '(m', rows) := area_call d m (Some (local_row_slice rs offset (gheight d), cs)) flag in
        let '(mr', rest) := stack_call_rows rs cs (offset + gheight d) flag mr dr in
        (m' :: mr', rows ++ rest)
    | _, _ => (memos, [])
    end.
  Definition stack_slices (data_slice : option (pslice * oslice)) (defs : list (garea T)) : pslice * oslice :=
    match data_slice with
    | Some p => p
    | None => (mk_slice 0 (fold_right (fun d acc => gheight d + acc) 0 defs),
               mk_oslice (Some 0) (Some (match defs with d :: _ => gwidth d | [] => 0 end)))
    end.

  (* the state of a stack: the memos of its members and its own lons/lats attribute (the last result) *)
  Record sstate := mk_sstate { st_memos : list (option (list (list C))); st_last : option (list (list C)) }.
  Inductive sop :=
  | StackCall (data_slice : option (pslice * oslice)) (flag : bool)        (* stack.get_lonlats(...) *)
  | MemberCall (i : nat) (ds : option (oslice * oslice)) (flag : bool).    (* stack.defs[i].get_lonlats(...) *)
  Fixpoint update {A} (l : list A) (i : nat) (x : A) : list A :=
    match l, i with
    | [], _ => []
    | _ :: r, O => x :: r
    | y :: r, S k => y :: update r k x
    end.
  Definition sstep (defs : list (garea T)) (st : sstate) (o : sop) : sstate * list (list C) :=
    match o with
    | StackCall ds flag =>
        let '(rs, cs) := stack_slices ds defs in
        let '(memos', rows) := stack_call_rows rs cs 0 flag (st_memos st) defs in
        (mk_sstate memos' (Some rows), rows)
    | MemberCall i ds flag =>
        match nth_error defs i, nth_error (st_memos st) i with
        | Some d, Some m => let '(m', res) := area_call d m ds flag in
                            (mk_sstate (update (st_memos st) i m') (st_last st), res)
        | _, _ => (st, [])
        end
    end.
  Fixpoint shistory (defs : list (garea T)) (st : sstate) (os : list sop) : list (list (list C)) * sstate :=
    match os with
    | [] => ([], st)
    | o :: r => let '(st', res) := sstep defs st o in let '(rr, stf) := shistory defs st' r in (res :: rr, stf)
    end.
  (* what each operation must return, independent of the history *)
  Definition sop_spec (defs : list (garea T)) (o : sop) : list (list C) :=
    match o with
    | StackCall ds flag => stacked_lonlats OP inv ds defs
    | MemberCall i ds flag => match nth_error defs i with Some d => apply_ds ds (area_lonlats OP inv d None) | None => [] end
    end.
End Cache.
Arguments mk_sstate {C}. Arguments st_memos {C}. Arguments st_last {C}.

(* ---- CoordinateDefinition.append: in place, a history of appends *)
Definition swath_append_all {A} (s : swath A) (ts : list (swath A)) : swath A := fold_left swath_concat ts s.
