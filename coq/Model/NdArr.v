(* A small concrete model of the numpy arrays handled by kd_tree.get_sample_from_neighbour_info and its helpers:
   shape, C-ordered flat data, optional mask (MaskedArray), dtype tag.  Each definition is the reading of ONE numpy
   expression (named in its comment) used as a spec pattern by tools/gen_specs/GenC02imp.json; the control skeleton
   around them is translated from the source.  Definitions only. *)
From Coq Require Import ZArith Bool List Lia.
From PR Require Import Base.ListX Base.Imp Model.KDTree.
Import ListNotations.
Open Scope Z_scope.

Record nda (V : Type) := mk_nda { a_shape : list Z; a_data : list V; a_mask : option (list bool); a_dtype : Z }.
Arguments mk_nda {V}. Arguments a_shape {V}. Arguments a_data {V}. Arguments a_mask {V}. Arguments a_dtype {V}.

(* the rows (first-axis items) of flat data with rows of width w; n rows *)
Definition rows_of {A} (n w : nat) (l : list A) : list (list A) :=
  map (fun i => firstn w (skipn (i * w) l)) (seq 0 n).

Definition nd_ndim {V} (a : nda V) : Z := zlen (a_shape a).                                  (* a.ndim *)
Definition nd_dim {V} (a : nda V) (i : Z) : Z := idx 0 (a_shape a) i.                         (* a.shape[i] *)
Definition nd_dim_ok {V} (a : nda V) (i : Z) : bool := idx_ok (a_shape a) i.

Section Nd.
  Context {V : Type}.
  Variable veqb : V -> V -> bool.
  Variables vzero vone : V.
  Notation arr := (nda V).

  Definition nd_len (a : arr) : nat := Z.to_nat (nd_dim a 0).                             (* rows on the first axis *)
  Definition nd_width (a : arr) : nat := Z.to_nat (prodZ (tl (a_shape a))).               (* elements per first-axis row *)
  Definition nd_rows (a : arr) : list (list V) := rows_of (nd_len a) (nd_width a) (a_data a).
  Definition nd_mrows (a : arr) : option (list (list bool)) :=
    match a_mask a with Some m => Some (rows_of (nd_len a) (nd_width a) m) | None => None end.
  Definition of_rows (shape : list Z) (dt : Z) (rows : list (list V)) (mrows : option (list (list bool))) : arr :=
    mk_nda shape (concat rows) (match mrows with Some mm => Some (concat mm) | None => None end) dt.

  (* a.reshape(s) / a.ravel(): C order, same buffer order; ValueError unless the sizes agree *)
  Definition nd_reshape_ok (a : arr) (s : list Z) : bool := (prodZ s =? prodZ (a_shape a)) && forallb (fun d => 0 <=? d) s.
  Definition nd_reshape (a : arr) (s : list Z) : arr := mk_nda s (a_data a) (a_mask a) (a_dtype a).
  Definition nd_ravel (a : arr) : arr := nd_reshape a [prodZ (a_shape a)].

  (* a[m] with a boolean mask over the first axis (IndexError unless the lengths agree) *)
  Definition nd_boolsel_ok (a : arr) (m : list bool) : bool := (1 <=? nd_ndim a) && (zlen m =? nd_dim a 0).
  Definition nd_boolsel (a : arr) (m : list bool) : arr :=
    of_rows (Z.of_nat (count_true m) :: tl (a_shape a)) (a_dtype a) (select m (nd_rows a))
            (match nd_mrows a with Some mm => Some (select m mm) | None => None end).

  (* np.ma.is_masked(a) *)
  Definition nd_is_masked (a : arr) : bool := match a_mask a with Some m => existsb (fun x => x) m | None => false end.

  (* np.column_stack((a.data, a.mask)) for a 1-D or 2-D masked array: the mask as extra 0/1 channels *)
  Definition nd_stack_mask (a : arr) : arr :=
    let w := if nd_ndim a =? 1 then 1 else nd_dim a 1 in
    let mr := match nd_mrows a with Some mm => mm | None => map (fun r => map (fun _ => false) r) (nd_rows a) end in
    of_rows [nd_dim a 0; 2 * w] (a_dtype a) (map2 (fun r m => r ++ map (b2v vzero vone) m) (nd_rows a) mr) None.

  (* a[il].copy() with a 1-D integer index array over the first axis; IndexError when out of range *)
  Definition nd_take_ok (a : arr) (il : list Z) : bool :=
    (1 <=? nd_ndim a) && forallb (fun i => (- nd_dim a 0 <=? i) && (i <? nd_dim a 0)) il.
  Definition nd_take (a : arr) (il : list Z) : arr :=
    of_rows (zlen il :: tl (a_shape a)) (a_dtype a) (map (fun i => idx [] (nd_rows a) i) il)
            (match nd_mrows a with Some mm => Some (map (fun i => idx [] mm i) il) | None => None end).

  (* a[m] = v (scalar) over the first axis *)
  Definition nd_fill_where (a : arr) (m : list bool) (v : V) : arr :=
    of_rows (a_shape a) (a_dtype a)
            (map2 (fun r (b : bool) => if b then map (fun _ => v) r else r) (nd_rows a) m) (nd_mrows a).
  Definition nd_fill_where_ok (a : arr) (m : list bool) : bool := (1 <=? nd_ndim a) && (zlen m =? nd_dim a 0).

  (* np.full(shape, v, dtype=dt) *)
  Definition nd_full (shape : list Z) (v : V) (dt : Z) : arr :=
    mk_nda shape (repeat v (Z.to_nat (prodZ shape))) None dt.

  (* full[m] = res: the rows of res go, in order, to the rows of full flagged by m; ValueError unless the counts agree *)
  Fixpoint put_rows {A} (m : list bool) (res full : list A) : list A :=
    match m, full with
    | b :: m', f :: full' =>
        if b then match res with x :: res' => x :: put_rows m' res' full' | [] => f :: put_rows m' [] full' end
        else f :: put_rows m' res full'
    | _, _ => full
    end.
  Definition nd_put_where_ok (full : arr) (m : list bool) (res : arr) : bool :=
    (1 <=? nd_ndim full) && (zlen m =? nd_dim full 0) && (Z.of_nat (count_true m) =? nd_dim res 0)
    && list_eqb Z.eqb (tl (a_shape full)) (tl (a_shape res)).
  Definition nd_put_where (full : arr) (m : list bool) (res : arr) : arr :=
    of_rows (a_shape full) (a_dtype full) (put_rows m (nd_rows res) (nd_rows full)) None.

  (* groups of the last axis *)
  Definition nd_last (a : arr) : Z := idx 0 (a_shape a) (-1).                            (* a.shape[-1] *)
  Definition nd_groups {A} (a : arr) (l : list A) : list (list A) :=
    rows_of (Z.to_nat (prodZ (removelast (a_shape a)))) (Z.to_nat (nd_last a)) l.
  (* a[..., :k] and a[..., k:]  (0 <= k <= last axis length) *)
  Definition nd_last_to (a : arr) (k : Z) : arr :=
    mk_nda (removelast (a_shape a) ++ [k]) (concat (map (firstn (Z.to_nat k)) (nd_groups a (a_data a))))
           (match a_mask a with Some m => Some (concat (map (firstn (Z.to_nat k)) (nd_groups a m))) | None => None end) (a_dtype a).
  Definition nd_last_from (a : arr) (k : Z) : arr :=
    mk_nda (removelast (a_shape a) ++ [nd_last a - k]) (concat (map (skipn (Z.to_nat k)) (nd_groups a (a_data a))))
           (match a_mask a with Some m => Some (concat (map (skipn (Z.to_nat k)) (nd_groups a m))) | None => None end) (a_dtype a).
  (* (a != 0): a boolean array, carried as 0/1 values *)
  Definition nd_ne0 (a : arr) : arr :=
    mk_nda (a_shape a) (map (fun v => b2v vzero vone (negb (veqb v vzero))) (a_data a)) None (a_dtype a).
  (* np.ma.array(a, mask=m) with m a boolean array of the same shape (carried as 0/1 values) *)
  Definition nd_with_mask (a m : arr) : arr :=
    mk_nda (a_shape a) (a_data a) (Some (map (fun v => negb (veqb v vzero)) (a_data m))) (a_dtype a).
  (* np.ma.masked_equal(a, v): existing mask | (a == v) *)
  Definition nd_masked_equal (a : arr) (v : V) : arr :=
    let old := match a_mask a with Some m => m | None => map (fun _ => false) (a_data a) end in
    mk_nda (a_shape a) (a_data a) (Some (map2 orb old (map (fun x => veqb x v) (a_data a)))) (a_dtype a).
  (* a.astype(dt): values representable in dt stay as they are *)
  Definition nd_astype (a : arr) (dt : Z) : arr := mk_nda (a_shape a) (a_data a) (a_mask a) dt.
  (* np.ma.array(np.zeros(shape, dt), mask=np.ones(shape, dtype=bool)) *)
  Definition nd_zeros_masked (shape : list Z) (dt : Z) : arr :=
    mk_nda shape (repeat vzero (Z.to_nat (prodZ shape))) (Some (repeat true (Z.to_nat (prodZ shape)))) dt.
  Definition nd0 : arr := mk_nda [] [] None 0.

  (* ---- closed forms of the translated helpers (Proofs/C02_imp.v: the generated code computes exactly these) ---- *)
  (* _remask_data(data): second half of the last axis (!= 0) masks the first half; a last axis of length 1 is dropped *)
  Definition nd_remask (d : arr) : arr :=
    let k := nd_last d / 2 in
    let r := nd_with_mask (nd_last_to d k) (nd_ne0 (nd_last_from d k)) in
    if nd_last r =? 1 then nd_reshape r (removelast (a_shape r)) else r.

  (* _prepare_result *)
  Definition nd_prepare (result : arr) (oshape : list Z) (is_masked use_mf : bool) (fillv : V) (dt : option Z) : option arr :=
    if nd_reshape_ok result oshape then
      let r1 := nd_reshape result oshape in
      if is_masked && negb (nd_dim_ok r1 (-1)) then None else
      let r2 := if is_masked then nd_remask r1 else r1 in
      let r3 := if use_mf then nd_masked_equal r2 fillv else r2 in
      Some (match dt with Some d => nd_astype r3 d | None => r3 end)
    else None.

  (* _get_empty_sample *)
  Definition nd_empty (data : arr) (oshape : list Z) (multi : bool) (fill : option V) : option arr :=
    if multi && negb (nd_dim_ok data 1) then None else
    let sh := if multi then oshape ++ [nd_dim data 1] else oshape in
    Some (match fill with None => nd_zeros_masked sh (a_dtype data) | Some f => nd_full sh f (a_dtype data) end).

  Variable sentinel_of : Z -> V.

  (* _extract_resample_result, resample_type 'nn' *)
  Definition nd_extract (new_data : arr) (index_array : nda Z) (n : Z) (voi : list bool) (fill : option V)
             (oshape : list Z) (is_masked : bool) (dt : option Z) : option arr :=
    let use_mf := match fill with None => true | Some _ => false end in
    let fillv := match fill with Some f => f | None => sentinel_of (a_dtype new_data) end in
    let index_mask := map (fun i => i =? n) (a_data index_array) in
    let new_index := map2 (fun (b : bool) i => if b then 0 else i) index_mask (a_data index_array) in
    if negb (nd_take_ok new_data new_index) then None else
    let res := nd_take new_data new_index in
    if negb (nd_fill_where_ok res index_mask) then None else
    let res := nd_fill_where res index_mask fillv in
    if negb (1 <=? zlen oshape) then None else
    let osize := if 1 <? zlen oshape then idx 0 oshape 0 * idx 0 oshape 1 else idx 0 oshape 0 in
    let raw := if 1 <? nd_ndim new_data then [osize; nd_dim new_data 1] else [osize] in
    let full := nd_full raw fillv (a_dtype res) in
    if negb (nd_put_where_ok full voi res) then None else
    let full := nd_put_where full voi res in
    let final := if 1 <? nd_ndim new_data then oshape ++ [nd_dim new_data 1] else oshape in
    nd_prepare full final is_masked use_mf fillv dt.

  (* get_sample_from_neighbour_info('nn', ...): None = the call raises *)
  Definition nd_normalise (data : arr) (vii : list bool) : option arr :=
    if implb (nd_ndim data >? 2) (nd_dim_ok data 0) && implb (nd_ndim data >? 2) (nd_dim_ok data 1) then
      if (nd_ndim data >? 2) && (nd_dim data 0 * nd_dim data 1 =? zlen vii) then
        (if nd_dim_ok data 2 && nd_reshape_ok data [nd_dim data 0 * nd_dim data 1; nd_dim data 2]
         then Some (nd_reshape data [nd_dim data 0 * nd_dim data 1; nd_dim data 2]) else None)
      else if nd_dim_ok data 0 then
        (if negb (nd_dim data 0 =? zlen vii) then Some (nd_ravel data) else Some data)
      else None
    else None.
  Definition nd_sample_of (oshape : list Z) (data : arr) (vii voi : list bool) (index_array : nda Z) (fill : option V) : option arr :=
    if nd_dim_ok data 0 then
      if negb (zlen vii =? nd_dim data 0) then None else
      if (Z.of_nat (count_true vii) =? 0) || (Z.of_nat (count_true voi) =? 0)
      then nd_empty data oshape (nd_ndim data >? 1) fill
      else if nd_ndim index_array =? 1 then
        if nd_boolsel_ok data vii then
          let nd := nd_boolsel data vii in
          if nd_is_masked nd
          then nd_extract (nd_stack_mask nd) index_array (Z.of_nat (count_true vii)) voi fill oshape true (Some (a_dtype nd))
          else nd_extract nd index_array (Z.of_nat (count_true vii)) voi fill oshape false (Some (a_dtype nd))
        else None
      else None
    else None.
  Definition nd_get_sample (oshape : list Z) (data : arr) (vii voi : list bool) (index_array : nda Z) (fill : option V) : option arr :=
    match nd_normalise data vii with
    | None => None
    | Some data => nd_sample_of oshape data vii voi index_array fill
    end.
End Nd.
Definition nd0Z : nda Z := mk_nda [] [] None 0.
