(* executable wrappers: replay a recorded execution of the real Scheduler.__iter__ in the model *)
From Coq Require Import ZArith List Bool Arith.
From PR Require Import Base.ListX Model.Sched.
Import ListNotations.
Open Scope Z_scope.

(* the shared-memory action worker w performs when it is given a turn in state s: (code, value)
   0 finished (no action)   1 acquire fails (lock held)   2 acquire succeeds
   3 read ndata -> value    4 read start -> value
   5 write ndata <- value   6 write start <- value   (value as assigned, before the c_int store)
   7 release                9 result rows of the received slice written (value = slice start) *)
Definition event (c : cfg) (s : state) (w : nat) : Z * Z :=
  match pcs s w with
  | PIdle => match lock s with None => (2, 0) | Some _ => (1, 0) end
  | PLocked => (3, ndata s)
  | PReadN _ => (4, start s)
  | PReadS nd st =>
      if nd =? 0 then (7, 0) else if nd <? chunk_of c nd then (5, 0) else (5, nd - chunk_of c nd)
  | PWroteN nd st ch => (6, st + ch)
  | PRelease _ _ => (7, 0)
  | PWork s0 _ => (9, s0)
  | PDone => (0, 0)
  end.

Fixpoint run_events (c : cfg) (s : state) (sched : list Z) : state * list (Z * Z) :=
  match sched with
  | [] => (s, [])
  | w :: r => let e := event c s (Z.to_nat w) in
              let '(s', es) := run_events c (step c s (Z.to_nat w)) r in (s', e :: es)
  end.

Definition pz_eqb (a b : Z * Z) : bool := (fst a =? fst b) && (snd a =? snd b).
Definition wz_eqb (a : nat * (Z * Z)) (b : Z * (Z * Z)) : bool := (Z.of_nat (fst a) =? fst b) && pz_eqb (snd a) (snd b).
Definition is_done (p : pc) : bool := match p with PDone => true | _ => false end.
Definition all_doneb (nw : Z) (s : state) : bool := forallb (fun w => is_done (pcs s w)) (seq 0 (Z.to_nat nw)).

(* observations of one real execution: configuration, number of workers, self._chunk, and after the run:
   yields (worker, slice) in emission order, completed result writes in order, final counters *)
Definition obs := (cfg * Z * Z * list (Z * (Z * Z)) * list (Z * Z) * (Z * Z))%type.

Definition final_ok (o : obs) (s : state) : bool :=
  let '(c, nw, chunk0, yields, works, fin) := o in
  (init_chunk c =? chunk0) && list_eqb wz_eqb (out s) yields && list_eqb pz_eqb (wdone s) works
  && pz_eqb (ndata s, start s) fin && all_doneb nw s.

(* one recorded execution: observations + one (worker, action code, value) per turn of the executed schedule *)
Definition tcase := (obs * list (Z * Z * Z))%type.
Definition turn_worker (t : Z * Z * Z) : Z := fst (fst t).
Definition turn_event (t : Z * Z * Z) : Z * Z := (snd (fst t), snd t).

(* strict: one turn of the schedule = one atomic action; the action stream must agree too *)
Definition chk_strict (t : tcase) : bool :=
  let '(o, turns) := t in
  let '(c, _, _, _, _, _) := o in
  let '(s, es) := run_events c (init c) (map turn_worker turns) in
  list_eqb pz_eqb es (map turn_event turns) && final_ok o s.

(* lock level: the real execution reduced to the order in which critical sections (release actions, code 7)
   and result writes (code 9) completed; (w, 0) = worker w ran one critical section, (w, 1) = worker w wrote
   its pending slice *)
Fixpoint cs_steps (fuel : nat) (c : cfg) (s : state) (w : nat) : state :=
  match fuel with
  | O => s
  | S f => let s' := step c s w in
           match pcs s' w with PWork _ _ | PDone => s' | _ => cs_steps f c s' w end
  end.
Definition macro_step (c : cfg) (s : state) (m : Z * Z) : state :=
  let w := Z.to_nat (fst m) in
  if snd m =? 0 then match pcs s w with PIdle => cs_steps 6 c s w | _ => s end
  else match pcs s w with PWork _ _ => step c s w | _ => s end.
Fixpoint macro_of (turns : list (Z * Z * Z)) : list (Z * Z) :=
  match turns with
  | [] => []
  | (w, code, _) :: r =>
      if code =? 7 then (w, 0) :: macro_of r else if code =? 9 then (w, 1) :: macro_of r else macro_of r
  end.

Definition chk_macro (t : tcase) : bool :=
  let '(o, turns) := t in
  let '(c, _, _, _, _, _) := o in
  final_ok o (fold_left (macro_step c) (macro_of turns) (init c)).
