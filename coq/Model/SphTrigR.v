(* C17: the arctan2 expression of SphPolygon.area as a definition, and a real-number arctan2.  Definitions only. *)
From Coq Require Import Reals.
From PR Require Import Base.Num Base.RNum.
Open Scope R_scope.

Section AzFormula.
  Context {T : Type} (OP : ops T).
  Variables (sin cos : T -> T) (arctan2 : T -> T -> T).
  (* np.arctan2(sin(lam_x - lam_p) cos(phi_x), sin(phi_x) cos(phi_p) - cos(phi_x) sin(phi_p) cos(lam_x - lam_p)) *)
  Definition az_formula (lon_x lat_x lon_p lat_p : T) : T :=
    arctan2 (mul OP (sin (sub OP lon_x lon_p)) (cos lat_x))
            (sub OP (mul OP (sin lat_x) (cos lat_p))
                    (mul OP (mul OP (cos lat_x) (sin lat_p)) (cos (sub OP lon_x lon_p)))).
  (* a vertex is (lon, lat) *)
  Definition az_lonlat (x p : T * T) : T := az_formula (fst x) (snd x) (fst p) (snd p).
End AzFormula.

(* arctan2(y, x) over the reals, from Coq's atan *)
Definition atan2R (y x : R) : R :=
  if Rlt_dec 0 x then atan (y / x)
  else if Rlt_dec x 0 then (if Rle_dec 0 y then atan (y / x) + PI else atan (y / x) - PI)
  else if Rlt_dec 0 y then PI / 2
  else if Rlt_dec y 0 then - PI / 2
  else 0.

(* the azimuth oracle instantiated with real trigonometry *)
Definition az_real : R * R -> R * R -> R := az_lonlat RO sin cos atan2R.
