(* executable wrappers comparing the C19 models with observations of the implementation *)
From Coq Require Import ZArith List Bool.
From PR Require Import Base.ZX Base.ListX Base.Slice Model.Partition Model.Unions.
Import ListNotations.
Open Scope Z_scope.

Definition pz_eqb (a b : Z * Z) : bool := (fst a =? fst b) && (snd a =? snd b).
Definition sl2p (s : pslice) : Z * Z := (sstart s, sstop s).

Definition chk_get_slice (c : Z * Z * list (Z * Z)) : bool :=
  let '(seg, size, exp) := c in list_eqb pz_eqb (map sl2p (get_slice seg size)) exp.

Definition blk2z (b : list (nat * pslice)) : list (Z * (Z * Z)) := map (fun e => (Z.of_nat (fst e), sl2p (snd e))) b.
Definition pzz_eqb (a b : Z * (Z * Z)) : bool := (fst a =? fst b) && pz_eqb (snd a) (snd b).
Definition chk_chunks (c : list (list Z) * list (list (Z * (Z * Z)))) : bool :=
  let '(chunks, exp) := c in list_eqb (list_eqb pzz_eqb) (map blk2z (enumerate_chunk_slices chunks)) exp.

Definition oz_eqb (a : option Z) (b : Z) : bool := match a with Some x => x =? b | None => false end.
(* a history: appends interleaved with to_array() observations; reads = [(k, observed array after the first k appends)] *)
Definition chk_raa (c : Z * list (list Z) * list (Z * list Z)) : bool :=
  let '(cap, appends, reads) := c in
  forallb (fun rd => list_eqb oz_eqb
                       (raa_to_array (fold_left raa_append (firstn (Z.to_nat (fst rd)) appends) (raa_init cap)))
                       (snd rd)) reads.

(* unions over finite sets of integers, as in the base class *)
Definition zset := list Z.
Definition set_overlaps (a b : zset) : bool := existsb (fun x => existsb (Z.eqb x) b) a.
Definition set_union (a b : zset) : zset := a ++ filter (fun x => negb (existsb (Z.eqb x) a)) b.
Definition subset (a b : zset) : bool := forallb (fun x => existsb (Z.eqb x) b) a.
Definition set_eqb (a b : zset) : bool := subset a b && subset b a.
Definition chk_unions (c : list zset * list (list Z * zset)) : bool :=
  let '(gs, exp) := c in
  list_eqb (fun m e => list_eqb Z.eqb (map Z.of_nat (fst m)) (fst e) && set_eqb (snd m) (snd e))
           (merge set_overlaps set_union gs) exp.
