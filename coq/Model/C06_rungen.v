(* the same kernel checks run on the definitions REGENERATED from /repo (Gen/GenC06.v) *)
From Coq Require Import ZArith List Bool PrimFloat.
From PR Require Import Base.Num Base.F64 Base.ListX Model.Bilinear Model.C06_run Gen.GenC06.
Import ListNotations.
Open Scope Z_scope.

Definition gen_kernel_outputs (i : list float) : list float :=
  match i with
  | [x1; y1; x2; y2; x3; y3; x4; y4; ox; oy] =>
      let p1 := (x1, y1) in let p2 := (x2, y2) in let p3 := (x3, y3) in let p4 := (x4, y4) in
      let '(a, b, c) := gen_calc_abc F64 (p1, p2, p3, p4) oy ox in
      let '(a2, b2, c2) := gen_calc_abc F64 (p1, p3, p2, p4) oy ox in
      let q := gen_solve_quadratic F64 a b c (f0 F64) (f1 F64) in
      let q2 := gen_solve_quadratic F64 a2 b2 c2 (f0 F64) (f1 F64) in
      let s1 := gen_solve_other F64 q (y1, y3, y2, y4) oy in
      let t2 := gen_solve_other F64 q2 (y1, y2, y3, y4) oy in
      let '(tp, sp) := gen_frac_parallelogram F64 (p1, p2, p3) oy ox in
      [a; b; c; a2; b2; c2; q; q2; q; s1; t2; q2; tp; sp]
  | _ => []
  end.
Definition chk_gen_kernels (c : list float * list float) : bool :=
  fl_eqb (gen_kernel_outputs (fst c)) (firstn 14 (snd c)).
Definition chk_gen_resample (c : list float * float) : bool :=
  match fst c with
  | [p1; p2; p3; p4; s; t] => same_bits (gen_resample F64 (p1, p2, p3, p4) (s, t)) (snd c)
  | _ => false
  end.
