(* C11 — cropping a source to a target never discards a pixel the target needs.
   Only statements here; proofs live in Proofs/C11_*.v.  shapely (polygon validity, buffer, bbox,
   intersection with the geos disk) and PROJ are oracles: the theorems take the bbox of the buffered
   polygon and the two shapely bits as inputs; H_poly (the bbox contains the source-CRS image of every
   target pixel centre) is a named hypothesis attacked by the search only. *)
From Coq Require Import Reals ZArith List Bool PrimFloat.
From Flocq Require Import Raux Generic_fmt Round_NE.
From PR Require Import Base.Num Base.RNum Base.F64 Base.ZX Base.Slice Model.Grid Model.CropBase Model.Partition Model.Crop
     Gen.GenSubset Gen.GenC11 Proofs.Grid_real Proofs.C11_crop Proofs.C11_same_crs Proofs.C11_swath
     Proofs.C11_gen Proofs.C11_history Proofs.C11_gas Proofs.C19_divisible.
From PR Require Import Base.Imp Model.CropImp Gen.GenC11imp Proofs.C11_imp.
Import ListNotations.
Open Scope R_scope.

(* bounds -> array coordinates -> "all outside" tests -> floor/ceil -> expand by one (AreaSlicer):
   IF the bbox contains the source-CRS image (px,py) of a target pixel centre whose fractional source index
   lies on the source grid THEN slices ARE returned and contain every integer between floor and ceil of the
   index clipped to the grid (the containing pixel under both rounding conventions, the nearest pixel, the
   lower bilinear neighbour) and floor+1 when the point is strictly inside the bbox *)
Theorem C11_bounds_to_slices_sound : forall a minx miny maxx maxy px py,
  wf_area a -> minx <= px <= maxx -> miny <= py <= maxy ->
  0 <= arr_of_proj_x RO a px < IZR (width a) -> 0 <= arr_of_proj_y RO a py < IZR (height a) ->
  exists sx sy, crop_slices RO true true a (minx, miny, maxx, maxy) = Slices sx sy /\
  (forall k, (Zfloor (arr_of_proj_x RO a px) <= k <= Zceil (arr_of_proj_x RO a px))%Z -> in_slice sx (clip (width a) k)) /\
  (forall k, (Zfloor (arr_of_proj_y RO a py) <= k <= Zceil (arr_of_proj_y RO a py))%Z -> in_slice sy (clip (height a) k)) /\
  (minx < px < maxx -> in_slice sx (clip (width a) (Zfloor (arr_of_proj_x RO a px) + 1))) /\
  (miny < py < maxy -> in_slice sy (clip (height a) (Zfloor (arr_of_proj_y RO a py) + 1))).
Proof. exact bounds_to_slices_sound. Qed.
Print Assumptions C11_bounds_to_slices_sound.
(* round-half-up and round-half-even (Python round) both lie between floor and ceil *)
Theorem C11_roundings_between : forall c, (Zfloor c <= Zfloor (c + /2) <= Zceil c)%Z /\ (Zfloor c <= ZnearestE c <= Zceil c)%Z.
Proof. exact roundings_between. Qed.
Print Assumptions C11_roundings_between.
Example C11_sound_ex : exists sx sy, crop_slices RO true true unit4 (1, 1, 2, 2) = Slices sx sy /\ sx = mk_slice 0 3 /\ sy = mk_slice 0 4.
Proof. exact sound_example. Qed.

(* the same for a target pixel anywhere in the source EXTENT (index in [-1/2, n-1/2), more generally within one
   pixel of the grid): the pixels are kept whenever slices are returned ... *)
Theorem C11_bounds_to_slices_sound_extent : forall a minx miny maxx maxy px py sx sy,
  wf_area a -> minx <= px <= maxx -> miny <= py <= maxy ->
  -1 < arr_of_proj_x RO a px < IZR (width a) -> -1 < arr_of_proj_y RO a py < IZR (height a) ->
  crop_slices RO true true a (minx, miny, maxx, maxy) = Slices sx sy ->
  (forall k, (Zfloor (arr_of_proj_x RO a px) <= k <= Zceil (arr_of_proj_x RO a px))%Z -> in_slice sx (clip (width a) k)) /\
  (forall k, (Zfloor (arr_of_proj_y RO a py) <= k <= Zceil (arr_of_proj_y RO a py))%Z -> in_slice sy (clip (height a) k)) /\
  (minx < px < maxx -> in_slice sx (clip (width a) (Zfloor (arr_of_proj_x RO a px) + 1))) /\
  (miny < py < maxy -> in_slice sy (clip (height a) (Zfloor (arr_of_proj_y RO a py) + 1))).
Proof. exact sound_if_slices. Qed.
Print Assumptions C11_bounds_to_slices_sound_extent.
(* ... but the "all outside" test compares the corner indices with 0, not -1/2: a bbox lying in the outer half
   of the border pixels is reported as non-overlapping although its points are inside pixel column 0 *)
Theorem C11_nonoverlap_outer_half_pixel_refuted :
  exists a minx miny maxx maxy px py, wf_area a /\ minx <= px <= maxx /\ miny <= py <= maxy /\
    - /2 <= arr_of_proj_x RO a px < IZR (width a) - /2 /\ - /2 <= arr_of_proj_y RO a py < IZR (height a) - /2 /\
    crop_slices RO true true a (minx, miny, maxx, maxy) = NoOverlap 3.
Proof. exact outer_half_pixel_refuted. Qed.
Print Assumptions C11_nonoverlap_outer_half_pixel_refuted.

(* "non-overlapping" (IncompatibleAreas) is raised by the arithmetic exactly when: the validity bit is false
   (stage 1), or the intersection bit is false (stage 2), or along one axis both bbox corner indices lie on the
   same side outside [0, size) (stage 3) — never otherwise *)
Theorem C11_nonoverlap_iff_none : forall valid inter a b k,
  crop_slices RO valid inter a b = NoOverlap k <->
    (valid = false /\ k = 1%Z) \/ (valid = true /\ inter = false /\ k = 2%Z) \/
    (valid = true /\ inter = true /\ k = 3%Z /\
     (outside_axis (width a) (fst (bounds_to_arr RO a b)) \/ outside_axis (height a) (snd (bounds_to_arr RO a b)))).
Proof. exact nonoverlap_iff. Qed.
Print Assumptions C11_nonoverlap_iff_none.
Example C11_nonoverlap_ex : crop_slices RO true true unit4 (/8, 1, /4, 2) = NoOverlap 3.
Proof. exact unit4_outer_half. Qed.

(* the property for a whole target under the named hypothesis H_poly (and shapely's bits true) *)
Theorem C11_crop_never_discards_if : forall a b pts, wf_area a -> H_poly b pts ->
  (Exists (on_grid a) pts -> exists sx sy, crop_slices RO true true a b = Slices sx sy) /\
  (forall sx sy, crop_slices RO true true a b = Slices sx sy ->
     Forall (fun p => near_grid a p -> pixel_kept a sx sy p) pts).
Proof. exact crop_never_discards_if. Qed.
Print Assumptions C11_crop_never_discards_if.
Example C11_H_poly_ex : H_poly (1, 1, 2, 2) [(3 * /2, 3 * /2); (1, 2)] /\ on_grid unit4 (3 * /2, 3 * /2).
Proof. exact H_poly_example. Qed.

(* same CRS (AreaDefinition.get_area_slices; _get_slice_starts_stops regenerated from /repo on every run):
   for either orientation of either area the slices cover the part of the target extent that lies on the grid
   and exceed the exact cover [first_px lo, last_px hi] by at most one pixel per side *)
Theorem C11_same_crs_cover_tight : forall s t, wf_area s ->
  let '(xs, xe, ys, ye) := gen_get_slice_starts_stops RO s t in
  axis_cover_tight (width s) (lo_x s t) (hi_x s t) xs xe /\
  axis_cover_tight (height s) (lo_y s t) (hi_y s t) ys ye.
Proof. exact same_crs_cover_tight. Qed.
Print Assumptions C11_same_crs_cover_tight.
(* lo/hi are the index range of the target extent; first_px / last_px are the pixels containing its edges *)
Theorem C11_same_crs_extent_range : forall s t x y, wf_area s ->
  (Rmin (xmin t) (xmax t) <= x <= Rmax (xmin t) (xmax t) -> lo_x s t <= arr_of_proj_x RO s x <= hi_x s t) /\
  (Rmin (ymin t) (ymax t) <= y <= Rmax (ymin t) (ymax t) -> lo_y s t <= arr_of_proj_y RO s y <= hi_y s t) /\
  (forall lo, IZR (first_px lo) - /2 <= lo < IZR (first_px lo) + /2) /\
  (forall hi, IZR (last_px hi) - /2 < hi <= IZR (last_px hi) + /2).
Proof. intros s t x y. exact (same_crs_extent_range s t x y). Qed.
Print Assumptions C11_same_crs_extent_range.
(* orientation check + integer conversion keep the bounds; a step is set only for a reversed (empty) slice *)
Theorem C11_same_crs_orientation : forall a b, let '(a', b', st) := ensure_integer_Z (check_orientation a b) in
  a' = a /\ b' = b /\ (st = None <-> (a <= b)%Z).
Proof. exact orientation_keeps. Qed.
Print Assumptions C11_same_crs_orientation.
(* the same term on binary64: a 8x8 source of 1024 m pixels, target = source pixels [1,3) x [4,6) exactly: round-half-even adds one pixel on the odd ties only *)
Example C11_same_crs_ex :
  gen_get_slice_starts_stops F64 (mk_area 0 0 8192 8192 8 8)%float (mk_area 1024 2048 3072 4096 2 2)%float = (0, 3, 4, 7)%Z.
Proof. exact same_crs_example. Qed.

(* SwathSlicer: "non-overlapping" iff no chunk polygon is hit; otherwise the slices are the hull of the expanded
   boxes of the hit chunks: they contain every hit box and each bound is attained by one *)
Theorem C11_swath_chunks_union : forall chunks hit,
  (swath_slices chunks hit = None <-> select (chunk_boxes chunks) hit = []) /\
  (forall cs ls, swath_slices chunks hit = Some (cs, ls) ->
    (forall n b, nth_error (chunk_boxes chunks) n = Some b -> nth_error hit n = Some true -> box_contains ls cs b) /\
    (exists n b, nth_error (chunk_boxes chunks) n = Some b /\ nth_error hit n = Some true /\ sstart ls = sstart (fst b)) /\
    (exists n b, nth_error (chunk_boxes chunks) n = Some b /\ nth_error hit n = Some true /\ sstop ls = sstop (fst b)) /\
    (exists n b, nth_error (chunk_boxes chunks) n = Some b /\ nth_error hit n = Some true /\ sstart cs = sstart (snd b)) /\
    (exists n b, nth_error (chunk_boxes chunks) n = Some b /\ nth_error hit n = Some true /\ sstop cs = sstop (snd b))).
Proof. exact swath_chunks_union. Qed.
Print Assumptions C11_swath_chunks_union.
(* for every chunking (zero-size chunks allowed) every swath pixel (i,j) lies in a chunk whose expanded box holds
   it and its neighbours; if that chunk's polygon is hit the slices are returned and hold them too *)
Theorem C11_swath_pixel_covered : forall rc cc i j, Forall (fun x => (0 <= x)%Z) rc -> Forall (fun x => (0 <= x)%Z) cc ->
  (0 <= i < sumZ rc)%Z -> (0 <= j < sumZ cc)%Z ->
  exists n b, nth_error (chunk_boxes [rc; cc]) n = Some b /\
    (sstart (fst b) <= Z.max 0 (i - 1) /\ i + 1 < sstop (fst b) /\ sstart (snd b) <= Z.max 0 (j - 1) /\ j + 1 < sstop (snd b))%Z /\
    forall hit, nth_error hit n = Some true ->
      exists cs ls, swath_slices [rc; cc] hit = Some (cs, ls) /\
        (sstart ls <= Z.max 0 (i - 1) /\ i + 1 < sstop ls /\ sstart cs <= Z.max 0 (j - 1) /\ j + 1 < sstop cs)%Z.
Proof. exact swath_pixel. Qed.
Print Assumptions C11_swath_pixel_covered.
Example C11_swath_ex : swath_slices [[3; 3]; [4; 2]]%Z [false; true; false; true] = Some (mk_slice 3 7, mk_slice 0 7).
Proof. exact swath_ex. Qed.

(* ---- wave 2 ---- *)

(* the model the theorems above are about IS the code: for EVERY arithmetic (reals, binary64) crop_slices equals the
   composition of the definitions regenerated on every run from AreaSlicer._sanitize_polygon_bounds and
   AreaSlicer._create_slices_from_bounds (with the int()-of-infinity test of the except clause in front), so every
   theorem about crop_slices RO is a theorem about the generated code *)
Theorem C11_model_is_generated_code : forall (T : Type) (OP : ops T) valid inter (a : area T) b,
  crop_slices OP valid inter a b = crop_gen OP valid inter a b.
Proof. exact @crop_slices_is_generated. Qed.
Print Assumptions C11_model_is_generated_code.
Theorem C11_generated_kernels_char : forall (T : Type) (OP : ops T) (a : area T) b xb yb,
  gen_create_slices_from_bounds OP (xb, yb) = (gen_expand_slice (raw_slice OP xb), gen_expand_slice (raw_slice OP yb)) /\
  gen_sanitize_polygon_bounds OP a b =
    (if all_outside OP a (fst (bounds_to_arr OP a b)) (snd (bounds_to_arr OP a b)) then None else Some (bounds_to_arr OP a b)).
Proof. intros T OP a b xb yb. split; [apply gen_create_char | apply gen_sanitize_char]. Qed.
Print Assumptions C11_generated_kernels_char.

(* histories of calls: the lru_cache in front of crop_source_area / _get_chunk_bboxes_for_swath_to_crop (maxsize = Some m,
   least recently used entry evicted) and the JSON file cache of get_area_slices (maxsize = None) return, for EVERY history
   of calls and every cache size, exactly what the uncached function returns — provided equal keys denote the same
   geometry (key_sound: AreaDefinition.__eq__/__hash__, property C12) *)
Theorem C11_cache_history_transparent : forall (K V : Type) (keq : K -> K -> bool) (f : K -> V) maxsize,
  key_sound keq f -> forall ks c, cache_ok f c ->
  fst (run keq f maxsize c ks) = map f ks /\ cache_ok f (snd (run keq f maxsize c ks)).
Proof. exact @memo_history. Qed.
Print Assumptions C11_cache_history_transparent.
Example C11_cache_history_ex : fst (run Nat.eqb (fun k => k * k)%nat (Some 2%nat) [] [3; 4; 3; 5; 4; 3]%nat) = [9; 16; 9; 25; 16; 9]%nat
  /\ length (snd (run Nat.eqb (fun k => k * k)%nat (Some 2%nat) [] [3; 4; 3; 5; 4; 3]%nat)) = 2%nat.
Proof. exact memo_ex. Qed.

(* get_area_slices on different CRSs, after the spherical intersection (oracle): slice(min idx, max idx + 1) holds the array
   index of every intersection vertex and is their tight hull; with shape_divisible_by (composition with C19's
   make_divisible_spec) the adjusted slice is a proper slice of the axis, divisible when the axis allows it, and still
   holds every vertex index whenever the rounded-up length fits *)
Theorem C11_gas_vertex_slice_hull : forall x0 xs,
  (forall i, In i (x0 :: xs) -> (sstart (vertex_slice x0 xs) <= i < sstop (vertex_slice x0 xs))%Z) /\
  In (sstart (vertex_slice x0 xs)) (x0 :: xs) /\ In (sstop (vertex_slice x0 xs) - 1)%Z (x0 :: xs).
Proof. exact vertex_slice_hull. Qed.
Print Assumptions C11_gas_vertex_slice_hull.
Theorem C11_gas_divisible_keeps_vertices : forall x0 xs size factor,
  (forall i, In i (x0 :: xs) -> (0 <= i < size)%Z) -> (0 < factor)%Z ->
  let s := vertex_slice x0 xs in
  let r := gen_make_slice_divisible s size factor in
  divisible_good s r size factor /\
  ((cdiv (sstop s - sstart s) factor * factor <= size)%Z -> forall i, In i (x0 :: xs) -> (sstart r <= i < sstop r)%Z).
Proof. exact vertex_slice_divisible. Qed.
Print Assumptions C11_gas_divisible_keeps_vertices.
Example C11_gas_ex : vertex_slice 7 [3; 9; 5]%Z = mk_slice 3 10
  /\ gen_make_slice_divisible (vertex_slice 7 [3; 9; 5]%Z) 12 4 = mk_slice 3 11.
Proof. exact vertex_slice_ex. Qed.

(* ---- round 2 ---- *)
(* the two axes of the different-CRS branch with shape_divisible_by: x is adjusted within the source WIDTH, y within its
   HEIGHT; both results are proper slices of their own axis and keep every intersection-vertex index whenever the length
   rounded up to a multiple of the factor fits on that axis (tied to get_area_slices(..., shape_divisible_by=N) by the
   gas_divisible correspondence: exact integers per axis against the call without the factor) *)
Theorem C11_gas_diff_slices_keep_vertices : forall x0 xs y0 ys width height factor,
  (forall i, In i (x0 :: xs) -> (0 <= i < width)%Z) -> (forall j, In j (y0 :: ys) -> (0 <= j < height)%Z) ->
  match factor with Some f => (0 < f)%Z | None => True end ->
  let '(sx, sy) := gas_diff_slices x0 xs y0 ys width height factor in
  let fits (s : pslice) (size : Z) := match factor with
                                      | Some f => (cdiv (sstop s - sstart s) f * f <= size)%Z | None => True end in
  (0 <= sstart sx < sstop sx)%Z /\ (sstop sx <= width)%Z /\ (0 <= sstart sy < sstop sy)%Z /\ (sstop sy <= height)%Z /\
  (fits (vertex_slice x0 xs) width -> forall i, In i (x0 :: xs) -> (sstart sx <= i < sstop sx)%Z) /\
  (fits (vertex_slice y0 ys) height -> forall j, In j (y0 :: ys) -> (sstart sy <= j < sstop sy)%Z).
Proof. exact gas_diff_slices_keep. Qed.
Print Assumptions C11_gas_diff_slices_keep_vertices.
Example C11_gas_diff_ex : gas_diff_slices 0 [252]%Z 3 [40]%Z 400 100 (Some 2%Z) = (mk_slice 0 254, mk_slice 3 41).
Proof. exact gas_diff_ex. Qed.

(* ---- wave 3: the loops of the SwathSlicer, regenerated from /repo by tools/py2coq_imp.py (Gen/GenC11imp.v) ---- *)

(* SwathSlicer._assemble_slices: the code returns the model's hull (col_slice, line_slice) and raises exactly on an empty list *)
Theorem C11_assemble_slices_code_is_model : forall boxes,
  value_of (imp_assemble_slices boxes) = match assemble boxes with Some r => COk r | None => CRaised end.
Proof. exact imp_assemble_slices_value. Qed.
Print Assumptions C11_assemble_slices_code_is_model.
(* SwathSlicer.get_slices_from_polygon: for any (polygon, box) pairs and any intersection oracle the code returns the hull of the
   boxes whose polygon intersects, in enumeration order, and raises IncompatibleAreas exactly when none does *)
Theorem C11_swath_get_slices_code_is_model : forall (P : Type) (hits : P -> P -> bool) (p0 poly : P) cps,
  value_of (imp_swath_slices_from_polygon hits p0 poly cps)
  = match assemble (hit_boxes hits poly cps) with Some r => COk r | None => CRaised end.
Proof. exact @imp_swath_slices_value. Qed.
Print Assumptions C11_swath_get_slices_code_is_model.
(* _get_chunk_bboxes_for_swath_to_crop + get_slices_from_polygon, code against the model the theorems C11_swath_* are about:
   for any chunking, any oracles (cropping, edge extraction, hstack, intersects) and any chunk polygons the stored slices are
   chunk_boxes and the result is swath_slices for the hit bits *)
Theorem C11_swath_code_is_model : forall (SW E P : Type) (sw_chunks : SW -> list (list Z)) (sw_crop : SW -> pslice -> pslice -> SW)
    (edge_lonlats : SW -> Z -> E * E) (hstack : E -> E) (hits : P -> P -> bool) (sw0 : SW) (e0 : E) (p0 : P)
    (sw : SW) (poly : P) (polys : list P),
  exists bboxes, value_of (imp_chunk_bboxes sw_chunks sw_crop edge_lonlats hstack sw0 e0 sw) = COk bboxes /\
    map snd bboxes = chunk_boxes (sw_chunks sw) /\
    value_of (imp_swath_slices_from_polygon hits p0 poly (combine polys (map snd bboxes)))
    = match swath_slices (sw_chunks sw) (map (fun p => hits p poly) polys) with Some r => COk r | None => CRaised end.
Proof. exact @swath_code_is_model. Qed.
Print Assumptions C11_swath_code_is_model.
Example C11_swath_code_ex :
  value_of (imp_swath_slices_from_polygon (fun p _ : bool => p) false true
              (combine [false; true; false; true] (chunk_boxes [[3; 3]; [4; 2]]%Z)))
  = COk (mk_slice 3 7, mk_slice 0 7).
Proof. vm_compute. reflexivity. Qed.

(* ---- round 3 ---- *)
(* the hypothesis of C11_cache_history_transparent is necessary: a cache in front of a cropping function returns the right
   answer for every history of requests ONLY IF its key equality never identifies two requests with different answers
   (a hash / __eq__ that merges near-identical targets makes the second call of [A; B] return A's slices: tied to
   crop_source_area and to the JSON cache of get_area_slices by the near-identical-target histories of the harness) *)
Theorem C11_cache_key_sound_necessary : forall (K V : Type) (keq : K -> K -> bool) (f : K -> V) maxsize, maxsize <> Some O ->
  (forall ks, fst (run keq f maxsize [] ks) = map f ks) -> forall k1 k2, keq k2 k1 = true -> f k2 = f k1.
Proof. exact @key_sound_necessary. Qed.
Print Assumptions C11_cache_key_sound_necessary.
Example C11_cache_stale_ex : fst (run (fun a b => Nat.eqb (a / 10) (b / 10)) (fun k => k)%nat (Some 4%nat) [] [11; 12]%nat) = [11; 11]%nat.
Proof. reflexivity. Qed.
