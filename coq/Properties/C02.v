(* placeholder, replaced below *)
From Coq Require Import ZArith List.
From PR Require Import Model.KDTree.
Theorem C02_placeholder : True. Proof. exact I. Qed.
