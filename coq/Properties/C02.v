(* C02 — nearest-neighbour resampling returns the truly nearest source value or fill.
   Only statements here; proofs live in Proofs/C02_*.v, the model in Model/KDTree.v.

   Reading guide.  Source / target locations are flat indices into the coordinate arrays; [vin] / [vout] are the
   validity masks ([valid_in] / [valid_out]: the four range comparisons, false on NaN); [d2 t s] is the exact squared
   geocentric chord distance between target t and source s, [r2] the squared radius of influence.  The kd-tree is an
   ORACLE [knn]: the theorems hold for every query function meeting the contract [knn_spec_tol a b c] (a/b >= 1 the
   relative and c >= 0 the absolute slack on squared distances; a = b = 1, c = 0 is the exact contract [knn_spec]:
   "d < r => returned, d > r => not returned, d = r => either").  [rows] / [mrows] are the data (one row of channel values / mask bits per source location),
   [fill = None] is fill_value=None, [sentinel] the dtype maximum used internally for it.  A result cell is the pair
   (channel values, channel mask bits) of one target location. *)
From Coq Require Import ZArith Bool List Lia Reals PrimFloat Permutation.
From PR Require Import Base.Num Base.RNum Base.F64 Model.KDTree
     Model.C02_run Gen.GenC02 Proofs.C02_lists Proofs.C02_query Proofs.C02_pipeline Proofs.C02_main Proofs.C02_fast Proofs.C02_gen Proofs.C02_sphere Proofs.C02_ext Proofs.C02_history Proofs.C02_imp Proofs.C02_shape
     Base.Imp Model.NdArr Gen.GenC02imp
     Base.Slice Model.Partition Proofs.C03_sphere.
From PR Require Model.Organise.
Import ListNotations.
Open Scope nat_scope.

(* ------------------------------------------------------------------------------------------------------------
   For every target location: the output is the value AND mask state of a valid source of minimal distance, and that
   distance is within the radius; or every valid source is at least the radius away (or the target itself is invalid)
   and the output is the fill value / a masked element.
   Named hypotheses: H_knn (the tree meets its contract), H_no_sentinel (with fill_value=None no valid datum equals
   the dtype maximum -- without it the clause is refuted on the unchanged tree, see C02_mask_sentinel_refuted). *)
Theorem C02_nn_is_nearest_or_fill_if :
  forall (V D : Type) (veqb : V -> V -> bool) (vzero vone : V),
    veqb vzero vzero = true -> veqb vone vzero = false ->
  forall (r2 : Z) (d2 : nat -> nat -> Z) (tshape : list Z) (dtype : D) (multi : bool) (k : nat)
         (rows : list (list V)) (mrows : option (list (list bool))) (vin vout : list bool)
         (fill : option V) (sentinel : V),
    (* well-formed data: one row of kk values (and mask bits) per source location *)
    wf_input multi k rows mrows vin ->
    veqb sentinel sentinel = true ->
    (* H_no_sentinel *)
    (fill = None -> forall s, valid_at vin s -> forall v, In v (nth s rows []) -> veqb v sentinel = false) ->
  forall knn : list nat -> nat -> nat,
    (* H_knn *)
    (forall t, valid_at vout t -> knn_spec r2 (d2 t) (compact vin) (knn (compact vin) t)) ->
  forall t, t < length vout ->
    let kk := if multi then k else 1 in
    let cell := nth t (o_cells (resample_nn veqb vzero vone knn tshape dtype multi k rows mrows vin vout fill sentinel))
                    ([], []) in
    (exists s, valid_at vout t /\ valid_at vin s /\
        (forall s', valid_at vin s' -> (d2 t s <= d2 t s')%Z) /\ (d2 t s <= r2)%Z /\
        fst cell = nth s rows [] /\
        snd cell = match mrows with Some mm => nth s mm [] | None => repeat false kk end)
    \/
    ((~ valid_at vout t \/ forall s', valid_at vin s' -> (r2 <= d2 t s')%Z) /\
     (forall f, fill = Some f -> fst cell = repeat f kk) /\
     (fill = None -> snd cell = repeat true kk)).
Proof. exact (@main_exact). Qed.
Print Assumptions C02_nn_is_nearest_or_fill_if.

(* the same for a tree that is only optimal up to the slack (a/b, c) on squared distances -- the form the
   correspondence establishes for the real kd-tree on every run (binary64 trees: a/b = (1 + 1e-12)^2, c = 0;
   binary32 trees: a/b = (1 + 1e-5)^2, c = (2^-10 m)^2) *)
Theorem C02_nn_is_nearest_or_fill_tol_if :
  forall (V D : Type) (veqb : V -> V -> bool) (vzero vone : V),
    veqb vzero vzero = true -> veqb vone vzero = false ->
  forall (a b c r2 : Z) (d2 : nat -> nat -> Z) (tshape : list Z) (dtype : D) (multi : bool) (k : nat)
         (rows : list (list V)) (mrows : option (list (list bool))) (vin vout : list bool)
         (fill : option V) (sentinel : V),
    wf_input multi k rows mrows vin ->
    veqb sentinel sentinel = true ->
    (fill = None -> forall s, valid_at vin s -> forall v, In v (nth s rows []) -> veqb v sentinel = false) ->
  forall knn : list nat -> nat -> nat,
    (forall t, valid_at vout t -> knn_spec_tol a b c r2 (d2 t) (compact vin) (knn (compact vin) t)) ->
  forall t, t < length vout ->
    let kk := if multi then k else 1 in
    let cell := nth t (o_cells (resample_nn veqb vzero vone knn tshape dtype multi k rows mrows vin vout fill sentinel))
                    ([], []) in
    (exists s, valid_at vout t /\ valid_at vin s /\
        (forall s', valid_at vin s' -> (b * d2 t s <= a * d2 t s' + c)%Z) /\ (b * d2 t s <= a * r2 + c)%Z /\
        fst cell = nth s rows [] /\
        snd cell = match mrows with Some mm => nth s mm [] | None => repeat false kk end)
    \/
    ((~ valid_at vout t \/ forall s', valid_at vin s' -> (b * r2 <= a * d2 t s' + c)%Z) /\
     (forall f, fill = Some f -> fst cell = repeat f kk) /\
     (fill = None -> snd cell = repeat true kk)).
Proof. exact (@main_tol). Qed.
Print Assumptions C02_nn_is_nearest_or_fill_tol_if.

(* decisive cases: some valid source strictly inside the radius => a nearest one's value and mask state;
   every valid source strictly outside => fill / masked *)
Theorem C02_value_if_strictly_inside :
  forall (V D : Type) (veqb : V -> V -> bool) (vzero vone : V),
    veqb vzero vzero = true -> veqb vone vzero = false ->
  forall (r2 : Z) (d2 : nat -> nat -> Z) (tshape : list Z) (dtype : D) (multi : bool) (k : nat)
         (rows : list (list V)) (mrows : option (list (list bool))) (vin vout : list bool)
         (fill : option V) (sentinel : V),
    wf_input multi k rows mrows vin -> veqb sentinel sentinel = true ->
    (fill = None -> forall s, valid_at vin s -> forall v, In v (nth s rows []) -> veqb v sentinel = false) ->
  forall knn : list nat -> nat -> nat,
    (forall t, valid_at vout t -> knn_spec r2 (d2 t) (compact vin) (knn (compact vin) t)) ->
  forall t, valid_at vout t -> (exists s, valid_at vin s /\ (d2 t s < r2)%Z) ->
    let kk := if multi then k else 1 in
    let cell := nth t (o_cells (resample_nn veqb vzero vone knn tshape dtype multi k rows mrows vin vout fill sentinel))
                    ([], []) in
    exists s, valid_at vin s /\ (forall s', valid_at vin s' -> (d2 t s <= d2 t s')%Z) /\ (d2 t s < r2)%Z /\
      fst cell = nth s rows [] /\ snd cell = match mrows with Some mm => nth s mm [] | None => repeat false kk end.
Proof. exact (@value_if_strictly_inside). Qed.
Print Assumptions C02_value_if_strictly_inside.

Theorem C02_fill_if_all_outside :
  forall (V D : Type) (veqb : V -> V -> bool) (vzero vone : V),
    veqb vzero vzero = true -> veqb vone vzero = false ->
  forall (r2 : Z) (d2 : nat -> nat -> Z) (tshape : list Z) (dtype : D) (multi : bool) (k : nat)
         (rows : list (list V)) (mrows : option (list (list bool))) (vin vout : list bool)
         (fill : option V) (sentinel : V),
    wf_input multi k rows mrows vin -> veqb sentinel sentinel = true ->
    (fill = None -> forall s, valid_at vin s -> forall v, In v (nth s rows []) -> veqb v sentinel = false) ->
  forall knn : list nat -> nat -> nat,
    (forall t, valid_at vout t -> knn_spec r2 (d2 t) (compact vin) (knn (compact vin) t)) ->
  forall t, t < length vout -> (forall s, valid_at vin s -> (r2 < d2 t s)%Z) ->
    let kk := if multi then k else 1 in
    let cell := nth t (o_cells (resample_nn veqb vzero vone knn tshape dtype multi k rows mrows vin vout fill sentinel))
                    ([], []) in
    (forall f, fill = Some f -> fst cell = repeat f kk) /\ (fill = None -> snd cell = repeat true kk).
Proof. exact (@fill_if_all_outside). Qed.
Print Assumptions C02_fill_if_all_outside.

(* ------------------------------------------------------------------------------------------------------------
   Invalid locations never contribute.
   (i) non-interference: the whole result is unchanged when the data / mask at invalid source locations and the
       tree's answers to anything but (valid sources, valid targets) are replaced arbitrarily;
   (ii) an invalid target is fill / masked;
   (iii) over the reals "valid" is exactly -180 <= lon <= 180 and -90 <= lat <= 90 (binary64: Examples below and the
       bit-exact correspondence, incl. NaN / inf / 1e30). *)
Theorem C02_invalid_never_contribute :
  forall (V D : Type) (veqb : V -> V -> bool) (vzero vone : V) (knn knn' : list nat -> nat -> nat)
         (tshape : list Z) (dtype : D) (multi : bool) (k : nat) (rows rows' : list (list V))
         (mrows mrows' : option (list (list bool))) (vin vout : list bool) (fill : option V) (sentinel : V),
    agree_on vin rows rows' [] ->
    match mrows, mrows' with
    | Some mm, Some mm' => agree_on vin mm mm' []
    | None, None => True
    | _, _ => False
    end ->
    (forall t, In t (compact vout) -> knn (compact vin) t = knn' (compact vin) t) ->
    resample_nn veqb vzero vone knn tshape dtype multi k rows mrows vin vout fill sentinel =
    resample_nn veqb vzero vone knn' tshape dtype multi k rows' mrows' vin vout fill sentinel.
Proof. exact (@invalid_never_contribute). Qed.
Print Assumptions C02_invalid_never_contribute.

Theorem C02_invalid_target_is_fill :
  forall (V D : Type) (veqb : V -> V -> bool) (vzero vone : V),
    veqb vzero vzero = true -> veqb vone vzero = false ->
  forall (r2 : Z) (d2 : nat -> nat -> Z) (tshape : list Z) (dtype : D) (multi : bool) (k : nat)
         (rows : list (list V)) (mrows : option (list (list bool))) (vin vout : list bool)
         (fill : option V) (sentinel : V),
    wf_input multi k rows mrows vin -> veqb sentinel sentinel = true ->
    (fill = None -> forall s, valid_at vin s -> forall v, In v (nth s rows []) -> veqb v sentinel = false) ->
  forall knn : list nat -> nat -> nat,
    (forall t, valid_at vout t -> knn_spec r2 (d2 t) (compact vin) (knn (compact vin) t)) ->
  forall t, t < length vout -> nth t vout false = false ->
    let kk := if multi then k else 1 in
    let cell := nth t (o_cells (resample_nn veqb vzero vone knn tshape dtype multi k rows mrows vin vout fill sentinel))
                    ([], []) in
    (forall f, fill = Some f -> fst cell = repeat f kk) /\ (fill = None -> snd cell = repeat true kk).
Proof. exact (@invalid_target_fill). Qed.
Print Assumptions C02_invalid_target_is_fill.

Theorem C02_valid_iff_in_range : forall (lons lats : list R) i, length lons = length lats -> i < length lons ->
  (nth i (valid_input_index RO lons lats) false = true <->
     (-180 <= nth i lons 0 <= 180 /\ -90 <= nth i lats 0 <= 90)%R) /\
  (nth i (valid_output_index RO lons lats) false = true <->
     (-180 <= nth i lons 0 <= 180 /\ -90 <= nth i lats 0 <= 90)%R).
Proof. intros lons lats i Hl Hi. split; [exact (valid_input_index_R lons lats i Hl Hi)|exact (valid_output_index_R lons lats i Hl Hi)]. Qed.
Print Assumptions C02_valid_iff_in_range.

(* source-level tie: the validity masks regenerated from the CURRENT kd_tree._get_valid_input_index /
   _get_valid_output_index by the translator on every run are the model's valid_in / valid_out for every arithmetic
   instance (binary64 and NaN included; [reduced] is the data_reduce mask the target mask is and-ed with;
   either order of testing longitudes / latitudes is accepted) *)
Theorem C02_gen_valid_in_is_model : forall (T : Type) (OP : ops T),
  (forall lon lat, gen_valid_in OP lon lat = valid_in OP lon lat) \/
  (forall lon lat, gen_valid_in OP lat lon = valid_in OP lon lat).
Proof. exact (@gen_valid_in_char). Qed.
Print Assumptions C02_gen_valid_in_is_model.
Theorem C02_gen_valid_out_is_model : forall (T : Type) (OP : ops T),
  (forall lon lat (reduced : bool), gen_valid_out OP lon lat reduced = reduced && valid_out OP lon lat) \/
  (forall lon lat (reduced : bool), gen_valid_out OP lat lon reduced = reduced && valid_out OP lon lat).
Proof. exact (@gen_valid_out_char). Qed.
Print Assumptions C02_gen_valid_out_is_model.

(* a flat index survives the compaction exactly when it is flagged valid *)
Theorem C02_compact_keeps_exactly_valid : forall m s, In s (compact m) <-> valid_at m s.
Proof. exact in_compact. Qed.
Print Assumptions C02_compact_keeps_exactly_valid.

(* ------------------------------------------------------------------------------------------------------------
   Shape and dtype: target shape (+ channel axis for (n,k) data), one cell of kk values and kk mask bits per target
   location (so the element count is the product of the shape), input dtype.
   Excluded input class (refuted on the unchanged tree, C02_shape_masked_single_channel_refuted):
   masked multi-channel data with exactly one channel. *)
Theorem C02_shape_dtype_if :
  forall (V D : Type) (veqb : V -> V -> bool) (vzero vone : V) (knn : list nat -> nat -> nat)
         (tshape : list Z) (dtype : D) (multi : bool) (k : nat) (rows : list (list V))
         (mrows : option (list (list bool))) (vin vout : list bool) (fill : option V) (sentinel : V),
    let o := resample_nn veqb vzero vone knn tshape dtype multi k rows mrows vin vout fill sentinel in
    (multi = true -> k = 1 -> mrows = None) ->
    o_shape o = tshape ++ (if multi then [Z.of_nat k] else []) /\ o_dtype o = dtype.
Proof. exact (@shape_dtype). Qed.
Print Assumptions C02_shape_dtype_if.

Theorem C02_shape_size_if :
  forall (V D : Type) (veqb : V -> V -> bool) (vzero vone : V) (knn : list nat -> nat -> nat)
         (tshape : list Z) (dtype : D) (multi : bool) (k : nat) (rows : list (list V))
         (mrows : option (list (list bool))) (vin vout : list bool) (fill : option V) (sentinel : V),
    let o := resample_nn veqb vzero vone knn tshape dtype multi k rows mrows vin vout fill sentinel in
    wf_input multi k rows mrows vin ->
    (multi = true -> k = 1 -> mrows = None) ->
    Z.of_nat (length vout) = prodZ tshape ->
    length (o_cells o) = length vout /\
    (forall c, In c (o_cells o) -> length (fst c) = kk multi k /\ length (snd c) = kk multi k) /\
    Z.of_nat (length (o_vals o)) = prodZ (o_shape o) /\ length (o_mask o) = length (o_vals o).
Proof. exact (@shape_size). Qed.
Print Assumptions C02_shape_size_if.

(* ------------------------------------------------------------------------------------------------------------
   The oracle contract: the executable acceptance test used by the correspondence is equivalent to the contract
   (soundness is what the tie needs); the brute-force reference meets the exact contract (so H_knn is satisfiable),
   reports a neighbour exactly when one is strictly inside the radius, and returns the lowest index among ties;
   the exact contract implies every relaxed one. *)
Theorem C02_accept_sound : forall a b c r2 d cands i,
  accept a b c r2 d cands i = true -> knn_spec_tol a b c r2 d cands i.
Proof. exact accept_sound. Qed.
Print Assumptions C02_accept_sound.
Theorem C02_accept_list_sound : forall a b c r2 d cands i,
  accept_list a b c r2 (map d cands) i = true -> knn_spec_tol a b c r2 d cands i.
Proof. exact accept_list_sound. Qed.
Print Assumptions C02_accept_list_sound.
(* the form the correspondence executes (Model/C02_run.v): exact integer coordinates [srcs], [tf] of the implementation's
   own cartesian floats, with a coarse-coordinate shortcut; it implies the contract for the exact squared distances *)
Theorem C02_accept_fast_sound : forall a b c r2 u tf srcs i,
  accept_fast a b c r2 u tf (with_coarse u srcs) i = true ->
  knn_spec_tol a b c r2 (fun s => sqd tf (nth s srcs (0, 0, 0)%Z)) (seq 0 (length srcs)) i.
Proof. exact accept_fast_contract. Qed.
Print Assumptions C02_accept_fast_sound.
Theorem C02_accept_complete : forall a b c r2 d cands i,
  knn_spec_tol a b c r2 d cands i -> accept a b c r2 d cands i = true.
Proof. intros a b c r2 d cands i. apply accept_iff. Qed.
Print Assumptions C02_accept_complete.
Theorem C02_brute_force_meets_contract : forall r2 d cands, knn_spec r2 d cands (nearest r2 d cands).
Proof. exact nearest_spec. Qed.
Print Assumptions C02_brute_force_meets_contract.
Theorem C02_brute_force_bound_is_strict : forall r2 d cands,
  nearest r2 d cands < length cands <-> exists s, In s cands /\ (d s < r2)%Z.
Proof. exact nearest_found_iff. Qed.
Print Assumptions C02_brute_force_bound_is_strict.
Theorem C02_brute_force_lowest_index_on_ties : forall r2 d cands, nearest r2 d cands < length cands ->
  forall j, j < nearest r2 d cands -> (d (nth (nearest r2 d cands) cands 0%nat) < d (nth j cands 0%nat))%Z.
Proof. exact nearest_first_min. Qed.
Print Assumptions C02_brute_force_lowest_index_on_ties.
Theorem C02_exact_contract_implies_relaxed : forall r2 d cands a b c i,
  (0 < b <= a)%Z -> (0 <= c)%Z -> (0 <= r2)%Z -> (forall s, In s cands -> (0 <= d s)%Z) ->
  knn_spec r2 d cands i -> knn_spec_tol a b c r2 d cands i.
Proof. exact knn_spec_weaken. Qed.
Print Assumptions C02_exact_contract_implies_relaxed.

(* ------------------------------------------------------------------------------------------------------------
   epsilon > 0 (approximate query, eps = p / q): a tree that is (1 + eps)-optimal on distances, i.e. meets
   knn_spec_tol ((q+p)^2) (q^2) 0, gives every target a valid source within the radius whose distance is at most
   (1 + eps) times the minimal one (squared form), or fill when no valid source is closer than r / (1 + eps). *)
Theorem C02_epsilon_approximate_if :
  forall (V D : Type) (veqb : V -> V -> bool) (vzero vone : V),
    veqb vzero vzero = true -> veqb vone vzero = false ->
  forall (p q r2 : Z) (d2 : nat -> nat -> Z) (tshape : list Z) (dtype : D) (multi : bool) (k : nat)
         (rows : list (list V)) (mrows : option (list (list bool))) (vin vout : list bool)
         (fill : option V) (sentinel : V),
    wf_input multi k rows mrows vin -> veqb sentinel sentinel = true ->
    (fill = None -> forall s, valid_at vin s -> forall v, In v (nth s rows []) -> veqb v sentinel = false) ->
  forall knn : list nat -> nat -> nat,
    (forall t, valid_at vout t ->
       knn_spec_tol ((q + p) * (q + p)) (q * q) 0 r2 (d2 t) (compact vin) (knn (compact vin) t)) ->
  forall t, t < length vout ->
    let kk := if multi then k else 1 in
    let cell := nth t (o_cells (resample_nn veqb vzero vone knn tshape dtype multi k rows mrows vin vout fill sentinel))
                    ([], []) in
    (exists s, valid_at vout t /\ valid_at vin s /\
        (forall s', valid_at vin s' -> (q * q * d2 t s <= (q + p) * (q + p) * d2 t s' + 0)%Z) /\
        (q * q * d2 t s <= (q + p) * (q + p) * r2 + 0)%Z /\
        fst cell = nth s rows [] /\
        snd cell = match mrows with Some mm => nth s mm [] | None => repeat false kk end)
    \/
    ((~ valid_at vout t \/ forall s', valid_at vin s' -> (q * q * r2 <= (q + p) * (q + p) * d2 t s' + 0)%Z) /\
     (forall f, fill = Some f -> fst cell = repeat f kk) /\
     (fill = None -> snd cell = repeat true kk)).
Proof.
  intros V D veqb vzero vone H0 H1 p q. exact (@main_tol V D veqb vzero vone H0 H1 ((q + p) * (q + p))%Z (q * q)%Z 0%Z).
Qed.
Print Assumptions C02_epsilon_approximate_if.

(* ------------------------------------------------------------------------------------------------------------
   segments / nprocs (composition with C03, whose model of get_neighbour_info's segment loop, RowAppendableArrays
   and worker slices is Model/Organise.v): for EVERY segments argument and every hand-out of target slices to worker
   processes, get_neighbour_info returns the valid_output_index and index array of Model/KDTree.v's neighbour_info --
   so every theorem above holds for any segments / nprocs.  [g] is the target grid as rows of flat indices. *)
Theorem C02_any_segments : forall (knn : list nat -> nat -> nat) (vin vout : list bool)
    (segments : option Z) (g : list (list nat)) (capacity : Z),
  concat g = seq 0 (length vout) -> KDTree.compact vin <> [] ->
  Organise.neighbour_info (knn (KDTree.compact vin)) (fun t => nth t vout false)
                          (Organise.segments_of segments (Z.of_nat (length (concat g)))) g capacity =
  (map Some (snd (fst (KDTree.neighbour_info knn vin vout))), map Some (snd (KDTree.neighbour_info knn vin vout))).
Proof. exact any_segments. Qed.
Print Assumptions C02_any_segments.
Theorem C02_any_nprocs : forall (knn : list nat -> nat -> nat) (vin vout : list bool)
    (handed tiling : list pslice) (init : list nat),
  KDTree.compact vin <> [] ->
  tiles 0 tiling (Z.of_nat (length (KDTree.compact vout))) -> Permutation handed tiling ->
  length init = length (KDTree.compact vout) ->
  Organise.run_workers (knn (KDTree.compact vin)) (KDTree.compact vout) handed init = snd (KDTree.neighbour_info knn vin vout).
Proof. exact any_nprocs. Qed.
Print Assumptions C02_any_nprocs.

(* ------------------------------------------------------------------------------------------------------------
   Histories: neighbour info computed once and used for any sequence of datasets.  [step] is what one
   get_sample_from_neighbour_info call does to the caller's arrays (state) and returns.  Named hypotheses, both checked
   on the implementation for every case of every run: H_pure (all array arguments equal their snapshots after each
   call) and H_res (the correspondence).  Then every call of every history returns the fresh resample_nearest result.
   C02_dirty_history_differs: a step editing the index array in place is not pure and its second use differs. *)
Theorem C02_history_independent_if : forall (S A B : Type) (f : S -> A -> B) (step : S -> A -> S * B),
  (forall st d, fst (step st d) = st) -> (forall st d, snd (step st d) = f st d) ->
  forall st ds, run_history step st ds = map (f st) ds.
Proof. exact (@history_independent). Qed.
Print Assumptions C02_history_independent_if.
Theorem C02_info_reuse_history_if : forall (V D : Type) (veqb : V -> V -> bool) (vzero vone : V)
    (knn : list nat -> nat -> nat) (tshape : list Z) (vin vout : list bool)
    (step : info_t -> dataset (V := V) (D := D) -> info_t * sample),
  (forall st d, fst (step st d) = st) -> (forall st d, snd (step st d) = sample_of veqb vzero vone tshape st d) ->
  forall ds, run_history step (neighbour_info knn vin vout) ds = map (fresh veqb vzero vone knn tshape vin vout) ds.
Proof. exact (@nn_history). Qed.
Print Assumptions C02_info_reuse_history_if.
Theorem C02_dirty_history_differs :
  run_history dirty_step [0; 2; 1] [2; 2] = [[0; 99; 1]; [0; 0; 1]] /\
  map (fun n => snd (dirty_step [0; 2; 1] n)) [2; 2] = [[0; 99; 1]; [0; 99; 1]].
Proof. exact dirty_history_differs. Qed.
Print Assumptions C02_dirty_history_differs.

(* ------------------------------------------------------------------------------------------------------------
   Cartesian.transform_lonlats (Model/KDTree.v: transform_lonlat, cos / sin oracles) over the reals: every location
   is on the sphere of radius R; the squared chord between two locations is 2 R^2 (1 - cos(central angle)); hence
   "smallest chord distance" in the theorems above is "smallest geocentric (central) angle".  [k] = deg2rad. *)
Theorem C02_xyz_on_sphere : forall Re k lon lat : R,
  let '(x, y, z) := xyzR Re k lon lat in (x * x + y * y + z * z = Re * Re)%R.
Proof. exact xyz_on_sphere. Qed.
Print Assumptions C02_xyz_on_sphere.
Theorem C02_chord_is_central_angle : forall Re k lon1 lat1 lon2 lat2 : R,
  sqdist3 (xyzR Re k lon1 lat1) (xyzR Re k lon2 lat2)
  = (2 * Re * Re * (1 - cosang (lon1 * k) (lat1 * k) (lon2 * k) (lat2 * k)))%R.
Proof. exact sqdist_central_angle. Qed.
Print Assumptions C02_chord_is_central_angle.
Theorem C02_chord_order_is_angle_order : forall Re k lont latt lon1 lat1 lon2 lat2 : R, (0 < Re)%R ->
  ((sqdist3 (xyzR Re k lont latt) (xyzR Re k lon1 lat1) <= sqdist3 (xyzR Re k lont latt) (xyzR Re k lon2 lat2))%R
   <-> (cosang (lont * k) (latt * k) (lon2 * k) (lat2 * k) <= cosang (lont * k) (latt * k) (lon1 * k) (lat1 * k))%R).
Proof. exact chord_order_is_angle_order. Qed.
Print Assumptions C02_chord_order_is_angle_order.

(* ------------------------------------------------------------------------------------------------------------
   Refuted on the unchanged tree (known findings C02.mask_sentinel, C02.shape.masked_single_channel):
   both witnesses are replayed on the real implementation by the check. *)
Theorem C02_mask_sentinel_refuted :
  exists (rows : list (list Z)) (vin vout : list bool) (knn : list nat -> nat -> nat) (d2 : nat -> nat -> Z) (r2 : Z),
    (forall t, valid_at vout t -> knn_spec r2 (d2 t) (compact vin) (knn (compact vin) t)) /\
    wf_input false 1 rows None vin /\
    (* target 0: valid source 0 strictly inside the radius, nearest, unmasked, value 255 = the sentinel *)
    (d2 0%nat 0%nat < r2)%Z /\ (forall s', valid_at vin s' -> (d2 0%nat 0%nat <= d2 0%nat s')%Z) /\
    nth 0 (o_cells (resample_nn Z.eqb 0%Z 1%Z knn [1%Z] 3%Z false 1 rows None vin vout None 255%Z)) ([], [])
      = (nth 0 rows [], [true]).     (* ... and the output element is masked *)
Proof.
  exists [[255%Z]; [7%Z]], [true; true], [true], (fun cands t => nearest 100 (fun s => Z.of_nat s + 1)%Z cands),
         (fun _ s => (Z.of_nat s + 1)%Z), 100%Z.
  split; [intros t _; apply nearest_spec|]. split; [|split; [reflexivity|split; [intros s' _; lia|exact (f_equal (fun l => nth 0 l ([], [])) sentinel_refuted)]]].
  split; [reflexivity|]. split; [|exact I]. intros row [<-|[<-|[]]]; reflexivity.
Qed.
Print Assumptions C02_mask_sentinel_refuted.

Theorem C02_shape_masked_single_channel_refuted :
  exists (rows : list (list Z)) (mm : list (list bool)) (vin vout : list bool) (knn : list nat -> nat -> nat),
    wf_input true 1 rows (Some mm) vin /\
    o_shape (resample_nn Z.eqb 0%Z 1%Z knn [2%Z; 2%Z] 0%Z true 1 rows (Some mm) vin vout (Some 0%Z) 255%Z) = [2%Z; 2%Z] /\
    o_shape (resample_nn Z.eqb 0%Z 1%Z knn [2%Z; 2%Z] 0%Z true 1 rows None vin vout (Some 0%Z) 255%Z) = [2%Z; 2%Z; 1%Z].
Proof.
  exists [[5%Z]; [7%Z]], [[false]; [true]], [true; true], [true; true; true; true],
         (fun cands t => nearest 100 (fun s => Z.of_nat s + 1)%Z cands).
  split; [|exact shape_masked_single_channel_refuted].
  split; [reflexivity|]. split; [intros row [<-|[<-|[]]]; reflexivity|].
  split; [reflexivity|]. intros m [<-|[<-|[]]]; reflexivity.
Qed.
Print Assumptions C02_shape_masked_single_channel_refuted.

(* ------------------------------------------------------------------------------------------------------------
   Non-vacuity: a concrete instance satisfying every hypothesis, with the brute force as the oracle.
   Sources on a line at 0, 100 (INVALID), 10, 20; targets at 1, 14, 100, and one invalid; radius 5 (r2 = 25).
   Target 2 sits exactly on the invalid source and must still be fill. *)
Definition ex_pos_s : list Z := [0; 100; 10; 20]%Z.
Definition ex_pos_t : list Z := [1; 14; 100; 3]%Z.
Definition ex_d2 (t s : nat) : Z := ((nth t ex_pos_t 0 - nth s ex_pos_s 0) * (nth t ex_pos_t 0 - nth s ex_pos_s 0))%Z.
Definition ex_vin := [true; false; true; true].
Definition ex_vout := [true; true; true; false].
Definition ex_rows : list (list Z) := [[11; 12]; [21; 22]; [31; 32]; [41; 42]]%Z.
Definition ex_mrows := Some [[false; true]; [true; true]; [false; false]; [true; false]].
Definition ex_knn : list nat -> nat -> nat := fun cands t => nearest 25 (ex_d2 t) cands.

Example C02_ex_hypotheses :
  wf_input true 2 ex_rows ex_mrows ex_vin /\
  (forall t, valid_at ex_vout t -> knn_spec 25 (ex_d2 t) (compact ex_vin) (ex_knn (compact ex_vin) t)) /\
  (forall s, valid_at ex_vin s -> forall v, In v (nth s ex_rows []) -> Z.eqb v 255 = false).
Proof.
  split; [|split].
  - split; [reflexivity|]. split; [intros row [<-|[<-|[<-|[<-|[]]]]]; reflexivity|].
    split; [reflexivity|]. intros m [<-|[<-|[<-|[<-|[]]]]]; reflexivity.
  - intros t _. apply nearest_spec.
  - intros s [Hs _] v Hv. cbn in Hs. destruct s as [|[|[|[|s]]]]; cbn in Hv; try lia; intuition (subst; reflexivity).
Qed.
Example C02_ex_result :
  o_cells (resample_nn Z.eqb 0 1 ex_knn [2; 2] 7 true 2 ex_rows ex_mrows ex_vin ex_vout None 255)%Z
  = [([11; 12], [false; true]); ([31; 32], [false; false]); ([255; 255], [true; true]); ([255; 255], [true; true])]%Z
  /\ o_shape (resample_nn Z.eqb 0 1 ex_knn [2; 2] 7 true 2 ex_rows ex_mrows ex_vin ex_vout None 255)%Z = [2; 2; 2]%Z
  /\ neighbour_info ex_knn ex_vin ex_vout = ([true; false; true; true], [true; true; true; false], [0; 1; 3]).
Proof. vm_compute. repeat split. Qed.
Example C02_ex_numeric_fill :
  o_cells (resample_nn Z.eqb 0 1 ex_knn [4] 7 false 1 [[11]; [21]; [31]; [41]] None ex_vin ex_vout (Some (-1)) 255)%Z
  = [([11], [false]); ([31], [false]); ([-1], [false]); ([-1], [false])]%Z.
Proof. vm_compute. reflexivity. Qed.
(* no valid source at all: _create_empty_info + _get_empty_sample *)
Example C02_ex_no_valid_source :
  o_cells (resample_nn Z.eqb 0 1 ex_knn [4] 7 false 1 [[11]; [21]] None [false; false] ex_vout (Some 9) 255)%Z
  = repeat ([9], [false])%Z 4.
Proof. vm_compute. reflexivity. Qed.
(* the acceptance test at the boundary: distance exactly r is accepted either way; the slack used for float64 trees *)
Example C02_ex_accept_boundary :
  accept 1 1 0 25 (fun s => nth s [25; 30] 0)%Z [0; 1] 0 = true /\ accept 1 1 0 25 (fun s => nth s [25; 30] 0)%Z [0; 1] 2 = true /\
  accept 1 1 0 25 (fun s => nth s [24; 30] 0)%Z [0; 1] 2 = false /\ accept 1 1 0 25 (fun s => nth s [24; 30] 0)%Z [0; 1] 1 = false /\
  (0 < 10 ^ 24 <= (10 ^ 12 + 1) ^ 2)%Z.
Proof. vm_compute. repeat split; congruence. Qed.
(* binary64 validity: bounds inclusive, one ulp outside / NaN / inf / 1e30 invalid *)
Example C02_ex_valid_f64 :
  map (fun p => valid_in F64 (fst p) (snd p))
      [(180, 90); (-180, -90); (0x1.6800000000001p+7, 0); (0, 0x1.6800000000001p+6); (PrimFloat.nan, 0); (0, PrimFloat.nan);
       (infinity, 0); (0, neg_infinity); (0x1.93e5939a08ceap+99, 0); (-0x1.69p+7, 0)]%float
  = [true; true; false; false; false; false; false; false; false; false].
Proof. vm_compute. reflexivity. Qed.
(* ------------------------------------------------------------------------------------------------------------
   Wave 3 -- code is model.  Gen/GenC02imp.v is regenerated on every run from the CURRENT source of
   get_sample_from_neighbour_info, _get_empty_sample, _extract_resample_result, _prepare_result and _remask_data
   (resample_type 'nn', weight_funcs None, with_uncert False): the layout-normalisation ladder, the size check, the
   empty-result early return, neighbours from index_array.ndim, masked-data stacking, fill selection, gather / scatter
   order, reshape to target shape + channels, remask, masked_equal and astype are translated statement by statement;
   each numpy expression is read as the Model/NdArr.v definition named in tools/gen_specs/GenC02imp.json.
   The generated definitions return exactly the closed forms nd_* where these are defined and raise exactly where
   they are not ([to_cres None] = CRaised); no fuel is involved (no loops). *)
Theorem C02_remask_data_code_is_model : forall (V : Type) (veqb : V -> V -> bool) (vzero vone : V) (d : nda V),
  value_of (imp_remask_data veqb vzero vone d true) = if nd_dim_ok d (-1) then COk (nd_remask veqb vzero vone d) else CRaised.
Proof. exact (@imp_remask_data_code_is_model). Qed.
Print Assumptions C02_remask_data_code_is_model.
Theorem C02_prepare_result_code_is_model : forall (V : Type) (veqb : V -> V -> bool) (vzero vone : V)
    (result : nda V) (oshape : list Z) (is_masked use_mf : bool) (fillv : V) (dt : option Z),
  value_of (imp_prepare_result veqb vzero vone result oshape is_masked use_mf fillv dt)
  = to_cres (nd_prepare veqb vzero vone result oshape is_masked use_mf fillv dt).
Proof. exact (@imp_prepare_result_code_is_model). Qed.
Print Assumptions C02_prepare_result_code_is_model.
Theorem C02_get_empty_sample_code_is_model : forall (V : Type) (vzero : V) (data : nda V) (oshape : list Z) (multi : bool) (fill : option V),
  value_of (imp_get_empty_sample vzero data oshape multi fill) = to_cres (nd_empty vzero data oshape multi fill).
Proof. exact (@imp_get_empty_sample_code_is_model). Qed.
Print Assumptions C02_get_empty_sample_code_is_model.
Theorem C02_extract_resample_result_code_is_model : forall (V : Type) (veqb : V -> V -> bool) (vzero vone : V) (sentinel_of : Z -> V)
    (neighbours : Z) (new_data : nda V) (index_array : nda Z) (n : Z) (voi : list bool) (fill : option V) (oshape : list Z)
    (is_masked multi : bool) (dt : option Z),
  value_of (imp_extract_resample_result veqb vzero vone sentinel_of tt neighbours new_data index_array tt n voi tt false fill
                                        oshape is_masked multi dt)
  = to_cres (nd_extract veqb vzero vone sentinel_of new_data index_array n voi fill oshape is_masked dt).
Proof. exact (@imp_extract_code_is_model). Qed.
Print Assumptions C02_extract_resample_result_code_is_model.
Theorem C02_get_sample_code_is_model : forall (V : Type) (veqb : V -> V -> bool) (vzero vone : V) (sentinel_of : Z -> V)
    (oshape : list Z) (data : nda V) (vii voi : list bool) (index_array : nda Z) (fill : option V),
  value_of (imp_get_sample veqb vzero vone sentinel_of tt oshape data vii voi index_array tt tt fill false)
  = to_cres (nd_get_sample veqb vzero vone sentinel_of oshape data vii voi index_array fill).
Proof. exact (@imp_get_sample_code_is_model). Qed.
Print Assumptions C02_get_sample_code_is_model.

(* THE SHAPE LAW, on the translated code: for every accepted layout of the data argument -- (n,), (n, k), (rows, cols),
   (rows, cols, k) with rows * cols = n = valid_input_index.size -- every 1-D / 2-D target shape, any validity masks, any
   index array of the right length with entries in [0, n_valid], any fill: the call RETURNS (no exception) an array with
   the input dtype and shape = target shape ++ channels.  [masked] tells whether the selected data had a masked element;
   chan_of multi masked k = [k] for multi-channel data, [] for single-channel data, EXCEPT masked multi-channel data with
   k = 1, which loses its channel axis (known finding C02.shape.masked_single_channel, stated as it is). *)
Theorem C02_get_sample_shape_law : forall (V : Type) (veqb : V -> V -> bool) (vzero vone : V) (sentinel_of : Z -> V)
    (oshape : list Z) (data : nda V) (vii voi : list bool) (index_array : nda Z) (fill : option V) (ly : layout),
  info_ok vii voi index_array oshape ->
  a_shape data = layout_shape (zlen vii) ly -> layout_ok (zlen vii) ly ->
  exists r, value_of (imp_get_sample veqb vzero vone sentinel_of tt oshape data vii voi index_array tt tt fill false) = COk r /\
            a_dtype r = a_dtype data /\
            exists masked, a_shape r = oshape ++ chan_of (layout_multi ly) masked (layout_k ly).
Proof.
  intros V veqb vzero vone sentinel_of oshape data vii voi index_array fill ly Hi Hs Hl.
  destruct (get_sample_shape_law veqb vzero vone sentinel_of oshape data vii voi index_array fill ly Hi Hs Hl) as (r & Hr & H).
  exists r. split; [|exact H]. rewrite imp_get_sample_code_is_model, Hr. reflexivity.
Qed.
Print Assumptions C02_get_sample_shape_law.
(* a 1-D data array whose size is not the geometry's is refused (ValueError) *)
Theorem C02_get_sample_size_mismatch_raises : forall (V : Type) (veqb : V -> V -> bool) (vzero vone : V) (sentinel_of : Z -> V)
    (oshape : list Z) (data : nda V) (vii voi : list bool) (index_array : nda Z) (fill : option V) (m : Z),
  a_shape data = [m] -> m <> zlen vii ->
  value_of (imp_get_sample veqb vzero vone sentinel_of tt oshape data vii voi index_array tt tt fill false) = CRaised.
Proof.
  intros. rewrite imp_get_sample_code_is_model, (get_sample_size_mismatch veqb vzero vone sentinel_of oshape data vii voi index_array fill m); auto.
Qed.
Print Assumptions C02_get_sample_size_mismatch_raises.
(* non-vacuity: a (2, 2, 2) masked field on 4 source locations (one invalid), a 2 x 2 target with one invalid location, fill None;
   the translated code returns shape [2; 2; 2] and the cells of C02_ex_result *)
Example C02_imp_ex :
  (let data := mk_nda [2; 2; 2] [11; 12; 21; 22; 31; 32; 41; 42] (Some [false; true; true; true; false; false; true; false]) 7 in
   let ia := mk_nda [3] [0; 1; 3] None 0 in
   info_ok ex_vin ex_vout ia [2; 2] /\ layout_ok (zlen ex_vin) (L_geo_k 2 2 2) /\
   value_of (imp_get_sample Z.eqb 0 1 (fun _ => 255) tt [2; 2] data ex_vin ex_vout ia tt tt None false)
   = COk (mk_nda [2; 2; 2] [11; 12; 31; 32; 255; 255; 255; 255] (Some [false; true; false; false; true; true; true; true]) 7))%Z.
Proof.
  cbv zeta. split; [|split; [cbn; lia|vm_compute; reflexivity]].
  constructor; [reflexivity|reflexivity| |right; exists 2%Z, 2%Z; repeat split; try reflexivity; vm_compute; congruence].
  intros i Hi. cbn in Hi. cbn. intuition lia.
Qed.

(* two row segments of the 2 x 2 target grid give the neighbour info of the single query (C02_ex_result) *)
Example C02_any_segments_ex :
  Organise.neighbour_info (ex_knn (KDTree.compact ex_vin)) (fun t => nth t ex_vout false) 2%Z [[0; 1]; [2; 3]] 4%Z
  = (map Some [true; true; true; false], map Some [0; 1; 3]).
Proof. vm_compute. reflexivity. Qed.
